#!/usr/bin/env python3
"""Regenerates /verif/MANIFEST.json from the table below (kept in one place so it stays valid)."""
import json, pathlib

ALL = [f'C{i:02d}' for i in range(1, 20)]

CHECKS = {
 'C06': dict(
   technique='Coq proof (wall depths form a deltaz-net: Q arithmetic on n_repeat = ceil((h-z_off)/deltaz); chain files hold only moves) + token-level differential of every file of the exported tree + run of the whole tree (FARCALL inlined) on the reference controller + shapely containment of the chains + source translator: TrenchColumn.n_repeat is re-translated from /repo on every run and proved to be the ceiling the depth-net theorems are about (coq/tie/EquivTc.v); the call file written by TrenchWriter._farcall_trench_column is translated as well and proved to be the model\'s farcall_ops of the abstracted column (coq/tie/EquivFc.v: SRC_C06_call_file), so C06_call_file_safe is a theorem about the source\'s call file; the file tree TrenchWriter.pgm creates and the files its programs load are translated too (names only) and every load is proved to have been written, MAIN calling every column in order (coq/tie/EquivTn.v)',
   text='Props/C06.v: passes of a level are deltaz apart, start at z_off, the last pass of each level is within deltaz of the top of '
        'its box and the next level starts at most deltaz above it, never above the box top - so no depth of the stack is farther '
        'than deltaz from a wall pass; wall / floor / bed files contain only G1 moves. Tie to /repo: real (U-)trench columns dug '
        'from generated layouts are exported with random configurations; MAIN.pgm, every FARCALLnnn.pgm and every wall / floor / '
        'bed file is lexed and compared with the modelled writers (sessions over op lists, export_array2d); the tree is then run '
        'on the controller model with FARCALL inlining: every called program must be loaded and exist (by exact name), nothing '
        'stays loaded, the shutter ends closed, is open only inside the chains and during pure z steps, chains are entered at '
        'their first point, and the open depth levels cover [z_off, nboxz*h_box] with gaps <= deltaz; shapely checks that every '
        'chain segment lies in its block footprint.',
   note='Trusted: Coq kernel; lexer; file-name resolution of base_folder in harness/c06.py; shapely containment (2e-5 mm). Call discipline and '
        'exposure structure are theorems about the modelled call file of every column (C06_call_file_safe, via the static '
        'checker proved sound in Ctl/Static.v) and the same verified checker is run on femto\'s own FARCALL / MAIN files; that the '
        'chains stay inside the footprints is geometry, decided by shapely on instances.',
   design='5/C06'),
 'C05': dict(
   technique='Coq proof (stable sort = sorted permutation; removal by number via python del semantics; clearance by the triangle inequality in any metric space) + differential of the list logic with recomputed GEOS blocks + shapely measurements + source translator: TrenchColumn.adj_bridge is re-translated from /repo on every run and proved to be bridge/2 + waist + corner (coq/tie/EquivTc.v)',
   text='Props/C05.v: the blocks are numbered by non-decreasing lowest y and are exactly those the geometry produced; the removal '
        'list is used as a strictly decreasing set and, for numbers in range, deletes exactly the blocks with those numbers '
        'keeping the order of the others; a block cut out farther than a from the waveguides and grown by rho stays farther '
        'than a - rho (a = bridge/2 + waist + corner, rho = corner). Tie to /repo: layouts of 1-8 waveguides (straight, S-bent, '
        'coupled, bridged, tilted, ending inside the column) with random column parameters (incl. corner radius 0, waveguides '
        'grazing the rectangle, one-block and no-block layouts, U-trench columns) and removal lists (empty, subsets, duplicates, '
        'out of range, negative); kept block identities and order are compared with the model, and shapely measures clearance '
        '>= (bridge/2 + waist)(1-1%), containment in the grown rectangle, pairwise disjointness and coverage.',
   note='Trusted: Coq kernel (Reals axioms for the clearance statement); GEOS buffer / difference / simplify as oracles; shapely '
        'measurements and tolerances in harness/c05.py.',
   design='5/C05'),
 'C07': dict(
   technique='Coq proof with the geometry as an arbitrary oracle (termination without error, order, containment under the inset law; erosion / dilation laws in a normed space) + differential with recorded GEOS answers + shapely monitors + source translator: the work-list loop of Trench.toolpath is re-translated from /repo on every run (geometry calls as oracle functions) and proved to yield exactly the model\'s sequence for every oracle (coq/tie/EquivTr.v)',
   text='Props/C07.v: for every polygon type and every answer of the inset / hatching oracles the modelled generator finishes '
        'normally, yields at most n contours followed by the hatchings, and every contoured / hatched polygon lies inside the '
        'block whenever insets lie inside their parent; the mathematical erosion lies inside the polygon and a polygon inset '
        'twice by delta and re-grown by delta+eps (eps <= delta) stays inside (normed-space lemmas); the pre-fix loop is '
        'machine-refuted. Tie to /repo: convex, L, U, bow-tie, sliver (0.2..11 spacings) and trench-like polygons with '
        'spacings 0.0005..0.01 and 2..8 turns; buffer_polygon / zigzag are wrapped to record GEOS answers which are replayed '
        'into the model (sequence of contours and hatchings, exception or not); shapely checks that every yielded polyline '
        'lies in the block and that no part of the block is farther than 1.06 delta from the path, and that border is the outline.',
   note='Trusted: Coq kernel (Reals axioms for the two normed-space statements); GEOS as oracle; shapely-based monitors and their '
        'tolerances (1e-5 containment, 1e-4 relative uncovered area); coverage is decided on instances only.',
   design='5/C07'),
 'C04': dict(
   technique='Coq proof over R (trigonometric identities for the two arcs of an S-bend, squared length, circle membership, sinusoidal end points) and over Q (linear / end) + source translator (LaserPath.init_point / start / linear / end translated and proved to be the block functions of the model, coq/tie/EquivLb.v) + differential on the appended block of every segment call',
   text='Props/C04.v: for every radius r > 0 and offset |dy| <= 4r the two arcs of an S-bend start at the current point, end at '
        '(x0 + L, y0 +- |dy|) with L^2 = 4 r |dy| - dy^2, L >= 0, and every arc point lies on its circle of radius r; couplers / MZIs '
        'return to the entry y after 2L+|int| (4L+2|int|+|arm|); sinusoidal bends reach dy, bridges return to the original depth '
        'and peak at z0+dz, comp segments return to y0; linear ABS/INC handle missing coordinates; end returns to the first point '
        'closed. Tie to /repo: random call sequences on real Waveguides (all segment kinds, both signs, zero, per-call and '
        'attribute radius / speed / lengths, after arbitrary prefixes); for every call the appended block must start exactly at '
        'the path end, keep feed and shutter, and satisfy the rational relations (squared length, circle membership of every arc '
        'sample, end displacements) on femto\'s float32 points; the coupler helper is checked for int_dist at the centre and one '
        'pitch at the ends.',
   note='Trusted: Coq kernel with the Reals axioms (sig_forall_dec, sig_not_dec, functional_extensionality_dep) and '
        'Classical_Prop.classic (through acos); numpy trigonometry and scipy BPoly as oracles; float32 tolerance 5e-6*(1+|v|); '
        'interior points of sinusoidal / spline curves are not characterised. Source tie: harness/py2coq.py and coq/tie/LbState.v (add_path as an append with the feed guard, one-element numpy arrays read as their element, the square root kept as its radicand, num_subdivisions of a square root as an oracle in the subdivided branch) are trusted.',
   design='5/C04'),
 'C10': dict(
   technique='Coq proof (invariant over all histories of the single store point add_path and of the single print point _format_args, with the float32 cast modelled) + source translator (LaserPath.add_path translated and proved - for any reading of the float32 conversion, isfinite and > 0 - to store only checked values; equal to the model on the extended numbers; the raster builder proved to store through add_path only) + degenerate-value differential on every builder in resource-limited child processes',
   text='Props/C10.v: whatever blocks the builders hand to add_path, in any order, the stored trajectory only ever holds finite '
        'coordinates and finite positive feeds (a refused block raises and leaves the path unchanged); nothing non-finite is '
        'printed by _format_args. Tie to /repo: every builder of Waveguide / Marker / RasterImage and move_to / write / set_home '
        'is called with arguments and object parameters from {0, denormal, 1e-30, 1e-6, 1, 1e6, 1e38, 3.5e38, 1e150} (both '
        'signs); after the call the recorded arrays are shipped to the Coq invariant checker and the emitted instructions are '
        'lexed (a non-fixed-point number is an error).',
   note='Trusted: Coq kernel; that every builder stores through add_path / prints through _format_args is observed, not proved; '
        'IEEE overflow and NaN generation inside numpy are not modelled; femto runs under RLIMIT_AS 4 GiB and a 2 s per-call '
        'limit (resource exhaustion counts as raising). Source tie: harness/py2coq.py and coq/tie/NpState.v (np.all / np.append / astype on arrays) are trusted; SRC_C10_store_point / SRC_C10_history assume the float32 conversion idempotent (a section hypothesis, not an axiom).',
   design='5/C10'),
 'C17': dict(
   technique='Coq proof for an arbitrary surface function s (x, y untouched; z\' = k (z + s(x,y)); flat surface = plain transform) + value-level differential with scipy\'s interpolant as oracle, sample reproduction and smoothness checks + source translator (transform_points with compensate translated and proved to be tr_warp_gen - the surface height added to z before the rigid map, x and y untouched: coq/tie/EquivTp.v)',
   text='Props/C17.v: for every interpolant s, configuration and point the compensated map leaves x\' and y\' exactly those of the plain '
        'transformation and gives z\' = k (z + s(x,y)); s = 0 is the plain transformation. Tie to /repo: POS.txt files (regular '
        'grids 3x3..15x15, 9..200 scattered samples of non-planar surfaces) in fresh directories; transform_points with and '
        'without warp_flag is compared with the model fed with femto\'s own interpolant values; x\', y\' must be bit-identical '
        'with and without the flag; the interpolant must reproduce every sample (1e-5) and stay within half the piecewise-linear '
        'error bound of the sampled smooth surface between samples.',
   note='Trusted: Coq kernel; scipy RBF solve and the smoothness of its interpolant (numerical evidence only); libm cos/sin; '
        'float32 addition of the correction modelled exactly (rnd32). Source tie: harness/py2coq.py and coq/tie/TpState.v are trusted (the surface interpolant is an oracle function; SRC_C17_transform_points_warp assumes that converting a float32 result to float32 changes nothing).',
   design='5/C17'),
 'C02': dict(
   technique='Coq proof over Q (ring identities: order of the maps, isometry, z scaling, orientation, origin, identity) and over R (degree periodicity) + value-level differential at every call site + source translator (transform_points / flip / t_matrix / compensate translated over vectors and matrices and proved, point by point and for any float32 rounding, to be tr_gen: coq/tie/EquivTp.v)',
   text='Props/C02.v: the modelled map is rotate . flip . translate with z scaled by k; xy distances scale by c^2+s^2 (isometry for a '
        'rotation), z differences by k, orientation flips exactly with one flip, the origin maps to (0,0), neutral settings give '
        'the identity; cos/sin of degrees are invariant under whole turns of any sign (Reals). Tie to /repo: transform_points on '
        'scalar / 1-point / n-point / float64 inputs, export_array2d files and plot2d traces are compared with the model fed with '
        'cos/sin computed by the documented formula (radians(angle mod 360)) and k = n_env/n_glass exactly, for random and '
        'special angles (negative, > 360, 0, None), shifts, flips and indices.',
   note='Trusted: Coq kernel (Reals axioms for the three degree theorems: sig_forall_dec, sig_not_dec, functional_extensionality_dep); '
        'libm cos/sin; float64 matmul noise within 1e-12 relative; the float32 shift subtraction is modelled exactly (rnd32), the '
        'float64 promotion of 0-d inputs as tr_scalar. Source tie: harness/py2coq.py and coq/tie/TpState.v (numpy\'s matmul / stack / transpose on rationals, float32 conversion and arithmetic as two rounding parameters, cos / sin of the angle as oracle values) are trusted.',
   design='5/C02'),
 'C18': dict(
   technique='Coq proof (stable sort is a sorted permutation; table shape; cell = attribute; column-omission iff; preamble rule) + cell-level differential reading the .xlsx back + source translator: Spreadsheet._get_structure_list is re-translated from /repo on every run and proved to be the model\'s structure_list (coq/tie/EquivSs.v)',
   text='Props/C18.v: the modelled table has one row per structure - the waveguides as a sorted permutation first, then the markers '
        'in order - one cell per kept column, each cell showing the attribute (blank when absent); a column is omitted iff it is '
        'not the name and is undefined for all rows or constant with suppression on; omitted constants go to the preamble, kept '
        'preamble fields become "variable" (static) or are removed; the sentinel collision for values >= 1e5 is machine-refuted '
        '(known finding). Tie to /repo: random devices (0-12 waveguides with equal/differing parameters and ad-hoc attributes, '
        '0-4 markers, groups), random column selections, both flags; the .xlsx is read back with openpyxl and column titles, '
        'every cell and the preamble are compared with the model.',
   note='Trusted: Coq kernel; xlsxwriter/openpyxl as oracles; numbers compared to 1e-6 relative (16-digit storage, float32 marker '
        'centres); marker rows carry centre x / centre y under Yin / Yout as coded.',
   design='5/C18'),
 'C19': dict(
   technique='Coq proof over strings (pure-path split/suffix/with_suffix, association-list merge and key filtering) + path/dict-level differential on a temporary tree with decoy files and dill round trips + source translator: LaserPath.export, helpers.load_parameters and from_dict of LaserPath / TrenchColumn are re-translated from /repo on every run and proved to be the model\'s export_target / yaml_target + load_doc / filter_keys (coq/tie/EquivPa.v)',
   text='Props/C19.v: for every path string the export and parameter-file targets keep the directory the caller named, \'.pkl\' / '
        '\'.yaml\' are added only when the suffix is missing, close writes export_dir/<stem>.pgm; every section inherits each '
        'DEFAULT key it does not define and overrides those it does, one result per non-DEFAULT section; from_dict keeps exactly '
        'the constructor parameters. Tie to /repo: export() + dill.load (same parameters, same point matrix, which file appeared), '
        'load_parameters() with decoy files in the working directory, YAML documents with/without DEFAULT, from_dict with extra '
        'keys on six classes, PGMCompiler.close into missing directories - all compared with the model.',
   note='Trusted: Coq kernel; pathlib/PyYAML/dill as oracles for normalisation, parsing and pickling; names generated in '
        'normalised POSIX form.',
   design='5/C19'),
 'C09': dict(
   technique='Coq proof (write emission depends on the compiler state only through the tracked shutter; sound history-independence monitor) + source translator with a proved statement for Device.pgm (the reported estimate is rebuilt from nothing on every export) + history-level snapshots of real objects, files and reported numbers',
   text='Props/C09.v: what the modelled write emits depends on the compiler state only through the shutter flag, hence writing '
        'the same matrix twice emits the same instructions twice; the history monitor (consistentb) is proved sound: when it '
        'accepts, every observed result is a function of the operation alone. Tie to /repo: devices with waveguides, markers and '
        'a (U)trench column and a non-zero origin shift go through random histories of write / transform / plot2d / plot3d / pgm '
        '/ xlsx / toolpath / fabrication_time calls with repeats; digests of results, exported file trees, spreadsheet cells and '
        'reported lengths/times are checked for history independence and digests of every array/object/list for being '
        'bit-identical before and after each call. SOURCE TIE: Device.pgm is re-translated from /repo/src/femto/device.py on every run '
        '(SrcRp.v) and EquivRp.v proves SRC_C09_device_pgm / _state_independent / _repeat / _history / _log: after an export the '
        'estimate is the symbolic sum 0.0 + t_1 + ... of the _fabtime each writer holds after its own pgm(), read in the order of '
        'self.writers, whatever the device held before and however many exports preceded; each export runs every writer once; SrcWn.v / SrcTn.v: '
        'a writer holding objects stores the estimate of this export on every export (event WFab), nothing is stored under `if verbose`; SrcRt.v / '
        'EquivRt.v: Trench.toolpath restarts _wall_length and _floor_length before reading either (state independence, repeat, history).',
   note='Trusted: Coq kernel; harness/py2coq.py (group SrcRp.v) and coq/tie/RpState.v (float + kept symbolic); SHA-1 digests and the snapshot code in harness/c09.py; plotly figures digested through their numeric '
        'trace data. Purity of numpy/shapely internals is observed, not proved.',
   design='5/C09'),
 'C16': dict(
   technique='Coq model of the routing (buckets by exact type, writer extend/append, flatten, nest_level) with theorems for single objects, foreign values, waveguide groups, the single-column writer and the general clause (any mixture of supported entries, any sequence of extends, foreign entries anywhere) + identity-level differential on real objects over call histories + source translator: append / extend of the five writers are re-translated from /repo on every run and proved to be the model\'s writer_append / writer_extend (coq/tie/EquivAe.v); Device.append / extend / parse_objects and the registry of Device.__init__ are translated from device.py and proved to be the model\'s dev_append / dev_extend / parse_objects over any history, and the property theorems are restated on the translated code (coq/tie/EquivDev.v); helpers.flatten / nest_level are translated with open recursion and the model\'s flat / nest_i proved to be their unique solution (coq/tie/EquivHl.v)',
   text='Props/C16.v: a single supported object goes to the collection of its own type and nowhere else; any other type is rejected '
        'with TypeError and nothing is stored; Device.extend with waveguides and groups of waveguides appends them in order with '
        'the grouping preserved and touches no other collection; a trench writer built from one column equals the one built from '
        'a one-element list; C16_extend_any_mixture / C16_any_sequence_of_extends: Device.extend with any mixture of objects of the five '
        'types and groups of waveguides raises nothing and every collection receives exactly the entries of its own type in the '
        'order given, over any sequence of calls; an entry of any other type anywhere makes the call raise. Tie to /repo: random histories of Device.append/extend and of every writer\'s append/extend on real '
        'Waveguide / NasuWaveguide / TrenchColumn / UTrenchColumn / Marker objects, user subclasses, foreign values, groups and '
        'nested groups: exception class per call, the five obj_lists (identities and nesting) and every argument after the call '
        'are compared with the model; TrenchWriter / UTrenchWriter constructors are exercised with single columns and lists.',
   note='Trusted: Coq kernel; harness/c16.py identity bookkeeping. That the caller\'s lists are left untouched cannot be '
        'stated in a model with immutable values and is decided by the correspondence, as are histories mixing device and '
        'writer calls.',
   design='5/C16'),
 'C08': dict(
   technique='Coq proof (Nasu pass order as an arithmetic characterisation; REPEAT executes its body n times) + token-level differential of the _WG/_NASU/_MK files through the session model + controller monitors + file-system naming check + source translator: NasuWaveguide.adj_scan_order is re-translated from /repo on every run and proved equal to the model\'s pass order (coq/tie/EquivNw.v); the programs written by WaveguideWriter.pgm / MarkerWriter.pgm / NasuWriter.pgm inside the compiler context are translated as well and proved to be the model\'s op lists (coq/tie/EquivWr.v) + source translator for the file each writer compiles (empty writer: none; otherwise stem + _WG / _NASU / _MK .pgm: coq/tie/EquivWn.v)',
   text='Props/C08.v: the Nasu pass offsets are exactly {k/2 : |k| <= n-1, k = n-1 mod 2} (n entries, symmetric, one shift apart, '
        'centred), ordered outward, feed and shutter untouched; the writer op lists are one REPEAT(scan) block per group / marker; '
        'the controller runs a REPEAT body n times. Tie to /repo: WaveguideWriter / NasuWriter / MarkerWriter .pgm() are run on '
        'generated object lists (groups, scans 1..5, adj_scan 1..8, 3-D shifts) and configurations; the written file is compared '
        'token by token with session(cfg, modelled ops) and run on the controller (no error, exposure = the modelled one); '
        'adj_scan_order is compared with the model; file names / export_dir / no file for empty writers are checked on disk.',
   note='Trusted: Coq kernel, lexer, naming check in harness/c08.py; that each write replays its path is C01; the per-structure '
        'repetition count follows from C01 + REPEAT semantics + the token-level tie, it is not a single end-to-end theorem.',
   design='5/C08'),
 'C14': dict(
   technique='Coq proof (strokes of the modelled start/linear/end sequences = documented figures; induction over ticks, passes, vertices, copies) + source translator (the five Marker methods read as sequences of start / linear / end calls; all proved equal to the model; LaserPath.start / linear / end translated and proved) + stroke-level differential on Marker.points',
   text='Props/C14.v: for all positions, lengths, tick lists, extents, vertex lists and shifts the open-shutter strokes of the '
        'modelled cross / ruler / meander / ablation / box are exactly the documented figures (two centred arms; one stroke per '
        'distinct tick in increasing y from x_init to the absolute tick x; one stroke of floor(ext/delta)+1 alternating lines; '
        'vertices in order plus four displaced copies; closed rectangle), np.unique is modelled by a proved sort_uniq. Tie to '
        '/repo: every primitive is called with generated arguments (2-D and 3-D positions, unsorted repeated ticks, both '
        'orientations and directions); femto\'s recorded trajectory is compared point by point with the model and the strokes '
        'of its raw trajectory and of its points matrix with the model\'s strokes. SOURCE TIE: Marker.cross / ruler / meander / '
        'ablation / box are re-translated from /repo on every run (SrcMk.v) over hand-given start / linear / end (coq/tie/MkState.v); '
        'coq/tie/EquivMk.v proves cross (2-D, 3-D, refusal), ruler, ablation (with and without displaced copies), box and meander (both orientations, 2-D / 3-D '
        'start) to record exactly the model\'s trajectory (12 theorems); coq/tie/EquivLb.v proves the translated LaserPath.start / end to be the '
        'block functions of Path/Laser.v.',
   note='Trusted: Coq kernel; coq/tie/MkState.v (LaserPath.start / linear / end and the numpy calls of marker.py given by hand); exact-rational model vs float32 storage compared within 1e-5*(1+|v|); meander pass counts are '
        'generated away from integer quotients.',
   design='5/C14'),
 'C13': dict(
   technique='Coq proof over Q (ceiling arithmetic, nra) + differential on num_subdivisions and on the stored blocks of every curved primitive + source translator: LaserPath.num_subdivisions is re-translated from /repo on every run and proved equal to the model\'s num_sub (coq/tie/EquivLp.v)',
   text='Props/C13.v: for every rational length and step, n = ceil(len/dl) >= 2 uniform samples are more than one and at most '
        'two steps apart; the 3-point fallback is used exactly when len <= dl; the time between samples exceeds 1/cmd_rate_max; '
        'linspace has a constant step. Tie to /repo: num_subdivisions is compared exactly with the rational model on random and '
        'boundary-exact (dyadic) inputs incl. rejected speeds; for circ / arc_bend / sin_* / spline blocks the number of stored '
        'points and their spacing (chord length on arcs, delta-x on sinusoidal/spline) are checked in Q against the model.',
   note='Trusted: Coq kernel; harness/c13.py; float division near an integer quotient (2^-40) accepted either way and counted; '
        'float32 storage tolerance; S-bend length taken from femto.',
   design='5/C13'),
 'C15': dict(
   technique='Coq proof (induction over rows and runs; strokes of the modelled trajectory = spec) + source translator (image_to_path translated, with the translated split_mask, and proved to record the raster of the model for every matrix: coq/tie/EquivRi.v) + exhaustive small images and random large ones, stroke-level monitor',
   text='Props/C15.v: for every boolean matrix, size and scale the open-shutter strokes of the modelled raster trajectory are, in '
        'image order, one stroke per maximal run of black pixels spanning first..last pixel x at the row y; runs contain only '
        'black pixels (C11 run theorems). Tie to /repo: image_to_path is run on every image with w*h <= 8 (quick) / 12 (thorough) '
        'and on random images in modes 1/L/RGB; the recorded trajectory is compared point by point with the model and the '
        'strokes of femto\'s raw trajectory and of its points matrix are compared with the specified strokes.',
   note='Trusted: Coq kernel; PIL conversion as oracle; float32 tolerance 2.5e-7 relative on coordinates. Source tie: harness/py2coq.py, coq/tie/RiState.v (PIL conversion to mode 1 as an oracle matrix, linspace, ones_like, add_path as the zip of its arrays) and coq/tie/NpState.v are trusted.',
   design='5/C15'),
 'C03': dict(
   technique='Coq proof (nested induction over op trees / loop trees: parse-flatten inversion, well-formed emission under exceptions) + source translator with a proved simulation (every translated method of PGMCompiler vs the model) + history-level differential with exceptions (Exception and BaseException) injected at every position + controller monitors on femto\'s own file',
   text='Props/C03.v: for every op tree and exception position the session file is the DVAR preamble plus the print of a '
        'well-formed loop tree (balanced, nested, NEXT matches FOR) and parses back to it; calls/removals of unloaded programs '
        'are refused; C03_no_error_shutter_rotation: for every tree of public operations (closed-path writes, positioning, '
        'nested REPEAT/FOR/rotation blocks, load/call/remove, declarations, user exceptions anywhere) the written file runs on '
        'the controller, from any machine state, with no error other than not-loaded calls, ends with the shutter closed and '
        'the rotation off (Ctl/Safety.v, Pgm/SafeProofs.v, Pgm/CalmProofs.v, Pgm/SessionSafe.v); positioning moves are '
        'shutter-closed; the loaded-before/unloaded-after clause is machine-refuted for loop bodies that change the loaded '
        'set (known finding). Tie to /repo: random and directed op trees are run against the real PGMCompiler with real with-blocks '
        'and a user exception at every position; written-or-not, exception class, token stream and dwell are compared with '
        'the model, and femto\'s file is parsed and run on the controller model (no controller error, rotation off, shutter '
        'closed at the end, exposure only on written paths); a second-file-of-one-compiler stream re-enters the context on one object and judges the second file the same way (Pgm/Reuse.v, C03_next_file_starts_clean, C03_reused_compiler). SOURCE TIE (also re-checked on every run): harness/py2coq.py translates '
        'the 28 bookkeeping methods of PGMCompiler from /repo/src/femto/pgmcompiler.py into Gallina (fail closed), coq/tie/PgmEquiv.v '
        'proves that the translated session - __enter__, any tree of API calls with Python-level arguments, exceptions anywhere, '
        '__exit__ - writes the same tokens, reports the same dwell and raises the same exception as the model (session_equiv), and '
        'coq/tie/SrcProps.v restates C03_balanced and C03_no_error_shutter_rotation for the translated source.',
   note='Trusted: Coq kernel, lexer, Python with/finally semantics, the translator harness/py2coq.py with the meaning it gives '
        'the Python subset (coq/tie/PyPrelude.v, PgmState.v: floats as rationals, hand-given transform_points / _get_filepath / '
        'header file / close) and the template table coq/tie/LineTok.v, Ctl/Machine.v as the reference controller. That the '
        'open moves are exactly those of the written paths is decided by the exposure monitor on generated instances; the '
        'theorem assumes a positioning speed that does not print as F0.000000 in the rotation lines.',
   design='5/C03'),
 'C12': dict(
   technique='Coq proof (induction over op trees and loop trees: reported dwell = static dwell = executed dwell) + source translator with a proved simulation (dwell bookkeeping of the translated dwell / repeat / for_loop vs the model) + history-level differential + controller monitor',
   text='Props/C12.v: for every configuration and op tree (any nesting, None/0/negative pauses, exceptions anywhere) the dwell '
        'reported by the modelled session equals the dwell the controller executes when running the written file, from any '
        'machine state. Tie to /repo: same histories as C03; femto\'s dwell_time is compared with the model and with the '
        'dwell executed by the controller on femto\'s own file; fabrication_time of closed paths is compared with the '
        'Gallina travel-time model and with scans x travel time of the controller trace of one compiled pass. SOURCE TIE: '
        'the methods of PGMCompiler are re-translated from /repo on every run (harness/py2coq.py) and coq/tie/PgmEquiv.v proves the '
        'translated session equal to the model\'s, dwell total included (SRC_C12_dwell in coq/tie/SrcProps.v).',
   note='Trusted: Coq kernel, lexer; the source translator and its target language (coq/tie/PyPrelude.v, PgmState.v, LineTok.v); float summation covered by 1e-9 (dwell) / 2e-4 (float32 fabrication_time) relative '
        'tolerances; for the fabrication-time clause the theorem is the preservation of step lengths by the transformation '
        '(C12_step_lengths_preserved, with C01_replay); the float effects are decided by correspondence.',
   design='5/C12'),
 'C01': dict(
   technique='Coq proof (induction over the point list, invariant machine-shutter = tracked-shutter) + source translator with a proved simulation (the translated write / _format_args / shutter / dwell vs the model) + token-level differential + verified-by-construction replay monitor on femto\'s own .pgm',
   text='Props/C01.v: for every configuration, compiler state, agreeing machine state and 0/1-flagged point list the modelled '
        'write either raises before emitting (feed below the printable limit) or emits a program whose run on the reference '
        'controller visits exactly the formatted transformed points, in order, with each point\'s feed and shutter, ends with '
        'the tracked shutter state, and prints the configured decimals; fmt is within half a last-digit unit of the exact value. '
        'Tie to /repo: femto writes a .pgm for generated matrices (builder paths, lattice walks, exhaustive toggle patterns, '
        'malformed stream) x configurations; the lexed file is compared token by token with the model and replayed on the '
        'controller model inside Coq (also for a write entered with the shutter open). SOURCE TIE: write, _format_args, shutter, '
        'dwell, instruction are re-translated from /repo/src/femto/pgmcompiler.py on every run and proved to simulate the model '
        '(Sim_write); SRC_C01_replay states the replay theorem for the translated write.',
   note='Trusted: Coq kernel, harness/lexer.py, the source translator harness/py2coq.py and its target language (coq/tie/PyPrelude.v, '
        'PgmState.v with transform_points given as the float32 pipeline of Geo/Rigid.v, LineTok.v), harness/pgm.py (cfg rendering, cos/sin/k read from femto t_matrix), '
        'reference controller Ctl/Machine.v is a specification written for this task; float64 matmul rounding covered by a '
        'one-last-digit tolerance; float32 shift subtraction modelled exactly (rnd32).',
   design='5/C01'),
 'C11': dict(
   technique='Coq proof (induction over lists, any type with decidable equality) + source translator (unique_filter, split_mask and the LaserPath views read operation by operation over a numpy array semantics) with proved equivalence to the model + differential correspondence model-vs-femto via vm_compute',
   text='Theorems in coq/theories/Props/C11.v prove, for every list over every type with decidable equality, that the modelled '
        'unique_filter keeps exactly the first row and the rows differing from their predecessor (order, no adjacent equals, '
        'idempotence, first/last, projections) and that the modelled split_mask returns the maximal runs of selected elements. '
        'The model is tied to /repo by running femto (LaserPath.points/x/y/z/last*/path3d, helpers.split_mask) and the Gallina '
        'model on the same float32 matrices and masks on every run, compared bit for bit. SOURCE TIE: helpers.unique_filter, '
        'helpers.split_mask and LaserPath.points / x / y / z / lastx / lasty / lastz / lastpt / path3d / path are re-translated from '
        '/repo on every run (SrcUf.v) and coq/tie/EquivUf.v proves them to be dedup / runs and their projections (17 theorems, closed).',
   note='Trusted: Coq kernel; harness/c11.py (float32 -> equality codes, NaN fresh codes, bit patterns); float clause '
        '(a-b != 0 iff a != b for finite binary32) validated not proved. numpy is read through the array semantics of coq/tie/NpState.v (trusted: that it says what numpy does on the shapes that occur).',
   design='5/C11'),
}

def main():
    checks = []
    for pid, c in sorted(CHECKS.items()):
        checks.append({
            'property_id': pid,
            'quick_cmd': f'bin/check {pid} quick',
            'thorough_cmd': f'bin/check {pid} thorough',
            'evidence_file': f'/verif/evidence/{pid}.json',
            'replay_cmd_template': f'bin/check {pid} --replay {{path}}',
            'engine': 'coq-model+correspondence',
            'level_claimed': {'category': 'proof', 'text': c['text'], 'design_ref': c['design']},
            'level_note': c['note'],
            'technique': c['technique'],
        })
    na = [{'property_id': p, 'reason': 'check not built yet in this round (model/proofs/correspondence pending, see DESIGN.md section 9); no claim is made'}
          for p in ALL if p not in CHECKS]
    m = {
        'version': 1,
        'setup_cmd': 'cd /verif/coq && coq_makefile -f _CoqProject -o Makefile && timeout 3000 make -j16',
        'hooks': {'guard': 'FEMTO_VERIF', 'enable': 'no source hooks are used; checks import /repo/src directly (PYTHONPATH=/repo/src)',
                  'baseline_off_cmd': 'cd /repo && /venv/bin/python -m pytest -ra -q -p no:cacheprovider --timeout=900 --continue-on-collection-errors',
                  'source_commits': [], 'add_only': True},
        'engines': [{'name': 'coq-model+correspondence', 'path': '/verif/coq', 'serves_properties': sorted(CHECKS),
                     'kind_free_text': 'Coq 8.16 development (models, proofs, executable checkers) + Python harness that runs femto and the model on the same cases'}],
        'checks': checks,
        'not_applicable': na,
        'notes': 'fix: commits in /repo are listed in known_findings.json (status=fixed).',
    }
    pathlib.Path('/verif/MANIFEST.json').write_text(json.dumps(m, indent=1) + '\n')

if __name__ == '__main__':
    main()
