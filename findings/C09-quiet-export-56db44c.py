import contextlib, io, os, tempfile
from femto.device import Device
from femto.waveguide import Waveguide
from femto.marker import Marker
def build(d):
    dev = Device(filename='cell.pgm', laser='PHAROS', shift_origin=(0.5, 0.5), samplesize=(25, 1), export_dir=d)
    wg = Waveguide(speed=20, radius=25, pitch=0.080, int_dist=0.007, samplesize=(25, 3))
    wg.start([-2, 0, 0.035]); wg.linear([5, 0, 0]); wg.end(); dev.append(wg)
    mk = Marker(scan=1, speed=2, speed_pos=5, speed_closed=5, depth=0.0, lx=1, ly=1); mk.cross([4, 3]); dev.append(mk)
    return dev
def ex(dev, v):
    with contextlib.redirect_stdout(io.StringIO()):
        dev.pgm(verbose=v)
    return dev.fabrication_time
with tempfile.TemporaryDirectory() as t:
    os.chdir(t)
    a = build(t + '/a'); r1 = ex(a, False)
    b = build(t + '/b'); ex(b, True); r2 = ex(b, False)
    print('quiet export on a fresh device:', r1); print('quiet export after a verbose one:', r2)
    raise SystemExit(0 if r1 == r2 else 1)
