(* PGMCompiler.transform_points / flip / t_matrix / compensate as translated from the source (SrcTp.v, re-generated from /repo on every
   run) are the documented rigid map of Geo/Rigid.v, point by point: translate by the origin shift (float32 arithmetic), mirror x and / or y,
   rotate by the angle whose cosine and sine are given, scale z by 1 / neff - in that order - and, with warp compensation, first add the
   surface height to z (Geo/Warp.v).  Equality of the coordinates is equality of rational numbers (Qeq): the matrix products carry
   terms like 0 * y that change the fraction, not the number. *)
From Coq Require Import List Bool ZArith QArith Lia.
Import ListNotations.
From Femto Require Import Base.Num Geo.Rigid Geo.Warp.
From FemtoTie Require Import PyPrelude TpState SrcTp.

Definition p3 := (Q * Q * Q)%type.
Definition p3_eq (a b : p3) : Prop := fst (fst a) == fst (fst b) /\ snd (fst a) == snd (fst b) /\ snd a == snd b.
Definition px (p : p3) : Q := fst (fst p). Definition py (p : p3) : Q := snd (fst p). Definition pz (p : p3) : Q := snd p.

Definition tcfg_of (c : tp_cfg) : tcfg :=
  {| t_sx := tp_shift_x c; t_sy := tp_shift_y c; t_fx := tp_flip_x c; t_fy := tp_flip_y c; t_c := tp_cos c; t_s := tp_sin c; t_k := 1 / tp_neff c |}.

(* ---------------- matrices given point by point ---------------- *)
Section Rows.
Context {P : Type}.
Lemma mheads_map : forall (f : P -> Q) (g : P -> list Q) pts, mheads (map (fun p => f p :: g p) pts) = map f pts.
Proof. intros f g pts. induction pts as [|p pts IH]; [reflexivity|]. unfold mheads in *. cbn [map flat_map app]. now rewrite IH. Qed.
Lemma tl_map : forall (f : P -> Q) (g : P -> list Q) pts, map (@tl Q) (map (fun p => f p :: g p) pts) = map g pts.
Proof. intros. rewrite map_map. reflexivity. Qed.

(* the transpose of an n x 3 matrix (n >= 1) and of an n x 2 matrix *)
Lemma mT_rows3 : forall (f g h : P -> Q) p pts,
  mT (map (fun p => [f p; g p; h p]) (p :: pts)) = [map f (p :: pts); map g (p :: pts); map h (p :: pts)].
Proof.
  intros f g h p pts. unfold mT.
  replace (ncols (map (fun p0 => [f p0; g p0; h p0]) (p :: pts))) with 3%nat by reflexivity.
  cbn [mcols].
  rewrite (mheads_map f (fun q => [g q; h q]) (p :: pts)), (tl_map f (fun q => [g q; h q]) (p :: pts)).
  rewrite (mheads_map g (fun q => [h q]) (p :: pts)), (tl_map g (fun q => [h q]) (p :: pts)).
  rewrite (mheads_map h (fun _ => []) (p :: pts)). reflexivity.
Qed.

(* 3 (resp. 2) equally long vectors given point by point: one row per point *)
Lemma mcols_cols3 : forall (f g h : P -> Q) pts,
  mcols (length pts) [map f pts; map g pts; map h pts] = map (fun p => [f p; g p; h p]) pts.
Proof. induction pts as [|p pts IH]; [reflexivity|]. cbn [length mcols map tl mheads flat_map app]. rewrite IH. reflexivity. Qed.
Lemma mcols_cols2 : forall (f g : P -> Q) pts,
  mcols (length pts) [map f pts; map g pts] = map (fun p => [f p; g p]) pts.
Proof. induction pts as [|p pts IH]; [reflexivity|]. cbn [length mcols map tl mheads flat_map app]. rewrite IH. reflexivity. Qed.
End Rows.

Section Tp.
Context (ri ro : Q -> Q) (srf : Q -> Q -> Q).

(* the translated code, point by point: what each output coordinate is, as the source computes it *)
Definition x1 (c : tp_cfg) (p : p3) : Q := ro (ri (px p) - ro (tp_shift_x c)).
Definition y1 (c : tp_cfg) (p : p3) : Q := ro (ri (py p) - ro (tp_shift_y c)).
(* -(int(flag) * 2 - 1), as the translation types it (the instances of PyPrelude pick rational arithmetic: same number) *)
Definition sgn (b : bool) : Q := @to_float Q tofloat_Q (@pyneg Q neg_Q (@pysub Q Q Q sub_Q (@pymul Z Q Q mul_ZQ (to_int b) (of_int 2)) (of_int 1))).
Definition x2 (c : tp_cfg) (p : p3) : Q := dot [sgn (tp_flip_x c); 0] [x1 c p; y1 c p].
Definition y2 (c : tp_cfg) (p : p3) : Q := dot [0; sgn (tp_flip_y c)] [x1 c p; y1 c p].

Lemma flip_pointwise : forall c (pts : list p3) (zf : p3 -> Q),
  src_flip c (map (x1 c) pts) (map (y1 c) pts) tt = (Ret [map (x2 c) pts; map (y2 c) pts], tt).
Proof.
  intros c pts zf. unfold src_flip. cbv zeta. unfold matmul at 1.
  match goal with |- context [map ?f [?a; ?b]] => change (map f [a; b]) with [f a; f b] end. cbv beta.
  match goal with |- context [mT ?L] =>
    assert (E : mT L = map (fun p => [x1 c p; y1 c p]) pts) by (unfold mT; cbn [ncols]; rewrite map_length; apply mcols_cols2);
    rewrite !E end.
  rewrite !map_map. unfold ret. reflexivity.
Qed.

Definition TMc (c : tp_cfg) : mat :=
  mT (matmul [[1; 0; 0]; [0; 1; 0]; [0; 0; to_float (pydiv (of_int 1) (tp_neff c))]]
             [[to_float (tp_cos c); to_float (pyneg (tp_sin c)); 0]; [to_float (tp_sin c); to_float (tp_cos c); 0]; [0; 0; 1]]).

Definition col (k : nat) (c : tp_cfg) : vec := nth k (mT (TMc c)) [].
Definition outx (c : tp_cfg) (zf : p3 -> Q) (p : p3) : Q := dot [x2 c p; y2 c p; zf p] (col 0 c).
Definition outy (c : tp_cfg) (zf : p3 -> Q) (p : p3) : Q := dot [x2 c p; y2 c p; zf p] (col 1 c).
Definition outz (c : tp_cfg) (zf : p3 -> Q) (p : p3) : Q := dot [x2 c p; y2 c p; zf p] (col 2 c).

(* from the flipped x, y and the z handed to the rotation to the three returned arrays *)
Lemma rotate_pointwise : forall c (zf : p3 -> Q) p pts,
  (let point_matrix := stack_last [map (x2 c) (p :: pts); map (y2 c) (p :: pts); map zf (p :: pts)] in
   tm <- src_t_matrix c ;; ret (mT (matmul point_matrix tm))) tt
  = (Ret [map (outx c zf) (p :: pts); map (outy c zf) (p :: pts); map (outz c zf) (p :: pts)], tt).
Proof.
  intros c zf p pts. cbv zeta. unfold bind, src_t_matrix, ret. cbv zeta. fold (TMc c).
  unfold stack_last. cbn [ncols]. rewrite map_length. rewrite (mcols_cols3 (x2 c) (y2 c) zf (p :: pts)).
  unfold matmul at 1. rewrite map_map.
  assert (E : mT (TMc c) = [col 0 c; col 1 c; col 2 c]) by reflexivity.
  rewrite (map_ext _ (fun p0 => [outx c zf p0; outy c zf p0; outz c zf p0])) by (intros a; rewrite E; reflexivity).
  rewrite (mT_rows3 (outx c zf) (outy c zf) (outz c zf) p pts). reflexivity.
Qed.

Lemma zip3_maps : forall {P} (f g h : P -> Q) (l : list P), zip3 (map f l) (map g l) (map h l) = map (fun p => (f p, g p, h p)) l.
Proof. intros P f g h l. induction l as [|a l IH]; [reflexivity|]. cbn [map zip3]. now rewrite IH. Qed.
Lemma Forall2_maps : forall {P B} (R : B -> B -> Prop) (f g : P -> B) (l : list P), (forall p, R (f p) (g p)) -> Forall2 R (map f l) (map g l).
Proof. intros P B R f g l H. induction l as [|a l IH]; cbn [map]; constructor; [apply H|exact IH]. Qed.

(* the output of one point is the documented map of that point, for any z handed to the rotation *)
Lemma out_is_tr : forall c (p : p3) (zv : Q),
  p3_eq (dot [x2 c p; y2 c p; zv] (col 0 c), dot [x2 c p; y2 c p; zv] (col 1 c), dot [x2 c p; y2 c p; zv] (col 2 c))
        (let x2m := flipq (tp_flip_x c) (x1 c p) in let y2m := flipq (tp_flip_y c) (y1 c p) in
         (tp_cos c * x2m - tp_sin c * y2m, tp_sin c * x2m + tp_cos c * y2m, (1 / tp_neff c) * zv)).
Proof.
  intros c p zv. unfold p3_eq. cbn [fst snd]. cbv zeta.
  cbn [col TMc mT matmul ncols mcols mheads flat_map map app tl length nth dot].
  unfold x2, y2, sgn. cbn [dot].
  unfold to_float, tofloat_Q, pyneg, neg_Q, pysub, sub_Q, pymul, mul_ZQ, of_int, ofint_Q, ofint_Z, pydiv, div_ZQ, to_int, toint_bool, flipq.
  destruct (tp_flip_x c), (tp_flip_y c); unfold inject_Z; repeat split; ring.
Qed.

(* the whole method on n >= 1 points, for any z handed on by the (optional) compensation *)
Lemma pipeline : forall c (zf : p3 -> Q) p pts,
  (let x := sub_f32 ro (map (fun q => ri (px q)) (p :: pts)) (tp_shift_x c) in
   let y := sub_f32 ro (map (fun q => ri (py q)) (p :: pts)) (tp_shift_y c) in
   fl <- src_flip c x y ;;
   match fl with
   | [x; y] => let point_matrix := stack_last [x; y; map zf (p :: pts)] in tm <- src_t_matrix c ;; ret (mT (matmul point_matrix tm))
   | _ => raise EValue
   end) tt
  = (Ret [map (outx c zf) (p :: pts); map (outy c zf) (p :: pts); map (outz c zf) (p :: pts)], tt).
Proof.
  intros c zf p pts. cbv zeta. unfold sub_f32. rewrite !map_map.
  change (map (fun x => ro (ri (px x) - ro (tp_shift_x c))) (p :: pts)) with (map (x1 c) (p :: pts)).
  change (map (fun x => ro (ri (py x) - ro (tp_shift_y c))) (p :: pts)) with (map (y1 c) (p :: pts)).
  unfold bind at 1. rewrite (flip_pointwise c (p :: pts) zf).
  exact (rotate_pointwise c zf p pts).
Qed.

Definition cols3 (pts : list p3) : vec * vec * vec := (map px pts, map py pts, map pz pts).

(* C02: without warp compensation the three returned arrays are, point by point, the documented rigid map *)
Theorem SRC_C02_transform_points : forall c p pts, tp_warp_flag c = false ->
  exists X Y Z,
    src_transform_points ri ro srf c (map px (p :: pts)) (map py (p :: pts)) (map pz (p :: pts)) tt = (Ret [X; Y; Z], tt) /\
    Forall2 p3_eq (zip3 X Y Z) (map (tr_gen ri ro (tcfg_of c)) (p :: pts)).
Proof.
  intros c p pts Hw. unfold src_transform_points. cbv zeta. rewrite Hw. cbn [truthy truthy_bool].
  unfold as_f32. rewrite !map_map.
  exists (map (outx c (fun q => ri (pz q))) (p :: pts)), (map (outy c (fun q => ri (pz q))) (p :: pts)), (map (outz c (fun q => ri (pz q))) (p :: pts)).
  split; [exact (pipeline c (fun q => ri (pz q)) p pts)|].
  rewrite zip3_maps. apply Forall2_maps. intros [[x y] z]. unfold outx, outy, outz.
  exact (out_is_tr c (x, y, z) (ri z)).
Qed.

(* C17: with warp compensation the surface height is added to z (float32 arithmetic) before the rigid map; x and y go through the rigid
   map as without compensation.  [ri (ro v) = ro v]: converting a float32 result to float32 changes nothing. *)
Lemma surface_maps : forall (f g : p3 -> Q) pts, surface ro srf (map f pts) (map g pts) = map (fun q => ro (srf (f q) (g q))) pts.
Proof. intros f g pts. induction pts as [|a l IH]; [reflexivity|]. cbn [map surface]. now rewrite IH. Qed.
Lemma add_maps : forall (f g : p3 -> Q) pts, add_f32 ro (map f pts) (map g pts) = map (fun q => ro (f q + g q)) pts.
Proof. intros f g pts. induction pts as [|a l IH]; [reflexivity|]. cbn [map add_f32]. now rewrite IH. Qed.

Theorem SRC_C17_transform_points_warp : forall c p pts, tp_warp_flag c = true -> (forall v, ri (ro v) = ro v) ->
  exists X Y Z,
    src_transform_points ri ro srf c (map px (p :: pts)) (map py (p :: pts)) (map pz (p :: pts)) tt = (Ret [X; Y; Z], tt) /\
    Forall2 p3_eq (zip3 X Y Z) (map (tr_warp_gen ri ro srf (tcfg_of c)) (p :: pts)).
Proof.
  intros c p pts Hw Hidem. unfold src_transform_points. cbv zeta. rewrite Hw. cbn [truthy truthy_bool].
  unfold as_f32. rewrite !map_map. unfold bind at 1, src_compensate, ret. cbv zeta.
  rewrite (surface_maps (fun q => ri (px q)) (fun q => ri (py q))), (add_maps (fun q => ri (pz q))).
  set (zf := fun q : p3 => ro (ri (pz q) + ro (srf (ri (px q)) (ri (py q))))).
  exists (map (outx c zf) (p :: pts)), (map (outy c zf) (p :: pts)), (map (outz c zf) (p :: pts)).
  split; [exact (pipeline c zf p pts)|].
  rewrite zip3_maps. apply Forall2_maps. intros [[x y] z]. unfold outx, outy, outz, tr_warp_gen, tr_gen.
  rewrite Hidem. exact (out_is_tr c (x, y, z) (zf (x, y, z))).
Qed.
End Tp.
Print Assumptions SRC_C02_transform_points.
Print Assumptions SRC_C17_transform_points_warp.

(* the readings of the rounding used elsewhere: exact arithmetic, and float32 arrays (Geo/Rigid.tr32, Geo/Warp.tr_warp32) *)
Corollary SRC_C02_exact : forall srf c p pts, tp_warp_flag c = false ->
  exists X Y Z,
    src_transform_points (fun q => q) (fun q => q) srf c (map px (p :: pts)) (map py (p :: pts)) (map pz (p :: pts)) tt = (Ret [X; Y; Z], tt) /\
    Forall2 p3_eq (zip3 X Y Z) (map (tr (tcfg_of c)) (p :: pts)).
Proof. intros. now apply SRC_C02_transform_points. Qed.

Corollary SRC_C02_float32 : forall srf c p pts, tp_warp_flag c = false ->
  exists X Y Z,
    src_transform_points rnd32 rnd32 srf c (map px (p :: pts)) (map py (p :: pts)) (map pz (p :: pts)) tt = (Ret [X; Y; Z], tt) /\
    Forall2 p3_eq (zip3 X Y Z) (map (tr32 (tcfg_of c)) (p :: pts)).
Proof. intros. now apply SRC_C02_transform_points. Qed.

Corollary SRC_C17_exact : forall srf c p pts, tp_warp_flag c = true ->
  exists X Y Z,
    src_transform_points (fun q => q) (fun q => q) srf c (map px (p :: pts)) (map py (p :: pts)) (map pz (p :: pts)) tt = (Ret [X; Y; Z], tt) /\
    Forall2 p3_eq (zip3 X Y Z) (map (tr_warp srf (tcfg_of c)) (p :: pts)).
Proof. intros. apply SRC_C17_transform_points_warp; [assumption|reflexivity]. Qed.
Print Assumptions SRC_C02_exact.
Print Assumptions SRC_C02_float32.
Print Assumptions SRC_C17_exact.
