(* Dynamically typed objects for the translated append / extend methods of the five writers (SrcAe.v, generated): the items
   of the routing model Writers/Device.v, with isinstance / flatten / nest_level read on them. *)
From Coq Require Import List Bool ZArith NArith.
Import ListNotations.
From Femto Require Import Writers.Device.
From FemtoTie Require Import PyPrelude.

Definition MI : Type -> Type := @M (list item).          (* the state is the writer's obj_list *)
Definition ol (s : list item) : list item := s.
Definition set_ol (v : list item) (s : list item) : list item := v.

Definition is_grp (it : item) : bool := match it with Grp _ => true | Obj _ _ => false end.                 (* isinstance(x, list) *)
Definition isinst_item (it : item) (cls : kind) : bool := match it with Obj k _ => isinst k cls | Grp _ => false end.
Definition flat_of (it : item) : list item := match it with Grp l => flat l | Obj _ _ => [it] end.         (* flatten(x) of a list x *)
Definition nest_of (it : item) : nat := nest_i it.                                                          (* nest_level(x) *)
Definition as_list (it : item) : list item := match it with Grp l => l | Obj _ _ => [] end.                (* the list x itself *)

(* `not lst` on an item: an empty python list is falsy (objects of the five classes define neither __bool__ nor __len__) *)
Global Instance truthy_item : Truthy item := fun it => match it with Grp [] => false | _ => true end.
(* max(<values>): ValueError on an empty sequence *)
Definition max_of (l : list Z) : MI Z := match l with [] => raise EValue | x :: r => ret (fold_left Z.max r x) end.
