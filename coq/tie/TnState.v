(* The trench writer's file tree as a log of actions, for the translated TrenchWriter.pgm / _export_trench_column /
   _farcall_trench_column (SrcTn.v, generated; names only - what the programs do is SrcFc.v): which directories and files are
   created under the export directory, and which files each program loads from the controller's base folder.  Names are the
   piece lists the source builds by string formatting and pathlib's `/`. *)
From Coq Require Import List ZArith String.
Import ListNotations.
From FemtoTie Require Import PyPrelude.
Local Open Scope string_scope.

Inductive act :=
| AMkdir (p : line)        (* p.mkdir(parents=True, exist_ok=True) *)
| AWrite (p : line)        (* export_array2d(filename=p, ...) *)
| ABegin (p : line)        (* with PGMCompiler(filename=p, ...) as G: *)
| ALoad (p : line)         (* G.load_program(str(p)) inside that program (G.farcall_list: one per entry) *)
| AEnd.

Definition MT : Type -> Type := @M (list act).
Definition emit (a : act) : MT unit := fun s => (Ret tt, (s ++ [a])%list).
Definition emit_loads (l : list line) : MT unit := for_each l tt (fun f _ => emit (ALoad f)).

Record tcol := { tn_base : line; tn_blocks : list unit; tn_nboxz : nat }.     (* base_folder, the blocks, the number of levels *)
Record tn_cfg := { tn_export : line; tn_objs : list tcol }.                    (* self._export_path, self.obj_list *)

Definition pjoin (a b : line) : line := (a ++ [PL "/"] ++ b)%list.             (* a / b *)
