(* What the translated Trench.toolpath (SrcTr.v, generated) is written over: the geometry library as a record of oracle
   functions, the two attributes it reads, and the yields collected in the state of the monad. *)
From Coq Require Import List Bool ZArith.
Import ListNotations.
From Femto Require Import Trench.Toolpath.
From FemtoTie Require Import PyPrelude.

Record geom (Poly : Type) := {
  g_is_empty : Poly -> bool;             (* p.is_empty *)
  g_inset : Poly -> list Poly;           (* Trench.buffer_polygon(p, offset=-|delta_floor|) *)
  g_hatch : Poly -> nat                  (* number of hatch-line pieces of Trench.zigzag(p.buffer(1.05 delta_floor)); .size is truthy iff > 0 *)
}.
Arguments g_is_empty {Poly}. Arguments g_inset {Poly}. Arguments g_hatch {Poly}.

Record tr_cfg (Poly : Type) := { tr_block : Poly; tr_num_insets : Z }.
Arguments tr_block {Poly}. Arguments tr_num_insets {Poly}.

Definition MY (Poly : Type) : Type -> Type := @M (list (@yld Poly)).

Class ToYield (Poly A : Type) := to_yield : A -> @yld Poly.
Global Instance ty_yld {Poly} : ToYield Poly (@yld Poly) := fun y => y.
Global Instance ty_hatch {Poly} : ToYield Poly (Poly * nat) := fun h => YHatch (fst h) (snd h).

Definition emit_yield {Poly A} `{ToYield Poly A} (a : A) : MY Poly unit := modify (fun l => l ++ [to_yield a]).
