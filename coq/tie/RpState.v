(* State for the translated Device.pgm (SrcRp.v, generated) - the estimate a device reports after an export (C09: it must not
   depend on how many exports came before).  Float addition is kept symbolic: the accumulated estimate is the *term* the
   method has built (a constant, `a + b`, the `_fabtime` a writer holds when it is read), so the theorem holds for whatever
   `+` does on floats; the log records, in order, which writer's pgm() ran and which writer's `_fabtime` was read. *)
From Coq Require Import List Bool QArith.
Import ListNotations.
From FemtoTie Require Import PyPrelude.

Inductive tm := TConst (q : Q) | TAdd (a b : tm) | TFab (w : nat).          (* w: the writer's position in self.writers *)
Inductive rev := EPgm (w : nat) | ERead (w : nat).
Record rp_state := { fab : tm; rlog : list rev }.
Record rp_cfg := { rp_writers : list nat }.                                 (* self.writers.values(), in insertion order *)
Definition MR : Type -> Type := @M rp_state.

Definition rp_set (t : tm) : MR unit := fun s => (Ret tt, {| fab := t; rlog := rlog s |}).
Definition rp_add_fabtime (w : nat) : MR unit :=                            (* self.fabrication_time += writer._fabtime *)
  fun s => (Ret tt, {| fab := TAdd (fab s) (TFab w); rlog := (rlog s ++ [ERead w])%list |}).
Definition rp_call_pgm (w : nat) : MR unit := fun s => (Ret tt, {| fab := fab s; rlog := (rlog s ++ [EPgm w])%list |}).
(* for key, writer in self.writers.items(): body *)
Fixpoint for_writers (ws : list nat) (body : nat -> MR unit) : MR unit :=
  match ws with [] => ret tt | w :: r => body w ;;; for_writers r body end.
