(* NasuWaveguide.adj_scan_order as translated from the source is Writers/Writers.nasu_order read in halves  (generated source definitions: SrcNw.v, re-generated from /repo on every run) *)
From Coq Require Import List Bool ZArith NArith QArith Qabs Qround String Ascii Lia Lqa.
Import ListNotations.
From Femto Require Import Base.Num Writers.Writers.
From FemtoTie Require Import PyPrelude PgmState PureState SrcNw.

(* ---- C08: the order of the adjacent passes ---- *)
Lemma for_each_pure : forall {A X} (l : list A) (h : A -> list X) (acc : list X) (s : pst),
  for_each l acc (fun a acc => ret (acc ++ h a)) s = (Ret (acc ++ flat_map h l), s).
Proof.
  induction l as [|a l IH]; intros h acc s; cbn [for_each flat_map].
  - unfold ret. now rewrite app_nil_r.
  - unfold bind, ret at 1. rewrite IH. now rewrite app_assoc.
Qed.

Lemma zrange_seq : forall a n, zrange a (a + Z.of_nat n) = map (fun k => (a + Z.of_nat k)%Z) (seq 0 n).
Proof. intros a n. unfold zrange. replace (a + Z.of_nat n - a)%Z with (Z.of_nat n) by lia. now rewrite Nat2Z.id. Qed.

Lemma flat_map_map : forall {A B C} (g : A -> B) (h : B -> list C) l, flat_map h (map g l) = flat_map (fun a => h (g a)) l.
Proof. induction l as [|a l IH]; cbn; [reflexivity|]. now rewrite IH. Qed.

Lemma map_flat_map : forall {A B C} (g : B -> C) (h : A -> list B) l, map g (flat_map h l) = flat_map (fun a => map g (h a)) l.
Proof. induction l as [|a l IH]; cbn; [reflexivity|]. now rewrite map_app, IH. Qed.

Lemma F2_flat : forall {A} (l : list A) (f g : A -> list Q),
  (forall k, Forall2 Qeq (f k) (g k)) -> Forall2 Qeq (flat_map f l) (flat_map g l).
Proof. induction l as [|a l IH]; intros f g H; cbn; [constructor|]. apply Forall2_app; [apply H|apply IH, H]. Qed.

Definition halves (k : Z) : Q := inject_Z k / 2.

Lemma halves_2 : forall z, halves (2 * z) == inject_Z z.
Proof. intros z. unfold halves. rewrite inject_Z_mult. field. Qed.
Lemma halves_2p1 : forall z, halves (2 * z + 1) == inject_Z z + (1 # 2).
Proof. intros z. unfold halves. rewrite inject_Z_plus, inject_Z_mult. field. Qed.
Lemma halves_opp : forall z, halves (- z) == - halves z.
Proof. intros z. unfold halves. rewrite inject_Z_opp. field. Qed.

(* for every non-negative number of adjacent scans the translated property returns (Q-equal, element by element) the
   model's order read in halves *)
Theorem SRC_adj_scan_order : forall c s, (0 <= nw_adj_scan c)%Z ->
  exists l, src_adj_scan_order c s = (Ret l, s) /\ Forall2 Qeq l (map halves (nasu_order (nw_adj_scan c))).
Proof.
  intros c s Hn. unfold src_adj_scan_order, nasu_order. cbv zeta. set (n := nw_adj_scan c) in *.
  unfold truthy, truthy_Z, pymod, mod_ZZ, of_int, ofint_Z, pyfloordiv, fdiv_Z, pyadd, add_Z.
  assert (Hq : (0 <= n / 2)%Z) by (apply Z.div_pos; lia).
  set (m := Z.to_nat (n / 2)). assert (Em : (n / 2)%Z = Z.of_nat m) by (unfold m; rewrite Z2Nat.id; lia).
  rewrite Zodd_mod.
  destruct (Z.eqb_spec (n mod 2) 0) as [E|E].
  - (* even *)
    replace (Zeq_bool (n mod 2) 1) with false by (rewrite E; reflexivity). cbn [negb].
    replace (n / 2)%Z with (0 + Z.of_nat m)%Z by lia. rewrite zrange_seq. unfold bind at 1.
    rewrite (for_each_pure _ (fun i => [to_float (add_ZQ i (1 # 2)); to_float (pysub (pyneg i) (1 # 2))])).
    eexists. split; [reflexivity|]. cbn [app]. rewrite flat_map_map, map_flat_map.
    apply F2_flat. intros k. cbn [map]. unfold to_float, tofloat_Q, add_ZQ, pysub, sub_ZQ, pyneg, neg_Z.
    constructor; [|constructor; [|constructor]].
    + rewrite halves_2p1. replace (0 + Z.of_nat k)%Z with (Z.of_nat k) by lia. reflexivity.
    + rewrite halves_opp, halves_2p1, inject_Z_opp. replace (0 + Z.of_nat k)%Z with (Z.of_nat k) by lia. ring.
  - (* odd *)
    assert (E1 : (n mod 2 = 1)%Z) by (pose proof (Z.mod_pos_bound n 2); lia).
    replace (Zeq_bool (n mod 2) 1) with true by (rewrite E1; reflexivity). cbn [negb].
    replace (n / 2 + 1)%Z with (1 + Z.of_nat m)%Z by lia. rewrite zrange_seq. unfold bind at 1.
    rewrite (for_each_pure _ (fun i => [to_float i; to_float (pyneg i)])).
    eexists. split; [reflexivity|]. cbn [app map].
    constructor; [unfold to_float, tofloat_Q, halves; field|].
    rewrite <- seq_shift, !flat_map_map, map_flat_map.
    apply F2_flat. intros k. cbn [map]. unfold to_float, tofloat_Z, pyneg, neg_Z.
    constructor; [|constructor; [|constructor]].
    + rewrite halves_2. replace (Z.of_nat (S k)) with (1 + Z.of_nat k)%Z by lia. reflexivity.
    + rewrite halves_opp, halves_2, inject_Z_opp. replace (Z.of_nat (S k)) with (1 + Z.of_nat k)%Z by lia. reflexivity.
Qed.
Print Assumptions SRC_adj_scan_order.

