(* The file each of the three writers compiles, as translated from the source (SrcWn.v, re-generated from /repo on every run): a writer
   holding no object opens no compiler (writes no file); otherwise exactly one compiler, given the stem of the configured name followed by
   _WG.pgm / _NASU.pgm / _MK.pgm, and then stores the estimate of this export in self._fabtime - for either value of `verbose` (C09: a
   quiet export must not leave an older estimate behind; anything stored under `if verbose:` leaves the translator's subset).  With SRC_C19_close (EquivPa.v) that compiler writes export_dir/<that name>. *)
From Coq Require Import List Bool String.
Import ListNotations.
From Femto Require Import Persist.Paths.
From FemtoTie Require Import PyPrelude WnState SrcWn.
Local Open Scope string_scope.

Definition expected (c : wn_cfg) (suffix : string) : list wact :=
  if wn_has_objects c then [WBegin (stem (wn_filename c) ++ suffix); WEnd; WFab] else [].

Theorem SRC_C08_wg_file : forall c verbose, src_pgm_wg c verbose [] = (Ret tt, expected c "_WG.pgm").
Proof. intros c verbose. unfold src_pgm_wg, expected. destruct (wn_has_objects c); reflexivity. Qed.
Theorem SRC_C08_nasu_file : forall c verbose, src_pgm_nwg c verbose [] = (Ret tt, expected c "_NASU.pgm").
Proof. intros c verbose. unfold src_pgm_nwg, expected. destruct (wn_has_objects c); reflexivity. Qed.
Theorem SRC_C08_mk_file : forall c verbose, src_pgm_mk c verbose [] = (Ret tt, expected c "_MK.pgm").
Proof. intros c verbose. unfold src_pgm_mk, expected. destruct (wn_has_objects c); reflexivity. Qed.
Print Assumptions SRC_C08_wg_file.
Print Assumptions SRC_C08_nasu_file.
Print Assumptions SRC_C08_mk_file.
