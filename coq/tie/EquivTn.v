(* The file tree TrenchWriter.pgm creates, as translated from /repo's writer.py (SrcTn.v): one directory per column with a
   WALL and a FLOOR file per block, one call file per column that loads exactly those files (from the controller's base
   folder, under the same relative names) once per level, and MAIN.pgm, which loads the call file of every column under the
   name it was written with, in order.  So every file a program of the tree loads has been written. *)
From Coq Require Import List Bool ZArith NArith String Lia.
Import ListNotations.
From FemtoTie Require Import PyPrelude TnState SrcTn.
Local Open Scope string_scope.
Local Open Scope list_scope.

Definition dir_name (i : Z) : line := [PL "trenchCol"; PIpad 3 (i + 1)].
Definition wall_name (j : Z) : line := [PL "trench"; PIpad 3 (j + 1); PL "_WALL.pgm"].
Definition floor_name (j : Z) : line := [PL "trench"; PIpad 3 (j + 1); PL "_FLOOR.pgm"].
Definition fc_name (i : Z) : line := [PL "FARCALL"; PIpad 3 (i + 1); PL ".pgm"].

Definition block_files (root : line) (i : Z) (mk : line -> act) (jb : Z * unit) : list act :=
  [mk (pjoin (pjoin root (dir_name i)) (wall_name (fst jb))); mk (pjoin (pjoin root (dir_name i)) (floor_name (fst jb)))].

Definition col_log (c : tn_cfg) (i : Z) (col : tcol) : list act :=
  [AMkdir (pjoin (tn_export c) (dir_name i))]
  ++ flat_map (block_files (tn_export c) i AWrite) (enumerate_ (tn_blocks col))
  ++ [ABegin (pjoin (tn_export c) (fc_name i))]
  ++ flat_map (fun _ : Z => flat_map (block_files (tn_base col) i ALoad) (enumerate_ (tn_blocks col))) (zrange 0 (Z.of_nat (tn_nboxz col)))
  ++ [AEnd].

Definition main_log (c : tn_cfg) : list act :=
  [ABegin (pjoin (tn_export c) [PL "MAIN.pgm"])]
  ++ map (fun ic : Z * tcol => ALoad (pjoin (tn_base (snd ic)) (fc_name (fst ic)))) (enumerate_ (tn_objs c))
  ++ [AEnd].

Lemma for_each_emit : forall {A} (g : A -> list act) (f : A -> unit -> MT unit) (l : list A),
  (forall a s, f a tt s = (Ret tt, s ++ g a)) -> forall s, for_each l tt f s = (Ret tt, s ++ flat_map g l).
Proof.
  intros A g f l H. induction l as [|a r IH]; intros s; cbn [for_each flat_map]; [now rewrite app_nil_r|].
  unfold bind. rewrite H. rewrite IH. now rewrite app_assoc.
Qed.

Lemma flat_map_product : forall {A B} (g : B -> list act) (la : list A) (lb : list B),
  flat_map (fun ab : A * B => g (snd ab)) (product_ la lb) = flat_map (fun _ : A => flat_map g lb) la.
Proof.
  intros A B g la lb. unfold product_. induction la as [|a r IH]; [reflexivity|].
  cbn [flat_map]. rewrite flat_map_app, IH. f_equal. clear. induction lb as [|b lb IH]; [reflexivity|]. cbn. now rewrite IH.
Qed.

Lemma export_col_spec : forall c col dir s,
  src_tn_export_trench_column c col dir s =
  (Ret tt, s ++ flat_map (fun jb : Z * unit => [AWrite (pjoin dir (wall_name (fst jb))); AWrite (pjoin dir (floor_name (fst jb)))])
                         (enumerate_ (tn_blocks col))).
Proof.
  intros c col dir s. unfold src_tn_export_trench_column. unfold bind at 1.
  rewrite (for_each_emit (fun jb : Z * unit => [AWrite (pjoin dir (wall_name (fst jb))); AWrite (pjoin dir (floor_name (fst jb)))])).
  - reflexivity.
  - intros [j b] s'. unfold bind, emit, ret. cbn [fst]. rewrite <- app_assoc. reflexivity.
Qed.

Lemma farcall_col_spec : forall c col i s,
  src_tn_farcall_trench_column c col i s =
  (Ret tt, s ++ [ABegin (pjoin (tn_export c) (fc_name i))]
             ++ flat_map (fun _ : Z => flat_map (block_files (tn_base col) i ALoad) (enumerate_ (tn_blocks col))) (zrange 0 (Z.of_nat (tn_nboxz col)))
             ++ [AEnd]).
Proof.
  intros c col i s. unfold src_tn_farcall_trench_column. cbv zeta. unfold bind at 1. unfold emit at 1.
  unfold bind at 1. unfold bind at 1.
  rewrite (for_each_emit (fun x : Z * (Z * unit) => block_files (tn_base col) i ALoad (snd x))).
  - cbn [ret]. unfold bind, emit, ret. rewrite (flat_map_product (block_files (tn_base col) i ALoad)).
    rewrite <- !app_assoc. reflexivity.
  - intros [nbox [j b]] s'. unfold bind, emit, ret. cbn [snd fst block_files]. rewrite <- app_assoc. reflexivity.
Qed.

Lemma emit_loads_spec : forall l s, emit_loads l s = (Ret tt, s ++ map ALoad l).
Proof.
  intros l s. unfold emit_loads. rewrite (for_each_emit (fun f => [ALoad f])); [|reflexivity].
  replace (flat_map (fun f : line => [ALoad f]) l) with (map ALoad l); [reflexivity|].
  induction l as [|a r IH]; [reflexivity|]. cbn. now rewrite IH.
Qed.

(* the whole tree *)
Theorem SRC_C06_tree_log : forall c verbose s,
  src_tn_pgm c verbose s =
  (Ret tt, match tn_objs c with
           | [] => s                                               (* a writer holding nothing writes nothing *)
           | _ => s ++ flat_map (fun ic : Z * tcol => col_log c (fst ic) (snd ic)) (enumerate_ (tn_objs c)) ++ main_log c
           end).
Proof.
  intros c v s. unfold src_tn_pgm. destruct (tn_objs c) as [|c0 cr] eqn:E; [reflexivity|]. rewrite <- E.
  replace (truthy (tn_objs c)) with true by (rewrite E; reflexivity). cbn [negb]. unfold bind at 1.
  rewrite (for_each_emit (fun ic : Z * tcol => col_log c (fst ic) (snd ic))).
  - cbv zeta. unfold bind at 1, emit at 1. unfold bind at 1. unfold bind at 1. rewrite emit_loads_spec. cbn [ret].
    unfold bind, emit, ret. unfold main_log. rewrite map_map. rewrite <- !app_assoc.
    do 5 f_equal. apply map_ext. intros [i col]. reflexivity.
  - intros [i col] s'. cbv zeta. unfold bind at 1, emit at 1. unfold bind at 1. rewrite export_col_spec.
    unfold bind at 1. rewrite farcall_col_spec. cbn [ret fst snd]. unfold col_log, block_files. rewrite <- !app_assoc. reflexivity.
Qed.
Print Assumptions SRC_C06_tree_log.

Lemma pjoin_assoc : forall a b d, pjoin (pjoin a b) d = pjoin a (pjoin b d).
Proof. intros a b d. unfold pjoin. now rewrite <- !app_assoc. Qed.

(* every file a column's call file loads (relative to the controller's base folder) was written (under the same name relative
   to the export directory) before the call file itself *)
Theorem SRC_C06_call_file_loads_exist : forall c i col p,
  In (ALoad p) (col_log c i col) ->
  exists r, p = pjoin (tn_base col) r /\ In (AWrite (pjoin (tn_export c) r)) (col_log c i col).
Proof.
  intros c i col p H. unfold col_log in H.
  apply in_app_or in H. destruct H as [[H|[]]|H]; [discriminate H|].
  apply in_app_or in H. destruct H as [H|H].
  { apply in_flat_map in H. destruct H as [jb [_ [H|[H|[]]]]]; discriminate H. }
  apply in_app_or in H. destruct H as [[H|[]]|H]; [discriminate H|].
  apply in_app_or in H. destruct H as [H|[H|[]]]; [|discriminate H].
  apply in_flat_map in H. destruct H as [nbox [_ H]]. apply in_flat_map in H. destruct H as [jb [Hjb H]].
  assert (W : forall nm, In (AWrite (pjoin (tn_export c) (pjoin (dir_name i) (nm (fst jb))))) (col_log c i col) \/ True) by (intros; right; exact I).
  destruct H as [H|[H|[]]]; inversion H; subst p; clear H.
  - exists (pjoin (dir_name i) (wall_name (fst jb))). split; [apply pjoin_assoc|].
    unfold col_log. apply in_or_app. right. apply in_or_app. left. apply in_flat_map. exists jb. split; [exact Hjb|].
    left. unfold block_files. now rewrite pjoin_assoc.
  - exists (pjoin (dir_name i) (floor_name (fst jb))). split; [apply pjoin_assoc|].
    unfold col_log. apply in_or_app. right. apply in_or_app. left. apply in_flat_map. exists jb. split; [exact Hjb|].
    right. left. unfold block_files. now rewrite pjoin_assoc.
Qed.
Print Assumptions SRC_C06_call_file_loads_exist.

(* MAIN.pgm loads, in the order of the columns, exactly the call files that were written - each under the name it was written with *)
Theorem SRC_C06_main_loads_exist : forall c p,
  In (ALoad p) (main_log c) ->
  exists i col, In (i, col) (enumerate_ (tn_objs c)) /\ p = pjoin (tn_base col) (fc_name i)
                /\ In (ABegin (pjoin (tn_export c) (fc_name i))) (col_log c i col).
Proof.
  intros c p H. unfold main_log in H. apply in_app_or in H. destruct H as [[H|[]]|H]; [discriminate H|].
  apply in_app_or in H. destruct H as [H|[H|[]]]; [|discriminate H].
  apply in_map_iff in H. destruct H as [[i col] [H Hin]]. inversion H; subst p; clear H. cbn [fst snd].
  exists i, col. split; [exact Hin|]. split; [reflexivity|].
  unfold col_log. apply in_or_app. right. apply in_or_app. right. left. reflexivity.
Qed.
Print Assumptions SRC_C06_main_loads_exist.

(* and every column has its call file in MAIN: none is skipped *)
Theorem SRC_C06_main_calls_every_column : forall c,
  map (fun a => match a with ALoad p => p | _ => [] end) (filter (fun a => match a with ALoad _ => true | _ => false end) (main_log c))
  = map (fun ic : Z * tcol => pjoin (tn_base (snd ic)) (fc_name (fst ic))) (enumerate_ (tn_objs c)).
Proof.
  intros c. unfold main_log. cbn [app filter]. rewrite filter_app. cbn [filter app]. rewrite app_nil_r.
  induction (enumerate_ (tn_objs c)) as [|ic r IH]; [reflexivity|]. cbn [map filter]. now rewrite IH.
Qed.
Print Assumptions SRC_C06_main_calls_every_column.
