(* LaserPath.init_point / start / end as translated from the source (SrcLb.v, re-generated from /repo on every run) open and close a
   path exactly as the block functions of Path/Laser.v say: start records the closed / open pair at the initial position with the
   positioning speed and refuses a path that already has points or a position without three entries; end closes the shutter at the
   last point and returns to the first point with speed_closed.  These are the clauses "ending a path returns to its first point with
   the shutter closed" (C04) and the start / end of every marker figure (C14: the hand-given lp_start / lp_end of MkState.v). *)
From Coq Require Import List Bool ZArith QArith Lia String Ascii.
Import ListNotations.
From Femto Require Import Path.Laser.
From FemtoTie Require Import PyPrelude LbState SrcLb.
Local Open Scope list_scope.

Definition posb (v : Q) : bool := negb (Qle_bool v 0).
Definition dfl (o : option Q) (d : Q) : Q := match o with Some v => v | None => d end.

(* ---------------- start ---------------- *)
Theorem SRC_C04_start : forall c x y z sp, posb (dfl sp (lb_speed_pos c)) = true ->
  fst (src_start c (Some [x; y; z]) sp lb_s0) = Ret tt /\
  path_of (snd (src_start c (Some [x; y; z]) sp lb_s0)) = start_blk (x, y, z) (dfl sp (lb_speed_pos c)).
Proof.
  intros c x y z sp H. unfold posb in H. unfold src_start, bind, get. cbn [lb_s0 lb__x py_len length].
  destruct sp as [v|]; cbn [dfl] in H; cbv zeta; unfold lb_add_path, as_vec, asvec_list, to_float, tofloat_Q; cbn [forallb]; rewrite H; split; reflexivity.
Qed.

(* without a position: [x_init, y_init, z_init], z_init = 0 when it is not set *)
Theorem SRC_C04_start_default : forall c sp, posb (dfl sp (lb_speed_pos c)) = true ->
  fst (src_start c None sp lb_s0) = Ret tt /\
  path_of (snd (src_start c None sp lb_s0)) = start_blk (lb_x_init c, lb_y_init c, dfl (lb_z_init c) 0) (dfl sp (lb_speed_pos c)).
Proof.
  intros c sp H. unfold posb in H. unfold src_start, src_init_point, bind, get, ret. cbn [lb_s0 lb__x py_len length].
  destruct sp as [v|]; cbn [dfl] in H; cbv zeta; unfold lb_add_path, as_vec, asvec_list, to_float, tofloat_Q; cbn [forallb]; rewrite H;
    destruct (lb_z_init c); split; reflexivity.
Qed.

Theorem SRC_C04_start_refuses : forall c pos sp st,
  (lb__x st <> [] \/ (exists p, pos = Some p /\ List.length p <> 3%nat)) ->
  src_start c pos sp st = (Exc EValue, st).
Proof.
  intros c pos sp st H. unfold src_start, bind, get.
  destruct (lb__x st) as [|a r] eqn:Ex.
  - destruct H as [H|[p [-> Hp]]]; [congruence|]. cbn [py_len List.length pyne pyeq pyeq_Z of_int ofint_Z Z.of_nat Z.eqb negb].
    assert (E : pyne (py_len p) (of_int 3) = true)
      by (unfold pyne, pyeq, pyeq_Z, py_len, of_int, ofint_Z; apply negb_true_iff, Z.eqb_neq; lia).
    now rewrite E.
  - assert (E : pyne (py_len (a :: r)) (of_int 0) = true)
      by (unfold pyne, pyeq, pyeq_Z, py_len, of_int, ofint_Z; apply negb_true_iff, Z.eqb_neq; cbn [List.length]; lia).
    now rewrite E.
Qed.
Print Assumptions SRC_C04_start.
Print Assumptions SRC_C04_start_default.
Print Assumptions SRC_C04_start_refuses.

(* ---------------- end ---------------- *)
Lemma zip5_app : forall x y z f s x' y' z' f' s',
  List.length y = List.length x -> List.length z = List.length x -> List.length f = List.length x -> List.length s = List.length x ->
  zip5 (x ++ x') (y ++ y') (z ++ z') (f ++ f') (s ++ s') = zip5 x y z f s ++ zip5 x' y' z' f' s'.
Proof.
  induction x as [|a x IH]; intros y z f s x' y' z' f' s' Hy Hz Hf Hs.
  - destruct y, z, f, s; try discriminate. reflexivity.
  - destruct y as [|b y], z as [|d z], f as [|e f], s as [|g s]; try discriminate. cbn [app zip5]. f_equal.
    apply IH; cbn in *; lia.
Qed.

Lemma last_indep_q : forall {X} (l : list X) p d1 d2, last (p :: l) d1 = last (p :: l) d2.
Proof. intros X l. induction l as [|q l IH]; intros p d1 d2; [reflexivity|exact (IH q d1 d2)]. Qed.
Lemma last_shift : forall {X} (l : list X) a d, last (a :: l) d = last l a.
Proof. intros X [|b l] a d; [reflexivity|]. change (last (a :: b :: l) d) with (last (b :: l) d). apply last_indep_q. Qed.

Lemma zip5_last : forall xr yr zr fr sr a b d e g dd,
  List.length yr = List.length xr -> List.length zr = List.length xr -> List.length fr = List.length xr -> List.length sr = List.length xr ->
  last (zip5 (a :: xr) (b :: yr) (d :: zr) (e :: fr) (g :: sr)) dd =
  mk (last xr a, last yr b, last zr d) (last fr e) (negb (Qeq_bool (last sr g) 0)).
Proof.
  induction xr as [|a' xr IH]; intros yr zr fr sr a b d e g dd Hy Hz Hf Hs.
  - destruct yr, zr, fr, sr; try discriminate. reflexivity.
  - destruct yr as [|b' yr], zr as [|d' zr], fr as [|e' fr], sr as [|g' sr]; try discriminate.
    change (zip5 (a :: a' :: xr) (b :: b' :: yr) (d :: d' :: zr) (e :: e' :: fr) (g :: g' :: sr))
      with (mk (a, b, d) e (negb (Qeq_bool g 0)) :: zip5 (a' :: xr) (b' :: yr) (d' :: zr) (e' :: fr) (g' :: sr)).
    rewrite last_shift. rewrite (IH yr zr fr sr a' b' d' e' g') by (cbn in *; lia).
    now rewrite !last_shift.
Qed.

(* end() on a path with points: closed at the last point (its feed), then closed at the first point with speed_closed *)
Theorem SRC_C04_end : forall c a b d e g xr yr zr fr sr,
  List.length yr = List.length xr -> List.length zr = List.length xr -> List.length fr = List.length xr -> List.length sr = List.length xr ->
  posb (last fr e) = true -> posb (lb_speed_closed c) = true ->
  let st := {| lb__x := a :: xr; lb__y := b :: yr; lb__z := d :: zr; lb__f := e :: fr; lb__s := g :: sr |} in
  fst (src_end c st) = Ret tt /\
  path_of (snd (src_end c st)) =
  path_of st ++ end_blk (mk (a, b, d) e (negb (Qeq_bool g 0))) (last (path_of st) (mk (a, b, d) e (negb (Qeq_bool g 0)))) (lb_speed_closed c).
Proof.
  intros c a b d e g xr yr zr fr sr Hy Hz Hf Hs Hp Hc st. unfold posb in Hp, Hc. subst st.
  unfold src_end, bind, get.
  cbv beta iota zeta delta [lb__x lb__y lb__z lb__f lb__s].
  replace (negb (truthy (py_len (a :: xr)))) with false
    by (unfold truthy, truthy_Z, py_len; symmetry; apply negb_false_iff, negb_true_iff, Z.eqb_neq; cbn [List.length]; lia).
  unfold ret. cbv beta iota zeta delta [lb__x lb__y lb__z lb__f lb__s].
  unfold lb_add_path, as_vec, asvec_list, to_float, tofloat_Q, tofloat_Z, tofloat_Z_lb, of_int, ofint_Z.
  cbv beta iota zeta delta [lb__x lb__y lb__z lb__f lb__s forallb].
  fold (posb (last fr e)). fold (posb (lb_speed_closed c)). unfold posb. rewrite Hp, Hc.
  cbv beta iota zeta delta [andb fst snd].
  split; [reflexivity|]. unfold path_of. cbn [lb__x lb__y lb__z lb__f lb__s].
  change (a :: xr ++ [last xr a; a]) with ((a :: xr) ++ [last xr a; a]).
  change (b :: yr ++ [last yr b; b]) with ((b :: yr) ++ [last yr b; b]).
  change (d :: zr ++ [last zr d; d]) with ((d :: zr) ++ [last zr d; d]).
  change (e :: fr ++ [last fr e; lb_speed_closed c]) with ((e :: fr) ++ [last fr e; lb_speed_closed c]).
  rewrite (zip5_app (a :: xr) (b :: yr) (d :: zr) (e :: fr) (g :: sr)) by (cbn [List.length]; lia).
  f_equal. rewrite zip5_last by assumption. reflexivity.
Qed.

Theorem SRC_C04_end_needs_a_path : forall c st, lb__x st = [] -> src_end c st = (Exc EIndex, st).
Proof. intros c st H. unfold src_end, bind, get. rewrite H. reflexivity. Qed.
Print Assumptions SRC_C04_end.
Print Assumptions SRC_C04_end_needs_a_path.

(* ---------------- linear ---------------- *)
Lemma shutter_flag : forall sh : Z, negb (Qeq_bool (inject_Z sh) 0) = negb (Z.eqb sh 0).
Proof.
  intros sh. f_equal. unfold Qeq_bool, inject_Z. cbn [Qnum Qden]. rewrite Z.mul_1_r. cbn [Z.mul].
  unfold Zeq_bool. now rewrite Z.eqb_compare.
Qed.

Definition st_cols (a b d e g : Q) (xr yr zr fr sr : list Q) : lb_st :=
  {| lb__x := a :: xr; lb__y := b :: yr; lb__z := d :: zr; lb__f := e :: fr; lb__s := g :: sr |}.
Definition p0_of (a b d e g : Q) : lpt := mk (a, b, d) e (negb (Qeq_bool g 0)).

Section Linear.
Variables (c : lb_cfg) (a b d e g : Q) (xr yr zr fr sr : list Q).
Hypothesis (Hy : List.length yr = List.length xr) (Hz : List.length zr = List.length xr) (Hf : List.length fr = List.length xr) (Hs : List.length sr = List.length xr).
Hypothesis Hw : lb_warp_flag c = false.                      (* no subdivision of straight segments *)
Let st := st_cols a b d e g xr yr zr fr sr.
Let lastp := last (path_of st) (p0_of a b d e g).

Lemma lastp_eq : lastp = mk (last xr a, last yr b, last zr d) (last fr e) (negb (Qeq_bool (last sr g) 0)).
Proof. unfold lastp, st, st_cols, path_of. cbn [lb__x lb__y lb__z lb__f lb__s]. now apply zip5_last. Qed.

(* ABS mode: a missing entry keeps the coordinate, a given one replaces it - exactly the model's point *)
Theorem SRC_C04_linear_abs : forall dx dy dz mode sh speed,
  lower mode = "abs"%string -> posb (dfl speed (lb_speed c)) = true ->
  fst (src_linear c [dx; dy; dz] mode sh speed st) = Ret tt /\
  path_of (snd (src_linear c [dx; dy; dz] mode sh speed st)) =
  path_of st ++ [lin lastp (dx, dy, dz) true (negb (Z.eqb sh 0)) (dfl speed (lb_speed c))].
Proof.
  intros dx dy dz mode sh speed Hm Hp. unfold posb in Hp. rewrite lastp_eq.
  unfold src_linear. rewrite Hm. cbn [py_in existsb pyeq pyeq_str String.eqb Ascii.eqb Bool.eqb orb negb py_len List.length pyne pyeq_Z of_int ofint_Z Z.of_nat Pos.of_succ_nat Pos.succ Z.eqb Pos.eqb].
  replace (is_none speed && is_none (cfg_speed c))%bool with false by (destruct speed; reflexivity).
  unfold bind, get, ret, st, st_cols. cbv beta iota zeta delta [lb__x lb__y lb__z lb__f lb__s].
  rewrite Hw. cbn [Bool.eqb orb]. rewrite Bool.orb_true_r.
  unfold lb_add_path, as_vec, asvec_Q, fill_like, fill_Q, to_float, tofloat_Q, tofloat_Z_lb.
  cbv beta iota zeta delta [lb__x lb__y lb__z lb__f lb__s forallb].
  replace (match speed with None => cfg_speed c | Some speed0 => speed0 end) with (dfl speed (lb_speed c)) by (destruct speed; reflexivity).
  rewrite Hp. cbn [andb fst snd]. split; [reflexivity|].
  unfold path_of. cbn [lb__x lb__y lb__z lb__f lb__s].
  change (a :: xr ++ ?l) with ((a :: xr) ++ l). change (b :: yr ++ ?l) with ((b :: yr) ++ l). change (d :: zr ++ ?l) with ((d :: zr) ++ l).
  change (e :: fr ++ ?l) with ((e :: fr) ++ l). change (g :: sr ++ ?l) with ((g :: sr) ++ l).
  rewrite (zip5_app (a :: xr) (b :: yr) (d :: zr) (e :: fr) (g :: sr)) by (cbn [List.length]; lia).
  f_equal. cbn [zip5]. rewrite shutter_flag. unfold lin, oabs. cbn [lx ly lz mk].
  destruct dx, dy, dz; reflexivity.
Qed.

Lemma or0_oadd : forall cur o, cur + or0 o == oadd cur o.
Proof.
  intros cur [v|]; unfold or0, oadd; [|ring]. unfold truthy, truthy_Q. destruct (Qeq_bool v 0) eqn:E; cbn [negb]; [|reflexivity].
  apply Qeq_bool_eq in E. rewrite E. reflexivity.
Qed.

(* INC mode: a missing (or zero) entry adds nothing, a given one is added - the model's point as rational numbers (the source adds an
   explicit 0 where the model leaves the coordinate alone: another fraction for the same number) *)
Theorem SRC_C04_linear_inc : forall dx dy dz mode sh speed,
  lower mode = "inc"%string -> posb (dfl speed (lb_speed c)) = true ->
  exists p',
    fst (src_linear c [dx; dy; dz] mode sh speed st) = Ret tt /\
    path_of (snd (src_linear c [dx; dy; dz] mode sh speed st)) = path_of st ++ [p'] /\
    let q := lin lastp (dx, dy, dz) false (negb (Z.eqb sh 0)) (dfl speed (lb_speed c)) in
    lx p' == lx q /\ ly p' == ly q /\ lz p' == lz q /\ lf p' = lf q /\ ls p' = ls q.
Proof.
  intros dx dy dz mode sh speed Hm Hp. unfold posb in Hp. rewrite lastp_eq.
  exists (mk (last xr a + or0 dx, last yr b + or0 dy, last zr d + or0 dz) (dfl speed (lb_speed c)) (negb (Z.eqb sh 0))).
  unfold src_linear. rewrite Hm. cbn [py_in existsb pyeq pyeq_str String.eqb Ascii.eqb Bool.eqb orb negb py_len List.length pyne pyeq_Z of_int ofint_Z Z.of_nat Pos.of_succ_nat Pos.succ Z.eqb Pos.eqb].
  replace (is_none speed && is_none (cfg_speed c))%bool with false by (destruct speed; reflexivity).
  unfold bind, get, ret, st, st_cols. cbv beta iota zeta delta [lb__x lb__y lb__z lb__f lb__s].
  rewrite Hw. cbn [Bool.eqb orb]. rewrite Bool.orb_true_r.
  unfold lb_add_path, as_vec, asvec_Q, fill_like, fill_Q, to_float, tofloat_Q, tofloat_Z_lb, pyadd, add_Q.
  cbv beta iota zeta delta [lb__x lb__y lb__z lb__f lb__s forallb].
  replace (match speed with None => cfg_speed c | Some speed0 => speed0 end) with (dfl speed (lb_speed c)) by (destruct speed; reflexivity).
  rewrite Hp. cbn [andb fst snd]. split; [reflexivity|]. split.
  - unfold path_of. cbn [lb__x lb__y lb__z lb__f lb__s].
    change (a :: xr ++ ?l) with ((a :: xr) ++ l). change (b :: yr ++ ?l) with ((b :: yr) ++ l). change (d :: zr ++ ?l) with ((d :: zr) ++ l).
    change (e :: fr ++ ?l) with ((e :: fr) ++ l). change (g :: sr ++ ?l) with ((g :: sr) ++ l).
    rewrite (zip5_app (a :: xr) (b :: yr) (d :: zr) (e :: fr) (g :: sr)) by (cbn [List.length]; lia).
    f_equal. cbn [zip5]. now rewrite shutter_flag.
  - cbv zeta. unfold lin. cbn [lx ly lz lf ls mk]. repeat split; apply or0_oadd.
Qed.
End Linear.
Print Assumptions SRC_C04_linear_abs.
Print Assumptions SRC_C04_linear_inc.
