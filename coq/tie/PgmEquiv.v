(* The translated methods of PGMCompiler (Gen/PgmSrc.v, generated from /repo's source on every run) behave as the
   hand-written model Pgm/Ops.v says: a simulation between the monadic source-level definitions over `pst` and the
   model's functions over `cstate`, through the line reader Gen/LineTok.v.  Every theorem of Props/C01, C03, C12 about
   `exec` / `session` is thereby a theorem about what the translator read in the source. *)
From Coq Require Import List Bool ZArith NArith QArith Qabs Qreduction String Ascii Lia.
Import ListNotations.
From Femto Require Import Base.Num Ctl.Tok Geo.Rigid Pgm.Ops Pgm.OpsProofs.
From FemtoTie Require Import PyPrelude PgmState PgmSrc LineTok.
Local Open Scope string_scope.
Local Open Scope list_scope.

Local Arguments Qred : simpl never.
Local Arguments Qplus : simpl never.
Local Arguments Qmult : simpl never.
Local Arguments Qminus : simpl never.
Local Arguments Qopp : simpl never.
Local Arguments Qdiv : simpl never.
Local Arguments Qinv : simpl never.
Local Arguments Qabs : simpl never.
Local Arguments Qeq_bool : simpl never.
Local Arguments Qle_bool : simpl never.
Local Arguments inject_Z : simpl never.
Local Arguments fmt : simpl never.
Local Arguments pow10 : simpl never.
Local Arguments Z.mul : simpl never.
Local Arguments Z.add : simpl never.
Local Arguments Z.sub : simpl never.
Local Arguments Z.eqb : simpl never.
Local Arguments Z.leb : simpl never.
Local Arguments N.eqb : simpl never.
Local Arguments String.eqb : simpl nomatch.
Local Arguments lower : simpl nomatch.
Local Arguments tr32 : simpl never.

(* ---------------- lower-casing ---------------- *)
Lemma lower_ascii_idem : forall a, lower_ascii (lower_ascii a) = lower_ascii a.
Proof. intros [[|] [|] [|] [|] [|] [|] [|] [|]]; reflexivity. Qed.
Lemma lower_idem : forall s, lower (lower s) = lower s.
Proof. induction s as [|a s IH]; cbn; [reflexivity|]. now rewrite lower_ascii_idem, IH. Qed.

Section Equiv.
Context (ivar : string -> N).
Hypothesis ivar_spec : forall a b, ivar a = ivar b <-> lower a = lower b.
Context (name_of_stem : N -> N).
Hypothesis nos_inj : forall a b, name_of_stem a = name_of_stem b -> a = b.

Notation toks := (toks ivar).
Notation tok_of_line := (tok_of_line ivar).

Definition lasers : list string := ["ant"; "carbide"; "pharos"; "uwe"].

Definition abs_cfg (pc : pcfg) : cfg :=
  {| laser_ok := py_in (lower (laser pc)) lasers;
     laser_z := String.eqb (lower (laser pc)) "ant";
     digits := output_digits pc;
     long_p := long_pause pc; short_p := short_pause pc;
     Ops.speed_pos := PgmState.speed_pos pc;
     Ops.home := PgmState.home pc;
     aero := truthy (aerotech_angle pc);
     tc := tcf pc |}.

Record Rel (s : pst) (st : cstate) : Prop := {
  r_dwell : c_dwell st = total_dwell_time s;
  r_canon : Qred (total_dwell_time s) = total_dwell_time s;
  r_sh : c_sh st = shutter_on s;
  r_loaded : c_loaded st = map name_of_stem (loaded_files s);
  r_dvars : c_dvars st = map ivar (dvars s);
  r_low : Forall (fun d => lower d = d) (dvars s);
  r_pre : c_pre st = toks (instr_front s)
}.

Definition code (e : exn) : N :=
  match e with EValue => VE | EFileNotFound => FNF | EUser => USER | EType => 99%N | EIndex => 98%N | EKey => 97%N end.
Definition out_ok {A} (r : R A) (o : outcome) : Prop :=
  match r, o with Ret _, Ok => True | Exc e, Raised k => k = code e | _, _ => False end.

(* m simulates h: from related states, related states, the appended lines read as the emitted statements, same outcome *)
Definition Sim {A} (m : MP A) (h : cstate -> res) : Prop :=
  forall s st, Rel s st ->
    let '(st', e, o) := h st in
    Rel (snd (m s)) st' /\ toks (instr_back (snd (m s))) = toks (instr_back s) ++ flatten e /\ out_ok (fst (m s)) o.

(* the same with a single occurrence of the run, for pointwise reasoning *)
Definition SimR {A} (ms : R A * pst) (hs : res) (s : pst) : Prop :=
  let '(st', e, o) := hs in
  Rel (snd ms) st' /\ toks (instr_back (snd ms)) = toks (instr_back s) ++ flatten e /\ out_ok (fst ms) o.
Lemma Sim_intro : forall {A} (m : MP A) h, (forall s st, Rel s st -> SimR (m s) (h st) s) -> Sim m h.
Proof. intros A m h H s st HR. exact (H s st HR). Qed.
Lemma Sim_elim : forall {A} (m : MP A) h, Sim m h -> forall s st, Rel s st -> SimR (m s) (h st) s.
Proof. intros A m h H s st HR. exact (H s st HR). Qed.

Lemma toks_app : forall a b, toks (a ++ b) = toks a ++ toks b.
Proof. intros; unfold LineTok.toks; now rewrite flat_map_app. Qed.

Lemma flatten_app : forall a b, flatten (a ++ b) = flatten a ++ flatten b.
Proof. induction a as [|x a IH]; intros b; cbn; [reflexivity|]. now rewrite IH, app_assoc. Qed.

(* ---- sequencing ---- *)
Lemma Sim_bind : forall {A B} (m : MP A) (k : A -> MP B) h1 h2,
  Sim m h1 -> (forall a, Sim (k a) h2) -> Sim (bind m k) (fun st => seq (h1 st) h2).
Proof.
  intros A B m k h1 h2 H1 H2 s st HR. specialize (H1 s st HR).
  unfold bind, seq. destruct (h1 st) as [[st1 e1] o1]. destruct H1 as (R1 & T1 & O1).
  destruct (m s) as [[a|e] s1]; cbn in *; destruct o1; try contradiction.
  - specialize (H2 a s1 st1 R1). destruct (h2 st1) as [[st2 e2] o2]. destruct H2 as (R2 & T2 & O2).
    split; [exact R2|]. split; [|exact O2]. now rewrite T2, T1, flatten_app, app_assoc.
  - split; [exact R1|]. split; [exact T1|exact O1].
Qed.

Lemma Sim_ret : forall {A} (a : A), Sim (ret a) (fun st => (st, [], Ok)).
Proof. intros A a s st HR; cbn. split; [exact HR|]. split; [now rewrite app_nil_r|exact I]. Qed.

Lemma Sim_ext : forall {A} (m : MP A) h h', (forall st, h st = h' st) -> Sim m h -> Sim m h'.
Proof. intros A m h h' E H s st HR. rewrite <- E. exact (H s st HR). Qed.

Lemma Sim_ext_m : forall {A} (m m' : MP A) h, (forall s, m s = m' s) -> Sim m h -> Sim m' h.
Proof. intros A m m' h E H s st HR. rewrite <- E. exact (H s st HR). Qed.

(* appending a line that reads as the tokens of the emitted statements *)
Lemma Sim_append : forall l e, tok_of_line l = flatten e -> Sim (instr_append l) (fun st => (st, e, Ok)).
Proof.
  intros l e Hl s st HR; cbn. split; [destruct HR; constructor; assumption|].
  split; [|exact I]. unfold LineTok.toks. rewrite flat_map_app. cbn [flat_map]. now rewrite app_nil_r, Hl.
Qed.

Lemma seq_ok_l : forall st e k, seq (st, e, Ok) k = let '(st2, e2, o2) := k st in (st2, e ++ e2, o2).
Proof. reflexivity. Qed.

(* ---- canonical dwell totals ---- *)
Lemma canon_add0 : forall t, Qred t = t -> Qred (t + 0) = t.
Proof. intros t H. rewrite <- H at 2. apply Qred_complete. ring. Qed.

(* ---- the templates of pgmcompiler.py read as tokens (each by computation) ---- *)
Ltac pieces := unfold to_piece, tp_str, tp_Z, tp_Q, tp_line, tp_path, tp_N in *.
Ltac split_toks := unfold LineTok.toks; rewrite ?flat_map_app; cbn [flat_map]; rewrite ?app_nil_r; fold (LineTok.toks ivar).

Lemma tok_blank : tok_of_line [PL nl] = []. Proof. reflexivity. Qed.
Lemma tok_dwell : forall q, tok_of_line [PL "DWELL "; PR q; PL nl] = [TDwell (Qred q)]. Proof. reflexivity. Qed.

(* ---- dwell ---- *)
Definition h_dwell (p : option Q) (st : cstate) : res := let '(st1, e1) := do_dwell st p in (st1, e1, Ok).

Lemma Sim_dwell : forall pc p, Sim (src_dwell pc p) (h_dwell p).
Proof.
  intros pc p s st HR. unfold h_dwell, do_dwell, src_dwell, dwell_amt, dwell_toks.
  destruct p as [q|]; cbn.
  - unfold pyeq, pyeq_Q. destruct (Qeq_bool q 0) eqn:E0; cbn.
    + split; [|split; [now rewrite app_nil_r|exact I]].
      destruct HR; constructor; cbn; try assumption. rewrite r_dwell0. now apply canon_add0.
    + split; [|split; [|exact I]].
      * destruct HR; constructor; cbn; try assumption.
        -- unfold fadd. now rewrite r_dwell0.
        -- unfold fadd. apply Qred_complete. apply Qred_correct.
      * pieces. split_toks. now rewrite tok_dwell.
  - split; [|split; [now rewrite app_nil_r|exact I]].
    destruct HR; constructor; cbn; try assumption. rewrite r_dwell0. now apply canon_add0.
Qed.

(* ---- blank lines, comments, raw user lines ---- *)
Lemma Sim_blank : forall pc, Sim (src_instruction pc [PL nl]) (fun st => (st, [], Ok)).
Proof. intros pc. apply (Sim_ext_m (instr_append [PL nl] ;;; ret tt)); [reflexivity|].
  apply (Sim_ext _ (fun st => seq (st, [], Ok) (fun st => (st, [], Ok)))); [reflexivity|].
  apply Sim_bind; [apply Sim_append; reflexivity|intros; apply Sim_ret]. Qed.

Lemma Sim_comment : forall pc cs, Sim (src_comment pc cs) (fun st => (st, [], Ok)).
Proof.
  intros pc cs. unfold src_comment.
  apply (Sim_ext _ (fun st => seq (st, [], Ok) (fun st => (st, [], Ok)))); [reflexivity|].
  destruct (truthy cs); (apply Sim_bind; [apply Sim_append; reflexivity|intros; apply Sim_ret]).
Qed.

Lemma Sim_raw : forall pc t, Sim (src_instruction pc [PRaw t]) (fun st => (st, [SI t], Ok)).
Proof. intros pc t. apply (Sim_ext_m (instr_append [PRaw t; PL nl] ;;; ret tt)); [reflexivity|].
  apply (Sim_ext _ (fun st => seq (st, [SI t], Ok) (fun st => (st, [], Ok)))); [reflexivity|].
  apply Sim_bind; [apply Sim_append; reflexivity|intros; apply Sim_ret]. Qed.

(* ---- shutter ---- *)
Definition st_of (state : string) : option bool :=
  if String.eqb (lower state) "on" then Some true else if String.eqb (lower state) "off" then Some false else None.

Definition h_shutter (c : cfg) (on : bool) (st : cstate) : res := let '(st1, e1) := do_shutter c st on in (st1, e1, Ok).

Lemma tok_pso : forall (ax : string) (b : bool), (ax = "X" \/ ax = "Z") ->
  tok_of_line [PL "PSOCONTROL "; PV ax; PL ((if b then " ON" else " OFF") ++ nl)%string] = [TPso (String.eqb ax "Z") b].
Proof. intros ax b [->| ->]; destruct b; reflexivity. Qed.

Lemma Sim_shutter : forall pc state on, st_of state = Some on -> laser_ok (abs_cfg pc) = true ->
  Sim (src_shutter pc (Some state)) (h_shutter (abs_cfg pc) on).
Proof.
  intros pc state on Hs Hl s st HR. unfold h_shutter, do_shutter, src_shutter, st_of in *.
  cbn [laser_ok abs_cfg] in Hl.
  assert (Hpso : forall s0, src_pso_label pc s0 = (Ret (if String.eqb (lower (laser pc)) "ant" then "Z" else "X"), s0)).
  { intros s0. unfold src_pso_label. fold lasers. rewrite Hl. cbn. unfold pyeq, pyeq_str.
    destruct (String.eqb (lower (laser pc)) "ant"); reflexivity. }
  unfold py_in, pyeq, pyeq_str, existsb.
  destruct (String.eqb (lower state) "on") eqn:Eon.
  - injection Hs as <-. cbn. rewrite <- (r_sh _ _ HR).
    destruct (c_sh st) eqn:Esh; cbn.
    + (* already on *)
      assert (Eoff : String.eqb (lower state) "off" = false).
      { apply String.eqb_eq in Eon. rewrite Eon. reflexivity. }
      rewrite Eoff. cbn.
      split; [exact HR|]. split; [now rewrite app_nil_r|exact I].
    + unfold bind. cbn. rewrite !Hpso. cbn.
      split; [destruct HR; constructor; cbn; try assumption; reflexivity|]. split; [|exact I].
      pieces. split_toks. cbn [laser_z abs_cfg].
      destruct (String.eqb (lower (laser pc)) "ant"); reflexivity.
  - destruct (String.eqb (lower state) "off") eqn:Eoff; [|discriminate]. injection Hs as <-. cbn.
    rewrite <- (r_sh _ _ HR). destruct (c_sh st) eqn:Esh; cbn.
    + unfold bind. cbn. rewrite !Hpso. cbn.
      split; [destruct HR; constructor; cbn; try assumption; reflexivity|]. split; [|exact I].
      pieces. split_toks. cbn [laser_z abs_cfg].
      destruct (String.eqb (lower (laser pc)) "ant"); reflexivity.
    + split; [exact HR|]. split; [now rewrite app_nil_r|exact I].
Qed.

(* ---- state-dependent branching ---- *)
Lemma Sim_get_sh : forall {A} (m1 m2 : MP A) h1 h2, Sim m1 h1 -> Sim m2 h2 ->
  Sim (st__ <- get ;; if Bool.eqb (shutter_on st__) true then m1 else m2) (fun st => if c_sh st then h1 st else h2 st).
Proof.
  intros A m1 m2 h1 h2 H1 H2 s st HR. unfold bind, get. cbn. rewrite <- (r_sh _ _ HR).
  destruct (c_sh st); cbn; [apply (H1 s st HR)|apply (H2 s st HR)].
Qed.

Lemma Sim_raise : forall {A} e (k : N), k = code e -> Sim (@raise pst A e) (fun st => (st, [], Raised k)).
Proof. intros A e k -> s st HR; cbn. split; [exact HR|]. split; [now rewrite app_nil_r|reflexivity]. Qed.

(* ---- _format_args ---- *)
Definition opt_item (d : Z) (a : string) (v : option Q) : list (list piece) :=
  match v with Some q => [[PL a; PF d q]] | None => [] end.
Definition args_line (d : Z) (x y z f : option Q) : line :=
  [PJoin " " (opt_item d "X" x ++ opt_item d "Y" y ++ opt_item d "Z" z ++ opt_item d "F" f)].

Definition feed_refused (pc : pcfg) (f : option Q) : bool :=
  match f with Some v => feed_bad (abs_cfg pc) v | None => false end.

Lemma format_args_spec : forall pc x y z f s,
  src__format_args pc x y z f s =
  (if feed_refused pc f then Exc EValue else Ret (args_line (output_digits pc) x y z f), s).
Proof.
  intros pc x y z f s. unfold src__format_args, feed_refused, feed_bad, lim, args_line, opt_item, isfinite.
  replace (forallb (fun _ : Q => true) (somes [x; y; z; f])) with true
    by (symmetry; apply forallb_forall; reflexivity).
  cbn [negb]. unfold pylt, ord_Q, qlt, pow10_neg. cbn [digits abs_cfg].
  destruct x, y, z, f; cbn; try reflexivity;
    match goal with |- context [Qle_bool ?a ?b] => destruct (Qle_bool a b); reflexivity end.
Qed.

Lemma g1_args : forall d x y z f,
  g1_of_args (args_line d x y z (Some f)) =
  TG1 false d (option_map (fun q => CNum (fmt d q)) x) (option_map (fun q => CNum (fmt d q)) y)
      (option_map (fun q => CNum (fmt d q)) z) None (Some (fmt d f)).
Proof.
  intros d x y z f. unfold g1_of_args, args_line, opt_item.
  destruct x, y, z; cbn; rewrite ?Z.eqb_refl; reflexivity.
Qed.

Lemma optfm_map : forall c q, optfm c q = option_map (fun v => CNum (fmt (digits c) v)) q.
Proof. intros c [q|]; reflexivity. Qed.

(* ---- move_to ---- *)
Lemma Sim_emit_dwell_blank : forall pc l g p, tok_of_line l = [g] ->
  Sim (instr_append l ;;; src_dwell pc p ;;; src_instruction pc [PL nl] ;;; ret tt)
      (fun st => let '(st2, e2) := do_dwell st p in (st2, [SI g] ++ e2, Ok)).
Proof.
  intros pc l g p Hl.
  apply (Sim_ext _ (fun st => seq (st, [SI g], Ok) (fun st => seq (h_dwell p st) (fun st => seq (st, [], Ok) (fun st => (st, [], Ok)))))).
  { intros st. unfold seq, h_dwell. destruct (do_dwell st p) as [st2 e2]. cbn. now rewrite !app_nil_r. }
  apply Sim_bind; [apply Sim_append; exact Hl|intros _].
  apply Sim_bind; [apply Sim_dwell|intros _].
  apply Sim_bind; [apply Sim_blank|intros _; apply Sim_ret].
Qed.

Definition h_moveK (c : cfg) (x y z : option Q) (sp : Q) (st1 : cstate) : res :=
  if feed_bad c sp then (st1, [], Raised VE)
  else let g := SI (TG1 false (digits c) (optfm c x) (optfm c y) (optfm c z) None (Some (fm c sp))) in
       let '(st2, e2) := do_dwell st1 (long_p c) in (st2, [g] ++ e2, Ok).

Lemma do_move_to_eq : forall c st x y z speed,
  do_move_to c st x y z speed =
  let sp := match speed with Some v => v | None => Ops.speed_pos c end in
  if c_sh st then seq (h_shutter c false st) (h_moveK c x y z sp) else h_moveK c x y z sp st.
Proof.
  intros c st x y z speed. unfold do_move_to, h_moveK, h_shutter, do_shutter, seq.
  destruct (c_sh st) eqn:Esh; cbn.
  - destruct (feed_bad c _); reflexivity.
  - destruct (feed_bad c _); reflexivity.
Qed.

Lemma st_of_OFF : st_of "OFF" = Some false. Proof. reflexivity. Qed.
Lemma st_of_ON : st_of "ON" = Some true. Proof. reflexivity. Qed.

Lemma Sim_move_to : forall pc x y z speed, laser_ok (abs_cfg pc) = true ->
  Sim (src_move_to pc [x; y; z] speed) (fun st => do_move_to (abs_cfg pc) st x y z speed).
Proof.
  intros pc x y z speed Hl.
  apply (Sim_ext _ _ _ (fun st => eq_sym (do_move_to_eq (abs_cfg pc) st x y z speed))).
  unfold src_move_to.
  change (pyne (py_len [x; y; z]) (of_int 3)) with false. cbv iota.
  replace ((is_none speed && is_none (cfg_speed_pos pc))%bool) with false by (destruct speed; reflexivity). cbv iota.
  set (sp := match speed with Some v => v | None => cfg_speed_pos pc end).
  replace (match speed with None => cfg_speed_pos pc | Some s => s end) with sp by (destruct speed; reflexivity).
  cbv zeta.
  assert (HK : forall K : MP unit,
            K = (format_args__1 <- src__format_args pc (as_opt x) (as_opt y) (as_opt z) (as_opt sp);;
                 (if forallb (fun coord : option Q => is_none coord) [x; y; z]
                  then instr_append [to_piece format_args__1; PL nl];;; src_dwell pc (as_opt (long_pause pc));;;
                       src_instruction pc [PL nl];;; ret tt
                  else instr_append [PL "G1 "; to_piece format_args__1; PL nl];;; src_dwell pc (as_opt (long_pause pc));;;
                       src_instruction pc [PL nl];;; ret tt)) ->
            Sim K (h_moveK (abs_cfg pc) x y z sp)).
  { intros K ->. apply Sim_intro. intros s st HR. unfold bind at 1. rewrite format_args_spec.
    unfold feed_refused, as_opt, asopt_val, asopt_opt, h_moveK.
    change (Ops.speed_pos (abs_cfg pc)) with (cfg_speed_pos pc). cbn [digits long_p abs_cfg].
    destruct (feed_bad (abs_cfg pc) sp); [cbn; split; [exact HR|split; [now rewrite app_nil_r|reflexivity]]|].
    assert (Hg : forall l, tok_of_line l = [g1_of_args (args_line (output_digits pc) x y z (Some sp))] ->
                 Sim (instr_append l ;;; src_dwell pc (long_pause pc) ;;; src_instruction pc [PL nl] ;;; ret tt)
                     (fun st => let '(st2, e2) := do_dwell st (long_pause pc) in
                                (st2, [SI (TG1 false (output_digits pc) (optfm (abs_cfg pc) x) (optfm (abs_cfg pc) y) (optfm (abs_cfg pc) z)
                                                None (Some (fm (abs_cfg pc) sp)))] ++ e2, Ok))).
    { intros l Hline. apply Sim_emit_dwell_blank. rewrite Hline, g1_args, !optfm_map. reflexivity. }
    destruct (forallb (fun coord : option Q => is_none coord) [x; y; z]);
      (refine (Sim_elim _ _ (Hg _ _) s st HR); reflexivity). }
  apply (Sim_get_sh (src_shutter pc (Some "OFF") ;;; _) _ (fun st => seq (h_shutter (abs_cfg pc) false st) (h_moveK (abs_cfg pc) x y z sp))
                    (h_moveK (abs_cfg pc) x y z sp)).
  - apply Sim_bind; [apply Sim_shutter; [exact st_of_OFF|exact Hl]|intros _; apply HK; reflexivity].
  - apply HK; reflexivity.
Qed.

(* ---- set_home ---- *)
Lemma g92_args : forall d x y z, (x, y, z) <> (None, None, None) ->
  g92_of_args (args_line d x y z None) = TG92 d (option_map (fmt d) x) (option_map (fmt d) y) (option_map (fmt d) z).
Proof.
  intros d x y z H. unfold g92_of_args, g1_of_args, args_line, opt_item.
  destruct x, y, z; cbn; rewrite ?Z.eqb_refl; try reflexivity. now elim H.
Qed.

Lemma Sim_set_home : forall pc x y z,
  Sim (src_set_home pc [x; y; z]) (fun st => do_set_home (abs_cfg pc) st x y z).
Proof.
  intros pc x y z. apply Sim_intro. intros s st HR. unfold src_set_home, do_set_home.
  change (pyne (py_len [x; y; z]) (of_int 3)) with false. cbv iota.
  destruct (forallb (fun coord : option Q => is_none coord) [x; y; z]) eqn:Eall.
  - assert (x = None /\ y = None /\ z = None) as (-> & -> & ->) by (destruct x, y, z; try discriminate; auto).
    cbn. split; [exact HR|split; [now rewrite app_nil_r|reflexivity]].
  - assert (Hne : (x, y, z) <> (None, None, None)) by (intros E; injection E as -> -> ->; discriminate).
    unfold bind at 1. rewrite format_args_spec. cbn [feed_refused].
    set (g := TG92 (output_digits pc) (option_map (fmt (output_digits pc)) x)
                   (option_map (fmt (output_digits pc)) y) (option_map (fmt (output_digits pc)) z)).
    assert (HS : Sim (instr_append [PL "G92 "; to_piece (args_line (output_digits pc) x y z None); PL nl] ;;; ret tt)
                     (fun st => (st, [SI g], Ok))).
    { apply (Sim_ext _ (fun st => seq (st, [SI g], Ok) (fun st => (st, [], Ok)))); [reflexivity|].
      apply Sim_bind; [|intros _; apply Sim_ret]. apply Sim_append. pieces.
      change (tok_of_line [PL "G92 "; PSub (args_line (output_digits pc) x y z None); PL nl])
        with [g92_of_args (args_line (output_digits pc) x y z None)].
      now rewrite g92_args. }
    pose proof (Sim_elim _ _ HS s st HR) as H.
    destruct x, y, z; try exact H. now elim Hne.
Qed.

(* ---- dvar ---- *)
Lemma ivar_lower : forall v, ivar (lower v) = ivar v.
Proof. intros v. apply ivar_spec. apply lower_idem. Qed.

Lemma Sim_dvar : forall pc vs,
  Sim (src_dvar pc vs)
      (fun st => (st_dvars st (c_dvars st ++ map ivar vs) (TDvar (map ivar vs) :: c_pre st), [], Ok)).
Proof.
  intros pc vs. apply Sim_intro. intros s st HR. unfold src_dvar, listcast_flatten. cbn.
  split; [|split; [now rewrite app_nil_r|exact I]].
  destruct HR; constructor; cbn; try assumption.
  - rewrite r_dvars0, !map_app, map_map. f_equal. apply map_ext. intros a. symmetry. apply ivar_lower.
  - apply Forall_app; split; [assumption|]. apply Forall_forall. intros d Hd.
    apply in_map_iff in Hd. destruct Hd as (v & <- & _). apply lower_idem.
  - now rewrite r_pre0.
Qed.

(* ---- tic / toc ---- *)
Lemma Sim_tic : forall pc, Sim (src_tic pc) (fun st => (st, [SI TMsg], Ok)).
Proof. intros pc. unfold src_tic.
  apply (Sim_ext _ (fun st => seq (st, [SI TMsg], Ok) (fun st => (st, [], Ok)))); [reflexivity|].
  apply Sim_bind; [apply Sim_append; reflexivity|intros _; apply Sim_ret]. Qed.

Lemma Sim_toc : forall pc, Sim (src_toc pc) (fun st => (st, [SI TMsg; SI TMsg; SI TMsg], Ok)).
Proof. intros pc. unfold src_toc.
  apply (Sim_ext _ (fun st => seq (st, [SI TMsg], Ok) (fun st => seq (st, [SI TMsg], Ok) (fun st => seq (st, [SI TMsg], Ok) (fun st => (st, [], Ok))))));
    [reflexivity|].
  repeat (apply Sim_bind; [apply Sim_append; reflexivity|intros _]). apply Sim_ret. Qed.

(* ---- sub-programs ---- *)
Definition abs_path (p : ppath) : fname := {| f_arg := pp_str p; f_base := pp_name p; f_pgm := pp_pgm p |}.
(* a '.pgm' path: its file name is determined by its stem (and conversely: name_of_stem is injective) *)
Definition wfp (p : ppath) : Prop := pp_pgm p = true -> pp_name p = name_of_stem (pp_stem p).

Lemma mem_map_nos : forall a l, mem (name_of_stem a) (map name_of_stem l) = py_in a l.
Proof.
  intros a l. unfold mem, py_in, pyeq, pyeq_N. induction l as [|b l IH]; cbn; [reflexivity|]. rewrite IH. f_equal.
  destruct (N.eqb_spec a b) as [->|Hn]; [apply N.eqb_refl|]. apply N.eqb_neq. intros E. apply Hn. now apply nos_inj.
Qed.

Lemma remove1_map_nos : forall a l,
  remove1 (name_of_stem a) (map name_of_stem l) = map name_of_stem (remove_first pyeq a l).
Proof.
  intros a l. unfold pyeq, pyeq_N. induction l as [|b l IH]; cbn; [reflexivity|].
  destruct (N.eqb_spec a b) as [->|Hn].
  - now rewrite N.eqb_refl.
  - replace (N.eqb (name_of_stem a) (name_of_stem b)) with false
      by (symmetry; apply N.eqb_neq; intros E; apply Hn; now apply nos_inj).
    cbn. now rewrite IH.
Qed.

Definition task_of (t : option Z) : Z := match t with Some v => v | None => 2 end.

Lemma Sim_load : forall pc p t, wfp p ->
  Sim (src_load_program pc p t) (fun st => do_load st (abs_path p) (task_of t)).
Proof.
  intros pc p t Hw. apply Sim_intro. intros s st HR. unfold src_load_program, do_load, get_filepath, abs_path.
  cbn [f_pgm f_base f_arg].
  assert (E : forall task : Z,
    SimR ((get_filepath__1 <- (if (String.eqb "pgm" "pgm" || String.eqb "pgm" ".pgm")%bool
                               then if pp_pgm p then ret p else raise EValue else raise EType);;
           (let file := get_filepath__1 in
            instr_append [PL "PROGRAM "; to_piece (to_int task); PL " LOAD """; to_piece file; PL ("""" ++ nl)%string];;;
            modify (fun s__ : pst => set_loaded_files (loaded_files s__ ++ [pp_stem file]) s__);;; ret tt)) s)
         (if negb (pp_pgm p) then (st, [], Raised VE)
          else (st_loaded st (c_loaded st ++ [pp_name p]), [SI (TLoad task (pp_str p) (pp_name p))], Ok)) s).
  { intros task. cbn. destruct (pp_pgm p) eqn:Ep; cbn.
    - split; [|split; [|exact I]].
      + destruct HR; constructor; cbn; try assumption. rewrite r_loaded0, map_app. cbn. now rewrite (Hw Ep).
      + split_toks. reflexivity.
    - split; [exact HR|split; [now rewrite app_nil_r|reflexivity]]. }
  destruct t as [t|]; apply E.
Qed.

Lemma Sim_programstop : forall pc t, Sim (src_programstop pc t) (fun st => (st, [SI (TStop t); SI (TWait t)], Ok)).
Proof.
  intros pc t. unfold src_programstop.
  apply (Sim_ext _ (fun st => seq (st, [SI (TStop t)], Ok) (fun st => seq (st, [SI (TWait t)], Ok) (fun st => (st, [], Ok)))));
    [reflexivity|].
  repeat (apply Sim_bind; [apply Sim_append; reflexivity|intros _]). apply Sim_ret.
Qed.

Lemma Sim_remove : forall pc p t, wfp p ->
  Sim (src_remove_program pc p t) (fun st => do_remove st (abs_path p) t).
Proof.
  intros pc p t Hw. apply Sim_intro. intros s st HR. unfold src_remove_program, do_remove, get_filepath, abs_path.
  cbn [f_pgm f_base f_arg]. change (String.eqb "pgm" "pgm" || String.eqb "pgm" ".pgm")%bool with true. cbv iota.
  destruct (pp_pgm p) eqn:Ep; [|cbn; split; [exact HR|split; [now rewrite app_nil_r|reflexivity]]].
  unfold bind at 1. cbn [ret]. cbv zeta. unfold bind at 1, get at 1. cbv iota beta.
  rewrite (r_loaded _ _ HR), (Hw Ep), mem_map_nos.
  destruct (py_in (pp_stem p) (loaded_files s)) eqn:Ein; cbn [negb];
    [|cbn; split; [exact HR|split; [now rewrite app_nil_r|reflexivity]]].
  assert (HS : Sim (src_programstop pc t ;;; instr_append [PL "REMOVEPROGRAM """; to_piece (name_of_stem (pp_stem p)); PL ("""" ++ nl)%string] ;;;
                    modify (fun s__ : pst => set_loaded_files (remove_first pyeq (pp_stem p) (loaded_files s__)) s__) ;;; ret tt)
                   (fun st => (st_loaded st (remove1 (name_of_stem (pp_stem p)) (c_loaded st)),
                               [SI (TStop t); SI (TWait t); SI (TRemove (name_of_stem (pp_stem p)))], Ok))).
  { apply (Sim_ext _ (fun st => seq (st, [SI (TStop t); SI (TWait t)], Ok)
                       (fun st => seq (st, [SI (TRemove (name_of_stem (pp_stem p)))], Ok)
                          (fun st => (st_loaded st (remove1 (name_of_stem (pp_stem p)) (c_loaded st)), [], Ok)))));
      [reflexivity|].
    apply Sim_bind; [apply Sim_programstop|intros _].
    apply Sim_bind; [apply Sim_append; reflexivity|intros _].
    apply Sim_intro. intros s1 st1 HR1. cbn. split; [|split; [now rewrite app_nil_r|exact I]].
    destruct HR1; constructor; cbn; try assumption. now rewrite r_loaded0, remove1_map_nos. }
  pose proof (Sim_elim _ _ HS s st HR) as H. cbv beta in H. rewrite (r_loaded _ _ HR) in H. exact H.
Qed.

(* a call: refused unless the suffix is .pgm and the program is loaded; dwell(short) then the calling line *)
Lemma Sim_call : forall (pc : pcfg) p (K : ppath -> MP unit) (callk : cstate -> res) (ext : string),
  wfp p -> (ext = "pgm" \/ ext = ".pgm") ->
  Sim (K p) callk ->
  Sim (get_filepath__1 <- get_filepath p ext ;;
       let file := get_filepath__1 in
       st__ <- get ;; if negb (py_in (pp_stem file) (loaded_files st__)) then raise EFileNotFound else K file)
      (fun st => if negb (pp_pgm p) then (st, [], Raised VE)
                 else if negb (mem (pp_name p) (c_loaded st)) then (st, [], Raised FNF) else callk st).
Proof.
  intros pc p K callk ext Hw Hext HK. apply Sim_intro. intros s st HR. unfold get_filepath.
  replace (String.eqb ext "pgm" || String.eqb ext ".pgm")%bool with true by (destruct Hext as [-> | ->]; reflexivity).
  destruct (pp_pgm p) eqn:Ep; [|cbn; split; [exact HR|split; [now rewrite app_nil_r|reflexivity]]].
  unfold bind at 1. cbn [ret negb]. cbv zeta. unfold bind at 1, get at 1. cbv iota beta.
  rewrite (r_loaded _ _ HR), (Hw Ep), mem_map_nos.
  destruct (py_in (pp_stem p) (loaded_files s)); cbn [negb].
  - exact (Sim_elim _ _ HK s st HR).
  - cbn. split; [exact HR|split; [now rewrite app_nil_r|reflexivity]].
Qed.

Lemma Sim_farcall : forall pc p, wfp p ->
  Sim (src_farcall pc p) (fun st => do_farcall (abs_cfg pc) st (abs_path p)).
Proof.
  intros pc p Hw. unfold src_farcall, do_farcall, abs_path. cbn [f_pgm f_base f_arg short_p abs_cfg].
  apply (Sim_call pc p (fun file => src_dwell pc (as_opt (cfg_short_pause pc));;;
                                    instr_append [PL "FARCALL """; to_piece file; PL ("""" ++ nl)%string];;; ret tt)
                  (fun st => let '(st1, e1) := do_dwell st (short_pause pc) in
                             (st1, e1 ++ [SI (TFarcall (pp_str p) (pp_name p))], Ok)) ".pgm" Hw (or_intror eq_refl)).
  apply (Sim_ext _ (fun st => seq (h_dwell (short_pause pc) st)
                     (fun st => seq (st, [SI (TFarcall (pp_str p) (pp_name p))], Ok) (fun st => (st, [], Ok))))).
  { intros st. unfold seq, h_dwell. destruct (do_dwell st (short_pause pc)). cbn. reflexivity. }
  apply Sim_bind; [apply Sim_dwell|intros _].
  apply Sim_bind; [apply Sim_append; reflexivity|intros _; apply Sim_ret].
Qed.

Lemma Sim_buffered : forall pc p t, wfp p ->
  Sim (src_bufferedcall pc p t) (fun st => do_buffered (abs_cfg pc) st (abs_path p) t).
Proof.
  intros pc p t Hw. unfold src_bufferedcall, do_buffered, abs_path. cbn [f_pgm f_base f_arg short_p abs_cfg].
  apply (Sim_call pc p (fun file => src_dwell pc (as_opt (cfg_short_pause pc));;; src_instruction pc [PL nl];;;
                                    instr_append [PL "PROGRAM "; to_piece t; PL " BUFFEREDRUN """; to_piece file; PL ("""" ++ nl)%string];;; ret tt)
                  (fun st => let '(st1, e1) := do_dwell st (short_pause pc) in
                             (st1, e1 ++ [SI (TBuffered t (pp_str p) (pp_name p))], Ok)) ".pgm" Hw (or_intror eq_refl)).
  apply (Sim_ext _ (fun st => seq (h_dwell (short_pause pc) st)
                     (fun st => seq (st, [], Ok)
                        (fun st => seq (st, [SI (TBuffered t (pp_str p) (pp_name p))], Ok) (fun st => (st, [], Ok)))))).
  { intros st. unfold seq, h_dwell. destruct (do_dwell st (short_pause pc)). cbn. reflexivity. }
  apply Sim_bind; [apply Sim_dwell|intros _].
  apply Sim_bind; [apply Sim_blank|intros _].
  apply Sim_bind; [apply Sim_append; reflexivity|intros _; apply Sim_ret].
Qed.

(* ---- axis rotation ---- *)
Lemma fmt6_0 : fmt 6 0 = 0%Z. Proof. reflexivity. Qed.

Lemma tok_rot : forall sp,
  tok_of_line [PL "G1 X"; PF 6 0; PL " Y"; PF 6 0; PL " Z"; PF 6 0; PL " F"; PF 6 sp; PL nl] =
  [TG1 false 6 (Some (CNum 0)) (Some (CNum 0)) (Some (CNum 0)) None (Some (fmt 6 sp))].
Proof. intros sp. reflexivity. Qed.

Definition h_rot_head (pc : pcfg) (st : cstate) : res :=
  let '(st1, e1) := do_dwell st (short_pause pc) in (st1, [rot_g1 (abs_cfg pc); SI (TG84 false)] ++ e1, Ok).

Lemma Sim_rot_head : forall pc cs,
  Sim (src_comment pc cs ;;;
       instr_append [PL "G1 X"; PF 6 0; PL " Y"; PF 6 0; PL " Z"; PF 6 0; PL " F"; PF 6 (PgmState.speed_pos pc); PL nl] ;;;
       instr_append [PL ("G84 X Y" ++ nl)%string] ;;; src_dwell pc (short_pause pc) ;;; ret tt)
      (h_rot_head pc).
Proof.
  intros pc cs.
  apply (Sim_ext _ (fun st => seq (st, [], Ok) (fun st => seq (st, [rot_g1 (abs_cfg pc)], Ok)
                     (fun st => seq (st, [SI (TG84 false)], Ok) (fun st => seq (h_dwell (short_pause pc) st) (fun st => (st, [], Ok))))))).
  { intros st. unfold seq, h_rot_head, h_dwell. destruct (do_dwell st (short_pause pc)). cbn. now rewrite app_nil_r. }
  apply Sim_bind; [apply Sim_comment|intros _].
  apply Sim_bind; [apply Sim_append; apply tok_rot|intros _].
  apply Sim_bind; [apply Sim_append; reflexivity|intros _].
  apply Sim_bind; [apply Sim_dwell|intros _; apply Sim_ret].
Qed.

Lemma Sim_exit_rot : forall pc,
  Sim (src__exit_axis_rotation pc) (fun st => let '(st1, e1) := exit_rot (abs_cfg pc) st in (st1, e1, Ok)).
Proof.
  intros pc. unfold src__exit_axis_rotation, as_opt, asopt_opt.
  apply (Sim_ext _ (h_rot_head pc)); [|apply Sim_rot_head].
  intros st. unfold h_rot_head, exit_rot. cbn [short_p abs_cfg]. destruct (do_dwell st (short_pause pc)). reflexivity.
Qed.

Definition h_enter_rot (pc : pcfg) (explicit : bool) (st : cstate) : res :=
  let '(st1, e1) := enter_rot (abs_cfg pc) st explicit in (st1, e1, Ok).

Lemma Sim_enter_rot : forall pc angle,
  Sim (src__enter_axis_rotation pc angle) (h_enter_rot pc (negb (is_none angle))).
Proof.
  intros pc angle. unfold src__enter_axis_rotation, as_opt, asopt_opt.
  set (cond := (is_none angle && pyeq (cfg_aerotech_angle pc) (0 # 1)%Q)%bool).
  apply (Sim_ext _ (fun st => seq (st, [], Ok) (fun st => seq (st, [rot_g1 (abs_cfg pc)], Ok)
                     (fun st => seq (st, [SI (TG84 false)], Ok) (fun st => seq (h_dwell (short_pause pc) st)
                        (fun st => if cond then (st, [], Ok)
                                   else seq (st, [SI (TG84 true)], Ok) (fun st => seq (h_dwell (short_pause pc) st) (fun st => (st, [], Ok))))))))).
  { intros st. unfold seq, h_enter_rot, enter_rot, h_dwell. cbn [short_p aero abs_cfg].
    replace (negb (negb (is_none angle)) && negb (truthy (cfg_aerotech_angle pc)))%bool with cond
      by (unfold cond, truthy, truthy_Q, pyeq, pyeq_Q; now rewrite !negb_involutive).
    destruct (do_dwell st (short_pause pc)) as [st1 e1]. destruct cond.
    - cbn. now rewrite app_nil_r.
    - destruct (do_dwell st1 (short_pause pc)) as [st2 e2]. cbn. now rewrite app_nil_r. }
  apply Sim_bind; [apply Sim_comment|intros _].
  apply Sim_bind; [apply Sim_append; apply tok_rot|intros _].
  apply Sim_bind; [apply Sim_append; reflexivity|intros _].
  apply Sim_bind; [apply Sim_dwell|intros _].
  destruct cond; [apply Sim_ret|].
  apply Sim_bind; [apply Sim_append; reflexivity|intros _].
  apply Sim_bind; [apply Sim_dwell|intros _; apply Sim_ret].
Qed.

(* ---- loops ---- *)
Lemma flat_fix : forall b,
  (fix fl (l : list stmt) : list tok := match l with [] => [] | s :: r => flat_s s ++ fl r end) b = flatten b.
Proof. induction b as [|x b IH]; cbn; [reflexivity|]. now rewrite IH. Qed.

Lemma flatten_rep : forall n b, flatten [SRep n b] = TRepeat n :: flatten b ++ [TEndRepeat].
Proof. intros n b. cbn. now rewrite flat_fix, app_nil_r. Qed.
Lemma flatten_for : forall v lo hi b, flatten [SFor v lo hi b] = TFor v lo hi :: flatten b ++ [TNext v].
Proof. intros v lo hi b. cbn. now rewrite flat_fix, app_nil_r. Qed.

Lemma Sim_loop : forall (head tail : line) (n : Z) (wrap : list stmt -> stmt) htok ttok (body : MP unit) hbody,
  tok_of_line head = [htok] -> tok_of_line tail = [ttok] ->
  (forall b, flatten [wrap b] = htok :: flatten b ++ [ttok]) ->
  Sim body hbody ->
  Sim (instr_append head ;;; st__ <- get ;;
       let _temp_dt := total_dwell_time st__ in
       try_finally body
         (instr_append tail ;;; st__ <- get ;;
          modify (fun s__ => set_total_dwell_time
                    (fadd (total_dwell_time s__) (pymul (to_int (pysub n (of_int 1))) (pysub (total_dwell_time st__) _temp_dt))) s__) ;;;
          ret tt) ;;; ret tt)
      (fun st => close_loop st n wrap (hbody st)).
Proof.
  intros head tail n wrap htok ttok body hbody Hh Ht Hw Hb. apply Sim_intro. intros s st HR.
  unfold bind at 1. unfold instr_append at 1, modify at 1. cbv iota beta.
  set (s1 := set_instr_back (instr_back s ++ [head]) s).
  assert (HR1 : Rel s1 st) by (destruct HR; constructor; assumption).
  unfold bind at 1, get at 1. cbv iota beta zeta.
  unfold bind at 1, try_finally.
  pose proof (Sim_elim _ _ Hb s1 st HR1) as H. unfold SimR in H. unfold close_loop.
  destruct (hbody st) as [[st2 e2] o2]. destruct H as (R2 & T2 & O2).
  destruct (body s1) as [r2 s2]. cbn [fst snd] in *.
  set (s3 := set_total_dwell_time
               (fadd (total_dwell_time s2) (pymul (to_int (pysub n (of_int 1))) (pysub (total_dwell_time s2) (total_dwell_time s1))))
               (set_instr_back (instr_back s2 ++ [tail]) s2)).
  set (st3 := st_dwell st2 (Qred (c_dwell st2 + inject_Z (n - 1) * (c_dwell st2 - c_dwell st)))).
  assert (H3 : Rel s3 st3 /\ toks (instr_back s3) = toks (instr_back s) ++ flatten [wrap e2]).
  { split.
    - destruct R2; constructor; cbn; try assumption.
      + unfold fadd, pymul, mul_ZQ, to_int, toint_Z, pysub, sub_Z, sub_Q, of_int, ofint_Z.
        rewrite r_dwell0. change (total_dwell_time s1) with (total_dwell_time s). now rewrite <- (r_dwell _ _ HR).
      + unfold fadd. apply Qred_complete, Qred_correct.
    - rewrite Hw. unfold LineTok.toks in *. unfold s3. cbn [instr_back set_instr_back set_total_dwell_time].
      rewrite flat_map_app, T2. unfold s1. cbn [instr_back set_instr_back flat_map].
      rewrite flat_map_app. cbn [flat_map]. rewrite Hh, Ht, !app_nil_r. rewrite <- !app_assoc. reflexivity. }
  destruct H3 as [H3a H3b].
  destruct r2 as [[]|e]; (split; [exact H3a|split; [exact H3b|exact O2]]).
Qed.

Lemma Sim_repeat : forall pc n (body : MP unit) hbody, Sim body hbody ->
  Sim (src_repeat pc n body)
      (fun st => match n with
                 | None => (st, [], Raised VE)
                 | Some n => if (n <=? 0)%Z then (st, [], Raised VE) else close_loop st n (SRep n) (hbody st)
                 end).
Proof.
  intros pc [n|] body hbody Hb; [|apply Sim_raise; reflexivity]. unfold src_repeat.
  unfold pyle, ord_Z, of_int, ofint_Z. destruct (n <=? 0)%Z; [apply Sim_raise; reflexivity|].
  apply (Sim_loop _ _ n (SRep n) (TRepeat n) TEndRepeat body hbody); [reflexivity|reflexivity|apply flatten_rep|exact Hb].
Qed.

Lemma mem_ivar : forall var l, Forall (fun d => lower d = d) l ->
  mem (ivar var) (map ivar l) = py_in (lower var) l.
Proof.
  intros var l Hl. unfold mem, py_in, pyeq, pyeq_str. induction Hl as [|d l Hd _ IH]; cbn; [reflexivity|].
  rewrite IH. f_equal.
  destruct (String.eqb_spec (lower var) d) as [E|E].
  - apply N.eqb_eq. apply ivar_spec. now rewrite Hd.
  - apply N.eqb_neq. intros Hi. apply ivar_spec in Hi. rewrite Hd in Hi. contradiction.
Qed.

Lemma Sim_for : forall pc var n (body : MP unit) hbody, Sim body hbody ->
  Sim (src_for_loop pc var n body)
      (fun st => match n with
                 | None => (st, [], Raised VE)
                 | Some n =>
                     if (n <=? 0)%Z then (st, [], Raised VE)
                     else match option_map ivar var with
                          | None => (st, [], Raised VE)
                          | Some v => if negb (mem v (c_dvars st)) then (st, [], Raised VE)
                                      else close_loop st n (SFor v 0 (n - 1)) (hbody st)
                          end
                 end).
Proof.
  intros pc var [n|] body hbody Hb; [|apply Sim_raise; reflexivity]. unfold src_for_loop.
  unfold pyle, ord_Z, of_int, ofint_Z. destruct (n <=? 0)%Z; [apply Sim_raise; reflexivity|].
  destruct var as [var|]; [|apply Sim_raise; reflexivity]. cbn [option_map].
  apply Sim_intro. intros s st HR. unfold bind at 1, get at 1. cbv iota beta.
  rewrite (r_dvars _ _ HR), (mem_ivar _ _ (r_low _ _ HR)).
  destruct (py_in (lower var) (dvars s)); cbn [negb];
    [|cbn; split; [exact HR|split; [now rewrite app_nil_r|reflexivity]]].
  refine (Sim_elim _ (fun st => close_loop st n (SFor (ivar var) 0 (n - 1)) (hbody st)) _ s st HR).
  apply (Sim_loop _ _ n (SFor (ivar var) 0 (n - 1)) (TFor (ivar var) 0 (n - 1)) (TNext (ivar var)) body hbody);
    [reflexivity|reflexivity|apply flatten_for|exact Hb].
Qed.

Lemma Sim_axis_rotation : forall pc angle (body : MP unit) hbody, Sim body hbody ->
  Sim (src_axis_rotation pc angle body)
      (fun st => let '(st1, e1) := enter_rot (abs_cfg pc) st (negb (is_none angle)) in
                 let '(st2, e2, o2) := hbody st1 in
                 let '(st3, e3) := exit_rot (abs_cfg pc) st2 in
                 (st3, e1 ++ e2 ++ e3, o2)).
Proof.
  intros pc angle body hbody Hb. apply Sim_intro. intros s st HR. unfold src_axis_rotation, as_opt, asopt_opt.
  pose proof (Sim_elim _ _ (Sim_enter_rot pc angle) s st HR) as H1. unfold SimR, h_enter_rot in H1.
  unfold bind at 1.
  destruct (enter_rot (abs_cfg pc) st (negb (is_none angle))) as [st1 e1]. destruct H1 as (R1 & T1 & O1).
  destruct (src__enter_axis_rotation pc angle s) as [[[]|e] s1]; cbn [fst snd] in *; [|contradiction].
  unfold bind at 1, try_finally.
  pose proof (Sim_elim _ _ Hb s1 st1 R1) as H2. unfold SimR in H2.
  destruct (hbody st1) as [[st2 e2] o2]. destruct H2 as (R2 & T2 & O2).
  destruct (body s1) as [r2 s2]; cbn [fst snd] in *.
  assert (H3 : forall s3 r3, (src__exit_axis_rotation pc ;;; ret tt) s2 = (r3, s3) ->
               let '(st3, e3) := exit_rot (abs_cfg pc) st2 in
               Rel s3 st3 /\ toks (instr_back s3) = toks (instr_back s2) ++ flatten e3 /\ r3 = Ret tt).
  { intros s3 r3 E3. pose proof (Sim_elim _ _ (Sim_exit_rot pc) s2 st2 R2) as H. unfold SimR in H.
    destruct (exit_rot (abs_cfg pc) st2) as [st3 e3]. destruct H as (R3 & T3 & O3).
    unfold bind in E3. destruct (src__exit_axis_rotation pc s2) as [[[]|e] s3'] eqn:E; cbn [fst snd] in *; [|contradiction].
    cbn in E3. injection E3 as <- <-. auto. }
  destruct ((src__exit_axis_rotation pc ;;; ret tt) s2) as [r3 s3] eqn:E3. specialize (H3 s3 r3 eq_refl).
  destruct (exit_rot (abs_cfg pc) st2) as [st3 e3]. destruct H3 as (R3 & T3 & ->).
  unfold SimR.
  assert (HT : toks (instr_back s3) = toks (instr_back s) ++ flatten (e1 ++ e2 ++ e3)).
  { rewrite T3, T2, T1, !flatten_app, <- !app_assoc. reflexivity. }
  destruct r2 as [[]|e]; cbn; (split; [exact R3|split; [exact HT|exact O2]]).
Qed.

(* ---- write ---- *)
Lemma Sim_get_b : forall {A} (g : bool -> bool) (m1 m2 : MP A) h1 h2, Sim m1 h1 -> Sim m2 h2 ->
  Sim (st__ <- get ;; if g (shutter_on st__) then m1 else m2) (fun st => if g (c_sh st) then h1 st else h2 st).
Proof.
  intros A g m1 m2 h1 h2 H1 H2 s st HR. unfold bind, get. cbn. rewrite <- (r_sh _ _ HR).
  destruct (g (c_sh st)); cbn; [apply (H1 s st HR)|apply (H2 s st HR)].
Qed.

Lemma Sim_bind_val : forall {A B} (m : MP A) (k : A -> MP B) h1 h2 (v : A),
  Sim m h1 -> (forall s, match fst (m s) with Ret a => a = v | Exc _ => True end) -> Sim (k v) h2 ->
  Sim (bind m k) (fun st => seq (h1 st) h2).
Proof.
  intros A B m k h1 h2 v H1 Hv H2 s st HR. specialize (H1 s st HR). specialize (Hv s).
  unfold bind, seq. destruct (h1 st) as [[st1 e1] o1]. destruct H1 as (R1 & T1 & O1).
  destruct (m s) as [[a|e] s1]; cbn in *; destruct o1; try contradiction.
  - subst a. specialize (H2 s1 st1 R1). destruct (h2 st1) as [[st2 e2] o2]. destruct H2 as (R2 & T2 & O2).
    split; [exact R2|]. split; [|exact O2]. now rewrite T2, T1, flatten_app, app_assoc.
  - split; [exact R1|]. split; [exact T1|exact O1].
Qed.

Definition tp3 (pc : pcfg) (p : pt) : Q * Q * Q := tr32 (tcf pc) (px p, py p, pz p).
Definition wA (pc : pcfg) (p : pt) : line :=
  let '(x, y, z) := tp3 pc p in args_line (output_digits pc) (Some x) (Some y) (Some z) (Some (pf p)).
Definition wC (pc : pcfg) (p : pt) : list Z :=
  let '(x, y, z) := tp3 pc p in [fmt (output_digits pc) x; fmt (output_digits pc) y; fmt (output_digits pc) z].
Definition wS (p : pt) : Q := inject_Z (ps p).
Definition cols (pts : list pt) : list (list Q) := [map px pts; map py pts; map pz pts; map pf pts; map wS pts].

Lemma zip3_map : forall {X A B C} (f : X -> A) (g : X -> B) (h : X -> C) l,
  zip3 (map f l) (map g l) (map h l) = map (fun x => (f x, g x, h x)) l.
Proof. induction l as [|x l IH]; cbn; [reflexivity|]. now rewrite IH. Qed.
Lemma zip4_map : forall {X A B C D} (f : X -> A) (g : X -> B) (h : X -> C) (k : X -> D) l,
  zip4 (map f l) (map g l) (map h l) (map k l) = map (fun x => (f x, g x, h x, k x)) l.
Proof. induction l as [|x l IH]; cbn; [reflexivity|]. now rewrite IH. Qed.

Lemma fmt_pt_eq : forall pc p,
  fmt_pt (abs_cfg pc) p =
  let '(x, y, z) := tp3 pc p in
  (fmt (output_digits pc) x, fmt (output_digits pc) y, fmt (output_digits pc) z, fmt (output_digits pc) (pf p)).
Proof. intros pc p. unfold fmt_pt, tp3, fm. cbn [tc digits abs_cfg]. destruct (tr32 _ _) as [[x y] z]. reflexivity. Qed.

Lemma tok_g1_w : forall pc p,
  tok_of_line [PL "G1 "; PSub (wA pc p); PL nl] = flatten [g1_of (abs_cfg pc) (fmt_pt (abs_cfg pc) p)].
Proof.
  intros pc p. change (tok_of_line [PL "G1 "; PSub (wA pc p); PL nl]) with [g1_of_args (wA pc p)].
  rewrite fmt_pt_eq. unfold wA. destruct (tp3 pc p) as [[x y] z]. rewrite g1_args. reflexivity.
Qed.

Lemma mapM_format : forall pc pts s,
  mapM (fun '(x, y, z, f) => format_args__1 <- src__format_args pc (as_opt x) (as_opt y) (as_opt z) (as_opt f) ;; ret format_args__1)
       (map (fun p => let '(x, y, z) := tp3 pc p in (x, y, z, pf p)) pts) s =
  (if existsb (fun p => feed_bad (abs_cfg pc) (pf p)) pts then Exc EValue else Ret (map (wA pc) pts), s).
Proof.
  intros pc pts s. induction pts as [|p pts IH]; [reflexivity|].
  cbn [map mapM existsb]. unfold wA at 1. destruct (tp3 pc p) as [[x y] z].
  unfold bind at 1. unfold bind at 1. rewrite format_args_spec. cbn [feed_refused as_opt asopt_val].
  destruct (feed_bad (abs_cfg pc) (pf p)); [reflexivity|]. cbn [ret orb].
  unfold bind at 1. rewrite IH. destruct (existsb _ pts); reflexivity.
Qed.

Definition cof (a : args) : list Z := let '(a1, a2, a3, _) := a in [a1; a2; a3].
Lemma wC_cof : forall pc p, wC pc p = cof (fmt_pt (abs_cfg pc) p).
Proof. intros pc p. rewrite fmt_pt_eq. unfold wC. destruct (tp3 pc p) as [[x y] z]. reflexivity. Qed.

Lemma pyne_same : forall (a : args) (prev : option args),
  pyne (cof a) (option_map cof prev) = negb (match prev with Some b => args_eqb a b | None => false end).
Proof.
  intros [[[a1 a2] a3] a4] [[[[b1 b2] b3] b4]|]; [|reflexivity].
  cbv [pyne pyeq pyeq_opt_r pyeq_list pyeq_Z list_pyeq option_map cof args_eqb].
  destruct (Z.eqb a1 b1), (Z.eqb a2 b2), (Z.eqb a3 b3); reflexivity.
Qed.

Lemma Qeq_bool_inj : forall a b : Z, Qeq_bool (inject_Z a) (inject_Z b) = Z.eqb a b.
Proof.
  intros a b. unfold Qeq_bool, inject_Z. cbn [Qnum Qden]. rewrite !Z.mul_1_r.
  pose proof (Zeq_bool_if a b) as H. destruct (Zeq_bool a b); symmetry; [now apply Z.eqb_eq|now apply Z.eqb_neq].
Qed.

Definition Val {A} (m : MP A) (v : A) : Prop := forall s, match fst (m s) with Ret a => a = v | Exc _ => True end.
Lemma Val_ret : forall {A} (v : A), Val (ret v) v. Proof. intros A v s. reflexivity. Qed.
Lemma Val_bind : forall {A B} (m : MP A) (k : A -> MP B) v, (forall a, Val (k a) v) -> Val (bind m k) v.
Proof. intros A B m k v H s. unfold bind. destruct (m s) as [[a|e] s1]; cbn; [apply H|exact I]. Qed.
Lemma Val_if : forall {A} (b : bool) (m1 m2 : MP A) v, Val m1 v -> Val m2 v -> Val (if b then m1 else m2) v.
Proof. intros A [] m1 m2 v H1 H2; assumption. Qed.

Definition same_of (pc : pcfg) (p : pt) (prev : option args) : bool :=
  match prev with Some b => args_eqb (fmt_pt (abs_cfg pc) p) b | None => false end.

Definition h_tail (pc : pcfg) (p : pt) (prev : option args) (st : cstate) : res :=
  (st, if same_of pc p prev then [] else [g1_of (abs_cfg pc) (fmt_pt (abs_cfg pc) p)], Ok).

Definition h_toggle (pc : pcfg) (on : bool) (p : pt) (prev : option args) (st : cstate) : res :=
  let '(st', e) := toggle (abs_cfg pc) st on in
  (st', e ++ (if same_of pc p prev then [] else [g1_of (abs_cfg pc) (fmt_pt (abs_cfg pc) p)]), Ok).

Lemma Sim_tail : forall pc p prev,
  Sim (if pyne (wC pc p) (option_map cof prev)
       then instr_append [PL "G1 "; to_piece (wA pc p); PL nl] ;;; (let prev_coord := Some (wC pc p) in ret prev_coord)
       else (let prev_coord := Some (wC pc p) in ret prev_coord))
      (h_tail pc p prev).
Proof.
  intros pc p prev. rewrite wC_cof, pyne_same. unfold h_tail, same_of.
  destruct (match prev with Some b => args_eqb (fmt_pt (abs_cfg pc) p) b | None => false end); cbn [negb].
  - apply Sim_ret.
  - apply (Sim_ext _ (fun st => seq (st, [g1_of (abs_cfg pc) (fmt_pt (abs_cfg pc) p)], Ok) (fun st => (st, [], Ok)))); [reflexivity|].
    apply Sim_bind; [apply Sim_append; apply tok_g1_w|intros _; apply Sim_ret].
Qed.

Lemma Sim_toggle : forall pc state on p prev, st_of state = Some on -> laser_ok (abs_cfg pc) = true ->
  Sim (src_instruction pc [PL nl] ;;; src_dwell pc (as_opt (cfg_short_pause pc)) ;;; src_shutter pc (Some state) ;;;
       src_dwell pc (as_opt (cfg_long_pause pc)) ;;; src_instruction pc [PL nl] ;;;
       (if pyne (wC pc p) (option_map cof prev)
        then instr_append [PL "G1 "; to_piece (wA pc p); PL nl] ;;; (let prev_coord := Some (wC pc p) in ret prev_coord)
        else (let prev_coord := Some (wC pc p) in ret prev_coord)))
      (h_toggle pc on p prev).
Proof.
  intros pc state on p prev Hs Hl. unfold as_opt, asopt_opt.
  apply (Sim_ext _ (fun st => seq (st, [], Ok) (fun st => seq (h_dwell (short_pause pc) st)
                     (fun st => seq (h_shutter (abs_cfg pc) on st) (fun st => seq (h_dwell (long_pause pc) st)
                        (fun st => seq (st, [], Ok) (h_tail pc p prev))))))).
  { intros st. unfold seq, h_toggle, toggle, h_dwell, h_shutter, h_tail. cbn [short_p long_p abs_cfg].
    destruct (do_dwell st (short_pause pc)) as [st1 e1].
    destruct (do_shutter (abs_cfg pc) st1 on) as [st2 e2].
    destruct (do_dwell st2 (long_pause pc)) as [st3 e3]. cbn. now rewrite <- !app_assoc. }
  apply Sim_bind; [apply Sim_blank|intros _].
  apply Sim_bind; [apply Sim_dwell|intros _].
  apply Sim_bind; [apply Sim_shutter; assumption|intros _].
  apply Sim_bind; [apply Sim_dwell|intros _].
  apply Sim_bind; [apply Sim_blank|intros _]. apply Sim_tail.
Qed.

Definition h_step (pc : pcfg) (p : pt) (prev : option args) (st : cstate) : res :=
  let '(st', e) := write_step (abs_cfg pc) st prev (fmt_pt (abs_cfg pc) p) (ps p) in (st', e, Ok).

Definition wbody (pc : pcfg) : line * list Z * Q -> option (list Z) -> MP (option (list Z)) :=
  fun '(arg, coord, s) prev_coord =>
    st__ <- get ;;
    if (pyeq s (of_int 0) && Bool.eqb (shutter_on st__) true)%bool
    then src_instruction pc [PL nl] ;;; src_dwell pc (as_opt (cfg_short_pause pc)) ;;; src_shutter pc (Some "OFF") ;;;
         src_dwell pc (as_opt (cfg_long_pause pc)) ;;; src_instruction pc [PL nl] ;;;
         (if pyne coord prev_coord then instr_append [PL "G1 "; to_piece arg; PL nl] ;;; (let prev_coord := Some coord in ret prev_coord)
          else (let prev_coord := Some coord in ret prev_coord))
    else st__ <- get ;;
         if (pyeq s (of_int 1) && Bool.eqb (shutter_on st__) false)%bool
         then src_instruction pc [PL nl] ;;; src_dwell pc (as_opt (cfg_short_pause pc)) ;;; src_shutter pc (Some "ON") ;;;
              src_dwell pc (as_opt (cfg_long_pause pc)) ;;; src_instruction pc [PL nl] ;;;
              (if pyne coord prev_coord then instr_append [PL "G1 "; to_piece arg; PL nl] ;;; (let prev_coord := Some coord in ret prev_coord)
               else (let prev_coord := Some coord in ret prev_coord))
         else instr_append [PL "G1 "; to_piece arg; PL nl] ;;; (let prev_coord := Some coord in ret prev_coord).

Lemma Sim_step : forall pc p prev, laser_ok (abs_cfg pc) = true ->
  Sim (wbody pc (wA pc p, wC pc p, wS p) (option_map cof prev)) (h_step pc p prev).
Proof.
  intros pc p prev Hl. unfold wbody.
  apply (Sim_ext _ (fun st => if (fun b => pyeq (wS p) (of_int 0) && Bool.eqb b true)%bool (c_sh st) then h_toggle pc false p prev st
                              else if (fun b => pyeq (wS p) (of_int 1) && Bool.eqb b false)%bool (c_sh st) then h_toggle pc true p prev st
                                   else (st, [g1_of (abs_cfg pc) (fmt_pt (abs_cfg pc) p)], Ok))).
  { intros st. unfold h_step, write_step, h_toggle, same_of, wS, pyeq, pyeq_Q, of_int, ofint_Q. rewrite !Qeq_bool_inj.
    destruct (Z.eqb (ps p) 0), (Z.eqb (ps p) 1), (c_sh st); cbn [andb negb Bool.eqb];
      try reflexivity; destruct (toggle _ _ _); reflexivity. }
  apply (Sim_get_b (fun b => pyeq (wS p) (of_int 0) && Bool.eqb b true)%bool).
  - apply Sim_toggle; [exact st_of_OFF|exact Hl].
  - apply (Sim_get_b (fun b => pyeq (wS p) (of_int 1) && Bool.eqb b false)%bool).
    + apply Sim_toggle; [exact st_of_ON|exact Hl].
    + apply (Sim_ext _ (fun st => seq (st, [g1_of (abs_cfg pc) (fmt_pt (abs_cfg pc) p)], Ok) (fun st => (st, [], Ok)))); [reflexivity|].
      apply Sim_bind; [apply Sim_append; apply tok_g1_w|intros _; apply Sim_ret].
Qed.

Lemma Val_step : forall pc a c s prevc, Val (wbody pc (a, c, s) prevc) (Some c).
Proof.
  intros pc a c s prevc. unfold wbody.
  apply Val_bind. intros st1. apply Val_if.
  - repeat (apply Val_bind; intros). apply Val_if; [apply Val_bind; intros|]; apply Val_ret.
  - apply Val_bind. intros st2. apply Val_if.
    + repeat (apply Val_bind; intros). apply Val_if; [apply Val_bind; intros|]; apply Val_ret.
    + apply Val_bind; intros. apply Val_ret.
Qed.

Lemma Sim_wloop : forall pc pts prev, laser_ok (abs_cfg pc) = true ->
  Sim (for_each (map (fun p => (wA pc p, wC pc p, wS p)) pts) (option_map cof prev) (wbody pc))
      (fun st => let '(st', e) := write_loop (abs_cfg pc) st prev (map (fun p => (fmt_pt (abs_cfg pc) p, ps p)) pts) in (st', e, Ok)).
Proof.
  intros pc pts. induction pts as [|p pts IH]; intros prev Hl.
  - cbn. apply Sim_ret.
  - cbn [map for_each write_loop].
    apply (Sim_ext _ (fun st => seq (h_step pc p prev st)
                       (fun st => let '(st', e) := write_loop (abs_cfg pc) st (Some (fmt_pt (abs_cfg pc) p))
                                                     (map (fun p => (fmt_pt (abs_cfg pc) p, ps p)) pts) in (st', e, Ok)))).
    { intros st. unfold seq, h_step. destruct (write_step _ _ _ _ _) as [st1 e1]. destruct (write_loop _ _ _ _) as [st2 e2]. reflexivity. }
    apply (Sim_bind_val _ _ _ _ (Some (wC pc p))).
    + apply Sim_step. exact Hl.
    + apply Val_step.
    + rewrite wC_cof. apply (IH (Some (fmt_pt (abs_cfg pc) p)) Hl).
Qed.

Lemma Sim_write : forall pc pts, laser_ok (abs_cfg pc) = true ->
  Sim (src_write pc (cols pts)) (fun st => do_write (abs_cfg pc) st pts).
Proof.
  intros pc pts Hl. apply Sim_intro. intros s st HR. unfold src_write, cols, transform_points.
  rewrite zip3_map, !map_map.
  set (l4 := zip4 _ _ _ _).
  assert (E4 : l4 = map (fun p => let '(x, y, z) := tp3 pc p in (x, y, z, pf p)) pts).
  { unfold l4. rewrite zip4_map. apply map_ext. intros p. unfold tp3. destruct (tr32 _ _) as [[x y] z]. reflexivity. }
  rewrite E4. clear l4 E4.
  set (l3 := zip3l _ _ _).
  assert (E3 : map (fun p0 => map (fun v => float_of_fixed (cfg_output_digits pc) v) p0) l3 = map (wC pc) pts).
  { unfold l3, zip3l. rewrite zip3_map, !map_map. apply map_ext. intros p. unfold wC, tp3, float_of_fixed.
    destruct (tr32 _ _) as [[x y] z]. reflexivity. }
  unfold bind at 1. rewrite mapM_format. unfold do_write.
  destruct (existsb (fun p => feed_bad (abs_cfg pc) (pf p)) pts).
  - cbn. split; [exact HR|split; [now rewrite app_nil_r|reflexivity]].
  - cbv zeta. rewrite E3, zip3_map.
    assert (HS : Sim (prev_coord <- for_each (map (fun p => (wA pc p, wC pc p, wS p)) pts) None (wbody pc) ;;
                      src_dwell pc (as_opt (cfg_long_pause pc)) ;;; src_instruction pc [PL nl] ;;; ret tt)
                     (fun st => let '(st1, e1) := write_loop (abs_cfg pc) st None (map (fun p => (fmt_pt (abs_cfg pc) p, ps p)) pts) in
                                let '(st2, e2) := do_dwell st1 (long_p (abs_cfg pc)) in (st2, e1 ++ e2, Ok))).
    { apply (Sim_ext _ (fun st => seq (let '(st', e) := write_loop (abs_cfg pc) st None (map (fun p => (fmt_pt (abs_cfg pc) p, ps p)) pts) in (st', e, Ok))
                         (fun st => seq (h_dwell (long_pause pc) st) (fun st => seq (st, [], Ok) (fun st => (st, [], Ok)))))).
      { intros st0. unfold seq, h_dwell. cbn [long_p abs_cfg]. destruct (write_loop _ _ _ _) as [st1 e1].
        destruct (do_dwell st1 (long_pause pc)) as [st2 e2]. cbn. now rewrite !app_nil_r. }
      apply Sim_bind; [exact (Sim_wloop pc pts None Hl)|intros _].
      apply Sim_bind; [apply Sim_dwell|intros _].
      apply Sim_bind; [apply Sim_blank|intros _; apply Sim_ret]. }
    exact (Sim_elim _ _ HS s st HR).
Qed.

(* ---------------- the op tree at the level of the Python API ---------------- *)
Inductive pop :=
| PWrite (pts : list pt)                       (* G.write(m) with the matrix whose rows are cols pts *)
| PMoveTo (x y z : option Q) (speed : option Q)
| PGoOrigin | PGoInit
| PDwell (p : option Q)
| PComment (s : string)
| PSetHome (x y z : option Q)
| PDvar (vs : list string)
| PLoad (f : ppath) (task : option Z)
| PRemove (f : ppath) (task : Z)
| PFarcall (f : ppath)
| PBuffered (f : ppath) (task : Z)
| PTic | PToc
| PRaise
| PShutter (state : string)
| PInstr (i : instr)
| PLine (l : line) (i : instr)                 (* G.instruction(<text l>): a raw line that reads as the instruction i *)
| PRepeat (n : option Z) (body : list pop)
| PFor (var : option string) (n : option Z) (body : list pop)
| PAxisRot (angle : option Q) (body : list pop).

Section PopInd.
  Variable P : pop -> Prop.
  Hypothesis Hleaf : forall o, match o with PRepeat _ _ | PFor _ _ _ | PAxisRot _ _ => True | _ => P o end.
  Hypothesis HR : forall n b, Forall P b -> P (PRepeat n b).
  Hypothesis HF : forall v n b, Forall P b -> P (PFor v n b).
  Hypothesis HA : forall a b, Forall P b -> P (PAxisRot a b).
  Fixpoint pop_ind2 (o : pop) : P o :=
    match o with
    | PRepeat n b =>
        HR n b ((fix go (l : list pop) : Forall P l :=
                   match l with [] => Forall_nil P | x :: r => Forall_cons x (pop_ind2 x) (go r) end) b)
    | PFor v n b =>
        HF v n b ((fix go (l : list pop) : Forall P l :=
                     match l with [] => Forall_nil P | x :: r => Forall_cons x (pop_ind2 x) (go r) end) b)
    | PAxisRot a b =>
        HA a b ((fix go (l : list pop) : Forall P l :=
                   match l with [] => Forall_nil P | x :: r => Forall_cons x (pop_ind2 x) (go r) end) b)
    | o' => Hleaf o'
    end.
End PopInd.

Definition on_of (state : string) : bool := match st_of state with Some b => b | None => false end.

Fixpoint abs_op (o : pop) : op :=
  match o with
  | PWrite pts => OWrite pts
  | PMoveTo x y z sp => OMoveTo x y z sp
  | PGoOrigin => OGoOrigin | PGoInit => OGoInit
  | PDwell p => ODwell p
  | PComment _ => OComment
  | PSetHome x y z => OSetHome x y z
  | PDvar vs => ODvar (map ivar vs)
  | PLoad f t => OLoad (abs_path f) (task_of t)
  | PRemove f t => ORemove (abs_path f) t
  | PFarcall f => OFarcall (abs_path f)
  | PBuffered f t => OBuffered (abs_path f) t
  | PTic => OTic | PToc => OToc
  | PRaise => ORaise
  | PShutter s => OShutter (on_of s)
  | PInstr i => OInstr i
  | PLine _ i => OInstr i
  | PRepeat n b => ORepeat n ((fix al (l : list pop) : list op := match l with [] => [] | x :: r => abs_op x :: al r end) b)
  | PFor v n b => OFor (option_map ivar v) n ((fix al (l : list pop) : list op := match l with [] => [] | x :: r => abs_op x :: al r end) b)
  | PAxisRot a b => OAxisRot (negb (is_none a)) ((fix al (l : list pop) : list op := match l with [] => [] | x :: r => abs_op x :: al r end) b)
  end.

Fixpoint wf_pop (o : pop) : Prop :=
  match o with
  | PLoad f _ | PRemove f _ | PFarcall f | PBuffered f _ => wfp f
  | PShutter s => st_of s <> None
  | PLine l i => tok_of_line (if py_endswith l nl then l else l ++ [PL nl]) = [instr_tok i]
  | PRepeat _ b | PFor _ _ b | PAxisRot _ b =>
      (fix all (l : list pop) : Prop := match l with [] => True | x :: r => wf_pop x /\ all r end) b
  | _ => True
  end.

Section SrcExec.
Context (pc : pcfg).
Fixpoint src_exec (o : pop) : MP unit :=
  match o with
  | PWrite pts => src_write pc (cols pts)
  | PMoveTo x y z sp => src_move_to pc [x; y; z] sp
  | PGoOrigin => src_go_origin pc
  | PGoInit => src_go_init pc
  | PDwell p => src_dwell pc p
  | PComment s => src_comment pc s
  | PSetHome x y z => src_set_home pc [x; y; z]
  | PDvar vs => src_dvar pc vs
  | PLoad f t => src_load_program pc f t
  | PRemove f t => src_remove_program pc f t
  | PFarcall f => src_farcall pc f
  | PBuffered f t => src_bufferedcall pc f t
  | PTic => src_tic pc
  | PToc => src_toc pc
  | PRaise => raise EUser
  | PShutter s => src_shutter pc (Some s)
  | PInstr i => src_instruction pc [PRaw (instr_tok i)]
  | PLine l _ => src_instruction pc l
  | PRepeat n b => src_repeat pc n ((fix el (l : list pop) : MP unit := match l with [] => ret tt | x :: r => src_exec x ;;; el r end) b)
  | PFor v n b => src_for_loop pc v n ((fix el (l : list pop) : MP unit := match l with [] => ret tt | x :: r => src_exec x ;;; el r end) b)
  | PAxisRot a b => src_axis_rotation pc a ((fix el (l : list pop) : MP unit := match l with [] => ret tt | x :: r => src_exec x ;;; el r end) b)
  end.
Fixpoint src_exec_list (l : list pop) : MP unit :=
  match l with [] => ret tt | x :: r => src_exec x ;;; src_exec_list r end.
End SrcExec.

Lemma wf_pop_list : forall b,
  (fix all (l : list pop) : Prop := match l with [] => True | x :: r => wf_pop x /\ all r end) b -> Forall wf_pop b.
Proof. induction b as [|x b IH]; intros H; constructor; [apply H|apply IH, H]. Qed.

Lemma abs_fix : forall b,
  (fix al (l : list pop) : list op := match l with [] => [] | x :: r => abs_op x :: al r end) b = map abs_op b.
Proof. induction b as [|x b IH]; cbn; [reflexivity|]. now rewrite IH. Qed.

Lemma src_fix : forall pc b,
  (fix el (l : list pop) : MP unit := match l with [] => ret tt | x :: r => src_exec pc x ;;; el r end) b = src_exec_list pc b.
Proof. induction b as [|x b IH]; cbn; [reflexivity|]. now rewrite IH. Qed.

Lemma Sim_exec_list : forall pc b,
  Forall (fun o => wf_pop o -> Sim (src_exec pc o) (exec (abs_cfg pc) (abs_op o))) b -> Forall wf_pop b ->
  Sim (src_exec_list pc b) (exec_list (abs_cfg pc) (map abs_op b)).
Proof.
  intros pc b H. induction H as [|x b Hx _ IH]; intros Hw.
  - cbn. apply Sim_ret.
  - inversion Hw as [|? ? Hwx Hwb]; subst. cbn [src_exec_list map exec_list].
    apply Sim_bind; [apply Hx, Hwx|intros _; apply IH, Hwb].
Qed.

Theorem Sim_exec : forall pc, laser_ok (abs_cfg pc) = true ->
  forall o, wf_pop o -> Sim (src_exec pc o) (exec (abs_cfg pc) (abs_op o)).
Proof.
  intros pc Hl. apply (pop_ind2 (fun o => wf_pop o -> Sim (src_exec pc o) (exec (abs_cfg pc) (abs_op o)))).
  - intros o. destruct o; try exact I; intros Hw; cbn [src_exec abs_op exec].
    + apply Sim_write. exact Hl.
    + apply Sim_move_to. exact Hl.
    + (* go_origin *)
      unfold src_go_origin.
      apply (Sim_ext _ (fun st => seq (st, [], Ok) (fun st => seq (do_move_to (abs_cfg pc) st (Some 0) (Some 0) (Some 0) None) (fun st => (st, [], Ok))))).
      { intros st. unfold seq. destruct (do_move_to _ _ _ _ _ _) as [[st1 e1] [|k]]; cbn; now rewrite ?app_nil_r. }
      apply Sim_bind; [apply Sim_comment|intros _].
      apply Sim_bind; [apply (Sim_move_to pc (Some 0) (Some 0) (Some 0) None Hl)|intros _; apply Sim_ret].
    + unfold src_go_init.
      apply (Sim_ext _ (fun st => seq (do_move_to (abs_cfg pc) st (Some (-2 # 1)) (Some 0) (Some 0) None) (fun st => (st, [], Ok)))).
      { intros st. unfold seq. destruct (do_move_to _ _ _ _ _ _) as [[st1 e1] [|k]]; cbn; now rewrite ?app_nil_r. }
      apply Sim_bind; [apply (Sim_move_to pc (Some (-2 # 1)) (Some 0) (Some 0) None Hl)|intros _; apply Sim_ret].
    + apply (Sim_ext _ (h_dwell p)); [|apply Sim_dwell]. intros st. unfold h_dwell. destruct (do_dwell st p). reflexivity.
    + apply Sim_comment.
    + apply Sim_set_home.
    + apply Sim_dvar.
    + apply Sim_load. exact Hw.
    + apply Sim_remove. exact Hw.
    + apply Sim_farcall. exact Hw.
    + apply Sim_buffered. exact Hw.
    + apply Sim_tic.
    + apply Sim_toc.
    + apply Sim_raise. reflexivity.
    + cbn [wf_pop] in Hw. unfold on_of. destruct (st_of state) as [on|] eqn:Es; [|now elim Hw].
      apply (Sim_ext _ (h_shutter (abs_cfg pc) on)); [|apply Sim_shutter; assumption].
      intros st. unfold h_shutter. destruct (do_shutter _ _ _). reflexivity.
    + apply Sim_raw.
    + cbn [wf_pop] in Hw. unfold src_instruction.
      apply (Sim_ext _ (fun st => seq (st, [SI (instr_tok i)], Ok) (fun st => (st, [], Ok)))); [reflexivity|].
      destruct (py_endswith l nl); (apply Sim_bind; [apply Sim_append; exact Hw|intros _; apply Sim_ret]).
  - intros n b Hb Hw. cbn [src_exec abs_op wf_pop] in *. rewrite abs_fix, src_fix.
    apply (Sim_ext _ _ _ (fun st => eq_sym (exec_repeat (abs_cfg pc) n (map abs_op b) st))).
    apply Sim_repeat. apply Sim_exec_list; [exact Hb|apply wf_pop_list, Hw].
  - intros v n b Hb Hw. cbn [src_exec abs_op wf_pop] in *. rewrite abs_fix, src_fix.
    apply (Sim_ext _ _ _ (fun st => eq_sym (exec_for (abs_cfg pc) (option_map ivar v) n (map abs_op b) st))).
    apply Sim_for. apply Sim_exec_list; [exact Hb|apply wf_pop_list, Hw].
  - intros a b Hb Hw. cbn [src_exec abs_op wf_pop] in *. rewrite abs_fix, src_fix.
    apply (Sim_ext _ _ _ (fun st => eq_sym (exec_axisrot (abs_cfg pc) (negb (is_none a)) (map abs_op b) st))).
    apply Sim_axis_rotation. apply Sim_exec_list; [exact Hb|apply wf_pop_list, Hw].
Qed.

Corollary Sim_exec_all : forall pc ops, laser_ok (abs_cfg pc) = true -> Forall wf_pop ops ->
  Sim (src_exec_list pc ops) (exec_list (abs_cfg pc) (map abs_op ops)).
Proof.
  intros pc ops Hl Hw. apply Sim_exec_list; [|exact Hw].
  apply Forall_forall. intros o _. apply Sim_exec. exact Hl.
Qed.

(* ---------------- the session:  with PGMCompiler(...) as G: <ops>  ---------------- *)
(* __enter__ starts the dwell total of the new program from zero *)
Definition h_enter (c : cfg) (st : cstate) : res :=
  let '(st1, e1) := do_dwell (st_dwell st 0) (Some 1) in
  let '(st2, e2) := if aero c then enter_rot c st1 false else (st1, []) in
  (st2, header_toks c ++ e1 ++ e2, Ok).

Definition h_exit (c : cfg) (st : cstate) : res :=
  let '(st4, e4) := if aero c then exit_rot c st else (st, []) in
  let '(st5, e5, o5) := if Ops.home c then do_move_to c st4 (Some (-2 # 1)) (Some 0) (Some 0) None else (st4, [], Ok) in
  (st5, e4 ++ e5, o5).

Lemma enter_rot_aero : forall c st, aero c = true -> enter_rot c st false = enter_rot c st true.
Proof. intros c st H. unfold enter_rot. rewrite H. reflexivity. Qed.

Lemma tok_header : forall pc, tok_of_line [PHeader (lower (laser pc))] = flatten (header_toks (abs_cfg pc)).
Proof. reflexivity. Qed.

Lemma Sim_reset_dwell : Sim (modify (set_total_dwell_time (0 # 1)%Q)) (fun st => (st_dwell st 0, [], Ok)).
Proof.
  intros s st HR; cbn. split; [destruct HR; constructor; try assumption; reflexivity|].
  split; [now rewrite app_nil_r|exact I].
Qed.

(* what __enter__ does after it has decided about the dwell total (as generated; PgmSrc.v) *)
Definition enter_rest (c : pcfg) : MP unit :=
  (src_header c) ;;; (src_dwell c (Some ((1) # 1)%Q)) ;;; (src_instruction c [PL nl]) ;;;
  if (truthy (cfg_aerotech_angle c)) then (src__enter_axis_rotation c (as_opt (cfg_aerotech_angle c))) ;;; ret tt else ret tt.

(* __enter__ restarts the dwell total iff no instruction is pending (instructions given before the `with` belong to this program) *)
Lemma enter_unfold : forall pc p,
  src___enter__ pc p = if negb (truthy (instructions p)) then (modify (set_total_dwell_time (0 # 1)%Q) ;;; enter_rest pc) p else enter_rest pc p.
Proof. intros pc p. unfold src___enter__, enter_rest, bind at 1, get. destruct (negb (truthy (instructions p))); reflexivity. Qed.

Lemma Sim_enter_reset : forall pc, laser_ok (abs_cfg pc) = true ->
  Sim (modify (set_total_dwell_time (0 # 1)%Q) ;;; enter_rest pc) (h_enter (abs_cfg pc)).
Proof.
  intros pc Hl. unfold enter_rest, src_header. cbn [laser_ok abs_cfg] in Hl. fold lasers. rewrite Hl.
  change (is_none (cfg_laser pc) || negb true)%bool with false. cbv iota.
  unfold as_opt, asopt_val.
  apply (Sim_ext _ (fun st => seq (st_dwell st 0, [], Ok) (fun st =>
                     seq (seq (st, header_toks (abs_cfg pc), Ok) (fun st => seq (st, [], Ok) (fun st => (st, [], Ok))))
                     (fun st => seq (h_dwell (Some 1) st) (fun st => seq (st, [], Ok)
                        (fun st => if truthy (cfg_aerotech_angle pc)
                                   then seq (h_enter_rot pc true st) (fun st => (st, [], Ok)) else (st, [], Ok))))))).
  { intros st. unfold seq, h_enter, h_dwell, h_enter_rot. cbn [aero abs_cfg].
    destruct (do_dwell (st_dwell st 0) (Some 1)) as [st1 e1].
    destruct (truthy (cfg_aerotech_angle pc)) eqn:Ea.
    - rewrite (enter_rot_aero (abs_cfg pc) st1 Ea). destruct (enter_rot (abs_cfg pc) st1 true) as [st2 e2]. cbn. now rewrite !app_nil_r.
    - cbn. now rewrite !app_nil_r. }
  apply Sim_bind; [apply Sim_reset_dwell|intros _].
  apply Sim_bind; [|intros _].
  { apply Sim_bind; [apply Sim_append; apply tok_header|intros _].
    apply Sim_bind; [apply Sim_blank|intros _; apply Sim_ret]. }
  apply Sim_bind; [apply Sim_dwell|intros _].
  apply Sim_bind; [apply Sim_blank|intros _].
  destruct (truthy (cfg_aerotech_angle pc)); [|apply Sim_ret].
  apply Sim_bind; [apply (Sim_enter_rot pc (Some (cfg_aerotech_angle pc)))|intros _; apply Sim_ret].
Qed.

(* entered with nothing pending (a new object, or one whose last file has been closed): the model's __enter__ *)
Lemma Sim_enter_fresh : forall pc p st, laser_ok (abs_cfg pc) = true -> instructions p = [] -> Rel p st ->
  SimR (src___enter__ pc p) (h_enter (abs_cfg pc) st) p.
Proof.
  intros pc p st Hl Hi HR. rewrite enter_unfold, Hi. cbn [truthy truthy_list negb].
  exact (Sim_elim _ _ (Sim_enter_reset pc Hl) p st HR).
Qed.

Lemma Sim_exit : forall pc, laser_ok (abs_cfg pc) = true -> Sim (src___exit__ pc) (h_exit (abs_cfg pc)).
Proof.
  intros pc Hl. unfold src___exit__.
  assert (HH : Sim (if truthy (cfg_home pc) then src_go_init pc ;;; close_file ;;; ret tt else close_file ;;; ret tt)
                   (fun st => if Ops.home (abs_cfg pc) then do_move_to (abs_cfg pc) st (Some (-2 # 1)) (Some 0) (Some 0) None else (st, [], Ok))).
  { cbn [Ops.home abs_cfg]. unfold truthy, truthy_bool. destruct (cfg_home pc).
    - unfold src_go_init.
      apply (Sim_ext _ (fun st => seq (seq (do_move_to (abs_cfg pc) st (Some (-2 # 1)) (Some 0) (Some 0) None) (fun st => (st, [], Ok)))
                                      (fun st => seq (st, [], Ok) (fun st => (st, [], Ok))))).
      { intros st. unfold seq. destruct (do_move_to _ _ _ _ _ _) as [[st1 e1] [|k]]; cbn; now rewrite ?app_nil_r. }
      apply Sim_bind; [|intros _; apply Sim_bind; [apply Sim_ret|intros _; apply Sim_ret]].
      apply Sim_bind; [apply (Sim_move_to pc (Some (-2 # 1)) (Some 0) (Some 0) None Hl)|intros _; apply Sim_ret].
    - apply (Sim_ext _ (fun st => seq (st, [], Ok) (fun st => (st, [], Ok)))); [reflexivity|].
      apply Sim_bind; [apply Sim_ret|intros _; apply Sim_ret]. }
  unfold h_exit. cbn [aero abs_cfg]. destruct (truthy (cfg_aerotech_angle pc)).
  - apply (Sim_ext _ (fun st => seq (let '(st1, e1) := exit_rot (abs_cfg pc) st in (st1, e1, Ok))
                       (fun st => seq (st, [], Ok)
                          (fun st => if Ops.home (abs_cfg pc) then do_move_to (abs_cfg pc) st (Some (-2 # 1)) (Some 0) (Some 0) None else (st, [], Ok))))).
    { intros st. unfold seq. destruct (exit_rot (abs_cfg pc) st) as [st4 e4].
      destruct (if Ops.home (abs_cfg pc) then _ else _) as [[st5 e5] o5]. reflexivity. }
    apply Sim_bind; [apply Sim_exit_rot|intros _].
    apply Sim_bind; [apply Sim_append; reflexivity|intros _]. exact HH.
  - apply (Sim_ext _ (fun st => if Ops.home (abs_cfg pc) then do_move_to (abs_cfg pc) st (Some (-2 # 1)) (Some 0) (Some 0) None else (st, [], Ok)));
      [|exact HH].
    intros st. destruct (if Ops.home (abs_cfg pc) then _ else _) as [[st5 e5] o5]. reflexivity.
Qed.

Definition src_session (pc : pcfg) (ops : list pop) : session_result :=
  match src___enter__ pc p0 with
  | (Exc e, _) => NotWritten (code e)
  | (Ret _, s1) =>
      let '(r2, s2) := src_exec_list pc ops s1 in
      match src___exit__ pc s2 with
      | (Exc e, _) => NotWritten (code e)
      | (Ret _, s3) =>
          Written (toks (instr_front s3 ++ instr_back s3)) (total_dwell_time s3)
                  (match r2 with Ret _ => Ok | Exc e => Raised (code e) end)
      end
  end.

Lemma Rel0 : Rel p0 c0.
Proof. constructor; reflexivity || constructor. Qed.

Theorem session_equiv : forall pc ops, Forall wf_pop ops ->
  src_session pc ops = session (abs_cfg pc) (map abs_op ops).
Proof.
  intros pc ops Hw. unfold src_session, session.
  destruct (laser_ok (abs_cfg pc)) eqn:Hl; cbn [negb].
  2:{ rewrite enter_unfold. cbn [instructions p0 instr_front instr_back app truthy truthy_list negb]. unfold enter_rest, src_header. cbn [laser_ok abs_cfg] in Hl. fold lasers. rewrite Hl. reflexivity. }
  pose proof (Sim_enter_fresh pc p0 c0 Hl eq_refl Rel0) as H1. unfold SimR, h_enter in H1.
  change (st_dwell c0 0) with c0 in H1.
  destruct (do_dwell c0 (Some 1)) as [st1 e1].
  destruct (if aero (abs_cfg pc) then enter_rot (abs_cfg pc) st1 false else (st1, [])) as [st2 e2].
  destruct H1 as (R1 & T1 & O1).
  destruct (src___enter__ pc p0) as [[[]|e] s1]; cbn [fst snd] in *; [|contradiction].
  pose proof (Sim_elim _ _ (Sim_exec_all pc ops Hl Hw) s1 st2 R1) as H2. unfold SimR in H2.
  destruct (exec_list (abs_cfg pc) (map abs_op ops) st2) as [[st3 e3] o3]. destruct H2 as (R2 & T2 & O2).
  destruct (src_exec_list pc ops s1) as [r2 s2]; cbn [fst snd] in *.
  pose proof (Sim_elim _ _ (Sim_exit pc Hl) s2 st3 R2) as H3. unfold SimR, h_exit in H3.
  destruct (if aero (abs_cfg pc) then exit_rot (abs_cfg pc) st3 else (st3, [])) as [st4 e4].
  destruct (if Ops.home (abs_cfg pc) then do_move_to (abs_cfg pc) st4 (Some (-2 # 1)) (Some 0) (Some 0) None else (st4, [], Ok)) as [[st5 e5] o5].
  destruct H3 as (R3 & T3 & O3).
  destruct (src___exit__ pc s2) as [[[]|e] s3]; cbn [fst snd] in *; destruct o5; try contradiction.
  - f_equal.
    + rewrite toks_app, T3, T2, T1, (r_pre _ _ R3). cbn [instr_back p0 LineTok.toks flat_map app].
      rewrite !flatten_app, <- !app_assoc. reflexivity.
    + symmetry. apply (r_dwell _ _ R3).
    + destruct r2, o3; cbn in O2; try contradiction; [reflexivity|now subst].
  - cbn in O3. now rewrite O3.
Qed.

(* every compiler state has a model state it is related to, provided its dwell total is canonical and its declared
   names are lower-case - which every state reached from p0 through the translated methods is (Rel is preserved) *)
Definition abs_st (s : pst) : cstate :=
  {| c_dwell := total_dwell_time s; c_sh := shutter_on s; c_loaded := map name_of_stem (loaded_files s);
     c_dvars := map ivar (dvars s); c_pre := toks (instr_front s) |}.
Definition inv (s : pst) : Prop := Qred (total_dwell_time s) = total_dwell_time s /\ Forall (fun d => lower d = d) (dvars s).
Lemma Rel_abs : forall s, inv s -> Rel s (abs_st s).
Proof. intros s [H1 H2]. constructor; try reflexivity; assumption. Qed.
Lemma Rel_inv : forall s st, Rel s st -> inv s.
Proof. intros s st H. split; [exact (r_canon _ _ H)|exact (r_low _ _ H)]. Qed.
(* ---- sequencing lemmas of the model, used by the writer ties ---- *)
Lemma seq_ret_r : forall r, seq r (fun st => (st, [], Ok)) = r.
Proof. intros [[st e] [|k]]; cbn; [now rewrite app_nil_r|reflexivity]. Qed.

Lemma exec_list_app : forall c a b st, exec_list c (a ++ b) st = seq (exec_list c a st) (exec_list c b).
Proof.
  intros c a. induction a as [|o a IH]; intros b st; cbn [app exec_list].
  - unfold seq. cbn [exec_list]. destruct (exec_list c b st) as [[st2 e2] o2]. reflexivity.
  - destruct (exec c o st) as [[st1 e1] [|k]]; [|reflexivity].
    unfold seq. rewrite IH. unfold seq. destruct (exec_list c a st1) as [[st2 e2] [|k2]]; [|reflexivity].
    destruct (exec_list c b st2) as [[st3 e3] o3]. now rewrite app_assoc.
Qed.

End Equiv.
