(* Spreadsheet._get_structure_list as translated from /repo's spreadsheet.py (SrcSs.v) is structure_list of Sheet/Table.v:
   the waveguides first, stably sorted by their first open-shutter y, then the markers in the order given - for a list handed
   in, and for the device's own writers (whose collections hold waveguides resp. markers only: C16). *)
From Coq Require Import List Bool QArith.
Import ListNotations.
From Femto Require Import Sheet.Table.
From FemtoTie Require Import PyPrelude SsState SrcSs.

Theorem SRC_C18_structure_list_given : forall c l s,
  src_get_structure_list c (Some l) s = (Ret (structure_list l), s).
Proof. intros c l s. reflexivity. Qed.
Print Assumptions SRC_C18_structure_list_given.

Lemma filter_all : forall {A} (f : A -> bool) l, forallb f l = true -> filter f l = l.
Proof. intros A f l. induction l as [|a r IH]; cbn; [reflexivity|]. destruct (f a); [|discriminate]. intros H. now rewrite IH. Qed.
Lemma filter_none : forall {A} (f : A -> bool) l, forallb (fun a => negb (f a)) l = true -> filter f l = [].
Proof. intros A f l. induction l as [|a r IH]; cbn; [reflexivity|]. destruct (f a); [discriminate|]. exact IH. Qed.

Theorem SRC_C18_structure_list_device : forall c s,
  let wgs := flat_objs (wr_wg (ss_device c)) in let mks := flat_objs (wr_mk (ss_device c)) in
  forallb s_wg wgs = true -> forallb (fun m => negb (s_wg m)) mks = true ->
  src_get_structure_list c None s = (Ret (structure_list (wgs ++ mks)), s).
Proof.
  intros c s wgs mks Hw Hm. unfold src_get_structure_list, structure_list, sort_by_first_y. cbv zeta. fold wgs mks.
  rewrite !filter_app. rewrite (filter_all _ wgs Hw), (filter_none _ mks Hm), app_nil_r.
  rewrite (filter_none (fun s => negb (s_wg s)) wgs), (filter_all (fun s => negb (s_wg s)) mks Hm); [reflexivity|].
  clear -Hw. induction wgs as [|a r IH]; cbn in *; [reflexivity|]. destruct (s_wg a); [|discriminate]. cbn. exact (IH Hw).
Qed.
Print Assumptions SRC_C18_structure_list_device.

(* the property on the translated source: the list it returns is a permutation of the structures given (every one exactly
   once), waveguides first in increasing first-y order, then the markers in the order given *)
From Coq Require Import Permutation.
From Femto Require Import Sheet.TableProofs Props.C18.
Theorem SRC_C18_rows : forall c l s,
  exists out, src_get_structure_list c (Some l) s = (Ret out, s)
    /\ Permutation l out /\ List.length out = List.length l
    /\ exists w m, out = w ++ m /\ forallb s_wg w = true /\ forallb (fun x => negb (s_wg x)) m = true
                   /\ sorted w /\ m = filter (fun x => negb (s_wg x)) l.
Proof.
  intros c l s. exists (structure_list l). split; [apply SRC_C18_structure_list_given|]. apply C18_rows.
Qed.
Print Assumptions SRC_C18_rows.
