(* What the translated methods of femto.marker.Marker (SrcMk.v, generated) are written over: the recorded trajectory as the
   state of the monad, the LaserPath primitives start / linear / end given by hand as the block-producing functions of
   Path/Laser.v (with the argument validation laserpath.py performs before it stores anything, for warp_flag = False), the
   numpy calls of marker.py (np.unique, np.repeat, np.add, np.sign, np.abs, math.floor) on exact rationals, and the
   itertools.cycle([1, -1]) behind helpers.sign() as one more field of the state.  Trusted (DESIGN.md section 6). *)
From Coq Require Import List Bool ZArith QArith Qabs Qround String.
Import ListNotations.
From Femto Require Import Path.Laser Path.Marker.
From FemtoTie Require Import PyPrelude.

Record mk_cfg := { mk_depth : Q; mk_lx : Q; mk_ly : Q; mk_x_init : Q; mk_speed : Q; mk_speed_pos : Q; mk_speed_closed : Q }.
Record mk_st := { mk_path : list lpt; mk_sign : Q }.
Definition MM : Type -> Type := @M mk_st.
Definition mk_s0 : mk_st := {| mk_path := []; mk_sign := 1 |}.
Definition set_path (p : list lpt) (s : mk_st) : mk_st := {| mk_path := p; mk_sign := mk_sign s |}.

Definition mcfg_of (c : mk_cfg) : mcfg :=
  {| m_speed := mk_speed c; m_speed_pos := mk_speed_pos c; m_speed_closed := mk_speed_closed c; m_depth := mk_depth c |}.

(* start(init_pos): refuses a path that has points already, and a position that does not have three entries *)
Definition lp_start (c : mk_cfg) (pos : list Q) : MM unit :=
  fun s => match mk_path s with
           | _ :: _ => (Exc EValue, s)
           | [] => match pos with
                   | [x; y; z] => (Ret tt, set_path (start_blk (x, y, z) (mk_speed_pos c)) s)
                   | _ => (Exc EValue, s)
                   end
           end.

Definition mode_abs (m : string) : option bool :=
  if String.eqb (lower m) "abs" then Some true else if String.eqb (lower m) "inc" then Some false else None.

(* the last / first recorded point (the paths they are applied to are not empty) *)
Definition dpt : lpt := mk (0, 0, 0) 0 false.
Definition plast (p : list lpt) : lpt := last p dpt.
Definition pfirst (p : list lpt) : lpt := hd dpt p.

(* linear(increment, mode, shutter, speed): checks mode, the number of entries and the speed, reads the last point
   (IndexError on an empty path), appends one point.  In INC mode a missing or zero entry adds nothing (`k or 0`). *)
Definition lp_linear (c : mk_cfg) (inc : list (option Q)) (mode : string) (shutter : Z) (speed : option Q) : MM unit :=
  fun s => match mode_abs mode with
           | None => (Exc EValue, s)
           | Some ab =>
               match inc with
               | [dx; dy; dz] =>
                   match mk_path s with
                   | [] => (Exc EIndex, s)
                   | _ :: _ =>
                       let f := match speed with Some v => v | None => mk_speed c end in
                       (Ret tt, set_path (mk_path s ++ [lin (plast (mk_path s)) (dx, dy, dz) ab (negb (Z.eqb shutter 0)) f]) s)
                   end
               | _ => (Exc EValue, s)
               end
           end.

(* end(): closed at the last point, then back to the first point with speed_closed *)
Definition lp_end (c : mk_cfg) : MM unit :=
  fun s => match mk_path s with
           | [] => (Exc EIndex, s)
           | _ :: _ => (Ret tt, set_path (mk_path s ++ end_blk (pfirst (mk_path s)) (plast (mk_path s)) (mk_speed_closed c)) s)
           end.

(* s = sign() ; next(s) *)
Definition sign_new : MM unit := modify (fun s => {| mk_path := mk_path s; mk_sign := 1 |}).
Definition sign_next : MM Q := fun s => (Ret (mk_sign s), {| mk_path := mk_path s; mk_sign := - mk_sign s |}).

(* a position handed to linear(): every entry given *)
Class AsOptList (A : Type) := as_optlist : A -> list (option Q).
Global Instance aol_opt : AsOptList (list (option Q)) := fun l => l.
Global Instance aol_val : AsOptList (list Q) := map Some.

(* numpy on exact rationals *)
Definition np_unique (l : list Q) : list Q := sort_uniq l.
Definition np_repeat (v : Q) (n : Z) : list Q := repeat v (Z.to_nat n).
Definition set_first (v : Q) (l : list Q) : MM (list Q) := match l with [] => raise EIndex | _ :: r => ret (v :: r) end.
Definition vec_add (a b : list Q) : list Q := map (fun p => fst p + snd p) (combine a b).
Definition np_add_rows (pts : list (list Q)) (v : list Q) : list (list Q) := map (fun p => vec_add p v) pts.
Definition np_sign (q : Q) : Q := qsign q.
Definition math_floor (q : Q) : Z := Qfloor q.
Global Instance add_vecs : PyAdd (list Q) (list Q) (list Q) := vec_add.      (* array + array *)
Global Instance mul_QZ : PyMul Q Z Q := fun q z => q * inject_Z z.
Global Instance add_ZQ_mk : PyAdd Z Q Q | 10 := fun z q => (inject_Z z + q)%Q.
Global Instance none_listQ : NoneTest (list Q) := fun _ => false.
