(* The file a waveguide / Nasu / marker writer compiles, for the translated prelude of WaveguideWriter.pgm / NasuWriter.pgm / MarkerWriter.pgm
   (SrcWn.v, generated; names only - the program written inside the `with` block is SrcWr.v): a log of the compilers opened, each with the
   file name it was given.  pathlib.Path(..).stem as Persist/Paths.stem. *)
From Coq Require Import List Bool String.
Import ListNotations.
From Femto Require Import Persist.Paths.
From FemtoTie Require Import PyPrelude.

Inductive wact := WBegin (filename : string) | WEnd | WFab.     (* WFab: self._fabtime = <the local estimate of this export> *)
Record wn_cfg := { wn_filename : string; wn_has_objects : bool }.     (* self.filename; whether self.obj_list holds anything *)
Definition MW : Type -> Type := @M (list wact).
Definition wemit (a : wact) : MW unit := fun s => (Ret tt, (s ++ [a])%list).
Definition path_stem (s : string) : string := stem s.                  (* pathlib.Path(s).stem *)
Global Instance add_str : PyAdd string string string := String.append.
