(* What the translated PGMCompiler.transform_points / flip / t_matrix / compensate (SrcTp.v, generated) are written over: vectors and
   matrices of exact rationals with numpy's matmul / stack / transpose, the float32 conversion [ri] of np.asarray(.., dtype=float32) and the
   rounding [ro] of float32 arithmetic given as parameters (what they are for arrays and for scalars: Geo/Rigid.v; validated bit for bit by
   the correspondence), cos / sin of the rotation angle and the surface interpolant as oracle values.  Trusted (DESIGN.md section 6). *)
From Coq Require Import List Bool ZArith QArith.
Import ListNotations.
From FemtoTie Require Import PyPrelude.

Record tp_cfg := { tp_shift_x : Q; tp_shift_y : Q; tp_flip_x : bool; tp_flip_y : bool; tp_cos : Q; tp_sin : Q; tp_neff : Q; tp_warp_flag : bool }.
Definition MT : Type -> Type := @M unit.

Definition vec := list Q.
Definition mat := list (list Q).

Fixpoint dot (a b : vec) : Q := match a, b with x :: a', y :: b' => x * y + dot a' b' | _, _ => 0 end.
(* the columns of a matrix with k columns *)
Definition mheads (m : mat) : vec := flat_map (fun r => match r with [] => [] | x :: _ => [x] end) m.
Fixpoint mcols (k : nat) (m : mat) : mat := match k with O => [] | S k' => mheads m :: mcols k' (map (@tl Q) m) end.
Definition ncols (m : mat) : nat := match m with [] => O | r :: _ => length r end.
(* a.T , np.matmul(a, b) = a @ b *)
Definition mT (m : mat) : mat := mcols (ncols m) m.
Definition matmul (a b : mat) : mat := map (fun r => map (dot r) (mT b)) a.
(* np.stack((x, y, z), axis=-1) : one row per point *)
Definition stack_last (vs : list vec) : mat := mcols (ncols vs) vs.

Section Float.
Context (ri ro : Q -> Q) (srf : Q -> Q -> Q).
(* np.asarray(x, dtype=np.float32) *)
Definition as_f32 (x : vec) : vec := map ri x.
(* x - s  with x a float32 array and s a python float: float32 arithmetic *)
Definition sub_f32 (x : vec) (s : Q) : vec := map (fun v => ro (v - ro s)) x.
(* np.array(self.fwarp(np.column_stack([x, y])), dtype=np.float32).reshape(z.shape) *)
Fixpoint surface (x y : vec) : vec := match x, y with a :: x', b :: y' => ro (srf a b) :: surface x' y' | _, _ => [] end.
(* z += w  on float32 arrays *)
Fixpoint add_f32 (z w : vec) : vec := match z, w with a :: z', b :: w' => ro (a + b) :: add_f32 z' w' | _, _ => [] end.
End Float.

Global Instance toint_bool : ToInt bool := fun b => if b then 1%Z else 0%Z.
Global Instance tofloat_Z_tp : ToFloat Z := inject_Z.
Global Instance div_ZQ : PyDiv Z Q Q := fun z q => (inject_Z z / q)%Q.
