(* LaserPath.export and helpers.load_parameters as translated from /repo (SrcPa.v) against Persist/Paths.v: the file opened
   for writing is export_target of the name given (directory kept, '.pkl' only when there is no suffix); the parameter file read
   is yaml_target of the name given, and the result is load_doc of the document (DEFAULT popped wherever it stands and merged
   under every other section, sections in file order; a missing file is FileNotFoundError; an empty document gives []). *)
From Coq Require Import List Bool NArith String.
Import ListNotations.
From Femto Require Import Persist.Paths.
From FemtoTie Require Import PyPrelude PaState SrcPa.

Lemma truthy_suffix : forall s, truthy (p_suffix s) = match suffix s with EmptyString => false | _ => true end.
Proof. intros s. unfold truthy, truthy_str, p_suffix. destruct (suffix s); reflexivity. Qed.

Theorem SRC_C19_export : forall filename as_dict s,
  src_export tt filename as_dict s = (Ret tt, (s ++ [export_target filename])%list).
Proof.
  intros fn ad s. unfold src_export, export_target, path_of. rewrite truthy_suffix.
  destruct (suffix fn); reflexivity.
Qed.
Print Assumptions SRC_C19_export.

Lemma doc_get_in : forall (cfg : doc) k d (st : list string),
  NoDup (map fst cfg) -> In (k, d) cfg -> doc_get cfg k st = (Ret d, st).
Proof.
  induction cfg as [|[k' d'] r IH]; intros k d st Hnd Hin; [contradiction|].
  cbn [doc_get]. cbn [map fst] in Hnd. inversion Hnd as [|? ? Hnot Hnd']; subst.
  destruct Hin as [Heq|Hin].
  - inversion Heq; subst. now rewrite String.eqb_refl.
  - destruct (String.eqb k k') eqn:E.
    + apply String.eqb_eq in E. subst. exfalso. apply Hnot. change k' with (fst (k', d)). now apply in_map.
    + now apply IH.
Qed.

Lemma mapM_get : forall (cfg : doc) (l : doc) (st : list string),
  NoDup (map fst cfg) -> incl l cfg ->
  mapM (fun s => item__1 <- doc_get cfg s ;; ret (dict_copy item__1)) (map fst l) st = (Ret (map snd l), st).
Proof.
  intros cfg l st Hnd. induction l as [|[k d] r IH]; intros Hin; [reflexivity|].
  cbn [map fst snd mapM]. unfold bind at 1. unfold bind at 1.
  rewrite (doc_get_in cfg k d st Hnd) by (apply Hin; left; reflexivity). cbn [ret].
  unfold bind at 1. rewrite IH by (intros x Hx; apply Hin; right; exact Hx). reflexivity.
Qed.

Lemma pop_default_nodup : forall (d : doc), NoDup (map fst d) -> NoDup (map fst (snd (pop_default d))).
Proof.
  induction d as [|[s x] r IH]; intros H; [constructor|].
  cbn [pop_default]. cbn [map fst] in H. inversion H as [|? ? Hnot Hr]; subst.
  destruct (String.eqb s "DEFAULT"); [exact Hr|].
  destruct (pop_default r) as [df rest] eqn:E. cbn [snd map fst]. constructor; [|exact (IH Hr)].
  intros Hin. apply Hnot. clear -Hin E. revert df rest E Hin.
  induction r as [|[s' x'] r' IHr]; intros df rest E Hin.
  - cbn in E. inversion E; subst. contradiction.
  - cbn [pop_default] in E. destruct (String.eqb s' "DEFAULT").
    + inversion E; subst. right. exact Hin.
    + destruct (pop_default r') as [df' rest'] eqn:E'. inversion E; subst. cbn [map fst] in Hin.
      destruct Hin as [->|Hin]; [left; reflexivity|right; exact (IHr df rest' eq_refl Hin)].
Qed.

Theorem SRC_C19_load_parameters : forall (fs : string -> option doc) param_file s,
  (forall d, fs (yaml_target param_file) = Some d -> NoDup (map fst d)) ->      (* a YAML mapping has each key once *)
  src_load_parameters fs tt param_file s =
  (match fs (yaml_target param_file) with None => Exc EFileNotFound | Some d => Ret (load_doc d) end, s).
Proof.
  intros fs pf s Hnd.
  assert (G : forall fp, (forall d, fs fp = Some d -> NoDup (map fst d)) ->
    (config <- yaml_load fs fp ;;
     if negb (truthy config) then ret []
     else let '(default_dict, config) := pop_default_key config in
          lst__2 <- mapM (fun s => item__1 <- doc_get config s ;; ret (dict_copy item__1)) (dkeys config) ;;
          (let dc := lst__2 in ret (map (fun param_dict => dict_merge default_dict param_dict) dc))) s
    = (match fs fp with None => Exc EFileNotFound | Some d => Ret (load_doc d) end, s)).
  { intros fp Hfp. unfold bind at 1, yaml_load. destruct (fs fp) as [d|] eqn:E; [|reflexivity]. cbn [ret].
    pose proof (pop_default_nodup d (Hfp d eq_refl)) as Hn.
    destruct d as [|x r] eqn:Ed; [reflexivity|]. rewrite <- Ed in *. replace (truthy d) with true by (subst d; reflexivity). cbn [negb].
    unfold pop_default_key, load_doc.
    destruct (pop_default d) as [df secs]. cbn [snd] in Hn. unfold bind at 1, dkeys.
    rewrite (mapM_get secs secs s Hn (incl_refl secs)). cbn [ret]. unfold dict_merge. now rewrite map_map. }
  unfold src_load_parameters, path_of. rewrite truthy_suffix. unfold yaml_target in *.
  destruct (suffix pf); [apply (G _ Hnd)|apply (G _ Hnd)].
Qed.
Print Assumptions SRC_C19_load_parameters.

(* ---- the property on the translated source itself (Props/C19.v carried over) ---- *)
From Femto Require Import Props.C19.
Open Scope string_scope.

Theorem SRC_C19_export_where_the_caller_said : forall filename as_dict s,
  exists target, src_export tt filename as_dict s = (Ret tt, (s ++ [target])%list)
    /\ dirpart target = dirpart filename
    /\ (suffix filename = "" -> target = dirpart filename ++ name filename ++ ".pkl")
    /\ (suffix filename <> "" -> target = filename).
Proof.
  intros fn ad s. exists (export_target fn). split; [apply SRC_C19_export|]. split; [apply C19_export_keeps_directory|].
  apply C19_export_suffix_rule.
Qed.
Print Assumptions SRC_C19_export_where_the_caller_said.

Theorem SRC_C19_sections_inherit_default : forall (fs : string -> option doc) param_file s d,
  fs (yaml_target param_file) = Some d -> NoDup (map fst d) ->
  exists out, src_load_parameters fs tt param_file s = (Ret out, s)
    /\ out = load_doc d
    /\ List.length out = List.length (filter (fun sd => negb (String.eqb (fst sd) "DEFAULT")) d)
    /\ dirpart (yaml_target param_file) = dirpart param_file.
Proof.
  intros fs pf s d Hd Hnd. exists (load_doc d). split.
  - rewrite SRC_C19_load_parameters by (intros d' Hd'; rewrite Hd in Hd'; inversion Hd'; subst; exact Hnd). now rewrite Hd.
  - split; [reflexivity|]. split; [apply C19_sections; exact Hnd|apply C19_yaml_keeps_directory].
Qed.
Print Assumptions SRC_C19_sections_inherit_default.

(* from_dict of LaserPath / TrenchColumn (and, by inheritance, of their subclasses, each with its own signature):
   the constructor receives exactly the entries whose key is one of its parameters *)
Theorem SRC_C19_from_dict : forall sig d,
  src_from_dict_lp sig d = filter_keys sig d /\ src_from_dict_tc sig d = filter_keys sig d.
Proof. intros sig d. repeat split. Qed.
Print Assumptions SRC_C19_from_dict.
Theorem SRC_C19_from_dict_keys : forall sig d k v,
  In (k, v) (src_from_dict_tc sig d) <-> In (k, v) d /\ existsb (String.eqb k) sig = true.
Proof. intros sig d k v. apply C19_from_dict_keys. Qed.
Print Assumptions SRC_C19_from_dict_keys.

(* ---- PGMCompiler.close(): compiled programs are written to export_dir/<name>.pgm, creating a missing directory first ---- *)
Theorem SRC_C19_close : forall (is_dir : string -> bool) c filename verbose s,
  let name := match filename with Some f => f | None => cl_filename c end in
  src_close is_dir c filename verbose s =
  (Ret tt, s ++ (match cl_export_dir c with
                 | EmptyString => []
                 | d => if is_dir d then [] else [(true, d)]
                 end) ++ [(false, close_target (cl_export_dir c) name)])%list.
Proof.
  intros is_dir c filename verbose s name. unfold src_close, close_target. cbv zeta.
  replace (match filename with None => path_of (cfg_filename c) | Some f => path_of f end) with name by (destruct filename; reflexivity).
  unfold truthy, truthy_str, path_of, p_with_suffix, pjoin.
  destruct (cl_export_dir c) as [|a d] eqn:E; cbn [String.eqb negb].
  - unfold bind, cl_open, ret. reflexivity.
  - unfold bind, cl_open, cl_mkdirs, ret. destruct (is_dir (String a d)); cbn [app]; [reflexivity|].
    now rewrite <- app_assoc.
Qed.
Print Assumptions SRC_C19_close.

(* the only file opened is the documented target *)
Corollary SRC_C19_close_target : forall is_dir c filename verbose,
  filter (fun e => negb (fst e)) (snd (src_close is_dir c filename verbose [])) =
  [(false, close_target (cl_export_dir c) (match filename with Some f => f | None => cl_filename c end))].
Proof.
  intros. rewrite SRC_C19_close. cbn [snd app]. destruct (cl_export_dir c); [reflexivity|]. destruct (is_dir _); reflexivity.
Qed.
Print Assumptions SRC_C19_close_target.
