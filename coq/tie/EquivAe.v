(* append / extend of TrenchWriter, UTrenchWriter, WaveguideWriter, NasuWriter, MarkerWriter as translated from /repo's writer.py
   (SrcAe.v) are writer_append / writer_extend of the routing model Writers/Device.v: same collection afterwards (also the
   part appended before a rejected element), same exception class. *)
From Coq Require Import List Bool ZArith NArith Lia.
Import ListNotations.
From Femto Require Import Writers.Device.
From FemtoTie Require Import PyPrelude AeState SrcAe.

Definition exn_of (x : Device.exn) : PyPrelude.exn :=
  match x with TypeErr => EType | ValueErr => EValue | IndexErr => EIndex end.
Definition res_of (x : option Device.exn) : R unit := match x with None => Ret tt | Some e => Exc (exn_of e) end.

(* the collection of writer w inside the device record *)
Definition coll (w : kind) (d : dev) : list item :=
  match w with KWg => d_wg d | KNwg => d_nwg d | KTc => d_tc d | KUtc => d_utc d | KMk => d_mk d | _ => [] end.

Definition src_append (w : kind) : item -> MI unit :=
  match w with KWg => src_wg_append tt | KNwg => src_nwg_append tt | KTc => src_tc_append tt | KUtc => src_utc_append tt
             | _ => src_mk_append tt end.
Definition src_extend (w : kind) : item -> MI unit :=
  match w with KWg => src_wg_extend tt | KNwg => src_nwg_extend tt | KTc => src_tc_extend tt | KUtc => src_utc_extend tt
             | _ => src_mk_extend tt end.
Definition five (w : kind) : Prop := w = KWg \/ w = KNwg \/ w = KTc \/ w = KUtc \/ w = KMk.

Lemma isinst_leaf : forall it cls, isinst_item it cls = match leaf_kind it with Some k => isinst k cls | None => false end.
Proof. intros [k i|l] cls; reflexivity. Qed.

Theorem SRC_C16_append : forall w d obj, five w ->
  src_append w obj (coll w d) = (res_of (snd (writer_append w d obj)), coll w (fst (writer_append w d obj))).
Proof.
  intros w d obj Hw. unfold writer_append.
  destruct Hw as [->|[->|[->|[->| ->]]]]; cbn [src_append coll];
    unfold src_wg_append, src_nwg_append, src_tc_append, src_utc_append, src_mk_append;
    rewrite isinst_leaf; destruct (leaf_kind obj) as [k|]; try reflexivity;
    destruct (isinst k _); reflexivity.
Qed.
Print Assumptions SRC_C16_append.

(* the loop `for x in flatten(obj): self.append(x)` against append_each *)
Lemma each_spec : forall (cls : kind) (app : item -> MI unit),
  (forall it s, app it s = (if isinst_item it cls then Ret tt else Exc EType, if isinst_item it cls then s ++ [it] else s)) ->
  forall l acc,
  for_each l tt (fun x _ => app x ;;; ret tt) acc =
  (res_of (snd (append_each cls acc l)), fst (append_each cls acc l)).
Proof.
  intros cls app Happ l. induction l as [|it l IH]; intros acc; [reflexivity|].
  cbn [for_each append_each]. unfold bind at 1. unfold bind at 1. rewrite Happ, isinst_leaf.
  destruct (leaf_kind it) as [k|]; [|reflexivity]. destruct (isinst k cls); [|reflexivity]. cbn [ret]. apply IH.
Qed.

Lemma app_spec_tc : forall it s, src_tc_append tt it s = (if isinst_item it KTc then Ret tt else Exc EType, if isinst_item it KTc then s ++ [it] else s).
Proof. intros it s. unfold src_tc_append. destruct (isinst_item it KTc); reflexivity. Qed.
Lemma app_spec_utc : forall it s, src_utc_append tt it s = (if isinst_item it KUtc then Ret tt else Exc EType, if isinst_item it KUtc then s ++ [it] else s).
Proof. intros it s. unfold src_utc_append. destruct (isinst_item it KUtc); reflexivity. Qed.
Lemma app_spec_mk : forall it s, src_mk_append tt it s = (if isinst_item it KMk then Ret tt else Exc EType, if isinst_item it KMk then s ++ [it] else s).
Proof. intros it s. unfold src_mk_append. destruct (isinst_item it KMk); reflexivity. Qed.

Lemma forallb_inst : forall cls l, forallb (fun wg => isinst_item wg cls) l = all_inst cls l.
Proof. intros cls l. unfold all_inst. induction l as [|it l IH]; cbn; [reflexivity|]. now rewrite IH, isinst_leaf. Qed.

Lemma ltb2 : forall n : nat, Z.ltb 2 (Z.of_nat n) = Nat.ltb 2 n.
Proof. intros n. destruct (Nat.ltb_spec 2 n); [apply Z.ltb_lt|apply Z.ltb_ge]; lia. Qed.

Theorem SRC_C16_extend_list : forall w d e, five w ->
  src_extend w (Grp e) (coll w d) = (res_of (snd (writer_extend w d e)), coll w (fst (writer_extend w d e))).
Proof.
  intros w d e Hw. unfold writer_extend.
  destruct Hw as [->|[->|[->|[->| ->]]]]; cbn [src_extend coll].
  - unfold src_wg_extend. cbn [is_grp negb flat_of nest_of as_list]. unfold pylt, ord_Z, of_int, ofint_Z.
    rewrite ltb2. change (nest_of (Grp e)) with (nest_level e). destruct (Nat.ltb 2 (nest_level e)); [reflexivity|].
    rewrite forallb_inst. destruct (all_inst KWg (flat e)); reflexivity.
  - unfold src_nwg_extend. cbn [is_grp negb flat_of as_list]. rewrite forallb_inst. destruct (all_inst KNwg (flat e)); reflexivity.
  - unfold src_tc_extend. cbn [is_grp negb flat_of]. unfold bind at 1. rewrite (each_spec KTc _ app_spec_tc).
    destruct (append_each KTc (d_tc d) (flat e)) as [l [x|]]; reflexivity.
  - unfold src_utc_extend. cbn [is_grp negb flat_of]. unfold bind at 1. rewrite (each_spec KUtc _ app_spec_utc).
    destruct (append_each KUtc (d_utc d) (flat e)) as [l [x|]]; reflexivity.
  - unfold src_mk_extend. cbn [is_grp negb flat_of]. unfold bind at 1. rewrite (each_spec KMk _ app_spec_mk).
    destruct (append_each KMk (d_mk d) (flat e)) as [l [x|]]; reflexivity.
Qed.
Print Assumptions SRC_C16_extend_list.

(* anything that is not a list is refused and nothing is stored *)
Theorem SRC_C16_extend_needs_list : forall w k i s, five w -> src_extend w (Obj k i) s = (Exc EType, s).
Proof. intros w k i s [->|[->|[->|[->| ->]]]]; reflexivity. Qed.
Print Assumptions SRC_C16_extend_needs_list.
