(* The programs that WaveguideWriter.pgm and MarkerWriter.pgm write inside `with PGMCompiler(<param>) as G:` - translated
   from /repo's writer.py on every run (SrcWr.v) - are the op lists of the model Writers/Writers.v: every group of
   waveguides in one REPEAT block of its first member's scans, each waveguide written once inside; every marker in its own
   REPEAT block of its scans; then the homing move. *)
From Coq Require Import List Bool ZArith NArith QArith String Lia.
Import ListNotations.
From Femto Require Import Base.Num Ctl.Tok Pgm.Ops Pgm.OpsProofs Writers.Writers.
From FemtoTie Require Import PyPrelude PgmState PgmSrc LineTok PgmEquiv SrcWr.

Section Wr.
Context (ivar : string -> N).
Hypothesis ivar_spec : forall a b, ivar a = ivar b <-> lower a = lower b.
Context (nos : N -> N).
Hypothesis nos_inj : forall a b, nos a = nos b -> a = b.
Notation Sim := (Sim ivar nos).

Lemma Sim_for_each_unit : forall {A} (c : cfg) (F : A -> op) (f : A -> unit -> MP unit) (l : list A),
  (forall a, In a l -> Sim (f a tt) (exec c (F a))) ->
  Sim (for_each l tt f) (exec_list c (map F l)).
Proof.
  intros A c F f l. induction l as [|a l IH]; intros H.
  - cbn. apply Sim_ret.
  - cbn [for_each map exec_list]. apply Sim_bind; [apply H; now left|].
    intros []. apply IH. intros b Hb. apply H. now right.
Qed.

Section WithCfg.
Context (pc : pcfg).
Hypothesis Hl : laser_ok (abs_cfg pc) = true.

Lemma Sim_write_op : forall w, Sim (src_write pc (cols (w_pts w)) ;;; ret tt) (exec (abs_cfg pc) (OWrite (w_pts w))).
Proof.
  intros w. apply (Sim_ext ivar nos _ (fun st => seq (do_write (abs_cfg pc) st (w_pts w)) (fun st => (st, [], Ok)))).
  { intros st. apply seq_ret_r. }
  apply Sim_bind; [apply (Sim_write ivar nos pc (w_pts w) Hl)|intros _; apply Sim_ret].
Qed.

Theorem SRC_wg_body : forall groups, Forall (fun g => g <> []) groups ->
  Sim (src_wg_body pc groups) (exec_list (abs_cfg pc) (wg_ops groups)).
Proof.
  intros groups Hne. unfold src_wg_body, wg_ops.
  apply (Sim_ext ivar nos _ (fun st => seq (exec_list (abs_cfg pc) (map group_op groups) st)
                                        (fun st => seq (exec (abs_cfg pc) OGoInit st) (fun st => (st, [], Ok))))).
  { intros st. rewrite exec_list_app. f_equal. }
  apply Sim_bind.
  - apply (Sim_for_each_unit (abs_cfg pc) group_op). intros g Hg.
    assert (Hg' : g <> []) by (rewrite Forall_forall in Hne; now apply Hne).
    destruct g as [|w r]; [now elim Hg'|].
    apply (Sim_ext_m ivar nos (src_repeat pc (Some (w_scan w))
             (bind (for_each (w :: r) tt (fun wg _ => src_write pc (cols (w_pts wg)) ;;; ret tt)) (fun _ => ret tt)) ;;; ret tt));
      [reflexivity|].
    apply (Sim_ext ivar nos _ (fun st => seq (exec (abs_cfg pc) (group_op (w :: r)) st) (fun st => (st, [], Ok))));
      [intros st; apply seq_ret_r|].
    apply Sim_bind; [|intros _; apply Sim_ret].
    unfold group_op.
    apply (Sim_ext ivar nos _ _ _ (fun st => eq_sym (exec_repeat (abs_cfg pc) (Some (w_scan w)) (map (fun w0 => OWrite (w_pts w0)) (w :: r)) st))).
    apply (Sim_repeat ivar nos pc (Some (w_scan w)) _ (exec_list (abs_cfg pc) (map (fun w0 => OWrite (w_pts w0)) (w :: r)))).
    apply (Sim_ext ivar nos _ (fun st => seq (exec_list (abs_cfg pc) (map (fun w0 => OWrite (w_pts w0)) (w :: r)) st) (fun st => (st, [], Ok))));
      [intros st; apply seq_ret_r|].
    apply Sim_bind; [|intros _; apply Sim_ret].
    apply (Sim_for_each_unit (abs_cfg pc) (fun w0 => OWrite (w_pts w0))). intros w0 _. apply Sim_write_op.
  - intros _. apply Sim_bind; [|intros _; apply Sim_ret].
    apply (Sim_exec ivar ivar_spec nos nos_inj pc Hl PGoInit I).
Qed.

Lemma map_snd_enum : forall {A B} (G : A -> B) (l : list A) k, map (fun p : Z * A => G (snd p)) (enum_from k l) = map G l.
Proof. intros A B G l. induction l as [|a l IH]; intros k; cbn; [reflexivity|]. now rewrite IH. Qed.

Definition mk_op (m : wobj) : op := ORepeat (Some (w_scan m)) [OComment; OWrite (w_pts m); OComment].

Theorem SRC_mk_body : forall ms,
  Sim (src_mk_body pc ms) (exec_list (abs_cfg pc) (mk_ops ms)).
Proof.
  intros ms. unfold src_mk_body, mk_ops, enumerate_.
  change (map (fun m : wobj => ORepeat (Some (w_scan m)) [OComment; OWrite (w_pts m); OComment]) ms) with (map mk_op ms).
  rewrite <- (map_snd_enum mk_op ms 0).
  apply (Sim_ext ivar nos _ (fun st => seq (exec_list (abs_cfg pc) (map (fun p : Z * wobj => mk_op (snd p)) (enum_from 0 ms)) st)
                                        (fun st => seq (exec (abs_cfg pc) OGoOrigin st) (fun st => (st, [], Ok))))).
  { intros st. rewrite exec_list_app. f_equal. }
  apply Sim_bind.
  - apply (Sim_for_each_unit (abs_cfg pc) (fun p : Z * wobj => mk_op (snd p))). intros [i m] _. cbn [snd].
    apply (Sim_ext ivar nos _ (fun st => seq (exec (abs_cfg pc) (mk_op m) st) (fun st => (st, [], Ok))));
      [intros st; apply seq_ret_r|].
    apply Sim_bind; [|intros _; apply Sim_ret].
    unfold mk_op.
    apply (Sim_ext ivar nos _ _ _ (fun st => eq_sym (exec_repeat (abs_cfg pc) (Some (w_scan m)) [OComment; OWrite (w_pts m); OComment] st))).
    apply (Sim_repeat ivar nos pc (Some (w_scan m)) _ (exec_list (abs_cfg pc) [OComment; OWrite (w_pts m); OComment])). cbn [exec_list exec].
    apply Sim_bind; [apply (Sim_comment ivar nos)|intros _].
    apply Sim_bind; [apply (Sim_write ivar nos pc (w_pts m) Hl)|intros _].
    apply Sim_bind; [apply (Sim_comment ivar nos)|intros _; apply Sim_ret].
  - intros _. apply Sim_bind; [|intros _; apply Sim_ret].
    apply (Sim_exec ivar ivar_spec nos nos_inj pc Hl PGoOrigin I).
Qed.

Lemma Sim_write_pts : forall pts, Sim (src_write pc (cols pts) ;;; ret tt) (exec (abs_cfg pc) (OWrite pts)).
Proof.
  intros pts. apply (Sim_ext ivar nos _ (fun st => seq (do_write (abs_cfg pc) st pts) (fun st => (st, [], Ok)))).
  { intros st. apply seq_ret_r. }
  apply Sim_bind; [apply (Sim_write ivar nos pc pts Hl)|intros _; apply Sim_ret].
Qed.

Lemma Sim_for_each_flat_w : forall {A} (c : cfg) (F : A -> list op) (f : A -> unit -> MP unit) (l : list A),
  (forall a, In a l -> Sim (f a tt) (exec_list c (F a))) ->
  Sim (for_each l tt f) (exec_list c (flat_map F l)).
Proof.
  intros A c F f l. induction l as [|a l IH]; intros H.
  - cbn. apply Sim_ret.
  - cbn [for_each flat_map].
    apply (Sim_ext ivar nos _ (fun st => seq (exec_list c (F a) st) (exec_list c (flat_map F l)))).
    { intros st. symmetry. apply exec_list_app. }
    apply Sim_bind; [apply H; now left|]. intros []. apply IH. intros b Hb. apply H. now right.
Qed.

(* NasuWriter.pgm: every Nasu waveguide once per entry of its pass order, in that order, shifted by that entry; then home *)
Theorem SRC_nwg_body : forall ns,
  Sim (src_nwg_body pc ns) (exec_list (abs_cfg pc) (nasu_ops ns)).
Proof.
  intros ns. unfold src_nwg_body, nasu_ops.
  set (F := fun n : nobj => map (fun k => OWrite (map (shift_pt k (n_shift n)) (n_pts n))) (nasu_order (n_adj n))).
  apply (Sim_ext ivar nos _ (fun st => seq (exec_list (abs_cfg pc) (flat_map F ns) st)
                                        (fun st => seq (exec (abs_cfg pc) OGoInit st) (fun st => (st, [], Ok))))).
  { intros st. rewrite exec_list_app. f_equal. }
  apply Sim_bind.
  - apply (Sim_for_each_flat_w (abs_cfg pc) F). intros n _.
    apply (Sim_ext ivar nos _ (fun st => seq (exec_list (abs_cfg pc) (F n) st) (fun st => (st, [], Ok))));
      [intros st; apply seq_ret_r|].
    apply Sim_bind; [|intros _; apply Sim_ret].
    unfold F. apply (Sim_for_each_unit (abs_cfg pc) (fun k => OWrite (map (shift_pt k (n_shift n)) (n_pts n)))). intros k _.
    destruct (n_shift n) as [[dx dy] dz]. apply Sim_write_pts.
  - intros _. apply Sim_bind; [|intros _; apply Sim_ret].
    apply (Sim_exec ivar ivar_spec nos nos_inj pc Hl PGoInit I).
Qed.
End WithCfg.
End Wr.

(* statements *)
Theorem SRC_C08_wg_program : forall ivar nos,
  (forall a b, ivar a = ivar b <-> lower a = lower b) -> (forall a b, nos a = nos b -> a = b) ->
  forall pc groups, laser_ok (abs_cfg pc) = true -> Forall (fun g => g <> []) groups ->
  PgmEquiv.Sim ivar nos (src_wg_body pc groups) (exec_list (abs_cfg pc) (wg_ops groups)).
Proof. intros ivar nos Hi Hn pc groups Hl Hne. exact (SRC_wg_body ivar Hi nos Hn pc Hl groups Hne). Qed.
Print Assumptions SRC_C08_wg_program.

Theorem SRC_C08_mk_program : forall ivar nos,
  (forall a b, ivar a = ivar b <-> lower a = lower b) -> (forall a b, nos a = nos b -> a = b) ->
  forall pc ms, laser_ok (abs_cfg pc) = true ->
  PgmEquiv.Sim ivar nos (src_mk_body pc ms) (exec_list (abs_cfg pc) (mk_ops ms)).
Proof. intros ivar nos Hi Hn pc ms Hl. exact (SRC_mk_body ivar Hi nos Hn pc Hl ms). Qed.
Print Assumptions SRC_C08_mk_program.

Theorem SRC_C08_nasu_program : forall ivar nos,
  (forall a b, ivar a = ivar b <-> lower a = lower b) -> (forall a b, nos a = nos b -> a = b) ->
  forall pc ns, laser_ok (abs_cfg pc) = true ->
  PgmEquiv.Sim ivar nos (src_nwg_body pc ns) (exec_list (abs_cfg pc) (nasu_ops ns)).
Proof. intros ivar nos Hi Hn pc ns Hl. exact (SRC_nwg_body ivar Hi nos Hn pc Hl ns). Qed.
Print Assumptions SRC_C08_nasu_program.
