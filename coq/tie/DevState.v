(* State and primitives for the translated Device.append / extend / parse_objects (SrcDev.v, generated): the device is the five
   writers' collections; `self.writers[k].extend(e)` runs the translated extend of the writer registered under exactly the type
   k on that writer's collection (SrcAe.v through EquivAe.src_extend), and a type with no entry is the KeyError that
   parse_objects turns into a TypeError. *)
From Coq Require Import List Bool ZArith NArith.
Import ListNotations.
From Femto Require Import Writers.Device.
From FemtoTie Require Import PyPrelude AeState SrcAe EquivAe.

Definition MD : Type -> Type := @M dev.

Definition set_coll (w : kind) (l : list item) (d : dev) : dev :=
  match w with
  | KWg => {| d_wg := l; d_nwg := d_nwg d; d_tc := d_tc d; d_utc := d_utc d; d_mk := d_mk d |}
  | KNwg => {| d_wg := d_wg d; d_nwg := l; d_tc := d_tc d; d_utc := d_utc d; d_mk := d_mk d |}
  | KTc => {| d_wg := d_wg d; d_nwg := d_nwg d; d_tc := l; d_utc := d_utc d; d_mk := d_mk d |}
  | KUtc => {| d_wg := d_wg d; d_nwg := d_nwg d; d_tc := d_tc d; d_utc := l; d_mk := d_mk d |}
  | KMk => {| d_wg := d_wg d; d_nwg := d_nwg d; d_tc := d_tc d; d_utc := d_utc d; d_mk := l |}
  | _ => d
  end.

(* a method of one writer run inside the device: only that writer's obj_list is touched *)
Definition lift_w (w : kind) (m : MI unit) : MD unit :=
  fun d => let '(r, l) := m (coll w d) in (r, set_coll w l d).

(* type(x): the exact class of an object, `list` for a python list *)
Definition type_of (it : item) : key := match it with Obj k _ => KeyOf k | Grp _ => KeyList end.

(* x[0] of a python list *)
Definition item_first (it : item) : MD item :=
  match as_list it with [] => raise EIndex | x :: _ => ret x end.

(* d[k].append(x) on a defaultdict(list): dicts keep insertion order *)
Definition dict_append (k : key) (x : item) (d : list (key * list item)) : list (key * list item) := bucket_add k x d.

Fixpoint reg_find (reg : list (kind * kind)) (k : kind) : option kind :=
  match reg with [] => None | (t, w) :: r => if kind_eqb t k then Some w else reg_find r k end.

(* try: self.writers[k].extend(e)  except KeyError: raise TypeError *)
Definition writers_extend (reg : list (kind * kind)) (k : key) (e : list item) : MD unit :=
  match k with
  | KeyOf t => match reg_find reg t with
               | Some w => lift_w w (src_extend w (Grp e))
               | None => raise EType
               end
  | _ => raise EType
  end.
