(* The program TrenchWriter._farcall_trench_column writes inside the compiler context - translated from /repo's writer.py on
   every run (SrcFc.v) - is the model's call file Trench/TreeProg.farcall_ops of the abstracted column: so the theorems of
   Props/C06 about the modelled call file (C06_call_file_safe: every call finds its program loaded, $ZCURR declared and set,
   shutter open only during the z steps between wall passes, closed at the end ...) are theorems about the source. *)
From Coq Require Import List Bool ZArith NArith QArith String Lia.
Import ListNotations.
From Femto Require Import Base.Num Ctl.Tok Geo.Rigid Pgm.Ops Pgm.OpsProofs Trench.TreeProg.
From FemtoTie Require Import PyPrelude PgmState PgmSrc LineTok PgmEquiv FcState SrcFc.
Local Open Scope string_scope.
Local Open Scope list_scope.

Section Fc.
Context (ivar : string -> N).
Hypothesis ivar_spec : forall a b, ivar a = ivar b <-> lower a = lower b.
Context (nos : N -> N).
Hypothesis nos_inj : forall a b, nos a = nos b -> a = b.
Notation Sim := (Sim ivar nos).
Context (pc : pcfg).
Hypothesis Hl : laser_ok (abs_cfg pc) = true.

Definition abs_block (b : sblock) : blockd :=
  {| b_first := sb_first b; b_wall_f := abs_path (sb_wall_f b); b_wall_n := abs_path (sb_wall_n b);
     b_floor_f := abs_path (sb_floor_f b); b_floor_n := abs_path (sb_floor_n b) |}.
Definition abs_col (d : scol) : cold :=
  {| c_blocks := map abs_block (sc_blocks d); c_beds := []; c_nboxz := sc_nboxz d; c_nrepeat := sc_nrepeat d;
     c_hbox := sc_hbox d; c_zoff := sc_zoff d; c_dz := sc_dz d; c_u := sc_u d; c_speed_closed := sc_speed_closed d;
     c_zcurr := ivar "ZCURR" |}.
Definition wf_block (b : sblock) : Prop :=
  wfp nos (sb_wall_f b) /\ wfp nos (sb_wall_n b) /\ wfp nos (sb_floor_f b) /\ wfp nos (sb_floor_n b).

Section Block.
Context (d : scol) (index : Z).
Let zc := ivar "ZCURR".

Definition msg (i nbox : Z) (tail : string) : line :=
  [PL "MSGDISPLAY 1, ""COL "; PIpad 3 (index + 1); PL ", TR "; PIpad 3 (i + 1); PL ", LV "; PIpad 3 (nbox + 1); PL (tail ++ nl)%string].

Definition u_first_p : list pop := match sc_u d with [] => [] | u0 :: _ => [PLine [PL "G1 U"; PF 6 u0] (IU u0)] end.
Definition u_last_p : list pop := match sc_u d with [] => [] | u0 :: r => [PLine [PL "G1 U"; PF 6 (List.last r u0)] (IU (List.last r u0))] end.
Definition u_dwell_p : list pop := match sc_u d with [] => [] | _ => [PDwell (long_pause pc)] end.

Definition block_pops (nbox i : Z) (b : sblock) : list pop :=
  let '(x0, y0, z0) := init_point (abs_cfg pc) (sb_first b) (inject_Z nbox * sc_hbox d + sc_zoff d)%Q in
  [ PComment "+--- COLUMN"; PLoad (sb_wall_f b) (Some 2%Z); PLine (msg i nbox ", W""") IMsg; PShutter "OFF" ] ++ u_first_p ++ u_dwell_p ++
  [ PMoveTo (Some x0) (Some y0) (Some z0) (Some (sc_speed_closed d));
    PLine [PL "$ZCURR = "; PF 6 z0] (IAssign zc z0); PShutter "ON";
    PRepeat (Some (sc_nrepeat d)) [ PFarcall (sb_wall_n b); PLine [PL "$ZCURR = $ZCURR + "; PF 6 (sc_dz d)] (IAssignPlus zc (sc_dz d));
                                    PLine [PL "G1 Z$ZCURR"] (IZvar zc) ];
    PRemove (sb_wall_n b) 2%Z;
    PShutter "OFF"; PLoad (sb_floor_f b) (Some 2%Z); PLine (msg i nbox ", F""") IMsg ] ++ u_last_p ++ u_dwell_p ++
  [ PShutter "ON"; PFarcall (sb_floor_n b); PShutter "OFF" ] ++ u_first_p ++ [ PRemove (sb_floor_n b) 2%Z ].

Lemma block_pops_abs : forall (k : nat) i b,
  map (abs_op ivar) (block_pops (Z.of_nat k) i b) = block_ops (abs_cfg pc) (abs_col d) k (abs_block b).
Proof.
  intros k i b. unfold block_pops, block_ops, u_first_p, u_last_p, u_dwell_p, u_first, u_last, u_dwell.
  cbn [c_hbox c_zoff abs_col b_first abs_block c_u].
  destruct (init_point (abs_cfg pc) (sb_first b) (inject_Z (Z.of_nat k) * sc_hbox d + sc_zoff d)%Q) as [[x0 y0] z0].
  destruct (sc_u d) as [|u0 ur]; reflexivity.
Qed.

Lemma block_pops_wf : forall nbox i b, wf_block b -> Forall (wf_pop ivar nos) (block_pops nbox i b).
Proof.
  intros nbox i b (H1 & H2 & H3 & H4). unfold block_pops, u_first_p, u_last_p, u_dwell_p.
  destruct (init_point (abs_cfg pc) (sb_first b) (inject_Z nbox * sc_hbox d + sc_zoff d)%Q) as [[x0 y0] z0].
  destruct (sc_u d) as [|u0 ur]; cbn [app]; repeat constructor; try assumption; try discriminate; try reflexivity;
    cbn [wf_pop]; repeat split; try assumption; try reflexivity.
Qed.
End Block.

Lemma Sim_for_each_flat : forall {A} (c : cfg) (F : A -> list op) (f : A -> unit -> MP unit) (l : list A),
  (forall a, In a l -> Sim (f a tt) (exec_list c (F a))) ->
  Sim (for_each l tt f) (exec_list c (flat_map F l)).
Proof.
  intros A c F f l. induction l as [|a l IH]; intros H.
  - cbn. apply (Sim_ret ivar nos).
  - cbn [for_each flat_map].
    apply (Sim_ext ivar nos _ (fun st => seq (exec_list c (F a) st) (exec_list c (flat_map F l)))).
    { intros st. symmetry. apply exec_list_app. }
    apply (Sim_bind ivar nos); [apply H; now left|]. intros []. apply IH. intros b Hb. apply H. now right.
Qed.

Lemma fm_map : forall {A B C} (g : A -> B) (h : B -> list C) l, flat_map h (map g l) = flat_map (fun a => h (g a)) l.
Proof. induction l as [|a l IH]; cbn; [reflexivity|]. now rewrite IH. Qed.

Lemma flat_product : forall {A B C} (F : A -> B -> list C) (la : list A) (lb : list B),
  flat_map (fun p : A * B => F (fst p) (snd p)) (product_ la lb) = flat_map (fun a => flat_map (F a) lb) la.
Proof.
  intros A B C F la lb. unfold product_. induction la as [|a la IH]; cbn; [reflexivity|].
  rewrite flat_map_app, IH. f_equal. rewrite fm_map. reflexivity.
Qed.

Lemma flat_snd_enum : forall {A C} (G : A -> list C) (l : list A) k,
  flat_map (fun p : Z * A => G (snd p)) (enum_from k l) = flat_map G l.
Proof. intros A C G l. induction l as [|a l IH]; intros k; cbn; [reflexivity|]. now rewrite IH. Qed.

Lemma zrange0_nat : forall n, zrange 0 (Z.of_nat n) = map Z.of_nat (List.seq 0 n).
Proof.
  intros n. unfold zrange. replace (Z.of_nat n - 0)%Z with (Z.of_nat n) by lia. rewrite Nat2Z.id.
  apply map_ext. intros k. lia.
Qed.

Lemma seq_ext : forall r (k k' : cstate -> res), (forall st, k st = k' st) -> seq r k = seq r k'.
Proof. intros [[st e] [|x]] k k' H; cbn; [now rewrite H|reflexivity]. Qed.

Theorem SRC_farcall_body : forall (d : scol) (index : Z), Forall wf_block (sc_blocks d) ->
  Sim (src_farcall_body pc d index) (exec_list (abs_cfg pc) (farcall_ops (abs_cfg pc) (abs_col d))).
Proof.
  intros d index Hw. unfold src_farcall_body, farcall_ops. cbn [c_zcurr abs_col c_beds flat_map app c_nboxz c_blocks].
  set (c := abs_cfg pc).
  set (FM := flat_map (fun nbox => flat_map (block_ops c (abs_col d) nbox) (map abs_block (sc_blocks d))) (List.seq 0 (sc_nboxz d))).
  apply (Sim_ext ivar nos _ (fun st => seq (exec c (ODvar [ivar "ZCURR"]) st)
                                        (fun st => seq (exec_list c FM st) (fun st => seq (exec c (OInstr IMsg) st) (fun st => (st, [], Ok)))))).
  { intros st. cbn [exec_list]. apply seq_ext. intros st1. rewrite exec_list_app. reflexivity. }
  apply (Sim_bind ivar nos).
  { apply (Sim_exec ivar ivar_spec nos nos_inj pc Hl (PDvar ["ZCURR"]) I). }
  intros _. apply (Sim_bind ivar nos).
  2:{ intros _. apply (Sim_bind ivar nos); [|intros _; apply (Sim_ret ivar nos)].
      apply (Sim_exec ivar ivar_spec nos nos_inj pc Hl (PLine [PL ("MSGCLEAR -1" ++ nl)%string] IMsg)). reflexivity. }
  (* the loop over levels x blocks *)
  assert (EFM : FM = flat_map (fun p : Z * (Z * sblock) => block_ops c (abs_col d) (Z.to_nat (fst p)) (abs_block (snd (snd p))))
                              (product_ (zrange 0 (Z.of_nat (sc_nboxz d))) (enumerate_ (sc_blocks d)))).
  { unfold FM. rewrite (flat_product (fun (z : Z) (ib : Z * sblock) => block_ops c (abs_col d) (Z.to_nat z) (abs_block (snd ib)))).
    rewrite zrange0_nat, fm_map. apply flat_map_ext. intros k.
    unfold enumerate_. rewrite (flat_snd_enum (fun b => block_ops c (abs_col d) (Z.to_nat (Z.of_nat k)) (abs_block b))).
    rewrite Nat2Z.id. clear. induction (sc_blocks d) as [|b l IH]; cbn; [reflexivity|]. now rewrite IH. }
  rewrite EFM.
  apply (Sim_for_each_flat c (fun p : Z * (Z * sblock) => block_ops c (abs_col d) (Z.to_nat (fst p)) (abs_block (snd (snd p))))).
  intros [nbox [i b]] Hin. cbn [fst snd].
  (* the element comes from the product: nbox = Z.of_nat k, b one of the column's blocks *)
  assert (Hk : exists k : nat, nbox = Z.of_nat k /\ In b (sc_blocks d)).
  { unfold product_ in Hin. apply in_flat_map in Hin. destruct Hin as (z & Hz & Hp). apply in_map_iff in Hp.
    destruct Hp as ([i' b'] & E & Hb). injection E as <- <- <-. rewrite zrange0_nat in Hz. apply in_map_iff in Hz.
    destruct Hz as (k & <- & _). exists k. split; [reflexivity|].
    unfold enumerate_ in Hb. clear - Hb. revert Hb. generalize 0%Z. induction (sc_blocks d) as [|x l IH]; intros z H; [destruct H|].
    destruct H as [E|H]; [injection E as _ <-; now left|right; exact (IH _ H)]. }
  destruct Hk as (k & -> & Hb). rewrite Nat2Z.id.
  assert (Hwb : wf_block b) by (rewrite Forall_forall in Hw; now apply Hw).
  unfold c. rewrite <- (block_pops_abs d index k i b).
  apply (Sim_ext_m ivar nos (src_exec_list pc (block_pops d index (Z.of_nat k) i b))).
  { intros s. unfold block_pops, u_first_p, u_last_p, u_dwell_p.
    destruct (init_point (abs_cfg pc) (sb_first b) (inject_Z (Z.of_nat k) * sc_hbox d + sc_zoff d)%Q) as [[x0 y0] z0].
    destruct (sc_u d) as [|u0 ur]; reflexivity. }
  apply (Sim_exec_all ivar ivar_spec nos nos_inj pc _ Hl). apply block_pops_wf. exact Hwb.
Qed.
End Fc.

Theorem SRC_C06_call_file : forall ivar nos,
  (forall a b, ivar a = ivar b <-> lower a = lower b) -> (forall a b, nos a = nos b -> a = b) ->
  forall pc d index, laser_ok (abs_cfg pc) = true -> Forall (wf_block nos) (sc_blocks d) ->
  PgmEquiv.Sim ivar nos (src_farcall_body pc d index) (exec_list (abs_cfg pc) (farcall_ops (abs_cfg pc) (abs_col ivar d))).
Proof. intros ivar nos Hi Hn pc d index Hl Hw. exact (SRC_farcall_body ivar Hi nos Hn pc Hl d index Hw). Qed.
Print Assumptions SRC_C06_call_file.
