(* Statements about the definitions that harness/py2coq.py generated from /repo/src/femto/pgmcompiler.py on THIS run
   (PgmSrc.v): they behave as the hand-written model Pgm/Ops.v, hence the theorems of Props/C01, C03, C12 hold of them.
   Statements only; proofs in PgmEquiv.v and in the model's proof files. *)
From Coq Require Import List Bool ZArith NArith QArith Qabs String Ascii Lia.
Import ListNotations.
From Femto Require Import Base.Num Ctl.Tok Ctl.Machine Ctl.ParseProofs Ctl.Dwell Ctl.Safety Geo.Rigid Pgm.Ops Pgm.OpsProofs
  Pgm.WriteProofs Pgm.SessionProofs Pgm.SafeProofs Pgm.CalmProofs Pgm.SessionSafe.
From FemtoTie Require Import PyPrelude PgmState PgmSrc LineTok PgmEquiv.

(* variable names are interned case-insensitively (harness/lexer.py: Interner.var); a '.pgm' file name is determined by its stem *)
Definition interner (ivar : string -> N) : Prop := forall a b, ivar a = ivar b <-> lower a = lower b.
Definition injective (f : N -> N) : Prop := forall a b, f a = f b -> a = b.

(* The session of the translated source - __enter__, the user's calls (any tree of the public operations, with Python-level
   arguments: state strings in any case, loop variables as strings, optional task ids, paths as pathlib decomposes them,
   exceptions raised by user code anywhere), __exit__, close - writes exactly the file, reports exactly the dwell and lets
   escape exactly the exception that the model's session does on the abstracted op tree. *)
Theorem SRC_session_is_model : forall ivar nos, interner ivar -> injective nos ->
  forall pc ops, Forall (wf_pop ivar nos) ops ->
  src_session ivar pc ops = session (abs_cfg pc) (map (abs_op ivar) ops).
Proof. intros ivar nos Hi Hn pc ops Hw. apply (session_equiv ivar Hi nos Hn). exact Hw. Qed.
Print Assumptions SRC_session_is_model.

(* each translated method simulates the model's function of the same name (the op-level statement behind the theorem above) *)
Theorem SRC_exec_is_model : forall ivar nos, interner ivar -> injective nos ->
  forall pc, laser_ok (abs_cfg pc) = true -> forall o, wf_pop ivar nos o ->
  Sim ivar nos (src_exec pc o) (exec (abs_cfg pc) (abs_op ivar o)).
Proof. intros ivar nos Hi Hn pc Hl o Hw. apply (Sim_exec ivar Hi nos Hn pc Hl o Hw). Qed.
Print Assumptions SRC_exec_is_model.

(* C03 for the translated source: balanced, properly nested loops in every written file, also after an exception *)
Theorem SRC_C03_balanced : forall ivar nos, interner ivar -> injective nos ->
  forall pc ops file d o, Forall (wf_pop ivar nos) ops ->
  src_session ivar pc ops = Written file d o ->
  exists pre body,
    file = pre ++ flatten body /\ forallb is_dvar pre = true /\ wf body = true
    /\ parse file = Some (tree_of pre body) /\ (d == dw (tree_of pre body))%Q.
Proof.
  intros ivar nos Hi Hn pc ops file d o Hw H. rewrite (SRC_session_is_model ivar nos Hi Hn pc ops Hw) in H.
  exact (session_tree _ _ _ _ _ H).
Qed.
Print Assumptions SRC_C03_balanced.

(* C03 for the translated source: no controller error but not-loaded, shutter closed and rotation off at the end *)
Theorem SRC_C03_no_error_shutter_rotation : forall ivar nos, interner ivar -> injective nos ->
  forall pc ops file d o, Forall (wf_pop ivar nos) ops ->
  cfg_ok (abs_cfg pc) -> pubs (map (abs_op ivar) ops) = true ->
  src_session ivar pc ops = Written file d o ->
  exists tree, parse file = Some tree /\
    forall call, call_wb call -> forall m, mrot m = false ->
      only_notloaded (snd (run_list call m tree)) /\
      msh (fst (run_list call m tree)) = false /\
      mrot (fst (run_list call m tree)) = false.
Proof.
  intros ivar nos Hi Hn pc ops file d o Hw Hc Hp H. rewrite (SRC_session_is_model ivar nos Hi Hn pc ops Hw) in H.
  exact (session_safe _ _ _ _ _ Hc Hp H).
Qed.
Print Assumptions SRC_C03_no_error_shutter_rotation.

(* C12 for the translated source: the reported dwell is the dwell the written program executes *)
Theorem SRC_C12_dwell : forall ivar nos, interner ivar -> injective nos ->
  forall pc ops file d o, Forall (wf_pop ivar nos) ops ->
  src_session ivar pc ops = Written file d o ->
  exists tree, parse file = Some tree /\
    forall call, (forall m p, dwell_sum (snd (call m p)) == 0)%Q ->
    forall m, (dwell_sum (snd (run_list call m tree)) == d)%Q.
Proof.
  intros ivar nos Hi Hn pc ops file d o Hw H. rewrite (SRC_session_is_model ivar nos Hi Hn pc ops Hw) in H.
  exact (session_dwell _ _ _ _ _ H).
Qed.
Print Assumptions SRC_C12_dwell.

(* C01 for the translated source: from any compiler state (dwell total canonical, declared names lower-case - every state
   the translated methods reach), any machine state agreeing on the shutter, any 0/1-flagged point matrix: the translated
   write either raises ValueError having appended nothing, or the lines it appends read as a program whose run on the
   reference controller visits the formatted transformed points in order, ends with the shutter the compiler tracks, with
   the configured decimals *)
Theorem SRC_C01_replay : forall (ivar : string -> N) (nos : N -> N) call pc s pts m,
  laser_ok (abs_cfg pc) = true -> inv s -> (0 <= output_digits pc <= 9)%Z ->
  msh m = shutter_on s -> mabs m = true ->
  Forall (fun p => ps p = 0%Z \/ ps p = 1%Z) pts ->
  let r := fst (src_write pc (cols pts) s) in
  let s' := snd (src_write pc (cols pts) s) in
  (existsb (fun p => feed_bad (abs_cfg pc) (pf p)) pts = true /\ r = Exc EValue /\
   toks ivar (instr_back s') = toks ivar (instr_back s))
  \/
  (existsb (fun p => feed_bad (abs_cfg pc) (pf p)) pts = false /\ r = Ret tt /\
   exists e m' ev,
     toks ivar (instr_back s') = toks ivar (instr_back s) ++ flatten e
     /\ run_list call m e = (m', ev) /\ errors ev = []
     /\ collapse (mpos m) (dsts ev) = collapse (mpos m) (spec_pts (abs_cfg pc) pts)
     /\ msh m' = shutter_on s'
     /\ forallb (nd_ok (abs_cfg pc)) e = true).
Proof.
  intros ivar nos call pc s pts m Hl Hinv Hd Hm Ha Hps r s'.
  pose proof (Sim_write ivar nos pc pts Hl s (abs_st ivar nos s) (Rel_abs ivar nos s Hinv)) as H.
  destruct (do_write (abs_cfg pc) (abs_st ivar nos s) pts) as [[st' e] o] eqn:E. destruct H as (R & T & O).
  destruct (write_replays call (abs_cfg pc) (abs_st ivar nos s) pts m Hd Hm Ha Hps st' e o E)
    as [(Hb & -> & -> & ->)|(Hb & -> & m' & ev & Hrun & Herr & Hcol & Hsh & _ & Hnd)].
  - left. split; [exact Hb|]. fold r s' in O, T. split.
    + destruct r as [u|x]; cbn in O; [contradiction|]. destruct x; try discriminate; reflexivity.
    + fold s' in T. rewrite T. cbn. now rewrite app_nil_r.
  - right. split; [exact Hb|]. fold r s' in O, T, R. split.
    + destruct r as [[]|x]; cbn in O; [reflexivity|contradiction].
    + exists e, m', ev. repeat split; try assumption. rewrite Hsh. exact (r_sh _ _ _ _ R).
Qed.
Print Assumptions SRC_C01_replay.

(* ---------------- the hypotheses are satisfiable, and a concrete session ---------------- *)
Fixpoint enc (s : string) : N :=
  match s with EmptyString => 0%N | String a r => (N_of_ascii a + 1 + 257 * enc r)%N end.
Definition ivar0 (s : string) : N := enc (lower s).

Lemma enc_cons : forall a r, enc (String a r) = (N_of_ascii a + 1 + 257 * enc r)%N.
Proof. reflexivity. Qed.

Lemma enc_inj : forall a b, enc a = enc b -> a = b.
Proof.
  induction a as [|x a IH]; intros [|y b] H; rewrite ?enc_cons in H.
  - reflexivity.
  - exfalso. change (enc EmptyString) with 0%N in H. lia.
  - exfalso. change (enc EmptyString) with 0%N in H. lia.
  - pose proof (N_ascii_bounded x). pose proof (N_ascii_bounded y).
    assert (N_of_ascii x = N_of_ascii y /\ enc a = enc b) as [E1 E2] by lia.
    f_equal; [|now apply IH]. rewrite <- (ascii_N_embedding x), <- (ascii_N_embedding y). now rewrite E1.
Qed.

Theorem SRC_interner_exists : interner ivar0 /\ injective (fun n => n).
Proof.
  split; [|intros a b H; exact H]. intros a b. unfold ivar0. split; [apply enc_inj|intros ->; reflexivity].
Qed.
Print Assumptions SRC_interner_exists.

(* with PGMCompiler(aerotech_angle=2, home=True, ...) as G: G.dvar(['I']); with G.for_loop('i', 2): with G.repeat(3):
   G.write(path); raise ...  -  the translated source writes a file, and it is the model's *)
Local Open Scope string_scope.
Local Open Scope list_scope.
Example SRC_example :
  let pc := {| laser := "Pharos"; output_digits := 6; long_pause := Some (1 # 2); short_pause := Some (1 # 10);
               PgmState.speed_pos := 5; PgmState.home := true; aerotech_angle := 2; rotation_angle := 0; tcf := neutral |} in
  let path := [ {| px := 0; py := 0; pz := 0; pf := 5; ps := 0 |}; {| px := 0; py := 0; pz := 0; pf := 1; ps := 1 |};
                {| px := 1; py := 0; pz := 0; pf := 1; ps := 1 |}; {| px := 1; py := 0; pz := 0; pf := 1; ps := 0 |} ] in
  let ops := [PDvar ["I"]; PFor (Some "i") (Some 2%Z) [PRepeat (Some 3%Z) [PWrite path; PShutter "On"; PRaise; PGoOrigin]]] in
  Forall (wf_pop ivar0 (fun n => n)) ops /\
  match src_session ivar0 pc ops with
  | Written file d (Raised 3%N) => (30 <=? Z.of_nat (List.length file))%Z && negb (existsb (fun t => match t with TUnknown => true | _ => false end) file)
  | _ => false
  end = true.
Proof.
  split.
  - repeat constructor; cbn; try discriminate; auto.
  - vm_compute. reflexivity.
Qed.
Print Assumptions SRC_example.
