(* Target language of the source translator (harness/py2coq.py): what a translated method of
   femto.pgmcompiler.PGMCompiler is written in.

   - an exception + state monad over the compiler's mutable attributes (state survives a raise: Python mutation is
     not rolled back),
   - structured instruction lines (an f-string becomes the list of its literal and interpolated pieces),
   - overloaded primitives for Python's  ==, truthiness, `is None`, `in`, len, str()  resolved by Coq's type classes,
     so the translator needs no type inference: an ill-typed translation is rejected by coqc (fail closed).

   Modelling decisions (trusted, listed in DESIGN.md section 6):
   floats are exact rationals; `a += b` on the dwell total is Qred (a + b) (hence all totals are canonical);
   np.fabs = Qabs; math.isfinite is true (non-finite values are outside Q: property C10 covers them);
   zip_longest over the equally long per-point lists is zip. *)
From Coq Require Import List Bool ZArith NArith QArith Qabs Qround String Ascii.
Import ListNotations.
From Femto Require Import Base.Num Ctl.Tok.

(* ---------------- monad ---------------- *)
Inductive exn := EValue | EFileNotFound | EUser | EType | EIndex | EKey.
Inductive R (A : Type) := Ret (a : A) | Exc (e : exn).
Arguments Ret {A} a. Arguments Exc {A} e.

Section Monad.
Context {S : Type}.
Definition M (A : Type) : Type := S -> R A * S.
Definition ret {A} (a : A) : M A := fun s => (Ret a, s).
Definition raise {A} (e : exn) : M A := fun s => (Exc e, s).
Definition bind {A B} (m : M A) (k : A -> M B) : M B :=
  fun s => match m s with (Ret a, s1) => k a s1 | (Exc e, s1) => (Exc e, s1) end.
Definition get : M S := fun s => (Ret s, s).
Definition modify (f : S -> S) : M unit := fun s => (Ret tt, f s).
(* try: body finally: fin   (fin runs in both cases; an exception of fin replaces the pending one) *)
Definition try_finally {A} (body : M A) (fin : M unit) : M A :=
  fun s => match body s with
           | (Ret a, s1) => match fin s1 with (Ret _, s2) => (Ret a, s2) | (Exc e, s2) => (Exc e, s2) end
           | (Exc e, s1) => match fin s1 with (Ret _, s2) => (Exc e, s2) | (Exc e', s2) => (Exc e', s2) end
           end.
(* for a in l: x = f a x *)
Fixpoint for_each {A X} (l : list A) (x : X) (f : A -> X -> M X) : M X :=
  match l with [] => ret x | a :: r => bind (f a x) (fun x' => for_each r x' f) end.
(* [f a for a in l]  with f raising *)
Fixpoint mapM {A B} (f : A -> M B) (l : list A) : M (list B) :=
  match l with [] => ret [] | a :: r => bind (f a) (fun b => bind (mapM f r) (fun bs => ret (b :: bs))) end.
End Monad.

Notation "x <- m ;; k" := (bind m (fun x => k)) (at level 61, m at next level, right associativity).
Notation "m ;;; k" := (bind m (fun _ => k)) (at level 61, right associativity).

(* ---------------- instruction lines ---------------- *)
Inductive piece :=
| PL (s : string)                       (* literal text of the f-string *)
| PV (s : string)                       (* interpolated str *)
| PI (z : Z)                            (* interpolated int *)
| PIpad (w : nat) (z : Z)               (* {z:0<w>} : zero-padded int *)
| PR (q : Q)                            (* interpolated float, printed by repr *)
| PF (d : Z) (q : Q)                    (* {q:.<d>f} *)
| PN (n : N)                            (* interpolated file name (interned by the lexer) *)
| PP (str name : N)                     (* interpolated pathlib.Path: its str() and its .name *)
| PRaw (t : tok)                        (* a whole line of user text given to instruction(); t identifies it *)
| PSub (l : list piece)                 (* interpolated str that was itself built from pieces *)
| PJoin (sep : string) (ls : list (list piece))   (* sep.join(ls) *)
| PHeader (laser : string)              (* the lines of utils/header_<laser>.txt *)
| PDvars (vs : list string).            (* '$a $b ...' built by dvar() *)
Definition line := list piece.

(* a path as pathlib decomposes it (the decomposition itself is an oracle: harness/c03.py does it with pathlib) *)
Record ppath := { pp_str : N; pp_name : N; pp_stem : N; pp_pgm : bool (* suffix is exactly '.pgm' *) }.

(* ---------------- overloaded Python primitives ---------------- *)
Class PyEq (A B : Type) := pyeq : A -> B -> bool.
Global Instance pyeq_str : PyEq string string := String.eqb.
Global Instance pyeq_Z : PyEq Z Z := Z.eqb.
Global Instance pyeq_N : PyEq N N := N.eqb.
Global Instance pyeq_Q : PyEq Q Q := Qeq_bool.
Global Instance pyeq_bool : PyEq bool bool := Bool.eqb.
Fixpoint list_pyeq {A} (e : A -> A -> bool) (a b : list A) : bool :=
  match a, b with [], [] => true | x :: r, y :: s => e x y && list_pyeq e r s | _, _ => false end.
Global Instance pyeq_list {A} `{PyEq A A} : PyEq (list A) (list A) := list_pyeq pyeq.
(* a value compared with a variable that may still hold None *)
Global Instance pyeq_opt_r {A} `{PyEq A A} : PyEq A (option A) :=
  fun a b => match b with Some b' => pyeq a b' | None => false end.
Definition pyne {A B} `{PyEq A B} (a : A) (b : B) : bool := negb (pyeq a b).

Class Truthy (A : Type) := truthy : A -> bool.
Global Instance truthy_bool : Truthy bool := fun b => b.
Global Instance truthy_Q : Truthy Q := fun q => negb (Qeq_bool q 0).
Global Instance truthy_Z : Truthy Z := fun z => negb (Z.eqb z 0).
Global Instance truthy_str : Truthy string := fun s => negb (String.eqb s "").
Global Instance truthy_list {A} : Truthy (list A) := fun l => match l with [] => false | _ => true end.
Global Instance truthy_nat : Truthy nat := fun n => match n with O => false | _ => true end.

Class NoneTest (A : Type) := is_none : A -> bool.
Global Instance none_opt {A} : NoneTest (option A) := fun o => match o with None => true | Some _ => false end.
Global Instance none_Q : NoneTest Q := fun _ => false.
Global Instance none_Z : NoneTest Z := fun _ => false.
Global Instance none_str : NoneTest string := fun _ => false.

Definition py_in {A} `{PyEq A A} (a : A) (l : list A) : bool := existsb (pyeq a) l.
Definition py_len {A} (l : list A) : Z := Z.of_nat (List.length l).

(* str.lower / str.upper on ASCII *)
Definition lower_ascii (c : ascii) : ascii :=
  let n := nat_of_ascii c in if (Nat.leb 65 n && Nat.leb n 90)%bool then ascii_of_nat (n + 32) else c.
Fixpoint lower (s : string) : string :=
  match s with EmptyString => EmptyString | String c r => String (lower_ascii c) (lower r) end.

(* interpolation into an f-string *)
Class ToPiece (A : Type) := to_piece : A -> piece.
Global Instance tp_str : ToPiece string := PV.
Global Instance tp_Z : ToPiece Z := PI.
Global Instance tp_Q : ToPiece Q := PR.
Global Instance tp_line : ToPiece line := PSub.
Global Instance tp_path : ToPiece ppath := fun p => PP (pp_str p) (pp_name p).

(* numbers *)
Definition fadd (a b : Q) : Q := Qred (a + b).          (* `+=` on the running dwell total *)
Definition q_of_Z (z : Z) : Q := inject_Z z.
Definition pow10_neg (d : Z) : Q := 1 / inject_Z (pow10 d).     (* 10 ** (-d) *)
Definition float_of_fixed (d : Z) (q : Q) : Z := fmt d q.       (* float(f'{q:.{d}f}') : the printed value *)
Definition qlt (a b : Q) : bool := negb (Qle_bool b a).

Fixpoint zip3 {A B C} (a : list A) (b : list B) (c : list C) : list (A * B * C) :=
  match a, b, c with x :: r, y :: s, z :: t => (x, y, z) :: zip3 r s t | _, _, _ => [] end.
Fixpoint zip4 {A B C D} (a : list A) (b : list B) (c : list C) (d : list D) : list (A * B * C * D) :=
  match a, b, c, d with x :: r, y :: s, z :: t, w :: u => (x, y, z, w) :: zip4 r s t u | _, _, _, _ => [] end.
Fixpoint zip2 {A B} (a : list A) (b : list B) : list (A * B) :=
  match a, b with x :: r, y :: s => (x, y) :: zip2 r s | _, _ => [] end.
(* zip(a, b, c) consumed through a single name and iterated: each element as a list *)
Definition zip3l {A} (a b c : list A) : list (list A) := map (fun t => let '(x, y, z) := t in [x; y; z]) (zip3 a b c).

Fixpoint remove_first {A} (e : A -> A -> bool) (x : A) (l : list A) : list A :=
  match l with [] => [] | y :: r => if e x y then r else y :: remove_first e x r end.
Definition somes {A} (l : list (option A)) : list A :=
  flat_map (fun o => match o with Some a => [a] | None => [] end) l.

Global Instance tp_N : ToPiece N := PN.

Definition nl : string := String (Ascii false true false true false false false false) EmptyString.   (* "\n" *)

Class OfInt (A : Type) := of_int : Z -> A.
Global Instance ofint_Z : OfInt Z := fun z => z.
Global Instance ofint_Q : OfInt Q := inject_Z.

Class ToInt (A : Type) := to_int : A -> Z.
Global Instance toint_Z : ToInt Z := fun z => z.
Class ToFloat (A : Type) := to_float : A -> Q.
Global Instance tofloat_Q : ToFloat Q := fun q => q.
Global Instance tofloat_Z : ToFloat Z := inject_Z.

Class AsOpt (A B : Type) := as_opt : A -> option B.
Global Instance asopt_val {B} : AsOpt B B := Some.
Global Instance asopt_opt {B} : AsOpt (option B) B := fun o => o.

Class PyAdd (A B C : Type) := pyadd : A -> B -> C.
Global Instance add_Z : PyAdd Z Z Z := Z.add.
Global Instance add_Q : PyAdd Q Q Q := Qplus.
Global Instance add_line_str : PyAdd line string line := fun l s => (l ++ [PL s])%list.
Class PySub (A B C : Type) := pysub : A -> B -> C.
Global Instance sub_Z : PySub Z Z Z := Z.sub.
Global Instance sub_Q : PySub Q Q Q := Qminus.
Class PyMul (A B C : Type) := pymul : A -> B -> C.
Global Instance mul_Z : PyMul Z Z Z := Z.mul.
Global Instance mul_Q : PyMul Q Q Q := Qmult.
Global Instance mul_ZQ : PyMul Z Q Q := fun z q => Qmult (inject_Z z) q.
(* float % int for a non-negative modulus: q - floor(q/m)*m *)
Class PyMod (A B C : Type) := pymod : A -> B -> C.
Global Instance mod_QZ : PyMod Q Z Q := fun q m => (q - inject_Z (Qfloor (q / inject_Z m)) * inject_Z m)%Q.
Global Instance mod_QQ : PyMod Q Q Q := fun q m => (q - inject_Z (Qfloor (q / m)) * m)%Q.
Class PyNeg (A : Type) := pyneg : A -> A.
Global Instance neg_Z : PyNeg Z := Z.opp.
Global Instance neg_Q : PyNeg Q := Qopp.

Class PyOrd (A : Type) := { pylt : A -> A -> bool; pyle : A -> A -> bool }.
Global Instance ord_Z : PyOrd Z := {| pylt := Z.ltb; pyle := Z.leb |}.
Global Instance ord_Q : PyOrd Q := {| pylt := qlt; pyle := Qle_bool |}.

(* str.endswith on a line: the text of its last literal piece *)
Fixpoint str_endswith (s suf : string) : bool :=
  if String.eqb s suf then true else match s with EmptyString => false | String _ r => str_endswith r suf end.
Definition py_endswith (l : line) (suf : string) : bool :=
  match rev l with PL s :: _ => str_endswith s suf | _ => false end.

(* ---- arithmetic used by the small pure methods (PureSrc.v) ---- *)
Class PyDiv (A B C : Type) := pydiv : A -> B -> C.
Global Instance div_QZ : PyDiv Q Z Q := fun q z => (q / inject_Z z)%Q.
Global Instance div_QQ : PyDiv Q Q Q := Qdiv.
Class PyFloorDiv (A B C : Type) := pyfloordiv : A -> B -> C.
Global Instance fdiv_Z : PyFloorDiv Z Z Z := Z.div.
Global Instance mod_ZZ : PyMod Z Z Z := Z.modulo.
Class PyAbs (A : Type) := pyabs : A -> A.
Global Instance abs_Z : PyAbs Z := Z.abs.
Global Instance abs_Q : PyAbs Q := Qabs.
(* range(a, b) *)
Definition zrange (a b : Z) : list Z := map (fun k => (a + Z.of_nat k)%Z) (seq 0 (Z.to_nat (b - a))).

(* enumerate(l) *)
Fixpoint enum_from {A} (k : Z) (l : list A) : list (Z * A) :=
  match l with [] => [] | a :: r => (k, a) :: enum_from (k + 1) r end.
Definition enumerate_ {A} (l : list A) : list (Z * A) := enum_from 0 l.
(* a list consumed by `while lst: x = lst.pop(0); ...` *)
Definition drained {A} (l : list A) : list A := [].

(* itertools.product(a, b) *)
Definition product_ {A B} (a : list A) (b : list B) : list (A * B) := flat_map (fun x => map (fun y => (x, y)) b) a.
