(* Trench.toolpath as translated from the source in its length view (SrcRt.v, re-generated from /repo on every run): what a
   generation of the tool-path leaves in self._wall_length / self._floor_length - and whether it raises - does not depend on what
   the two attributes held before, for every geometry oracle, block and number of insets.  Hence generating the tool-path a
   second time (or after any history of earlier generations) leaves the same lengths as the first time
   (SRC_C09_toolpath_lengths_repeat / _history): floor_length, wall_length and the fabrication-time estimates computed from
   them do not grow with the number of traversals. *)
From Coq Require Import List Bool ZArith QArith.
Import ListNotations.
From Femto Require Import Trench.Toolpath.
From FemtoTie Require Import PyPrelude TrState RtState SrcRt.

(* the method restarts both lengths before it reads either *)
Theorem SRC_C09_toolpath_lengths_state_independent : forall (Poly : Type) (G : geom Poly) (c : tr_cfg Poly) (s1 s2 : rt_state Poly),
  src_toolpath_len G c s1 = src_toolpath_len G c s2.
Proof. intros Poly G c s1 s2. unfold src_toolpath_len. unfold bind at 1. unfold rt_set_wall at 1. cbv iota beta.
  unfold bind at 1. unfold rt_set_floor at 1. cbv iota beta. cbn [wall floor].
  symmetry. unfold bind at 1. unfold rt_set_wall at 1. cbv iota beta.
  unfold bind at 1. unfold rt_set_floor at 1. cbv iota beta. cbn [wall floor]. reflexivity. Qed.

Definition gen {Poly} (G : geom Poly) (c : tr_cfg Poly) (s : rt_state Poly) : rt_state Poly := snd (src_toolpath_len G c s).

Theorem SRC_C09_toolpath_lengths_repeat : forall (Poly : Type) (G : geom Poly) (c : tr_cfg Poly) (s : rt_state Poly),
  gen G c (gen G c s) = gen G c s.
Proof. intros. unfold gen. apply f_equal. apply SRC_C09_toolpath_lengths_state_independent. Qed.

Theorem SRC_C09_toolpath_lengths_history : forall (Poly : Type) (G : geom Poly) (c : tr_cfg Poly) (n : nat) (s s' : rt_state Poly),
  gen G c (Nat.iter n (gen G c) s) = gen G c s'.
Proof. intros. unfold gen at 1 3. apply f_equal. apply SRC_C09_toolpath_lengths_state_independent. Qed.

(* not vacuous: a block with one inset ring and a remaining core that is hatched - both lengths are rebuilt from the constant *)
Example SRC_C09_toolpath_lengths_example :
  let G := {| g_is_empty := fun p : nat => Nat.eqb p 0; g_inset := fun p => match p with 5%nat => [3%nat] | _ => [] end; g_hatch := fun p => p |} in
  gen G {| tr_block := 5%nat; tr_num_insets := 1 |} {| wall := LLen 77%nat; floor := LAdd (LConst 9) (LLen 78%nat) |}
  = {| wall := LLen 5%nat; floor := LZig (LAdd (LConst (0 # 1)) (LLen 5%nat)) 3%nat |}.
Proof. reflexivity. Qed.

Print Assumptions SRC_C09_toolpath_lengths_state_independent.
Print Assumptions SRC_C09_toolpath_lengths_repeat.
Print Assumptions SRC_C09_toolpath_lengths_history.
