(* What the translated RasterImage.image_to_path (SrcRi.v, generated) is written over: the image as PIL hands it over after
   conversion to mode '1' (its size and its boolean matrix, True = white: the conversion itself is an oracle), the recorded
   trajectory as the state, add_path as the zip of its five arrays (its guard: SrcAp.v / EquivAp.v), numpy's linspace / ones_like
   on exact rationals, and helpers.split_mask as translated in SrcUf.v, run on 1-d arrays.  Trusted (DESIGN.md section 6). *)
From Coq Require Import List Bool ZArith QArith.
Import ListNotations.
From Femto Require Import Base.Runs Path.Raster.
From FemtoTie Require Import PyPrelude NpState SrcUf.

Record image := { im_size : Z * Z; im_matrix : list (list bool) }.
Record ri_cfg := { ri_px_to_mm : Q; ri_z_init : Q; ri_speed : Q; ri_speed_closed : Q }.
Definition MR : Type -> Type := @M (list rpt).

(* np.linspace(0, stop, num=n, endpoint=True) *)
Definition np_linspace0 (stop : Q) (n : Z) : list Q := grid stop (Z.to_nat n).
(* v * np.ones_like(a) *)
Definition np_fill (v : Q) (a : list Q) : list Q := map (fun _ => v) a.
(* x or 0.0 *)
Definition py_or0 (x : Q) : Q := if truthy x then x else 0.

(* split_mask(arr, mask) on 1-d arrays: the function translated from helpers.py (SrcUf.v), whatever the state of the path *)
Definition split_mask_1d (arr : list Q) (mask : list bool) : MR (list (list Q)) :=
  fun s => match src_split_mask (Build_lv_cfg Q (A1 []) (A1 []) (A1 []) (A1 []) (A1 [])) (A1 arr) (A1 mask) tt with
           | (Ret parts, _) => (Ret (map nd_flat parts), s)
           | (Exc e, _) => (Exc e, s)
           end.

(* add_path(x, y, z, f, s): one recorded point per entry (the arrays are equally long) *)
Fixpoint zip_pts (x y z f s : list Q) : list rpt :=
  match x, y, z, f, s with
  | a :: x', b :: y', c :: z', d :: f', e :: s' =>
      {| rx := a; ry := b; rz := c; rf := d; rs := negb (Qeq_bool e 0) |} :: zip_pts x' y' z' f' s'
  | _, _, _, _, _ => []
  end.
Definition rp_add_path (x y z f s : list Q) : MR unit := modify (fun p => p ++ zip_pts x y z f s).
