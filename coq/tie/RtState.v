(* State for the *length view* of Trench.toolpath (SrcRt.v, generated): the same method as SrcTr.v, read for what it leaves in
   self._wall_length / self._floor_length (C09: the lengths - and the fabrication-time estimates built on them - must not depend on
   how often the tool-path was generated).  Lengths are symbolic terms, so nothing is assumed about float addition; Trench.zigzag,
   which adds one term per hatch line to self._floor_length, is the opaque accumulator LZig; yields are dropped (they are SrcTr.v's
   subject). *)
From Coq Require Import List Bool ZArith QArith.
Import ListNotations.
From Femto Require Import Trench.Toolpath.
From FemtoTie Require Import PyPrelude TrState.

Inductive ltm (Poly : Type) :=
| LConst (q : Q) | LLen (p : Poly)                  (* a float constant; <polygon>.length *)
| LAdd (a b : ltm Poly)                             (* a + b *)
| LZig (acc : ltm Poly) (p : Poly).                 (* acc after zigzag(p.buffer(1.05 delta_floor)) has added its lines to it *)
Arguments LConst {Poly}. Arguments LLen {Poly}. Arguments LAdd {Poly}. Arguments LZig {Poly}.

Record rt_state (Poly : Type) := { wall : ltm Poly; floor : ltm Poly }.
Arguments wall {Poly}. Arguments floor {Poly}.
Definition ML (Poly : Type) : Type -> Type := @M (rt_state Poly).

Definition rt_set_wall {Poly} (t : ltm Poly) : ML Poly unit := fun s => (Ret tt, {| wall := t; floor := floor s |}).
Definition rt_set_floor {Poly} (t : ltm Poly) : ML Poly unit := fun s => (Ret tt, {| wall := wall s; floor := t |}).
Definition rt_add_floor {Poly} (t : ltm Poly) : ML Poly unit := fun s => (Ret tt, {| wall := wall s; floor := LAdd (floor s) t |}).
(* hatching = self.zigzag(p.buffer(1.05 * self.delta_floor)): the value (SrcTr.v's reading) and the side effect on the floor length *)
Definition rt_zigzag {Poly} (G : geom Poly) (p : Poly) : ML Poly (Poly * nat) :=
  fun s => (Ret (p, g_hatch G p), {| wall := wall s; floor := LZig (floor s) p |}).
Definition emit_yield {Poly A} (a : A) : ML Poly unit := ret tt.
