(* helpers.flatten and helpers.nest_level as translated from /repo's helpers.py (SrcHl.v; the recursive call is the parameter
   rec__) against flat / nest_i of the routing model Writers/Device.v: the model function satisfies the source's recursive
   definition, and it is the only function that does - so the python function, which terminates on every finitely nested list
   because each call descends into a strictly smaller list, computes flat / nest_level and never raises. *)
From Coq Require Import List Bool ZArith NArith Lia.
Import ListNotations.
From Femto Require Import Writers.Device.
From FemtoTie Require Import PyPrelude AeState SrcHl.

Fixpoint isz (it : item) : nat :=
  match it with
  | Obj _ _ => 1
  | Grp l => S ((fix ls (l : list item) : nat := match l with [] => 0 | x :: r => isz x + ls r end) l)
  end.
Fixpoint lsz (l : list item) : nat := match l with [] => 0 | x :: r => isz x + lsz r end.
Lemma isz_grp : forall l, isz (Grp l) = S (lsz l).
Proof. reflexivity. Qed.
Lemma isz_pos : forall it, 1 <= isz it.
Proof. intros [k i|l]; [cbn; lia|rewrite isz_grp; lia]. Qed.

Lemma flat_i_grp : forall l, flat_i (Grp l) = flat l.
Proof. intros l. cbn [flat_i]. induction l as [|x r IH]; [reflexivity|]. cbn [flat]. now rewrite <- IH. Qed.

(* ---- flatten ---- *)
Lemma flatten_loop : forall (rec : list item -> MI (list item)) n,
  (forall g s, lsz g <= n -> rec g s = (Ret (flat g), s)) ->
  forall l acc s, lsz l <= S n ->
  for_each l acc (fun x flat => if is_grp x then rec__1 <- rec (as_list x) ;; (let flat := (flat ++ rec__1)%list in ret flat)
                                else let flat := (flat ++ [x])%list in ret flat) s
  = (Ret (acc ++ flat l), s).
Proof.
  intros rec n Hrec. induction l as [|x r IH]; intros acc s Hl.
  - cbn [for_each flat]. now rewrite app_nil_r.
  - cbn [for_each flat]. cbn [lsz] in Hl. pose proof (isz_pos x) as Hx. unfold bind at 1. destruct x as [k i|g]; cbn [is_grp as_list].
    + cbn [ret flat_i]. rewrite IH by lia. now rewrite <- app_assoc.
    + rewrite isz_grp in Hl. unfold bind at 1. rewrite Hrec by lia. cbn [ret]. rewrite IH by lia. rewrite flat_i_grp. now rewrite <- app_assoc.
Qed.

(* the model's flat satisfies the recursive definition in helpers.py *)
Theorem SRC_C16_flatten_fixpoint : forall l s, src_flatten (fun g => ret (flat g)) tt l s = (Ret (flat l), s).
Proof.
  intros l s. unfold src_flatten. unfold bind at 1.
  rewrite (flatten_loop (fun g => ret (flat g)) (lsz l)); [reflexivity| reflexivity | lia].
Qed.
Print Assumptions SRC_C16_flatten_fixpoint.

(* ... and any function that satisfies it is flat: a new list of the leaves in order, no exception, the state untouched *)
Theorem SRC_C16_flatten_unique : forall rec : list item -> MI (list item),
  (forall l s, rec l s = src_flatten rec tt l s) -> forall l s, rec l s = (Ret (flat l), s).
Proof.
  intros rec Hfix. assert (H : forall n l s, lsz l <= n -> rec l s = (Ret (flat l), s)).
  { induction n as [|n IH]; intros l s Hl.
    - destruct l as [|x r]; [|cbn [lsz] in Hl; pose proof (isz_pos x); lia]. rewrite Hfix. reflexivity.
    - rewrite Hfix. unfold src_flatten. unfold bind at 1. rewrite (flatten_loop rec n); [reflexivity| |exact Hl].
      intros g s' Hg. apply IH. exact Hg. }
  intros l s. apply (H (lsz l)). lia.
Qed.
Print Assumptions SRC_C16_flatten_unique.

(* ---- nest_level ---- *)
Fixpoint mx (l : list item) : nat := match l with [] => 0%nat | x :: r => Nat.max (nest_i x) (mx r) end.
Lemma nest_grp : forall l, nest_i (Grp l) = S (mx l).
Proof. reflexivity. Qed.

Lemma mapM_rec : forall (rec : item -> MI Z) (f : item -> Z) l s,
  (forall x, In x l -> forall s', rec x s' = (Ret (f x), s')) ->
  mapM (fun item => rec__1 <- rec item ;; ret rec__1) l s = (Ret (map f l), s).
Proof.
  intros rec f l s. induction l as [|x r IH]; intros H; [reflexivity|].
  cbn [mapM map]. unfold bind at 1. unfold bind at 1. rewrite (H x (or_introl eq_refl)). cbn [ret].
  unfold bind at 1. rewrite IH by (intros y Hy; apply H; right; exact Hy). reflexivity.
Qed.

Lemma fold_max : forall r a, (0 <= a)%Z ->
  fold_left Z.max (map (fun x => Z.of_nat (nest_i x)) r) a = Z.max a (Z.of_nat (mx r)).
Proof.
  induction r as [|x r IH]; intros a Ha; cbn [map fold_left mx]; [lia|]. rewrite IH by lia. lia.
Qed.

Lemma nest_body : forall (rec : item -> MI Z) lst s,
  (forall x, In x (as_list lst) -> forall s', rec x s' = (Ret (Z.of_nat (nest_i x)), s')) ->
  src_nest_level rec tt lst s = (Ret (Z.of_nat (nest_i lst)), s).
Proof.
  intros rec lst s H. unfold src_nest_level. destruct lst as [k i|[|x r]]; cbn [is_grp negb]; [reflexivity|reflexivity|].
  change (truthy (Grp (x :: r))) with true. cbn [negb]. unfold bind at 1.
  rewrite (mapM_rec rec (fun x => Z.of_nat (nest_i x)) _ s H). cbn [as_list map max_of]. unfold bind at 1. cbn [ret].
  rewrite fold_max by lia. rewrite nest_grp. cbn [mx]. unfold pyadd, add_Z, of_int, ofint_Z, ret. f_equal. f_equal. lia.
Qed.

Theorem SRC_C16_nest_level_fixpoint : forall lst s,
  src_nest_level (fun it => ret (Z.of_nat (nest_i it))) tt lst s = (Ret (Z.of_nat (nest_i lst)), s).
Proof. intros lst s. apply nest_body. reflexivity. Qed.
Print Assumptions SRC_C16_nest_level_fixpoint.

Lemma in_lsz : forall x l, In x l -> isz x <= lsz l.
Proof. intros x l. induction l as [|y r IH]; intros H; [contradiction|]. cbn [lsz]. destruct H as [->|H]; [lia|]. specialize (IH H). lia. Qed.

Theorem SRC_C16_nest_level_unique : forall rec : item -> MI Z,
  (forall it s, rec it s = src_nest_level rec tt it s) -> forall it s, rec it s = (Ret (Z.of_nat (nest_i it)), s).
Proof.
  intros rec Hfix. assert (H : forall n it s, isz it <= n -> rec it s = (Ret (Z.of_nat (nest_i it)), s)).
  { induction n as [|n IH]; intros it s Hn; [pose proof (isz_pos it); lia|].
    rewrite Hfix. apply nest_body. intros x Hx s'. apply IH.
    destruct it as [k i|l]; [contradiction|]. cbn [as_list] in Hx. rewrite isz_grp in Hn. pose proof (in_lsz x l Hx). lia. }
  intros it s. apply (H (isz it)). lia.
Qed.
Print Assumptions SRC_C16_nest_level_unique.
