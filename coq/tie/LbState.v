(* What the translated LaserPath.init_point / start / end / linear (SrcLb.v, generated) are written over: the five recorded arrays
   as the state (exact rationals; the float32 storage is the correspondence's subject), add_path as "append the five arrays, refusing
   a feed that is not positive" (its own translation and guard: SrcAp.v / EquivAp.v), one-element numpy arrays read as lists.
   Trusted (DESIGN.md section 6). *)
From Coq Require Import List Bool ZArith QArith String.
Import ListNotations.
From Femto Require Import Path.Laser.
From FemtoTie Require Import PyPrelude.

Record lb_cfg := { lb_x_init : Q; lb_y_init : Q; lb_z_init : option Q; lb_speed : Q; lb_speed_pos : Q; lb_speed_closed : Q; lb_warp_flag : bool }.
Record lb_st := { lb__x : list Q; lb__y : list Q; lb__z : list Q; lb__f : list Q; lb__s : list Q }.
Definition ML : Type -> Type := @M lb_st.
Definition lb_s0 : lb_st := {| lb__x := []; lb__y := []; lb__z := []; lb__f := []; lb__s := [] |}.

(* add_path(x, y, z, f, s) *)
Definition lb_add_path (x y z f s : list Q) : ML unit :=
  fun st => if forallb (fun v => negb (Qle_bool v 0)) f
            then (Ret tt, {| lb__x := lb__x st ++ x; lb__y := lb__y st ++ y; lb__z := lb__z st ++ z; lb__f := lb__f st ++ f; lb__s := lb__s st ++ s |})
            else (Exc EValue, st).

(* the recorded points *)
Fixpoint zip5 (x y z f s : list Q) : list lpt :=
  match x, y, z, f, s with
  | a :: x', b :: y', c :: z', d :: f', e :: s' => mk (a, b, c) d (negb (Qeq_bool e 0)) :: zip5 x' y' z' f' s'
  | _, _, _, _, _ => []
  end.
Definition path_of (st : lb_st) : list lpt := zip5 (lb__x st) (lb__y st) (lb__z st) (lb__f st) (lb__s st).

(* ---- linear(): one-element numpy arrays read as their element; the square root kept as its radicand ---- *)
Inductive sqrtv := SqrtOf (radicand : Q).
(* sqrt(r) <= c  for a constant c >= 0 *)
Definition sqrt_le (v : sqrtv) (c : Q) : bool := let 'SqrtOf r := v in Qle_bool r (c * c).
Definition sq (q : Q) : Q := q * q.
(* k or 0 *)
Definition or0 (o : option Q) : Q := match o with Some v => if truthy v then v else 0 | None => 0 end.
(* an array handed to add_path: a scalar (one-element array) or an array *)
Class AsVec (A : Type) := as_vec : A -> list Q.
Global Instance asvec_Q : AsVec Q := fun q => [q].
Global Instance asvec_list : AsVec (list Q) := fun l => l.
(* v * np.ones_like(a) *)
Class FillLike (A : Type) := fill_like : Q -> A -> A.
Global Instance fill_Q : FillLike Q := fun v _ => v.
Global Instance fill_list : FillLike (list Q) := fun v l => map (fun _ => v) l.
(* np.linspace(a, b, num) *)
Definition np_linspace (a b : Q) (num : Z) : list Q :=
  match Z.to_nat num with
  | O => []
  | S O => [a]
  | S n => map (fun i => a + inject_Z (Z.of_nat i) * ((b - a) / inject_Z (Z.of_nat n))) (seq 0 (S n))
  end.
Global Instance tofloat_Z_lb : ToFloat Z := inject_Z.

(* num_subdivisions(l_curve, speed) of a length given as a square root: not used when warp_flag is False; an oracle otherwise *)
Definition lb_num_sub (c : lb_cfg) (l : sqrtv) (speed : Q) : ML Z := ret 3%Z.
