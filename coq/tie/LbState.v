(* What the translated LaserPath.init_point / start / end / linear (SrcLb.v, generated) are written over: the five recorded arrays
   as the state (exact rationals; the float32 storage is the correspondence's subject), add_path as "append the five arrays, refusing
   a feed that is not positive" (its own translation and guard: SrcAp.v / EquivAp.v), one-element numpy arrays read as lists.
   Trusted (DESIGN.md section 6). *)
From Coq Require Import List Bool ZArith QArith String.
Import ListNotations.
From Femto Require Import Path.Laser.
From FemtoTie Require Import PyPrelude.

Record lb_cfg := { lb_x_init : Q; lb_y_init : Q; lb_z_init : option Q; lb_speed : Q; lb_speed_pos : Q; lb_speed_closed : Q }.
Record lb_st := { lb__x : list Q; lb__y : list Q; lb__z : list Q; lb__f : list Q; lb__s : list Q }.
Definition ML : Type -> Type := @M lb_st.
Definition lb_s0 : lb_st := {| lb__x := []; lb__y := []; lb__z := []; lb__f := []; lb__s := [] |}.

(* add_path(x, y, z, f, s) *)
Definition lb_add_path (x y z f s : list Q) : ML unit :=
  fun st => if forallb (fun v => negb (Qle_bool v 0)) f
            then (Ret tt, {| lb__x := lb__x st ++ x; lb__y := lb__y st ++ y; lb__z := lb__z st ++ z; lb__f := lb__f st ++ f; lb__s := lb__s st ++ s |})
            else (Exc EValue, st).

(* the recorded points *)
Fixpoint zip5 (x y z f s : list Q) : list lpt :=
  match x, y, z, f, s with
  | a :: x', b :: y', c :: z', d :: f', e :: s' => mk (a, b, c) d (negb (Qeq_bool e 0)) :: zip5 x' y' z' f' s'
  | _, _, _, _, _ => []
  end.
Definition path_of (st : lb_st) : list lpt := zip5 (lb__x st) (lb__y st) (lb__z st) (lb__f st) (lb__s st).
