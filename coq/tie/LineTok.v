(* Reading the structured lines of the translated compiler (Gen/PyPrelude.v) as tokens of the reference controller's
   dialect (Ctl/Tok.v): the Coq-side counterpart of harness/lexer.py, one shape per f-string template of
   femto/pgmcompiler.py.  A line of any other shape is TUnknown (a controller error), so a change of a template that
   the table does not know breaks the equivalence proofs of Gen/PgmEquiv.v instead of passing silently. *)
From Coq Require Import List Bool ZArith NArith QArith Qabs String Ascii.
Import ListNotations.
From Femto Require Import Base.Num Ctl.Tok.
From FemtoTie Require Import PyPrelude.
Local Open Scope string_scope.

Section LineTok.
Context (ivar : string -> N).          (* interning of variable names (case-insensitive: see Gen/PgmEquiv.v) *)

Definition seqb := String.eqb.

(* 'X<v:.df>' items of _format_args, in the order X Y Z F *)
Definition item (l : list piece) : option (string * Z * Q) :=
  match l with [PL a; PF d q] => Some (a, d, q) | _ => None end.

Definition take (a : string) (its : list (string * Z * Q)) : option (Z * Q) * list (string * Z * Q) :=
  match its with
  | (b, d, q) :: r => if seqb a b then (Some (d, q), r) else (None, its)
  | [] => (None, [])
  end.

Fixpoint all_items (ls : list (list piece)) : option (list (string * Z * Q)) :=
  match ls with
  | [] => Some []
  | l :: r => match item l, all_items r with Some i, Some is => Some (i :: is) | _, _ => None end
  end.

Definition digits_of (its : list (string * Z * Q)) : Z :=
  match its with
  | [] => 0
  | (_, d, _) :: r => if forallb (fun i => Z.eqb (snd (fst i)) d) r then d else (-1)
  end.

Definition num (o : option (Z * Q)) : option Z := match o with Some (d, q) => Some (fmt d q) | None => None end.
Definition cnum (o : option (Z * Q)) : option coord := match o with Some (d, q) => Some (CNum (fmt d q)) | None => None end.

(* the argument string built by _format_args:  ' '.join(args) *)
Definition g1_of_args (args : list piece) : tok :=
  match args with
  | [PJoin sep ls] =>
      if seqb sep " " then
        match all_items ls with
        | Some its =>
            let '(x, r1) := take "X" its in
            let '(y, r2) := take "Y" r1 in
            let '(z, r3) := take "Z" r2 in
            let '(f, r4) := take "F" r3 in
            match r4 with
            | [] => TG1 false (digits_of its) (cnum x) (cnum y) (cnum z) None (num f)
            | _ => TUnknown
            end
        | None => TUnknown
        end
      else TUnknown
  | _ => TUnknown
  end.

Definition g92_of_args (args : list piece) : tok :=
  match g1_of_args args with
  | TG1 _ nd x y z _ None =>
      let n := fun c : option coord => match c with Some (CNum v) => Some v | _ => None end in
      TG92 nd (n x) (n y) (n z)
  | _ => TUnknown
  end.

Definition starts_with (pre s : string) : bool := String.prefix pre s.

(* the raw lines the trench writers hand to instruction(): the $ZCURR bookkeeping, the U axis, messages *)
Definition is_msg (l : line) : bool :=
  match l with PL s :: _ => starts_with "MSGDISPLAY" s || starts_with "MSGCLEAR" s | _ => false end.

Definition tok_of_line (l : line) : list tok :=
  if is_msg l then [TMsg] else
  match l with
  | [PL a; PF d q; PL b] =>
      if seqb b nl then
        if seqb a "G1 U" then [TG1 false d None None None (Some (fmt d q)) None]
        else if seqb a "$ZCURR = " then [TAssign (ivar "ZCURR") (ELit (fmt d q))]
        else if seqb a "$ZCURR = $ZCURR + " then [TAssign (ivar "ZCURR") (EPlus (ivar "ZCURR") (fmt d q))]
        else [TUnknown]
      else [TUnknown]
  | [PHeader las] => [TSetup; TPso (seqb las "ant") false; TMode true; TSetup]
  | [PRaw t; PL s] => if seqb s nl then [t] else [TUnknown]
  | [PL s] =>
      if seqb s nl || seqb s (nl ++ nl) then []
      else if seqb s ("ABSOLUTE" ++ nl) then [TMode true]
      else if seqb s ("INCREMENTAL" ++ nl) then [TMode false]
      else if seqb s ("G84 X Y" ++ nl) then [TG84 false]
      else if seqb s ("ENDREPEAT" ++ nl ++ nl) then [TEndRepeat]
      else if starts_with "MSGDISPLAY" s then [TMsg]
      else [TUnknown]
  | [PL a; PL b] =>
      if (seqb a nl || seqb a "") && seqb b nl then []
      else if seqb a "G1 Z$ZCURR" && seqb b nl then [TG1 false 0 None None (Some (CVar (ivar "ZCURR"))) None None]
      else [TUnknown]
  | [PL a; PV _; PL b] =>
      if seqb a (nl ++ "; ") && seqb b nl then []                                       (* comment *)
      else if seqb a "PSOCONTROL " then
        match l with
        | [_; PV ax; _] =>
            if seqb ax "X" || seqb ax "Z" then
              if seqb b (" ON" ++ nl) then [TPso (seqb ax "Z") true]
              else if seqb b (" OFF" ++ nl) then [TPso (seqb ax "Z") false] else [TUnknown]
            else [TUnknown]
        | _ => [TUnknown]
        end
      else if seqb a "NEXT $" && seqb b (nl ++ nl) then
        match l with [_; PV v; _] => [TNext (ivar v)] | _ => [TUnknown] end
      else [TUnknown]
  | [PL a; PSub [PDvars vs]; PL b] =>
      if seqb a "DVAR " && seqb b (nl ++ nl) then [TDvar (map ivar vs)] else [TUnknown]
  | [PL a; PR q; PL b] =>
      if seqb a "DWELL " && seqb b nl then [TDwell (Qred q)]
      else if seqb a "G84 X Y F" && seqb b (nl ++ nl) then [TG84 true]
      else [TUnknown]
  | [PL a; PSub args; PL b] =>
      if seqb a "G1 " && seqb b nl then [g1_of_args args]
      else if seqb a "G92 " && seqb b nl then [g92_of_args args]
      else [TUnknown]
  | [PSub args; PL b] => if seqb b nl then [g1_of_args args] else [TUnknown]
  | [PL a; PF d1 x; PL b; PF d2 y; PL c; PF d3 z; PL e; PF d4 f; PL g] =>                 (* the rotation line *)
      if seqb a "G1 X" && seqb b " Y" && seqb c " Z" && seqb e " F" && seqb g nl
         && Z.eqb d1 d2 && Z.eqb d2 d3 && Z.eqb d3 d4
      then [TG1 false d1 (Some (CNum (fmt d1 x))) (Some (CNum (fmt d2 y))) (Some (CNum (fmt d3 z))) None (Some (fmt d4 f))]
      else [TUnknown]
  | [PL a; PV v; PL b; PI n; PL c] =>
      if seqb a "FOR $" && seqb b " = 0 TO " && seqb c nl then [TFor (ivar v) 0 n] else [TUnknown]
  | [PL a; PI n; PL b] =>
      if seqb a "REPEAT " && seqb b nl then [TRepeat n]
      else if seqb a "PROGRAM " && seqb b (" STOP" ++ nl) then [TStop n]
      else if seqb a "WAIT (TASKSTATUS(" && seqb b (", DATAITEM_TaskState) == TASKSTATE_Idle) -1" ++ nl) then [TWait n]
      else [TUnknown]
  | [PL a; PI t; PL b; PP p nm; PL c] =>
      if seqb a "PROGRAM " && seqb c ("""" ++ nl) then
        if seqb b " LOAD """ then [TLoad t p nm]
        else if seqb b " BUFFEREDRUN """ then [TBuffered t p nm]
        else [TUnknown]
      else [TUnknown]
  | [PL a; PN n; PL b] =>
      if seqb a "REMOVEPROGRAM """ && seqb b ("""" ++ nl) then [TRemove n] else [TUnknown]
  | [PL a; PP p nm; PL b] =>
      if seqb a "FARCALL """ && seqb b ("""" ++ nl) then [TFarcall p nm] else [TUnknown]
  | _ => [TUnknown]
  end.

Definition toks (ls : list line) : list tok := flat_map tok_of_line ls.

End LineTok.
