(* The numpy subset that helpers.unique_filter, helpers.split_mask and the LaserPath views (points, x / y / z, lastx / lasty /
   lastz, lastpt, path, path3d) are written in - the target of the translation group SrcUf.v (generated).

   An array is a scalar (0-d), a 1-d array or a 2-d array given by its rows.  Every operation is an effect in the
   exception monad: an operation the subset does not give a meaning to on some shape raises (IndexError / ValueError /
   TypeError as numpy does where it does; EType where numpy would broadcast or do something this subset does not model),
   so a theorem about a translated function that returns normally never rests on such a case.  np.AxisError is a
   subclass of both ValueError and IndexError: it is EIndex here.  Trusted (DESIGN.md section 6): that these definitions
   say what numpy does on the shapes that occur. *)
From Coq Require Import List Bool ZArith Lia.
Import ListNotations.
From Femto Require Import Base.Dedup Base.Runs.
From FemtoTie Require Import PyPrelude.

Inductive nd (A : Type) := A0 (x : A) | A1 (l : list A) | A2 (rows : list (list A)).
Arguments A0 {A} x. Arguments A1 {A} l. Arguments A2 {A} rows.

Definition MN : Type -> Type := @M unit.

(* try: body except np.AxisError: handler *)
Definition catch_axis {A} (body handler : MN A) : MN A :=
  fun s => match body s with (Exc EIndex, s1) => handler s1 | r => r end.

Section Np.
Context {A : Type}.

(* a[1:] , a[:-1] *)
Definition nd_from1 (a : nd A) : MN (nd A) :=
  match a with A0 _ => raise EIndex | A1 l => ret (A1 (tl l)) | A2 r => ret (A2 (tl r)) end.
Definition nd_to_m1 (a : nd A) : MN (nd A) :=
  match a with A0 _ => raise EIndex | A1 l => ret (A1 (removelast l)) | A2 r => ret (A2 (removelast r)) end.

Definition nd_size (a : nd A) : Z :=
  match a with A0 _ => 1 | A1 l => Z.of_nat (length l) | A2 r => Z.of_nat (length (concat r)) end.
Definition nd_ndim (a : nd A) : Z := match a with A0 _ => 0 | A1 _ => 1 | A2 _ => 2 end.

(* python index k into a list: negative counts from the end *)
Definition py_nth {X} (l : list X) (k : Z) : option X :=
  let n := Z.of_nat (length l) in
  let i := if (k <? 0)%Z then (n + k)%Z else k in
  if ((0 <=? i) && (i <? n))%Z%bool then nth_error l (Z.to_nat i) else None.

(* a[k] with k an integer constant: an element of a 1-d array, a row of a 2-d array *)
Definition nd_item (k : Z) (a : nd A) : MN (nd A) :=
  match a with
  | A0 _ => raise EIndex
  | A1 l => match py_nth l k with Some x => ret (A0 x) | None => raise EIndex end
  | A2 r => match py_nth r k with Some x => ret (A1 x) | None => raise EIndex end
  end.

(* float(a) / truth value of an array: only a scalar or a one-element array *)
Definition nd_scalar (a : nd A) : MN A :=
  match a with A0 x => ret x | A1 [x] => ret x | A2 [[x]] => ret x | _ => raise EType end.

(* np.array([a, b, c]) of scalars; np.array(a) of an array is a itself *)
Fixpoint scalars (l : list (nd A)) : option (list A) :=
  match l with
  | [] => Some []
  | A0 x :: r => match scalars r with Some xs => Some (x :: xs) | None => None end
  | _ => None
  end.
Definition nd_of_items (l : list (nd A)) : MN (nd A) :=
  match scalars l with Some xs => ret (A1 xs) | None => raise EType end.

(* np.insert(a, 0, v) : flattens, then puts v in front *)
Definition nd_insert0 (v : A) (a : nd A) : nd A :=
  match a with A0 x => A1 [v; x] | A1 l => A1 (v :: l) | A2 r => A1 (v :: concat r) end.

(* a[mask] with a boolean 1-d mask: selects along the first axis; the lengths must agree *)
Definition nd_bool_index (mask : nd bool) (a : nd A) : MN (nd A) :=
  match mask, a with
  | A1 m, A1 l => if Nat.eqb (length m) (length l) then ret (A1 (select m l)) else raise EIndex
  | A1 m, A2 r => if Nat.eqb (length m) (length r) then ret (A2 (select m r)) else raise EIndex
  | _, _ => raise EIndex
  end.

(* the k columns of a list of rows *)
Definition heads (rows : list (list A)) : list A := flat_map (fun r => match r with [] => [] | x :: _ => [x] end) rows.
Fixpoint cols_of (k : nat) (rows : list (list A)) : list (list A) :=
  match k with O => [] | S k' => heads rows :: cols_of k' (map (@tl A) rows) end.

(* a.T *)
Definition nd_T (a : nd A) : nd A :=
  match a with A2 (r0 :: rs) => A2 (cols_of (length r0) (r0 :: rs)) | _ => a end.

(* np.stack(arrays, axis=-1) of equally long 1-d arrays: the matrix whose rows are the points *)
Fixpoint all_1d (n : nat) (l : list (nd A)) : option (list (list A)) :=
  match l with
  | [] => Some []
  | A1 x :: r => if Nat.eqb (length x) n then match all_1d n r with Some xs => Some (x :: xs) | None => None end else None
  | _ => None
  end.
Definition nd_stack_last (arrays : list (nd A)) : MN (nd A) :=
  match arrays with
  | A1 x :: _ => match all_1d (length x) arrays with Some cols => ret (A2 (cols_of (length x) cols)) | None => raise EValue end
  | _ => raise EValue
  end.

(* a.astype(T) for a conversion given cell by cell *)
Definition nd_map {B} (f : A -> B) (a : nd A) : nd B :=
  match a with A0 x => A0 (f x) | A1 l => A1 (map f l) | A2 r => A2 (map (map f) r) end.

(* np.split(a, indices) of a 1-d array *)
Definition nd_split (a : nd A) (idx : list nat) : MN (list (nd A)) :=
  match a with A1 l => ret (map A1 (np_split 0 idx l)) | _ => raise EType end.

(* x, y, z, s = a  : the rows of a 2-d array *)
Definition nd_rows (a : nd A) : MN (list (nd A)) :=
  match a with A2 r => ret (map A1 r) | A1 l => ret (map A0 l) | A0 _ => raise EType end.
End Np.

(* a != b cell by cell, for arrays of one shape *)
Fixpoint map2 {A B C} (f : A -> B -> C) (a : list A) (b : list B) : list C :=
  match a, b with x :: r, y :: s => f x y :: map2 f r s | _, _ => [] end.
Definition nd_ne {A} (eqb : A -> A -> bool) (a b : nd A) : MN (nd bool) :=
  match a, b with
  | A0 x, A0 y => ret (A0 (negb (eqb x y)))
  | A1 l, A1 m => if Nat.eqb (length l) (length m) then ret (A1 (map2 (fun x y => negb (eqb x y)) l m)) else raise EValue
  | A2 r, A2 q => if Nat.eqb (length r) (length q)
                  then ret (A2 (map2 (map2 (fun x y => negb (eqb x y))) r q)) else raise EValue
  | _, _ => raise EType
  end.

(* np.any(a, axis=1) *)
Definition nd_any_axis1 (a : nd bool) : MN (nd bool) :=
  match a with A2 r => ret (A1 (map (existsb (fun b => b)) r)) | _ => raise EIndex end.

(* np.nonzero(a)[0] + 1 of a boolean 1-d array *)
Fixpoint nonzero_from (i : nat) (l : list bool) : list nat :=
  match l with [] => [] | b :: r => if b then i :: nonzero_from (S i) r else nonzero_from (S i) r end.
Definition nd_nonzero_succ (a : nd bool) : MN (list nat) :=
  match a with A1 l => ret (nonzero_from 1 l) | _ => raise EType end.

(* np.delete(x, np.where(np.invert(s.astype(bool)))) : the entries of x at which s is non-zero *)
Definition nd_keep_where {A} (nz : A -> bool) (s x : nd A) : MN (nd A) :=
  match s, x with
  | A1 sl, A1 xl => if Nat.eqb (length sl) (length xl) then ret (A1 (select (map nz sl) xl)) else raise EIndex
  | _, _ => raise EType
  end.

(* l[0::2] , l[1::2] of a python list *)
Fixpoint evens {X} (l : list X) : list X :=
  match l with [] => [] | [x] => [x] | x :: _ :: r => x :: evens r end.
Definition odds {X} (l : list X) : list X := evens (tl l).

Global Instance truthy_ndZ : Truthy (nd bool) := fun a => match a with A0 b => b | _ => false end.

(* the recorded trajectory of a LaserPath: the five arrays _x, _y, _z, _f, _s *)
Record lv_cfg (cell : Type) := { lv__x : nd cell; lv__y : nd cell; lv__z : nd cell; lv__f : nd cell; lv__s : nd cell }.
Arguments lv__x {cell}. Arguments lv__y {cell}. Arguments lv__z {cell}. Arguments lv__f {cell}. Arguments lv__s {cell}.

(* ---- LaserPath.add_path (SrcAp.v): the five arrays as the mutable state, np.all / np.append ---- *)
Definition nd_all {A} (p : A -> bool) (a : nd A) : bool :=
  match a with A0 x => p x | A1 l => forallb p l | A2 r => forallb (forallb p) r end.
Definition nd_flat {A} (a : nd A) : list A := match a with A0 x => [x] | A1 l => l | A2 r => concat r end.
(* np.append(a, b): both flattened, b after a *)
Definition nd_append {A} (a b : nd A) : nd A := A1 (nd_flat a ++ nd_flat b).

Record ap_st (cell : Type) := { ap__x : nd cell; ap__y : nd cell; ap__z : nd cell; ap__f : nd cell; ap__s : nd cell }.
Arguments ap__x {cell}. Arguments ap__y {cell}. Arguments ap__z {cell}. Arguments ap__f {cell}. Arguments ap__s {cell}.
Definition set_ap__x {cell} (v : nd cell) (s : ap_st cell) : ap_st cell := {| ap__x := v; ap__y := ap__y s; ap__z := ap__z s; ap__f := ap__f s; ap__s := ap__s s |}.
Definition set_ap__y {cell} (v : nd cell) (s : ap_st cell) : ap_st cell := {| ap__x := ap__x s; ap__y := v; ap__z := ap__z s; ap__f := ap__f s; ap__s := ap__s s |}.
Definition set_ap__z {cell} (v : nd cell) (s : ap_st cell) : ap_st cell := {| ap__x := ap__x s; ap__y := ap__y s; ap__z := v; ap__f := ap__f s; ap__s := ap__s s |}.
Definition set_ap__f {cell} (v : nd cell) (s : ap_st cell) : ap_st cell := {| ap__x := ap__x s; ap__y := ap__y s; ap__z := ap__z s; ap__f := v; ap__s := ap__s s |}.
Definition set_ap__s {cell} (v : nd cell) (s : ap_st cell) : ap_st cell := {| ap__x := ap__x s; ap__y := ap__y s; ap__z := ap__z s; ap__f := ap__f s; ap__s := v |}.
