(* RasterImage.image_to_path as translated from the source (SrcRi.v, re-generated from /repo on every run; split_mask is the
   function translated in SrcUf.v) records exactly the trajectory of the model Path/Raster.v: for every boolean matrix (True =
   white, as PIL's mode '1' gives it) of any size, rows in image order, one closed five-point stroke per maximal run of black
   pixels - so the theorems of Props/C15.v (C15_strokes ...) hold of the loop as it stands in /repo. *)
From Coq Require Import List Bool ZArith QArith Lia.
Import ListNotations.
From Femto Require Import Base.Dedup Base.Runs Base.RunsProofs Path.Stroke Path.Raster.
From FemtoTie Require Import PyPrelude NpState SrcUf EquivUf RiState SrcRi.

Lemma grid_length : forall stop n, length (grid stop n) = n.
Proof. intros stop [|[|n]]; try reflexivity. unfold grid. now rewrite map_length, seq_length. Qed.

(* a loop whose body appends a block computed from the element, for the elements that satisfy P *)
Lemma for_each_append : forall {A} (P : A -> Prop) (g : A -> list rpt) (body : A -> unit -> MR unit) (l : list A) p,
  Forall P l -> (forall a q, P a -> body a tt q = (Ret tt, q ++ g a)) ->
  for_each l tt body p = (Ret tt, p ++ flat_map g l).
Proof.
  intros A P g body l. induction l as [|a l IH]; intros p HP Hb; [cbn; now rewrite app_nil_r|].
  inversion HP as [|? ? Ha Hl]; subst. cbn [for_each flat_map]. unfold bind. rewrite (Hb a p Ha).
  rewrite (IH _ Hl Hb). now rewrite app_assoc.
Qed.

Lemma flat_A1 : forall (l : list (list Q)), map nd_flat (map (@A1 Q) l) = l.
Proof. intros l. rewrite map_map. cbn [nd_flat]. apply map_id. Qed.

Lemma split_1d : forall (xs : list Q) (mask : list bool) p, length xs = length mask ->
  split_mask_1d xs mask p = (Ret (runs xs mask), p).
Proof. intros xs mask p H. unfold split_mask_1d. rewrite (SRC_C11_split_mask_runs _ xs mask tt H). now rewrite flat_A1. Qed.

Lemma last_cons_self : forall (r : list Q) a, last r a = last (a :: r) a.
Proof. intros [|b r] a; reflexivity. Qed.

Section Raster.
Variable c : ri_cfg.
Let z := py_or0 (ri_z_init c).

(* one run of black pixels *)
Lemma run_body : forall (y : Q) (run : list Q) q, run <> [] ->
  (first__2 <- (match run with [] => raise EIndex | x0__ :: _ => ret x0__ end) ;;
   first__3 <- (match run with [] => raise EIndex | x0__ :: _ => ret x0__ end) ;;
   last__4 <- (match run with [] => raise EIndex | x0__ :: r__ => ret (List.last r__ x0__) end) ;;
   last__5 <- (match run with [] => raise EIndex | x0__ :: r__ => ret (List.last r__ x0__) end) ;;
   first__6 <- (match run with [] => raise EIndex | x0__ :: _ => ret x0__ end) ;;
   let x_row := [to_float first__2; to_float first__3; to_float last__4; to_float last__5; to_float first__6] in
   let y_row := np_fill y x_row in let z_row := np_fill z x_row in
   let f_row := [to_float (ri_speed_closed c); to_float (ri_speed c); to_float (ri_speed c); to_float (ri_speed_closed c); to_float (ri_speed_closed c)] in
   let s_row := [to_float (of_int 0); to_float (of_int 1); to_float (of_int 1); to_float (of_int 0); to_float (of_int 0)] in
   rp_add_path x_row y_row z_row f_row s_row ;;; ret tt) q
  = (Ret tt, q ++ run_points z (ri_speed c) (ri_speed_closed c) y run).
Proof.
  intros y [|a r] q H; [congruence|]. unfold bind, ret, rp_add_path, modify. cbn [run_points]. rewrite (last_cons_self r a). reflexivity.
Qed.

(* one row of the image *)
Lemma row_body : forall (xs : list Q) (row : list bool) (y : Q) q, length xs = length row ->
  (parts__1 <- split_mask_1d xs (map negb row) ;;
   let x_open_shutter := parts__1 in
   if negb (truthy x_open_shutter) then ret tt
   else bind (for_each x_open_shutter tt (fun x_split _ =>
          first__2 <- (match x_split with [] => raise EIndex | x0__ :: _ => ret x0__ end) ;;
          first__3 <- (match x_split with [] => raise EIndex | x0__ :: _ => ret x0__ end) ;;
          last__4 <- (match x_split with [] => raise EIndex | x0__ :: r__ => ret (List.last r__ x0__) end) ;;
          last__5 <- (match x_split with [] => raise EIndex | x0__ :: r__ => ret (List.last r__ x0__) end) ;;
          first__6 <- (match x_split with [] => raise EIndex | x0__ :: _ => ret x0__ end) ;;
          let x_row := [to_float first__2; to_float first__3; to_float last__4; to_float last__5; to_float first__6] in
          let y_row := np_fill y x_row in let z_row := np_fill z x_row in
          let f_row := [to_float (ri_speed_closed c); to_float (ri_speed c); to_float (ri_speed c); to_float (ri_speed_closed c); to_float (ri_speed_closed c)] in
          let s_row := [to_float (of_int 0); to_float (of_int 1); to_float (of_int 1); to_float (of_int 0); to_float (of_int 0)] in
          rp_add_path x_row y_row z_row f_row s_row ;;; ret tt)) (fun _ => ret tt)) q
  = (Ret tt, q ++ row_points z (ri_speed c) (ri_speed_closed c) xs (map negb row) y).
Proof.
  intros xs row y q Hl. unfold bind at 1. rewrite split_1d by (now rewrite map_length). cbv zeta.
  unfold row_points. set (R := runs xs (map negb row)).
  assert (HR : Forall (fun r : list Q => r <> []) R) by apply runs_nonempty.
  destruct R as [|r0 R'] eqn:ER; [cbn; unfold ret; now rewrite app_nil_r|].
  cbn [truthy truthy_list negb]. unfold bind at 1.
  rewrite (for_each_append (fun r : list Q => r <> []) (run_points z (ri_speed c) (ri_speed_closed c) y) _ (r0 :: R') q HR);
    [reflexivity|]. intros a q0 Ha. apply run_body. exact Ha.
Qed.

(* the rows in image order *)
Lemma rows_loop : forall (xs : list Q) (white : list (list bool)) (ys : list Q) q,
  Forall (fun r => length r = length xs) white ->
  for_each (zip2 white ys) tt (fun '(row, y_val) _ =>
     parts__1 <- split_mask_1d xs (map negb row) ;;
     let x_open_shutter := parts__1 in
     if negb (truthy x_open_shutter) then ret tt
     else bind (for_each x_open_shutter tt (fun x_split _ =>
          first__2 <- (match x_split with [] => raise EIndex | x0__ :: _ => ret x0__ end) ;;
          first__3 <- (match x_split with [] => raise EIndex | x0__ :: _ => ret x0__ end) ;;
          last__4 <- (match x_split with [] => raise EIndex | x0__ :: r__ => ret (List.last r__ x0__) end) ;;
          last__5 <- (match x_split with [] => raise EIndex | x0__ :: r__ => ret (List.last r__ x0__) end) ;;
          first__6 <- (match x_split with [] => raise EIndex | x0__ :: _ => ret x0__ end) ;;
          let x_row := [to_float first__2; to_float first__3; to_float last__4; to_float last__5; to_float first__6] in
          let y_row := np_fill y_val x_row in let z_row := np_fill z x_row in
          let f_row := [to_float (ri_speed_closed c); to_float (ri_speed c); to_float (ri_speed c); to_float (ri_speed_closed c); to_float (ri_speed_closed c)] in
          let s_row := [to_float (of_int 0); to_float (of_int 1); to_float (of_int 1); to_float (of_int 0); to_float (of_int 0)] in
          rp_add_path x_row y_row z_row f_row s_row ;;; ret tt)) (fun _ => ret tt)) q
  = (Ret tt, q ++ rows_points z (ri_speed c) (ri_speed_closed c) xs (map (map negb) white) ys).
Proof.
  intros xs white. induction white as [|row white IH]; intros ys q Hw; [cbn; unfold ret; now rewrite app_nil_r|].
  destruct ys as [|y ys]; [cbn; unfold ret; now rewrite app_nil_r|].
  inversion Hw as [|? ? Hr Hrest]; subst. cbn [zip2 for_each map rows_points]. unfold bind at 1.
  match goal with |- (let (r, s1) := ?X in _) = _ =>
    replace X with (@Ret unit tt, q ++ row_points z (ri_speed c) (ri_speed_closed c) xs (map negb row) y)
      by (symmetry; exact (row_body xs row y q (eq_sym Hr))) end.
  rewrite (IH ys _ Hrest). now rewrite app_assoc.
Qed.
End Raster.

Theorem SRC_C15_image_to_path : forall c (w h : nat) (white : list (list bool)),
  Forall (fun r => length r = w) white ->
  src_image_to_path c {| im_size := (Z.of_nat w, Z.of_nat h); im_matrix := white |} [] =
  (Ret tt, raster (ri_px_to_mm c) (py_or0 (ri_z_init c)) (ri_speed c) (ri_speed_closed c) w h (map (map negb) white)).
Proof.
  intros c w h white Hw. unfold src_image_to_path, raster. cbv zeta. cbn [im_size im_matrix fst snd].
  unfold np_linspace0. rewrite !Nat2Z.id. unfold bind.
  assert (Hx : Forall (fun r : list bool => length r = length (grid (pymul (Z.of_nat w) (ri_px_to_mm c)) w)) white)
    by (eapply Forall_impl; [|exact Hw]; intros r Hr; now rewrite grid_length).
  match goal with |- (let (r, s1) := ?X in _) = _ =>
    replace X with (@Ret unit tt, [] ++ rows_points (py_or0 (ri_z_init c)) (ri_speed c) (ri_speed_closed c)
                                    (grid (pymul (Z.of_nat w) (ri_px_to_mm c)) w) (map (map negb) white)
                                    (grid (pymul (Z.of_nat h) (ri_px_to_mm c)) h))
      by (symmetry; exact (rows_loop c _ white _ [] Hx)) end.
  reflexivity.
Qed.
Print Assumptions SRC_C15_image_to_path.

(* hence, with C15_strokes of the model: the open-shutter strokes of the recorded trajectory are the maximal runs of black pixels *)
From Femto Require Import Path.RasterProofs.

Theorem SRC_C15_strokes : forall c (w h : nat) (white : list (list bool)),
  Forall (fun r => length r = w) white ->
  fst (src_image_to_path c {| im_size := (Z.of_nat w, Z.of_nat h); im_matrix := white |} []) = Ret tt /\
  raw_strokes (tagged (snd (src_image_to_path c {| im_size := (Z.of_nat w, Z.of_nat h); im_matrix := white |} []))) =
  spec_strokes (grid (inject_Z (Z.of_nat w) * ri_px_to_mm c) w) (map (map negb) white) (grid (inject_Z (Z.of_nat h) * ri_px_to_mm c) h).
Proof. intros c w h white Hw. rewrite (SRC_C15_image_to_path c w h white Hw). split; [reflexivity|apply raster_strokes]. Qed.
Print Assumptions SRC_C15_strokes.
