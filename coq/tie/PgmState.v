(* The mutable attributes and the constructor parameters of femto.pgmcompiler.PGMCompiler as the translated methods
   (Gen/PgmSrc.v, generated) see them, and the few callees that are not translated but given here by hand
   (numpy / pathlib / file I/O): transform_points, _get_filepath, the header file, close. *)
From Coq Require Import List Bool ZArith NArith QArith Qabs String Ascii.
Import ListNotations.
From Femto Require Import Base.Num Geo.Rigid.
From FemtoTie Require Import PyPrelude.

Record pcfg := {
  laser : string;
  output_digits : Z;
  long_pause : option Q;
  short_pause : option Q;
  speed_pos : Q;
  home : bool;
  aerotech_angle : Q;           (* after __post_init__: in [0, 360) *)
  rotation_angle : Q;           (* only tested for truthiness around a print *)
  tcf : tcfg                    (* what transform_points applies (Geo/Rigid.v) *)
}.

Record pst := {
  total_dwell_time : Q;         (* _total_dwell_time *)
  shutter_on : bool;            (* _shutter_on *)
  mode_abs : bool;              (* _mode_abs *)
  instr_front : list line;      (* _instructions is the deque  instr_front ++ instr_back : appendleft conses on *)
  instr_back : list line;       (* instr_front, append adds at the end of instr_back *)
  loaded_files : list N;        (* _loaded_files (stems) *)
  dvars : list string           (* _dvars *)
}.

Definition p0 : pst :=
  {| total_dwell_time := 0; shutter_on := false; mode_abs := true; instr_front := []; instr_back := []; loaded_files := []; dvars := [] |}.

Definition set_total_dwell_time (v : Q) (s : pst) : pst :=
  {| total_dwell_time := v; shutter_on := shutter_on s; mode_abs := mode_abs s; instr_front := instr_front s; instr_back := instr_back s;
     loaded_files := loaded_files s; dvars := dvars s |}.
Definition set_shutter_on (v : bool) (s : pst) : pst :=
  {| total_dwell_time := total_dwell_time s; shutter_on := v; mode_abs := mode_abs s; instr_front := instr_front s; instr_back := instr_back s;
     loaded_files := loaded_files s; dvars := dvars s |}.
Definition set_mode_abs (v : bool) (s : pst) : pst :=
  {| total_dwell_time := total_dwell_time s; shutter_on := shutter_on s; mode_abs := v; instr_front := instr_front s; instr_back := instr_back s;
     loaded_files := loaded_files s; dvars := dvars s |}.
Definition set_instr_front (v : list line) (s : pst) : pst :=
  {| total_dwell_time := total_dwell_time s; shutter_on := shutter_on s; mode_abs := mode_abs s; instr_front := v;
     instr_back := instr_back s; loaded_files := loaded_files s; dvars := dvars s |}.
Definition set_instr_back (v : list line) (s : pst) : pst :=
  {| total_dwell_time := total_dwell_time s; shutter_on := shutter_on s; mode_abs := mode_abs s; instr_front := instr_front s;
     instr_back := v; loaded_files := loaded_files s; dvars := dvars s |}.
Definition set_loaded_files (v : list N) (s : pst) : pst :=
  {| total_dwell_time := total_dwell_time s; shutter_on := shutter_on s; mode_abs := mode_abs s; instr_front := instr_front s; instr_back := instr_back s;
     loaded_files := v; dvars := dvars s |}.
Definition set_dvars (v : list string) (s : pst) : pst :=
  {| total_dwell_time := total_dwell_time s; shutter_on := shutter_on s; mode_abs := mode_abs s; instr_front := instr_front s; instr_back := instr_back s;
     loaded_files := loaded_files s; dvars := v |}.

Definition MP := @M pst.

(* self._instructions read as a value (its truthiness: anything pending?) *)
Definition instructions (s : pst) : list line := instr_front s ++ instr_back s.

(* deque operations on _instructions *)
Definition instr_append (l : line) : MP unit := modify (fun s => set_instr_back (instr_back s ++ [l]) s).
Definition instr_appendleft (l : line) : MP unit := modify (fun s => set_instr_front (l :: instr_front s) s).

(* ---- callees given by hand ---- *)

(* transform_points(x, y, z): numpy; the float32 pipeline of Geo/Rigid.v applied point by point *)
Definition transform_points (c : pcfg) (x y z : list Q) : list Q * list Q * list Q :=
  let pts := map (tr32 (tcf c)) (zip3 x y z) in
  (map (fun p => fst (fst p)) pts, map (fun p => snd (fst p)) pts, map (fun p => snd p) pts).

(* _get_filepath(filename, extension='pgm' | '.pgm'): pathlib; raises ValueError unless the suffix is '.pgm' *)
Definition get_filepath (filename : ppath) (extension : string) : MP ppath :=
  if (String.eqb extension "pgm" || String.eqb extension ".pgm")%bool
  then (if pp_pgm filename then ret filename else raise EValue)
  else raise EType.

(* with open(.../header_<laser>.txt) as f: self._instructions.extend(f.readlines()) *)
Definition extend_header (laser_lower : string) : MP unit := instr_append [PHeader laser_lower].

(* close(): writes ''.join(self._instructions) to export_dir/<filename>.pgm (file system: C19); the content is what the
   session glue (Gen/PgmEquiv.v) reads from the final state *)
Definition close_file : MP unit := ret tt.

(* dvar(): listcast(flatten(variables)) of an already flat list of names *)
Definition listcast_flatten (vs : list string) : list string := vs.

(* math.isfinite on a rational *)
Definition isfinite (q : Q) : bool := true.
