(* Device.append / Device.extend / Device.parse_objects as translated from /repo's device.py (SrcDev.v, with the registry
   self.writers read from __init__) are dev_append / dev_extend / parse_objects of the routing model Writers/Device.v: the same
   five collections afterwards (also after a refusal part-way), the same exception class.  The writers' own extend is the
   translated one of SrcAe.v (EquivAe.SRC_C16_extend_list). *)
From Coq Require Import List Bool ZArith NArith Lia.
Import ListNotations.
From Femto Require Import Writers.Device.
From FemtoTie Require Import PyPrelude AeState SrcAe EquivAe DevState SrcDev.

Definition five_b (w : kind) : bool := match w with KWg | KNwg | KTc | KUtc | KMk => true | _ => false end.
Lemma five_b_five : forall w, five_b w = true -> five w.
Proof. unfold five. intros [] H; try discriminate H; auto 6. Qed.

(* the registry of /repo's Device.__init__: each of the five types under its own writer, nothing else *)
Lemma SRC_C16_registry : forall t, reg_find src_writers t = if five_b t then Some t else None.
Proof. intros []; reflexivity. Qed.

Lemma set_coll_same : forall w d e, five w ->
  set_coll w (coll w (fst (writer_extend w d e))) d = fst (writer_extend w d e).
Proof.
  intros w d e [->|[->|[->|[->| ->]]]]; unfold writer_extend; cbn [set_coll coll].
  - destruct (Nat.ltb 2 (nest_level e)); [destruct d; reflexivity|]. destruct (all_inst KWg (flat e)); destruct d; reflexivity.
  - destruct (all_inst KNwg (flat e)); destruct d; reflexivity.
  - destruct (append_each KTc (d_tc d) (flat e)) as [l x]; reflexivity.
  - destruct (append_each KUtc (d_utc d) (flat e)) as [l x]; reflexivity.
  - destruct (append_each KMk (d_mk d) (flat e)) as [l x]; reflexivity.
Qed.

Definition extend_at (k : key) (d : dev) (e : list item) : dev * option Device.exn :=
  match k with KeyOf w => writer_extend w d e | _ => (d, Some TypeErr) end.

Lemma not_five_extend : forall w d e, five_b w = false -> writer_extend w d e = (d, Some TypeErr).
Proof. intros [] d e H; try discriminate H; reflexivity. Qed.

Lemma writers_extend_spec : forall k e d,
  writers_extend src_writers k e d = (res_of (snd (extend_at k d e)), fst (extend_at k d e)).
Proof.
  intros [w| |] e d; cbn [writers_extend extend_at]; try reflexivity.
  rewrite SRC_C16_registry. destruct (five_b w) eqn:Hw.
  - unfold lift_w. rewrite (SRC_C16_extend_list w d e (five_b_five w Hw)). now rewrite set_coll_same by (apply five_b_five; exact Hw).
  - rewrite (not_five_extend w d e Hw). reflexivity.
Qed.

Lemma route_extend_at : forall bs d,
  route d bs = match bs with
               | [] => (d, None)
               | (k, e) :: r => match extend_at k d e with (d', None) => route d' r | (d', Some x) => (d', Some x) end
               end.
Proof. intros [|[[w| |] e] r] d; reflexivity. Qed.

Lemma route_loop : forall bs d,
  for_each bs tt (fun '(k, e) _ => writers_extend src_writers k e ;;; ret tt) d = (res_of (snd (route d bs)), fst (route d bs)).
Proof.
  induction bs as [|[k e] r IH]; intros d; [reflexivity|].
  rewrite route_extend_at. cbn [for_each]. unfold bind at 1. unfold bind at 1. rewrite writers_extend_spec.
  destruct (extend_at k d e) as [d' [x|]]; cbn [snd fst res_of]; [reflexivity|]. cbn [ret]. apply IH.
Qed.

Lemma buckets_loop : forall l bs (d0 : dev),
  for_each l bs (fun obj d => if is_grp obj then first__1 <- item_first obj ;; (let d := dict_append (type_of first__1) obj d in ret d)
                              else let d := dict_append (type_of obj) obj d in ret d) d0
  = (match buckets l bs with Some b => Ret b | None => Exc EIndex end, d0).
Proof.
  induction l as [|it l IH]; intros bs d0; [reflexivity|].
  cbn [for_each buckets]. unfold bind at 1.
  destruct it as [k i|[|[k i|g] r]]; cbn [is_grp key_of item_first as_list type_of]; unfold dict_append; try reflexivity; cbn; apply IH.
Qed.

Theorem SRC_C16_parse_objects : forall l d,
  src_dev_parse_objects tt l d = (res_of (snd (parse_objects d l)), fst (parse_objects d l)).
Proof.
  intros l d. unfold src_dev_parse_objects, parse_objects. unfold bind at 1. rewrite buckets_loop.
  destruct (buckets l []) as [bs|]; [|reflexivity].
  unfold bind at 1. rewrite route_loop. destruct (route d bs) as [d' [x|]]; reflexivity.
Qed.
Print Assumptions SRC_C16_parse_objects.

Theorem SRC_C16_dev_append : forall it d,
  src_dev_append tt it d = (res_of (snd (dev_append d it)), fst (dev_append d it)).
Proof.
  intros it d. unfold src_dev_append, dev_append. unfold bind. rewrite SRC_C16_parse_objects.
  destruct (parse_objects d (flat [it])) as [d' [x|]]; reflexivity.
Qed.
Print Assumptions SRC_C16_dev_append.

Theorem SRC_C16_dev_extend : forall it d,
  src_dev_extend tt it d = (res_of (snd (dev_extend d it)), fst (dev_extend d it)).
Proof.
  intros [k i|l] d; unfold src_dev_extend, dev_extend; cbn [is_grp negb as_list]; [reflexivity|].
  unfold bind. rewrite SRC_C16_parse_objects. destruct (parse_objects d l) as [d' [x|]]; reflexivity.
Qed.
Print Assumptions SRC_C16_dev_extend.

(* a whole history of Device calls, exceptions caught by the caller, against the model's run_hist restricted to Device operations *)
Definition src_step (o : dop) : option (MD unit) :=
  match o with DAppend it => Some (src_dev_append tt it) | DExtend it => Some (src_dev_extend tt it) | _ => None end.
Fixpoint src_hist (d : dev) (h : list dop) : dev * list (R unit) :=
  match h with
  | [] => (d, [])
  | o :: r => match src_step o with
              | Some m => let '(x, d1) := m d in let '(d2, xs) := src_hist d1 r in (d2, x :: xs)
              | None => (d, [])
              end
  end.
Definition dev_only (h : list dop) : Prop := Forall (fun o => match o with DAppend _ | DExtend _ => True | _ => False end) h.

Theorem SRC_C16_history : forall h d, dev_only h ->
  src_hist d h = (fst (run_hist d h), map res_of (snd (run_hist d h))).
Proof.
  induction h as [|o r IH]; intros d Hh; [reflexivity|].
  inversion Hh as [|o' r' Ho Hr]; subst. cbn [src_hist run_hist].
  destruct o as [it|it|w it|w it]; try contradiction; cbn [src_step step].
  - rewrite SRC_C16_dev_append. destruct (dev_append d it) as [d1 x]. cbn [fst snd]. rewrite (IH d1 Hr).
    destruct (run_hist d1 r) as [d2 xs]. reflexivity.
  - rewrite SRC_C16_dev_extend. destruct (dev_extend d it) as [d1 x]. cbn [fst snd]. rewrite (IH d1 Hr).
    destruct (run_hist d1 r) as [d2 xs]. reflexivity.
Qed.
Print Assumptions SRC_C16_history.

(* ---- the property on the translated source itself (Props/C16.v carried over the equalities above) ---- *)
From Femto Require Import Writers.DeviceProofs Props.C16.

(* Device.extend of /repo with any mixture of supported objects and groups of plain waveguides: no exception, each collection
   receives exactly the entries of its own type, in the order given, groups intact; nothing else changes *)
Theorem SRC_C16_extend_any_mixture : forall d l, forallb ok_entry l = true ->
  exists d', src_dev_extend tt (Grp l) d = (Ret tt, d') /\ forall k, DeviceProofs.five k = true -> fld k d' = fld k d ++ sel k l.
Proof.
  intros d l Hl. destruct (C16_extend_any_mixture d l Hl) as [d' [He Hf]].
  exists d'. split; [|exact Hf]. rewrite SRC_C16_dev_extend, He. reflexivity.
Qed.
Print Assumptions SRC_C16_extend_any_mixture.

Theorem SRC_C16_foreign_rejected : forall d k id, DeviceProofs.five k = false -> src_dev_append tt (Obj k id) d = (Exc EType, d).
Proof. intros d k id Hk. rewrite SRC_C16_dev_append, (C16_foreign_rejected d k id Hk). reflexivity. Qed.
Print Assumptions SRC_C16_foreign_rejected.

Theorem SRC_C16_append_single : forall d k id, DeviceProofs.five k = true ->
  src_dev_append tt (Obj k id) d = (Ret tt, add_to k d [Obj k id]).
Proof. intros d k id Hk. rewrite SRC_C16_dev_append, (C16_append_single d k id Hk). reflexivity. Qed.
Print Assumptions SRC_C16_append_single.

Theorem SRC_C16_foreign_anywhere_rejected : forall d l it, In it l -> bad_key (key_of it) = true ->
  fst (src_dev_extend tt (Grp l) d) <> Ret tt.
Proof.
  intros d l it Hin Hb. rewrite SRC_C16_dev_extend. cbn [fst]. pose proof (C16_foreign_anywhere_rejected d l it Hin Hb) as H.
  destruct (snd (dev_extend d (Grp l))) as [x|]; [destruct x; discriminate|contradiction].
Qed.
Print Assumptions SRC_C16_foreign_anywhere_rejected.

Theorem SRC_C16_any_sequence_of_extends : forall ls d, Forall (fun l => forallb ok_entry l = true) ls ->
  let r := src_hist d (map (fun l => DExtend (Grp l)) ls) in
  Forall (fun x => x = Ret tt) (snd r) /\ forall k, DeviceProofs.five k = true -> fld k (fst r) = fld k d ++ flat_map (sel k) ls.
Proof.
  intros ls d Hls. cbv zeta. rewrite SRC_C16_history.
  2:{ unfold dev_only. rewrite Forall_map. apply Forall_forall. intros; exact I. }
  destruct (C16_any_sequence_of_extends ls d Hls) as [Hx Hf]. cbn [fst snd]. split; [|exact Hf].
  rewrite Forall_map. revert Hx. apply Forall_impl. intros x ->. reflexivity.
Qed.
Print Assumptions SRC_C16_any_sequence_of_extends.
