(* The figures of femto.marker.Marker as translated from the source (SrcMk.v, re-generated from /repo on every run; start / linear /
   end given by hand in MkState.v) record exactly the trajectories of the model Path/Marker.v, on a new marker. *)
From Coq Require Import List Bool ZArith QArith Qabs Qround String Lia.
Import ListNotations.
From Femto Require Import Base.Num Path.Laser Path.Marker.
From FemtoTie Require Import PyPrelude MkState SrcMk.
Local Open Scope string_scope.
Local Open Scope list_scope.

Definition done (p : list lpt) (sg : Q) : R unit * mk_st := (Ret tt, {| mk_path := p; mk_sign := sg |}).

(* ---------------- cross ---------------- *)
Definition dflt (o : option Q) (d : Q) : Q := match o with Some v => v | None => d end.

Theorem SRC_C14_cross : forall c x y z lx ly,
  src_cross c [x; y; z] lx ly mk_s0 = done (cross (mcfg_of c) (x, y, z) (dflt lx (mk_lx c)) (dflt ly (mk_ly c))) 1.
Proof. intros c x y z [lx|] [ly|]; reflexivity. Qed.

(* a 2-D position lies at the marker's depth *)
Theorem SRC_C14_cross_2d : forall c x y lx ly,
  src_cross c [x; y] lx ly mk_s0 = done (cross (mcfg_of c) (x, y, mk_depth c) (dflt lx (mk_lx c)) (dflt ly (mk_ly c))) 1.
Proof. intros c x y [lx|] [ly|]; reflexivity. Qed.

Theorem SRC_C14_cross_refuses : forall c (pos : list Q) lx ly s, List.length pos <> 2%nat -> List.length pos <> 3%nat ->
  fst (src_cross c pos lx ly s) = Exc EValue /\ snd (src_cross c pos lx ly s) = s.
Proof.
  intros c pos lx ly s H2 H3.
  assert (E2 : pyeq (py_len pos) (of_int 2) = false) by (unfold pyeq, pyeq_Z, py_len, of_int, ofint_Z; apply Z.eqb_neq; lia).
  assert (E3 : pyne (py_len pos) (of_int 3) = true)
    by (unfold pyne, pyeq, pyeq_Z, py_len, of_int, ofint_Z; apply negb_true_iff, Z.eqb_neq; lia).
  unfold src_cross. rewrite E2, E3. split; reflexivity.
Qed.
Print Assumptions SRC_C14_cross.
Print Assumptions SRC_C14_cross_2d.
Print Assumptions SRC_C14_cross_refuses.

(* ---------------- loops over a path that has been started ---------------- *)
Lemma last_app_cons : forall {X} (l : list X) x m d, last (l ++ x :: m) d = last (x :: m) d.
Proof.
  intros X l. induction l as [|a l IH]; intros x m d; [reflexivity|].
  change ((a :: l) ++ x :: m) with (a :: (l ++ x :: m)). destruct (l ++ x :: m) eqn:E; [destruct l; discriminate|].
  rewrite <- E. change (last (a :: l ++ x :: m) d) with (match l ++ x :: m with [] => a | _ => last (l ++ x :: m) d end).
  rewrite E at 1. now rewrite IH.
Qed.

Lemma plast_app : forall p x m, plast (p ++ x :: m) = last (x :: m) dpt.
Proof. intros. apply last_app_cons. Qed.

Lemma last_cons_indep : forall {X} (m : list X) x d1 d2, last (x :: m) d1 = last (x :: m) d2.
Proof. intros X m. induction m as [|a m IH]; intros x d1 d2; [reflexivity|]. exact (IH a d1 d2). Qed.

Lemma last_skip : forall {X} (m : list X) a x d d', last (a :: x :: m) d = last (x :: m) d'.
Proof. intros X m a x d d'. change (last (a :: x :: m) d) with (last (x :: m) d). apply last_cons_indep. Qed.

Definition st_of (p : list lpt) (sg : Q) : mk_st := {| mk_path := p; mk_sign := sg |}.

(* one linear() call on a started path *)
Lemma linear_ok : forall c p sg dx dy dz mode ab sh speed, p <> [] -> mode_abs mode = Some ab ->
  lp_linear c [dx; dy; dz] mode sh speed (st_of p sg) =
  (Ret tt, st_of (p ++ [lin (plast p) (dx, dy, dz) ab (negb (Z.eqb sh 0)) (dflt speed (mk_speed c))]) sg).
Proof. intros c p sg dx dy dz mode ab sh speed Hp Hm. unfold lp_linear. rewrite Hm. cbn [mk_path st_of]. destruct p; [congruence|]. destruct speed; reflexivity. Qed.

(* a loop whose body appends a block computed from the element and the last point *)
Lemma for_each_blocks : forall {A} (l : list A) (body : A -> unit -> MM unit) (blk : A -> lpt -> list lpt) p sg,
  p <> [] -> (forall a, blk a <> fun _ => []) ->
  (forall a q, q <> [] -> body a tt (st_of q sg) = (Ret tt, st_of (q ++ blk a (plast q)) sg)) ->
  for_each l tt body (st_of p sg) = (Ret tt, st_of (fold_left (fun q a => q ++ blk a (plast q)) l p) sg).
Proof.
  intros A l body blk. induction l as [|a l IH]; intros p sg Hp Hb Hbody; [reflexivity|].
  cbn [for_each fold_left]. unfold bind. rewrite (Hbody a p Hp). apply IH; [|exact Hb|exact Hbody].
  intros E. apply app_eq_nil in E. now destruct E.
Qed.

(* ---------------- ruler ---------------- *)
Lemma ticks_fold : forall cm x_init tl p, p <> [] ->
  fold_left (fun q (a : Q * Q) => q ++ tick_blk cm (plast q) x_init (fst a) (snd a)) tl p = p ++ ticks_from cm (plast p) x_init tl.
Proof.
  intros cm x_init tl. induction tl as [|[xt yt] tl IH]; intros p Hp; [now rewrite app_nil_r|].
  cbn [fold_left ticks_from fst snd]. rewrite IH; [|intros E; apply app_eq_nil in E; destruct E; discriminate].
  rewrite <- app_assoc. f_equal. f_equal. f_equal.
  unfold tick_blk at 1. rewrite plast_app. unfold tick_blk. apply last_cons_indep.
Qed.

Lemma zip_repeat : forall (v : Q) (l : list Q), zip2 (repeat v (List.length l)) l = map (fun t => (v, t)) l.
Proof. intros v l. induction l as [|a l IH]; [reflexivity|]. cbn. now rewrite IH. Qed.

Lemma tick_body : forall c XI (a : Q * Q) q, q <> [] ->
  (let '(xt, yt) := a in fun _ : unit =>
     lp_linear c [as_opt XI; as_opt yt; as_opt (cfg_depth c)] "ABS" 0 None;;;
     lp_linear c [None; None; None] "ABS" 1 None;;;
     lp_linear c [as_opt xt; as_opt yt; None] "ABS" 1 None;;;
     lp_linear c [None; None; None] "ABS" 0 None;;; ret tt) tt (st_of q 1) =
  (Ret tt, st_of (q ++ tick_blk (mcfg_of c) (plast q) XI (fst a) (snd a)) 1).
Proof.
  intros c XI [xt yt] q Hq. cbn [fst snd]. unfold as_opt, asopt_val.
  assert (N1 : forall (l : list lpt) x, l ++ [x] <> []) by (intros l x E; apply app_eq_nil in E; destruct E; discriminate).
  unfold bind. rewrite (linear_ok c q 1 _ _ _ "ABS" true 0 None Hq eq_refl).
  rewrite (linear_ok c _ 1 _ _ _ "ABS" true 1 None (N1 _ _) eq_refl).
  rewrite (linear_ok c _ 1 _ _ _ "ABS" true 1 None (N1 _ _) eq_refl).
  rewrite (linear_ok c _ 1 _ _ _ "ABS" true 0 None (N1 _ _) eq_refl).
  unfold ret. f_equal. f_equal. rewrite <- !app_assoc. cbn [app]. f_equal.
  unfold tick_blk. rewrite !plast_app. reflexivity.
Qed.

(* the ticks, sorted and without repeats: first one long, the others short; nothing is drawn for no tick *)
Theorem SRC_C14_ruler : forall c ticks lx lx2 x_init, ticks <> [] ->
  src_ruler c (Some ticks) lx lx2 x_init mk_s0 =
  done (ruler (mcfg_of c) ticks (dflt lx (mk_lx c)) (dflt lx2 ((3 # 4) * mk_lx c)) (dflt x_init (mk_x_init c))) 1.
Proof.
  intros c ticks lx lx2 x_init Hne. unfold src_ruler.
  replace (pyeq (py_len ticks) (of_int 0)) with false
    by (unfold pyeq, pyeq_Z, py_len, of_int, ofint_Z; symmetry; apply Z.eqb_neq; destruct ticks; [congruence|cbn [List.length]; lia]).
  cbv zeta. unfold np_unique, ruler.
  assert (Hs : sort_uniq ticks <> []).
  { destruct ticks as [|t ts]; [congruence|]. cbn [sort_uniq fold_right]. generalize (fold_right insert_u [] ts). intros l.
    destruct l as [|y l]; cbn [insert_u]; [discriminate|]. destruct (Qeq_bool t y); [discriminate|]. destruct (Qle_bool t y); discriminate. }
  destruct (sort_uniq ticks) as [|t0 tr] eqn:Es; [congruence|].
  replace (is_none lx && is_none (cfg_lx c))%bool with false by (destruct lx; reflexivity).
  replace (is_none x_init && is_none (cfg_x_init c))%bool with false by (destruct x_init; reflexivity).
  unfold np_repeat, py_len. rewrite Nat2Z.id. cbn [List.length repeat set_first]. unfold bind at 1. cbn [ret].
  unfold bind at 1. cbn [ret]. unfold bind at 1. cbn [lp_start mk_s0 mk_path set_path mk_sign].
  set (LX := match lx with Some v => v | None => cfg_lx c end).
  set (LX2 := match lx2 with Some v => v | None => pymul (3 # 4) (cfg_lx c) end).
  set (XI := match x_init with Some v => v | None => cfg_x_init c end).
  replace (dflt lx (mk_lx c)) with LX by (destruct lx; reflexivity).
  replace (dflt lx2 ((3 # 4) * mk_lx c)) with LX2 by (destruct lx2; reflexivity).
  replace (dflt x_init (mk_x_init c)) with XI by (destruct x_init; reflexivity).
  unfold to_float, tofloat_Q. cbn [zip2]. rewrite zip_repeat.
  fold (st_of (start_blk (XI, t0, cfg_depth c) (mk_speed_pos c)) 1).
  change (set_path (start_blk (XI, t0, cfg_depth c) (mk_speed_pos c)) mk_s0) with (st_of (start_blk (XI, t0, cfg_depth c) (mk_speed_pos c)) 1).
  unfold bind at 1.
  rewrite (for_each_blocks _ _ (fun a last => tick_blk (mcfg_of c) last XI (fst a) (snd a)));
    [| discriminate | intros a E; apply (f_equal (fun f => f dpt)) in E; discriminate | apply tick_body].
  rewrite ticks_fold by discriminate.
  set (T := ticks_from (mcfg_of c) _ XI _). unfold bind, lp_end. cbn [mk_path st_of start_blk app].
  unfold done, ret, set_path, st_of. cbn [mk_path mk_sign]. f_equal. f_equal.
  do 3 f_equal. unfold pfirst, plast. cbn [hd]. f_equal.
  subst T. cbn [ticks_from]. set (B := tick_blk _ _ _ _ _). unfold tick_blk in B. subst B. cbn [app].
  rewrite (last_skip _ _ _ dpt dpt). apply last_skip.
Qed.
Print Assumptions SRC_C14_ruler.

Theorem SRC_C14_ruler_nothing : forall c lx lx2 x_init s,
  src_ruler c None lx lx2 x_init s = (Ret tt, s) /\ src_ruler c (Some []) lx lx2 x_init s = (Ret tt, s).
Proof. intros; split; reflexivity. Qed.
Print Assumptions SRC_C14_ruler_nothing.

(* ---------------- lemmas for ablation (vertex loop) ---------------- *)
Definition row_of (v : p3) : list Q := let '(x, y, z) := v in [x; y; z].

Lemma for_each_map : forall {A B} (g : A -> B) (l : list A) (body : B -> unit -> MM unit) s,
  for_each (map g l) tt body s = for_each l tt (fun a => body (g a)) s.
Proof.
  intros A B g l body. induction l as [|a l IH]; intros s; [reflexivity|]. cbn [map for_each]. unfold bind.
  destruct (body (g a) tt s) as [[[]|e] s1]; [apply IH|reflexivity].
Qed.

Lemma visit_fold : forall cm vs p, p <> [] ->
  fold_left (fun q v => q ++ [lin (plast q) (abs3 v) true true (m_speed cm)]) vs p = p ++ visit cm (plast p) vs.
Proof.
  intros cm vs. induction vs as [|v vs IH]; intros p Hp; [now rewrite app_nil_r|].
  cbn [fold_left visit]. rewrite IH; [|intros E; apply app_eq_nil in E; destruct E; discriminate].
  rewrite <- app_assoc. cbn [app]. now rewrite plast_app.
Qed.

Lemma last_map_row : forall vs v0, last (map row_of vs) (row_of v0) = row_of (last vs v0).
Proof. induction vs as [|v vs IH]; intros v0; [reflexivity|]. cbn [map]. destruct vs as [|w vs]; [reflexivity|]. exact (IH v0). Qed.

Lemma visit_body : forall c (v : p3) q, q <> [] ->
  (lp_linear c (as_optlist (row_of v)) "ABS" 1 None ;;; ret tt) (st_of q 1) =
  (Ret tt, st_of (q ++ [lin (plast q) (abs3 v) true true (m_speed (mcfg_of c))]) 1).
Proof. intros c [[x y] z] q Hq. unfold bind. cbn [row_of as_optlist aol_val map]. now rewrite (linear_ok c q 1 _ _ _ "ABS" true 1 None Hq eq_refl). Qed.

Lemma plast_started : forall a b (V : list lpt), V <> [] -> plast (a :: b :: V) = last V b.
Proof. intros a b [|v V] H; [congruence|]. unfold plast. change (last (a :: b :: v :: V) dpt) with (last (v :: V) dpt). apply last_cons_indep. Qed.

Lemma abl_shape : forall (a b : lpt) (V : list lpt) (F G : lpt -> lpt) sc, V <> [] ->
  a :: b :: ((V ++ [F (plast (a :: b :: V))]) ++ [G (plast (a :: b :: V ++ [F (plast (a :: b :: V))]))]) ++
     end_blk (pfirst (a :: b :: (V ++ [F (plast (a :: b :: V))]) ++ [G (plast (a :: b :: V ++ [F (plast (a :: b :: V))]))]))
             (plast (a :: b :: (V ++ [F (plast (a :: b :: V))]) ++ [G (plast (a :: b :: V ++ [F (plast (a :: b :: V))]))])) sc
  = a :: b :: (V ++ [F (last V b); G (F (last V b))]) ++ end_blk a (last (V ++ [F (last V b); G (F (last V b))]) b) sc.
Proof.
  intros a b V F G sc HV. rewrite (plast_started a b V HV). set (L := last V b).
  assert (E1 : plast (a :: b :: V ++ [F L]) = F L) by (change (a :: b :: V ++ [F L]) with ((a :: b :: V) ++ [F L]); apply plast_app).
  rewrite E1.
  assert (E2 : (V ++ [F L]) ++ [G (F L)] = V ++ [F L; G (F L)]) by (rewrite <- app_assoc; reflexivity).
  rewrite E2.
  assert (E3 : plast (a :: b :: V ++ [F L; G (F L)]) = G (F L))
    by (change (a :: b :: V ++ [F L; G (F L)]) with ((a :: b :: V) ++ F L :: [G (F L)]); rewrite plast_app; reflexivity).
  rewrite E3. rewrite (last_app_cons V (F L) [G (F L)] b). reflexivity.
Qed.

Lemma ablation_plain_model : forall cm v0 vs,
  ablation cm (v0 :: vs) None =
  let a := mk v0 (m_speed_pos cm) false in let b := mk v0 (m_speed_pos cm) true in
  let V := visit cm b (v0 :: vs) in let vl := last vs v0 in let L := last V b in
  a :: b :: (V ++ [lin L (abs3 vl) true true (m_speed cm); lin (lin L (abs3 vl) true true (m_speed cm)) (abs3 vl) true false (m_speed cm)]) ++
  end_blk a (last (V ++ [lin L (abs3 vl) true true (m_speed cm); lin (lin L (abs3 vl) true true (m_speed cm)) (abs3 vl) true false (m_speed cm)]) b)
          (m_speed_closed cm).
Proof. intros cm v0 vs. unfold ablation, trace, copies. cbn [app]. rewrite app_nil_r. destruct vs; reflexivity. Qed.

Theorem SRC_C14_ablation_plain : forall c v0 vs,
  src_ablation c (map row_of (v0 :: vs)) None mk_s0 = done (ablation (mcfg_of c) (v0 :: vs) None) 1.
Proof.
  intros c v0 vs. unfold src_ablation. cbn [map truthy truthy_list negb]. cbv zeta.
  unfold bind at 1. cbn [ret]. unfold bind at 1.
  destruct v0 as [[x0 y0] z0]. cbn [row_of lp_start mk_s0 mk_path set_path mk_sign].
  change ([x0; y0; z0] :: map row_of vs) with (map row_of ((x0, y0, z0) :: vs)).
  change (set_path (start_blk (x0, y0, z0) (mk_speed_pos c)) mk_s0) with (st_of (start_blk (x0, y0, z0) (mk_speed_pos c)) 1).
  unfold bind at 1. rewrite for_each_map.
  rewrite (for_each_blocks _ _ (fun v last => [lin last (abs3 v) true true (m_speed (mcfg_of c))]));
    [| discriminate | intros a E; apply (f_equal (fun f => f dpt)) in E; discriminate | intros a q Hq; apply visit_body; exact Hq].
  rewrite visit_fold by discriminate.
  set (V := visit (mcfg_of c) _ _).
  assert (HV : start_blk (x0, y0, z0) (mk_speed_pos c) ++ V <> []) by discriminate.
  change [x0; y0; z0] with (row_of (x0, y0, z0)). rewrite last_map_row. set (vl := last vs (x0, y0, z0)).
  assert (Ev : forall sh q, q <> [] -> lp_linear c (as_optlist (row_of vl)) "ABS" sh None (st_of q 1)
                 = (Ret tt, st_of (q ++ [lin (plast q) (abs3 vl) true (negb (Z.eqb sh 0)) (m_speed (mcfg_of c))]) 1)).
  { intros sh q Hq. destruct vl as [[a b] d]. cbn [row_of as_optlist aol_val map]. now rewrite (linear_ok c q 1 _ _ _ "ABS" true sh None Hq eq_refl). }
  unfold bind at 1. cbn [ret]. unfold bind at 1. rewrite (Ev 1%Z _ HV).
  unfold bind at 1. cbn [ret]. unfold bind at 1.
  rewrite (Ev 0%Z) by (intros E; apply app_eq_nil in E; destruct E; discriminate).
  unfold bind at 1. cbn [for_each ret]. unfold bind, lp_end. cbn [mk_path st_of start_blk app].
  unfold done, ret, set_path. cbn [mk_path mk_sign]. f_equal. f_equal.
  rewrite ablation_plain_model. cbv zeta.
  assert (HVne : V <> []) by (unfold V; cbn [visit]; discriminate).
  exact (abl_shape (mk (x0, y0, z0) (mk_speed_pos c) false) (mk (x0, y0, z0) (mk_speed_pos c) true) V
           (fun l => lin l (abs3 vl) true true (m_speed (mcfg_of c))) (fun l => lin l (abs3 vl) true false (m_speed (mcfg_of c)))
           (mk_speed_closed c) HVne).
Qed.
Print Assumptions SRC_C14_ablation_plain.


(* ---------------- ablation with displaced copies ---------------- *)
(* the figure made of a first vertex list and further ones (what Path/Marker.ablation builds from one list and a shift) *)
Definition ablation_gen (cm : mcfg) (first_vs : list p3) (others : list (list p3)) : list lpt :=
  match first_vs with
  | [] => []
  | v0 :: _ =>
      let first := mk v0 (m_speed_pos cm) false in
      let a1 := mk v0 (m_speed_pos cm) true in
      let t1 := trace cm a1 first_vs v0 in
      let rest := copies cm (last t1 a1) others in
      [first; a1] ++ t1 ++ rest ++ end_blk first (last (t1 ++ rest) a1) (m_speed_closed cm)
  end.

Lemma ablation_is_gen : forall cm v0 vs s,
  ablation cm (v0 :: vs) (Some s) =
  ablation_gen cm (map (shift3 0 0) (v0 :: vs))
    [map (shift3 s 0) (v0 :: vs); map (shift3 (- s) 0) (v0 :: vs); map (shift3 0 s) (v0 :: vs); map (shift3 0 (- s)) (v0 :: vs)].
Proof. intros. reflexivity. Qed.

(* a loop whose body appends a block, for the elements that satisfy P *)
Lemma for_each_blocks_P : forall {A} (P : A -> Prop) (l : list A) (body : A -> unit -> MM unit) (blk : A -> lpt -> list lpt) p sg,
  p <> [] -> Forall P l ->
  (forall a q, P a -> q <> [] -> body a tt (st_of q sg) = (Ret tt, st_of (q ++ blk a (plast q)) sg)) ->
  for_each l tt body (st_of p sg) = (Ret tt, st_of (fold_left (fun q a => q ++ blk a (plast q)) l p) sg).
Proof.
  intros A P l body blk. induction l as [|a l IH]; intros p sg Hp HP Hbody; [reflexivity|].
  inversion HP as [|? ? Ha Hl]; subst. cbn [for_each fold_left]. unfold bind. rewrite (Hbody a p Ha Hp). apply IH; [|exact Hl|exact Hbody].
  intros E. apply app_eq_nil in E. destruct E as [E _]. congruence.
Qed.

Lemma copy_blk_cons : forall cm last v0 vs, exists x m, copy_blk cm last (v0 :: vs) = x :: m.
Proof. intros. cbn [copy_blk]. eauto. Qed.

Lemma copies_fold : forall cm others p, p <> [] -> Forall (fun vs : list p3 => vs <> []) others ->
  fold_left (fun q vs => q ++ copy_blk cm (plast q) vs) others p = p ++ copies cm (plast p) others.
Proof.
  intros cm others. induction others as [|vs others IH]; intros p Hp HF; [now rewrite app_nil_r|].
  inversion HF as [|? ? Hv Hr]; subst. destruct vs as [|v0 vs]; [congruence|]. cbn [fold_left copies].
  destruct (copy_blk_cons cm (plast p) v0 vs) as [x [m E]].
  rewrite IH; [|rewrite E; intros F; apply app_eq_nil in F; destruct F; discriminate|exact Hr].
  rewrite <- app_assoc. f_equal. f_equal. f_equal. rewrite E, plast_app. apply last_cons_indep.
Qed.

(* one displaced copy: closed move to its first vertex, open duplicate, the vertices, open and closed duplicate of the last one *)
Lemma copy_body : forall c (v0 : p3) (vs : list p3) q, q <> [] ->
  (first__4 <- (match map row_of (v0 :: vs) with [] => raise EIndex | x0__ :: _ => ret x0__ end) ;;
   lp_linear c (as_optlist first__4) "ABS" 0 None ;;;
   first__5 <- (match map row_of (v0 :: vs) with [] => raise EIndex | x0__ :: _ => ret x0__ end) ;;
   lp_linear c (as_optlist first__5) "ABS" 1 None ;;;
   bind (for_each (map row_of (v0 :: vs)) tt (fun p _ => lp_linear c (as_optlist p) "ABS" 1 None ;;; ret tt))
     (fun _ => last__6 <- (match map row_of (v0 :: vs) with [] => raise EIndex | x0__ :: r__ => ret (List.last r__ x0__) end) ;;
               lp_linear c (as_optlist last__6) "ABS" 1 None ;;;
               last__7 <- (match map row_of (v0 :: vs) with [] => raise EIndex | x0__ :: r__ => ret (List.last r__ x0__) end) ;;
               lp_linear c (as_optlist last__7) "ABS" 0 None ;;; ret tt)) (st_of q 1)
  = (Ret tt, st_of (q ++ copy_blk (mcfg_of c) (plast q) (v0 :: vs)) 1).
Proof.
  intros c v0 vs q Hq.
  assert (Ev : forall (v : p3) sh p, p <> [] -> lp_linear c (as_optlist (row_of v)) "ABS" sh None (st_of p 1)
                 = (Ret tt, st_of (p ++ [lin (plast p) (abs3 v) true (negb (Z.eqb sh 0)) (m_speed (mcfg_of c))]) 1)).
  { intros [[x y] z] sh p Hp. cbn [row_of as_optlist aol_val map]. now rewrite (linear_ok c p 1 _ _ _ "ABS" true sh None Hp eq_refl). }
  assert (N1 : forall (l : list lpt) x, l ++ [x] <> []) by (intros l x E; apply app_eq_nil in E; destruct E; discriminate).
  cbn [map]. unfold bind at 1. cbn [ret]. unfold bind at 1. rewrite (Ev v0 0%Z q Hq).
  unfold bind at 1. cbn [ret]. unfold bind at 1. rewrite (Ev v0 1%Z _ (N1 _ _)).
  set (a := lin (plast q) (abs3 v0) true (negb (0 =? 0)%Z) (m_speed (mcfg_of c))).
  rewrite plast_app. cbn [last]. set (b := lin a (abs3 v0) true (negb (1 =? 0)%Z) (m_speed (mcfg_of c))).
  change (row_of v0 :: map row_of vs) with (map row_of (v0 :: vs)).
  unfold bind at 1. rewrite for_each_map.
  rewrite (for_each_blocks _ _ (fun v last => [lin last (abs3 v) true true (m_speed (mcfg_of c))]));
    [| apply N1 | intros x E; apply (f_equal (fun f => f dpt)) in E; discriminate | intros x p Hp; apply visit_body; exact Hp].
  rewrite visit_fold by apply N1.
  assert (Eb : plast ((q ++ [a]) ++ [b]) = b) by (rewrite plast_app; reflexivity). rewrite Eb.
  set (V := visit (mcfg_of c) b (v0 :: vs)).
  assert (HVne : V <> []) by (unfold V; cbn [visit]; discriminate).
  change (row_of v0) with (row_of v0). rewrite last_map_row. set (vl := last vs v0).
  unfold bind at 1. cbn [ret]. unfold bind at 1.
  rewrite (Ev vl 1%Z) by (intros E; apply app_eq_nil in E; destruct E as [_ E]; exact (HVne E)).
  unfold bind at 1. cbn [ret]. unfold bind at 1. rewrite (Ev vl 0%Z _ (N1 _ _)). unfold bind, ret.
  f_equal. f_equal. cbn [copy_blk]. fold a. fold b. unfold trace. fold V.
  replace (List.last (v0 :: vs) v0) with vl by (unfold vl; destruct vs; reflexivity).
  assert (EL : plast (((q ++ [a]) ++ [b]) ++ V) = last V b).
  { destruct V as [|x m] eqn:EV; [congruence|]. rewrite plast_app. apply last_cons_indep. }
  rewrite EL. rewrite plast_app. cbn [last]. rewrite <- !app_assoc. reflexivity.
Qed.

Lemma last_cons_same : forall {X} (l : list X) p, last (p :: l) p = last l p.
Proof. intros X [|a l] p; reflexivity. Qed.

Lemma trace_shape : forall (a b : lpt) (V : list lpt) (F G : lpt -> lpt), V <> [] ->
  a :: b :: ((V ++ [F (plast (a :: b :: V))]) ++ [G (plast (a :: b :: V ++ [F (plast (a :: b :: V))]))])
  = a :: b :: (V ++ [F (last V b); G (F (last V b))]).
Proof.
  intros a b V F G HV. rewrite (plast_started a b V HV). set (L := last V b).
  assert (E1 : plast (a :: b :: V ++ [F L]) = F L) by (change (a :: b :: V ++ [F L]) with ((a :: b :: V) ++ [F L]); apply plast_app).
  rewrite E1. now rewrite <- app_assoc.
Qed.

Lemma gen_shape : forall (a b : lpt) (T R : list lpt) sc, T <> [] ->
  ((a :: b :: T) ++ R) ++ end_blk (pfirst ((a :: b :: T) ++ R)) (plast ((a :: b :: T) ++ R)) sc
  = [a; b] ++ T ++ R ++ end_blk a (last (T ++ R) b) sc.
Proof.
  intros a b T R sc HT. cbn [app pfirst hd]. rewrite <- app_assoc. do 2 f_equal. f_equal. f_equal. f_equal.
  apply plast_started. intros E. apply app_eq_nil in E. destruct E; congruence.
Qed.

Lemma end_run : forall c p, p <> [] ->
  (lp_end c ;;; ret tt) (st_of p 1) = (Ret tt, st_of (p ++ end_blk (pfirst p) (plast p) (mk_speed_closed c)) 1).
Proof. intros c [|x p] H; [congruence|reflexivity]. Qed.

Definition disp (a b d : Q) (vs : list p3) : list p3 := map (fun v : p3 => let '(x, y, z) := v in (x + a, y + b, z + d)) vs.
Lemma add_rows_disp : forall vs a b d, np_add_rows (map row_of vs) [a; b; d] = map row_of (disp a b d vs).
Proof. intros vs a b d. unfold np_add_rows, disp. rewrite !map_map. apply map_ext. intros [[x y] z]. reflexivity. Qed.

(* the vertices in order, then four displaced copies (each entered by a closed move), end(): the figure of the model built from the
   displaced vertex lists as numpy computes them (v + [0, 0, 0] first) *)
Theorem SRC_C14_ablation_shifted : forall c v0 vs s,
  src_ablation c (map row_of (v0 :: vs)) (Some s) mk_s0 =
  done (ablation_gen (mcfg_of c) (disp 0 0 0 (v0 :: vs))
          [disp s 0 0 (v0 :: vs); disp (- s) 0 0 (v0 :: vs); disp 0 s 0 (v0 :: vs); disp 0 (- s) 0 (v0 :: vs)]) 1.
Proof.
  intros c v0 vs s. unfold src_ablation. cbn [truthy truthy_list negb map]. cbv zeta.
  change (row_of v0 :: map row_of vs) with (map row_of (v0 :: vs)).
  unfold to_float, tofloat_Q, pyneg, neg_Q. rewrite !add_rows_disp.
  set (D0 := disp 0 0 0 (v0 :: vs)). set (D1 := disp s 0 0 (v0 :: vs)). set (D2 := disp (- s) 0 0 (v0 :: vs)).
  set (D3 := disp 0 s 0 (v0 :: vs)). set (D4 := disp 0 (- s) 0 (v0 :: vs)).
  assert (E0 : exists w0 ws, D0 = w0 :: ws) by (unfold D0; destruct v0 as [[x y] z]; cbn [disp map]; eauto).
  destruct E0 as [w0 [ws E0]]. rewrite E0.
  assert (HF : Forall (fun l : list p3 => l <> []) [D1; D2; D3; D4])
    by (unfold D1, D2, D3, D4; destruct v0 as [[x y] z]; repeat constructor; cbn [disp map]; discriminate).
  clearbody D1 D2 D3 D4. clear E0 D0.
  cbn [map]. unfold bind at 1. cbn [ret]. unfold bind at 1.
  destruct w0 as [[x0 y0] z0]. cbn [row_of lp_start mk_s0 mk_path set_path mk_sign].
  change ([x0; y0; z0] :: map row_of ws) with (map row_of ((x0, y0, z0) :: ws)).
  change (set_path (start_blk (x0, y0, z0) (mk_speed_pos c)) mk_s0) with (st_of (start_blk (x0, y0, z0) (mk_speed_pos c)) 1).
  unfold bind at 1. rewrite for_each_map.
  rewrite (for_each_blocks _ _ (fun v last => [lin last (abs3 v) true true (m_speed (mcfg_of c))]));
    [| discriminate | intros a E; apply (f_equal (fun f => f dpt)) in E; discriminate | intros a q Hq; apply visit_body; exact Hq].
  rewrite visit_fold by discriminate.
  set (V := visit (mcfg_of c) _ _).
  assert (HV : start_blk (x0, y0, z0) (mk_speed_pos c) ++ V <> []) by discriminate.
  assert (HVne : V <> []) by (unfold V; cbn [visit]; discriminate).
  change [x0; y0; z0] with (row_of (x0, y0, z0)). rewrite last_map_row. set (vl := last ws (x0, y0, z0)).
  assert (Ev : forall sh q, q <> [] -> lp_linear c (as_optlist (row_of vl)) "ABS" sh None (st_of q 1)
                 = (Ret tt, st_of (q ++ [lin (plast q) (abs3 vl) true (negb (Z.eqb sh 0)) (m_speed (mcfg_of c))]) 1)).
  { intros sh q Hq. destruct vl as [[a b] d]. cbn [row_of as_optlist aol_val map]. now rewrite (linear_ok c q 1 _ _ _ "ABS" true sh None Hq eq_refl). }
  assert (N1 : forall (l : list lpt) x, l ++ [x] <> []) by (intros l x E; apply app_eq_nil in E; destruct E; discriminate).
  unfold bind at 1. cbn [ret]. unfold bind at 1. rewrite (Ev 1%Z _ HV).
  unfold bind at 1. cbn [ret]. unfold bind at 1. rewrite (Ev 0%Z _ (N1 _ _)).
  (* the first trace, in the model's form *)
  cbn [start_blk app].
  set (a := mk (x0, y0, z0) (mk_speed_pos c) false). set (b := mk (x0, y0, z0) (mk_speed_pos c) true).
  rewrite (trace_shape a b V (fun l => lin l (abs3 vl) true (negb (1 =? 0)%Z) (m_speed (mcfg_of c)))
                             (fun l => lin l (abs3 vl) true (negb (0 =? 0)%Z) (m_speed (mcfg_of c))) HVne).
  set (T := V ++ _).
  assert (HT : T <> []) by (unfold T; intros E; apply app_eq_nil in E; destruct E; congruence).
  (* the displaced copies *)
  change [map row_of D1; map row_of D2; map row_of D3; map row_of D4] with (map (map row_of) [D1; D2; D3; D4]).
  unfold bind at 1. rewrite for_each_map.
  rewrite (for_each_blocks_P (fun l : list p3 => l <> []) [D1; D2; D3; D4] _ (fun vs0 last => copy_blk (mcfg_of c) last vs0));
    [| discriminate | exact HF | intros [|u us] q Hne Hq; [congruence|exact (copy_body c u us q Hq)]].
  rewrite copies_fold by (discriminate || exact HF).
  set (C := copies (mcfg_of c) (plast (a :: b :: T)) [D1; D2; D3; D4]).
  rewrite (end_run c ((a :: b :: T) ++ C)) by discriminate.
  unfold done, st_of. f_equal. f_equal.
  rewrite (gen_shape a b T C (mk_speed_closed c) HT).
  unfold ablation_gen. cbv zeta.
  change (mk (x0, y0, z0) (m_speed_pos (mcfg_of c)) false) with a. change (mk (x0, y0, z0) (m_speed_pos (mcfg_of c)) true) with b.
  assert (ET : trace (mcfg_of c) b ((x0, y0, z0) :: ws) (x0, y0, z0) = T).
  { unfold trace, T. rewrite last_cons_same. reflexivity. }
  assert (EP : plast (a :: b :: T) = last T b) by (apply plast_started; exact HT).
  unfold C. rewrite EP. rewrite <- ET. reflexivity.
Qed.
Print Assumptions SRC_C14_ablation_shifted.

(* the displaced vertices are the model's shift3 copies, as rational numbers (the model leaves z alone, numpy adds 0) *)
Theorem SRC_C14_displaced : forall vs dx dy,
  Forall2 (fun a b : p3 => let '(x, y, z) := a in let '(x', y', z') := b in x == x' /\ y == y' /\ z == z') (disp dx dy 0 vs) (map (shift3 dx dy) vs).
Proof. intros vs dx dy. induction vs as [|[[x y] z] vs IH]; cbn [disp map]; constructor; [cbn; repeat split; ring|exact IH]. Qed.
Print Assumptions SRC_C14_displaced.

(* ---------------- box: the ablation line through the corners of the rectangle ---------------- *)
Theorem SRC_C14_box : forall c x y z w h,
  src_box c [x; y; z] w h mk_s0 =
  done (ablation (mcfg_of c) [(x, y, z); (x + Qabs w, y + 0, z + 0); (x + Qabs w, y + Qabs h, z + 0); (x + 0, y + Qabs h, z + 0); (x, y, z)] None) 1.
Proof.
  intros c x y z w h. unfold src_box. cbn [truthy truthy_list negb]. cbv zeta. unfold bind.
  change [[x; y; z]; pyadd [x; y; z] [pyabs w; of_int 0; of_int 0]; pyadd [x; y; z] [pyabs w; pyabs h; of_int 0];
          pyadd [x; y; z] [of_int 0; pyabs h; of_int 0]; [x; y; z]]
    with (map row_of [(x, y, z); (x + Qabs w, y + 0, z + 0); (x + Qabs w, y + Qabs h, z + 0); (x + 0, y + Qabs h, z + 0); (x, y, z)]).
  rewrite SRC_C14_ablation_plain. reflexivity.
Qed.
Print Assumptions SRC_C14_box.

(* the corners as Path/Marker.box names them: the same points (adding 0 changes the fraction, not the number) *)
Definition p3_eq (a b : p3) : Prop := let '(x, y, z) := a in let '(x', y', z') := b in x == x' /\ y == y' /\ z == z'.
Theorem SRC_C14_box_corners : forall x y z w h,
  Forall2 p3_eq [(x, y, z); (x + Qabs w, y + 0, z + 0); (x + Qabs w, y + Qabs h, z + 0); (x + 0, y + Qabs h, z + 0); (x, y, z)]
                [(x, y, z); (x + Qabs w, y, z); (x + Qabs w, y + Qabs h, z); (x, y + Qabs h, z); (x, y, z)].
Proof. intros. repeat constructor; cbn; try reflexivity; ring. Qed.
Print Assumptions SRC_C14_box_corners.

(* ---------------- meander ---------------- *)
Definition tolist3 (t : option Q * option Q * option Q) : list (option Q) := let '(a, b, d) := t in [a; b; d].

Lemma pfirst_app : forall q m, q <> [] -> pfirst (q ++ m) = pfirst q.
Proof. intros [|a q] m H; [congruence|reflexivity]. Qed.

Lemma passes_cons : forall cm n last ax sg w d, exists x m, passes cm n last ax sg w d = x :: m.
Proof. intros cm [|n] last ax sg w d; cbn [passes]; eauto. Qed.

Lemma sign_next_at : forall q sg, sign_next (st_of q sg) = (Ret sg, st_of q (- sg)).
Proof. reflexivity. Qed.

Lemma linear3_ok : forall c p sg t sh, p <> [] ->
  lp_linear c (tolist3 t) "INC" sh None (st_of p sg) =
  (Ret tt, st_of (p ++ [lin (plast p) t false (negb (Z.eqb sh 0)) (mk_speed c)]) sg).
Proof. intros c p sg [[a b] d] sh Hp. cbn [tolist3]. now rewrite (linear_ok c p sg a b d "INC" false sh None Hp eq_refl). Qed.

(* the passes, the last line and end(), from any started path and any state of the sign generator *)
Lemma passes_loop : forall c ax w d (l : list Z) q sg, q <> [] ->
  exists sg',
  (bind (for_each l tt (fun (_ : Z) (_ : unit) =>
           sgn <- sign_next ;; lp_linear c (tolist3 (mv ax (sgn * w) 0)) "INC" 1 None ;;; lp_linear c (tolist3 (mv ax 0 d)) "INC" 1 None ;;; ret tt))
        (fun _ => sgn <- sign_next ;; lp_linear c (tolist3 (mv ax (sgn * w) 0)) "INC" 1 None ;;; lp_end c ;;; ret tt)) (st_of q sg)
  = (Ret tt, st_of (q ++ passes (mcfg_of c) (List.length l) (plast q) ax sg w d ++
                    end_blk (pfirst q) (last (passes (mcfg_of c) (List.length l) (plast q) ax sg w d) (plast q)) (mk_speed_closed c)) sg').
Proof.
  intros c ax w d l. induction l as [|z l IH]; intros q sg Hq.
  - exists (- sg). cbn [for_each List.length passes]. unfold bind at 1. cbn [ret]. unfold bind at 1. rewrite sign_next_at.
    unfold bind at 1. rewrite (linear3_ok c q (- sg) _ 1 Hq). unfold bind, lp_end. cbn [mk_path st_of].
    destruct (q ++ [lin (plast q) (mv ax (sg * w) 0) false (negb (1 =? 0)%Z) (mk_speed c)]) eqn:E;
      [apply app_eq_nil in E; destruct E; discriminate|]. rewrite <- E. unfold ret, set_path, st_of. cbn [mk_path mk_sign].
    f_equal. f_equal. rewrite <- app_assoc. f_equal. cbn [app]. f_equal.
    rewrite (pfirst_app q _ Hq), plast_app. reflexivity.
  - cbn [for_each List.length passes]. unfold bind at 1. unfold bind at 1. unfold bind at 1. rewrite sign_next_at.
    unfold bind at 1. rewrite (linear3_ok c q (- sg) _ 1 Hq).
    assert (N1 : forall (l : list lpt) x, l ++ [x] <> []) by (intros l0 x E; apply app_eq_nil in E; destruct E; discriminate).
    unfold bind at 1. rewrite (linear3_ok c _ (- sg) _ 1 (N1 _ _)). cbn [ret].
    set (p := lin (plast q) (mv ax (sg * w) 0) false (negb (1 =? 0)%Z) (mk_speed c)).
    rewrite plast_app. cbn [last]. set (q' := lin p (mv ax 0 d) false (negb (1 =? 0)%Z) (mk_speed c)).
    destruct (IH ((q ++ [p]) ++ [q']) (- sg) (N1 _ _)) as [sg' IH']. exists sg'.
    unfold bind at 1 in IH'. rewrite IH'. f_equal. f_equal.
    rewrite <- !app_assoc. cbn [app]. f_equal. f_equal. f_equal.
    assert (Ep : plast (q ++ [p; q']) = q') by (rewrite plast_app; reflexivity). rewrite Ep.
    subst p q'. set (P := passes _ _ _ _ _ _ _).
    assert (HP : exists x m, P = x :: m) by apply passes_cons. destruct HP as [x [m Em]]. rewrite Em.
    f_equal. f_equal; [apply pfirst_app; exact Hq|apply last_cons_indep].
Qed.

Lemma zrange_length : forall n, List.length (zrange 0 n) = Z.to_nat n.
Proof. intros n. unfold zrange. rewrite map_length, seq_length. now rewrite Z.sub_0_r. Qed.

(* one continuous stroke of floor(|extent| / spacing) + 1 parallel lines stepping from the initial towards the final position;
   [ax] = true: lines parallel to x (orientation 'x' in any case), false: parallel to y *)
Theorem SRC_C14_meander : forall c xi yi zi fin xf yf w delta orientation ax,
  fin = [xf; yf] \/ (exists zf, fin = [xf; yf; zf]) ->
  (lower orientation = "x" /\ ax = true) \/ (lower orientation = "y" /\ ax = false) ->
  fst (src_meander c [xi; yi; zi] fin w delta orientation mk_s0) = Ret tt /\
  mk_path (snd (src_meander c [xi; yi; zi] fin w delta orientation mk_s0)) = meander (mcfg_of c) (xi, yi, zi) (xf, yf) w delta ax.
Proof.
  intros c xi yi zi fin xf yf w delta orientation ax Hfin Hor.
  assert (Hs : start_blk (xi, yi, zi) (mk_speed_pos c) <> []) by discriminate.
  destruct Hor as [[Ho Ha]|[Ho Ha]]; subst ax.
  - destruct (passes_loop c true w (qsign (yf - yi) * delta) (zrange 0 (Qfloor (Qabs (yf - yi) / delta)))
                (start_blk (xi, yi, zi) (mk_speed_pos c)) 1 Hs) as [sg' H].
    rewrite zrange_length in H.
    assert (E : src_meander c [xi; yi; zi] fin w delta orientation mk_s0 = (Ret tt, st_of
               (start_blk (xi, yi, zi) (mk_speed_pos c) ++ passes (mcfg_of c) (Z.to_nat (Qfloor (Qabs (yf - yi) / delta))) (plast (start_blk (xi, yi, zi) (mk_speed_pos c))) true 1 w (qsign (yf - yi) * delta) ++
                end_blk (pfirst (start_blk (xi, yi, zi) (mk_speed_pos c))) (last (passes (mcfg_of c) (Z.to_nat (Qfloor (Qabs (yf - yi) / delta))) (plast (start_blk (xi, yi, zi) (mk_speed_pos c))) true 1 w (qsign (yf - yi) * delta)) (plast (start_blk (xi, yi, zi) (mk_speed_pos c)))) (mk_speed_closed c)) sg')).
    { rewrite <- H. unfold src_meander. rewrite Ho. destruct Hfin as [Hf|[zf Hf]]; subst fin; reflexivity. }
    rewrite E. split; reflexivity.
  - destruct (passes_loop c false w (qsign (xf - xi) * delta) (zrange 0 (Qfloor (Qabs (xf - xi) / delta)))
                (start_blk (xi, yi, zi) (mk_speed_pos c)) 1 Hs) as [sg' H].
    rewrite zrange_length in H.
    assert (E : src_meander c [xi; yi; zi] fin w delta orientation mk_s0 = (Ret tt, st_of
               (start_blk (xi, yi, zi) (mk_speed_pos c) ++ passes (mcfg_of c) (Z.to_nat (Qfloor (Qabs (xf - xi) / delta))) (plast (start_blk (xi, yi, zi) (mk_speed_pos c))) false 1 w (qsign (xf - xi) * delta) ++
                end_blk (pfirst (start_blk (xi, yi, zi) (mk_speed_pos c))) (last (passes (mcfg_of c) (Z.to_nat (Qfloor (Qabs (xf - xi) / delta))) (plast (start_blk (xi, yi, zi) (mk_speed_pos c))) false 1 w (qsign (xf - xi) * delta)) (plast (start_blk (xi, yi, zi) (mk_speed_pos c)))) (mk_speed_closed c)) sg')).
    { rewrite <- H. unfold src_meander. rewrite Ho. destruct Hfin as [Hf|[zf Hf]]; subst fin; reflexivity. }
    rewrite E. split; reflexivity.
Qed.
Print Assumptions SRC_C14_meander.

(* a 2-D initial position lies at the marker's depth *)
Theorem SRC_C14_meander_2d : forall c xi yi fin xf yf w delta orientation ax,
  fin = [xf; yf] \/ (exists zf, fin = [xf; yf; zf]) ->
  (lower orientation = "x" /\ ax = true) \/ (lower orientation = "y" /\ ax = false) ->
  fst (src_meander c [xi; yi] fin w delta orientation mk_s0) = Ret tt /\
  mk_path (snd (src_meander c [xi; yi] fin w delta orientation mk_s0)) = meander (mcfg_of c) (xi, yi, mk_depth c) (xf, yf) w delta ax.
Proof.
  intros c xi yi fin xf yf w delta orientation ax Hfin Hor.
  assert (Hs : start_blk (xi, yi, mk_depth c) (mk_speed_pos c) <> []) by discriminate.
  destruct Hor as [[Ho Ha]|[Ho Ha]]; subst ax.
  - destruct (passes_loop c true w (qsign (yf - yi) * delta) (zrange 0 (Qfloor (Qabs (yf - yi) / delta)))
                (start_blk (xi, yi, mk_depth c) (mk_speed_pos c)) 1 Hs) as [sg' H].
    rewrite zrange_length in H.
    assert (E : src_meander c [xi; yi] fin w delta orientation mk_s0 = (Ret tt, st_of
               (start_blk (xi, yi, mk_depth c) (mk_speed_pos c) ++ passes (mcfg_of c) (Z.to_nat (Qfloor (Qabs (yf - yi) / delta))) (plast (start_blk (xi, yi, mk_depth c) (mk_speed_pos c))) true 1 w (qsign (yf - yi) * delta) ++
                end_blk (pfirst (start_blk (xi, yi, mk_depth c) (mk_speed_pos c))) (last (passes (mcfg_of c) (Z.to_nat (Qfloor (Qabs (yf - yi) / delta))) (plast (start_blk (xi, yi, mk_depth c) (mk_speed_pos c))) true 1 w (qsign (yf - yi) * delta)) (plast (start_blk (xi, yi, mk_depth c) (mk_speed_pos c)))) (mk_speed_closed c)) sg')).
    { rewrite <- H. unfold src_meander. rewrite Ho. destruct Hfin as [Hf|[zf Hf]]; subst fin; reflexivity. }
    rewrite E. split; reflexivity.
  - destruct (passes_loop c false w (qsign (xf - xi) * delta) (zrange 0 (Qfloor (Qabs (xf - xi) / delta)))
                (start_blk (xi, yi, mk_depth c) (mk_speed_pos c)) 1 Hs) as [sg' H].
    rewrite zrange_length in H.
    assert (E : src_meander c [xi; yi] fin w delta orientation mk_s0 = (Ret tt, st_of
               (start_blk (xi, yi, mk_depth c) (mk_speed_pos c) ++ passes (mcfg_of c) (Z.to_nat (Qfloor (Qabs (xf - xi) / delta))) (plast (start_blk (xi, yi, mk_depth c) (mk_speed_pos c))) false 1 w (qsign (xf - xi) * delta) ++
                end_blk (pfirst (start_blk (xi, yi, mk_depth c) (mk_speed_pos c))) (last (passes (mcfg_of c) (Z.to_nat (Qfloor (Qabs (xf - xi) / delta))) (plast (start_blk (xi, yi, mk_depth c) (mk_speed_pos c))) false 1 w (qsign (xf - xi) * delta)) (plast (start_blk (xi, yi, mk_depth c) (mk_speed_pos c)))) (mk_speed_closed c)) sg')).
    { rewrite <- H. unfold src_meander. rewrite Ho. destruct Hfin as [Hf|[zf Hf]]; subst fin; reflexivity. }
    rewrite E. split; reflexivity.
Qed.
Print Assumptions SRC_C14_meander_2d.

