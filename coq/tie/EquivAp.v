(* LaserPath.add_path as translated from the source (SrcAp.v, re-generated from /repo on every run): the single point at which
   anything is stored in a path.  For ANY reading of the float32 conversion [cast], of np.isfinite [fin] and of `> 0` [pos]:
   the call either raises ValueError and leaves the five arrays as they were, or appends the converted values - and it does
   the latter only when every converted coordinate / shutter value is finite and every converted feed finite and positive.
   With an idempotent conversion the stored values are exactly the checked ones, so "all stored coordinates finite, all stored
   feeds finite and positive" is an invariant of every history of calls.  Instantiated with the extended numbers of
   Path/Finite.v the translated method is the model's add_path. *)
From Coq Require Import List Bool ZArith QArith Lia.
Import ListNotations.
From Femto Require Import Base.Num Path.Finite.
From FemtoTie Require Import PyPrelude NpState SrcAp.

Section AddPath.
Context {cell : Type} (cast : cell -> cell) (fin : cell -> bool) (pos : cell -> bool).

Definition cols (xs ys zs fs ss : list cell) : ap_st cell :=
  {| ap__x := A1 xs; ap__y := A1 ys; ap__z := A1 zs; ap__f := A1 fs; ap__s := A1 ss |}.

Definition accepted (xs ys zs fs ss : list cell) : bool :=
  forallb fin (map cast xs) && forallb fin (map cast ys) && forallb fin (map cast zs) &&
  (forallb fin (map cast fs) && forallb pos (map cast fs)) && forallb fin (map cast ss).

Theorem SRC_C10_add_path : forall px py pz pf ps xs ys zs fs ss,
  src_add_path cast fin pos tt (A1 xs) (A1 ys) (A1 zs) (A1 fs) (A1 ss) (cols px py pz pf ps) =
  if accepted xs ys zs fs ss
  then (Ret tt, cols (px ++ map cast (map cast xs)) (py ++ map cast (map cast ys)) (pz ++ map cast (map cast zs))
                     (pf ++ map cast (map cast fs)) (ps ++ map cast (map cast ss)))
  else (Exc EValue, cols px py pz pf ps).
Proof.
  intros. unfold src_add_path, accepted. cbv zeta. cbn [nd_map nd_all].
  destruct (forallb fin (map cast xs)); cbn [andb negb]; [|reflexivity].
  destruct (forallb fin (map cast ys)); cbn [andb negb]; [|reflexivity].
  destruct (forallb fin (map cast zs)); cbn [andb negb]; [|reflexivity].
  destruct (forallb fin (map cast fs)); cbn [andb negb]; [|reflexivity].
  destruct (forallb pos (map cast fs)); cbn [andb negb]; [|reflexivity].
  destruct (forallb fin (map cast ss)); cbn [andb negb]; reflexivity.
Qed.

(* every stored coordinate and shutter value finite, every stored feed finite and positive *)
Definition stored_ok (st : ap_st cell) : Prop :=
  nd_all fin (ap__x st) = true /\ nd_all fin (ap__y st) = true /\ nd_all fin (ap__z st) = true /\
  nd_all fin (ap__f st) = true /\ nd_all pos (ap__f st) = true /\ nd_all fin (ap__s st) = true.

Hypothesis cast_idem : forall v, cast (cast v) = cast v.       (* narrowing an already narrowed value changes nothing *)

Lemma map_cast_idem : forall l, map cast (map cast l) = map cast l.
Proof. intros l. rewrite map_map. apply map_ext. intros a. apply cast_idem. Qed.

Theorem SRC_C10_store_point : forall px py pz pf ps xs ys zs fs ss,
  stored_ok (cols px py pz pf ps) ->
  let r := src_add_path cast fin pos tt (A1 xs) (A1 ys) (A1 zs) (A1 fs) (A1 ss) (cols px py pz pf ps) in
  stored_ok (snd r) /\ (fst r <> Ret tt -> snd r = cols px py pz pf ps).
Proof.
  intros px py pz pf ps xs ys zs fs ss H r. subst r. rewrite SRC_C10_add_path. unfold accepted.
  destruct H as (Hx & Hy & Hz & Hf & Hp & Hs). cbn [cols ap__x ap__y ap__z ap__f ap__s nd_all] in *.
  destruct (forallb fin (map cast xs)) eqn:Ex; cbn [andb]; [|split; [repeat split; assumption|reflexivity]].
  destruct (forallb fin (map cast ys)) eqn:Ey; cbn [andb]; [|split; [repeat split; assumption|reflexivity]].
  destruct (forallb fin (map cast zs)) eqn:Ez; cbn [andb]; [|split; [repeat split; assumption|reflexivity]].
  destruct (forallb fin (map cast fs)) eqn:Ef; cbn [andb]; [|split; [repeat split; assumption|reflexivity]].
  destruct (forallb pos (map cast fs)) eqn:Ep; cbn [andb]; [|split; [repeat split; assumption|reflexivity]].
  destruct (forallb fin (map cast ss)) eqn:Es; cbn [andb]; [|split; [repeat split; assumption|reflexivity]].
  cbn [fst snd]. split; [|congruence].
  unfold stored_ok. cbn [cols ap__x ap__y ap__z ap__f ap__s nd_all]. rewrite !map_cast_idem, !forallb_app.
  rewrite Hx, Hy, Hz, Hf, Hp, Hs, Ex, Ey, Ez, Ef, Ep, Es. repeat split; reflexivity.
Qed.

(* any history of add_path calls on a new path, exceptions caught *)
Definition call (st : ap_st cell) (b : list cell * list cell * list cell * list cell * list cell) : ap_st cell :=
  let '(xs, ys, zs, fs, ss) := b in snd (src_add_path cast fin pos tt (A1 xs) (A1 ys) (A1 zs) (A1 fs) (A1 ss) st).

Definition flat_state (st : ap_st cell) : Prop :=
  exists px py pz pf ps, st = cols px py pz pf ps.

Theorem SRC_C10_history : forall blocks, stored_ok (fold_left call blocks (cols [] [] [] [] [])).
Proof.
  intros blocks.
  assert (G : forall l st, flat_state st -> stored_ok st -> flat_state (fold_left call l st) /\ stored_ok (fold_left call l st)).
  { induction l as [|b l IH]; intros st Hf Hs; [split; assumption|]. cbn [fold_left]. apply IH.
    - destruct Hf as (px & py & pz & pf & ps & ->). destruct b as [[[[xs ys] zs] fs] ss]. unfold call. rewrite SRC_C10_add_path.
      destruct (accepted xs ys zs fs ss); cbn [snd]; do 5 eexists; reflexivity.
    - destruct Hf as (px & py & pz & pf & ps & ->). destruct b as [[[[xs ys] zs] fs] ss]. unfold call.
      exact (proj1 (SRC_C10_store_point px py pz pf ps xs ys zs fs ss Hs)). }
  apply G; [do 5 eexists; reflexivity|repeat split; reflexivity].
Qed.
End AddPath.
Print Assumptions SRC_C10_add_path.
Print Assumptions SRC_C10_store_point.
Print Assumptions SRC_C10_history.

(* ---- with the extended numbers of Path/Finite.v: the translated method is the model's add_path on the rows ---- *)
Definition cols_of_path (p : list xpt) : ap_st xnum := cols (map ex p) (map ey p) (map ez p) (map ef p) (map es p).

Lemma positive_finite : forall v, positive v = true -> finite v = true.
Proof. intros [q| |]; cbn; congruence. Qed.

Lemma ok_rows_cols : forall b : list xpt,
  forallb ok_pt b =
  forallb finite (map ex b) && forallb finite (map ey b) && forallb finite (map ez b) &&
  (forallb finite (map ef b) && forallb positive (map ef b)) && forallb finite (map es b).
Proof.
  induction b as [|p b IH]; [reflexivity|]. cbn [forallb map]. rewrite IH. unfold ok_pt.
  destruct (finite (ex p)), (finite (ey p)), (finite (ez p)), (positive (ef p)) eqn:Ep, (finite (es p)); cbn [andb];
    try rewrite (positive_finite _ Ep); cbn [andb];
    repeat match goal with |- context [forallb ?f ?l] => destruct (forallb f l); cbn [andb] end;
    try reflexivity; destruct (finite (ef p)); reflexivity.
Qed.

Theorem SRC_C10_is_the_model : forall path blk,
  (forall p, In p blk -> cast_pt (cast_pt p) = cast_pt p) ->
  src_add_path cast32 finite positive tt (A1 (map ex blk)) (A1 (map ey blk)) (A1 (map ez blk)) (A1 (map ef blk)) (A1 (map es blk)) (cols_of_path path) =
  match add_path path blk with
  | Some path' => (Ret tt, cols_of_path path')
  | None => (Exc EValue, cols_of_path path)
  end.
Proof.
  intros path blk Hid. unfold cols_of_path. rewrite SRC_C10_add_path. unfold add_path, accepted.
  rewrite ok_rows_cols. rewrite !map_map. cbn [cast_pt ex ey ez ef es].
  match goal with |- (if ?b then _ else _) = _ => destruct b end; [|reflexivity].
  f_equal. rewrite !map_app, !map_map.
  assert (E : forall (g : xpt -> xnum) (h : xpt -> xpt -> Prop), True) by trivial. clear E.
  assert (Ex : forall sel : xpt -> xnum, (forall p, sel (cast_pt p) = cast32 (sel p)) ->
                map (fun p => cast32 (cast32 (sel p))) blk = map (fun p => sel (cast_pt p)) blk).
  { intros sel Hsel. apply map_ext_in. intros p Hp. rewrite <- !Hsel. now rewrite (Hid p Hp). }
  rewrite (Ex ex), (Ex ey), (Ex ez), (Ex ef), (Ex es) by reflexivity. reflexivity.
Qed.
Print Assumptions SRC_C10_is_the_model.
