(* TrenchColumn.n_repeat / adj_bridge as translated from the source: the ceiling of Trench/TreeProofs.v, and bridge/2 + waist + corner  (generated source definitions: SrcTc.v, re-generated from /repo on every run) *)
From Coq Require Import List Bool ZArith NArith QArith Qabs Qround String Ascii Lia Lqa.
Import ListNotations.
From Femto Require Import Base.Num Trench.TreeProofs.
From FemtoTie Require Import PyPrelude PgmState PureState SrcTc.

(* ---- C06: the number of wall passes ---- *)
Theorem SRC_n_repeat : forall c s, (0 <= (tc_h_box c - tc_z_off c) / tc_deltaz c)%Q ->
  src_n_repeat c s = (Ret (nrep (tc_h_box c) (tc_z_off c) (tc_deltaz c)), s).
Proof.
  intros c s H. unfold src_n_repeat, nrep, ret, to_int, toint_Z, pyabs, abs_Z, pydiv, div_QQ, pysub, sub_Q.
  f_equal. f_equal. apply Z.abs_eq.
  pose proof (Qle_ceiling ((tc_h_box c - tc_z_off c) / tc_deltaz c)) as Hc.
  assert (Hi : (0 <= inject_Z (Qceiling ((tc_h_box c - tc_z_off c) / tc_deltaz c)))%Q) by (eapply Qle_trans; eassumption).
  unfold Qle, inject_Z in Hi. cbn in Hi. lia.
Qed.
Print Assumptions SRC_n_repeat.

(* ---- C05: the adjusted bridge ---- *)
Theorem SRC_adj_bridge : forall c s,
  src_adj_bridge c s = (Ret (tc_bridge c / 2 + tc_beam_waist c + tc_round_corner c)%Q, s).
Proof. intros c s. reflexivity. Qed.
Print Assumptions SRC_adj_bridge.
