(* Trench.toolpath as translated from the source (SrcTr.v, re-generated from /repo on every run) is the work-list model
   Trench/Toolpath.v for every geometry oracle: same yields in the same order, normal termination. *)
From Coq Require Import List Bool ZArith Lia.
Import ListNotations.
From Femto Require Import Trench.Toolpath.
From FemtoTie Require Import PyPrelude TrState SrcTr.

Section Tr.
Context {Poly : Type} (G : geom Poly).
Notation ins := (insets (g_is_empty G) (g_inset G)).
Notation yl := (list (@yld Poly)).

(* the body of the inset loop, as generated *)
Definition ibody : Z -> list Poly * bool -> MY Poly (list Poly * bool) :=
  fun _ '(polygon_list, brk__) =>
    if brk__ then ret (polygon_list, brk__)
    else if negb (truthy polygon_list) then (let brk__ := true in ret (polygon_list, brk__))
    else match polygon_list with
         | [] => raise EIndex
         | current_poly :: polygon_list =>
             if negb (g_is_empty G current_poly)
             then (let polygon_list := (polygon_list ++ g_inset G current_poly)%list in
                   emit_yield (YContour current_poly) ;;; ret (polygon_list, brk__))
             else ret (polygon_list, brk__)
         end.

Lemma loop_broken : forall (l : list Z) (ys : yl), for_each l ([], true) ibody ys = (Ret ([], true), ys).
Proof. induction l as [|a l IH]; intros ys; [reflexivity|]. cbn [for_each]. unfold bind. cbn. apply IH. Qed.

Lemma loop_spec : forall (l : list Z) (pl : list Poly) (ys : yl),
  exists b, for_each l (pl, false) ibody ys =
            (Ret (snd (fst (ins (length l) pl)), b), ys ++ fst (fst (ins (length l) pl))).
Proof.
  induction l as [|a l IH]; intros pl ys.
  - exists false. cbn. now rewrite app_nil_r.
  - cbn [for_each length insets]. destruct pl as [|p r].
    + exists true. unfold bind. cbn. rewrite loop_broken. cbn. now rewrite app_nil_r.
    + unfold bind at 1. cbn [ibody truthy truthy_list negb].
      destruct (g_is_empty G p) eqn:Ep; cbn [negb].
      * cbn [ret]. apply IH.
      * unfold bind at 1. unfold emit_yield, modify, ret. cbv iota beta.
        destruct (IH (r ++ g_inset G p) (ys ++ [to_yield (YContour p)])) as [b Hb]. exists b. rewrite Hb.
        destruct (ins (length l) (r ++ g_inset G p)) as [[ys1 l1] o1]. cbn. now rewrite <- app_assoc.
Qed.

Definition hbody : Poly -> unit -> MY Poly unit :=
  fun poly _ => let hatching := (poly, g_hatch G poly) in
                if truthy (snd hatching) then emit_yield hatching ;;; ret tt else ret tt.

Lemma hatch_spec : (forall p, g_is_empty G p = true -> g_hatch G p = O) ->
  forall (pl : list Poly) (ys : yl),
  for_each pl tt hbody ys = (Ret tt, ys ++ hatches (g_is_empty G) (g_hatch G) pl).
Proof.
  intros He. induction pl as [|p pl IH]; intros ys.
  - cbn. now rewrite app_nil_r.
  - cbn [for_each hatches flat_map]. unfold bind at 1. unfold hbody at 1. cbv zeta. cbn [snd].
    destruct (g_is_empty G p) eqn:Ep.
    + rewrite (He p Ep). cbn. apply IH.
    + destruct (g_hatch G p) as [|k] eqn:Eh; cbn [truthy truthy_nat].
      * cbn. apply IH.
      * unfold bind at 1. unfold emit_yield, modify, ret. cbv iota beta. rewrite IH. cbn. now rewrite <- app_assoc.
Qed.

Lemma zrange0 : forall n, (0 <= n)%Z -> length (zrange (of_int 0) n) = Z.to_nat n.
Proof. intros n Hn. unfold zrange, of_int, ofint_Z. rewrite map_length, seq_length. f_equal. lia. Qed.

Lemma ins_done : forall n pl, snd (ins n pl) = Done.
Proof.
  induction n as [|n IH]; intros pl; [reflexivity|]. cbn. destruct pl as [|p r]; [reflexivity|].
  destruct (g_is_empty G p); [apply IH|]. specialize (IH (r ++ g_inset G p)).
  destruct (ins n (r ++ g_inset G p)) as [[a b] o]. exact IH.
Qed.
End Tr.

(* for every geometry oracle (an empty polygon gives no hatch line) and every block: the translated generator terminates
   normally and has yielded exactly what the model says - contours first, hatchings last *)
Theorem SRC_toolpath : forall (Poly : Type) (G : geom Poly) (c : tr_cfg Poly),
  (0 <= tr_num_insets c)%Z -> (forall p, g_is_empty G p = true -> g_hatch G p = O) ->
  src_toolpath G c [] =
  (Ret tt, fst (toolpath (g_is_empty G) (g_inset G) (g_hatch G) (Z.to_nat (tr_num_insets c)) (tr_block c)))
  /\ snd (toolpath (g_is_empty G) (g_inset G) (g_hatch G) (Z.to_nat (tr_num_insets c)) (tr_block c)) = Done.
Proof.
  intros Poly G c Hn He. unfold src_toolpath, toolpath.
  change (fun (_ : Z) '(polygon_list, brk__) => _) with (ibody G).
  destruct (loop_spec G (zrange (of_int 0) (tr_num_insets c)) [tr_block c] []) as [b Hb].
  rewrite (zrange0 _ Hn) in Hb. pose proof (ins_done G (Z.to_nat (tr_num_insets c)) [tr_block c]) as Hd.
  destruct (insets (g_is_empty G) (g_inset G) (Z.to_nat (tr_num_insets c)) [tr_block c]) as [[ys1 l1] o1].
  cbn [fst snd] in *. subst o1. split; [|reflexivity].
  unfold bind at 1. rewrite Hb. cbv iota beta.
  change (fun (poly : Poly) (_ : unit) => _) with (hbody G).
  unfold bind at 1. rewrite (hatch_spec G He). reflexivity.
Qed.
Print Assumptions SRC_toolpath.
