(* The attributes that the small pure methods translated into PureSrc.v read through self. *)
From Coq Require Import ZArith QArith.
From FemtoTie Require Import PyPrelude.

(* int (+|-) float, only for the pure groups: in PgmSrc.v `int(num) - 1` must stay an integer subtraction *)
Global Instance add_ZQ : PyAdd Z Q Q | 10 := fun z q => (inject_Z z + q)%Q.
Global Instance sub_ZQ : PySub Z Q Q | 10 := fun z q => (inject_Z z - q)%Q.

Record lp_cfg := { lp_speed : Q; lp_cmd_rate_max : Q }.                       (* LaserPath: speed, cmd_rate_max *)
Record nw_cfg := { nw_adj_scan : Z }.                                         (* NasuWaveguide: adj_scan *)
Record tc_cfg := { tc_bridge : Q; tc_beam_waist : Q; tc_round_corner : Q;     (* TrenchColumn *)
                   tc_h_box : Q; tc_z_off : Q; tc_deltaz : Q }.
