(* helpers.unique_filter, helpers.split_mask and the LaserPath views as translated from the source (SrcUf.v, re-generated from
   /repo on every run; numpy operations read as coq/tie/NpState.v) are the models Base/Dedup.v and Base/Runs.v:
   - split_mask returns Runs.split_mask (hence the maximal runs of selected elements, RunsProofs.split_mask_eq_runs);
   - unique_filter of k >= 2 equally long arrays is the transposed `dedup` of the rows, with two rows equal iff all their cells are;
   - points / x / y / z / lastx / lasty / lastz / lastpt / path3d / path are projections of that matrix. *)
From Coq Require Import List Bool ZArith Lia.
Import ListNotations.
From Femto Require Import Base.Dedup Base.DedupProofs Base.Runs Base.RunsProofs.
From FemtoTie Require Import PyPrelude NpState SrcUf.

(* ---------------- lists ---------------- *)
Lemma removelast_cons_length : forall {X} (r : list X) b, length (removelast (b :: r)) = length r.
Proof. induction r as [|x r IH]; intros b; [reflexivity|]. change (removelast (b :: x :: r)) with (b :: removelast (x :: r)). cbn [length]. now rewrite IH. Qed.

Lemma tl_removelast_length : forall {X} (l : list X), Nat.eqb (length (tl l)) (length (removelast l)) = true.
Proof. intros X [|b r]; [reflexivity|]. cbn [tl]. rewrite removelast_cons_length. apply Nat.eqb_refl. Qed.

Lemma map_tl : forall {X Y} (f : X -> Y) l, map f (tl l) = tl (map f l).
Proof. intros X Y f [|a l]; reflexivity. Qed.

Lemma evens_map_aux : forall {X Y} (f : X -> Y) l,
  evens (map f l) = map f (evens l) /\ forall x, evens (map f (x :: l)) = map f (evens (x :: l)).
Proof.
  induction l as [|a l [IH1 IH2]]; [split; [reflexivity|intros; reflexivity]|].
  split; [apply IH2|]. intros x. cbn [map evens]. f_equal. exact IH1.
Qed.
Lemma evens_map : forall {X Y} (f : X -> Y) l, evens (map f l) = map f (evens l).
Proof. intros. apply evens_map_aux. Qed.
Lemma every_other_evens : forall {X} (l : list (list X)), every_other l = evens l.
Proof.
  intros X. assert (H : forall l : list (list X), every_other l = evens l /\ forall x, every_other (x :: l) = evens (x :: l)).
  { induction l as [|a l [IH1 IH2]]; [split; [reflexivity|intros; reflexivity]|]. split; [apply IH2|]. intros x. cbn. f_equal. exact IH1. }
  intros l. apply H.
Qed.

(* the positions at which a mask changes, as numpy computes them and as Runs.indices does *)
Lemma nonzero_change : forall r b i,
  nonzero_from i (map2 (fun x y => negb (Bool.eqb x y)) r (removelast (b :: r))) = change_idx b i r.
Proof.
  induction r as [|x r IH]; intros b i; [reflexivity|].
  change (removelast (b :: x :: r)) with (b :: removelast (x :: r)). cbn [map2 nonzero_from change_idx].
  rewrite IH. destruct (Bool.eqb x b); reflexivity.
Qed.

(* ---------------- split_mask ---------------- *)
Theorem SRC_C11_split_mask : forall {cell} c (arr : list cell) m s,
  src_split_mask c (A1 arr) (A1 m) s =
  (match split_mask arr m with Some r => Ret (map A1 r) | None => Exc EIndex end, s).
Proof.
  intros cell c arr m s. unfold src_split_mask. cbv zeta.
  destruct m as [|b r]; [reflexivity|].
  replace (pyeq (nd_size (A1 (b :: r))) (of_int 0)) with false
    by (unfold pyeq, pyeq_Z, nd_size, of_int, ofint_Z; symmetry; apply Z.eqb_neq; cbn [length]; lia).
  unfold bind at 1. cbn [nd_from1 ret tl]. unfold bind at 1. cbn [nd_to_m1 ret].
  unfold bind at 1, nd_ne. rewrite removelast_cons_length, Nat.eqb_refl. cbn [ret].
  unfold bind at 1. cbn [nd_nonzero_succ ret]. unfold cell_eqb, celleq_bool. rewrite nonzero_change.
  unfold bind at 1. cbn [nd_split ret]. unfold bind at 1. cbn [nd_item py_nth length].
  replace ((0 <? 0)%Z) with false by reflexivity.
  replace (((0 <=? 0)%Z && (0 <? Z.of_nat (S (length r)))%Z)%bool) with true
    by (symmetry; apply andb_true_iff; split; [reflexivity|apply Z.ltb_lt; lia]).
  cbn [Z.to_nat nth_error ret]. unfold bind at 1. cbn [nd_scalar ret].
  unfold split_mask, indices. rewrite !every_other_evens. unfold odds.
  destruct b; unfold ret; repeat f_equal; [now rewrite evens_map|].
  rewrite <- evens_map. f_equal. now rewrite map_tl.
Qed.
Print Assumptions SRC_C11_split_mask.

Theorem SRC_C11_split_mask_runs : forall {cell} c (arr : list cell) m s, length arr = length m ->
  src_split_mask c (A1 arr) (A1 m) s = (Ret (map A1 (runs arr m)), s).
Proof. intros cell c arr m s H. rewrite SRC_C11_split_mask. now rewrite (split_mask_eq_runs arr m H). Qed.
Print Assumptions SRC_C11_split_mask_runs.

(* ---------------- unique_filter ---------------- *)
Section UF.
Context {cell : Type} (ceq : cell -> cell -> bool) (cast : cell -> cell).

Definition cne (x y : cell) : bool := negb (ceq x y).
(* two points are the same point iff all their coordinates are equal *)
Definition row_eq (r1 r2 : list cell) : bool := forallb (fun b => b) (map2 ceq r1 r2).

Lemma exists_ne_row : forall r1 r2, existsb (fun b => b) (map2 cne r1 r2) = negb (row_eq r1 r2).
Proof.
  unfold row_eq, cne. induction r1 as [|x r1 IH]; intros [|y r2]; try reflexivity.
  cbn [map2 existsb forallb]. rewrite IH. now destruct (ceq x y).
Qed.

Lemma mask_rows : forall r x,
  map (existsb (fun b => b)) (map2 (map2 cne) r (removelast (x :: r))) = mask_from row_eq x r.
Proof.
  induction r as [|y r IH]; intros x; [reflexivity|].
  change (removelast (x :: y :: r)) with (x :: removelast (y :: r)). cbn [map2 map mask_from]. now rewrite IH, exists_ne_row.
Qed.

Lemma mask_cells : forall r x, map2 cne r (removelast (x :: r)) = mask_from ceq x r.
Proof.
  induction r as [|y r IH]; intros x; [reflexivity|].
  change (removelast (x :: y :: r)) with (x :: removelast (y :: r)). cbn [map2 mask_from]. now rewrite IH.
Qed.

Lemma mask_from_length : forall {X} (e : X -> X -> bool) r x, length (mask_from e x r) = length r.
Proof. induction r as [|y r IH]; intros x; [reflexivity|]. cbn. now rewrite IH. Qed.

(* the pipeline on a 2-d matrix given by its rows *)
Lemma uf_rows : forall (rows : list (list cell)) s, rows <> [] -> concat rows <> [] ->
  (mask <- catch_axis (sl2 <- nd_from1 (A2 rows) ;; sl3 <- nd_to_m1 (A2 rows) ;; ne4 <- nd_ne ceq sl2 sl3 ;; any5 <- nd_any_axis1 ne4 ;; ret any5)
                      (sl6 <- nd_from1 (A2 rows) ;; sl7 <- nd_to_m1 (A2 rows) ;; ne8 <- nd_ne ceq sl6 sl7 ;; ret ne8) ;;
   let mask := nd_insert0 true mask in
   if pyeq (nd_size (A2 rows)) (of_int 0) then ret (A1 []) else sel9 <- nd_bool_index mask (A2 rows) ;; ret (nd_T sel9)) s
  = (Ret (nd_T (A2 (dedup row_eq rows))), s).
Proof.
  intros rows s Hne Hc. destruct rows as [|x r]; [congruence|].
  unfold catch_axis, bind at 1. cbn [nd_from1 nd_to_m1 ret tl].
  unfold bind at 1 2 3 4. cbn [ret]. unfold nd_ne. rewrite removelast_cons_length, Nat.eqb_refl. cbn [ret nd_any_axis1].
  fold cne. rewrite mask_rows. cbv zeta. cbn [nd_insert0].
  replace (pyeq (nd_size (A2 (x :: r))) (of_int 0)) with false.
  2:{ unfold pyeq, pyeq_Z, nd_size, of_int, ofint_Z. symmetry. apply Z.eqb_neq. destruct (concat (x :: r)); [congruence|cbn [length]; lia]. }
  unfold bind. cbn [nd_bool_index length]. rewrite mask_from_length, Nat.eqb_refl. cbn [ret]. reflexivity.
Qed.

Lemma uf_cells : forall (l : list cell) s, l <> [] ->
  (mask <- catch_axis (sl2 <- nd_from1 (A1 l) ;; sl3 <- nd_to_m1 (A1 l) ;; ne4 <- nd_ne ceq sl2 sl3 ;; any5 <- nd_any_axis1 ne4 ;; ret any5)
                      (sl6 <- nd_from1 (A1 l) ;; sl7 <- nd_to_m1 (A1 l) ;; ne8 <- nd_ne ceq sl6 sl7 ;; ret ne8) ;;
   let mask := nd_insert0 true mask in
   if pyeq (nd_size (A1 l)) (of_int 0) then ret (A1 []) else sel9 <- nd_bool_index mask (A1 l) ;; ret (nd_T sel9)) s
  = (Ret (A1 (dedup ceq l)), s).
Proof.
  intros l s Hne. destruct l as [|x r]; [congruence|].
  unfold catch_axis, bind at 1. cbn [nd_from1 nd_to_m1 ret tl].
  unfold bind at 1 2 3 4. cbn [ret]. unfold nd_ne. rewrite removelast_cons_length, Nat.eqb_refl. cbn [ret nd_any_axis1].
  unfold bind at 1 2 3. cbn [nd_from1 nd_to_m1 ret tl]. rewrite removelast_cons_length, Nat.eqb_refl. cbn [ret].
  fold cne. rewrite mask_cells. cbv zeta. cbn [nd_insert0].
  replace (pyeq (nd_size (A1 (x :: r))) (of_int 0)) with false
    by (unfold pyeq, pyeq_Z, nd_size, of_int, ofint_Z; symmetry; apply Z.eqb_neq; cbn [length]; lia).
  unfold bind, raise. cbn [nd_insert0 ret nd_bool_index length]. rewrite mask_from_length, Nat.eqb_refl. cbn [ret nd_T]. reflexivity.
Qed.

(* ---- columns and rows ---- *)
Lemma heads_length : forall (cols : list (list cell)), Forall (fun c => c <> []) cols -> length (heads cols) = length cols.
Proof.
  induction cols as [|c cols IH]; intros H; [reflexivity|]. inversion H as [|? ? Hc Hr]; subst.
  destruct c as [|a c]; [congruence|]. unfold heads in *. cbn [flat_map app length]. now rewrite IH.
Qed.

Lemma cols_of_rect : forall n (cols : list (list cell)), Forall (fun c => length c = n) cols ->
  Forall (fun r => length r = length cols) (cols_of n cols) /\ length (cols_of n cols) = n.
Proof.
  induction n as [|n IH]; intros cols H; [split; [constructor|reflexivity]|]. cbn [cols_of].
  assert (Hne : Forall (fun c : list cell => c <> []) cols)
    by (eapply Forall_impl; [|exact H]; intros a Ha E; subst; discriminate).
  assert (Ht : Forall (fun c : list cell => length c = n) (map (@tl cell) cols)).
  { apply Forall_map. eapply Forall_impl; [|exact H]. intros [|a l] Ha; cbn in *; lia. }
  destruct (IH _ Ht) as [IH1 IH2]. rewrite map_length in IH1. split; [|cbn [length]; now rewrite IH2].
  constructor; [now apply heads_length|exact IH1].
Qed.

Lemma all_1d_cols : forall n (cols : list (list cell)), Forall (fun c => length c = n) cols -> all_1d n (map A1 cols) = Some cols.
Proof.
  induction cols as [|c cols IH]; intros H; [reflexivity|]. inversion H as [|? ? Hc Hr]; subst.
  cbn [map all_1d]. rewrite Nat.eqb_refl, (IH Hr). reflexivity.
Qed.

Lemma select_Forall : forall {X} (P : X -> Prop) m l, Forall P l -> Forall P (select m l).
Proof.
  induction m as [|b m IH]; intros l H; [constructor|]. destruct l as [|x l]; [constructor|]. inversion H; subst.
  cbn [select]. destruct b; [constructor; [assumption|]|]; now apply IH.
Qed.

Lemma stack_cols : forall n (cols : list (list cell)) s, cols <> [] -> Forall (fun a => length a = n) cols ->
  nd_stack_last (map A1 cols) s = (Ret (A2 (cols_of n cols)), s).
Proof.
  intros n [|c0 cols'] s Hne Hl; [congruence|]. assert (H : length c0 = n) by (inversion Hl; assumption).
  unfold nd_stack_last. cbn [map]. change (A1 c0 :: map A1 cols') with (map (@A1 cell) (c0 :: cols')).
  rewrite H, (all_1d_cols n _ Hl). reflexivity.
Qed.

Lemma not_one : forall (cols : list (list cell)), (2 <= length cols)%nat ->
  negb (truthy (map (@A1 cell) cols)) = false /\ pyeq (py_len (map (@A1 cell) cols)) (of_int 1) = false /\ cols <> [].
Proof.
  intros cols Hk. destruct cols as [|c0 cols']; [cbn in Hk; lia|]. split; [reflexivity|]. split; [|discriminate].
  unfold pyeq, pyeq_Z, py_len, of_int, ofint_Z. apply Z.eqb_neq. rewrite map_length. lia.
Qed.

(* the matrix of points of k equally long arrays *)
Definition points_of (n : nat) (cols : list (list cell)) : list (list cell) := map (map cast) (cols_of n cols).

Theorem SRC_C11_unique_filter_matrix : forall c n (cols : list (list cell)) s,
  (2 <= length cols)%nat -> (1 <= n)%nat -> Forall (fun a => length a = n) cols ->
  src_unique_filter ceq cast c (map A1 cols) s =
  (Ret (A2 (cols_of (length cols) (dedup row_eq (points_of n cols)))), s).
Proof.
  intros c n cols s Hk Hn Hl. unfold src_unique_filter.
  destruct (not_one cols Hk) as [E1 [E2 Hne0]]. rewrite E1, E2.
  unfold bind at 1. rewrite (stack_cols n cols s Hne0 Hl). cbn [nd_map].
  destruct (cols_of_rect n cols Hl) as [Hr Hlen].
  fold (points_of n cols).
  assert (Hrp : Forall (fun r => length r = length cols) (points_of n cols))
    by (unfold points_of; apply Forall_map; eapply Forall_impl; [|exact Hr]; intros a Ha; now rewrite map_length).
  assert (Hpl : length (points_of n cols) = n) by (unfold points_of; now rewrite map_length).
  assert (Hne : points_of n cols <> []) by (intros E; rewrite E in Hpl; cbn in Hpl; lia).
  assert (Hcc : concat (points_of n cols) <> []).
  { destruct (points_of n cols) as [|r0 rs]; [congruence|]. inversion Hrp as [|? ? H0 ?]; subst.
    destruct r0; [cbn in H0; lia|cbn; discriminate]. }
  transitivity (Ret (nd_T (A2 (dedup row_eq (points_of n cols)))), s); [exact (uf_rows _ s Hne Hcc)|].
  f_equal. f_equal.
  unfold dedup. destruct (points_of n cols) as [|r0 rs] eqn:E; [congruence|]. cbn [keep_mask select nd_T].
  inversion Hrp as [|? ? H0 ?]; subst. now rewrite H0.
Qed.

Theorem SRC_C11_unique_filter_no_points : forall c (cols : list (list cell)) s,
  (2 <= length cols)%nat -> Forall (fun a => length a = 0%nat) cols ->
  src_unique_filter ceq cast c (map A1 cols) s = (Ret (A1 []), s).
Proof.
  intros c cols s Hk Hl. unfold src_unique_filter.
  destruct (not_one cols Hk) as [E1 [E2 Hne0]]. rewrite E1, E2.
  unfold bind at 1. rewrite (stack_cols 0 cols s Hne0 Hl). reflexivity.
Qed.

Theorem SRC_C11_unique_filter_single : forall c (l : list cell) s,
  src_unique_filter ceq cast c [A1 l] s = (Ret (A1 (dedup ceq l)), s).
Proof.
  intros c l s. unfold src_unique_filter. cbn [truthy truthy_list negb py_len length].
  replace (pyeq (Z.of_nat 1) (of_int 1)) with true by reflexivity.
  unfold bind at 1. cbn [ret]. cbv zeta. destruct l as [|x r]; [reflexivity|].
  exact (uf_cells (x :: r) s ltac:(discriminate)).
Qed.

Theorem SRC_C11_unique_filter_nothing : forall c s, src_unique_filter ceq cast c [] s = (Ret (A1 []), s).
Proof. reflexivity. Qed.
End UF.
Print Assumptions SRC_C11_unique_filter_matrix.
Print Assumptions SRC_C11_unique_filter_no_points.
Print Assumptions SRC_C11_unique_filter_single.
Print Assumptions SRC_C11_unique_filter_nothing.

(* ---------------- indexing from the end ---------------- *)
Lemma last_indep : forall {X} (l : list X) a d1 d2, last (a :: l) d1 = last (a :: l) d2.
Proof.
  intros X l. induction l as [|b l IH]; intros a d1 d2; [reflexivity|].
  change (last (a :: b :: l) d1) with (last (b :: l) d1). change (last (a :: b :: l) d2) with (last (b :: l) d2). apply IH.
Qed.
Lemma nth_error_last : forall {X} (l : list X) a, nth_error (a :: l) (length l) = Some (last (a :: l) a).
Proof.
  intros X l. induction l as [|b l IH]; intros a; [reflexivity|].
  change (nth_error (a :: b :: l) (length (b :: l))) with (nth_error (b :: l) (length l)). rewrite IH.
  change (last (a :: b :: l) a) with (last (b :: l) a). f_equal. apply last_indep.
Qed.

Lemma py_nth_m1 : forall {X} (l : list X) a, py_nth (a :: l) (-1) = Some (last (a :: l) a).
Proof.
  intros X l a. unfold py_nth. replace ((-1 <? 0)%Z) with true by reflexivity.
  replace (Z.of_nat (length (a :: l)) + -1)%Z with (Z.of_nat (length l)) by (cbn [length]; lia).
  replace ((0 <=? Z.of_nat (length l))%Z && (Z.of_nat (length l) <? Z.of_nat (length (a :: l)))%Z)%bool with true.
  2:{ symmetry. apply andb_true_iff. split; [apply Z.leb_le; lia|apply Z.ltb_lt; cbn [length]; lia]. }
  rewrite Nat2Z.id. apply nth_error_last.
Qed.

(* ---------------- the views of a recorded trajectory ---------------- *)
Section Views.
Context {cell : Type} (ceq : cell -> cell -> bool) (cast : cell -> cell) (nz : cell -> bool).

Definition traj (xs ys zs fs ss : list cell) : lv_cfg cell :=
  {| lv__x := A1 xs; lv__y := A1 ys; lv__z := A1 zs; lv__f := A1 fs; lv__s := A1 ss |}.

(* the reported matrix, as rows [x; y; z; f; s] *)
Definition kept (n : nat) (xs ys zs fs ss : list cell) : list (list cell) :=
  dedup (row_eq ceq) (points_of cast n [xs; ys; zs; fs; ss]).
(* column j of a list of rows *)
Definition colj (j : nat) (rows : list (list cell)) : list cell := heads (Nat.iter j (map (@tl cell)) rows).

Lemma cols_of_5 : forall rows : list (list cell),
  cols_of 5 rows = [colj 0 rows; colj 1 rows; colj 2 rows; colj 3 rows; colj 4 rows].
Proof. reflexivity. Qed.


Lemma iter_tl_Forall : forall j k (rows : list (list cell)), Forall (fun r => length r = k) rows ->
  Forall (fun r => length r = (k - j)%nat) (Nat.iter j (map (@tl cell)) rows).
Proof.
  induction j as [|j IH]; intros k rows H; [now rewrite Nat.sub_0_r|]. change (Nat.iter (S j) (map (@tl cell)) rows) with (map (@tl cell) (Nat.iter j (map (@tl cell)) rows)). apply Forall_map.
  eapply Forall_impl; [|exact (IH k rows H)]. intros [|a l] Ha; cbn in *; lia.
Qed.
Lemma iter_tl_length : forall j (rows : list (list cell)), length (Nat.iter j (map (@tl cell)) rows) = length rows.
Proof. induction j as [|j IH]; intros rows; [reflexivity|]. change (Nat.iter (S j) (map (@tl cell)) rows) with (map (@tl cell) (Nat.iter j (map (@tl cell)) rows)). now rewrite map_length. Qed.
Lemma colj_length : forall j k (rows : list (list cell)), Forall (fun r => length r = k) rows -> (j < k)%nat ->
  length (colj j rows) = length rows.
Proof.
  intros j k rows H Hj. unfold colj. rewrite heads_length, iter_tl_length; [reflexivity|].
  eapply Forall_impl; [|exact (iter_tl_Forall j k rows H)]. intros a Ha E. subst. cbn in Ha. lia.
Qed.
Lemma kept_rect : forall n (cols : list (list cell)), Forall (fun a => length a = n) cols ->
  Forall (fun r => length r = length cols) (dedup (row_eq ceq) (points_of cast n cols)).
Proof.
  intros n cols Hl. unfold dedup. apply select_Forall. destruct (cols_of_rect n cols Hl) as [Hr _].
  unfold points_of. apply Forall_map. eapply Forall_impl; [|exact Hr]. intros a Ha. now rewrite map_length.
Qed.

Section WithTraj.
Variables (n : nat) (xs ys zs fs ss : list cell).
Hypothesis (Hn : (1 <= n)%nat) (Hx : length xs = n) (Hy : length ys = n) (Hz : length zs = n) (Hf : length fs = n) (Hs : length ss = n).
Let c := traj xs ys zs fs ss.
Let K := kept n xs ys zs fs ss.

Lemma uf5 : forall s, src_unique_filter ceq cast c [A1 xs; A1 ys; A1 zs; A1 fs; A1 ss] s = (Ret (A2 (cols_of 5 K)), s).
Proof.
  intros s. change [A1 xs; A1 ys; A1 zs; A1 fs; A1 ss] with (map (@A1 cell) [xs; ys; zs; fs; ss]).
  rewrite (SRC_C11_unique_filter_matrix ceq cast c n); [reflexivity|cbn; lia|exact Hn|].
  repeat constructor; assumption.
Qed.

Theorem SRC_C11_points : forall s, src_points ceq cast c s = (Ret (A2 (cols_of 5 K)), s).
Proof. intros s. unfold src_points, bind. cbn [lv__x lv__y lv__z lv__f lv__s c traj]. fold c. now rewrite uf5. Qed.

Lemma view_j : forall j s, (j < 5)%nat ->
  (uf <- src_unique_filter ceq cast c [A1 xs; A1 ys; A1 zs; A1 fs; A1 ss] ;;
   let coords := uf in if pyeq (nd_ndim coords) (of_int 2) then item <- nd_item (Z.of_nat j) coords ;; ret item else ret (A1 [])) s
  = (Ret (A1 (colj j K)), s).
Proof.
  intros j s Hj. unfold bind at 1. rewrite uf5. cbv zeta. cbn [nd_ndim]. replace (pyeq 2%Z (of_int 2)) with true by reflexivity.
  rewrite cols_of_5. do 5 (destruct j as [|j]; [reflexivity|]). lia.
Qed.

Theorem SRC_C11_x : forall s, src_x ceq cast c s = (Ret (A1 (colj 0 K)), s).
Proof. intros s. exact (view_j 0 s ltac:(lia)). Qed.
Theorem SRC_C11_y : forall s, src_y ceq cast c s = (Ret (A1 (colj 1 K)), s).
Proof. intros s. exact (view_j 1 s ltac:(lia)). Qed.
Theorem SRC_C11_z : forall s, src_z ceq cast c s = (Ret (A1 (colj 2 K)), s).
Proof. intros s. exact (view_j 2 s ltac:(lia)). Qed.

Definition last_of (l : list cell) : option cell := match l with [] => None | a :: r => Some (last (a :: r) a) end.

Lemma last_view : forall (m : MN (nd cell)) (col : list cell) s, m s = (Ret (A1 col), s) ->
  (v <- m ;; let arr := v in if truthy (nd_size arr) then item <- nd_item (-1) arr ;; scalar <- nd_scalar item ;; ret (Some scalar) else ret None) s
  = (Ret (last_of col), s).
Proof.
  intros m col s Hm. unfold bind at 1. rewrite Hm. cbv zeta. destruct col as [|a l]; [reflexivity|].
  replace (truthy (nd_size (A1 (a :: l)))) with true
    by (unfold truthy, truthy_Z, nd_size; symmetry; apply negb_true_iff, Z.eqb_neq; cbn [length]; lia).
  unfold bind at 1. unfold nd_item. rewrite py_nth_m1. reflexivity.
Qed.

(* lastx / lasty / lastz : the last entry of the reported column, None for an empty one *)
Theorem SRC_C11_lastx : forall s, src_lastx ceq cast c s = (Ret (last_of (colj 0 K)), s).
Proof. intros s. exact (last_view _ _ s (SRC_C11_x s)). Qed.
Theorem SRC_C11_lasty : forall s, src_lasty ceq cast c s = (Ret (last_of (colj 1 K)), s).
Proof. intros s. exact (last_view _ _ s (SRC_C11_y s)). Qed.
Theorem SRC_C11_lastz : forall s, src_lastz ceq cast c s = (Ret (last_of (colj 2 K)), s).
Proof. intros s. exact (last_view _ _ s (SRC_C11_z s)). Qed.

(* lastpt : the last recorded x, y, z *)
Theorem SRC_C11_lastpt : forall d s, src_lastpt c s = (Ret (A1 [last xs d; last ys d; last zs d]), s).
Proof.
  intros d s. unfold src_lastpt. cbn [c traj lv__x lv__y lv__z].
  destruct xs as [|x0 xr]; [cbn in Hx; lia|]. destruct ys as [|y0 yr]; [cbn in Hy; lia|]. destruct zs as [|z0 zr]; [cbn in Hz; lia|].
  replace (pylt (of_int 0) (nd_size (A1 (x0 :: xr)))) with true
    by (unfold pylt, ord_Z, of_int, ofint_Z, nd_size; symmetry; apply Z.ltb_lt; cbn [length]; lia).
  unfold bind, nd_item. rewrite !py_nth_m1. cbn [ret nd_of_items scalars].
  now rewrite (last_indep xr x0 x0 d), (last_indep yr y0 y0 d), (last_indep zr z0 z0 d).
Qed.

(* path3d : the x, y, z of the rows kept when the trajectory is filtered without its feed column, at which the shutter cell is non-zero *)
Let K4 := dedup (row_eq ceq) (points_of cast n [xs; ys; zs; ss]).
Definition open_of (col : list cell) : list cell := select (map nz (colj 3 K4)) col.

Theorem SRC_C11_path3d : forall s,
  src_path3d ceq cast nz c s = (Ret [A1 (open_of (colj 0 K4)); A1 (open_of (colj 1 K4)); A1 (open_of (colj 2 K4))], s).
Proof.
  intros s. unfold src_path3d. cbn [c traj lv__x lv__y lv__z lv__s].
  replace (truthy (nd_size (A1 xs))) with true
    by (unfold truthy, truthy_Z, nd_size; symmetry; apply negb_true_iff, Z.eqb_neq; lia).
  unfold bind at 1. change [A1 xs; A1 ys; A1 zs; A1 ss] with (map (@A1 cell) [xs; ys; zs; ss]).
  rewrite (SRC_C11_unique_filter_matrix ceq cast _ n); [|cbn; lia|exact Hn|repeat constructor; assumption].
  fold K4. change (length [xs; ys; zs; ss]) with 4%nat.
  change (cols_of 4 K4) with [colj 0 K4; colj 1 K4; colj 2 K4; colj 3 K4].
  unfold bind at 1. cbn [nd_rows ret map].
  assert (HK : Forall (fun r => length r = 4%nat) K4) by (apply (kept_rect n [xs; ys; zs; ss]); repeat constructor; assumption).
  unfold bind, nd_keep_where.
  rewrite (colj_length 3 4 K4 HK), (colj_length 0 4 K4 HK), (colj_length 1 4 K4 HK), (colj_length 2 4 K4 HK) by lia.
  rewrite Nat.eqb_refl. reflexivity.
Qed.

Theorem SRC_C11_path : forall s, src_path ceq cast nz c s = (Ret [A1 (open_of (colj 0 K4)); A1 (open_of (colj 1 K4))], s).
Proof. intros s. unfold src_path, bind. now rewrite SRC_C11_path3d. Qed.
End WithTraj.

(* ---- a path on which nothing was recorded ---- *)
Let c0 := traj [] [] [] [] [].
Theorem SRC_C11_empty_trajectory : forall s,
  src_points ceq cast c0 s = (Ret (A1 []), s) /\ src_x ceq cast c0 s = (Ret (A1 []), s) /\ src_y ceq cast c0 s = (Ret (A1 []), s) /\
  src_z ceq cast c0 s = (Ret (A1 []), s) /\ src_lastx ceq cast c0 s = (Ret None, s) /\ src_lasty ceq cast c0 s = (Ret None, s) /\
  src_lastz ceq cast c0 s = (Ret None, s) /\ src_lastpt c0 s = (Ret (A1 []), s) /\
  src_path3d ceq cast nz c0 s = (Ret [A1 []; A1 []; A1 []], s) /\ src_path ceq cast nz c0 s = (Ret [A1 []; A1 []], s).
Proof. intros s. repeat split; reflexivity. Qed.
End Views.
Print Assumptions SRC_C11_points.
Print Assumptions SRC_C11_x.
Print Assumptions SRC_C11_y.
Print Assumptions SRC_C11_z.
Print Assumptions SRC_C11_lastx.
Print Assumptions SRC_C11_lasty.
Print Assumptions SRC_C11_lastz.
Print Assumptions SRC_C11_lastpt.
Print Assumptions SRC_C11_path3d.
Print Assumptions SRC_C11_path.
Print Assumptions SRC_C11_empty_trajectory.
