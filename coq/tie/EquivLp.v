(* LaserPath.num_subdivisions as translated from the source is Path/Sampling.num_sub  (generated source definitions: SrcLp.v, re-generated from /repo on every run) *)
From Coq Require Import List Bool ZArith NArith QArith Qabs Qround String Ascii Lia Lqa.
Import ListNotations.
From Femto Require Import Base.Num Path.Sampling.
From FemtoTie Require Import PyPrelude PgmState PureState SrcLp.

(* ---- C13: the point count ---- *)
Theorem SRC_num_subdivisions : forall c len speed s,
  src_num_subdivisions c len speed s =
  (match num_sub len (match speed with Some v => v | None => lp_speed c end) (lp_cmd_rate_max c) with
   | Some n => Ret n | None => Exc EValue end, s).
Proof.
  intros c len speed s. unfold src_num_subdivisions, num_sub, num_raw.
  set (f := match speed with Some v => v | None => lp_speed c end).
  replace (match speed with None => lp_speed c | Some sp => sp end) with f by (destruct speed; reflexivity).
  cbv zeta. unfold pylt, ord_Q, qlt. destruct (Qle_bool (1 # 1000000) f); cbn [negb]; [|reflexivity].
  unfold pydiv, div_QQ, to_int, toint_Z, pyle, ord_Z, of_int, ofint_Z.
  destruct (Qceiling (len / (f / lp_cmd_rate_max c)) <=? 1)%Z; reflexivity.
Qed.
Print Assumptions SRC_num_subdivisions.

