(* The device as Spreadsheet._get_structure_list reads it (SrcSs.v, generated): the flattened object lists of the waveguide
   writer and of the marker writer (flattening itself: SrcHl.v / EquivHl.v), structures as the records of Sheet/Table.v. *)
From Coq Require Import List Bool QArith.
Import ListNotations.
From Femto Require Import Sheet.Table.
From FemtoTie Require Import PyPrelude.

Definition MS : Type -> Type := @M unit.
Record swriter := { flat_objs : list strct }.                      (* flatten(writer.obj_list) *)
Record sdevice := { wr_wg : swriter; wr_mk : swriter }.            (* d.writers[Waveguide], d.writers[Marker] *)
Record ss_cfg := { ss_device : sdevice }.

Definition is_waveguide (s : strct) : bool := s_wg s.              (* isinstance(s, Waveguide) *)
Definition is_marker (s : strct) : bool := negb (s_wg s).          (* isinstance(s, Marker): the lists hold waveguides and markers only *)
(* lst.sort(key=lambda wg: wg.path3d[1][0]): stable, by the first open-shutter y (s_key) *)
Definition sort_by_first_y (l : list strct) : list strct := sort_s l.
