(* Paths and parameter dictionaries for the translated LaserPath.export / helpers.load_parameters (SrcPa.v, generated):
   pathlib.Path operations as the string functions of Persist/Paths.v, YAML documents as association lists in file order,
   `open(.., 'wb')` recorded in the state, reading through a file-system oracle given as a parameter. *)
From Coq Require Import List Bool NArith String.
Import ListNotations.
From Femto Require Import Persist.Paths.
From FemtoTie Require Import PyPrelude.

Definition MPa : Type -> Type := @M (list string).          (* the files opened for writing, in order *)
Definition doc := list (string * dict).

Definition path_of (s : string) : string := s.                                   (* pathlib.Path(s) *)
Definition p_suffix (p : string) : string := suffix p.                           (* p.suffix *)
Definition p_with_suffix (p suf : string) : string := with_suffix p suf.         (* p.with_suffix(suf) *)
Definition open_write (p : string) : MPa unit := fun s => (Ret tt, s ++ [p])%list.     (* with open(p, 'wb') as f: dump *)

(* with open(fp, mode='rb') as f: yaml.safe_load(f) *)
Definition yaml_load (fs : string -> option doc) (p : string) : MPa doc :=
  match fs p with None => raise EFileNotFound | Some d => ret d end.

(* try: default = config.pop('DEFAULT')  except KeyError: default = {} *)
Definition pop_default_key (config : doc) : dict * doc := pop_default config.

Definition dkeys (config : doc) : list string := map fst config.                 (* config.keys(), insertion order *)
Fixpoint doc_get (config : doc) (k : string) : MPa dict :=                        (* config[k] *)
  match config with [] => raise EKey | (k', d) :: r => if String.eqb k k' then ret d else doc_get r k end.
Definition dict_copy (d : dict) : dict := d.                                     (* dict(d) *)
Definition dict_merge (a b : dict) : dict := merge a b.                          (* {**a, **b} *)

(* ---- PGMCompiler.close(): what it does to the file system, in order: (true, d) = mkdir -p d ; (false, p) = open p for writing ---- *)
Record cl_cfg := { cl_filename : string; cl_export_dir : string }.
Definition MCl : Type -> Type := @M (list (bool * string)).
Definition cl_mkdirs (d : string) : MCl unit := fun s => (Ret tt, s ++ [(true, d)])%list.
Definition cl_open (p : string) : MCl unit := fun s => (Ret tt, s ++ [(false, p)])%list.
Definition pjoin (d f : string) : string := (d ++ "/" ++ f)%string.            (* d / f *)
