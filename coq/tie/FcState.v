(* A trench column as TrenchWriter._farcall_trench_column reads it (SrcFc.v, generated): file names as pathlib paths
   (built by string formatting in the source: given here as fields), the depth parameters, the power axis values. *)
From Coq Require Import List ZArith QArith.
Import ListNotations.
From FemtoTie Require Import PyPrelude.

Record sblock := {
  sb_first : Q * Q;                       (* (xborder[0], yborder[0]) *)
  sb_wall_f : ppath; sb_wall_n : ppath;   (* base_folder/trenchColNNN/trenchNNN_WALL.pgm and the bare file name *)
  sb_floor_f : ppath; sb_floor_n : ppath
}.

Record scol := {
  sc_blocks : list sblock;
  sc_nboxz : nat; sc_nrepeat : Z;
  sc_hbox : Q; sc_zoff : Q; sc_dz : Q;    (* sc_dz = deltaz / neff as femto computes it *)
  sc_u : list Q;
  sc_speed_closed : Q
}.
