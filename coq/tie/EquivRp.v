(* Device.pgm as translated from the source (SrcRp.v, re-generated from /repo on every run) rebuilds the reported estimate from
   nothing: whatever the device held before (estimate, log of earlier exports), after pgm() every writer's pgm() has run exactly
   once, in the order of self.writers, each writer's _fabtime was read after that writer's own export and before the next
   writer's, and the estimate is ((0.0 + t_1) + t_2) + ... of those reads - no term of it comes from the earlier state.  Hence
   (SRC_C09_device_pgm_repeat) a second export reports the same term as the first, and (SRC_C09_device_pgm_history) so does
   an export after any number of earlier ones. *)
From Coq Require Import List Bool QArith.
Import ListNotations.
From FemtoTie Require Import PyPrelude RpState SrcRp.

Definition expected_fab (ws : list nat) : tm := fold_left (fun acc w => TAdd acc (TFab w)) ws (TConst (0 # 1)).
Definition expected_log (ws : list nat) : list rev := flat_map (fun w => [EPgm w; ERead w]) ws.

Lemma for_writers_spec : forall ws t l,
  for_writers ws (fun writer => rp_call_pgm writer ;;; rp_add_fabtime writer ;;; ret tt) {| fab := t; rlog := l |}
  = (Ret tt, {| fab := fold_left (fun acc w => TAdd acc (TFab w)) ws t; rlog := l ++ expected_log ws |}).
Proof.
  induction ws as [|w ws IH]; intros t l.
  - cbn. now rewrite app_nil_r.
  - cbn [for_writers]. unfold bind at 1. unfold bind at 1. unfold rp_call_pgm at 1. cbn [fab rlog].
    unfold bind at 1. unfold rp_add_fabtime at 1. cbn [fab rlog]. unfold ret at 1.
    rewrite IH. cbn [fold_left expected_log flat_map]. rewrite <- !app_assoc. reflexivity.
Qed.

Theorem SRC_C09_device_pgm : forall c verbose s,
  src_device_pgm c verbose s
  = (Ret tt, {| fab := expected_fab (rp_writers c); rlog := rlog s ++ expected_log (rp_writers c) |}).
Proof.
  intros c verbose [t l]. unfold src_device_pgm. unfold bind at 1. unfold rp_set. cbn [rlog].
  unfold bind at 1. rewrite for_writers_spec. reflexivity.
Qed.

(* the estimate after an export does not depend on the state the export started from *)
Theorem SRC_C09_device_pgm_state_independent : forall c v1 v2 s1 s2,
  fab (snd (src_device_pgm c v1 s1)) = fab (snd (src_device_pgm c v2 s2)).
Proof. intros. now rewrite !SRC_C09_device_pgm. Qed.

Definition run (c : rp_cfg) (v : bool) (s : rp_state) : rp_state := snd (src_device_pgm c v s).

Theorem SRC_C09_device_pgm_repeat : forall c v1 v2 s, fab (run c v2 (run c v1 s)) = fab (run c v1 s).
Proof. intros. unfold run. now rewrite !SRC_C09_device_pgm. Qed.

(* after any history of earlier exports (any verbosity each) *)
Theorem SRC_C09_device_pgm_history : forall c (hist : list bool) v s,
  fab (run c v (fold_left (fun st b => run c b st) hist s)) = expected_fab (rp_writers c).
Proof. intros. unfold run. now rewrite SRC_C09_device_pgm. Qed.

(* every writer exported once per call: n exports = n rounds, in order *)
Theorem SRC_C09_device_pgm_log : forall c (hist : list bool) s,
  rlog (fold_left (fun st b => run c b st) hist s) = rlog s ++ concat (map (fun _ => expected_log (rp_writers c)) hist).
Proof.
  intros c hist. induction hist as [|b h IH]; intros s; cbn [fold_left map concat].
  - now rewrite app_nil_r.
  - rewrite IH. unfold run. rewrite SRC_C09_device_pgm. cbn [snd rlog]. now rewrite app_assoc.
Qed.

Example SRC_C09_device_pgm_example :
  run {| rp_writers := [0; 1; 2]%nat |} true {| fab := TAdd (TConst 5) (TFab 7); rlog := [EPgm 9%nat] |}
  = {| fab := TAdd (TAdd (TAdd (TConst (0 # 1)) (TFab 0)) (TFab 1)) (TFab 2);
       rlog := [EPgm 9; EPgm 0; ERead 0; EPgm 1; ERead 1; EPgm 2; ERead 2]%nat |}.
Proof. reflexivity. Qed.

Print Assumptions SRC_C09_device_pgm.
Print Assumptions SRC_C09_device_pgm_state_independent.
Print Assumptions SRC_C09_device_pgm_repeat.
Print Assumptions SRC_C09_device_pgm_history.
Print Assumptions SRC_C09_device_pgm_log.
