(* Model of femto.pgmcompiler.PGMCompiler: one function per public operation, mirroring the order of
   checks and emissions of the Python code (DESIGN.md Appendix A.1), the op tree with `finally`
   semantics for the block forms, and the context-manager session.  Definitions only. *)
From Coq Require Import List Bool ZArith NArith QArith Qabs.
Import ListNotations.
From Femto Require Import Base.Num Ctl.Tok Geo.Rigid.

Record cfg := {
  laser_ok : bool;              (* laser in {ant, carbide, pharos, uwe} (case-insensitive) *)
  laser_z : bool;               (* ant: PSO on the Z axis *)
  digits : Z;                   (* output_digits, 0..9 *)
  long_p : option Q;            (* pauses (value of their printed form); None = None *)
  short_p : option Q;
  speed_pos : Q;
  home : bool;
  aero : bool;                  (* aerotech_angle is truthy after normalisation *)
  tc : tcfg
}.

Record cstate := {
  c_dwell : Q;                  (* _total_dwell_time *)
  c_sh : bool;                  (* _shutter_on *)
  c_loaded : list N;            (* _loaded_files *)
  c_dvars : list N;             (* _dvars (lower-cased names) *)
  c_pre : list tok              (* DVAR lines, appendleft *)
}.

Definition c0 : cstate := {| c_dwell := 0; c_sh := false; c_loaded := []; c_dvars := []; c_pre := [] |}.

Definition st_dwell (st : cstate) (d : Q) : cstate :=
  {| c_dwell := d; c_sh := c_sh st; c_loaded := c_loaded st; c_dvars := c_dvars st; c_pre := c_pre st |}.
Definition st_sh (st : cstate) (b : bool) : cstate :=
  {| c_dwell := c_dwell st; c_sh := b; c_loaded := c_loaded st; c_dvars := c_dvars st; c_pre := c_pre st |}.
Definition st_loaded (st : cstate) (l : list N) : cstate :=
  {| c_dwell := c_dwell st; c_sh := c_sh st; c_loaded := l; c_dvars := c_dvars st; c_pre := c_pre st |}.
Definition st_dvars (st : cstate) (l : list N) (pre : list tok) : cstate :=
  {| c_dwell := c_dwell st; c_sh := c_sh st; c_loaded := c_loaded st; c_dvars := l; c_pre := pre |}.

Inductive outcome := Ok | Raised (kind : N).
Definition VE : N := 1.    (* ValueError *)
Definition FNF : N := 2.   (* FileNotFoundError *)
Definition USER : N := 3.  (* exception raised by user code inside the context *)

Definition res := (cstate * list stmt * outcome)%type.

(* ---- leaves ---- *)

(* dwell(p): nothing for None / 0, else DWELL |p| and the total grows *)
Definition dwell_amt (p : option Q) : Q :=
  match p with None => 0 | Some q => if Qeq_bool q 0 then 0 else Qabs q end.
Definition dwell_toks (p : option Q) : list stmt :=
  match p with None => [] | Some q => if Qeq_bool q 0 then [] else [SI (TDwell (Qred (Qabs q)))] end.
Definition do_dwell (st : cstate) (p : option Q) : cstate * list stmt :=
  (st_dwell st (Qred (c_dwell st + dwell_amt p)), dwell_toks p).

(* shutter(state) *)
Definition do_shutter (c : cfg) (st : cstate) (on : bool) : cstate * list stmt :=
  if Bool.eqb on (c_sh st) then (st, []) else (st_sh st on, [SI (TPso (laser_z c) on)]).

Definition lim (c : cfg) : Q := 1 / inject_Z (pow10 (digits c)).   (* 10^-d *)
Definition feed_bad (c : cfg) (f : Q) : bool := negb (Qle_bool (lim c) f).   (* f < 10^-d *)

Definition fm (c : cfg) (q : Q) : Z := fmt (digits c) q.

Record pt := { px : Q; py : Q; pz : Q; pf : Q; ps : Z }.   (* ps: 0 closed, 1 open, other = neither *)

(* formatted arguments of a path point *)
Definition args := (Z * Z * Z * Z)%type.
Definition fmt_pt (c : cfg) (p : pt) : args :=
  let '(x, y, z) := tr32 (tc c) (px p, py p, pz p) in
  (fm c x, fm c y, fm c z, fm c (pf p)).
(* same printed position (the feed is not compared) *)
Definition args_eqb (a b : args) : bool :=
  let '(a1, a2, a3, _) := a in let '(b1, b2, b3, _) := b in
  Z.eqb a1 b1 && Z.eqb a2 b2 && Z.eqb a3 b3.
Definition g1_of (c : cfg) (a : args) : stmt :=
  let '(x, y, z, f) := a in
  SI (TG1 false (digits c) (Some (CNum x)) (Some (CNum y)) (Some (CNum z)) None (Some f)).

(* a shutter toggle inside write: blank, dwell(short), PSO, dwell(long), blank *)
Definition toggle (c : cfg) (st : cstate) (on : bool) : cstate * list stmt :=
  let '(st1, e1) := do_dwell st (short_p c) in
  let '(st2, e2) := do_shutter c st1 on in
  let '(st3, e3) := do_dwell st2 (long_p c) in
  (st3, e1 ++ e2 ++ e3).

(* the point loop of write (after the fix commit for C01: after a toggle the G1 is emitted unless
   its printed position equals that of the previous point) *)
Definition write_step (c : cfg) (st : cstate) (prev : option args) (a : args) (s : Z) : cstate * list stmt :=
  let same := match prev with Some b => args_eqb a b | None => false end in
  if Z.eqb s 0 && c_sh st then
    let '(st', e) := toggle c st false in (st', e ++ (if same then [] else [g1_of c a]))
  else if Z.eqb s 1 && negb (c_sh st) then
    let '(st', e) := toggle c st true in (st', e ++ (if same then [] else [g1_of c a]))
  else (st, [g1_of c a]).

Fixpoint write_loop (c : cfg) (st : cstate) (prev : option args) (l : list (args * Z)) : cstate * list stmt :=
  match l with
  | [] => (st, [])
  | (a, s) :: r =>
      let '(st1, e1) := write_step c st prev a s in
      let '(st2, e2) := write_loop c st1 (Some a) r in
      (st2, e1 ++ e2)
  end.

Definition do_write (c : cfg) (st : cstate) (pts : list pt) : res :=
  if existsb (fun p => feed_bad c (pf p)) pts then (st, [], Raised VE)
  else
    let '(st1, e1) := write_loop c st None (map (fun p => (fmt_pt c p, ps p)) pts) in
    let '(st2, e2) := do_dwell st1 (long_p c) in
    (st2, e1 ++ e2, Ok).

Definition optfm (c : cfg) (q : option Q) : option coord :=
  match q with Some v => Some (CNum (fm c v)) | None => None end.

(* move_to(position, speed) *)
Definition do_move_to (c : cfg) (st : cstate) (x y z : option Q) (speed : option Q) : res :=
  let sp := match speed with Some v => v | None => speed_pos c end in
  let '(st1, e1) := if c_sh st then do_shutter c st false else (st, []) in
  if feed_bad c sp then (st1, e1, Raised VE)
  else
    let g := SI (TG1 false (digits c) (optfm c x) (optfm c y) (optfm c z) None (Some (fm c sp))) in
    let '(st2, e2) := do_dwell st1 (long_p c) in
    (st2, e1 ++ [g] ++ e2, Ok).

Definition do_set_home (c : cfg) (st : cstate) (x y z : option Q) : res :=
  match x, y, z with
  | None, None, None => (st, [], Raised VE)
  | _, _, _ =>
      let f := fun q : option Q => match q with Some v => Some (fm c v) | None => None end in
      (st, [SI (TG92 (digits c) (f x) (f y) (f z))], Ok)
  end.

(* _enter_axis_rotation / _exit_axis_rotation: fixed 6 decimals, no feed guard, no shutter test *)
Definition rot_g1 (c : cfg) : stmt :=
  SI (TG1 false 6 (Some (CNum 0)) (Some (CNum 0)) (Some (CNum 0)) None (Some (fmt 6 (speed_pos c)))).

Definition enter_rot (c : cfg) (st : cstate) (explicit : bool) : cstate * list stmt :=
  let '(st1, e1) := do_dwell st (short_p c) in
  if negb explicit && negb (aero c) then (st1, [rot_g1 c; SI (TG84 false)] ++ e1)
  else
    let '(st2, e2) := do_dwell st1 (short_p c) in
    (st2, [rot_g1 c; SI (TG84 false)] ++ e1 ++ [SI (TG84 true)] ++ e2).

Definition exit_rot (c : cfg) (st : cstate) : cstate * list stmt :=
  let '(st1, e1) := do_dwell st (short_p c) in
  (st1, [rot_g1 c; SI (TG84 false)] ++ e1).

(* a file name argument, decomposed by the harness with pathlib *)
(* femto tracks loaded programs by stem; every accepted name has the suffix .pgm exactly, so stems and
   file names are in bijection and the model tracks the file name (f_base), which is what the
   controller sees in REMOVEPROGRAM / FARCALL *)
Record fname := { f_arg : N; f_base : N; f_pgm : bool (* suffix is exactly .pgm *) }.

Definition mem (x : N) (l : list N) : bool := existsb (N.eqb x) l.
Fixpoint remove1 (x : N) (l : list N) : list N :=
  match l with [] => [] | y :: r => if N.eqb x y then r else y :: remove1 x r end.

Definition do_load (st : cstate) (f : fname) (task : Z) : res :=
  if negb (f_pgm f) then (st, [], Raised VE)
  else (st_loaded st (c_loaded st ++ [f_base f]), [SI (TLoad task (f_arg f) (f_base f))], Ok).

Definition do_remove (st : cstate) (f : fname) (task : Z) : res :=
  if negb (f_pgm f) then (st, [], Raised VE)
  else if negb (mem (f_base f) (c_loaded st)) then (st, [], Raised FNF)
  else (st_loaded st (remove1 (f_base f) (c_loaded st)),
        [SI (TStop task); SI (TWait task); SI (TRemove (f_base f))], Ok).

Definition do_farcall (c : cfg) (st : cstate) (f : fname) : res :=
  if negb (f_pgm f) then (st, [], Raised VE)
  else if negb (mem (f_base f) (c_loaded st)) then (st, [], Raised FNF)
  else let '(st1, e1) := do_dwell st (short_p c) in
       (st1, e1 ++ [SI (TFarcall (f_arg f) (f_base f))], Ok).

Definition do_buffered (c : cfg) (st : cstate) (f : fname) (task : Z) : res :=
  if negb (f_pgm f) then (st, [], Raised VE)
  else if negb (mem (f_base f) (c_loaded st)) then (st, [], Raised FNF)
  else let '(st1, e1) := do_dwell st (short_p c) in
       (st1, e1 ++ [SI (TBuffered task (f_arg f) (f_base f))], Ok).

(* raw instruction lines the trench writers add with G.instruction *)
Inductive instr :=
| IMsg                              (* MSGDISPLAY / MSGCLEAR *)
| IU (u : Q)                        (* G1 U<u:.6f> *)
| IAssign (v : N) (q : Q)           (* $V = <q:.6f> *)
| IAssignPlus (v : N) (q : Q)       (* $V = $V + <q:.6f> *)
| IZvar (v : N).                    (* G1 Z$V *)

Definition instr_tok (i : instr) : tok :=
  match i with
  | IMsg => TMsg
  | IU u => TG1 false 6 None None None (Some (fmt 6 u)) None
  | IAssign v q => TAssign v (ELit (fmt 6 q))
  | IAssignPlus v q => TAssign v (EPlus v (fmt 6 q))
  | IZvar v => TG1 false 0 None None (Some (CVar v)) None None
  end.

(* ---- the op tree ---- *)

Inductive op :=
| OWrite (pts : list pt)
| OMoveTo (x y z : option Q) (speed : option Q)
| OGoOrigin | OGoInit
| ODwell (p : option Q)
| OComment
| OSetHome (x y z : option Q)
| ODvar (vs : list N)
| OLoad (f : fname) (task : Z)
| ORemove (f : fname) (task : Z)
| OFarcall (f : fname)
| OBuffered (f : fname) (task : Z)
| OTic | OToc
| ORaise                                            (* user code raises here *)
| OShutter (on : bool)                              (* G.shutter('ON' / 'OFF') *)
| OInstr (i : instr)                                (* G.instruction(...) *)
| ORepeat (n : option Z) (body : list op)
| OFor (v : option N) (n : option Z) (body : list op)
| OAxisRot (explicit : bool) (body : list op).      (* explicit: an angle argument was given *)

(* sequencing: stop at the first exception *)
Definition seq (r : res) (k : cstate -> res) : res :=
  let '(st1, e1, o1) := r in
  match o1 with
  | Ok => let '(st2, e2, o2) := k st1 in (st2, e1 ++ e2, o2)
  | Raised _ => r
  end.

(* loop exit: terminator + the dwell of the (possibly partial) body is counted n times *)
Definition close_loop (st0 : cstate) (n : Z) (wrap : list stmt -> stmt) (r : res) : res :=
  let '(st1, e1, o1) := r in
  (st_dwell st1 (Qred (c_dwell st1 + inject_Z (n - 1) * (c_dwell st1 - c_dwell st0))), [wrap e1], o1).

Section Exec.
Context (c : cfg).

Fixpoint exec (o : op) (st : cstate) : res :=
  match o with
  | OWrite pts => do_write c st pts
  | OMoveTo x y z sp => do_move_to c st x y z sp
  | OGoOrigin => do_move_to c st (Some 0) (Some 0) (Some 0) None
  | OGoInit => do_move_to c st (Some (-2 # 1)) (Some 0) (Some 0) None
  | ODwell p => let '(st1, e1) := do_dwell st p in (st1, e1, Ok)
  | OComment => (st, [], Ok)
  | OSetHome x y z => do_set_home c st x y z
  | ODvar vs => (st_dvars st (c_dvars st ++ vs) (TDvar vs :: c_pre st), [], Ok)
  | OLoad f t => do_load st f t
  | ORemove f t => do_remove st f t
  | OFarcall f => do_farcall c st f
  | OBuffered f t => do_buffered c st f t
  | OTic => (st, [SI TMsg], Ok)
  | OToc => (st, [SI TMsg; SI TMsg; SI TMsg], Ok)
  | ORaise => (st, [], Raised USER)
  | OShutter on => let '(st1, e1) := do_shutter c st on in (st1, e1, Ok)
  | OInstr i => (st, [SI (instr_tok i)], Ok)
  | ORepeat n body =>
      match n with
      | None => (st, [], Raised VE)
      | Some n =>
          if n <=? 0 then (st, [], Raised VE)
          else close_loop st n (SRep n)
                 ((fix el (l : list op) (st : cstate) : res :=
                     match l with [] => (st, [], Ok) | o :: r => seq (exec o st) (el r) end) body st)
      end
  | OFor v n body =>
      match n with
      | None => (st, [], Raised VE)
      | Some n =>
          if n <=? 0 then (st, [], Raised VE)
          else match v with
               | None => (st, [], Raised VE)
               | Some v =>
                   if negb (mem v (c_dvars st)) then (st, [], Raised VE)
                   else close_loop st n (SFor v 0 (n - 1))
                          ((fix el (l : list op) (st : cstate) : res :=
                              match l with [] => (st, [], Ok) | o :: r => seq (exec o st) (el r) end) body st)
               end
      end
  | OAxisRot explicit body =>
      let '(st1, e1) := enter_rot c st explicit in
      let '(st2, e2, o2) :=
        (fix el (l : list op) (st : cstate) : res :=
           match l with [] => (st, [], Ok) | o :: r => seq (exec o st) (el r) end) body st1 in
      let '(st3, e3) := exit_rot c st2 in
      (st3, e1 ++ e2 ++ e3, o2)
  end.

Fixpoint exec_list (l : list op) (st : cstate) : res :=
  match l with [] => (st, [], Ok) | o :: r => seq (exec o st) (exec_list r) end.
End Exec.

(* ---- the session:  with PGMCompiler(...) as G: <ops>  ---- *)

Inductive session_result :=
| NotWritten (kind : N)                           (* __enter__ (or __exit__) raised: no file *)
| Written (file : list tok) (dwell : Q) (o : outcome).

(* header lines lex to: setup block, PSOCONTROL OFF, ABSOLUTE, setup block *)
Definition header_toks (c : cfg) : list stmt :=
  [SI TSetup; SI (TPso (laser_z c) false); SI (TMode true); SI TSetup].

Definition session (c : cfg) (ops : list op) : session_result :=
  if negb (laser_ok c) then NotWritten VE
  else
    let '(st1, e1) := do_dwell c0 (Some 1) in
    let '(st2, e2) := if aero c then enter_rot c st1 false else (st1, []) in
    let '(st3, e3, o3) := exec_list c ops st2 in
    let '(st4, e4) := if aero c then exit_rot c st3 else (st3, []) in
    let '(st5, e5, o5) := if home c then do_move_to c st4 (Some (-2 # 1)) (Some 0) (Some 0) None
                          else (st4, [], Ok) in
    match o5 with
    | Raised k => NotWritten k
    | Ok => Written (c_pre st5 ++ flatten (header_toks c ++ e1 ++ e2 ++ e3 ++ e4 ++ e5)) (c_dwell st5) o3
    end.
