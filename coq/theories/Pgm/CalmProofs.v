(* C03, compile side, part 2: run on the reference controller, the tree emitted by a session of public operations
   leaves the shutter closed at every operation boundary - in particular when the program ends, also after an
   exception - and leaves an activated axis rotation deactivated. *)
From Coq Require Import List Bool ZArith NArith QArith Qabs Lia.
Import ListNotations.
From Femto Require Import Base.Num Base.NumProofs Ctl.Tok Ctl.Machine Ctl.MachineProofs Ctl.ParseProofs Ctl.Safety
  Geo.Rigid Pgm.Ops Pgm.OpsProofs Pgm.WriteProofs Pgm.SafeProofs.
Open Scope Z_scope.

Definition nopso (t : tok) : bool := match t with TPso _ _ => false | _ => true end.
Definition norot (t : tok) : bool := match t with TG84 _ => false | _ => true end.
Definition qt (t : tok) : bool := nopso t && norot t.
Definition si (P : tok -> bool) (s : stmt) : bool := match s with SI t => P t | _ => false end.

Lemma si_qt_nopso : forall e, forallb (si qt) e = true -> forallb (si nopso) e = true.
Proof.
  induction e as [|s r IH]; intros H; [reflexivity|]. cbn [forallb] in *. apply andb_true_iff in H as [A B].
  rewrite (IH B). destruct s; cbn [si] in *; try discriminate. unfold qt in A. apply andb_true_iff in A as [A _]. now rewrite A.
Qed.
Lemma si_qt_norot : forall e, forallb (si qt) e = true -> forallb (si norot) e = true.
Proof.
  induction e as [|s r IH]; intros H; [reflexivity|]. cbn [forallb] in *. apply andb_true_iff in H as [A B].
  rewrite (IH B). destruct s; cbn [si] in *; try discriminate. unfold qt in A. apply andb_true_iff in A as [_ A]. now rewrite A.
Qed.

Lemma qt_dwell_toks : forall p, forallb (si qt) (dwell_toks p) = true.
Proof. intros [q|]; unfold dwell_toks; [destruct (Qeq_bool q 0)|]; reflexivity. Qed.

Section Calm.
  Context (call : mstate -> N -> mstate * list event).
  Hypothesis call_ok : forall d m p, minv d m -> minv d (fst (call m p)) /\ only_notloaded (snd (call m p)).
  Hypothesis call_frame : forall m p, msh (fst (call m p)) = msh m /\ mrot (fst (call m p)) = mrot m.

  Lemma run_g1_frame : forall m g9 x y z f,
    msh (fst (run_g1 m g9 x y z f)) = msh m /\ mrot (fst (run_g1 m g9 x y z f)) = mrot m.
  Proof.
    intros m g9 x y z f. unfold run_g1, err.
    destruct (axis_val m x) as [vx|]; [|split; reflexivity].
    destruct (axis_val m y) as [vy|]; [|split; reflexivity].
    destruct (axis_val m z) as [vz|]; [|split; reflexivity].
    destruct (mpos m) as [[cx cy] cz].
    destruct vx, vy, vz; cbn [fst];
      repeat match goal with
             | |- context [match axis_dst ?a ?b ?c with _ => _ end] => destruct (axis_dst a b c)
             | |- context [match (match f with Some v => Some v | None => mfeed m end) with _ => _ end] =>
                 destruct (match f with Some v => Some v | None => mfeed m end)
             | |- context [if 0 <? ?v then _ else _] => destruct (0 <? v)
             end; split; reflexivity.
  Qed.

  Lemma run_tok_frame : forall m t,
    msh (fst (run_tok call m t)) = (match t with TPso _ on => on | _ => msh m end) /\
    mrot (fst (run_tok call m t)) = (match t with TG84 on => on | _ => mrot m end).
  Proof.
    intros m t.
    destruct t as [ | ab | za on | tq | g9 nd x y z u f | nd gx gy gz | on | n | | v lo hi | v | vs | v e
                  | task path base | task | task | base | arg base | task arg base | | ];
      cbn [run_tok]; try (split; reflexivity); unfold err.
    - apply run_g1_frame.
    - destruct (mpos m) as [[cx cy] cz]. split; reflexivity.
    - destruct (lookup v (mvars m)); [|split; reflexivity]. destruct e as [lz|w pz]; [split; reflexivity|].
      destruct (lookup w (mvars m)) as [[cv|]|]; split; reflexivity.
    - destruct (lookup base (mloaded m)); split; reflexivity.
    - destruct (lookup base (mloaded m)) as [pth|]; [|split; reflexivity].
      pose proof (call_frame m pth) as [A B]. destruct (call m pth) as [m1 ev]. exact (conj A B).
    - destruct (lookup base (mloaded m)); split; reflexivity.
  Qed.

  Lemma run_toks_pres : forall {A : Type} (P : tok -> bool) (f : mstate -> A),
    (forall m t, P t = true -> f (fst (run_tok call m t)) = f m) ->
    forall e, forallb (si P) e = true -> forall m, f (fst (run_list call m e)) = f m.
  Proof.
    intros A P f H. induction e as [|s r IH]; intros He m; [reflexivity|].
    cbn [forallb] in He. apply andb_true_iff in He as [Hs Hr]. destruct s as [t| |]; cbn [si] in Hs; try discriminate.
    rewrite run_list_cons. change (run_stmt call m (SI t)) with (run_tok call m t).
    pose proof (H m t Hs) as E. destruct (run_tok call m t) as [m1 e1]. cbn [fst] in E.
    pose proof (IH Hr m1) as E2. destruct (run_list call m1 r) as [m2 e2]. cbn [fst] in *. congruence.
  Qed.

  Lemma run_nopso : forall e, forallb (si nopso) e = true -> forall m, msh (fst (run_list call m e)) = msh m.
  Proof.
    apply run_toks_pres. intros m t Ht. destruct (run_tok_frame m t) as [A _]. rewrite A. destruct t; try reflexivity; discriminate.
  Qed.
  Lemma run_norot : forall e, forallb (si norot) e = true -> forall m, mrot (fst (run_list call m e)) = mrot m.
  Proof.
    apply run_toks_pres. intros m t Ht. destruct (run_tok_frame m t) as [_ A]. rewrite A. destruct t; try reflexivity; discriminate.
  Qed.

  (* ---- calm trees ---- *)
  Context (D : list N).

  Definition rot_ok (m m' : mstate) : Prop := mrot m' = false \/ mrot m' = mrot m.
  Lemma rot_ok_refl : forall m, rot_ok m m.  Proof. intros; now right. Qed.
  Lemma rot_ok_trans : forall a b c, rot_ok a b -> rot_ok b c -> rot_ok a c.
  Proof. intros a b c [H1|H1] [H2|H2]; unfold rot_ok; try (now left); [left | right]; congruence. Qed.

  Definition calm (e : list stmt) : Prop :=
    forall m, minv D m -> msh m = false ->
      msh (fst (run_list call m e)) = false /\ rot_ok m (fst (run_list call m e)).

  Lemma calm_nil : calm [].
  Proof. intros m _ H. split; [exact H | apply rot_ok_refl]. Qed.

  Lemma calm_app : forall a b, safe D a = true -> calm a -> calm b -> calm (a ++ b).
  Proof.
    intros a b Sa Ca Cb m Hm Hs. rewrite run_list_app.
    pose proof (safe_run call call_ok D a Sa m Hm) as [I1 _]. destruct (Ca m Hm Hs) as [S1 R1].
    destruct (run_list call m a) as [m1 e1]. cbn [fst] in *.
    destruct (Cb m1 I1 S1) as [S2 R2]. destruct (run_list call m1 b) as [m2 e2]. cbn [fst] in *.
    split; [exact S2 | eapply rot_ok_trans; eauto].
  Qed.

  Lemma calm_qt : forall e, forallb (si qt) e = true -> calm e.
  Proof.
    intros e He m _ Hs. split.
    - rewrite (run_nopso e (si_qt_nopso e He)). exact Hs.
    - right. apply (run_norot e (si_qt_norot e He)).
  Qed.

  Lemma iter_calm : forall (f : mstate -> mstate * list event),
    (forall m, minv D m -> minv D (fst (f m))) ->
    (forall m, minv D m -> msh m = false -> msh (fst (f m)) = false /\ rot_ok m (fst (f m))) ->
    forall k m, minv D m -> msh m = false -> msh (fst (iter k f m)) = false /\ rot_ok m (fst (iter k f m)).
  Proof.
    intros f Hi Hc. induction k as [|k IH]; intros m Hm Hs; cbn [iter]; [split; [exact Hs | apply rot_ok_refl]|].
    pose proof (Hi m Hm) as I1. destruct (Hc m Hm Hs) as [S1 R1]. destruct (f m) as [m1 e1]. cbn [fst] in *.
    destruct (IH m1 I1 S1) as [S2 R2]. destruct (iter k f m1) as [m2 e2]. cbn [fst] in *.
    split; [exact S2 | eapply rot_ok_trans; eauto].
  Qed.

  Lemma minv_set_var : forall m v i, minv D m -> minv D (set_vars m (update v (Some i) (mvars m))).
  Proof.
    intros m v i [A B]. split; [exact A|]. intros w Hw. unfold declared. cbn [mvars set_vars].
    apply lookup_update_some. now apply B.
  Qed.

  Lemma iter_for_calm : forall (f : mstate -> mstate * list event),
    (forall m, minv D m -> minv D (fst (f m))) ->
    (forall m, minv D m -> msh m = false -> msh (fst (f m)) = false /\ rot_ok m (fst (f m))) ->
    forall k v i m, minv D m -> msh m = false ->
      msh (fst (iter_for k v i f m)) = false /\ rot_ok m (fst (iter_for k v i f m)).
  Proof.
    intros f Hi Hc. induction k as [|k IH]; intros v i m Hm Hs; cbn [iter_for]; [split; [exact Hs | apply rot_ok_refl]|].
    pose proof (minv_set_var m v i Hm) as Hm'.
    pose proof (Hi _ Hm') as I1. destruct (Hc _ Hm' Hs) as [S1 R1].
    destruct (f (set_vars m (update v (Some i) (mvars m)))) as [m1 e1]. cbn [fst] in *.
    destruct (IH v (i + 1) m1 I1 S1) as [S2 R2]. destruct (iter_for k v (i + 1) f m1) as [m2 e2]. cbn [fst] in *.
    split; [exact S2|]. eapply rot_ok_trans; [|exact R2]. exact R1.
  Qed.

  Lemma calm_rep : forall n b, safe D b = true -> calm b -> calm [SRep n b].
  Proof.
    intros n b Sb Cb m Hm Hs. rewrite run_list_cons, run_stmt_rep. cbn [run_list].
    destruct (0 <? n).
    - pose proof (iter_calm (fun m => run_list call m b)
                    (fun m' Hm' => proj1 (safe_run call call_ok D b Sb m' Hm')) Cb (Z.to_nat n) m Hm Hs) as [A B].
      destruct (iter (Z.to_nat n) (fun m0 => run_list call m0 b) m) as [m1 e1]. cbn [fst] in *. split; assumption.
    - unfold err. cbn [fst]. split; [exact Hs | apply rot_ok_refl].
  Qed.

  Lemma calm_for : forall v lo hi b, safe D b = true -> calm b -> calm [SFor v lo hi b].
  Proof.
    intros v lo hi b Sb Cb m Hm Hs. rewrite run_list_cons, run_stmt_for. cbn [run_list]. cbv zeta.
    pose proof (iter_for_calm (fun m => run_list call m b)
                  (fun m' Hm' => proj1 (safe_run call call_ok D b Sb m' Hm')) Cb (Z.to_nat (hi - lo + 1)) v lo m Hm Hs) as [A B].
    destruct (iter_for (Z.to_nat (hi - lo + 1)) v lo (fun m0 => run_list call m0 b) m) as [m1 e1]. cbn [fst snd] in *.
    destruct (lookup v (mvars m)); cbn [fst]; split; assumption.
  Qed.

  (* ---- the compile side ---- *)

  (* CS st r: from a closed tracked shutter the tracked shutter ends closed and the emitted tree is calm *)
  Definition CS (st : cstate) (r : res) : Prop :=
    c_sh st = false -> sub (c_dvars (final r)) D -> c_sh (final r) = false /\ calm (emitted r).

  Lemma CS_qt : forall st st' e o, c_sh st' = c_sh st -> forallb (si qt) e = true -> CS st (st', e, o).
  Proof.
    intros st st' e o Hs He H _. unfold final, emitted; cbn [fst snd]. split; [congruence | now apply calm_qt].
  Qed.

  Lemma seq_CS : forall st (r : res) (k : cstate -> res),
    S st r -> CS st r -> (forall st1, S st1 (k st1) /\ CS st1 (k st1)) -> CS st (seq r k).
  Proof.
    intros st [[st1 e1] o1] k [A1 B1] C1 Hk Hsh Hsub. unfold seq in *. destruct o1; [|now apply C1].
    specialize (Hk st1) as [[A2 B2] C2]. destruct (k st1) as [[st2 e2] o2].
    unfold CS, final, emitted in *. cbn [fst snd] in *.
    pose proof (sub_trans _ _ _ A2 Hsub) as Hsub1.
    destruct (C1 Hsh Hsub1) as [Sh1 Ca1]. destruct (C2 Sh1 Hsub) as [Sh2 Ca2].
    split; [exact Sh2|]. apply calm_app; [now apply B1 | exact Ca1 | exact Ca2].
  Qed.

  Lemma exec_list_CS : forall c l,
    Forall (fun o => forall st, S st (exec c o st) /\ CS st (exec c o st)) l ->
    forall st, S st (exec_list c l st) /\ CS st (exec_list c l st).
  Proof.
    induction l as [|o r IH]; intros HF st; cbn [exec_list].
    - split; [now apply S_same | now apply CS_qt].
    - inversion HF as [|? ? Ho Hr]; subst. destruct (Ho st) as [So Co]. split.
      + apply seq_S; [exact So | intros st1; apply (IH Hr st1)].
      + apply seq_CS; [exact So | exact Co | intros st1; apply (IH Hr st1)].
  Qed.

  Lemma do_dwell_sh' : forall st p, c_sh (fst (do_dwell st p)) = c_sh st /\ forallb (si qt) (snd (do_dwell st p)) = true.
  Proof. intros st p. split; [reflexivity | apply qt_dwell_toks]. Qed.

  (* tokens of write: dwell, PSO, G1 - nothing that touches the rotation *)
  Lemma toggle_norot : forall c st on, forallb (si norot) (snd (toggle c st on)) = true.
  Proof.
    intros c st on. unfold toggle. destruct (do_dwell st (short_p c)) as [st1 e1] eqn:E1.
    assert (N1 : forallb (si norot) e1 = true).
    { replace e1 with (snd (do_dwell st (short_p c))) by now rewrite E1. apply si_qt_norot, qt_dwell_toks. }
    unfold do_shutter. destruct (Bool.eqb on (c_sh st1)).
    - destruct (do_dwell st1 (long_p c)) as [st3 e3] eqn:E3. cbn [snd].
      rewrite !forallb_app, N1. cbn [forallb]. replace e3 with (snd (do_dwell st1 (long_p c))) by now rewrite E3.
      apply si_qt_norot, qt_dwell_toks.
    - destruct (do_dwell (st_sh st1 on) (long_p c)) as [st3 e3] eqn:E3. cbn [snd].
      rewrite !forallb_app, N1. cbn [forallb si norot andb]. replace e3 with (snd (do_dwell (st_sh st1 on) (long_p c))) by now rewrite E3.
      apply si_qt_norot, qt_dwell_toks.
  Qed.

  Lemma g1_norot : forall c a, forallb (si norot) [g1_of c a] = true.
  Proof. intros c [[[x y] z] f]. reflexivity. Qed.

  Lemma write_step_norot : forall c st prev a s, forallb (si norot) (snd (write_step c st prev a s)) = true.
  Proof.
    intros c st prev a s. unfold write_step.
    destruct (Z.eqb s 0 && c_sh st).
    - pose proof (toggle_norot c st false) as T. destruct (toggle c st false) as [st1 e1]. cbn [snd] in *.
      rewrite forallb_app, T. destruct (match prev with Some b => args_eqb a b | None => false end); [reflexivity | apply g1_norot].
    - destruct (Z.eqb s 1 && negb (c_sh st)).
      + pose proof (toggle_norot c st true) as T. destruct (toggle c st true) as [st1 e1]. cbn [snd] in *.
        rewrite forallb_app, T. destruct (match prev with Some b => args_eqb a b | None => false end); [reflexivity | apply g1_norot].
      + apply g1_norot.
  Qed.

  Lemma write_loop_norot : forall c l st prev, forallb (si norot) (snd (write_loop c st prev l)) = true.
  Proof.
    intros c. induction l as [|[a s] r IH]; intros st prev; cbn [write_loop]; [reflexivity|].
    pose proof (write_step_norot c st prev a s) as T1. destruct (write_step c st prev a s) as [st1 e1].
    pose proof (IH st1 (Some a)) as T2. destruct (write_loop c st1 (Some a) r) as [st2 e2]. cbn [snd] in *.
    now rewrite forallb_app, T1, T2.
  Qed.

  Lemma last_map_f : forall {A B : Type} (f : A -> B) (l : list A) (d : A), last (map f l) (f d) = f (last l d).
  Proof.
    induction l as [|x r IH]; intros d; [reflexivity|]. destruct r as [|y r']; [reflexivity|].
    change (last (map f (x :: y :: r')) (f d)) with (last (map f (y :: r')) (f d)).
    change (last (x :: y :: r') d) with (last (y :: r') d). apply IH.
  Qed.

  Lemma last_open : forall pts, Z.eqb (last (map ps pts) 0) 0 = true ->
    last (map (fun p => open_of (ps p)) pts) false = false.
  Proof.
    intros pts H. apply Z.eqb_eq in H.
    rewrite <- (map_map ps open_of). change false with (open_of 0) at 1. rewrite last_map_f, H. reflexivity.
  Qed.

  Lemma do_write_CS : forall c st pts, 0 <= digits c <= 9 -> closed_path pts = true -> CS st (do_write c st pts).
  Proof.
    intros c st pts Hd Hc Hsh Hsub. unfold closed_path in Hc. apply andb_true_iff in Hc as [Hfl Hlast].
    assert (HF : Forall (fun p => ps p = 0 \/ ps p = 1) pts).
    { apply Forall_forall. intros p Hp. rewrite forallb_forall in Hfl. specialize (Hfl p Hp).
      apply orb_true_iff in Hfl as [E|E]; apply Z.eqb_eq in E; auto. }
    destruct (do_write c st pts) as [[st' e] o] eqn:Ew. unfold final, emitted. cbn [fst snd].
    assert (Hnr : forallb (si norot) e = true).
    { unfold do_write in Ew. destruct (existsb (fun p => feed_bad c (pf p)) pts); [injection Ew as <- <- <-; reflexivity|].
      pose proof (write_loop_norot c (map (fun p => (fmt_pt c p, ps p)) pts) st None) as T.
      destruct (write_loop c st None (map (fun p => (fmt_pt c p, ps p)) pts)) as [st1 e1].
      destruct (do_dwell st1 (long_p c)) as [st2 e2] eqn:E2. injection Ew as <- <- <-. cbn [snd] in T.
      rewrite forallb_app, T. replace e2 with (snd (do_dwell st1 (long_p c))) by now rewrite E2.
      apply si_qt_norot, qt_dwell_toks. }
    assert (Hst : c_sh st' = false).
    { destruct (write_replays call c st pts m0 Hd (eq_sym Hsh) eq_refl HF st' e o Ew) as [[_ [_ [_ ->]]] | [_ [_ [m' [ev [_ [_ [_ [_ [E _]]]]]]]]]].
      - exact Hsh.
      - rewrite E, Hsh. now apply last_open. }
    split; [exact Hst|]. intros m [Hab Hdecl] Hm. split.
    - destruct (write_replays call c st pts m Hd (eq_trans Hm (eq_sym Hsh)) Hab HF st' e o Ew)
        as [[_ [_ [-> _]]] | [_ [_ [m' [ev [R [_ [_ [E1 _]]]]]]]]].
      + exact Hm.
      + rewrite R. cbn [fst]. congruence.
    - right. now apply run_norot.
  Qed.

  Lemma qt_optfm_g1 : forall c x y z f,
    forallb (si qt) [SI (TG1 false (digits c) (optfm c x) (optfm c y) (optfm c z) None (Some f))] = true.
  Proof. reflexivity. Qed.

  Lemma do_move_to_CS : forall c st x y z sp, CS st (do_move_to c st x y z sp).
  Proof.
    intros c st x y z sp Hsh _. unfold do_move_to. rewrite Hsh.
    destruct (feed_bad c (match sp with Some v => v | None => speed_pos c end)).
    - unfold final, emitted; cbn [fst snd]. split; [exact Hsh | apply calm_nil].
    - destruct (do_dwell st (long_p c)) as [st2 e2] eqn:E2. unfold final, emitted; cbn [fst snd].
      pose proof (do_dwell_sh' st (long_p c)) as [A B]. rewrite E2 in A, B. cbn [fst snd] in A, B.
      split; [congruence|]. apply calm_qt. cbn [app]. cbn [forallb]. rewrite B. reflexivity.
  Qed.

  (* positioning closes the shutter first: whatever the tracked state, every move it commands is made with the
     shutter closed, and the shutter is tracked closed afterwards *)
  Definition moves_closed (ev : list event) : Prop :=
    forall src dst f s g9, In (EMove src dst f s g9) ev -> s = false.

  Lemma run_g1_closed : forall m g9 x y z f, msh m = false -> moves_closed (snd (run_g1 m g9 x y z f)).
  Proof.
    intros m g9 x y z f Hm. unfold run_g1, err.
    destruct (axis_val m x) as [vx|]; [|intros ? ? ? ? ? [H|[]]; discriminate].
    destruct (axis_val m y) as [vy|]; [|intros ? ? ? ? ? [H|[]]; discriminate].
    destruct (axis_val m z) as [vz|]; [|intros ? ? ? ? ? [H|[]]; discriminate].
    destruct (mpos m) as [[cx cy] cz].
    destruct vx, vy, vz; cbn [snd];
      repeat match goal with
             | |- context [match axis_dst ?a ?b ?c with _ => _ end] => destruct (axis_dst a b c)
             | |- context [match (match f with Some v => Some v | None => mfeed m end) with _ => _ end] =>
                 destruct (match f with Some v => Some v | None => mfeed m end)
             | |- context [if 0 <? ?v then _ else _] => destruct (0 <? v)
             end; cbn [snd]; intros ? ? ? ? ? H; cbn [In] in H;
      try (destruct H as [H|[]]; try discriminate; injection H as _ _ _ <- _; exact Hm); try contradiction.
  Qed.

  Lemma dwell_toks_no_moves : forall m p, moves_closed (snd (run_list call m (dwell_toks p))).
  Proof.
    intros m [q|]; unfold dwell_toks; [destruct (Qeq_bool q 0)|]; cbn; intros ? ? ? ? ? H; cbn in H;
      try contradiction; destruct H as [H|[]]; discriminate.
  Qed.

  Theorem move_to_closes_first : forall c st x y z sp m, msh m = c_sh st ->
    c_sh (final (do_move_to c st x y z sp)) = false /\
    moves_closed (snd (run_list call m (emitted (do_move_to c st x y z sp)))).
  Proof.
    intros c st x y z sp m Hm. unfold do_move_to, do_shutter.
    assert (H1 : exists st1 e1 m1,
              (if c_sh st then (if Bool.eqb false (c_sh st) then (st, []) else (st_sh st false, [SI (TPso (laser_z c) false)])) else (st, [])) = (st1, e1)
              /\ c_sh st1 = false /\ run_list call m e1 = (m1, []) /\ msh m1 = false).
    { destruct (c_sh st) eqn:E; cbn [Bool.eqb].
      - eexists _, _, _. split; [reflexivity|]. cbn. repeat split; reflexivity.
      - eexists _, _, _. split; [reflexivity|]. cbn. repeat split; auto. }
    destruct H1 as [st1 [e1 [m1 [E [Hs1 [R1 Hm1]]]]]]. rewrite E.
    destruct (feed_bad c (match sp with Some v => v | None => speed_pos c end)).
    - unfold final, emitted. cbn [fst snd]. split; [exact Hs1|]. rewrite R1. intros ? ? ? ? ? [].
    - unfold final, emitted. cbn [fst snd do_dwell]. split; [exact Hs1|].
      rewrite run_list_app, R1. rewrite run_list_app. cbn [run_list run_stmt run_tok].
      pose proof (run_g1_closed m1 false (optfm c x) (optfm c y) (optfm c z)
                    (Some (fm c (match sp with Some v => v | None => speed_pos c end))) Hm1) as G.
      destruct (run_g1 m1 false (optfm c x) (optfm c y) (optfm c z) _) as [m2 ev2]. cbn [snd] in G.
      pose proof (dwell_toks_no_moves m2 (long_p c)) as Dm.
      destruct (run_list call m2 (dwell_toks (long_p c))) as [m3 ev3]. cbn [snd] in *.
      intros src dst f s g9 H. cbn [app] in H. rewrite app_nil_r in H. apply in_app_or in H as [H|H]; eauto.
  Qed.

  (* rotation blocks: no PSO inside the enter / exit sequences; the exit sequence switches the rotation off *)
  Lemma rot_g1_nopso : forall c, si nopso (rot_g1 c) = true.  Proof. reflexivity. Qed.

  Lemma enter_rot_frame : forall c st e,
    c_sh (fst (enter_rot c st e)) = c_sh st /\ forallb (si nopso) (snd (enter_rot c st e)) = true.
  Proof.
    intros c st e. unfold enter_rot.
    pose proof (do_dwell_sh' st (short_p c)) as [A1 B1]. destruct (do_dwell st (short_p c)) as [st1 e1]. cbn [fst snd] in *.
    destruct (negb e && negb (aero c)); cbn [fst snd].
    - split; [exact A1|]. cbn [app forallb]. rewrite (si_qt_nopso e1 B1). reflexivity.
    - pose proof (do_dwell_sh' st1 (short_p c)) as [A2 B2]. destruct (do_dwell st1 (short_p c)) as [st2 e2]. cbn [fst snd] in *.
      split; [congruence|]. cbn [app forallb]. rewrite forallb_app, (si_qt_nopso e1 B1). cbn [forallb]. rewrite (si_qt_nopso e2 B2). reflexivity.
  Qed.

  Lemma exit_rot_frame : forall c st,
    c_sh (fst (exit_rot c st)) = c_sh st /\ forallb (si nopso) (snd (exit_rot c st)) = true /\
    forall m, mrot (fst (run_list call m (snd (exit_rot c st)))) = false.
  Proof.
    intros c st. unfold exit_rot.
    pose proof (do_dwell_sh' st (short_p c)) as [A1 B1]. destruct (do_dwell st (short_p c)) as [st1 e1]. cbn [fst snd] in *.
    split; [exact A1|]. split; [cbn [app forallb]; rewrite (si_qt_nopso e1 B1); reflexivity|].
    intros m. change ([rot_g1 c; SI (TG84 false)] ++ e1) with ([rot_g1 c] ++ [SI (TG84 false)] ++ e1).
    rewrite run_list_app. destruct (run_list call m [rot_g1 c]) as [m1 ev1]. cbn [app]. rewrite run_list_cons.
    cbn [run_stmt run_tok].
    pose proof (run_norot e1 (si_qt_norot e1 B1) (set_rot m1 false)) as E.
    destruct (run_list call (set_rot m1 false) e1) as [m3 ev3]. cbn [fst] in *. exact E.
  Qed.

  Theorem exec_CS : forall c, cfg_ok c -> forall o, pub o = true -> forall st, S st (exec c o st) /\ CS st (exec c o st).
  Proof.
    intros c Hc.
    apply (op_ind2 (fun o => pub o = true -> forall st, S st (exec c o st) /\ CS st (exec c o st))).
    - intros o Hleaf Hp st. split; [now apply exec_S|]. destruct Hc as [Hd Hs].
      destruct o; try contradiction; cbn [pub] in Hp; try discriminate; cbn [exec];
        try (now apply do_write_CS); try (now apply do_move_to_CS); try (now apply CS_qt).
      + pose proof (do_dwell_sh' st p) as [A B]. destruct (do_dwell st p) as [st1 e1]. now apply CS_qt.
      + unfold do_set_home. destruct x, y, z; now apply CS_qt.
      + unfold do_load. destruct (negb (f_pgm f)); now apply CS_qt.
      + unfold do_remove. destruct (negb (f_pgm f)); [now apply CS_qt|]. destruct (negb (mem _ _)); now apply CS_qt.
      + unfold do_farcall. destruct (negb (f_pgm f)); [now apply CS_qt|]. destruct (negb (mem _ _)); [now apply CS_qt|].
        pose proof (do_dwell_sh' st (short_p c)) as [A B]. destruct (do_dwell st (short_p c)) as [st1 e1]. cbn [fst snd] in *.
        apply CS_qt; [exact A|]. rewrite forallb_app, B. reflexivity.
      + unfold do_buffered. destruct (negb (f_pgm f)); [now apply CS_qt|]. destruct (negb (mem _ _)); [now apply CS_qt|].
        pose proof (do_dwell_sh' st (short_p c)) as [A B]. destruct (do_dwell st (short_p c)) as [st1 e1]. cbn [fst snd] in *.
        apply CS_qt; [exact A|]. rewrite forallb_app, B. reflexivity.
    - intros n b HF Hp st. split; [now apply exec_S|]. rewrite pub_repeat in Hp. rewrite exec_repeat.
      destruct n as [n|]; [|now apply CS_qt]. destruct (n <=? 0); [now apply CS_qt|].
      assert (HB : S st (exec_list c b st) /\ CS st (exec_list c b st)).
      { apply exec_list_CS. apply pubs_forall in Hp. clear -HF Hp. induction HF as [|x r Hx _ IH]; constructor;
          inversion Hp; subst; auto. }
      destruct HB as [[A B] C]. destruct (exec_list c b st) as [[st1 e1] o1].
      intros Hsh Hsub. unfold close_loop, CS, final, emitted in *. cbn [fst snd c_dvars c_sh st_dwell] in *.
      destruct (C Hsh Hsub) as [Sh Ca]. split; [exact Sh|]. apply calm_rep; [now apply B | exact Ca].
    - intros v n b HF Hp st. split; [now apply exec_S|]. rewrite pub_for in Hp. rewrite exec_for.
      destruct n as [n|]; [|now apply CS_qt]. destruct (n <=? 0); [now apply CS_qt|].
      destruct v as [v|]; [|now apply CS_qt]. destruct (negb (mem v (c_dvars st))); [now apply CS_qt|].
      assert (HB : S st (exec_list c b st) /\ CS st (exec_list c b st)).
      { apply exec_list_CS. apply pubs_forall in Hp. clear -HF Hp. induction HF as [|x r Hx _ IH]; constructor;
          inversion Hp; subst; auto. }
      destruct HB as [[A B] C]. destruct (exec_list c b st) as [[st1 e1] o1].
      intros Hsh Hsub. unfold close_loop, CS, final, emitted in *. cbn [fst snd c_dvars c_sh st_dwell] in *.
      destruct (C Hsh Hsub) as [Sh Ca]. split; [exact Sh|]. apply calm_for; [now apply B | exact Ca].
    - intros e b HF Hp st. split; [now apply exec_S|]. rewrite pub_rot in Hp. rewrite exec_axisrot.
      destruct Hc as [Hd Hs].
      pose proof (enter_rot_frame c st e) as [F1 N1]. pose proof (enter_rot_S c st e Hs) as [D1 S1].
      destruct (enter_rot c st e) as [st1 e1]. cbn [fst snd] in *.
      assert (HB : S st1 (exec_list c b st1) /\ CS st1 (exec_list c b st1)).
      { apply exec_list_CS. apply pubs_forall in Hp. clear -HF Hp. induction HF as [|x r Hx _ IH]; constructor;
          inversion Hp; subst; auto. }
      destruct HB as [[A2 B2] C2]. destruct (exec_list c b st1) as [[st2 e2] o2].
      pose proof (exit_rot_frame c st2) as [F3 [N3 R3]]. pose proof (exit_rot_S c st2 Hs) as [D3 S3].
      destruct (exit_rot c st2) as [st3 e3]. cbn [fst snd] in *.
      intros Hsh Hsub. unfold CS, final, emitted in *. cbn [fst snd] in *. rewrite D3 in Hsub.
      assert (Hsh1 : c_sh st1 = false) by congruence.
      destruct (C2 Hsh1 Hsub) as [Sh2 Ca2]. split; [congruence|].
      intros m Hm Hmsh. rewrite run_list_app.
      pose proof (safe_run call call_ok D e1 (S1 D) m Hm) as [I1 _]. pose proof (run_nopso e1 N1 m) as P1.
      destruct (run_list call m e1) as [m1 ev1]. cbn [fst] in *. rewrite run_list_app.
      assert (Hm1 : msh m1 = false) by congruence.
      destruct (Ca2 m1 I1 Hm1) as [P2 _].
      pose proof (safe_run call call_ok D e2 (B2 D Hsub) m1 I1) as [I2 _].
      destruct (run_list call m1 e2) as [m2 ev2]. cbn [fst] in *.
      pose proof (run_nopso e3 N3 m2) as P3. pose proof (R3 m2) as Q3.
      destruct (run_list call m2 e3) as [m3 ev3]. cbn [fst] in *. split; [congruence | now left].
  Qed.

  Theorem exec_list_calm : forall c, cfg_ok c -> forall l, pubs l = true -> forall st,
    S st (exec_list c l st) /\ CS st (exec_list c l st).
  Proof.
    intros c Hc l Hp st. apply exec_list_CS. apply pubs_forall in Hp.
    induction Hp as [|x r Hx _ IH]; constructor; [intros; now apply exec_CS | exact IH].
  Qed.
End Calm.
