(* A compiler object that has written a file (shutter tracked closed, nothing left loaded) writes its next file exactly as a
   new object would: every statement about [session] carries over to the second file. *)
From Coq Require Import List Bool ZArith NArith QArith.
Import ListNotations.
From Femto Require Import Base.Num Ctl.Tok Geo.Rigid Pgm.Ops Pgm.Reuse.

Lemma session_gen_fresh : forall c ops, fst (session_gen c0 c ops) = session c ops.
Proof.
  intros c ops. unfold session_gen, session. destruct (negb (laser_ok c)); [reflexivity|].
  change (st_dwell c0 0) with c0.
  destruct (do_dwell c0 (Some 1)) as [st1 e1].
  destruct (if aero c then enter_rot c st1 false else (st1, [])) as [st2 e2].
  destruct (exec_list c ops st2) as [[st3 e3] o3].
  destruct (if aero c then exit_rot c st3 else (st3, [])) as [st4 e4].
  destruct (if home c then do_move_to c st4 (Some (-2 # 1)) (Some 0) (Some 0) None else (st4, [], Ok)) as [[st5 e5] [|k]]; reflexivity.
Qed.

Lemma reenter_fresh : forall st, c_sh st = false -> c_loaded st = [] -> st_dwell (after_close st) 0 = c0.
Proof. intros [d sh l dv pre] Hs Hl. cbn in Hs, Hl. subst. reflexivity. Qed.

Theorem reuse_is_fresh : forall st c ops, c_sh st = false -> c_loaded st = [] ->
  fst (session_gen (after_close st) c ops) = session c ops.
Proof.
  intros st c ops Hs Hl. rewrite <- session_gen_fresh. unfold session_gen.
  destruct (negb (laser_ok c)); [reflexivity|]. rewrite (reenter_fresh st Hs Hl). reflexivity.
Qed.

(* whatever the first session did, the second one starts with nothing declared, an empty preamble and a zero total *)
Theorem second_session_start : forall st,
  c_dvars (st_dwell (after_close st) 0) = [] /\ c_pre (st_dwell (after_close st) 0) = [] /\ c_dwell (st_dwell (after_close st) 0) = 0.
Proof. intros st. repeat split. Qed.
