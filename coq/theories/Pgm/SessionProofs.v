(* Session-level consequences: the written file parses back to a loop tree (balanced, properly nested,
   NEXT matches FOR), and the reported dwell equals the dwell the controller executes. *)
From Coq Require Import List Bool ZArith NArith QArith Qabs Lia.
Import ListNotations.
From Femto Require Import Base.Num Ctl.Tok Ctl.Machine Ctl.MachineProofs Ctl.ParseProofs Ctl.Dwell
  Geo.Rigid Pgm.Ops Pgm.OpsProofs.
Open Scope Q_scope.

Lemma dw_pre : forall pre, forallb is_dvar pre = true -> dw (map SI pre) == 0.
Proof.
  induction pre as [|t r IH]; intros H; cbn [map dw]; [ring|].
  cbn [forallb] in H. apply andb_true_iff in H as [H1 H2]. rewrite (IH H2).
  destruct t; try discriminate. cbn. ring.
Qed.

Lemma pre_not_ctl : forall pre, forallb is_dvar pre = true -> forallb (fun t => negb (is_ctl t)) pre = true.
Proof.
  induction pre as [|t r IH]; intros H; [reflexivity|]. cbn [forallb] in *.
  apply andb_true_iff in H as [H1 H2]. rewrite (IH H2). destruct t; try discriminate. reflexivity.
Qed.

(* what a successful session wrote, as a tree *)
Definition tree_of (pre : list tok) (body : list stmt) : list stmt := map SI pre ++ body.

Theorem session_tree : forall c ops file d o,
  session c ops = Written file d o ->
  exists pre body,
    file = pre ++ flatten body /\ forallb is_dvar pre = true /\ wf body = true
    /\ parse file = Some (tree_of pre body)
    /\ d == dw (tree_of pre body).
Proof.
  intros c ops file d o H. unfold session in H.
  destruct (negb (laser_ok c)); [discriminate|].
  pose proof (do_dwell_good c0 (Some 1)) as [W1 P1]. pose proof (do_dwell_dw c0 (Some 1)) as A1.
  destruct (do_dwell c0 (Some 1)) as [st1 e1]. cbn [fst snd] in *.
  assert (H2 : let r := (if aero c then enter_rot c st1 false else (st1, [])) in
               wf (snd r) = true /\ c_pre (fst r) = c_pre st1 /\ c_dwell (fst r) == c_dwell st1 + dw (snd r)).
  { destruct (aero c).
    - pose proof (enter_rot_good c st1 false) as [W P]. pose proof (enter_rot_dw c st1 false). auto.
    - cbn. repeat split; auto. ring. }
  cbv zeta in H2. destruct (if aero c then enter_rot c st1 false else (st1, [])) as [st2 e2].
  cbn [fst snd] in H2. destruct H2 as [W2 [P2 A2]].
  pose proof (exec_list_wf c ops st2) as [W3 P3]. pose proof (exec_list_dwell c ops st2) as A3.
  destruct (exec_list c ops st2) as [[st3 e3] o3]. unfold final, emitted, acct in *. cbn [fst snd] in *.
  assert (H4 : let r := (if aero c then exit_rot c st3 else (st3, [])) in
               wf (snd r) = true /\ c_pre (fst r) = c_pre st3 /\ c_dwell (fst r) == c_dwell st3 + dw (snd r)).
  { destruct (aero c).
    - pose proof (exit_rot_good c st3) as [W P]. pose proof (exit_rot_dw c st3). auto.
    - cbn. repeat split; auto. ring. }
  cbv zeta in H4. destruct (if aero c then exit_rot c st3 else (st3, [])) as [st4 e4].
  cbn [fst snd] in H4. destruct H4 as [W4 [P4 A4]].
  assert (H5 : let r := (if home c then do_move_to c st4 (Some (-2 # 1)) (Some 0) (Some 0) None else (st4, [], Ok)) in
               good st4 r /\ acct st4 r).
  { destruct (home c).
    - split; [apply do_move_to_good | apply do_move_to_acct].
    - split; [now apply good_same | apply acct_ret; cbn; ring]. }
  cbv zeta in H5.
  destruct (if home c then do_move_to c st4 (Some (-2 # 1)) (Some 0) (Some 0) None else (st4, [], Ok)) as [[st5 e5] o5].
  destruct H5 as [[W5 P5] A5]. unfold final, emitted, acct in *. cbn [fst snd] in *.
  set (body := header_toks c ++ e1 ++ e2 ++ e3 ++ e4 ++ e5) in *.
  destruct o5; [|discriminate].
  assert (Ef : file = c_pre st5 ++ flatten body /\ d = c_dwell st5 /\ o = o3) by (injection H; auto).
  destruct Ef as [-> [-> ->]]. clear H. unfold final, emitted in A5. cbn [fst snd] in A5.
  assert (Hpre : forallb is_dvar (c_pre st5) = true).
  { apply P5. unfold pre_ok. rewrite P4. apply P3. unfold pre_ok. rewrite P2, P1. reflexivity. }
  assert (Wb : wf body = true).
  { unfold body. rewrite !wf_app, W1, W2, W3, W4, W5. reflexivity. }
  exists (c_pre st5), body. split; [reflexivity|]. split; [exact Hpre|]. split; [exact Wb|]. split.
  - apply parse_leading; [now apply pre_not_ctl | exact Wb].
  - unfold tree_of. rewrite dw_app, (dw_pre _ Hpre). unfold body. rewrite !dw_app.
    rewrite A5, A4, A3, A2, A1. cbn [c_dwell c0 header_toks dw dw_s]. ring.
Qed.

(* C12: the reported dwell is the dwell the controller executes, for any machine state and any call
   environment whose callees contribute no dwell of their own (sub-programs are separate files) *)
Theorem session_dwell : forall c ops file d o,
  session c ops = Written file d o ->
  exists tree, parse file = Some tree /\
    forall call, (forall m p, dwell_sum (snd (call m p)) == 0) ->
    forall m, dwell_sum (snd (run_list call m tree)) == d.
Proof.
  intros c ops file d o H. destruct (session_tree c ops file d o H) as [pre [body [_ [_ [_ [Hp Hd]]]]]].
  exists (tree_of pre body). split; [exact Hp|]. intros call Hq m.
  rewrite (executed_dwell call Hq). symmetry. exact Hd.
Qed.

(* C03: calls to unloaded programs are refused at compile time, nothing is emitted *)
Theorem refuses_unloaded : forall c st f task, f_pgm f = true -> mem (f_base f) (c_loaded st) = false ->
  do_farcall c st f = (st, [], Raised FNF) /\ do_buffered c st f task = (st, [], Raised FNF)
  /\ do_remove st f task = (st, [], Raised FNF).
Proof.
  intros c st f task Hp Hm. unfold do_farcall, do_buffered, do_remove. rewrite Hp, Hm. cbn. auto.
Qed.
