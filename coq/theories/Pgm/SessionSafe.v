(* C03 at session level: the file written by `with PGMCompiler(...) as G: <public operations>` - whatever exception is
   raised, wherever - parses to a tree that the reference controller runs with no error other than calls / removals of
   programs that are not loaded (the recorded finding), ends with the shutter closed and with the axis rotation
   deactivated. *)
From Coq Require Import List Bool ZArith NArith QArith Qabs Lia.
Import ListNotations.
From Femto Require Import Base.Num Base.NumProofs Ctl.Tok Ctl.Machine Ctl.MachineProofs Ctl.ParseProofs Ctl.Safety
  Geo.Rigid Pgm.Ops Pgm.OpsProofs Pgm.WriteProofs Pgm.SafeProofs Pgm.CalmProofs Pgm.SessionProofs.
Open Scope Z_scope.

(* ---- declared variables: every name the compiler tracks is declared by a DVAR line of the preamble ---- *)
Definition vars_of (t : tok) : list N := match t with TDvar vs => vs | _ => [] end.
Definition dv_ok (st : cstate) : Prop := sub (c_dvars st) (flat_map vars_of (c_pre st)).

Definition V (st : cstate) (r : res) : Prop := dv_ok st -> dv_ok (final r).

Lemma V_same : forall st st' e o, c_dvars st' = c_dvars st -> c_pre st' = c_pre st -> V st (st', e, o).
Proof. intros st st' e o A B H. unfold dv_ok, final in *. cbn [fst]. now rewrite A, B. Qed.

Lemma toggle_dv : forall c st on, c_dvars (fst (toggle c st on)) = c_dvars st /\ c_pre (fst (toggle c st on)) = c_pre st.
Proof. intros c st on. unfold toggle, do_shutter. cbn. destruct (Bool.eqb on (c_sh st)); split; reflexivity. Qed.

Lemma write_step_dv : forall c st prev a s,
  c_dvars (fst (write_step c st prev a s)) = c_dvars st /\ c_pre (fst (write_step c st prev a s)) = c_pre st.
Proof.
  intros c st prev a s. unfold write_step.
  destruct (Z.eqb s 0 && c_sh st).
  - pose proof (toggle_dv c st false) as T. destruct (toggle c st false) as [st1 e1]. exact T.
  - destruct (Z.eqb s 1 && negb (c_sh st)).
    + pose proof (toggle_dv c st true) as T. destruct (toggle c st true) as [st1 e1]. exact T.
    + split; reflexivity.
Qed.

Lemma write_loop_dv : forall c l st prev,
  c_dvars (fst (write_loop c st prev l)) = c_dvars st /\ c_pre (fst (write_loop c st prev l)) = c_pre st.
Proof.
  intros c. induction l as [|[a s] r IH]; intros st prev; cbn [write_loop]; [split; reflexivity|].
  pose proof (write_step_dv c st prev a s) as [A1 B1]. destruct (write_step c st prev a s) as [st1 e1].
  pose proof (IH st1 (Some a)) as [A2 B2]. destruct (write_loop c st1 (Some a) r) as [st2 e2]. cbn [fst] in *.
  split; congruence.
Qed.

Lemma do_write_V : forall c st pts, V st (do_write c st pts).
Proof.
  intros c st pts. unfold do_write. destruct (existsb _ pts); [now apply V_same|].
  pose proof (write_loop_dv c (map (fun p => (fmt_pt c p, ps p)) pts) st None) as [A B].
  destruct (write_loop c st None (map (fun p => (fmt_pt c p, ps p)) pts)) as [st1 e1]. cbn [fst] in *.
  now apply V_same.
Qed.

Lemma do_move_to_V : forall c st x y z sp, V st (do_move_to c st x y z sp).
Proof.
  intros c st x y z sp. unfold do_move_to, do_shutter.
  destruct (c_sh st); [destruct (Bool.eqb false true)|];
    destruct (feed_bad c _); now apply V_same.
Qed.

Lemma rot_dv : forall c st e,
  c_dvars (fst (enter_rot c st e)) = c_dvars st /\ c_pre (fst (enter_rot c st e)) = c_pre st /\
  c_dvars (fst (exit_rot c st)) = c_dvars st /\ c_pre (fst (exit_rot c st)) = c_pre st.
Proof. intros c st e. unfold enter_rot, exit_rot. cbn. destruct (negb e && negb (aero c)); repeat split; reflexivity. Qed.

Lemma seq_V : forall st (r : res) (k : cstate -> res), V st r -> (forall st1, V st1 (k st1)) -> V st (seq r k).
Proof.
  intros st [[st1 e1] o1] k H1 Hk. unfold seq. destruct o1; [|exact H1].
  specialize (Hk st1). destruct (k st1) as [[st2 e2] o2]. unfold V, final in *. cbn [fst] in *. auto.
Qed.

Lemma exec_list_V : forall c l, Forall (fun o => forall st, V st (exec c o st)) l -> forall st, V st (exec_list c l st).
Proof.
  induction l as [|o r IH]; intros HF st; cbn [exec_list]; [now apply V_same|].
  inversion HF as [|? ? Ho Hr]; subst. apply seq_V; [apply Ho | intros; now apply IH].
Qed.

Lemma close_loop_V : forall st n wrap (r : res), V st r -> V st (close_loop st n wrap r).
Proof. intros st n wrap [[st1 e1] o1] H. unfold close_loop, V, final, dv_ok in *. cbn [fst c_dvars c_pre st_dwell] in *. exact H. Qed.

Theorem exec_V : forall c o st, V st (exec c o st).
Proof.
  intros c. apply (op_ind2 (fun o => forall st, V st (exec c o st))).
  - intros o Hleaf st. destruct o; try contradiction; cbn [exec];
      try (apply do_write_V); try (apply do_move_to_V); try (now apply V_same).
    + unfold do_set_home. destruct x, y, z; now apply V_same.
    + (* dvar *) intros H v Hv. unfold final in *. cbn [fst c_dvars c_pre st_dvars flat_map vars_of] in *.
      rewrite existsb_app in *. apply orb_true_iff in Hv as [Hv|Hv]; [rewrite (H v Hv); apply orb_true_r | now rewrite Hv].
    + unfold do_load. destruct (negb (f_pgm f)); now apply V_same.
    + unfold do_remove. destruct (negb (f_pgm f)); [now apply V_same|]. destruct (negb (mem _ _)); now apply V_same.
    + unfold do_farcall. destruct (negb (f_pgm f)); [now apply V_same|]. destruct (negb (mem _ _)); now apply V_same.
    + unfold do_buffered. destruct (negb (f_pgm f)); [now apply V_same|]. destruct (negb (mem _ _)); now apply V_same.
    + unfold do_shutter. destruct (Bool.eqb on (c_sh st)); now apply V_same.
  - intros n b HF st. rewrite exec_repeat. destruct n as [n|]; [|now apply V_same].
    destruct (n <=? 0); [now apply V_same|]. apply close_loop_V. now apply exec_list_V.
  - intros v n b HF st. rewrite exec_for. destruct n as [n|]; [|now apply V_same].
    destruct (n <=? 0); [now apply V_same|]. destruct v as [v|]; [|now apply V_same].
    destruct (negb (mem v (c_dvars st))); [now apply V_same|]. apply close_loop_V. now apply exec_list_V.
  - intros e b HF st. rewrite exec_axisrot.
    pose proof (rot_dv c st e) as [A1 [B1 _]]. destruct (enter_rot c st e) as [st1 e1]. cbn [fst] in *.
    pose proof (exec_list_V c b HF st1) as H2. destruct (exec_list c b st1) as [[st2 e2] o2].
    pose proof (rot_dv c st2 e) as [_ [_ [A3 B3]]]. destruct (exit_rot c st2) as [st3 e3]. cbn [fst] in *.
    intros H. unfold V, final, dv_ok in *. cbn [fst] in *. rewrite A3, B3. apply H2. now rewrite A1, B1.
Qed.

Lemma exec_list_dv : forall c l st, V st (exec_list c l st).
Proof. intros c l st. apply exec_list_V. apply Forall_forall. intros; apply exec_V. Qed.

(* ---- the machine side of the preamble and the header ---- *)
Section Run.
  Context (call : mstate -> N -> mstate * list event).

  Lemma lookup_decl : forall v (vs : list N) (l : list (N * option Z)),
    existsb (N.eqb v) vs = true -> lookup v (map (fun w => (w, @None Z)) vs ++ l) <> None.
  Proof.
    induction vs as [|w r IH]; intros l H; [discriminate|]. cbn [existsb] in H. cbn [map app lookup].
    destruct (N.eqb v w) eqn:E; [discriminate|]. cbn [orb] in H. now apply IH.
  Qed.

  Lemma run_pre : forall pre, forallb is_dvar pre = true -> forall m,
    let m' := fst (run_list call m (map SI pre)) in
    snd (run_list call m (map SI pre)) = [] /\
    msh m' = msh m /\ mabs m' = mabs m /\ mrot m' = mrot m /\
    (forall v, existsb (N.eqb v) (flat_map vars_of pre) = true -> declared m' v) /\
    (forall v, declared m v -> declared m' v).
  Proof.
    induction pre as [|t r IH]; intros H m; cbv zeta.
    - cbn. repeat split; auto. intros v Hv; discriminate.
    - cbn [forallb] in H. apply andb_true_iff in H as [Ht Hr]. destruct t; try discriminate.
      cbn [map]. rewrite run_list_cons. cbn [run_stmt run_tok].
      specialize (IH Hr (set_vars m (map (fun v => (v, None)) vs ++ mvars m))). cbv zeta in IH.
      destruct (run_list call (set_vars m (map (fun v => (v, None)) vs ++ mvars m)) (map SI r)) as [m2 e2].
      cbn [fst snd] in *. destruct IH as [E [A [B [C [Dc K]]]]]. subst e2.
      split; [reflexivity|]. split; [exact A|]. split; [exact B|]. split; [exact C|]. split.
      + intros v Hv. cbn [flat_map vars_of] in Hv. rewrite existsb_app in Hv. apply orb_true_iff in Hv as [Hv|Hv].
        * apply K. unfold declared. cbn [mvars set_vars]. now apply lookup_decl.
        * now apply Dc.
      + intros v Hv. apply K. unfold declared in *. cbn [mvars set_vars]. now apply lookup_app_some.
  Qed.

  Lemma run_header : forall c m,
    let m' := fst (run_list call m (header_toks c)) in
    snd (run_list call m (header_toks c)) = [] /\ msh m' = false /\ mabs m' = true /\ mrot m' = mrot m /\ mvars m' = mvars m.
  Proof. intros c m. cbn. repeat split; reflexivity. Qed.
End Run.

(* sub-programs are separate files: calling one keeps the caller's mode and variables, its shutter and rotation state,
   and raises nothing but (possibly) not-loaded errors of its own *)
Definition call_wb (call : mstate -> N -> mstate * list event) : Prop :=
  (forall d m p, minv d m -> minv d (fst (call m p)) /\ only_notloaded (snd (call m p))) /\
  (forall m p, msh (fst (call m p)) = msh m /\ mrot (fst (call m p)) = mrot m).

Lemma ext_call_wb : call_wb ext_call.
Proof. split; intros; cbn; split; auto. apply only_nil. Qed.

(* the session, with the rotation block around the operations named as what it is *)
Definition session_parts (c : cfg) (ops : list op) : cstate * list stmt * outcome * outcome :=
  let '(st1, e1) := do_dwell c0 (Some 1%Q) in
  let '(st4, e234, o3) := if aero c then exec c (OAxisRot false ops) st1 else exec_list c ops st1 in
  let '(st5, e5, o5) := if home c then do_move_to c st4 (Some (-2 # 1)%Q) (Some 0%Q) (Some 0%Q) None else (st4, [], Ok) in
  (st5, header_toks c ++ e1 ++ e234 ++ e5, o3, o5).

Lemma session_eq : forall c ops,
  session c ops =
  if negb (laser_ok c) then NotWritten VE
  else let '(st5, body, o3, o5) := session_parts c ops in
       match o5 with
       | Raised k => NotWritten k
       | Ok => Written (c_pre st5 ++ flatten body) (c_dwell st5) o3
       end.
Proof.
  intros c ops. unfold session, session_parts. destruct (negb (laser_ok c)); [reflexivity|].
  destruct (do_dwell c0 (Some 1%Q)) as [st1 e1]. destruct (aero c).
  - rewrite exec_axisrot. destruct (enter_rot c st1 false) as [st2 e2]. destruct (exec_list c ops st2) as [[st3 e3] o3].
    destruct (exit_rot c st3) as [st4 e4].
    destruct (if home c then do_move_to c st4 (Some (-2 # 1)%Q) (Some 0%Q) (Some 0%Q) None else (st4, [], Ok)) as [[st5 e5] o5].
    destruct o5; [|reflexivity]. now rewrite <- !app_assoc.
  - destruct (exec_list c ops st1) as [[st3 e3] o3].
    destruct (if home c then do_move_to c st3 (Some (-2 # 1)%Q) (Some 0%Q) (Some 0%Q) None else (st3, [], Ok)) as [[st5 e5] o5].
    destruct o5; [|reflexivity]. cbn [app]. reflexivity.
Qed.

Theorem session_safe : forall c ops file d o,
  cfg_ok c -> pubs ops = true ->
  session c ops = Written file d o ->
  exists tree, parse file = Some tree /\
    forall call, call_wb call -> forall m, mrot m = false ->
      only_notloaded (snd (run_list call m tree)) /\
      msh (fst (run_list call m tree)) = false /\
      mrot (fst (run_list call m tree)) = false.
Proof.
  intros c ops file d o Hc Hp H. rewrite session_eq in H.
  destruct (negb (laser_ok c)); [discriminate|]. unfold session_parts in H.
  destruct (do_dwell c0 (Some 1%Q)) as [st1 e1] eqn:E1.
  assert (F1 : c_sh st1 = false /\ c_dvars st1 = [] /\ c_pre st1 = [] /\ forallb (si qt) e1 = true /\ wf e1 = true).
  { unfold do_dwell in E1. injection E1 as <- <-. repeat split; reflexivity. }
  destruct F1 as [Sh1 [Dv1 [Pr1 [Q1 W1]]]].
  set (mid := if aero c then exec c (OAxisRot false ops) st1 else exec_list c ops st1) in *.
  assert (Gmid : good st1 mid) by (unfold mid; destruct (aero c); [apply exec_good | apply exec_list_wf]).
  assert (Vmid : V st1 mid) by (unfold mid; destruct (aero c); [apply exec_V | apply exec_list_dv]).
  assert (Hmid : forall call, call_wb call -> forall D, S st1 mid /\ CS call D st1 mid).
  { intros call [Hok Hfr] D. unfold mid. destruct (aero c).
    - apply (exec_CS call Hok Hfr D c Hc (OAxisRot false ops)). now rewrite pub_rot.
    - now apply (exec_list_calm call Hok Hfr D c Hc). }
  destruct mid as [[st4 e234] o3] eqn:Emid.
  set (lst := if home c then do_move_to c st4 (Some (-2 # 1)%Q) (Some 0%Q) (Some 0%Q) None else (st4, [], Ok)) in *.
  assert (Glast : good st4 lst) by (unfold lst; destruct (home c); [apply do_move_to_good | now apply good_same]).
  assert (Vlast : V st4 lst) by (unfold lst; destruct (home c); [apply do_move_to_V | now apply V_same]).
  assert (Hlast : forall call, call_wb call -> forall D, S st4 lst /\ CS call D st4 lst).
  { intros call [Hok Hfr] D. unfold lst. destruct (home c).
    - destruct Hc as [Hd _]. split; [now apply do_move_to_S | apply (do_move_to_CS call Hfr D)].
    - split; [now apply S_same | now apply (CS_qt call Hfr D)]. }
  destruct lst as [[st5 e5] o5] eqn:Elast. destruct o5; [|discriminate].
  injection H as <- _ _.
  unfold good, V, final, emitted in *. cbn [fst snd] in *.
  destruct Gmid as [W2 P2]. destruct Glast as [W3 P3].
  assert (Hpre : forallb is_dvar (c_pre st5) = true).
  { apply P3, P2. unfold pre_ok. now rewrite Pr1. }
  set (body := header_toks c ++ e1 ++ e234 ++ e5).
  assert (Wb : wf body = true) by (unfold body; rewrite !wf_app, W1, W2, W3; reflexivity).
  exists (tree_of (c_pre st5) body). split; [exact (parse_leading (c_pre st5) body (pre_not_ctl _ Hpre) Wb)|].
  intros call Hwb m Hrot. pose proof Hwb as [Hok Hfr].
  set (D := c_dvars st5).
  destruct (Hmid call Hwb D) as [[A2 B2] C2]. destruct (Hlast call Hwb D) as [[A3 B3] C3].
  unfold S, CS, final, emitted in *. cbn [fst snd] in *.
  assert (Hdv : dv_ok st5).
  { apply Vlast, Vmid. unfold dv_ok. rewrite Dv1. intros v Hv. discriminate. }
  (* 1. the preamble declares every tracked variable *)
  unfold tree_of. rewrite run_list_app.
  pose proof (run_pre call (c_pre st5) Hpre m) as Rp. cbv zeta in Rp.
  destruct (run_list call m (map SI (c_pre st5))) as [ma eva]. cbn [fst snd] in Rp.
  destruct Rp as [-> [Pa [Pb [Pc [Pd _]]]]].
  (* 2. the header closes the shutter and selects absolute mode *)
  unfold body. rewrite run_list_app.
  pose proof (run_header call c ma) as Rh. cbv zeta in Rh.
  destruct (run_list call ma (header_toks c)) as [mb evb]. cbn [fst snd] in Rh.
  destruct Rh as [-> [Hb1 [Hb2 [Hb3 Hb4]]]].
  assert (Imb : minv D mb).
  { split; [exact Hb2|]. intros v Hv. unfold declared. rewrite Hb4. apply Pd. apply Hdv. exact Hv. }
  (* 3. the rest is safe and calm *)
  assert (Srest : safe D (e1 ++ e234 ++ e5) = true).
  { rewrite !safe_app. rewrite (B2 D A3), (B3 D (sub_refl D)).
    assert (Se1 : safe D e1 = true) by (unfold do_dwell in E1; injection E1 as _ <-; reflexivity).
    rewrite Se1. reflexivity. }
  assert (Crest : calm call D (e1 ++ e234 ++ e5)).
  { destruct (C2 Sh1 A3) as [Sh4 Ca2]. destruct (C3 Sh4 (sub_refl D)) as [_ Ca3].
    apply (calm_app call Hok D); [|now apply (calm_qt call Hfr D)|].
    - rewrite !safe_app in Srest. apply andb_true_iff in Srest as [X _]. exact X.
    - apply (calm_app call Hok D); [now apply B2 | exact Ca2 | exact Ca3]. }
  pose proof (safe_run call Hok D _ Srest mb Imb) as [_ Onl].
  destruct (Crest mb Imb Hb1) as [Fsh Frot].
  destruct (run_list call mb (e1 ++ e234 ++ e5)) as [mc evc]. cbn [fst snd] in *.
  split; [|split].
  - cbn [app]. exact Onl.
  - exact Fsh.
  - destruct Frot as [R|R]; [exact R | congruence].
Qed.
