(* C09: what write emits depends on the compiler state only through the tracked shutter; writing the same
   closed path twice emits the same instructions twice. *)
From Coq Require Import List Bool ZArith NArith QArith Qabs.
Import ListNotations.
From Femto Require Import Base.Num Ctl.Tok Geo.Rigid Pgm.Ops Pgm.OpsProofs.

Lemma toggle_indep : forall c st1 st2 on, c_sh st1 = c_sh st2 ->
  snd (toggle c st1 on) = snd (toggle c st2 on) /\ c_sh (fst (toggle c st1 on)) = c_sh (fst (toggle c st2 on)).
Proof.
  intros c st1 st2 on H. unfold toggle, do_dwell, do_shutter. cbn [fst snd c_sh st_dwell].
  rewrite H. destruct (Bool.eqb on (c_sh st2)); cbn; auto.
Qed.

Lemma write_step_indep : forall c st1 st2 prev a s, c_sh st1 = c_sh st2 ->
  snd (write_step c st1 prev a s) = snd (write_step c st2 prev a s)
  /\ c_sh (fst (write_step c st1 prev a s)) = c_sh (fst (write_step c st2 prev a s)).
Proof.
  intros c st1 st2 prev a s H. unfold write_step. rewrite H.
  destruct (Z.eqb s 0 && c_sh st2); [|destruct (Z.eqb s 1 && negb (c_sh st2))].
  - destruct (toggle_indep c st1 st2 false H) as [E1 E2].
    destruct (toggle c st1 false) as [a1 e1], (toggle c st2 false) as [a2 e2]. cbn [fst snd] in *. now subst.
  - destruct (toggle_indep c st1 st2 true H) as [E1 E2].
    destruct (toggle c st1 true) as [a1 e1], (toggle c st2 true) as [a2 e2]. cbn [fst snd] in *. now subst.
  - cbn. auto.
Qed.

Lemma write_loop_indep : forall c l st1 st2 prev, c_sh st1 = c_sh st2 ->
  snd (write_loop c st1 prev l) = snd (write_loop c st2 prev l)
  /\ c_sh (fst (write_loop c st1 prev l)) = c_sh (fst (write_loop c st2 prev l)).
Proof.
  induction l as [|[a s] r IH]; intros st1 st2 prev H; cbn [write_loop]; [auto|].
  destruct (write_step_indep c st1 st2 prev a s H) as [E1 E2].
  destruct (write_step c st1 prev a s) as [u1 e1], (write_step c st2 prev a s) as [u2 e2]. cbn [fst snd] in *.
  destruct (IH u1 u2 (Some a) E2) as [F1 F2].
  destruct (write_loop c u1 (Some a) r) as [w1 f1], (write_loop c u2 (Some a) r) as [w2 f2]. cbn [fst snd] in *.
  now subst.
Qed.

Theorem write_indep : forall c st1 st2 pts, c_sh st1 = c_sh st2 ->
  emitted (do_write c st1 pts) = emitted (do_write c st2 pts)
  /\ c_sh (final (do_write c st1 pts)) = c_sh (final (do_write c st2 pts)).
Proof.
  intros c st1 st2 pts H. unfold do_write. destruct (existsb _ pts); [cbn; auto|].
  destruct (write_loop_indep c (map (fun p => (fmt_pt c p, ps p)) pts) st1 st2 None H) as [E1 E2].
  destruct (write_loop c st1 None _) as [u1 e1], (write_loop c st2 None _) as [u2 e2]. cbn [fst snd] in *.
  unfold do_dwell, emitted, final. cbn [fst snd c_sh st_dwell]. subst e2. split; [reflexivity | exact E2].
Qed.

(* writing the same matrix twice emits the same instructions twice (when the first write leaves the shutter
   as it found it, e.g. a closed path written with the shutter closed) *)
Theorem write_twice : forall c st pts,
  c_sh (final (do_write c st pts)) = c_sh st ->
  emitted (exec_list c [OWrite pts; OWrite pts] st) = emitted (do_write c st pts) ++ emitted (do_write c st pts)
  \/ (exists k, snd (do_write c st pts) = Raised k).
Proof.
  intros c st pts Hsh. cbn [exec_list exec]. unfold seq.
  destruct (do_write c st pts) as [[st1 e1] o1] eqn:E1. destruct o1 as [|k]; [|right; exists k; reflexivity].
  left. unfold final in Hsh. cbn [fst] in Hsh.
  destruct (write_indep c st1 st pts Hsh) as [F _]. rewrite E1 in F. unfold emitted in *. cbn [fst snd] in *.
  destruct (do_write c st1 pts) as [[st2 e2] o2]. cbn [fst snd] in *. subst e2. destruct o2; cbn [fst snd]; now rewrite ?app_nil_r.
Qed.
