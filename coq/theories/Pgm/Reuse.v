(* A compiler object used for more than one file: what is left when a file has been written, and the session that follows.
   Declarations belong to the file they were written into (the DVAR line leaves with the instruction list), and the dwell
   total a session reports is that session's; the tracked shutter and the set of loaded programs describe the machine and
   stay.  Definitions only. *)
From Coq Require Import List Bool ZArith NArith QArith.
Import ListNotations.
From Femto Require Import Base.Num Ctl.Tok Geo.Rigid Pgm.Ops.

(* close(): the instruction list is written out and emptied; the variables declared in it are forgotten with it *)
Definition after_close (st : cstate) : cstate :=
  {| c_dwell := c_dwell st; c_sh := c_sh st; c_loaded := c_loaded st; c_dvars := []; c_pre := [] |}.

(* `with G:` from any state of the object: [session] with the dwell total started afresh; also returns the state left *)
Definition session_gen (st0 : cstate) (c : cfg) (ops : list op) : session_result * cstate :=
  if negb (laser_ok c) then (NotWritten VE, st0)
  else
    let '(st1, e1) := do_dwell (st_dwell st0 0) (Some 1) in
    let '(st2, e2) := if aero c then enter_rot c st1 false else (st1, []) in
    let '(st3, e3, o3) := exec_list c ops st2 in
    let '(st4, e4) := if aero c then exit_rot c st3 else (st3, []) in
    let '(st5, e5, o5) := if home c then do_move_to c st4 (Some (-2 # 1)) (Some 0) (Some 0) None
                          else (st4, [], Ok) in
    match o5 with
    | Raised k => (NotWritten k, st5)
    | Ok => (Written (c_pre st5 ++ flatten (header_toks c ++ e1 ++ e2 ++ e3 ++ e4 ++ e5)) (c_dwell st5) o3, after_close st5)
    end.

(* two files from one object *)
Definition second_file (c : cfg) (ops1 ops2 : list op) : session_result :=
  fst (session_gen (snd (session_gen c0 c ops1)) c ops2).

(* operations given to a new object before its `with` block (declarations, loads, a pause ...): their lines open the file,
   and __enter__ keeps the dwell total because instructions are pending - on a new object the total is zero unless a DWELL
   line is pending, so "never restarted" and "restarted iff nothing is pending" are the same thing here *)
Definition session_pre (c : cfg) (pre ops : list op) : session_result :=
  let '(st0, e0, o0) := exec_list c pre c0 in
  match o0 with
  | Raised k => NotWritten k
  | Ok =>
    if negb (laser_ok c) then NotWritten VE
    else
      let '(st1, e1) := do_dwell st0 (Some 1) in
      let '(st2, e2) := if aero c then enter_rot c st1 false else (st1, []) in
      let '(st3, e3, o3) := exec_list c ops st2 in
      let '(st4, e4) := if aero c then exit_rot c st3 else (st3, []) in
      let '(st5, e5, o5) := if home c then do_move_to c st4 (Some (-2 # 1)) (Some 0) (Some 0) None
                            else (st4, [], Ok) in
      match o5 with
      | Raised k => NotWritten k
      | Ok => Written (c_pre st5 ++ flatten (e0 ++ header_toks c ++ e1 ++ e2 ++ e3 ++ e4 ++ e5)) (c_dwell st5) o3
      end
  end.
