(* C01: the program emitted by write replays the point list on the reference controller. *)
From Coq Require Import List Bool ZArith NArith QArith Qabs Lia.
Import ListNotations.
From Femto Require Import Base.Num Ctl.Tok Ctl.Machine Ctl.MachineProofs Geo.Rigid Pgm.Ops Harness.Util.
Open Scope Z_scope.

Definition pos_of (a : args) : pos := let '(x, y, z, _) := a in (Some x, Some y, Some z).
Definition feed_of (a : args) : Z := let '(_, _, _, f) := a in f.
Definition open_of (s : Z) : bool := Z.eqb s 1.

(* what the controller must do for a formatted point list: go to each point, at its feed, with the
   shutter open exactly when the point is marked open *)
Definition spec_l (l : list (args * Z)) : list (pos * Z * bool) :=
  map (fun p => (pos_of (fst p), feed_of (fst p), open_of (snd p))) l.

Definition quiet (ev : list event) : Prop := dsts ev = [] /\ errors ev = [].

Lemma quiet_nil : quiet [].
Proof. split; reflexivity. Qed.

Lemma quiet_app : forall a b, quiet a -> quiet b -> quiet (a ++ b).
Proof. intros a b [A1 A2] [B1 B2]; split; rewrite ?dsts_app, ?errors_app, ?A1, ?A2, ?B1, ?B2; reflexivity. Qed.

Lemma last_cons_default : forall {A : Type} (l : list A) (x d : A), last (x :: l) d = last l x.
Proof.
  induction l as [|y r IH]; intros x d; [reflexivity|].
  change (last (x :: y :: r) d) with (last (y :: r) d). rewrite IH. symmetry. apply IH.
Qed.

Section WriteProofs.
  Context (call : mstate -> N -> mstate * list event).
  Context (c : cfg).

  Lemma run_dwell_toks : forall m p, exists ev,
    run_list call m (dwell_toks p) = (m, ev) /\ quiet ev.
  Proof.
    intros m [q|]; unfold dwell_toks.
    - destruct (Qeq_bool q 0).
      + exists []. split; [reflexivity | apply quiet_nil].
      + eexists. split; [reflexivity | split; reflexivity].
    - exists []. split; [reflexivity | apply quiet_nil].
  Qed.

  Lemma do_dwell_sh : forall st p, c_sh (fst (do_dwell st p)) = c_sh st /\ snd (do_dwell st p) = dwell_toks p.
  Proof. intros; split; reflexivity. Qed.

  (* a toggle sets the shutter, produces no motion and no error *)
  Lemma run_toggle : forall st m on, c_sh st = msh m -> c_sh st = negb on ->
    exists ev, run_list call m (snd (toggle c st on)) = (set_sh m on, ev) /\ quiet ev
               /\ c_sh (fst (toggle c st on)) = on.
  Proof.
    intros st m on Hm Hneq. unfold toggle.
    destruct (do_dwell st (short_p c)) as [st1 e1] eqn:E1.
    pose proof (do_dwell_sh st (short_p c)) as [S1 T1]. rewrite E1 in S1, T1. cbn [fst snd] in S1, T1.
    unfold do_shutter. rewrite S1, Hneq.
    replace (Bool.eqb on (negb on)) with false by (destruct on; reflexivity).
    destruct (do_dwell (st_sh st1 on) (long_p c)) as [st3 e3] eqn:E3.
    pose proof (do_dwell_sh (st_sh st1 on) (long_p c)) as [S3 T3]. rewrite E3 in S3, T3. cbn [fst snd] in S3, T3.
    cbn [snd fst]. subst e1 e3.
    destruct (run_dwell_toks m (short_p c)) as [ev1 [R1 Q1]].
    destruct (run_dwell_toks (set_sh m on) (long_p c)) as [ev3 [R3 Q3]].
    exists (ev1 ++ [] ++ ev3). split; [|split].
    - rewrite run_list_app, R1. rewrite run_list_app.
      cbn [run_list run_stmt run_tok]. rewrite R3. reflexivity.
    - apply quiet_app; [assumption|]. apply quiet_app; [apply quiet_nil | assumption].
    - exact S3.
  Qed.

  Lemma run_g1_of : forall m a, mabs m = true -> 0 < feed_of a ->
    run_stmt call m (g1_of c a) =
    (set_pos (set_feed m (Some (feed_of a))) (pos_of a),
     [EMove (mpos m) (pos_of a) (feed_of a) (msh m) false]).
  Proof.
    intros m [[[x y] z] f] Hab Hf. cbn [feed_of pos_of] in *. unfold g1_of.
    cbn [run_stmt run_tok]. unfold run_g1. cbn [axis_val coord_val].
    destruct (mpos m) as [[cx cy] cz] eqn:Ep. rewrite Hab. cbn [axis_dst].
    apply Z.ltb_lt in Hf. rewrite Hf. unfold set_pos, set_feed; cbn. reflexivity.
  Qed.

  Lemma args_eqb_pos : forall a b, args_eqb a b = true -> pos_of a = pos_of b.
  Proof.
    intros [[[a1 a2] a3] a4] [[[b1 b2] b3] b4]; cbn. intros H.
    apply andb_true_iff in H as [H H3]. apply andb_true_iff in H as [H1 H2].
    apply Z.eqb_eq in H1, H2, H3. now subst.
  Qed.

  Lemma collapse_cons : forall cur d f s r,
    collapse cur ((d, f, s) :: r) = if pos_eqb d cur then collapse cur r else (d, f, s) :: collapse d r.
  Proof. reflexivity. Qed.

  (* one step of the point loop *)
  Lemma write_step_replay : forall st prev a s m,
    msh m = c_sh st -> mabs m = true ->
    (forall b, prev = Some b -> mpos m = pos_of b) ->
    0 < feed_of a -> (s = 0 \/ s = 1) ->
    forall st1 e1, write_step c st prev a s = (st1, e1) ->
    exists m1 ev1,
      run_list call m e1 = (m1, ev1) /\ errors ev1 = []
      /\ msh m1 = c_sh st1 /\ mabs m1 = true /\ c_sh st1 = open_of s
      /\ mpos m1 = pos_of a
      /\ (forall rest, collapse (mpos m) (dsts ev1 ++ rest)
                       = collapse (mpos m) ((pos_of a, feed_of a, open_of s) :: rest) \/ True)
      /\ (dsts ev1 = [(pos_of a, feed_of a, open_of s)]
          \/ (dsts ev1 = [] /\ mpos m = pos_of a)).
  Proof.
    intros st prev a s m Hsh Hab Hprev Hf Hs st1 e1 Hstep.
    unfold write_step in Hstep.
    set (same := match prev with Some b => args_eqb a b | None => false end) in *.
    assert (Hsame : same = true -> mpos m = pos_of a).
    { unfold same. destruct prev as [b|]; [|discriminate]. intros E.
      rewrite (Hprev b eq_refl). symmetry. now apply args_eqb_pos. }
    destruct (Z.eqb s 0 && c_sh st) eqn:CA; [|destruct (Z.eqb s 1 && negb (c_sh st)) eqn:CB].
    - (* toggle OFF *)
      apply andb_true_iff in CA as [Hs0 Hon]. apply Z.eqb_eq in Hs0. subst s.
      destruct (run_toggle st m false (eq_sym Hsh) Hon) as [ev [R [Q Sfin]]].
      destruct (toggle c st false) as [st' e] eqn:ET. cbn [fst snd] in *.
      injection Hstep as <- <-.
      destruct same eqn:Esame.
      + exists (set_sh m false), ev. rewrite app_nil_r. destruct Q as [Qd Qe].
        repeat split; auto; try (cbn; congruence);
        try (right; split; [assumption | now apply Hsame]).
      + assert (Hab' : mabs (set_sh m false) = true) by (cbn; assumption).
        pose proof (run_g1_of (set_sh m false) a Hab' Hf) as G.
        eexists. eexists. rewrite run_list_app, R. cbn [run_list]. rewrite G.
        destruct Q as [Qd Qe].
        split; [reflexivity|]. rewrite !errors_app, Qe, !dsts_app, Qd. cbn.
        repeat split; auto; try (left; reflexivity).
    - (* toggle ON *)
      apply andb_true_iff in CB as [Hs1 Hoff]. apply Z.eqb_eq in Hs1. subst s.
      apply negb_true_iff in Hoff.
      destruct (run_toggle st m true (eq_sym Hsh) Hoff) as [ev [R [Q Sfin]]].
      destruct (toggle c st true) as [st' e] eqn:ET. cbn [fst snd] in *.
      injection Hstep as <- <-.
      destruct same eqn:Esame.
      + exists (set_sh m true), ev. rewrite app_nil_r. destruct Q as [Qd Qe].
        repeat split; auto; try (cbn; congruence);
        try (right; split; [assumption | now apply Hsame]).
      + assert (Hab' : mabs (set_sh m true) = true) by (cbn; assumption).
        pose proof (run_g1_of (set_sh m true) a Hab' Hf) as G.
        eexists. eexists. rewrite run_list_app, R. cbn [run_list]. rewrite G.
        destruct Q as [Qd Qe].
        split; [reflexivity|]. rewrite !errors_app, Qe, !dsts_app, Qd. cbn.
        repeat split; auto; try (left; reflexivity).
    - (* plain move: the tracked shutter already is the wanted one *)
      injection Hstep as <- <-.
      pose proof (run_g1_of m a Hab Hf) as G.
      eexists. eexists. cbn [run_list]. rewrite G. split; [reflexivity|].
      assert (Hopen : c_sh st = open_of s).
      { unfold open_of. destruct Hs as [-> | ->]; cbn in *.
        - destruct (c_sh st); [discriminate | reflexivity].
        - destruct (c_sh st); [reflexivity | discriminate]. }
      cbn. repeat split; auto; try congruence;
      try (left; rewrite Hsh, Hopen; reflexivity).
  Qed.

  Definition ok_point (p : args * Z) : Prop := 0 < feed_of (fst p) /\ (snd p = 0 \/ snd p = 1).

  Lemma write_loop_replay : forall l st prev m,
    msh m = c_sh st -> mabs m = true ->
    (forall b, prev = Some b -> mpos m = pos_of b) ->
    Forall ok_point l ->
    forall st' e, write_loop c st prev l = (st', e) ->
    exists m' ev,
      run_list call m e = (m', ev) /\ errors ev = []
      /\ collapse (mpos m) (dsts ev) = collapse (mpos m) (spec_l l)
      /\ msh m' = c_sh st' /\ mabs m' = true
      /\ c_sh st' = last (map (fun p => open_of (snd p)) l) (c_sh st).
  Proof.
    induction l as [|[a s] r IH]; intros st prev m Hsh Hab Hprev Hok st' e Hloop.
    - cbn in Hloop. injection Hloop as <- <-. exists m, []. cbn. repeat split; auto.
    - cbn [write_loop] in Hloop.
      destruct (write_step c st prev a s) as [st1 e1] eqn:Estep.
      destruct (write_loop c st1 (Some a) r) as [st2 e2] eqn:Eloop.
      injection Hloop as <- <-.
      inversion Hok as [|? ? [Hf Hs] Hok']; subst. cbn [fst snd] in Hf, Hs.
      destruct (write_step_replay st prev a s m Hsh Hab Hprev Hf Hs st1 e1 Estep)
        as [m1 [ev1 [R1 [Er1 [Sh1 [Ab1 [Op1 [Pos1 [_ Hd]]]]]]]]].
      assert (Hprev1 : forall b, Some a = Some b -> mpos m1 = pos_of b) by (intros b [= <-]; exact Pos1).
      destruct (IH st1 (Some a) m1 Sh1 Ab1 Hprev1 Hok' st2 e2 Eloop)
        as [m2 [ev2 [R2 [Er2 [Col2 [Sh2 [Ab2 Last2]]]]]]].
      exists m2, (ev1 ++ ev2). rewrite run_list_app, R1, R2.
      split; [reflexivity|]. rewrite errors_app, Er1, Er2. split; [reflexivity|].
      split; [|split; [assumption|split; [assumption|]]].
      + rewrite dsts_app. cbn [spec_l map fst snd]. rewrite Pos1 in Col2.
        destruct Hd as [Hd | [Hd Hpos]]; rewrite Hd.
        * cbn [app]. rewrite !collapse_cons.
          destruct (pos_eqb (pos_of a) (mpos m)) eqn:Epe.
          -- apply pos_eqb_eq in Epe. rewrite <- Epe. exact Col2.
          -- f_equal. exact Col2.
        * cbn [app]. rewrite collapse_cons. rewrite Hpos, pos_eqb_refl. exact Col2.
      + rewrite Last2. cbn [map snd]. rewrite Op1. symmetry. apply last_cons_default.
  Qed.

  (* every G1 of the loop carries the configured number of decimals *)
  Definition nd_ok (s : stmt) : bool :=
    match s with SI (TG1 _ nd _ _ _ _ _) => Z.eqb nd (digits c) | _ => true end.

  Lemma dwell_toks_nd : forall p, forallb nd_ok (dwell_toks p) = true.
  Proof. intros [q|]; unfold dwell_toks; [destruct (Qeq_bool q 0)|]; reflexivity. Qed.

  Lemma g1_of_nd : forall a, nd_ok (g1_of c a) = true.
  Proof. intros [[[x y] z] f]; cbn. apply Z.eqb_refl. Qed.

  Lemma toggle_nd : forall st on, forallb nd_ok (snd (toggle c st on)) = true.
  Proof.
    intros st on. unfold toggle, do_dwell, do_shutter. cbn [fst snd].
    destruct (Bool.eqb on (c_sh _)); cbn [snd]; rewrite !forallb_app, !dwell_toks_nd; reflexivity.
  Qed.

  Lemma write_step_nd : forall st prev a s, forallb nd_ok (snd (write_step c st prev a s)) = true.
  Proof.
    intros st prev a s. unfold write_step.
    destruct (Z.eqb s 0 && c_sh st); [|destruct (Z.eqb s 1 && negb (c_sh st))].
    - pose proof (toggle_nd st false) as T. destruct (toggle c st false) as [st' e]. cbn [snd] in *.
      rewrite forallb_app, T. destruct (match prev with Some b => args_eqb a b | None => false end); cbn;
        rewrite ?g1_of_nd; reflexivity.
    - pose proof (toggle_nd st true) as T. destruct (toggle c st true) as [st' e]. cbn [snd] in *.
      rewrite forallb_app, T. destruct (match prev with Some b => args_eqb a b | None => false end); cbn;
        rewrite ?g1_of_nd; reflexivity.
    - cbn. now rewrite g1_of_nd.
  Qed.

  Lemma write_loop_nd : forall l st prev, forallb nd_ok (snd (write_loop c st prev l)) = true.
  Proof.
    induction l as [|[a s] r IH]; intros st prev; cbn [write_loop]; [reflexivity|].
    pose proof (write_step_nd st prev a s) as T.
    destruct (write_step c st prev a s) as [st1 e1]. specialize (IH st1 (Some a)).
    destruct (write_loop c st1 (Some a) r) as [st2 e2]. cbn [snd] in *.
    now rewrite forallb_app, T, IH.
  Qed.
End WriteProofs.

(* ---- the whole of write ---- *)
From Femto Require Import Base.NumProofs.

Definition spec_pts (c : cfg) (pts : list pt) : list (pos * Z * bool) :=
  spec_l (map (fun p => (fmt_pt c p, ps p)) pts).

Lemma feed_of_fmt_pt : forall c p, feed_of (fmt_pt c p) = fm c (pf p).
Proof. intros c p. unfold fmt_pt. destruct (tr32 (tc c) (px p, py p, pz p)) as [[x y] z]. reflexivity. Qed.

Theorem write_replays : forall call c st pts m,
  0 <= digits c <= 9 ->
  msh m = c_sh st -> mabs m = true ->
  Forall (fun p => ps p = 0 \/ ps p = 1) pts ->
  forall st' e o, do_write c st pts = (st', e, o) ->
  (existsb (fun p => feed_bad c (pf p)) pts = true /\ o = Raised VE /\ e = [] /\ st' = st)
  \/
  (existsb (fun p => feed_bad c (pf p)) pts = false /\ o = Ok /\
   exists m' ev,
     run_list call m e = (m', ev) /\ errors ev = []
     /\ collapse (mpos m) (dsts ev) = collapse (mpos m) (spec_pts c pts)
     /\ msh m' = c_sh st'
     /\ c_sh st' = last (map (fun p => open_of (ps p)) pts) (c_sh st)
     /\ forallb (nd_ok c) e = true).
Proof.
  intros call c st pts m Hd Hsh Hab Hs st' e o Hw. unfold do_write in Hw.
  destruct (existsb (fun p => feed_bad c (pf p)) pts) eqn:Ebad.
  - left. injection Hw as <- <- <-. auto.
  - right. split; [reflexivity|].
    set (l := map (fun p => (fmt_pt c p, ps p)) pts) in *.
    destruct (write_loop c st None l) as [st1 e1] eqn:Eloop.
    destruct (do_dwell st1 (long_p c)) as [st2 e2] eqn:Edw.
    injection Hw as <- <- <-. split; [reflexivity|].
    assert (Hok : Forall ok_point l).
    { unfold l. apply Forall_forall. intros [a s] Hin. apply in_map_iff in Hin as [p [Hp Hin]].
      injection Hp as <- <-. split; cbn [fst snd].
      - rewrite feed_of_fmt_pt. apply fmt_pos; [assumption|].
        destruct (feed_bad c (pf p)) eqn:Ef.
        + exfalso. assert (Hex : existsb (fun p => feed_bad c (pf p)) pts = true)
            by (apply existsb_exists; exists p; auto). congruence.
        + unfold feed_bad in Ef. apply negb_false_iff in Ef. apply Qle_bool_iff in Ef. exact Ef.
      - rewrite Forall_forall in Hs. now apply Hs. }
    destruct (write_loop_replay call c l st None m Hsh Hab ltac:(discriminate) Hok st1 e1 Eloop)
      as [m1 [ev1 [R1 [Er1 [Col1 [Sh1 [Ab1 Last1]]]]]]].
    pose proof (do_dwell_sh st1 (long_p c)) as [S2 T2]. rewrite Edw in S2, T2. cbn [fst snd] in S2, T2.
    destruct (run_dwell_toks call m1 (long_p c)) as [ev2 [R2 [Qd Qe]]].
    exists m1, (ev1 ++ ev2). subst e2. rewrite run_list_app, R1, R2.
    split; [reflexivity|]. rewrite errors_app, Er1, Qe, dsts_app, Qd, !app_nil_r.
    split; [reflexivity|]. split; [exact Col1|]. split; [congruence|]. split.
    + rewrite S2, Last1. unfold l. rewrite map_map. reflexivity.
    + rewrite forallb_app. pose proof (write_loop_nd c l st None) as N. rewrite Eloop in N. cbn [snd] in N.
      rewrite N. apply dwell_toks_nd.
Qed.
