(* C03, compile side, part 1: every tree emitted by a session of public operations is statically safe
   (Ctl/Safety.v): numeric coordinates, positive feeds, loop counts >= 1, FOR variables declared, absolute mode kept.
   Together with Safety.safe_run: the controller raises no error except (possibly) calls of programs that are not
   loaded - the known finding about loaded sets inside loops. *)
From Coq Require Import List Bool ZArith NArith QArith Qabs Lia.
Import ListNotations.
From Femto Require Import Base.Num Base.NumProofs Ctl.Tok Ctl.Machine Ctl.MachineProofs Ctl.ParseProofs Ctl.Safety
  Geo.Rigid Pgm.Ops Pgm.OpsProofs Pgm.WriteProofs.
Open Scope Z_scope.

(* ---- the grammar of the property's quantifier: writes of closed paths, positioning, homing, nested blocks, dwell,
   comments, set-home, rotation blocks, load / call / buffered call / remove, declarations, tic/toc, and user code
   raising anywhere; no direct shutter command, no raw instruction ---- *)
Definition closed_path (pts : list pt) : bool :=
  forallb (fun p => Z.eqb (ps p) 0 || Z.eqb (ps p) 1) pts && Z.eqb (last (map ps pts) 0) 0.

Fixpoint pub (o : op) : bool :=
  match o with
  | OWrite pts => closed_path pts
  | OShutter _ | OInstr _ => false
  | ORepeat _ b => (fix pl (l : list op) : bool := match l with [] => true | x :: r => pub x && pl r end) b
  | OFor _ _ b => (fix pl (l : list op) : bool := match l with [] => true | x :: r => pub x && pl r end) b
  | OAxisRot _ b => (fix pl (l : list op) : bool := match l with [] => true | x :: r => pub x && pl r end) b
  | _ => true
  end.
Fixpoint pubs (l : list op) : bool := match l with [] => true | x :: r => pub x && pubs r end.

Lemma pub_repeat : forall n b, pub (ORepeat n b) = pubs b.  Proof. reflexivity. Qed.
Lemma pub_for : forall v n b, pub (OFor v n b) = pubs b.  Proof. reflexivity. Qed.
Lemma pub_rot : forall e b, pub (OAxisRot e b) = pubs b.  Proof. reflexivity. Qed.

Lemma pubs_forall : forall l, pubs l = true -> Forall (fun o => pub o = true) l.
Proof.
  induction l as [|x r IH]; intros H; constructor; cbn [pubs] in H; apply andb_true_iff in H as [A B]; auto.
Qed.

(* configurations: printable digits, and a positioning speed that does not print as F0.000000 in the rotation lines
   (which have no feed guard of their own) *)
Definition cfg_ok (c : cfg) : Prop := 0 <= digits c <= 9 /\ 0 < fmt 6 (speed_pos c).

Definition sub (d d' : list N) : Prop := forall v, existsb (N.eqb v) d = true -> existsb (N.eqb v) d' = true.
Lemma sub_refl : forall d, sub d d.  Proof. intros d v H; exact H. Qed.
Lemma sub_trans : forall a b c, sub a b -> sub b c -> sub a c.  Proof. intros a b c H1 H2 v H. auto. Qed.
Lemma sub_app : forall d vs, sub d (d ++ vs).
Proof. intros d vs v H. rewrite existsb_app, H. reflexivity. Qed.

(* S st r: the declared variables only grow, and what was emitted is safe for every set of declared variables that
   contains the final one *)
Definition S (st : cstate) (r : res) : Prop :=
  sub (c_dvars st) (c_dvars (final r)) /\ forall D, sub (c_dvars (final r)) D -> safe D (emitted r) = true.

Lemma S_same : forall st st' e o, c_dvars st' = c_dvars st -> (forall D, safe D e = true) -> S st (st', e, o).
Proof.
  intros st st' e o Hd He. split; unfold final, emitted; cbn [fst snd]; [rewrite Hd; apply sub_refl | intros; apply He].
Qed.

Lemma safe_dwell_toks : forall D p, safe D (dwell_toks p) = true.
Proof. intros D [q|]; unfold dwell_toks; [destruct (Qeq_bool q 0)|]; reflexivity. Qed.

Lemma do_dwell_S : forall st p, c_dvars (fst (do_dwell st p)) = c_dvars st /\ forall D, safe D (snd (do_dwell st p)) = true.
Proof. intros st p. split; [reflexivity | intros; apply safe_dwell_toks]. Qed.

Lemma do_shutter_S : forall c st on,
  c_dvars (fst (do_shutter c st on)) = c_dvars st /\ forall D, safe D (snd (do_shutter c st on)) = true.
Proof. intros c st on. unfold do_shutter. destruct (Bool.eqb on (c_sh st)); split; reflexivity. Qed.

Lemma toggle_S : forall c st on,
  c_dvars (fst (toggle c st on)) = c_dvars st /\ forall D, safe D (snd (toggle c st on)) = true.
Proof.
  intros c st on. unfold toggle.
  pose proof (do_dwell_S st (short_p c)) as [D1 S1]. destruct (do_dwell st (short_p c)) as [st1 e1].
  pose proof (do_shutter_S c st1 on) as [D2 S2]. destruct (do_shutter c st1 on) as [st2 e2].
  pose proof (do_dwell_S st2 (long_p c)) as [D3 S3]. destruct (do_dwell st2 (long_p c)) as [st3 e3].
  cbn [fst snd] in *. split; [congruence|]. intros D. now rewrite !safe_app, S1, S2, S3.
Qed.

Lemma feed_ok : forall c f, 0 <= digits c <= 9 -> feed_bad c f = false -> 0 < fm c f.
Proof.
  intros c f Hd H. unfold feed_bad in H. apply negb_false_iff in H. apply Qle_bool_iff in H.
  unfold fm. apply fmt_pos; [exact Hd | exact H].
Qed.

Lemma safe_g1_of : forall D c a, 0 < feed_of a -> safe D [g1_of c a] = true.
Proof.
  intros D c [[[x y] z] f] H. cbn [feed_of] in H. cbn. apply Z.ltb_lt in H. now rewrite H.
Qed.

Lemma write_step_S : forall c st prev a s, 0 < feed_of a ->
  c_dvars (fst (write_step c st prev a s)) = c_dvars st /\ forall D, safe D (snd (write_step c st prev a s)) = true.
Proof.
  intros c st prev a s Hf. unfold write_step.
  destruct (Z.eqb s 0 && c_sh st).
  - pose proof (toggle_S c st false) as [D1 S1]. destruct (toggle c st false) as [st1 e1]. cbn [fst snd] in *.
    split; [exact D1|]. intros D. rewrite safe_app, S1.
    destruct (match prev with Some b => args_eqb a b | None => false end); [reflexivity | now apply safe_g1_of].
  - destruct (Z.eqb s 1 && negb (c_sh st)).
    + pose proof (toggle_S c st true) as [D1 S1]. destruct (toggle c st true) as [st1 e1]. cbn [fst snd] in *.
      split; [exact D1|]. intros D. rewrite safe_app, S1.
      destruct (match prev with Some b => args_eqb a b | None => false end); [reflexivity | now apply safe_g1_of].
    + split; [reflexivity | intros; now apply safe_g1_of].
Qed.

Lemma write_loop_S : forall c l, Forall (fun a => 0 < feed_of (fst a)) l -> forall st prev,
  c_dvars (fst (write_loop c st prev l)) = c_dvars st /\ forall D, safe D (snd (write_loop c st prev l)) = true.
Proof.
  intros c. induction l as [|[a s] r IH]; intros HF st prev; cbn [write_loop]; [split; reflexivity|].
  inversion HF as [|? ? Ha Hr]; subst. cbn [fst] in Ha.
  pose proof (write_step_S c st prev a s Ha) as [D1 S1]. destruct (write_step c st prev a s) as [st1 e1].
  pose proof (IH Hr st1 (Some a)) as [D2 S2]. destruct (write_loop c st1 (Some a) r) as [st2 e2].
  cbn [fst snd] in *. split; [congruence|]. intros D. now rewrite safe_app, S1, S2.
Qed.

Lemma do_write_S : forall c st pts, 0 <= digits c <= 9 -> S st (do_write c st pts).
Proof.
  intros c st pts Hd. unfold do_write.
  destruct (existsb (fun p => feed_bad c (pf p)) pts) eqn:Ebad; [now apply S_same|].
  assert (HF : Forall (fun a : args * Z => 0 < feed_of (fst a)) (map (fun p => (fmt_pt c p, ps p)) pts)).
  { apply Forall_forall. intros [a s] Hin. apply in_map_iff in Hin as [p [E Hp]]. injection E as <- <-. cbn [fst].
    rewrite feed_of_fmt_pt. apply feed_ok; [exact Hd|].
    destruct (feed_bad c (pf p)) eqn:Eb; [|reflexivity].
    assert (X : existsb (fun p => feed_bad c (pf p)) pts = true) by (apply existsb_exists; exists p; auto). congruence. }
  pose proof (write_loop_S c _ HF st None) as [D1 S1].
  destruct (write_loop c st None (map (fun p => (fmt_pt c p, ps p)) pts)) as [st1 e1].
  pose proof (do_dwell_S st1 (long_p c)) as [D2 S2]. destruct (do_dwell st1 (long_p c)) as [st2 e2].
  cbn [fst snd] in *. apply S_same; [congruence|]. intros D. now rewrite safe_app, S1, S2.
Qed.

Lemma num_coord_optfm : forall c q, num_coord (optfm c q) = true.
Proof. intros c [q|]; reflexivity. Qed.

Lemma do_move_to_S : forall c st x y z sp, 0 <= digits c <= 9 -> S st (do_move_to c st x y z sp).
Proof.
  intros c st x y z sp Hd. unfold do_move_to.
  set (spv := match sp with Some v => v | None => speed_pos c end).
  assert (H1 : let r := (if c_sh st then do_shutter c st false else (st, [])) in
               c_dvars (fst r) = c_dvars st /\ forall D, safe D (snd r) = true).
  { destruct (c_sh st); [apply do_shutter_S | split; reflexivity]. }
  cbv zeta in H1. destruct (if c_sh st then do_shutter c st false else (st, [])) as [st1 e1]. cbn [fst snd] in H1.
  destruct H1 as [D1 S1].
  destruct (feed_bad c spv) eqn:Eb; [now apply S_same|].
  pose proof (do_dwell_S st1 (long_p c)) as [D2 S2]. destruct (do_dwell st1 (long_p c)) as [st2 e2]. cbn [fst snd] in *.
  apply S_same; [congruence|]. intros D. rewrite !safe_app, S1, S2. cbn [safe safe_s safe_tok andb].
  rewrite !num_coord_optfm. pose proof (feed_ok c spv Hd Eb) as Hp. apply Z.ltb_lt in Hp. rewrite Hp.
  destruct (has_coord (optfm c x) (optfm c y) (optfm c z)); reflexivity.
Qed.

Lemma safe_rot_g1 : forall D c, 0 < fmt 6 (speed_pos c) -> safe D [rot_g1 c] = true.
Proof. intros D c H. cbn. apply Z.ltb_lt in H. now rewrite H. Qed.

Lemma enter_rot_S : forall c st e, 0 < fmt 6 (speed_pos c) ->
  c_dvars (fst (enter_rot c st e)) = c_dvars st /\ forall D, safe D (snd (enter_rot c st e)) = true.
Proof.
  intros c st e Hs. unfold enter_rot.
  pose proof (do_dwell_S st (short_p c)) as [D1 S1]. destruct (do_dwell st (short_p c)) as [st1 e1]. cbn [fst snd] in *.
  destruct (negb e && negb (aero c)).
  - split; [exact D1|]. intros D. cbn [fst snd]. change ([rot_g1 c; SI (TG84 false)] ++ e1) with ([rot_g1 c] ++ [SI (TG84 false)] ++ e1).
    rewrite !safe_app, (safe_rot_g1 D c Hs), S1. reflexivity.
  - pose proof (do_dwell_S st1 (short_p c)) as [D2 S2]. destruct (do_dwell st1 (short_p c)) as [st2 e2]. cbn [fst snd] in *.
    split; [congruence|]. intros D.
    change ([rot_g1 c; SI (TG84 false)] ++ e1 ++ [SI (TG84 true)] ++ e2) with ([rot_g1 c] ++ [SI (TG84 false)] ++ e1 ++ [SI (TG84 true)] ++ e2).
    rewrite !safe_app, (safe_rot_g1 D c Hs), S1, S2. reflexivity.
Qed.

Lemma exit_rot_S : forall c st, 0 < fmt 6 (speed_pos c) ->
  c_dvars (fst (exit_rot c st)) = c_dvars st /\ forall D, safe D (snd (exit_rot c st)) = true.
Proof.
  intros c st Hs. unfold exit_rot.
  pose proof (do_dwell_S st (short_p c)) as [D1 S1]. destruct (do_dwell st (short_p c)) as [st1 e1]. cbn [fst snd] in *.
  split; [exact D1|]. intros D. change ([rot_g1 c; SI (TG84 false)] ++ e1) with ([rot_g1 c] ++ [SI (TG84 false)] ++ e1).
  rewrite !safe_app, (safe_rot_g1 D c Hs), S1. reflexivity.
Qed.

Lemma seq_S : forall st (r : res) (k : cstate -> res),
  S st r -> (forall st1, S st1 (k st1)) -> S st (seq r k).
Proof.
  intros st [[st1 e1] o1] k [A1 B1] Hk. unfold seq. destruct o1; [|split; assumption].
  specialize (Hk st1) as [A2 B2]. destruct (k st1) as [[st2 e2] o2].
  unfold S, final, emitted in *. cbn [fst snd] in *. split; [eapply sub_trans; eauto|].
  intros D HD. rewrite safe_app, (B1 D (sub_trans _ _ _ A2 HD)), (B2 D HD). reflexivity.
Qed.

Lemma exec_list_S : forall c l, Forall (fun o => forall st, S st (exec c o st)) l -> forall st, S st (exec_list c l st).
Proof.
  induction l as [|o r IH]; intros HF st; cbn [exec_list]; [now apply S_same|].
  inversion HF as [|? ? Ho Hr]; subst. apply seq_S; [apply Ho | intros; now apply IH].
Qed.

Lemma close_loop_S : forall st n wrap (r : res),
  S st r -> (forall D e, sub (c_dvars (final r)) D -> safe D e = true -> safe D [wrap e] = true) ->
  S st (close_loop st n wrap r).
Proof.
  intros st n wrap [[st1 e1] o1] [A B] Hw. unfold close_loop, S, final, emitted in *. cbn [fst snd] in *.
  split; [exact A|]. intros D HD. apply Hw; [exact HD | now apply B].
Qed.

Theorem exec_S : forall c, cfg_ok c -> forall o, pub o = true -> forall st, S st (exec c o st).
Proof.
  intros c [Hd Hs].
  apply (op_ind2 (fun o => pub o = true -> forall st, S st (exec c o st))).
  - intros o Hleaf Hp st. destruct o; try contradiction; cbn [pub] in Hp; try discriminate; cbn [exec];
      try (now apply do_write_S); try (now apply do_move_to_S); try (now apply S_same).
    + pose proof (do_dwell_S st p) as [D1 S1]. destruct (do_dwell st p) as [st1 e1]. now apply S_same.
    + unfold do_set_home. destruct x, y, z; now apply S_same.
    + (* dvar *) split; unfold final, emitted; cbn [fst snd c_dvars st_dvars]; [apply sub_app | reflexivity].
    + unfold do_load. destruct (negb (f_pgm f)); now apply S_same.
    + unfold do_remove. destruct (negb (f_pgm f)); [now apply S_same|]. destruct (negb (mem _ _)); now apply S_same.
    + unfold do_farcall. destruct (negb (f_pgm f)); [now apply S_same|]. destruct (negb (mem _ _)); [now apply S_same|].
      pose proof (do_dwell_S st (short_p c)) as [D1 S1]. destruct (do_dwell st (short_p c)) as [st1 e1]. cbn [fst snd] in *.
      apply S_same; [exact D1|]. intros D. now rewrite safe_app, S1.
    + unfold do_buffered. destruct (negb (f_pgm f)); [now apply S_same|]. destruct (negb (mem _ _)); [now apply S_same|].
      pose proof (do_dwell_S st (short_p c)) as [D1 S1]. destruct (do_dwell st (short_p c)) as [st1 e1]. cbn [fst snd] in *.
      apply S_same; [exact D1|]. intros D. now rewrite safe_app, S1.
  - intros n b HF Hp st. rewrite pub_repeat in Hp. rewrite exec_repeat. destruct n as [n|]; [|now apply S_same].
    destruct (n <=? 0) eqn:En; [now apply S_same|].
    apply close_loop_S.
    + apply exec_list_S. apply pubs_forall in Hp. clear -HF Hp. induction HF as [|x r Hx _ IH]; constructor;
        inversion Hp; subst; auto.
    + intros D e _ He. cbn [safe]. rewrite safe_s_rep, He. apply Z.leb_gt in En. apply Z.ltb_lt in En. now rewrite En.
  - intros v n b HF Hp st. rewrite pub_for in Hp. rewrite exec_for. destruct n as [n|]; [|now apply S_same].
    destruct (n <=? 0) eqn:En; [now apply S_same|]. destruct v as [v|]; [|now apply S_same].
    destruct (negb (mem v (c_dvars st))) eqn:Ev; [now apply S_same|].
    assert (HB : S st (exec_list c b st)).
    { apply exec_list_S. apply pubs_forall in Hp. clear -HF Hp. induction HF as [|x r Hx _ IH]; constructor;
        inversion Hp; subst; auto. }
    apply close_loop_S; [exact HB|].
    intros D e HD He. cbn [safe]. rewrite safe_s_for, He. apply negb_false_iff in Ev. unfold mem in Ev.
    destruct HB as [A _]. rewrite (HD v (A v Ev)). reflexivity.
  - intros e b HF Hp st. rewrite pub_rot in Hp. rewrite exec_axisrot.
    pose proof (enter_rot_S c st e Hs) as [D1 S1]. destruct (enter_rot c st e) as [st1 e1].
    assert (HB : S st1 (exec_list c b st1)).
    { apply exec_list_S. apply pubs_forall in Hp. clear -HF Hp. induction HF as [|x r Hx _ IH]; constructor;
        inversion Hp; subst; auto. }
    destruct HB as [A2 B2]. destruct (exec_list c b st1) as [[st2 e2] o2].
    pose proof (exit_rot_S c st2 Hs) as [D3 S3]. destruct (exit_rot c st2) as [st3 e3].
    unfold S, final, emitted in *. cbn [fst snd] in *. split.
    + rewrite D3. rewrite <- D1. exact A2.
    + intros D HD. rewrite D3 in HD. rewrite !safe_app, S1, S3, (B2 D HD). reflexivity.
Qed.

Theorem exec_list_safe : forall c, cfg_ok c -> forall l, pubs l = true -> forall st, S st (exec_list c l st).
Proof.
  intros c Hc l Hp st. apply exec_list_S. apply pubs_forall in Hp.
  induction Hp as [|x r Hx _ IH]; constructor; [intros; now apply exec_S | exact IH].
Qed.
