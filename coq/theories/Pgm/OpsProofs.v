(* Structural facts about the compiler model: induction principle for op trees, well-formed emission,
   dwell accounting (reported dwell = static dwell of the emitted tree). *)
From Coq Require Import List Bool ZArith NArith QArith Qabs Lia.
Import ListNotations.
From Femto Require Import Base.Num Ctl.Tok Ctl.Machine Ctl.ParseProofs Ctl.Dwell Geo.Rigid Pgm.Ops.

Section OpInd.
  Variable P : op -> Prop.
  Hypothesis Hleaf : forall o, (match o with ORepeat _ _ | OFor _ _ _ | OAxisRot _ _ => False | _ => True end) -> P o.
  Hypothesis HR : forall n b, Forall P b -> P (ORepeat n b).
  Hypothesis HF : forall v n b, Forall P b -> P (OFor v n b).
  Hypothesis HA : forall e b, Forall P b -> P (OAxisRot e b).

  Fixpoint op_ind2 (o : op) : P o :=
    match o with
    | ORepeat n b =>
        HR n b ((fix go (l : list op) : Forall P l :=
                   match l with [] => Forall_nil P | x :: r => Forall_cons x (op_ind2 x) (go r) end) b)
    | OFor v n b =>
        HF v n b ((fix go (l : list op) : Forall P l :=
                     match l with [] => Forall_nil P | x :: r => Forall_cons x (op_ind2 x) (go r) end) b)
    | OAxisRot e b =>
        HA e b ((fix go (l : list op) : Forall P l :=
                   match l with [] => Forall_nil P | x :: r => Forall_cons x (op_ind2 x) (go r) end) b)
    | o' => Hleaf o' I
    end.
End OpInd.

(* the inner fixes of exec are exec_list *)
Lemma exec_repeat : forall c n body st,
  exec c (ORepeat n body) st =
  match n with
  | None => (st, [], Raised VE)
  | Some n => if (n <=? 0)%Z then (st, [], Raised VE)
              else close_loop st n (SRep n) (exec_list c body st)
  end.
Proof. intros c [n|] body st; reflexivity. Qed.

Lemma exec_for : forall c v n body st,
  exec c (OFor v n body) st =
  match n with
  | None => (st, [], Raised VE)
  | Some n =>
      if (n <=? 0)%Z then (st, [], Raised VE)
      else match v with
           | None => (st, [], Raised VE)
           | Some v => if negb (mem v (c_dvars st)) then (st, [], Raised VE)
                       else close_loop st n (SFor v 0 (n - 1)) (exec_list c body st)
           end
  end.
Proof. intros c [v|] [n|] body st; reflexivity. Qed.

Lemma exec_axisrot : forall c e body st,
  exec c (OAxisRot e body) st =
  let '(st1, e1) := enter_rot c st e in
  let '(st2, e2, o2) := exec_list c body st1 in
  let '(st3, e3) := exit_rot c st2 in
  (st3, e1 ++ e2 ++ e3, o2).
Proof. reflexivity. Qed.

Definition emitted (r : res) : list stmt := snd (fst r).
Definition final (r : res) : cstate := fst (fst r).

(* ---------------- dwell accounting ---------------- *)

Open Scope Q_scope.

Lemma dw_dwell_toks : forall p, dw (dwell_toks p) == dwell_amt p.
Proof.
  intros [q|]; unfold dwell_toks, dwell_amt; [|cbn; ring].
  destruct (Qeq_bool q 0); cbn; [ring|]. rewrite Qred_correct. ring.
Qed.

Lemma do_dwell_dw : forall st p,
  c_dwell (fst (do_dwell st p)) == c_dwell st + dw (snd (do_dwell st p)).
Proof.
  intros st p. unfold do_dwell. cbn [fst snd st_dwell c_dwell]. rewrite Qred_correct, dw_dwell_toks. ring.
Qed.

Definition acct (st : cstate) (r : res) : Prop := c_dwell (final r) == c_dwell st + dw (emitted r).

Lemma acct_ret : forall st e o, dw e == 0 -> acct st (st, e, o).
Proof. intros st e o H. unfold acct, final, emitted. cbn. rewrite H. ring. Qed.

Lemma do_shutter_dw : forall c st on,
  c_dwell (fst (do_shutter c st on)) = c_dwell st /\ dw (snd (do_shutter c st on)) == 0.
Proof.
  intros c st on. unfold do_shutter. destruct (Bool.eqb on (c_sh st)); cbn; split; try reflexivity; ring.
Qed.

Lemma toggle_dw : forall c st on,
  c_dwell (fst (toggle c st on)) == c_dwell st + dw (snd (toggle c st on)).
Proof.
  intros c st on. unfold toggle.
  pose proof (do_dwell_dw st (short_p c)) as H1. destruct (do_dwell st (short_p c)) as [st1 e1].
  pose proof (do_shutter_dw c st1 on) as [H2 H2']. destruct (do_shutter c st1 on) as [st2 e2].
  pose proof (do_dwell_dw st2 (long_p c)) as H3. destruct (do_dwell st2 (long_p c)) as [st3 e3].
  cbn [fst snd] in *. rewrite !dw_app, H3, H2, H1, H2'. ring.
Qed.

Lemma g1_of_dw : forall c a, dw [g1_of c a] == 0.
Proof. intros c [[[x y] z] f]. cbn. ring. Qed.

Lemma write_step_dw : forall c st prev a s,
  c_dwell (fst (write_step c st prev a s)) == c_dwell st + dw (snd (write_step c st prev a s)).
Proof.
  intros c st prev a s. unfold write_step.
  destruct (Z.eqb s 0 && c_sh st); [|destruct (Z.eqb s 1 && negb (c_sh st))].
  - pose proof (toggle_dw c st false) as H. destruct (toggle c st false) as [st' e]. cbn [fst snd] in *.
    rewrite dw_app, H. destruct (match prev with Some b => args_eqb a b | None => false end);
      [cbn; ring | rewrite g1_of_dw; ring].
  - pose proof (toggle_dw c st true) as H. destruct (toggle c st true) as [st' e]. cbn [fst snd] in *.
    rewrite dw_app, H. destruct (match prev with Some b => args_eqb a b | None => false end);
      [cbn; ring | rewrite g1_of_dw; ring].
  - cbn [fst snd]. rewrite g1_of_dw. ring.
Qed.

Lemma write_loop_dw : forall c l st prev,
  c_dwell (fst (write_loop c st prev l)) == c_dwell st + dw (snd (write_loop c st prev l)).
Proof.
  induction l as [|[a s] r IH]; intros st prev; cbn [write_loop].
  - cbn. ring.
  - pose proof (write_step_dw c st prev a s) as H1. destruct (write_step c st prev a s) as [st1 e1].
    specialize (IH st1 (Some a)). destruct (write_loop c st1 (Some a) r) as [st2 e2].
    cbn [fst snd] in *. rewrite dw_app, IH, H1. ring.
Qed.

Lemma do_write_acct : forall c st pts, acct st (do_write c st pts).
Proof.
  intros c st pts. unfold do_write.
  destruct (existsb _ pts); [apply acct_ret; cbn; ring|].
  pose proof (write_loop_dw c (map (fun p => (fmt_pt c p, ps p)) pts) st None) as H1.
  destruct (write_loop c st None _) as [st1 e1].
  pose proof (do_dwell_dw st1 (long_p c)) as H2. destruct (do_dwell st1 (long_p c)) as [st2 e2].
  unfold acct, final, emitted. cbn [fst snd] in *. rewrite dw_app, H2, H1. ring.
Qed.

Lemma do_move_to_acct : forall c st x y z sp, acct st (do_move_to c st x y z sp).
Proof.
  intros c st x y z sp. unfold do_move_to.
  assert (H1 : let r := (if c_sh st then do_shutter c st false else (st, [])) in
               c_dwell (fst r) = c_dwell st /\ dw (snd r) == 0).
  { destruct (c_sh st); [apply do_shutter_dw | cbn; split; [reflexivity | ring]]. }
  cbv zeta in H1. destruct (if c_sh st then do_shutter c st false else (st, [])) as [st1 e1].
  cbn [fst snd] in H1. destruct H1 as [H1 H1'].
  destruct (feed_bad c _).
  - unfold acct, final, emitted. cbn [fst snd]. rewrite H1, H1'. ring.
  - pose proof (do_dwell_dw st1 (long_p c)) as H2. destruct (do_dwell st1 (long_p c)) as [st2 e2].
    unfold acct, final, emitted. cbn [fst snd] in *. rewrite !dw_app, H2, H1, H1'. cbn [dw dw_s]. ring.
Qed.

Lemma enter_rot_dw : forall c st e,
  c_dwell (fst (enter_rot c st e)) == c_dwell st + dw (snd (enter_rot c st e)).
Proof.
  intros c st e. unfold enter_rot.
  pose proof (do_dwell_dw st (short_p c)) as H1. destruct (do_dwell st (short_p c)) as [st1 e1].
  destruct (negb e && negb (aero c)).
  - cbn [fst snd] in *. rewrite dw_app, H1. cbn [dw dw_s rot_g1]. ring.
  - pose proof (do_dwell_dw st1 (short_p c)) as H2. destruct (do_dwell st1 (short_p c)) as [st2 e2].
    cbn [fst snd] in *. rewrite !dw_app, H2, H1. cbn [dw dw_s rot_g1]. ring.
Qed.

Lemma exit_rot_dw : forall c st,
  c_dwell (fst (exit_rot c st)) == c_dwell st + dw (snd (exit_rot c st)).
Proof.
  intros c st. unfold exit_rot.
  pose proof (do_dwell_dw st (short_p c)) as H1. destruct (do_dwell st (short_p c)) as [st1 e1].
  cbn [fst snd] in *. rewrite dw_app, H1. cbn [dw dw_s rot_g1]. ring.
Qed.

Lemma seq_acct : forall st (r : res) (k : cstate -> res),
  acct st r -> (forall st1, acct st1 (k st1)) -> acct st (seq r k).
Proof.
  intros st [[st1 e1] o1] k H1 Hk. unfold seq. destruct o1; [|exact H1].
  specialize (Hk st1). destruct (k st1) as [[st2 e2] o2].
  unfold acct, final, emitted in *. cbn [fst snd] in *. rewrite dw_app, Hk, H1. ring.
Qed.

Lemma exec_list_acct : forall c l, Forall (fun o => forall st, acct st (exec c o st)) l ->
  forall st, acct st (exec_list c l st).
Proof.
  induction l as [|o r IH]; intros HF st; cbn [exec_list].
  - apply acct_ret. cbn. ring.
  - inversion HF as [|? ? Ho Hr]; subst. apply seq_acct; [apply Ho | intros; now apply IH].
Qed.

Lemma count_pos : forall n, (0 < n)%Z -> count n == inject_Z n.
Proof. intros n H. unfold count. rewrite Z2Nat.id by lia. reflexivity. Qed.

Lemma close_loop_acct : forall st n wrap (r : res) (k : Q),
  acct st r -> (forall e, dw [wrap e] == k * dw e) -> k == inject_Z n -> acct st (close_loop st n wrap r).
Proof.
  intros st n wrap [[st1 e1] o1] k H Hw Hk. unfold close_loop, acct, final, emitted in *. cbn [fst snd] in *.
  cbn [st_dwell c_dwell]. rewrite Qred_correct, Hw, Hk, H. replace (n - 1)%Z with (n + -1)%Z by lia. rewrite inject_Z_plus.
  change (inject_Z (-1)) with (-1 # 1). ring.
Qed.

Theorem exec_acct : forall c o st, acct st (exec c o st).
Proof.
  intros c. apply (op_ind2 (fun o => forall st, acct st (exec c o st))).
  - intros o Hleaf st. destruct o; try contradiction; cbn [exec].
    + apply do_write_acct.
    + apply do_move_to_acct.
    + apply do_move_to_acct.
    + apply do_move_to_acct.
    + pose proof (do_dwell_dw st p) as H. destruct (do_dwell st p) as [st1 e1]. exact H.
    + apply acct_ret; cbn; ring.
    + unfold do_set_home. destruct x, y, z; apply acct_ret; cbn; ring.
    + unfold acct, final, emitted; cbn. ring.
    + unfold do_load. destruct (negb (f_pgm f)); unfold acct, final, emitted; cbn; ring.
    + unfold do_remove. destruct (negb (f_pgm f)); [unfold acct, final, emitted; cbn; ring|].
      destruct (negb (mem _ _)); unfold acct, final, emitted; cbn; ring.
    + unfold do_farcall. destruct (negb (f_pgm f)); [unfold acct, final, emitted; cbn; ring|].
      destruct (negb (mem _ _)); [unfold acct, final, emitted; cbn; ring|].
      pose proof (do_dwell_dw st (short_p c)) as H. destruct (do_dwell st (short_p c)) as [st1 e1].
      unfold acct, final, emitted. cbn [fst snd] in *. rewrite dw_app, H. cbn. ring.
    + unfold do_buffered. destruct (negb (f_pgm f)); [unfold acct, final, emitted; cbn; ring|].
      destruct (negb (mem _ _)); [unfold acct, final, emitted; cbn; ring|].
      pose proof (do_dwell_dw st (short_p c)) as H. destruct (do_dwell st (short_p c)) as [st1 e1].
      unfold acct, final, emitted. cbn [fst snd] in *. rewrite dw_app, H. cbn. ring.
    + apply acct_ret; cbn; ring.
    + apply acct_ret; cbn; ring.
    + apply acct_ret; cbn; ring.
    + pose proof (do_shutter_dw c st on) as [H1 H2]. destruct (do_shutter c st on) as [st1 e1].
      unfold acct, final, emitted. cbn [fst snd] in *. rewrite H1, H2. ring.
    + apply acct_ret. destruct i; cbn; ring.
  - intros n b HF st. rewrite exec_repeat. destruct n as [n|]; [|apply acct_ret; cbn; ring].
    destruct (n <=? 0)%Z eqn:En; [apply acct_ret; cbn; ring|]. apply Z.leb_gt in En.
    apply (close_loop_acct st n (SRep n) _ (count n)); [now apply exec_list_acct | | now apply count_pos].
    intros e. cbn [dw]. rewrite dw_s_rep. apply Z.ltb_lt in En. rewrite En. ring.
  - intros v n b HF st. rewrite exec_for. destruct n as [n|]; [|apply acct_ret; cbn; ring].
    destruct (n <=? 0)%Z eqn:En; [apply acct_ret; cbn; ring|]. apply Z.leb_gt in En.
    destruct v as [v|]; [|apply acct_ret; cbn; ring].
    destruct (negb (mem v (c_dvars st))); [apply acct_ret; cbn; ring|].
    apply (close_loop_acct st n (SFor v 0 (n - 1)) _ (count n)); [now apply exec_list_acct | | now apply count_pos].
    intros e. cbn [dw]. rewrite dw_s_for. replace (n - 1 - 0 + 1)%Z with n by lia. ring.
  - intros e b HF st. rewrite exec_axisrot.
    pose proof (enter_rot_dw c st e) as H1. destruct (enter_rot c st e) as [st1 e1].
    pose proof (exec_list_acct c b HF st1) as H2. destruct (exec_list c b st1) as [[st2 e2] o2].
    pose proof (exit_rot_dw c st2) as H3. destruct (exit_rot c st2) as [st3 e3].
    unfold acct, final, emitted in *. cbn [fst snd] in *. rewrite !dw_app, H3, H2, H1. ring.
Qed.

Theorem exec_list_dwell : forall c l st, acct st (exec_list c l st).
Proof.
  intros c l st. apply exec_list_acct. apply Forall_forall. intros; apply exec_acct.
Qed.

(* ---------------- well-formed emission; the DVAR preamble ---------------- *)

Lemma wf_app : forall a b, wf (a ++ b) = wf a && wf b.
Proof. induction a as [|s r IH]; intros b; cbn [app wf]; [reflexivity|]. rewrite IH. now rewrite andb_assoc. Qed.

Definition is_dvar (t : tok) : bool := match t with TDvar _ => true | _ => false end.
Definition pre_ok (st : cstate) : Prop := forallb is_dvar (c_pre st) = true.

(* good st r: emitted statements are well-formed and the preamble still only holds DVAR lines *)
Definition good (st : cstate) (r : res) : Prop :=
  wf (emitted r) = true /\ (pre_ok st -> pre_ok (final r)).

Lemma good_same : forall st st' e o, wf e = true -> c_pre st' = c_pre st -> good st (st', e, o).
Proof. intros st st' e o W P. split; [exact W|]. unfold pre_ok, final; cbn. now rewrite P. Qed.

Lemma wf_dwell_toks : forall p, wf (dwell_toks p) = true.
Proof. intros [q|]; unfold dwell_toks; [destruct (Qeq_bool q 0)|]; reflexivity. Qed.

Lemma do_dwell_good : forall st p, wf (snd (do_dwell st p)) = true /\ c_pre (fst (do_dwell st p)) = c_pre st.
Proof. intros; split; [apply wf_dwell_toks | reflexivity]. Qed.

Lemma do_shutter_good : forall c st on,
  wf (snd (do_shutter c st on)) = true /\ c_pre (fst (do_shutter c st on)) = c_pre st.
Proof. intros c st on. unfold do_shutter. destruct (Bool.eqb on (c_sh st)); split; reflexivity. Qed.

Lemma toggle_good : forall c st on, wf (snd (toggle c st on)) = true /\ c_pre (fst (toggle c st on)) = c_pre st.
Proof.
  intros c st on. unfold toggle.
  pose proof (do_dwell_good st (short_p c)) as [W1 P1]. destruct (do_dwell st (short_p c)) as [st1 e1].
  pose proof (do_shutter_good c st1 on) as [W2 P2]. destruct (do_shutter c st1 on) as [st2 e2].
  pose proof (do_dwell_good st2 (long_p c)) as [W3 P3]. destruct (do_dwell st2 (long_p c)) as [st3 e3].
  cbn [fst snd] in *. rewrite !wf_app, W1, W2, W3. split; [reflexivity | congruence].
Qed.

Lemma wf_g1_of : forall c a, wf [g1_of c a] = true.
Proof. intros c [[[x y] z] f]. reflexivity. Qed.

Lemma write_step_good : forall c st prev a s,
  wf (snd (write_step c st prev a s)) = true /\ c_pre (fst (write_step c st prev a s)) = c_pre st.
Proof.
  intros c st prev a s. unfold write_step.
  destruct (Z.eqb s 0 && c_sh st); [|destruct (Z.eqb s 1 && negb (c_sh st))].
  - pose proof (toggle_good c st false) as [W P]. destruct (toggle c st false) as [st' e]. cbn [fst snd] in *.
    rewrite wf_app, W. split; [|exact P].
    destruct (match prev with Some b => args_eqb a b | None => false end); [reflexivity | apply wf_g1_of].
  - pose proof (toggle_good c st true) as [W P]. destruct (toggle c st true) as [st' e]. cbn [fst snd] in *.
    rewrite wf_app, W. split; [|exact P].
    destruct (match prev with Some b => args_eqb a b | None => false end); [reflexivity | apply wf_g1_of].
  - split; [apply wf_g1_of | reflexivity].
Qed.

Lemma write_loop_good : forall c l st prev,
  wf (snd (write_loop c st prev l)) = true /\ c_pre (fst (write_loop c st prev l)) = c_pre st.
Proof.
  induction l as [|[a s] r IH]; intros st prev; cbn [write_loop]; [split; reflexivity|].
  pose proof (write_step_good c st prev a s) as [W1 P1]. destruct (write_step c st prev a s) as [st1 e1].
  specialize (IH st1 (Some a)) as [W2 P2]. destruct (write_loop c st1 (Some a) r) as [st2 e2].
  cbn [fst snd] in *. rewrite wf_app, W1, W2. split; [reflexivity | congruence].
Qed.

Lemma do_write_good : forall c st pts, good st (do_write c st pts).
Proof.
  intros c st pts. unfold do_write. destruct (existsb _ pts); [now apply good_same|].
  pose proof (write_loop_good c (map (fun p => (fmt_pt c p, ps p)) pts) st None) as [W1 P1].
  destruct (write_loop c st None _) as [st1 e1].
  pose proof (do_dwell_good st1 (long_p c)) as [W2 P2]. destruct (do_dwell st1 (long_p c)) as [st2 e2].
  cbn [fst snd] in *. apply good_same; [rewrite wf_app, W1, W2; reflexivity | congruence].
Qed.

Lemma do_move_to_good : forall c st x y z sp, good st (do_move_to c st x y z sp).
Proof.
  intros c st x y z sp. unfold do_move_to.
  assert (H1 : let r := (if c_sh st then do_shutter c st false else (st, [])) in
               wf (snd r) = true /\ c_pre (fst r) = c_pre st).
  { destruct (c_sh st); [apply do_shutter_good | split; reflexivity]. }
  cbv zeta in H1. destruct (if c_sh st then do_shutter c st false else (st, [])) as [st1 e1].
  cbn [fst snd] in H1. destruct H1 as [W1 P1].
  destruct (feed_bad c _); [now apply good_same|].
  pose proof (do_dwell_good st1 (long_p c)) as [W2 P2]. destruct (do_dwell st1 (long_p c)) as [st2 e2].
  cbn [fst snd] in *. apply good_same; [|congruence]. rewrite !wf_app, W1, W2. reflexivity.
Qed.

Lemma enter_rot_good : forall c st e, wf (snd (enter_rot c st e)) = true /\ c_pre (fst (enter_rot c st e)) = c_pre st.
Proof.
  intros c st e. unfold enter_rot.
  pose proof (do_dwell_good st (short_p c)) as [W1 P1]. destruct (do_dwell st (short_p c)) as [st1 e1].
  destruct (negb e && negb (aero c)).
  - cbn [fst snd] in *. rewrite wf_app, W1. split; [reflexivity | exact P1].
  - pose proof (do_dwell_good st1 (short_p c)) as [W2 P2]. destruct (do_dwell st1 (short_p c)) as [st2 e2].
    cbn [fst snd] in *. rewrite !wf_app, W1, W2. split; [reflexivity | congruence].
Qed.

Lemma exit_rot_good : forall c st, wf (snd (exit_rot c st)) = true /\ c_pre (fst (exit_rot c st)) = c_pre st.
Proof.
  intros c st. unfold exit_rot.
  pose proof (do_dwell_good st (short_p c)) as [W1 P1]. destruct (do_dwell st (short_p c)) as [st1 e1].
  cbn [fst snd] in *. rewrite wf_app, W1. split; [reflexivity | exact P1].
Qed.

Lemma seq_good : forall st (r : res) (k : cstate -> res),
  good st r -> (forall st1, good st1 (k st1)) -> good st (seq r k).
Proof.
  intros st [[st1 e1] o1] k [W1 P1] Hk. unfold seq. destruct o1; [|split; assumption].
  specialize (Hk st1) as [W2 P2]. destruct (k st1) as [[st2 e2] o2].
  unfold good, final, emitted in *. cbn [fst snd] in *. rewrite wf_app, W1, W2. split; auto.
Qed.

Lemma exec_list_good : forall c l, Forall (fun o => forall st, good st (exec c o st)) l ->
  forall st, good st (exec_list c l st).
Proof.
  induction l as [|o r IH]; intros HF st; cbn [exec_list]; [now apply good_same|].
  inversion HF as [|? ? Ho Hr]; subst. apply seq_good; [apply Ho | intros; now apply IH].
Qed.

Lemma close_loop_good : forall st n wrap (r : res),
  good st r -> (forall e, wf e = true -> wf [wrap e] = true) -> good st (close_loop st n wrap r).
Proof.
  intros st n wrap [[st1 e1] o1] [W P] Hw. unfold close_loop, good, final, emitted in *. cbn [fst snd] in *.
  split; [now apply Hw | exact P].
Qed.

Theorem exec_good : forall c o st, good st (exec c o st).
Proof.
  intros c. apply (op_ind2 (fun o => forall st, good st (exec c o st))).
  - intros o Hleaf st. destruct o; try contradiction; cbn [exec];
      try (apply do_write_good); try (apply do_move_to_good); try (now apply good_same).
    + pose proof (do_dwell_good st p) as [W P]. destruct (do_dwell st p) as [st1 e1]. now apply good_same.
    + unfold do_set_home. destruct x, y, z; now apply good_same.
    + split; [reflexivity|]. unfold pre_ok, final; cbn. intros H. exact H.
    + unfold do_load. destruct (negb (f_pgm f)); now apply good_same.
    + unfold do_remove. destruct (negb (f_pgm f)); [now apply good_same|].
      destruct (negb (mem _ _)); now apply good_same.
    + unfold do_farcall. destruct (negb (f_pgm f)); [now apply good_same|].
      destruct (negb (mem _ _)); [now apply good_same|].
      pose proof (do_dwell_good st (short_p c)) as [W P]. destruct (do_dwell st (short_p c)) as [st1 e1].
      cbn [fst snd] in *. apply good_same; [|exact P]. rewrite wf_app, W. reflexivity.
    + unfold do_buffered. destruct (negb (f_pgm f)); [now apply good_same|].
      destruct (negb (mem _ _)); [now apply good_same|].
      pose proof (do_dwell_good st (short_p c)) as [W P]. destruct (do_dwell st (short_p c)) as [st1 e1].
      cbn [fst snd] in *. apply good_same; [|exact P]. rewrite wf_app, W. reflexivity.
    + pose proof (do_shutter_good c st on) as [W P]. destruct (do_shutter c st on) as [st1 e1]. now apply good_same.
    + apply good_same; [destruct i; reflexivity | reflexivity].
  - intros n b HF st. rewrite exec_repeat. destruct n as [n|]; [|now apply good_same].
    destruct (n <=? 0)%Z; [now apply good_same|].
    apply close_loop_good; [now apply exec_list_good|]. intros e W. cbn [wf]. rewrite wf_s_rep, W. reflexivity.
  - intros v n b HF st. rewrite exec_for. destruct n as [n|]; [|now apply good_same].
    destruct (n <=? 0)%Z; [now apply good_same|]. destruct v as [v|]; [|now apply good_same].
    destruct (negb (mem v (c_dvars st))); [now apply good_same|].
    apply close_loop_good; [now apply exec_list_good|]. intros e W. cbn [wf]. rewrite wf_s_for, W. reflexivity.
  - intros e b HF st. rewrite exec_axisrot.
    pose proof (enter_rot_good c st e) as [W1 P1]. destruct (enter_rot c st e) as [st1 e1].
    pose proof (exec_list_good c b HF st1) as [W2 P2]. destruct (exec_list c b st1) as [[st2 e2] o2].
    pose proof (exit_rot_good c st2) as [W3 P3]. destruct (exit_rot c st2) as [st3 e3].
    unfold good, final, emitted, pre_ok in *. cbn [fst snd] in *. rewrite !wf_app, W1, W2, W3.
    split; [reflexivity|]. intros H. rewrite P3. apply P2. now rewrite P1.
Qed.

Theorem exec_list_wf : forall c l st, good st (exec_list c l st).
Proof. intros c l st. apply exec_list_good. apply Forall_forall. intros; apply exec_good. Qed.
