From Coq Require Import List Bool Arith Lia.
Import ListNotations.
From Femto Require Import Base.Dedup.

Section DedupProofs.
  Context {A : Type} (eqb : A -> A -> bool).

  Lemma select_mask_from_rec : forall l prev,
    select (mask_from eqb prev l) l = dedup_from eqb prev l.
  Proof.
    induction l as [|x r IH]; intros prev; cbn [mask_from select dedup_from]; [reflexivity|].
    destruct (eqb x prev); cbn [negb]; rewrite IH; reflexivity.
  Qed.

  Lemma dedup_eq_rec : forall l, dedup eqb l = dedup_rec eqb l.
  Proof.
    intros [|x r]; unfold dedup, dedup_rec; cbn [keep_mask select]; [reflexivity|].
    now rewrite select_mask_from_rec.
  Qed.

  Lemma keep_mask_length : forall l, length (keep_mask eqb l) = length l.
  Proof.
    intros [|x r]; cbn [keep_mask length]; [reflexivity|]. f_equal.
    revert x; induction r as [|y r IH]; intros x; cbn [mask_from length]; [reflexivity|].
    now rewrite IH.
  Qed.

  (* the mask is exactly "first, or differs from the predecessor" *)
  Lemma mask_from_nth : forall l prev i d db, i < length l ->
    nth i (mask_from eqb prev l) db =
    negb (eqb (nth i l d) (nth i (prev :: l) d)).
  Proof.
    induction l as [|x r IH]; intros prev i d db Hi; cbn [length] in Hi; [lia|].
    destruct i as [|i]; cbn [mask_from nth]; [reflexivity|].
    rewrite (IH x i d db) by lia. reflexivity.
  Qed.

  Lemma keep_mask_spec : forall l i d, i < length l ->
    nth i (keep_mask eqb l) false =
    match i with 0 => true | S j => negb (eqb (nth i l d) (nth j l d)) end.
  Proof.
    intros [|x r] i d Hi; cbn [length] in Hi; [lia|].
    destruct i as [|j]; cbn [keep_mask nth]; [reflexivity|].
    rewrite (mask_from_nth r x j d false) by lia. reflexivity.
  Qed.

  Lemma dedup_from_sub : forall l prev, Sub (dedup_from eqb prev l) l.
  Proof.
    induction l as [|x r IH]; intros prev; cbn [dedup_from]; [constructor|].
    destruct (eqb x prev); [apply Sub_skip | apply Sub_keep]; apply IH.
  Qed.

  Lemma dedup_sub : forall l, Sub (dedup eqb l) l.
  Proof.
    intros l; rewrite dedup_eq_rec. destruct l as [|x r]; cbn [dedup_rec]; [constructor|].
    apply Sub_keep, dedup_from_sub.
  Qed.

  Lemma dedup_hd : forall l d, hd d (dedup eqb l) = hd d l.
  Proof. intros l d; rewrite dedup_eq_rec; destruct l; reflexivity. Qed.

  Lemma dedup_nil_iff : forall l, dedup eqb l = [] <-> l = [].
  Proof.
    intros l; rewrite dedup_eq_rec; destruct l; cbn [dedup_rec]; split; congruence.
  Qed.

  Hypothesis eqb_spec : forall a b, eqb a b = true <-> a = b.

  Lemma eqb_refl : forall a, eqb a a = true.
  Proof. intros a; now apply eqb_spec. Qed.

  Lemma dedup_from_no_adj : forall l prev, no_adj_from eqb prev (dedup_from eqb prev l) = true.
  Proof.
    induction l as [|x r IH]; intros prev; cbn [dedup_from]; [reflexivity|].
    destruct (eqb x prev) eqn:E.
    - apply eqb_spec in E; subst x. apply IH.
    - cbn [no_adj_from]. rewrite E. cbn [negb andb]. apply IH.
  Qed.

  Lemma dedup_no_adj : forall l, no_adj eqb (dedup eqb l) = true.
  Proof.
    intros l; rewrite dedup_eq_rec; destruct l as [|x r]; cbn [dedup_rec no_adj]; [reflexivity|].
    apply dedup_from_no_adj.
  Qed.

  Lemma dedup_from_fixed : forall l prev, no_adj_from eqb prev l = true -> dedup_from eqb prev l = l.
  Proof.
    induction l as [|x r IH]; intros prev H; cbn [dedup_from no_adj_from] in *; [reflexivity|].
    apply andb_true_iff in H as [H1 H2]. apply negb_true_iff in H1. rewrite H1.
    f_equal. now apply IH.
  Qed.

  Lemma dedup_fixed : forall l, no_adj eqb l = true -> dedup eqb l = l.
  Proof.
    intros l H; rewrite dedup_eq_rec; destruct l as [|x r]; cbn [dedup_rec no_adj] in *; [reflexivity|].
    f_equal. now apply dedup_from_fixed.
  Qed.

  Lemma dedup_idem : forall l, dedup eqb (dedup eqb l) = dedup eqb l.
  Proof. intros l; apply dedup_fixed, dedup_no_adj. Qed.

  Lemma dedup_from_last : forall l prev d, last (prev :: dedup_from eqb prev l) d = last (prev :: l) d.
  Proof.
    induction l as [|x r IH]; intros prev d; cbn [dedup_from]; [reflexivity|].
    destruct (eqb x prev) eqn:E.
    - apply eqb_spec in E; subst x.
      change (last (prev :: prev :: r) d) with (last (prev :: r) d). apply IH.
    - change (last (prev :: x :: dedup_from eqb x r) d) with (last (x :: dedup_from eqb x r) d).
      change (last (prev :: x :: r) d) with (last (x :: r) d). apply IH.
  Qed.

  Lemma dedup_last : forall l d, last (dedup eqb l) d = last l d.
  Proof.
    intros l d; rewrite dedup_eq_rec; destruct l as [|x r]; cbn [dedup_rec]; [reflexivity|].
    apply dedup_from_last.
  Qed.

  (* every element of the input occurs in the output (nothing but repeats is dropped) *)
  Lemma dedup_from_in : forall l prev x, In x (prev :: l) -> In x (prev :: dedup_from eqb prev l).
  Proof.
    induction l as [|y r IH]; intros prev x Hin; cbn [dedup_from]; [exact Hin|].
    destruct Hin as [->|Hin]; [now left|].
    destruct (eqb y prev) eqn:E.
    - apply eqb_spec in E; subst y. apply IH. exact Hin.
    - right. apply IH. exact Hin.
  Qed.

  Lemma dedup_in : forall l x, In x l <-> In x (dedup eqb l).
  Proof.
    intros l x; split.
    - rewrite dedup_eq_rec; destruct l as [|y r]; cbn [dedup_rec]; [tauto|]. apply dedup_from_in.
    - revert x. assert (H : forall l1 l2 : list A, Sub l1 l2 -> forall x, In x l1 -> In x l2).
      { induction 1; intros z Hz; cbn in *; tauto || (destruct Hz; [now left | right; auto]) || auto. }
      apply H, dedup_sub.
  Qed.
End DedupProofs.

(* projections: dedup of a projection of the dedup'd rows = dedup of the projection of the raw rows *)
Section Proj.
  Context {A B : Type} (eqa : A -> A -> bool) (eqb : B -> B -> bool) (f : A -> B).
  Hypothesis eqa_spec : forall a b, eqa a b = true <-> a = b.
  Hypothesis eqb_spec : forall a b, eqb a b = true <-> a = b.

  Lemma dedup_from_proj : forall l prev,
    dedup_from eqb (f prev) (map f (dedup_from eqa prev l)) = dedup_from eqb (f prev) (map f l).
  Proof.
    induction l as [|x r IH]; intros prev; cbn [dedup_from map]; [reflexivity|].
    destruct (eqa x prev) eqn:E.
    - apply eqa_spec in E; subst x. rewrite (eqb_refl eqb eqb_spec). apply IH.
    - cbn [map dedup_from]. destruct (eqb (f x) (f prev)); rewrite IH; reflexivity.
  Qed.

  Lemma dedup_proj : forall l, dedup eqb (map f (dedup eqa l)) = dedup eqb (map f l).
  Proof.
    intros l. rewrite !dedup_eq_rec. destruct l as [|x r]; cbn [dedup_rec map]; [reflexivity|].
    f_equal. apply dedup_from_proj.
  Qed.
End Proj.
