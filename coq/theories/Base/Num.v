(* Number domains of the models.

   - G-code numbers are integers in units of 10^-9 ("nano units"): a number printed with d <= 9
     decimals is  k * 10^(9-d).
   - Python floats are exact rationals (Q).
   - `fmt d q` is CPython's correctly rounded  format(x, '.df')  (round half to even on the exact binary
     value), expressed in nano units.
   - `rnd32` is IEEE-754 binary32 round-to-nearest-even of a rational (normal and subnormal range; no
     overflow handling: callers stay below 2^128). *)
From Coq Require Import ZArith QArith Qabs Bool.
Open Scope Z_scope.

Definition SC : Z := 1000000000.

Definition pow10 (d : Z) : Z := 10 ^ d.

(* nearest integer, ties to even *)
Definition round_half_even (q : Q) : Z :=
  let n := Qnum q in
  let d := Zpos (Qden q) in
  let fl := n / d in
  let r2 := 2 * (n - fl * d) in
  if r2 <? d then fl
  else if d <? r2 then fl + 1
  else if Z.even fl then fl else fl + 1.

(* value printed with d decimals, in nano units *)
Definition fmt (d : Z) (q : Q) : Z :=
  round_half_even (q * inject_Z (pow10 d)) * pow10 (9 - d).

(* 2^e for any integer e *)
Definition pow2 (e : Z) : Q :=
  if 0 <=? e then inject_Z (2 ^ e) else 1 / inject_Z (2 ^ (- e)).

(* floor (log2 |q|) for q <> 0 *)
Definition ilog2 (q : Q) : Z :=
  let n := Z.abs (Qnum q) in
  let d := Zpos (Qden q) in
  let e0 := Z.log2 n - Z.log2 d in
  if Qle_bool (pow2 e0) (Qabs q) then e0 else e0 - 1.

Definition rnd_bin (prec emin : Z) (q : Q) : Q :=
  if Qeq_bool q 0 then 0%Q
  else
    let e := Z.max (ilog2 q - (prec - 1)) emin in
    (inject_Z (round_half_even (q / pow2 e)) * pow2 e)%Q.

Definition rnd32 (q : Q) : Q := Qred (rnd_bin 24 (-149) q).
Definition rnd64 (q : Q) : Q := Qred (rnd_bin 53 (-1074) q).

Definition Qabs_le_bool (a b : Q) : bool := Qle_bool (Qabs a) b.
