(* Accuracy of the modelled IEEE rounding: rnd32 / rnd64 move a rational by at most half a unit in the last place -
   relative 2^-24 (2^-53) in the normal range, absolute 2^-150 (2^-1075) below it. *)
From Coq Require Import ZArith QArith Qabs Qround Lia Lqa.
From Femto Require Import Base.Num Base.NumProofs.
Open Scope Q_scope.

Lemma pow2_pos : forall e, 0 < pow2 e.
Proof.
  intros e. unfold pow2. destruct (0 <=? e)%Z eqn:E.
  - apply Z.leb_le in E. unfold Qlt, inject_Z; cbn. pose proof (Z.pow_pos_nonneg 2 e ltac:(lia) E). lia.
  - apply Z.leb_gt in E. assert (P : (0 < 2 ^ (- e))%Z) by (apply Z.pow_pos_nonneg; lia).
    apply Qlt_shift_div_l; [unfold Qlt, inject_Z; cbn; lia|]. rewrite Qmult_0_l. reflexivity.
Qed.

Lemma inject_pow2_nz : forall n, (0 <= n)%Z -> ~ inject_Z (2 ^ n) == 0.
Proof. intros n Hn H. unfold Qeq, inject_Z in H; cbn in H. pose proof (Z.pow_pos_nonneg 2 n ltac:(lia) Hn). lia. Qed.

Lemma pow2_succ : forall e, pow2 (e + 1) == 2 * pow2 e.
Proof.
  intros e. unfold pow2. destruct (0 <=? e)%Z eqn:E.
  - apply Z.leb_le in E. replace (0 <=? e + 1)%Z with true by (symmetry; apply Z.leb_le; lia).
    rewrite Z.pow_add_r by lia. rewrite inject_Z_mult. change (inject_Z (2 ^ 1)) with 2. ring.
  - apply Z.leb_gt in E. destruct (0 <=? e + 1)%Z eqn:E1.
    + apply Z.leb_le in E1. assert (e = (-1)%Z) by lia. subst e. reflexivity.
    + apply Z.leb_gt in E1. replace (- e)%Z with ((- (e + 1)) + 1)%Z by lia. rewrite Z.pow_add_r by lia.
      rewrite inject_Z_mult. change (inject_Z (2 ^ 1)) with 2. field. apply inject_pow2_nz. lia.
Qed.

Lemma pow2_add_nat : forall (n : nat) e, pow2 (e + Z.of_nat n) == inject_Z (2 ^ Z.of_nat n) * pow2 e.
Proof.
  induction n as [|n IH]; intros e.
  - cbn [Z.of_nat]. rewrite Z.add_0_r. change (inject_Z (2 ^ 0)) with 1. ring.
  - rewrite Nat2Z.inj_succ. unfold Z.succ. replace (e + (Z.of_nat n + 1))%Z with ((e + Z.of_nat n) + 1)%Z by lia.
    rewrite pow2_succ, IH. rewrite Z.pow_add_r by lia. rewrite inject_Z_mult. change (inject_Z (2 ^ 1)) with 2. ring.
Qed.

Lemma pow2_add : forall e n, (0 <= n)%Z -> pow2 (e + n) == inject_Z (2 ^ n) * pow2 e.
Proof. intros e n Hn. rewrite <- (Z2Nat.id n Hn). apply pow2_add_nat. Qed.

Lemma pow2_nonneg_exp : forall a, (0 <= a)%Z -> pow2 a == inject_Z (2 ^ a).
Proof. intros a Ha. unfold pow2. replace (0 <=? a)%Z with true by (symmetry; now apply Z.leb_le). reflexivity. Qed.

(* nearest integer, over Q *)
Lemma round_q : forall x, Qabs (inject_Z (round_half_even x) - x) <= 1 # 2.
Proof.
  intros x. pose proof (round_half_even_spec x) as H. cbv zeta in H. destruct x as [n d]. cbn [Qnum Qden] in H.
  set (r := round_half_even (n # d)) in *. unfold Qminus, Qplus, Qopp, inject_Z, Qabs, Qle. cbn [Qnum Qden].
  rewrite Pos.mul_1_l. lia.
Qed.

(* 2^(ilog2 q) <= |q| *)
Lemma ilog2_lower : forall q, ~ q == 0 -> pow2 (ilog2 q) <= Qabs q.
Proof.
  intros q Hq. unfold ilog2. set (n := Z.abs (Qnum q)). set (d := Zpos (Qden q)).
  set (e0 := (Z.log2 n - Z.log2 d)%Z).
  destruct (Qle_bool (pow2 e0) (Qabs q)) eqn:E; [now apply Qle_bool_iff|].
  assert (Hn : (0 < n)%Z).
  { unfold n. destruct q as [qn qd]. unfold Qeq in Hq; cbn in *. lia. }
  assert (Hd : (0 < d)%Z) by (unfold d; lia).
  pose proof (Z.log2_spec n Hn) as [Ln _]. pose proof (Z.log2_spec d Hd) as [_ Ld].
  pose proof (Z.log2_nonneg n) as An. pose proof (Z.log2_nonneg d) as Ad.
  set (a := Z.log2 n) in *. set (b := Z.log2 d) in *.
  (* pow2 (a - b - 1) * 2^(b+1) = 2^a <= n  and  d < 2^(b+1) *)
  assert (P : pow2 (e0 - 1) * inject_Z (2 ^ (b + 1)) == inject_Z (2 ^ a)).
  { transitivity (pow2 ((e0 - 1) + (b + 1))).
    - rewrite pow2_add by lia. ring.
    - replace ((e0 - 1) + (b + 1))%Z with a by (unfold e0; lia). now apply pow2_nonneg_exp. }
  assert (Qa : Qabs q == inject_Z n / inject_Z d).
  { destruct q as [qn qd]. unfold Qabs, n, d. cbn [Qnum Qden]. apply Qmake_Qdiv. }
  rewrite Qa. apply Qle_shift_div_l; [unfold Qlt, inject_Z; cbn; lia|].
  apply Qle_trans with (pow2 (e0 - 1) * inject_Z (2 ^ (b + 1))).
  - apply Qmult_le_l; [apply pow2_pos|]. rewrite <- Zle_Qle. unfold Z.succ in Ld. lia.
  - rewrite P. rewrite <- Zle_Qle. exact Ln.
Qed.

(* the rounding error of rnd_bin: half a unit in the last place *)
Theorem rnd_bin_error : forall prec emin q, (1 <= prec)%Z ->
  Qabs (rnd_bin prec emin q - q) <= Qabs q / inject_Z (2 ^ prec) + pow2 (emin - 1).
Proof.
  intros prec emin q Hp. unfold rnd_bin.
  assert (Hnn : 0 <= Qabs q / inject_Z (2 ^ prec) + pow2 (emin - 1)).
  { apply Qle_trans with (0 + 0); [discriminate|]. apply Qplus_le_compat; [|apply Qlt_le_weak, pow2_pos].
    apply Qle_shift_div_l; [unfold Qlt, inject_Z; cbn; pose proof (Z.pow_pos_nonneg 2 prec ltac:(lia) ltac:(lia)); lia|].
    rewrite Qmult_0_l. apply Qabs_nonneg. }
  destruct (Qeq_bool q 0) eqn:E0.
  - apply Qeq_bool_iff in E0. rewrite E0 in *. unfold Qminus. rewrite Qplus_0_l. exact Hnn.
  - assert (Hq : ~ q == 0) by (intro H; apply Qeq_bool_iff in H; congruence).
    set (e := Z.max (ilog2 q - (prec - 1)) emin).
    pose proof (pow2_pos e) as Pe.
    assert (Pnz : ~ pow2 e == 0) by (intro H; rewrite H in Pe; apply (Qlt_irrefl 0); exact Pe).
    (* |round(q/2^e) * 2^e - q| = |round(q/2^e) - q/2^e| * 2^e <= 2^e / 2 *)
    assert (H1 : Qabs (inject_Z (round_half_even (q / pow2 e)) * pow2 e - q) <= (1 # 2) * pow2 e).
    { assert (Eq : inject_Z (round_half_even (q / pow2 e)) * pow2 e - q ==
                   (inject_Z (round_half_even (q / pow2 e)) - q / pow2 e) * pow2 e) by (field; exact Pnz).
      rewrite Eq, Qabs_Qmult. rewrite (Qabs_pos (pow2 e)) by (apply Qlt_le_weak; exact Pe).
      apply Qmult_le_compat_r; [apply round_q | apply Qlt_le_weak; exact Pe]. }
    eapply Qle_trans; [exact H1|].
    (* 2^e / 2 <= |q| / 2^prec  or  = 2^(emin-1) *)
    destruct (Z.max_spec (ilog2 q - (prec - 1)) emin) as [[Hlt Hm]|[Hge Hm]]; fold e in Hm.
    + (* subnormal range: e = emin *)
      rewrite Hm. assert (Eh : (1 # 2) * pow2 emin == pow2 (emin - 1)).
      { replace emin with ((emin - 1) + 1)%Z at 1 by lia. rewrite pow2_succ. field. }
      rewrite Eh. rewrite <- (Qplus_0_l (pow2 (emin - 1))) at 1. apply Qplus_le_compat; [|apply Qle_refl].
      apply Qle_shift_div_l; [unfold Qlt, inject_Z; cbn; pose proof (Z.pow_pos_nonneg 2 prec ltac:(lia) ltac:(lia)); lia|].
      rewrite Qmult_0_l. apply Qabs_nonneg.
    + (* normal range: 2^e * 2^(prec-1) = 2^(ilog2 q) <= |q| *)
      rewrite Hm. rewrite <- (Qplus_0_r ((1 # 2) * pow2 (ilog2 q - (prec - 1)))).
      apply Qplus_le_compat; [|apply Qlt_le_weak, pow2_pos].
      assert (P2 : (0 < 2 ^ prec)%Z) by (apply Z.pow_pos_nonneg; lia).
      apply Qle_shift_div_l; [unfold Qlt, inject_Z; cbn; lia|].
      assert (Ek : (1 # 2) * pow2 (ilog2 q - (prec - 1)) * inject_Z (2 ^ prec) == pow2 (ilog2 q)).
      { replace (ilog2 q) with ((ilog2 q - (prec - 1)) + (prec - 1))%Z at 2 by lia. rewrite pow2_add by lia.
        replace prec with ((prec - 1) + 1)%Z at 2 by lia. rewrite Z.pow_add_r by lia. rewrite inject_Z_mult.
        change (inject_Z (2 ^ 1)) with 2. field. }
      rewrite Ek. now apply ilog2_lower.
Qed.

Theorem rnd32_error : forall q, Qabs (rnd32 q - q) <= Qabs q / inject_Z (2 ^ 24) + pow2 (-150).
Proof. intros q. unfold rnd32. rewrite Qred_correct. exact (rnd_bin_error 24 (-149) q ltac:(lia)). Qed.

Theorem rnd64_error : forall q, Qabs (rnd64 q - q) <= Qabs q / inject_Z (2 ^ 53) + pow2 (-1075).
Proof. intros q. unfold rnd64. rewrite Qred_correct. exact (rnd_bin_error 53 (-1074) q ltac:(lia)). Qed.

(* numbers that are already binary32 values are left alone: rounding is idempotent *)
