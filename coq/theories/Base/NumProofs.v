From Coq Require Import ZArith QArith Qabs Lia Lqa.
From Femto Require Import Base.Num.
Open Scope Z_scope.

Lemma pow10_pos : forall d, 0 <= d -> 0 < pow10 d.
Proof. intros d Hd. unfold pow10. apply Z.pow_pos_nonneg; lia. Qed.

(* nearest integer: |r - q| <= 1/2, stated on numerators *)
Lemma round_half_even_spec : forall q,
  let r := round_half_even q in
  2 * Z.abs (r * Zpos (Qden q) - Qnum q) <= Zpos (Qden q).
Proof.
  intros [n d]. unfold round_half_even. cbn [Qnum Qden].
  pose proof (Z.div_mod n (Zpos d) ltac:(lia)) as Hdm.
  pose proof (Z.mod_pos_bound n (Zpos d) ltac:(lia)) as Hb.
  set (fl := n / Zpos d) in *. set (rm := n mod Zpos d) in *.
  assert (Hr : n - fl * Zpos d = rm) by lia. rewrite Hr.
  destruct (2 * rm <? Zpos d) eqn:E1; [apply Z.ltb_lt in E1; lia|].
  apply Z.ltb_ge in E1.
  destruct (Zpos d <? 2 * rm) eqn:E2; [apply Z.ltb_lt in E2; lia|].
  apply Z.ltb_ge in E2.
  destruct (Z.even fl); lia.
Qed.

Lemma round_half_even_ge_1 : forall q, (1 <= q)%Q -> 1 <= round_half_even q.
Proof.
  intros [n d] H. unfold Qle in H. cbn [Qnum Qden] in H.
  unfold round_half_even. cbn [Qnum Qden].
  assert (Hfl : 1 <= n / Zpos d) by (apply Z.div_le_lower_bound; lia).
  destruct (2 * (n - n / Zpos d * Zpos d) <? Zpos d); [lia|].
  destruct (Zpos d <? 2 * (n - n / Zpos d * Zpos d)); [lia|].
  destruct (Z.even (n / Zpos d)); lia.
Qed.

Lemma fmt_pos : forall d q, 0 <= d <= 9 -> (1 / inject_Z (pow10 d) <= q)%Q -> 0 < fmt d q.
Proof.
  intros d q Hd H. unfold fmt.
  pose proof (pow10_pos d ltac:(lia)) as HP. pose proof (pow10_pos (9 - d) ltac:(lia)) as HP'.
  apply Z.mul_pos_pos; [|assumption].
  assert (1 <= round_half_even (q * inject_Z (pow10 d))); [|lia].
  apply round_half_even_ge_1.
  assert (HPq : (0 < inject_Z (pow10 d))%Q) by (unfold Qlt, inject_Z; cbn; lia).
  apply (Qmult_le_compat_r _ _ (inject_Z (pow10 d))) in H; [|apply Qlt_le_weak; assumption].
  assert (E : (1 / inject_Z (pow10 d) * inject_Z (pow10 d) == 1)%Q).
  { field. intro Hz. rewrite Hz in HPq. apply (Qlt_irrefl 0). exact HPq. }
  rewrite E in H. exact H.
Qed.

(* the printed value differs from the exact one by at most half a unit of the last decimal *)
Lemma fmt_error : forall d q, 0 <= d <= 9 ->
  (Qabs (inject_Z (fmt d q) / inject_Z SC - q) <= 1 / (2 * inject_Z (pow10 d)))%Q.
Proof.
  intros d q Hd. unfold fmt.
  pose proof (pow10_pos d ltac:(lia)) as HP. pose proof (pow10_pos (9 - d) ltac:(lia)) as HP'.
  assert (HSC : SC = pow10 d * pow10 (9 - d)).
  { unfold pow10, SC. rewrite <- Z.pow_add_r by lia. replace (d + (9 - d)) with 9 by lia. reflexivity. }
  set (P := pow10 d) in *. set (P' := pow10 (9 - d)) in *.
  set (x := (q * inject_Z P)%Q).
  pose proof (round_half_even_spec x) as Hr. cbv zeta in Hr.
  set (r := round_half_even x) in *.
  assert (HPq : (0 < inject_Z P)%Q) by (unfold Qlt, inject_Z; cbn; lia).
  assert (HP'q : (0 < inject_Z P')%Q) by (unfold Qlt, inject_Z; cbn; lia).
  (* |r - x| <= 1/2 *)
  assert (Hhalf : (Qabs (inject_Z r - x) <= 1 # 2)%Q).
  { destruct x as [n dd]. cbn [Qnum Qden] in Hr.
    unfold Qle, Qabs, Qminus, Qplus, Qopp, inject_Z. cbn [Qnum Qden].
    rewrite Z.mul_1_r. rewrite Pos.mul_1_l.
    replace (r * Z.pos dd + - n * 1) with (r * Z.pos dd - n) by lia. lia. }
  assert (NP : ~ (inject_Z P == 0)%Q) by (intro Hz; rewrite Hz in HPq; apply (Qlt_irrefl 0 HPq)).
  assert (NP' : ~ (inject_Z P' == 0)%Q) by (intro Hz; rewrite Hz in HP'q; apply (Qlt_irrefl 0 HP'q)).
  (* value/SC - q = (r - x)/P *)
  assert (E : (inject_Z (r * P') / inject_Z SC - q == (inject_Z r - x) / inject_Z P)%Q).
  { rewrite HSC. rewrite !inject_Z_mult. unfold x. field. repeat split; assumption. }
  rewrite E. unfold Qdiv. rewrite Qabs_Qmult.
  rewrite (Qabs_pos (/ inject_Z P)) by (apply Qlt_le_weak, Qinv_lt_0_compat; assumption).
  assert (E2 : (1 * / (2 * inject_Z P) == (1 # 2) * / inject_Z P)%Q).
  { field. assumption. }
  rewrite E2. apply Qmult_le_compat_r; [assumption|].
  apply Qlt_le_weak, Qinv_lt_0_compat; assumption.
Qed.
