From Coq Require Import List Bool Arith Lia.
Import ListNotations.
From Femto Require Import Base.Dedup Base.Runs.

Section RunsProofs.
  Context {A : Type}.
  Implicit Types (l cur : list A) (m : list bool).

  (* flags of consecutive groups alternate: this is maximality of the runs *)
  Fixpoint alt (f : bool) (gs : list (bool * list A)) : Prop :=
    match gs with
    | [] => True
    | (g, _) :: r => g = f /\ alt (negb f) r
    end.

  Lemma eqb_false_negb : forall b f, Bool.eqb b f = false -> b = negb f.
  Proof. intros [] []; cbn; congruence. Qed.

  Lemma alt_groups_from : forall l m flag cur, alt flag (groups_from flag cur l m).
  Proof.
    induction l as [|x l IH]; intros m flag cur; cbn [groups_from].
    - cbn; auto.
    - destruct m as [|b m]; [cbn; auto|].
      destruct (Bool.eqb b flag) eqn:E.
      + apply IH.
      + cbn [alt]. split; [reflexivity|]. apply eqb_false_negb in E. subst b. apply IH.
  Qed.

  Lemma every_other_cons : forall (a : list A) ls, every_other (a :: ls) = a :: every_other (tl ls).
  Proof. intros a [|y r]; reflexivity. Qed.

  Lemma filter_alt : forall gs f, alt f gs ->
    map snd (filter fst gs) =
    if f then every_other (map snd gs) else every_other (tl (map snd gs)).
  Proof.
    induction gs as [|[g a] r IH]; intros f H.
    - destruct f; reflexivity.
    - cbn [alt] in H. destruct H as [-> H]. specialize (IH _ H).
      cbn [filter fst map snd]. destruct f; cbn [negb] in IH.
      + cbn [map snd]. rewrite every_other_cons, IH. reflexivity.
      + cbn [tl]. exact IH.
  Qed.

  Lemma firstn_rev_app : forall cur l, firstn (length cur) (rev cur ++ l) = rev cur.
  Proof.
    intros cur l. rewrite <- (rev_length cur). rewrite firstn_app, Nat.sub_diag, firstn_all.
    cbn [firstn]. apply app_nil_r.
  Qed.

  Lemma skipn_rev_app : forall cur l, skipn (length cur) (rev cur ++ l) = l.
  Proof.
    intros cur l. rewrite <- (rev_length cur). rewrite skipn_app, Nat.sub_diag, skipn_all.
    reflexivity.
  Qed.

  Lemma split_groups : forall l m flag cur start, length l = length m ->
    np_split start (change_idx flag (start + length cur) m) (rev cur ++ l)
    = map snd (groups_from flag cur l m).
  Proof.
    induction l as [|x l IH]; intros m flag cur start Hlen; destruct m as [|b m]; cbn [length] in Hlen; try lia.
    - cbn [change_idx np_split groups_from map snd]. now rewrite app_nil_r.
    - cbn [change_idx groups_from]. destruct (Bool.eqb b flag) eqn:E.
      + apply Bool.eqb_prop in E. subst b.
        specialize (IH m flag (x :: cur) start ltac:(lia)).
        cbn [length rev] in IH. rewrite <- app_assoc in IH. cbn [app] in IH.
        rewrite Nat.add_succ_r in IH. exact IH.
      + cbn [np_split map snd].
        replace (start + length cur - start) with (length cur) by lia.
        rewrite firstn_rev_app, skipn_rev_app. f_equal.
        specialize (IH m b [x] (start + length cur) ltac:(lia)).
        cbn [length rev app] in IH. rewrite Nat.add_1_r in IH. exact IH.
  Qed.

  Theorem split_mask_eq_runs : forall l m, length l = length m ->
    split_mask l m = Some (runs l m).
  Proof.
    intros l m Hlen. destruct m as [|b m]; [destruct l; reflexivity|].
    destruct l as [|x l]; cbn [length] in Hlen; [lia|].
    unfold split_mask, runs. cbn [indices groups]. f_equal.
    pose proof (split_groups l m b [x] 0 ltac:(lia)) as H.
    cbn [length rev app Nat.add] in H. rewrite H.
    symmetry. apply filter_alt, alt_groups_from.
  Qed.

  Lemma split_mask_empty : forall l, split_mask l [] = Some [].
  Proof. reflexivity. Qed.

  (* --- what the runs are --- *)

  Lemma runs_from_concat : forall l m flag cur, length l = length m ->
    concat (map snd (filter fst (groups_from flag cur l m)))
    = (if flag then rev cur else []) ++ select m l.
  Proof.
    induction l as [|x l IH]; intros m flag cur Hlen; destruct m as [|b m]; cbn [length] in Hlen; try lia.
    - cbn [groups_from select]. cbn [filter fst]. destruct flag; cbn; now rewrite ?app_nil_r.
    - cbn [groups_from]. destruct (Bool.eqb b flag) eqn:E.
      + apply Bool.eqb_prop in E. subst b. rewrite IH by lia. cbn [select rev].
        destruct flag; [now rewrite <- app_assoc | reflexivity].
      + apply eqb_false_negb in E. subst b. cbn [filter fst].
        destruct flag; cbn [negb map snd concat select]; rewrite IH by lia; cbn [rev app]; reflexivity.
  Qed.

  (* the selected elements, in order, and nothing else *)
  Theorem runs_concat : forall l m, length l = length m -> concat (runs l m) = select m l.
  Proof.
    intros l m Hlen. unfold runs. destruct l as [|x l], m as [|b m]; cbn [length] in Hlen; try lia; [reflexivity|].
    cbn [groups]. rewrite runs_from_concat by lia. cbn [select rev app].
    destruct b; reflexivity.
  Qed.

  Lemma groups_from_nonempty : forall l m flag cur, cur <> [] ->
    Forall (fun g => snd g <> []) (groups_from flag cur l m).
  Proof.
    assert (Hrev : forall c : list A, c <> [] -> rev c <> []).
    { intros c Hc Hr. apply Hc. rewrite <- (rev_involutive c), Hr. reflexivity. }
    induction l as [|x l IH]; intros m flag cur Hc; cbn [groups_from].
    - constructor; [cbn; auto | constructor].
    - destruct m as [|b m]; [constructor; [cbn; auto | constructor]|].
      destruct (Bool.eqb b flag).
      + apply IH. discriminate.
      + constructor; [cbn; auto|]. apply IH. discriminate.
  Qed.

  Theorem runs_nonempty : forall l m, Forall (fun r => r <> []) (runs l m).
  Proof.
    intros l m. unfold runs.
    assert (H : Forall (fun g : bool * list A => snd g <> []) (groups l m)).
    { destruct l as [|x l], m as [|b m]; cbn [groups]; try constructor.
      apply groups_from_nonempty. discriminate. }
    induction H as [|g gs Hg _ IH]; cbn [filter]; [constructor|].
    destruct (fst g); cbn [map]; [constructor; assumption | assumption].
  Qed.

  (* flattening the groups with their flags gives back the (mask, element) pairs:
     every element of a group carries the group's flag, groups are contiguous and in order *)
  Definition expand (gs : list (bool * list A)) : list (bool * A) :=
    concat (map (fun g => map (pair (fst g)) (snd g)) gs).

  Lemma expand_groups_from : forall l m flag cur, length l = length m ->
    expand (groups_from flag cur l m) = map (pair flag) (rev cur) ++ combine m l.
  Proof.
    unfold expand.
    induction l as [|x l IH]; intros m flag cur Hlen; destruct m as [|b m]; cbn [length] in Hlen; try lia.
    - cbn. reflexivity.
    - cbn [groups_from]. destruct (Bool.eqb b flag) eqn:E.
      + apply Bool.eqb_prop in E. subst b. rewrite IH by lia. cbn [rev combine].
        rewrite map_app, <- app_assoc. reflexivity.
      + cbn [map concat fst snd]. rewrite IH by lia. reflexivity.
  Qed.

  Theorem groups_partition : forall l m, length l = length m ->
    expand (groups l m) = combine m l /\ alt (hd false m) (groups l m).
  Proof.
    intros l m Hlen. destruct l as [|x l], m as [|b m]; cbn [length] in Hlen; try lia.
    - split; [reflexivity | exact I].
    - cbn [groups hd]. split; [|apply alt_groups_from].
      rewrite expand_groups_from by lia. reflexivity.
  Qed.
End RunsProofs.
