(* Model of femto.helpers.unique_filter (definitions only; proofs in DedupProofs.v).

   The code computes  mask = [True] ++ [ row_i differs from row_(i-1) | i >= 1 ]
   and returns data[mask].  `neqb` is the row comparison ("some column differs"). *)
From Coq Require Import List Bool.
Import ListNotations.

Section Dedup.
  Context {A : Type} (eqb : A -> A -> bool).

  (* mask entries for positions >= 1, given the predecessor *)
  Fixpoint mask_from (prev : A) (l : list A) : list bool :=
    match l with
    | [] => []
    | x :: r => negb (eqb x prev) :: mask_from x r
    end.

  (* np.insert(mask, 0, True) *)
  Definition keep_mask (l : list A) : list bool :=
    match l with [] => [] | x :: r => true :: mask_from x r end.

  (* data[mask] *)
  Fixpoint select {B : Type} (m : list bool) (l : list B) : list B :=
    match m, l with
    | b :: m', x :: l' => if b then x :: select m' l' else select m' l'
    | _, _ => []
    end.

  Definition dedup (l : list A) : list A := select (keep_mask l) l.

  (* recursive reading used by the proofs *)
  Fixpoint dedup_from (prev : A) (l : list A) : list A :=
    match l with
    | [] => []
    | x :: r => if eqb x prev then dedup_from x r else x :: dedup_from x r
    end.

  Definition dedup_rec (l : list A) : list A :=
    match l with [] => [] | x :: r => x :: dedup_from x r end.

  (* "no two equal consecutive elements" *)
  Fixpoint no_adj_from (prev : A) (l : list A) : bool :=
    match l with
    | [] => true
    | x :: r => negb (eqb x prev) && no_adj_from x r
    end.
  Definition no_adj (l : list A) : bool :=
    match l with [] => true | x :: r => no_adj_from x r end.
End Dedup.

(* order-preserving sub-sequence *)
Inductive Sub {A : Type} : list A -> list A -> Prop :=
| Sub_nil : Sub [] []
| Sub_skip : forall x l1 l2, Sub l1 l2 -> Sub l1 (x :: l2)
| Sub_keep : forall x l1 l2, Sub l1 l2 -> Sub (x :: l1) (x :: l2).
