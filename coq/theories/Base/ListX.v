From Coq Require Import List.
Import ListNotations.

Lemma last_cons_default : forall {A : Type} (l : list A) (x d : A), last (x :: l) d = last l x.
Proof.
  induction l as [|y r IH]; intros x d; [reflexivity|].
  change (last (x :: y :: r) d) with (last (y :: r) d). rewrite IH. symmetry. apply IH.
Qed.
