(* History independence of observations: every occurrence of an operation yields the same result. *)
From Coq Require Import List Bool NArith.
Import ListNotations.

Fixpoint agrees (k v : N) (l : list (N * N)) : bool :=
  match l with
  | [] => true
  | (k', v') :: r => (if N.eqb k k' then N.eqb v v' else true) && agrees k v r
  end.

Fixpoint consistentb (l : list (N * N)) : bool :=
  match l with
  | [] => true
  | (k, v) :: r => agrees k v r && consistentb r
  end.

Fixpoint lookup_first (k : N) (l : list (N * N)) : N :=
  match l with
  | [] => 0%N
  | (k', v) :: r => if N.eqb k k' then v else lookup_first k r
  end.

Lemma agrees_in : forall k v l, agrees k v l = true -> forall v', In (k, v') l -> v' = v.
Proof.
  induction l as [|[k' w] r IH]; intros H v' Hin; [destruct Hin|].
  cbn [agrees] in H. apply andb_true_iff in H as [H1 H2]. destruct Hin as [E|Hin].
  - injection E as -> ->. rewrite N.eqb_refl in H1. apply N.eqb_eq in H1. now symmetry.
  - now apply IH.
Qed.

(* the observed results are a function of the operation alone *)
Theorem consistent_function : forall l, consistentb l = true ->
  forall k v, In (k, v) l -> v = lookup_first k l.
Proof.
  induction l as [|[k0 v0] r IH]; intros H k v Hin; [destruct Hin|].
  cbn [consistentb] in H. apply andb_true_iff in H as [H1 H2]. cbn [lookup_first].
  destruct (N.eqb k k0) eqn:E.
  - apply N.eqb_eq in E. subst k0. destruct Hin as [Ei|Hin]; [now injection Ei|].
    now apply (agrees_in k v0 r H1).
  - destruct Hin as [Ei|Hin]; [injection Ei as -> ->; now rewrite N.eqb_refl in E|].
    now apply IH.
Qed.

Theorem consistent_any_two : forall l, consistentb l = true ->
  forall k v1 v2, In (k, v1) l -> In (k, v2) l -> v1 = v2.
Proof.
  intros l H k v1 v2 H1 H2. rewrite (consistent_function l H k v1 H1), (consistent_function l H k v2 H2). reflexivity.
Qed.
