(* Model of femto.helpers.split_mask (definitions only; proofs in RunsProofs.v).

     arr, mask = np.array(arr), np.array(mask)
     indices = np.nonzero(mask[1:] != mask[:-1])[0] + 1
     sp = np.split(arr, indices)
     if mask.size == 0: return []                    (added by the fix commit for C11)
     sp = sp[0::2] if mask[0] else sp[1::2]
*)
From Coq Require Import List Bool Arith.
Import ListNotations.

Section Runs.
  Context {A : Type}.

  (* indices i (counted from [i0]) at which the mask differs from its predecessor *)
  Fixpoint change_idx (prev : bool) (i0 : nat) (m : list bool) : list nat :=
    match m with
    | [] => []
    | b :: r => if Bool.eqb b prev then change_idx b (S i0) r else i0 :: change_idx b (S i0) r
    end.

  Definition indices (m : list bool) : list nat :=
    match m with [] => [] | b :: r => change_idx b 1 r end.

  (* np.split(arr, idxs) for increasing idxs: arr[0:i1], arr[i1:i2], ..., arr[ik:] ;
     [start] is the absolute index of the head of [arr] *)
  Fixpoint np_split (start : nat) (idxs : list nat) (arr : list A) : list (list A) :=
    match idxs with
    | [] => [arr]
    | i :: r => firstn (i - start) arr :: np_split i r (skipn (i - start) arr)
    end.

  (* l[0::2] *)
  Fixpoint every_other (l : list (list A)) : list (list A) :=
    match l with
    | [] => []
    | [x] => [x]
    | x :: _ :: r => x :: every_other r
    end.

  Definition split_mask (arr : list A) (m : list bool) : option (list (list A)) :=
    match m with
    | [] => Some []
    | b :: _ =>
        let sp := np_split 0 (indices m) arr in
        Some (if b then every_other sp else every_other (tl sp))
    end.

  (* ---- specification: maximal runs ---- *)

  (* group consecutive elements carrying the same mask value; [cur] is the current (reversed) group *)
  Fixpoint groups_from (flag : bool) (cur : list A) (l : list A) (m : list bool) : list (bool * list A) :=
    match l, m with
    | x :: l', b :: m' =>
        if Bool.eqb b flag then groups_from flag (x :: cur) l' m'
        else (flag, rev cur) :: groups_from b [x] l' m'
    | _, _ => [(flag, rev cur)]
    end.

  Definition groups (l : list A) (m : list bool) : list (bool * list A) :=
    match l, m with
    | x :: l', b :: m' => groups_from b [x] l' m'
    | _, _ => []
    end.

  (* the maximal runs of selected elements *)
  Definition runs (l : list A) (m : list bool) : list (list A) :=
    map snd (filter fst (groups l m)).
End Runs.
