(* C02: angles are given in degrees, any sign or magnitude: adding whole turns changes neither cos nor sin. *)
From Coq Require Import Reals Lra.
Open Scope R_scope.

Definition rad (a : R) : R := a * PI / 180.

Lemma rad_turns : forall a (n : nat), rad (a + 360 * INR n) = rad a + 2 * INR n * PI.
Proof. intros a n. unfold rad. field. Qed.

Theorem degrees_period_plus : forall a (n : nat),
  cos (rad (a + 360 * INR n)) = cos (rad a) /\ sin (rad (a + 360 * INR n)) = sin (rad a).
Proof. intros a n. rewrite rad_turns. split; [apply cos_period | apply sin_period]. Qed.

Theorem degrees_period_minus : forall a (n : nat),
  cos (rad (a - 360 * INR n)) = cos (rad a) /\ sin (rad (a - 360 * INR n)) = sin (rad a).
Proof.
  intros a n. destruct (degrees_period_plus (a - 360 * INR n) n) as [C S].
  replace (a - 360 * INR n + 360 * INR n) with a in C, S by ring. split; symmetry; assumption.
Qed.

Theorem degrees_zero : cos (rad 0) = 1 /\ sin (rad 0) = 0.
Proof. unfold rad. replace (0 * PI / 180) with 0 by field. split; [apply cos_0 | apply sin_0]. Qed.

(* a rotation matrix built from cos and sin is a genuine rotation *)
Theorem rotation_unit : forall a, cos (rad a) * cos (rad a) + sin (rad a) * sin (rad a) = 1.
Proof. intros a. pose proof (sin2_cos2 (rad a)) as H. unfold Rsqr in H. lra. Qed.
