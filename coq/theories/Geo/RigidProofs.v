(* C02: algebra of the exact transformation  tr = Rotate . Flip . Translate  (z scaled by k). *)
From Coq Require Import QArith Bool Lia.
From Femto Require Import Base.Num Geo.Rigid.
Open Scope Q_scope.

Definition sgn (b : bool) : Q := if b then -1 else 1.

Lemma flipq_sgn : forall b q, flipq b q == sgn b * q.
Proof. intros [] q; cbn; ring. Qed.

Definition translate (c : tcfg) (p : Q * Q * Q) : Q * Q * Q := let '(x, y, z) := p in (x - t_sx c, y - t_sy c, z).
Definition flip (c : tcfg) (p : Q * Q * Q) : Q * Q * Q := let '(x, y, z) := p in (flipq (t_fx c) x, flipq (t_fy c) y, z).
Definition rotate (c : tcfg) (p : Q * Q * Q) : Q * Q * Q :=
  let '(x, y, z) := p in (t_c c * x - t_s c * y, t_s c * x + t_c c * y, t_k c * z).

(* the documented order: translate so that the chosen origin becomes (0,0), mirror, rotate counter-clockwise,
   scale z *)
Theorem tr_order : forall c p, tr c p = rotate c (flip c (translate c p)).
Proof. intros c [[x y] z]. reflexivity. Qed.

Definition px3 (p : Q * Q * Q) : Q := fst (fst p).
Definition py3 (p : Q * Q * Q) : Q := snd (fst p).
Definition pz3 (p : Q * Q * Q) : Q := snd p.

Theorem tr_dist : forall c p q,
  (px3 (tr c p) - px3 (tr c q)) * (px3 (tr c p) - px3 (tr c q)) +
  (py3 (tr c p) - py3 (tr c q)) * (py3 (tr c p) - py3 (tr c q)) ==
  (t_c c * t_c c + t_s c * t_s c) *
  ((px3 p - px3 q) * (px3 p - px3 q) + (py3 p - py3 q) * (py3 p - py3 q)).
Proof.
  intros c [[x1 y1] z1] [[x2 y2] z2]. unfold tr, tr_gen, px3, py3. cbn [fst snd].
  rewrite !flipq_sgn. destruct (t_fx c), (t_fy c); cbn [sgn]; ring.
Qed.

(* with a genuine rotation (c^2 + s^2 = 1) xy distances are preserved *)
Corollary tr_isometry : forall c p q, t_c c * t_c c + t_s c * t_s c == 1 ->
  (px3 (tr c p) - px3 (tr c q)) * (px3 (tr c p) - px3 (tr c q)) +
  (py3 (tr c p) - py3 (tr c q)) * (py3 (tr c p) - py3 (tr c q)) ==
  (px3 p - px3 q) * (px3 p - px3 q) + (py3 p - py3 q) * (py3 p - py3 q).
Proof. intros c p q H. rewrite tr_dist, H. ring. Qed.

Theorem tr_z : forall c p q, pz3 (tr c p) - pz3 (tr c q) == t_k c * (pz3 p - pz3 q).
Proof. intros c [[x1 y1] z1] [[x2 y2] z2]. unfold tr, tr_gen, pz3. cbn [snd]. ring. Qed.

Definition cross (a b o : Q * Q * Q) : Q :=
  (px3 a - px3 o) * (py3 b - py3 o) - (py3 a - py3 o) * (px3 b - px3 o).

(* orientation is reversed exactly when one flip is set *)
Theorem tr_orient : forall c a b o,
  cross (tr c a) (tr c b) (tr c o) ==
  sgn (t_fx c) * sgn (t_fy c) * (t_c c * t_c c + t_s c * t_s c) * cross a b o.
Proof.
  intros c [[x1 y1] z1] [[x2 y2] z2] [[x0 y0] z0]. unfold cross, tr, tr_gen, px3, py3. cbn [fst snd].
  rewrite !flipq_sgn. destruct (t_fx c), (t_fy c); cbn [sgn]; ring.
Qed.

Lemma sgn_xor : forall a b, sgn a * sgn b == sgn (xorb a b).
Proof. intros [] []; cbn; ring. Qed.

Theorem tr_origin : forall c z,
  px3 (tr c (t_sx c, t_sy c, z)) == 0 /\ py3 (tr c (t_sx c, t_sy c, z)) == 0 /\ pz3 (tr c (t_sx c, t_sy c, z)) == t_k c * z.
Proof.
  intros c z. unfold tr, tr_gen, px3, py3, pz3. cbn [fst snd]. rewrite !flipq_sgn. repeat split; ring.
Qed.

Theorem tr_identity : forall p, px3 (tr neutral p) == px3 p /\ py3 (tr neutral p) == py3 p /\ pz3 (tr neutral p) == pz3 p.
Proof. intros [[x y] z]. unfold tr, tr_gen, neutral, px3, py3, pz3. cbn. repeat split; ring. Qed.

(* the float-faithful map is the exact one applied to the float32-rounded differences *)
Theorem tr32_is_tr_of_rounded : forall c x y z,
  tr32 c (x, y, z) =
  rotate c (flip c (rnd32 (rnd32 x - rnd32 (t_sx c)), rnd32 (rnd32 y - rnd32 (t_sy c)), rnd32 z)).
Proof. reflexivity. Qed.

(* C12: with a genuine rotation and the identity index ratio (k = 1) the length of every move of the compiled program is
   the distance between the path points it joins (squared lengths: no square root needed), so distance over feed summed
   over a pass is the same for the program and for the path *)
Theorem tr_length3 : forall c p q, t_c c * t_c c + t_s c * t_s c == 1 -> t_k c == 1 ->
  (px3 (tr c p) - px3 (tr c q)) * (px3 (tr c p) - px3 (tr c q)) +
  (py3 (tr c p) - py3 (tr c q)) * (py3 (tr c p) - py3 (tr c q)) +
  (pz3 (tr c p) - pz3 (tr c q)) * (pz3 (tr c p) - pz3 (tr c q)) ==
  (px3 p - px3 q) * (px3 p - px3 q) + (py3 p - py3 q) * (py3 p - py3 q) + (pz3 p - pz3 q) * (pz3 p - pz3 q).
Proof. intros c p q H K. rewrite (tr_isometry c p q H), (tr_z c p q), K. ring. Qed.

(* C01 / C02: how far the single-precision pipeline is from the exact map.  The difference is the (exact, linear)
   rotation and flip of the rounding errors of the two float32 subtractions; each of those is bounded by
   Base/RndProofs.rnd32_error. *)
Definition in_err (x s : Q) : Q := rnd32 (rnd32 x - rnd32 s) - (x - s).

Theorem tr32_minus_tr : forall c x y z,
  let dx := in_err x (t_sx c) in let dy := in_err y (t_sy c) in
  px3 (tr32 c (x, y, z)) - px3 (tr c (x, y, z)) == t_c c * (sgn (t_fx c) * dx) - t_s c * (sgn (t_fy c) * dy) /\
  py3 (tr32 c (x, y, z)) - py3 (tr c (x, y, z)) == t_s c * (sgn (t_fx c) * dx) + t_c c * (sgn (t_fy c) * dy) /\
  pz3 (tr32 c (x, y, z)) - pz3 (tr c (x, y, z)) == t_k c * (rnd32 z - z).
Proof.
  intros c x y z. cbv zeta. unfold in_err, tr32, tr, tr_gen, px3, py3, pz3. cbn [fst snd].
  rewrite !flipq_sgn. repeat split; ring.
Qed.
