(* Model of the warp compensation inside transform_points (compensate + the rigid map):
     z_comp = z + float32(fwarp(x, y))      (float32 arithmetic, on copies)
   then the rigid transformation of Geo/Rigid.v.  [s] is the surface interpolant (oracle). *)
From Coq Require Import QArith Bool.
From Femto Require Import Base.Num Geo.Rigid.
Open Scope Q_scope.

Definition tr_warp_gen (ri ro : Q -> Q) (s : Q -> Q -> Q) (c : tcfg) (p : Q * Q * Q) : Q * Q * Q :=
  let '(x, y, z) := p in
  tr_gen ri ro c (x, y, ro (ri z + ro (s (ri x) (ri y)))).

Definition tr_warp (s : Q -> Q -> Q) : tcfg -> Q * Q * Q -> Q * Q * Q := tr_warp_gen (fun q => q) (fun q => q) s.
Definition tr_warp32 (s : Q -> Q -> Q) : tcfg -> Q * Q * Q -> Q * Q * Q := tr_warp_gen rnd32 rnd32 s.

Lemma tr_warp_xy : forall s c p,
  fst (fst (tr_warp s c p)) = fst (fst (tr c p)) /\ snd (fst (tr_warp s c p)) = snd (fst (tr c p)).
Proof. intros s c [[x y] z]. split; reflexivity. Qed.

Lemma tr_warp_z : forall s c x y z, snd (tr_warp s c (x, y, z)) == t_k c * (z + s x y).
Proof. intros. unfold tr_warp, tr_warp_gen, tr_gen. cbn [snd]. ring. Qed.

Lemma tr_warp_flat : forall c x y z,
  fst (fst (tr_warp (fun _ _ => 0) c (x, y, z))) = fst (fst (tr c (x, y, z))) /\
  snd (fst (tr_warp (fun _ _ => 0) c (x, y, z))) = snd (fst (tr c (x, y, z))) /\
  snd (tr_warp (fun _ _ => 0) c (x, y, z)) == snd (tr c (x, y, z)).
Proof. intros. unfold tr_warp, tr_warp_gen, tr, tr_gen. cbn [fst snd]. repeat split; try reflexivity. ring. Qed.

(* the float-faithful version changes only the z fed to the rigid map *)
Lemma tr_warp32_xy : forall s c p,
  fst (fst (tr_warp32 s c p)) = fst (fst (tr32 c p)) /\ snd (fst (tr_warp32 s c p)) = snd (fst (tr32 c p)).
Proof. intros s c [[x y] z]. split; reflexivity. Qed.
