(* Erosion / dilation in a normed vector space (abstract: any V with these laws; the plane is the instance
   that matters).  Used for the containment clauses of C05 / C07: GEOS buffers are oracles, the laws they are
   assumed to follow are those of the mathematical dilation and erosion below. *)
From Coq Require Import Reals Lra.
Open Scope R_scope.

Section Normed.
  Variable V : Type.
  Variable add : V -> V -> V.
  Variable zero : V.
  Variable smul : R -> V -> V.
  Variable norm : V -> R.
  Hypothesis add_assoc : forall a b c, add (add a b) c = add a (add b c).
  Hypothesis add_zero : forall a, add a zero = a.
  Hypothesis smul_plus : forall s t v, smul (s + t) v = add (smul s v) (smul t v).
  Hypothesis smul_one : forall v, smul 1 v = v.
  Hypothesis norm_smul : forall t v, norm (smul t v) = Rabs t * norm v.
  Hypothesis norm_zero : norm zero = 0.
  Hypothesis norm_nonneg : forall v, 0 <= norm v.
  Hypothesis norm_triangle : forall a b, norm (add a b) <= norm a + norm b.

  Definition region := V -> Prop.
  Definition incl (A B : region) : Prop := forall p, A p -> B p.
  Definition dil (A : region) (rho : R) : region := fun p => exists a v, A a /\ p = add a v /\ norm v <= rho.
  Definition ero (A : region) (rho : R) : region := fun p => forall v, norm v <= rho -> A (add p v).

  (* an inset lies inside the polygon it was computed from *)
  Lemma ero_incl : forall A rho, 0 <= rho -> incl (ero A rho) A.
  Proof. intros A rho H p Hp. specialize (Hp zero). rewrite add_zero in Hp. apply Hp. rewrite norm_zero. exact H. Qed.

  Lemma ero_mono : forall A r1 r2, r1 <= r2 -> incl (ero A r2) (ero A r1).
  Proof. intros A r1 r2 H p Hp v Hv. apply Hp. lra. Qed.

  (* re-growing an inset by no more than it was shrunk stays inside *)
  Lemma dil_ero_incl : forall A rho eps, eps <= rho -> incl (dil (ero A rho) eps) A.
  Proof. intros A rho eps H p [a [v [Ha [-> Hv]]]]. apply Ha. lra. Qed.

  Lemma dil_dil : forall A r1 r2, incl (dil (dil A r1) r2) (dil A (r1 + r2)).
  Proof.
    intros A r1 r2 p [b [w [[a [v [Ha [-> Hv]]]] [-> Hw]]]].
    exists a, (add v w). split; [exact Ha|]. split; [apply add_assoc|].
    eapply Rle_trans; [apply norm_triangle|]. lra.
  Qed.

  (* hatching: the polygon left after two insets of delta, grown by delta + eps (eps <= delta), is inside the
     polygon the insets started from *)
  Theorem hatch_inside : forall G delta eps, 0 < delta -> 0 <= eps <= delta ->
    incl (dil (ero (ero G delta) delta) (delta + eps)) G.
  Proof.
    intros G delta eps Hd He p [a [v [Ha [-> Hv]]]].
    set (t := delta / (delta + eps)).
    assert (Hde : 0 < delta + eps) by lra.
    assert (Ht : 0 < t <= 1).
    { unfold t. split; [apply Rdiv_lt_0_compat; lra|].
      apply (Rmult_le_reg_r (delta + eps)); [lra|]. unfold Rdiv. rewrite Rmult_assoc, Rinv_l by lra. lra. }
    assert (Hsplit : v = add (smul t v) (smul (1 - t) v)).
    { rewrite <- smul_plus. replace (t + (1 - t)) with 1 by ring. now rewrite smul_one. }
    rewrite Hsplit, <- add_assoc.
    assert (N1 : norm (smul t v) <= delta).
    { rewrite norm_smul, Rabs_right by lra.
      apply Rle_trans with (t * (delta + eps)); [apply Rmult_le_compat_l; lra|].
      unfold t. right. field. lra. }
    assert (N2 : norm (smul (1 - t) v) <= delta).
    { rewrite norm_smul, Rabs_right by lra.
      apply Rle_trans with ((1 - t) * (delta + eps)); [apply Rmult_le_compat_l; lra|].
      unfold t. apply Rle_trans with eps; [right; field; lra | lra]. }
    apply (Ha _ N1). exact N2.
  Qed.
End Normed.
