(* Model of PGMCompiler.transform_points / flip / t_matrix (without warp; see Geo/Warp.v).

     x = asarray(x, float32); x -= shift_x   (float32 arithmetic, in place)
     flip:  x := -x when flip_x, y := -y when flip_y
     [x y z] . TM   with  TM = (diag(1,1,1/neff) . Rot(theta))^T
        x' = c x - s y ;  y' = s x + c y ;  z' = k z         (float64)

   [ri] is the cast of the inputs (asarray float32), [ro] the rounding of the subtraction and of the shift
   operand: arrays subtract in float32, 0-d (scalar) inputs are promoted and subtract in float64.  The exact
   map is [tr], the float-faithful ones [tr32] (arrays) and [tr_scalar]. *)
From Coq Require Import QArith Bool.
From Femto Require Import Base.Num.
Open Scope Q_scope.

Record tcfg := {
  t_sx : Q; t_sy : Q;           (* shift_origin *)
  t_fx : bool; t_fy : bool;     (* flip_x, flip_y *)
  t_c : Q; t_s : Q;             (* cos, sin of the rotation angle *)
  t_k : Q                       (* 1 / neff = n_environment / n_glass *)
}.

Definition flipq (b : bool) (q : Q) : Q := if b then - q else q.

Definition tr_gen (ri ro : Q -> Q) (c : tcfg) (p : Q * Q * Q) : Q * Q * Q :=
  let '(x, y, z) := p in
  let x1 := ro (ri x - ro (t_sx c)) in       (* asarray(float32), then the subtraction *)
  let y1 := ro (ri y - ro (t_sy c)) in
  let x2 := flipq (t_fx c) x1 in
  let y2 := flipq (t_fy c) y1 in
  (t_c c * x2 - t_s c * y2, t_s c * x2 + t_c c * y2, t_k c * ri z).

Definition tr : tcfg -> Q * Q * Q -> Q * Q * Q := tr_gen (fun q => q) (fun q => q).
Definition tr32 : tcfg -> Q * Q * Q -> Q * Q * Q := tr_gen rnd32 rnd32.
Definition tr_scalar : tcfg -> Q * Q * Q -> Q * Q * Q := tr_gen rnd32 (fun q => q).

Definition neutral : tcfg :=
  {| t_sx := 0; t_sy := 0; t_fx := false; t_fy := false; t_c := 1; t_s := 0; t_k := 1 |}.
