(* Model of PGMCompiler.transform_points / flip / t_matrix (without warp; see Geo/Warp.v).

     x = asarray(x, float32); x -= shift_x   (float32 arithmetic, in place)
     flip:  x := -x when flip_x, y := -y when flip_y
     [x y z] . TM   with  TM = (diag(1,1,1/neff) . Rot(theta))^T
        x' = c x - s y ;  y' = s x + c y ;  z' = k z         (float64)

   [r] is the rounding applied by the float32 subtraction: the exact map is [tr_gen (fun q => q)],
   the float-faithful one [tr_gen rnd32]. *)
From Coq Require Import QArith Bool.
From Femto Require Import Base.Num.
Open Scope Q_scope.

Record tcfg := {
  t_sx : Q; t_sy : Q;           (* shift_origin *)
  t_fx : bool; t_fy : bool;     (* flip_x, flip_y *)
  t_c : Q; t_s : Q;             (* cos, sin of the rotation angle *)
  t_k : Q                       (* 1 / neff = n_environment / n_glass *)
}.

Definition flipq (b : bool) (q : Q) : Q := if b then - q else q.

Definition tr_gen (r : Q -> Q) (c : tcfg) (p : Q * Q * Q) : Q * Q * Q :=
  let '(x, y, z) := p in
  let x1 := r (r x - r (t_sx c)) in       (* asarray(float32), then the float32 subtraction *)
  let y1 := r (r y - r (t_sy c)) in
  let x2 := flipq (t_fx c) x1 in
  let y2 := flipq (t_fy c) y1 in
  (t_c c * x2 - t_s c * y2, t_s c * x2 + t_c c * y2, t_k c * r z).

Definition tr : tcfg -> Q * Q * Q -> Q * Q * Q := tr_gen (fun q => q).
Definition tr32 : tcfg -> Q * Q * Q -> Q * Q * Q := tr_gen rnd32.

Definition neutral : tcfg :=
  {| t_sx := 0; t_sy := 0; t_fx := false; t_fy := false; t_c := 1; t_s := 0; t_k := 1 |}.
