(* Executable correspondence checker for C19 (paths of export / load_parameters / close; parameter dicts). *)
From Coq Require Import List Bool Ascii String NArith.
Import ListNotations.
From Femto Require Import Persist.Paths Harness.Util.
Open Scope string_scope.

Definition kv_eqb (a b : string * N) : bool := String.eqb (fst a) (fst b) && N.eqb (snd a) (snd b).
Definition dict_eqb : dict -> dict -> bool := list_eqb kv_eqb.

Inductive case :=
| CExport (filename : string) (written : list string) (roundtrip : bool)
    (* files that appeared; dill.load gives the same parameters and point matrix *)
| CYaml (filename : string) (opened : string)
| CClose (export_dir filename : string) (written : list string)
| CDoc (doc : list (string * dict)) (out : list dict)
| CFilter (sig : list string) (d : dict) (used : dict).

Definition check (c : case) : N :=
  match c with
  | CExport f w rt => code_of [list_eqb String.eqb [export_target f] w; rt]
  | CYaml f o => code_of [String.eqb (yaml_target f) o]
  | CClose e f w => code_of [list_eqb String.eqb [close_target e f] w]
  | CDoc doc out => code_of [list_eqb dict_eqb (load_doc doc) out]
  | CFilter sig d used => code_of [dict_eqb (filter_keys sig d) used]
  end.

Definition failing (cs : list case) : list (N * N) := failing_from check 0 cs.
