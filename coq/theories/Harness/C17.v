(* Executable correspondence checker for C17 (warp compensation). *)
From Coq Require Import List Bool ZArith NArith QArith Qabs.
Import ListNotations.
From Femto Require Import Base.Num Geo.Rigid Geo.Warp Harness.Util.
Open Scope Q_scope.

Record case := {
  k_tc : tcfg;
  k_pts : list (Q * Q * Q);
  k_s : list Q;                      (* femto's interpolant evaluated at the query points (oracle values) *)
  k_on : list (Q * Q * Q);           (* transform_points with warp compensation *)
  k_off : list (Q * Q * Q);          (* ... and without *)
  k_samples : list (Q * Q);          (* (measured z_i, interpolant at the sample point) *)
  k_mid : list (Q * Q * Q)           (* (true surface value, interpolant, allowed deviation) between samples *)
}.

Definition close (tol a b : Q) : bool := Qle_bool (Qabs (a - b)) (tol + (1 # 1000000000000) * Qabs a).

Fixpoint zip3 (a : list (Q * Q * Q)) (b : list Q) : list ((Q * Q * Q) * Q) :=
  match a, b with x :: r, y :: s => (x, y) :: zip3 r s | _, _ => [] end.

Definition check (k : case) : N :=
  let c := k_tc k in
  let model_on := map (fun ps => let '(p, sv) := ps in tr_warp32 (fun _ _ => sv) c p) (zip3 (k_pts k) (k_s k)) in
  let tol := 1 # 10000000000000 in
  code_of [
    Nat.eqb (length (k_pts k)) (length (k_s k));
    (* z' = (z + s(x,y)) * k , x' y' as without compensation *)
    list_eqb (fun a b => let '(ax, ay, az) := a in let '(bx, by_, bz) := b in
                         close tol ax bx && close tol ay by_ && close tol az bz) model_on (k_on k);
    (* x, y are unaffected by the compensation: identical with and without the flag *)
    list_eqb (fun a b => Qeq_bool (fst (fst a)) (fst (fst b)) && Qeq_bool (snd (fst a)) (snd (fst b))) (k_on k) (k_off k);
    (* with compensation disabled z is only rescaled *)
    list_eqb (fun a b => let '(ax, ay, az) := a in let '(bx, by_, bz) := b in
                         close tol ax bx && close tol ay by_ && close tol az bz) (map (tr32 c) (k_pts k)) (k_off k);
    (* the surface reproduces every measured sample *)
    forallb (fun zs => Qle_bool (Qabs (fst zs - snd zs)) ((1 # 100000) * (1 + Qabs (fst zs)))) (k_samples k);
    (* and stays close to the smooth surface the samples were taken from, between the samples *)
    forallb (fun t => let '(f, s, dev) := t in Qle_bool (Qabs (f - s)) dev) (k_mid k)
  ].

Definition failing (cs : list case) : list (N * N) := failing_from check 0 cs.
