(* Executable correspondence checker and well-formedness / shutter / dwell monitors for C03 and C12
   (sessions of public compiler operations, with exceptions at arbitrary positions). *)
From Coq Require Import List Bool ZArith NArith QArith Qabs.
Import ListNotations.
From Femto Require Import Base.Num Ctl.Tok Ctl.Machine Geo.Rigid Pgm.Ops Pgm.Reuse Harness.Util.
Open Scope Z_scope.

Record case := {
  k_cfg : cfg;
  k_ops : list op;
  k_toks : list tok;      (* lexed file written by femto ([] when none) *)
  k_written : bool;
  k_raised : N;           (* 0 = no exception escaped the with-block, else its kind *)
  k_dwell : Q             (* femto's dwell_time after the session *)
}.

Definition tol_of (c : cfg) : Z := pow10 (9 - digits c).

Definition q_close (a b : Q) : bool :=
  Qle_bool (Qabs (a - b)) ((1 # 1000000000) * (1 + Qabs a)).

Definition raised_code (o : outcome) : N := match o with Ok => 0%N | Raised k => k end.

(* open-shutter displacements of a trace: (source, destination, feed) of every move made with the
   shutter open whose destination differs from its source *)
Definition open_segs (ev : list event) : list (pos * pos * Z) :=
  flat_map (fun e => match e with
                     | EMove a d f true _ => [(a, d, f)]
                     | _ => []
                     end) ev.

Definition oz_close (tol : Z) (a b : option Z) : bool :=
  match a, b with Some x, Some y => z_close tol x y | None, None => true | _, _ => false end.
Definition pos_close (tol : Z) (a b : pos) : bool :=
  let '(ax, ay, az) := a in let '(bx, by_, bz) := b in
  oz_close tol ax bx && oz_close tol ay by_ && oz_close tol az bz.
Definition seg_close (tol : Z) (a b : pos * pos * Z) : bool :=
  let '(a1, a2, af) := a in let '(b1, b2, bf) := b in
  pos_close tol a1 b1 && pos_close tol a2 b2 && Z.eqb af bf.

Definition seg_tiny (tol : Z) (a : pos * pos * Z) : bool := let '(a1, a2, _) := a in pos_close tol a1 a2.

Definition all_finite_fixed (toks : list tok) : bool :=
  forallb (fun t => match t with TUnknown => false | _ => true end) toks.

(* monitors on femto's own file, given the model's file for the expected exposure *)
Definition monitors (c : cfg) (model_file : list tok) (k : case) : list bool :=
  match parse (k_toks k) with
  | None => [false; true; true; true; true; true; true]
  | Some tree =>
      let '(m, ev) := run_ext m0 tree in
      let expected := match parse model_file with
                      | Some t => open_segs (snd (run_ext m0 t))
                      | None => []
                      end in
      [ true;
        forallb (N.eqb E_notloaded) (errors ev);              (* declared vars, feeds, counts, tokens ... *)
        negb (mrot m);                                        (* activated rotation is deactivated *)
        negb (msh m);                                         (* shutter closed at the end *)
        (if 4 <=? digits c
         then align (S (length (open_segs ev) + length expected)) (seg_close (tol_of c)) (seg_tiny (tol_of c))
                    (open_segs ev) expected
         else true);                                          (* exposure = the written paths only *)
        q_close (dwell_sum ev) (k_dwell k);                   (* reported dwell = executed dwell (C12) *)
        negb (existsb (N.eqb E_notloaded) (errors ev)) ]      (* call / remove of a program that is not loaded *)
  end.

Definition check_result (r : session_result) (k : case) : N :=
  match r with
  | NotWritten kind =>
      code_of [negb (k_written k); N.eqb kind (k_raised k)]
  | Written file dw o =>
      code_of ([
        k_written k;
        N.eqb (raised_code o) (k_raised k);
        match first_diff (tol_of (k_cfg k)) 0 file (k_toks k) with None => true | Some _ => false end;
        q_close dw (k_dwell k) ] ++
        (if k_written k then monitors (k_cfg k) file k else []))
  end.

Definition check (k : case) : N := check_result (session (k_cfg k) (k_ops k)) k.

(* the second file of a compiler object that has already written one ([k2_first]: the operations of the first session) *)
Record case2 := { k2_first : list op; k2 : case }.
Definition check2 (k : case2) : N :=
  match fst (session_gen c0 (k_cfg (k2 k)) (k2_first k)) with
  | NotWritten _ => 0%N                      (* nothing was flushed: the instruction list of the first session is still there *)
  | Written _ _ _ => check_result (second_file (k_cfg (k2 k)) (k2_first k) (k_ops (k2 k))) (k2 k)
  end.
Definition failing2 (cs : list case2) : list (N * N) := failing_from check2 0 cs.

(* operations given to the object before its `with` block ([k3_pre]); [k3] holds the session's own operations and the file *)
Record case3 := { k3_pre : list op; k3 : case }.
Definition check3 (k : case3) : N := check_result (session_pre (k_cfg (k3 k)) (k3_pre k) (k_ops (k3 k))) (k3 k).
Definition failing3 (cs : list case3) : list (N * N) := failing_from check3 0 cs.

Definition failing (cs : list case) : list (N * N) := failing_from check 0 cs.

Definition diff_at (k : case) : option N :=
  match session (k_cfg k) (k_ops k) with
  | Written file _ _ => first_diff (tol_of (k_cfg k)) 0 file (k_toks k)
  | NotWritten _ => None
  end.
