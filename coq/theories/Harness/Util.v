(* Helpers shared by the executable correspondence checkers. *)
From Coq Require Import List Bool NArith ZArith.
Import ListNotations.

Fixpoint list_eqb {A : Type} (eqb : A -> A -> bool) (l1 l2 : list A) : bool :=
  match l1, l2 with
  | [], [] => true
  | x :: r1, y :: r2 => eqb x y && list_eqb eqb r1 r2
  | _, _ => false
  end.

Definition option_eqb {A : Type} (eqb : A -> A -> bool) (o1 o2 : option A) : bool :=
  match o1, o2 with
  | None, None => true
  | Some a, Some b => eqb a b
  | _, _ => false
  end.

Definition pair_eqb {A B : Type} (ea : A -> A -> bool) (eb : B -> B -> bool) (p q : A * B) : bool :=
  ea (fst p) (fst q) && eb (snd p) (snd q).

(* number the cases from [i]; keep those whose check code is non-zero *)
Fixpoint failing_from {C : Type} (check : C -> N) (i : N) (cs : list C) : list (N * N) :=
  match cs with
  | [] => []
  | c :: r =>
      let code := check c in
      if N.eqb code 0 then failing_from check (N.succ i) r
      else (i, code) :: failing_from check (N.succ i) r
  end.

(* bit k set when the k-th boolean is false *)
Fixpoint code_of_from (k : N) (bs : list bool) : N :=
  match bs with
  | [] => 0%N
  | b :: r => ((if b then 0 else N.shiftl 1 k) + code_of_from (N.succ k) r)%N
  end.
Definition code_of (bs : list bool) : N := code_of_from 0 bs.

(* tolerance-aware alignment of two sequences: matching heads are consumed together, otherwise a head that is
   negligible (a zero-length move up to the printing resolution) may be skipped on either side *)
Fixpoint align {A : Type} (fuel : nat) (matches : A -> A -> bool) (skip : A -> bool) (a b : list A) : bool :=
  match fuel with
  | O => false
  | S k =>
      match a, b with
      | [], [] => true
      | x :: ar, y :: br =>
          if matches x y then align k matches skip ar br
          else if skip x then align k matches skip ar b
          else if skip y then align k matches skip a br
          else false
      | x :: ar, [] => skip x && align k matches skip ar []
      | [], y :: br => skip y && align k matches skip [] br
      end
  end.

Lemma list_eqb_eq {A : Type} (eqb : A -> A -> bool) :
  (forall a b, eqb a b = true <-> a = b) ->
  forall l1 l2, list_eqb eqb l1 l2 = true <-> l1 = l2.
Proof.
  intros H. induction l1 as [|x r IH]; intros [|y r2]; cbn; split; try congruence; intros E.
  - apply andb_true_iff in E as [E1 E2]. apply H in E1. apply IH in E2. congruence.
  - inversion E; subst. apply andb_true_iff. split; [now apply H | now apply IH].
Qed.
