(* Executable correspondence checker for C13. *)
From Coq Require Import List Bool ZArith NArith QArith Qabs Qround.
Import ListNotations.
From Femto Require Import Base.Num Path.Sampling Harness.Util.
Open Scope Q_scope.

Inductive case :=
| CNum (len f rate : Q) (impl : option Z)
    (* num_subdivisions(len, f) with cmd_rate_max = rate; None = ValueError *)
| CArc (len f rate r : Q) (pts : list (Q * Q))
    (* block appended by circ: |delta_angle * r| = len *)
| CX (len f rate : Q) (xs : list Q).
    (* block appended by a sinusoidal / spline segment of x-extent len *)

Definition two40 : Q := 1 # 1099511627776.

(* the exact quotient is so close to an integer that float division may land on either side *)
Definition near_int (x : Q) : bool :=
  let k := inject_Z (round_half_even x) in Qle_bool (Qabs (x - k)) (two40 * (1 + Qabs x)).

Definition num_ok (len f rate : Q) (impl : option Z) : bool :=
  match num_sub len f rate, impl with
  | None, None => true
  | Some n, Some m =>
      if Z.eqb n m then true
      else if near_int (len / (f / rate)) then
        let k := round_half_even (len / (f / rate)) in
        let alt1 := if (k <=? 1)%Z then 3%Z else k in
        let alt2 := if (k + 1 <=? 1)%Z then 3%Z else (k + 1)%Z in
        Z.eqb m alt1 || Z.eqb m alt2
      else false
  | _, _ => false
  end.

Definition sq (q : Q) : Q := q * q.
Definition qmax (a b : Q) : Q := if Qle_bool a b then b else a.
Fixpoint maxabs (l : list Q) : Q := match l with [] => 0 | x :: r => qmax (Qabs x) (maxabs r) end.

Fixpoint chords (l : list (Q * Q)) : list Q :=
  match l with
  | (x1, y1) :: (((x2, y2) :: _) as r) => (sq (x2 - x1) + sq (y2 - y1)) :: chords r
  | _ => []
  end.

Fixpoint diffs (l : list Q) : list Q :=
  match l with
  | x1 :: ((x2 :: _) as r) => (x2 - x1) :: diffs r
  | _ => []
  end.

Definition count_ok (len f rate : Q) (n : nat) : bool :=
  num_ok len f rate (Some (Z.of_nat n)).

Definition check (c : case) : N :=
  match c with
  | CNum len f rate impl => code_of [num_ok len f rate impl]
  | CArc len f rate r pts =>
      let n := length pts in
      let a := len / inject_Z (Z.of_nat n - 1) in             (* arc length between samples *)
      let vmax := qmax (maxabs (map fst pts)) (maxabs (map snd pts)) in
      let tol := a * (1 # 1000000) * (1 + vmax) + (1 # 1000000000000) in
      let lo := sq a * (1 - sq a / (12 * sq r)) - tol in
      let hi := sq a + tol in
      code_of [ count_ok len f rate n;
                forallb (fun ch => Qle_bool lo ch && Qle_bool ch hi) (chords pts) ]
  | CX len f rate xs =>
      let n := length xs in
      let a := len / inject_Z (Z.of_nat n - 1) in
      let tol := (1 # 2000000) * (1 + maxabs xs) in
      code_of [ count_ok len f rate n;
                forallb (fun d => Qle_bool (Qabs (d - a)) tol) (diffs xs) ]
  end.

Definition failing (cs : list case) : list (N * N) := failing_from check 0 cs.
