(* Executable correspondence checker and replay monitor for C01 (PGMCompiler.write). *)
From Coq Require Import List Bool ZArith NArith QArith Qabs.
Import ListNotations.
From Femto Require Import Base.Num Ctl.Tok Ctl.Machine Geo.Rigid Pgm.Ops Harness.Util.
Open Scope Z_scope.

Record case := {
  k_cfg : cfg;
  k_pts : list pt;
  k_bare : bool;          (* true: G.write(pts); G.close()   false: with PGMCompiler(...) as G: G.write(pts) *)
  k_open0 : bool;         (* bare only: G.shutter('ON') first, so that write is entered with the shutter open *)
  k_toks : list tok;      (* lexed file written by femto ([] when none) *)
  k_written : bool;
  k_raised : N;           (* 0 = no exception, else the kind *)
  k_dwell : Q             (* femto's dwell_time *)
}.

Definition tol_of (c : cfg) : Z := pow10 (9 - digits c).

Definition model (k : case) : session_result :=
  if k_bare k then
    let '(st0, e0) := if k_open0 k then do_shutter (k_cfg k) c0 true else (c0, []) in
    let '(st, e, o) := do_write (k_cfg k) st0 (k_pts k) in
    Written (c_pre st ++ flatten (e0 ++ e)) (c_dwell st) o
  else session (k_cfg k) [OWrite (k_pts k)].

Definition q_close (a b : Q) : bool :=
  Qle_bool (Qabs (a - b)) ((1 # 1000000000) * (1 + Qabs a)).

Definition raised_code (o : outcome) : N := match o with Ok => 0%N | Raised k => k end.

(* ---- replay monitor on femto's own file ---- *)

Definition spec_of (c : cfg) (pts : list pt) : list (pos * Z * bool) :=
  map (fun p => let '(x, y, z, f) := fmt_pt c p in ((Some x, Some y, Some z), f, Z.eqb (ps p) 1)) pts.

Definition oz_close (tol : Z) (a b : option Z) : bool :=
  match a, b with Some x, Some y => z_close tol x y | None, None => true | _, _ => false end.

Definition dst_close (tol : Z) (a b : pos * Z * bool) : bool :=
  let '((ax, ay, az), af, asx) := a in
  let '((bx, by_, bz), bf, bs) := b in
  oz_close tol ax bx && oz_close tol ay by_ && oz_close tol az bz && Z.eqb af bf && Bool.eqb asx bs.

(* moves as (source, destination, feed, shutter); a move is negligible when it is shorter than the tolerance *)
Definition mv_close (tol : Z) (a b : pos * pos * Z * bool) : bool :=
  let '(a1, a2, af, asx) := a in let '(b1, b2, bf, bs) := b in
  oz_close tol (fst (fst a2)) (fst (fst b2)) && oz_close tol (snd (fst a2)) (snd (fst b2)) && oz_close tol (snd a2) (snd b2)
  && Z.eqb af bf && Bool.eqb asx bs.
Definition mv_tiny (tol : Z) (a : pos * pos * Z * bool) : bool :=
  let '(a1, a2, _, _) := a in
  oz_close tol (fst (fst a1)) (fst (fst a2)) && oz_close tol (snd (fst a1)) (snd (fst a2)) && oz_close tol (snd a1) (snd a2).

(* the specified moves: from each point to the next *)
Fixpoint spec_moves (cur : pos) (l : list (pos * Z * bool)) : list (pos * pos * Z * bool) :=
  match l with
  | [] => []
  | (d, f, s) :: r => (cur, d, f, s) :: spec_moves d r
  end.

Definition g1_digits_ok (d : Z) (t : tok) : bool :=
  match t with TG1 _ nd _ _ _ _ _ => Z.eqb nd d | _ => true end.

Definition replay_ok (c : cfg) (pts : list pt) (toks : list tok) : bool :=
  match parse toks with
  | None => false
  | Some tree =>
      let '(m, ev) := run m0 tree in
      let nowhere : pos := (None, None, None) in
      match errors ev with
      | [] =>
          align (S (length (moves ev) + length pts)) (mv_close (tol_of c)) (mv_tiny (tol_of c))
                (moves ev) (spec_moves nowhere (spec_of c pts))
          && Bool.eqb (msh m) (last (map (fun p => Z.eqb (ps p) 1) pts) false)
          && forallb (g1_digits_ok (digits c)) toks
      | _ => false
      end
  end.

(* ---- accuracy monitor on femto's own file: every G1 of a bare write is within half a unit of the last printed
   decimal (plus 1e-12 relative for the double-precision rotation) of the exact transformed position of a path
   point, taken in path order ---- *)
Definition near (c : cfg) (printed : Z) (exact : Q) : bool :=
  Qle_bool (Qabs (inject_Z printed / inject_Z SC - exact))
           ((1 # 2) / inject_Z (pow10 (digits c)) + (1 # 1000000000000) * (1 + Qabs exact)).

Definition g1_near (c : cfg) (t : tok) (p : pt) : bool :=
  match t with
  | TG1 _ _ (Some (CNum x)) (Some (CNum y)) (Some (CNum z)) _ _ =>
      let '(ex, ey, ez) := tr32 (tc c) (px p, py p, pz p) in near c x ex && near c y ey && near c z ez
  | _ => false
  end.

Fixpoint acc_ok (fuel : nat) (c : cfg) (g1s : list tok) (pts : list pt) : bool :=
  match fuel with
  | O => false
  | S k =>
      match g1s, pts with
      | [], _ => true
      | _ :: _, [] => false
      | t :: r, p :: ps => if g1_near c t p then acc_ok k c r ps else acc_ok k c g1s ps
      end
  end.

Definition is_g1 (t : tok) : bool := match t with TG1 _ _ _ _ _ _ _ => true | _ => false end.

Definition accuracy_ok (c : cfg) (pts : list pt) (toks : list tok) : bool :=
  let g := filter is_g1 toks in acc_ok (S (length g + length pts)) c g pts.

Definition check (k : case) : N :=
  match model k with
  | NotWritten kind =>
      code_of [negb (k_written k); N.eqb kind (k_raised k)]
  | Written file dw o =>
      code_of [
        k_written k;
        N.eqb (raised_code o) (k_raised k);
        match first_diff (tol_of (k_cfg k)) 0 file (k_toks k) with None => true | Some _ => false end;
        q_close dw (k_dwell k);
        (* monitor: only for bare writes that did not raise, with 0/1 shutter columns *)
        (* (with fewer than 4 decimals distinct points may print alike: the replay alignment is then ambiguous
           and only the token-level comparison above applies) *)
        if k_bare k && N.eqb (k_raised k) 0 && (4 <=? digits (k_cfg k)) && forallb (fun p => Z.eqb (ps p) 0 || Z.eqb (ps p) 1) (k_pts k)
        then replay_ok (k_cfg k) (k_pts k) (k_toks k) else true;
        if k_bare k && N.eqb (k_raised k) 0 && forallb (fun p => Z.eqb (ps p) 0 || Z.eqb (ps p) 1) (k_pts k)
        then accuracy_ok (k_cfg k) (k_pts k) (k_toks k) else true
      ]
  end.

Definition failing (cs : list case) : list (N * N) := failing_from check 0 cs.

(* position of the first token difference, for diagnostics *)
Definition diff_at (k : case) : option N :=
  match model k with
  | Written file _ _ => first_diff (tol_of (k_cfg k)) 0 file (k_toks k)
  | NotWritten _ => None
  end.
