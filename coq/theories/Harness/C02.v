(* Executable correspondence checker for C02 (transform_points and its call sites). *)
From Coq Require Import List Bool ZArith NArith QArith Qabs.
Import ListNotations.
From Femto Require Import Base.Num Geo.Rigid Harness.Util.
Open Scope Q_scope.

Record case := {
  k_tc : tcfg;                       (* c, s from the documented formula (harness: math.cos/sin of radians(angle mod 360)),
                                        k = n_environment / n_glass exactly *)
  k_pts : list (Q * Q * Q);          (* inputs (float32 or float64 values) *)
  k_out : list (Q * Q * Q);          (* femto's transformed points *)
  k_scalar : bool;                   (* 0-d inputs: the subtraction is carried out in float64 *)
  k_tol : Q                          (* absolute tolerance of the call site (float64 noise, or printed digits) *)
}.

(* float64 noise of the rotation: three roundings, each half an ulp of a term no larger than the operands - so the bound is
   relative to the size of the operands (|x| + |y| + |shift|), not to the size of the result (x' = c x - s y can cancel) *)
Definition close (tol scale a b : Q) : bool :=
  Qle_bool (Qabs (a - b)) (tol + (1 # 1000000000000) * Qabs a + (4 # 10000000000000000) * scale).

Definition scale_of (c : tcfg) (p : Q * Q * Q) : Q :=
  let '(x, y, z) := p in Qabs x + Qabs y + Qabs z + Qabs (t_sx c) + Qabs (t_sy c).

Definition p_close (tol scale : Q) (a b : Q * Q * Q) : bool :=
  let '(ax, ay, az) := a in let '(bx, by_, bz) := b in close tol scale ax bx && close tol scale ay by_ && close tol scale az bz.

Fixpoint all_close (tol : Q) (f : Q * Q * Q -> Q * Q * Q) (c : tcfg) (pts outs : list (Q * Q * Q)) : bool :=
  match pts, outs with
  | [], [] => true
  | p :: pr, o :: or => p_close tol (scale_of c p) (f p) o && all_close tol f c pr or
  | _, _ => false
  end.

Definition check (k : case) : N :=
  code_of [ all_close (k_tol k) ((if k_scalar k then tr_scalar else tr32) (k_tc k)) (k_tc k) (k_pts k) (k_out k) ].

Definition failing (cs : list case) : list (N * N) := failing_from check 0 cs.
