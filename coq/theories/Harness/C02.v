(* Executable correspondence checker for C02 (transform_points and its call sites). *)
From Coq Require Import List Bool ZArith NArith QArith Qabs.
Import ListNotations.
From Femto Require Import Base.Num Geo.Rigid Harness.Util.
Open Scope Q_scope.

Record case := {
  k_tc : tcfg;                       (* c, s from the documented formula (harness: math.cos/sin of radians(angle mod 360)),
                                        k = n_environment / n_glass exactly *)
  k_pts : list (Q * Q * Q);          (* inputs (float32 or float64 values) *)
  k_out : list (Q * Q * Q);          (* femto's transformed points *)
  k_scalar : bool;                   (* 0-d inputs: the subtraction is carried out in float64 *)
  k_tol : Q                          (* absolute tolerance of the call site (float64 noise, or printed digits) *)
}.

Definition close (tol a b : Q) : bool := Qle_bool (Qabs (a - b)) (tol + (1 # 1000000000000) * Qabs a).

Definition p_close (tol : Q) (a b : Q * Q * Q) : bool :=
  let '(ax, ay, az) := a in let '(bx, by_, bz) := b in close tol ax bx && close tol ay by_ && close tol az bz.

Definition check (k : case) : N :=
  code_of [ list_eqb (p_close (k_tol k)) (map ((if k_scalar k then tr_scalar else tr32) (k_tc k)) (k_pts k)) (k_out k) ].

Definition failing (cs : list case) : list (N * N) := failing_from check 0 cs.
