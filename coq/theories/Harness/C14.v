(* Executable correspondence checker and stroke monitor for C14 (Marker primitives). *)
From Coq Require Import List Bool ZArith NArith QArith Qabs.
Import ListNotations.
From Femto Require Import Base.Dedup Path.Stroke Path.Laser Path.Marker Harness.Util.
Open Scope Q_scope.

Inductive call :=
| KCross (ctr : p3) (lx_ ly_ : Q)
| KRuler (ticks : list Q) (lx_ lx2 x_init : Q)
| KMeander (p0 : p3) (pf : Q * Q) (width delta : Q) (alongx : bool)
| KAblation (vs : list p3) (shift : option Q)
| KBox (corner : p3) (w h : Q).

Record case := {
  k_cfg : mcfg;
  k_call : call;
  k_raw : list lpt;       (* femto's recorded trajectory *)
  k_pts : list lpt        (* femto's points matrix *)
}.

Definition model (c : mcfg) (k : call) : list lpt :=
  match k with
  | KCross ctr a b => cross c ctr a b
  | KRuler t a b x => ruler c t a b x
  | KMeander p0 pf w d o => meander c p0 pf w d o
  | KAblation vs s => ablation c vs s
  | KBox p w h => box c p w h
  end.

Definition close (a b : Q) : bool :=
  Qle_bool (Qabs (a - b)) ((1 # 100000) * (1 + Qabs a)).

Definition lpt_close (a b : lpt) : bool :=
  close (lx a) (lx b) && close (ly a) (ly b) && close (lz a) (lz b) && close (lf a) (lf b)
  && Bool.eqb (ls a) (ls b).

Definition p3_eqb (a b : p3) : bool :=
  let '(a1, a2, a3) := a in let '(b1, b2, b3) := b in Qeq_bool a1 b1 && Qeq_bool a2 b2 && Qeq_bool a3 b3.
Definition p3_close (a b : p3) : bool :=
  let '(a1, a2, a3) := a in let '(b1, b2, b3) := b in close a1 b1 && close a2 b2 && close a3 b3.

(* merge consecutive vertices that coincide within the tolerance *)
Definition strokes_c (l : list lpt) : list (list p3) := strokes p3_close (tag3 l).

Definition check (k : case) : N :=
  let m := model (k_cfg k) (k_call k) in
  code_of [
    list_eqb lpt_close m (k_raw k);
    list_eqb (list_eqb p3_close) (strokes_c m) (strokes_c (k_raw k));
    list_eqb (list_eqb p3_close) (strokes_c m) (strokes_c (k_pts k));
    match k_pts k with [] => true | p :: r => negb (ls (last r p)) end      (* the figure ends closed *)
  ].

Definition failing (cs : list case) : list (N * N) := failing_from check 0 cs.
