(* Executable correspondence checker and stroke monitor for C15 (RasterImage.image_to_path). *)
From Coq Require Import List Bool ZArith NArith QArith Qabs.
Import ListNotations.
From Femto Require Import Base.Dedup Base.Runs Path.Stroke Path.Raster Harness.Util.
Open Scope Q_scope.

Record case := {
  k_img : list (list bool);      (* true = black *)
  k_w : nat; k_h : nat;
  k_px : Q; k_z : Q; k_speed : Q; k_closed : Q;
  k_raw : list rpt;              (* femto's recorded trajectory (_x,_y,_z,_f,_s) *)
  k_pts : list rpt               (* femto's points (after unique_filter) *)
}.

Definition close (a b : Q) : bool :=
  Qle_bool (Qabs (a - b)) ((1 # 4000000) * Qabs a + (1 # 1000000000000)).

Definition rpt_close (a b : rpt) : bool :=
  close (rx a) (rx b) && close (ry a) (ry b) && close (rz a) (rz b) && close (rf a) (rf b)
  && Bool.eqb (rs a) (rs b).

Definition qq_eqb (a b : Q * Q) : bool := Qeq_bool (fst a) (fst b) && Qeq_bool (snd a) (snd b).
Definition qq_close (a b : Q * Q) : bool := close (fst a) (fst b) && close (snd a) (snd b).

Definition check (k : case) : N :=
  let model := raster (k_px k) (k_z k) (k_speed k) (k_closed k) (k_w k) (k_h k) (k_img k) in
  let spec := map (dedup qq_eqb)
                  (spec_strokes (grid (inject_Z (Z.of_nat (k_w k)) * k_px k) (k_w k)) (k_img k)
                                (grid (inject_Z (Z.of_nat (k_h k)) * k_px k) (k_h k))) in
  code_of [
    list_eqb rpt_close model (k_raw k);                                         (* trajectory, point by point *)
    list_eqb (list_eqb qq_close) spec (strokes qq_eqb (tagged (k_raw k)));      (* strokes of the raw trajectory *)
    list_eqb (list_eqb qq_close) spec (strokes qq_eqb (tagged (k_pts k)));      (* strokes of the reported matrix *)
    match k_pts k with [] => true | p :: r => negb (rs p) && negb (rs (last r p)) end   (* starts and ends closed *)
  ].

Definition failing (cs : list case) : list (N * N) := failing_from check 0 cs.
