(* Executable correspondence checker for C16 (Device / writers containers). *)
From Coq Require Import List Bool NArith.
Import ListNotations.
From Femto Require Import Writers.Device Harness.Util.

Fixpoint item_eqb (a b : item) : bool :=
  match a, b with
  | Obj k i, Obj j m => kind_eqb k j && N.eqb i m
  | Grp l1, Grp l2 =>
      (fix le (x y : list item) : bool :=
         match x, y with
         | [], [] => true
         | p :: r, q :: s => item_eqb p q && le r s
         | _, _ => false
         end) l1 l2
  | _, _ => false
  end.

Definition exn_code (x : option exn) : N :=
  match x with None => 0 | Some TypeErr => 1 | Some ValueErr => 2 | Some IndexErr => 3 end%N.

Inductive case :=
| CHist (h : list dop)
        (excs : list N)                          (* femto: exception class per call (0 = none) *)
        (fin : list (list item))                 (* femto: obj_list of the WG, NASU, TC, UTC, MK writers at the end *)
        (args_after : list item)                 (* femto: the argument of each call, inspected after the call *)
| CInit (arg : item) (ok : bool) (objs : list item).   (* TrenchWriter(arg): constructed?, its obj_list *)

Definition arg_of (o : dop) : item :=
  match o with DAppend it | DExtend it | WAppend _ it | WExtend _ it => it end.

Definition check (c : case) : N :=
  match c with
  | CHist h excs fin args_after =>
      let '(d, xs) := run_hist dev0 h in
      code_of [
        list_eqb N.eqb (map exn_code xs) excs;
        list_eqb (list_eqb item_eqb) [d_wg d; d_nwg d; d_tc d; d_utc d; d_mk d] fin;
        list_eqb item_eqb (map arg_of h) args_after ]
  | CInit arg ok objs =>
      code_of [ ok; list_eqb item_eqb (tw_init arg) objs ]
  end.

Definition failing (cs : list case) : list (N * N) := failing_from check 0 cs.
