(* Executable checker for C05: numbering and removal of trench blocks (list logic) + shapely measurements. *)
From Coq Require Import List Bool ZArith NArith QArith.
Import ListNotations.
From Femto Require Import Trench.Dig Harness.Util.

Record case := {
  k_blocks : list (Q * nat);          (* raw blocks as GEOS returns them: (lowest y, id) *)
  k_remove : list Z;
  k_kept : option (list nat);         (* ids of femto's trench list, in order; None = IndexError *)
  k_clear_ok : bool;                  (* every block keeps bridge/2 + waist (-1%) from every waveguide *)
  k_inside_ok : bool;                 (* inside the rectangle grown by the corner radius *)
  k_disjoint_ok : bool;               (* no two blocks overlap *)
  k_cover_ok : bool                   (* every part of the rectangle farther than adj_bridge (+1%) from all waveguides is in a block *)
}.

Definition check (k : case) : N :=
  code_of [
    option_eqb (list_eqb Nat.eqb) (match dig fst (k_blocks k) (k_remove k) with Some l => Some (map snd l) | None => None end) (k_kept k);
    k_clear_ok k; k_inside_ok k; k_disjoint_ok k; k_cover_ok k ].

Definition failing (cs : list case) : list (N * N) := failing_from check 0 cs.
