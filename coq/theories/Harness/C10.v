(* Executable checker for C10: after every builder call the stored trajectory satisfies the invariant, a call
   that raised left the path untouched, and no printed number is non-finite. *)
From Coq Require Import List Bool ZArith NArith QArith.
Import ListNotations.
From Femto Require Import Base.Num Path.Finite Harness.Util.

Record case := {
  k_stored : list xpt;         (* the trajectory after the call *)
  k_raised : bool;
  k_len_before : nat;          (* number of stored points before the call *)
  k_tokens_ok : bool           (* lexer: every printed number of the compiled file is a fixed-point literal *)
}.

Definition check (k : case) : N :=
  code_of [ forallb ok_pt (k_stored k);
            if k_raised k then Nat.eqb (length (k_stored k)) (k_len_before k) else true;
            k_tokens_ok k ].

Definition failing (cs : list case) : list (N * N) := failing_from check 0 cs.
