(* Executable checker for the fabrication-time clause of C12. *)
From Coq Require Import List Bool ZArith NArith QArith Qabs.
Import ListNotations.
From Femto Require Import Base.Num Ctl.Tok Ctl.Machine Geo.Rigid Pgm.Ops Harness.Util.
Open Scope Z_scope.

Record tcase := {
  t_raw : list pt;       (* recorded trajectory (with repeats) *)
  t_scan : Z;
  t_time : Q;            (* LaserPath.fabrication_time *)
  t_toks : list tok;     (* one compiled pass of LaserPath.points *)
  t_closed : bool        (* the path ends where it begins *)
}.

(* rational square root, 12 decimals *)
Definition sqrt_q (q : Q) : Q :=
  inject_Z (Z.sqrt (Qnum q * 10 ^ 24 / Zpos (Qden q))) / inject_Z (10 ^ 12).

Definition sq (q : Q) : Q := q * q.

(* sum over consecutive points of  |p_i - p_(i-1)| / f_i  *)
Fixpoint travel (prev : pt) (l : list pt) : Q :=
  match l with
  | [] => 0
  | p :: r =>
      Qred (sqrt_q (sq (px p - px prev) + sq (py p - py prev) + sq (pz p - pz prev)) / pf p + travel p r)
  end.

Fixpoint tile {A : Type} (n : nat) (l : list A) : list A :=
  match n with O => [] | S k => l ++ tile k l end.

Definition fab_time (raw : list pt) (scan : Z) : Q :=
  match tile (Z.to_nat scan) raw with
  | [] => 0
  | p :: r => travel p r
  end.

Definition oz (o : option Z) : Z := match o with Some z => z | None => 0 end.
Definition known (p : pos) : bool :=
  let '(x, y, z) := p in
  match x, y, z with Some _, Some _, Some _ => true | _, _, _ => false end.

(* travel time of a trace: distance over programmed feed, summed over the moves with a known source *)
Definition trace_time (ev : list event) : Q :=
  fold_right (fun e acc =>
    match e with
    | EMove a d f _ _ =>
        if known a && known d then
          let '(ax, ay, az) := a in let '(dx, dy, dz) := d in
          let dd := (oz dx - oz ax) * (oz dx - oz ax) + (oz dy - oz ay) * (oz dy - oz ay)
                    + (oz dz - oz az) * (oz dz - oz az) in
          Qred (inject_Z (Z.sqrt (dd * 10 ^ 12)) / inject_Z (10 ^ 6) / inject_Z f + acc)
        else acc
    | _ => acc
    end) 0%Q ev.

Definition t_close (a b : Q) : bool :=
  Qle_bool (Qabs (a - b)) ((2 # 10000) * Qabs a + (1 # 1000000)).

Definition check (k : tcase) : N :=
  code_of [
    t_close (t_time k) (fab_time (t_raw k) (t_scan k));
    if negb (t_closed k) then true else
    match parse (t_toks k) with
    | Some tree => t_close (t_time k) (inject_Z (t_scan k) * trace_time (snd (run m0 tree)))
    | None => false
    end ].

Definition failing (cs : list tcase) : list (N * N) := failing_from check 0 cs.
