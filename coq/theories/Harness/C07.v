(* Executable correspondence checker for C07 (Trench.toolpath) with recorded GEOS answers. *)
From Coq Require Import List Bool Arith NArith.
Import ListNotations.
From Femto Require Import Trench.Toolpath Harness.Util.

Fixpoint alookup {V : Type} (d : V) (k : nat) (l : list (nat * V)) : V :=
  match l with [] => d | (k', v) :: r => if Nat.eqb k k' then v else alookup d k r end.

Record case := {
  k_n : nat;                                   (* num_insets *)
  k_empty : list nat;                          (* ids of empty polygons *)
  k_inset : list (nat * list nat);             (* recorded buffer_polygon answers: parent id -> children ids *)
  k_hatch : list (nat * nat);                  (* recorded zigzag answers: polygon id -> number of line pieces *)
  k_yields : list (bool * nat);                (* femto's yields: (is a contour, polygon id) *)
  k_raised : bool;
  k_wall_ok : bool;                            (* border is the exterior ring of the block *)
  k_inside_ok : bool;                          (* shapely: every polyline lies in the block (grown by 1e-5) *)
  k_cover_ok : bool                            (* shapely: no part of the block is farther than delta (+2%) from the path *)
}.

Definition model (k : case) : list (yld (poly := nat)) * outcome :=
  toolpath (fun p => existsb (Nat.eqb p) (k_empty k)) (fun p => alookup [] p (k_inset k)) (fun p => alookup 0 p (k_hatch k))
           (k_n k) 0.

Definition yld_code (y : yld (poly := nat)) : bool * nat := match y with YContour p => (true, p) | YHatch p _ => (false, p) end.

Definition check (k : case) : N :=
  let '(ys, o) := model k in
  code_of [ negb (k_raised k);
            list_eqb (pair_eqb Bool.eqb Nat.eqb) (map yld_code ys) (k_yields k);
            k_wall_ok k; k_inside_ok k; k_cover_ok k ].

Definition failing (cs : list case) : list (N * N) := failing_from check 0 cs.
