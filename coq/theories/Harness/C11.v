(* Executable correspondence checker for C11 (unique_filter / LaserPath views / split_mask). *)
From Coq Require Import List Bool NArith.
Import ListNotations.
From Femto Require Import Base.Dedup Base.Runs Harness.Util.

(* a float32 cell: (equality code, bit pattern).  The harness gives +0.0 and -0.0 the code 0, every other
   non-NaN value the code 1 + its bit pattern, and every NaN occurrence a fresh code (NaN <> NaN). *)
Definition cell := (N * N)%type.
Definition row := list cell.

(* outputs are compared bit for bit (NaN payloads canonicalised by the harness) *)
Definition cell_eqb (a b : cell) : bool := N.eqb (snd a) (snd b).
Definition row_eqb : row -> row -> bool := list_eqb cell_eqb.
Definition code_eqb (r1 r2 : row) : bool := list_eqb N.eqb (map fst r1) (map fst r2).

(* unique_filter over full rows: the mask is computed on the equality codes, the rows are selected whole *)
Definition uf (rows : list row) : list row := select (keep_mask code_eqb rows) rows.

Definition col (k : nat) (rs : list row) : list cell := map (fun r => nth k r (0, 0)%N) rs.
Definition last_opt (l : list cell) : option cell :=
  match l with [] => None | _ => Some (last l (0, 0)%N) end.

Definition drop_f (r : row) : row :=
  match r with [x; y; z; _; s] => [x; y; z; s] | _ => r end.
Definition is_open (r : row) : bool := negb (N.eqb (fst (nth 3 r (0, 0)%N)) 0).
Definition xyz (r : row) : row := firstn 3 r.

Definition path3d (rows : list row) : list row :=
  map xyz (filter is_open (uf (map drop_f rows))).

Record dcase := {
  d_rows : list row;              (* recorded trajectory, one row [x;y;z;f;s] per point *)
  o_points : list row;            (* LaserPath.points, transposed back to rows *)
  o_x : list cell; o_y : list cell; o_z : list cell;
  o_last : list (option cell);    (* lastx, lasty, lastz *)
  o_path : list row               (* path3d as rows [x;y;z] *)
}.

Record mcase := {
  m_arr : list N;
  m_mask : list bool;
  o_split : option (list (list N))   (* None = IndexError *)
}.

Inductive case := CD (d : dcase) | CM (m : mcase).

Definition check_d (d : dcase) : N :=
  let p := uf (d_rows d) in
  code_of [
    list_eqb row_eqb p (o_points d);
    list_eqb cell_eqb (col 0 p) (o_x d);
    list_eqb cell_eqb (col 1 p) (o_y d);
    list_eqb cell_eqb (col 2 p) (o_z d);
    list_eqb (option_eqb cell_eqb)
      [last_opt (col 0 p); last_opt (col 1 p); last_opt (col 2 p)] (o_last d);
    list_eqb row_eqb (path3d (d_rows d)) (o_path d)
  ].

Definition check_m (m : mcase) : N :=
  code_of [
    option_eqb (list_eqb (list_eqb N.eqb)) (split_mask (m_arr m) (m_mask m)) (o_split m)
  ].

Definition check (c : case) : N :=
  match c with CD d => check_d d | CM m => check_m m end.

Definition failing (cs : list case) : list (N * N) := failing_from check 0 cs.
