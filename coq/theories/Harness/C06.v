(* Executable correspondence checker and tree monitors for C06 (trench program trees). *)
From Coq Require Import List Bool ZArith NArith QArith Qabs.
Import ListNotations.
From Femto Require Import Base.Num Ctl.Tok Ctl.Machine Ctl.Static Geo.Rigid Pgm.Ops Trench.TreeProg Harness.Util.
Open Scope Z_scope.

Record colcase := {
  cc_d : cold;
  cc_farcall : list tok;                                  (* lexed FARCALLnnn.pgm *)
  cc_arrays : list (list (Q * Q * bool) * Q * list tok)   (* per wall / floor / bed file: points+G9 flags, speed, lexed file *)
}.

Record case := {
  k_cfg : cfg;                    (* configuration of the column sessions *)
  k_main_cfg : cfg;               (* configuration of MAIN (both angles disabled) *)
  k_cols : list colcase;
  k_main_files : list (fname * fname);
  k_main : list tok;
  k_tree : list (N * list tok);   (* exported tree: interned LOAD path -> lexed file (absent when the file does not exist) *)
  k_dz : Q; k_zlo : Q; k_zhi : Q; (* printed z step, lowest and highest wall depth that must be reached (machine units) *)
  k_slack : Q                     (* accumulated rounding of the printed z increments: (n_repeat + 2) * 1e-6 *)
}.

Definition tol_of (c : cfg) : Z := pow10 (9 - digits c).

Definition file_of (r : session_result) : list tok := match r with Written f _ _ => f | NotWritten _ => [] end.

Definition toks_eq (tol : Z) (a b : list tok) : bool := match first_diff tol 0 a b with None => true | Some _ => false end.

(* ---- monitors on femto's own tree ---- *)

Definition parse_tree (t : list (N * list tok)) : option files :=
  fold_right (fun pf acc => match acc, parse (snd pf) with
                            | Some l, Some s => Some ((fst pf, s) :: l)
                            | _, _ => None
                            end) (Some []) t.

Definition xy (p : pos) : option Z * option Z := (fst (fst p), snd (fst p)).
Definition oz_eqb (a b : option Z) : bool := option_eqb Z.eqb a b.
Definition oz_close (tol : Z) (a b : option Z) : bool :=
  match a, b with Some x, Some y => z_close tol x y | None, None => true | _, _ => false end.

Definition xy_close (tol : Z) (a d : pos) : bool :=
  match xy a, xy d with
  | (Some ax, Some ay), (Some dx, Some dy) => z_close tol ax dx && z_close tol ay dy
  | _, _ => false
  end.

(* walk the trace with the depth of inlined calls (MAIN = 0, FARCALLnnn = 1, wall / floor / bed chains = 2):
   outside the chains an open move must be a pure z step; inside a chain the entry move (from the positioning target
   to the first chain point) must have zero length when the shutter is open, and nothing but moves happens *)
Fixpoint walk (tol : Z) (depth : nat) (entry : bool) (ev : list event) : bool * bool * bool :=
  match ev with
  | [] => (true, true, true)
  | ECall _ :: r => let '(a, b, c) := walk tol (S depth) true r in (a, b, c && Nat.ltb depth 2)
  | ERet :: r => walk tol (pred depth) false r
  | EMove p q _ s _ :: r =>
      let '(a, b, c) := walk tol depth false r in
      if s then
        if Nat.leb 2 depth then (a, b && (if entry then xy_close tol p q else true), c)
        else (a && xy_close tol p q, b, c)
      else (a, b, c)
  | EDwell _ _ :: r => let '(a, b, c) := walk tol depth entry r in (a, b, c && Nat.ltb depth 2)
  | EErr _ :: r => walk tol depth entry r
  end.

(* z levels at which an open xy displacement happens *)
Definition open_levels (ev : list event) : list Z :=
  flat_map (fun e => match e with
                     | EMove a d _ true _ =>
                         if oz_eqb (fst (fst a)) (fst (fst d)) && oz_eqb (snd (fst a)) (snd (fst d)) then []
                         else match snd d with Some z => [z] | None => [] end
                     | _ => []
                     end) ev.

Fixpoint insert_z (x : Z) (l : list Z) : list Z :=
  match l with [] => [x] | y :: r => if x =? y then l else if x <? y then x :: l else y :: insert_z x r end.
Definition sort_z (l : list Z) : list Z := fold_right insert_z [] l.
Fixpoint gaps_ok (step : Z) (l : list Z) : bool :=
  match l with a :: ((b :: _) as r) => (b - a <=? step) && gaps_ok step r | _ => true end.

Definition nano (q : Q) : Z := round_half_even (q * inject_Z SC).

Definition monitors (k : case) : list bool :=
  match parse_tree (k_tree k), parse (k_main k) with
  | Some fs, Some main =>
      let '(m, ev) := run_fuel 4 fs m0 main in
      (* positions are float32 before they are printed: the positioning target (0-d, subtracted in float64) and the first
         chain point (array, subtracted in float32) agree to float32 resolution, 2e-6 mm *)
      let tol := Z.max (tol_of (k_cfg k)) 2000 in
      let levels := sort_z (open_levels ev) in
      let has_blocks := existsb (fun c => match c_blocks (cc_d c) with [] => false | _ => true end) (k_cols k) in
      [ true;
        match errors ev with [] => true | _ => false end;                 (* every call finds a loaded, existing program *)
        match mloaded m with [] => true | _ => false end;                 (* everything loaded is removed *)
        negb (msh m);                                                     (* shutter closed at the end *)
        fst (fst (walk tol 0 false ev));     (* outside the chains the shutter is open only during pure z steps *)
        snd (fst (walk tol 0 false ev));     (* a chain is entered at its first point (no exposed approach move) *)
        snd (walk tol 0 false ev);           (* chains hold nothing but moves *)
        if has_blocks
        (* the positioning target is printed with the configured decimals, the $ZCURR bookkeeping with 6: one unit of the
           last printed decimal of slack on top of the accumulated rounding of the increments *)
        then gaps_ok (nano (k_dz k) + 2 * 1000 + tol_of (k_cfg k)) levels
             && match levels with
                | [] => false
                | lo :: _ => (lo <=? nano (k_zlo k) + nano (k_slack k) + tol_of (k_cfg k))
                             && (nano (k_zhi k) - nano (k_dz k) - nano (k_slack k) - tol_of (k_cfg k) <=? last levels lo)
                end
        else true ]
  | _, _ => [false; true; true; true; true; true; true; true]
  end.

(* the verified static checker (Ctl/Static.v, chk_sound) on femto's own calling files: accepted means that, from every
   machine state with the shutter closed and for every behaviour of the called sub-programs that leaves the machine as
   it found it, the file runs without controller error, exposes only during calls and pure z steps, and ends with the
   shutter closed and nothing of its own left loaded *)
Definition a0 : ast := {| a_sh := false; a_feed := false; a_loaded := []; a_decl := []; a_set := [] |}.
Definition static_ok (toks : list tok) : bool :=
  match parse toks with
  | Some tree => match chk false a0 tree with
                 | Some a => negb (a_sh a) && match a_loaded a with [] => true | _ => false end
                 | None => false
                 end
  | None => false
  end.

Definition check (k : case) : N :=
  let c := k_cfg k in
  code_of ([
    forallb (fun cc => toks_eq (tol_of c) (file_of (session c (farcall_ops c (cc_d cc)))) (cc_farcall cc)) (k_cols k);
    forallb (fun cc => forallb (fun a => let '(pts, speed, toks) := a in toks_eq (tol_of c) (array2d c speed pts) toks)
                               (cc_arrays cc)) (k_cols k);
    toks_eq (tol_of c) (file_of (session (k_main_cfg k) (main_ops (k_main_cfg k) (k_main_files k)))) (k_main k)
  ] ++ monitors k ++ [
    (* the number of wall passes is ceil((h_box - z_off) / deltaz) of the column's current parameters (up to 1e-9 at an
       exact quotient, where the float division may land on either side) *)
    forallb (fun cc => let d := cc_d cc in
                       let q := ((c_hbox d - c_zoff d) * t_k (tc c) / c_dz d)%Q in
                       Qle_bool (q - (1 # 1000000000))%Q (inject_Z (c_nrepeat d))
                       && Qle_bool (inject_Z (c_nrepeat d)) (q + 1 + (1 # 1000000000))%Q) (k_cols k);
    forallb (fun cc => static_ok (cc_farcall cc)) (k_cols k) && static_ok (k_main k)
  ]).

Definition failing (cs : list case) : list (N * N) := failing_from check 0 cs.
