(* Executable correspondence checker for C08: the writer files are the session over the modelled op lists;
   the monitors are those of Harness/C03 plus a count of open-shutter segments. *)
From Coq Require Import List Bool ZArith NArith QArith.
Import ListNotations.
From Femto Require Import Base.Num Ctl.Tok Ctl.Machine Pgm.Ops Writers.Writers Harness.Util Harness.C03.

Inductive job :=
| JWg (groups : list (list wobj))
| JNasu (ns : list nobj)
| JMk (ms : list wobj).

Record case := {
  k_cfg : cfg;
  k_job : job;
  k_toks : list tok;
  k_written : bool;
  k_raised : N;
  k_order : list (list Z)        (* femto's adj_scan_order of each Nasu waveguide, in halves *)
}.

Definition ops_of (j : job) : list op :=
  match j with JWg g => wg_ops g | JNasu n => nasu_ops n | JMk m => mk_ops m end.

Definition dwell_of (c : cfg) (j : job) : Q :=
  match session c (ops_of j) with Written _ d _ => d | NotWritten _ => 0%Q end.

Definition orders_ok (k : case) : bool :=
  match k_job k with
  | JNasu ns => list_eqb (list_eqb Z.eqb) (map (fun n => nasu_order (n_adj n)) ns) (k_order k)
  | _ => true
  end.

Definition check (k : case) : N :=
  let inner := C03.check {| C03.k_cfg := k_cfg k; C03.k_ops := ops_of (k_job k); C03.k_toks := k_toks k;
                            C03.k_written := k_written k; C03.k_raised := k_raised k;
                            C03.k_dwell := dwell_of (k_cfg k) (k_job k) |} in
  (inner + (if orders_ok k then 0 else 4096))%N.

Definition failing (cs : list case) : list (N * N) := failing_from check 0 cs.
