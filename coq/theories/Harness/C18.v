(* Executable correspondence checker for C18 (fabrication spreadsheet). *)
From Coq Require Import List Bool Ascii String ZArith NArith QArith Qabs.
Import ListNotations.
From Femto Require Import Sheet.Table Harness.Util.

Record rawstruct := { r_wg : bool; r_xs : list Q; r_ys : list Q; r_attr : list aval }.   (* open-shutter path, attributes *)

Record case := {
  k_suppr : bool; k_static : bool;
  k_cols : list col;
  k_yin : option nat; k_yout : option nat;         (* positions of the yin / yout columns *)
  k_structs : list rawstruct;                      (* in the order the device holds them: waveguides, then markers *)
  k_out : sheet                                    (* read back from the .xlsx *)
}.

Fixpoint set_nth {A : Type} (n : nat) (v : A) (l : list A) : list A :=
  match n, l with
  | O, _ :: r => v :: r
  | S k, x :: r => x :: set_nth k v r
  | _, [] => []
  end.

Definition to_strct (yi yo : option nat) (r : rawstruct) : strct :=
  let '(a, b) := coords (r_wg r) (r_xs r) (r_ys r) in
  let at1 := match yi with Some n => set_nth n (ANum a) (r_attr r) | None => r_attr r end in
  let at2 := match yo with Some n => set_nth n (ANum b) at1 | None => at1 end in
  {| s_wg := r_wg r; s_key := match r_ys r with y :: _ => y | [] => 0%Q end; s_attr := at2 |}.

(* xlsxwriter stores 16 significant digits; marker centres are float32 sums: 1e-6 relative *)
Definition q_close (x y : Q) : bool := Qle_bool (Qabs (x - y)) ((1 # 1000000) * (Qabs x + Qabs y)).

Definition cell_eqb (a b : cell) : bool :=
  match a, b with
  | CNum x, CNum y => q_close x y
  | CText s, CText t => String.eqb s t
  | CBlank, CBlank => true
  | _, _ => false
  end.

Definition pre_eqb (a b : pre) : bool :=
  match a, b with
  | PValue (VNum x), PValue (VNum y) => q_close x y
  | PValue v, PValue w => tv_eqb v w
  | PVariable, PVariable | PRemoved, PRemoved | PUntouched, PUntouched => true
  | _, _ => false
  end.

Definition check (k : case) : N :=
  let m := build (k_suppr k) (k_static k) (k_cols k) (map (to_strct (k_yin k) (k_yout k)) (k_structs k)) in
  let o := k_out k in
  code_of [
    list_eqb String.eqb (sh_cols m) (sh_cols o);
    Nat.eqb (List.length (sh_rows m)) (List.length (sh_rows o));
    list_eqb (list_eqb cell_eqb) (sh_rows m) (sh_rows o);
    list_eqb (pair_eqb String.eqb pre_eqb) (filter (fun p => match snd p with PUntouched => false | _ => true end) (sh_pre m))
             (sh_pre o) ].

Definition failing (cs : list case) : list (N * N) := failing_from check 0 cs.
