(* Executable checker for C04: each segment operation starts at the current end of the path and lands on the
   documented point.  Rational relations (squares instead of square roots / trigonometry) are evaluated on
   femto's own float32 points. *)
From Coq Require Import List Bool ZArith NArith QArith Qabs.
Import ListNotations.
From Femto Require Import Base.Num Path.Laser Harness.Util.
Open Scope Q_scope.

Inductive seg :=
| GLinear (inc : option Q * option Q * option Q) (abs : bool) (s : bool) (f : Q)
| GLinearW (inc : option Q * option Q * option Q) (abs : bool) (s : bool) (f : Q)   (* linear with warp_flag: subdivided *)
| GArc (dy r : Q) (s : bool) (f : Q)                       (* arc_bend *)
| GArcCoupler (dy r il : Q) (s : bool) (f : Q)
| GArcMzi (dy r il al : Q) (s : bool) (f : Q)
| GSin (dy dz dxo : Q) (hasdx : bool) (r : Q) (wy wz : Z) (s : bool) (f : Q)   (* sin_bridge / bend / comp *)
| GSinCoupler (dy r il : Q) (s : bool) (f : Q)
| GSinMzi (dy r il al : Q) (s : bool) (f : Q)
| GSpline (dy dz dxo : Q) (hasdx : bool) (r : Q) (s : bool) (f : Q)
| GSplineBridge (dy dz dxo : Q) (hasdx : bool) (r : Q) (s : bool) (f : Q)
| GEnd (speed_closed : Q).

Record case := {
  k_first : lpt;                 (* first point of the path *)
  k_last : lpt;                  (* the end of the path before the call *)
  k_seg : seg;
  k_blk : list lpt               (* points appended by the call *)
}.

Definition tol (v : Q) : Q := (1 # 200000) * (1 + Qabs v).          (* float32 storage, accumulated over a block *)
Definition close (a b : Q) : bool := Qle_bool (Qabs (a - b)) (tol a + tol b).
Definition sq (q : Q) : Q := q * q.
(* |a^2 - b2| small, given a >= 0 :  a is the square root of b2 up to the tolerance *)
Definition is_sqrt (a b2 : Q) : bool :=
  Qle_bool 0 (a + tol a) && Qle_bool (Qabs (sq a - b2)) (2 * (Qabs a + 1) * tol a * 4 + (1 # 100000000)).

Definition lsq (r dy : Q) : Q := 4 * r * Qabs dy - sq dy.             (* squared S-bend length *)

Definition lastp (k : case) : lpt := last (k_blk k) (k_last k).
Definition dxk (k : case) : Q := lx (lastp k) - lx (k_last k).
Definition dyk (k : case) : Q := ly (lastp k) - ly (k_last k).
Definition dzk (k : case) : Q := lz (lastp k) - lz (k_last k).

Definition same_pos (a b : lpt) : bool := Qeq_bool (lx a) (lx b) && Qeq_bool (ly a) (ly b) && Qeq_bool (lz a) (lz b).

(* a curved block starts exactly at the current end, keeps feed and shutter *)
Definition starts_here (k : case) (s : bool) (f : Q) : bool :=
  match k_blk k with
  | [] => false
  | p :: _ => same_pos p (k_last k) && forallb (fun q => Bool.eqb (ls q) s && close (lf q) f) (k_blk k)
  end.

Definition on_circle (cx cy r : Q) (p : lpt) : bool :=
  Qle_bool (Qabs (sq (lx p - cx) + sq (ly p - cy) - sq r)) (4 * (r + 1) * tol (Qabs (lx p) + Qabs (ly p) + r)).

(* the two arcs of an S-bend: the first half of the points around (x0, y0 +- r), the second around (xe, ye -+ r) *)
Definition arcs_ok (k : case) (dy r : Q) : bool :=
  let sg := if Qle_bool dy 0 then -1 else 1 in
  let p0 := k_last k in let pe := lastp k in
  forallb (fun p => on_circle (lx p0) (ly p0 + sg * r) r p || on_circle (lx pe) (ly pe - sg * r) r p) (k_blk k).

(* p lies on the straight segment from a to e (cross product ~ 0, projection inside) *)
Definition on_segment (a e p : lpt) : bool :=
  let '(dx, dy, dz) := (lx e - lx a, ly e - ly a, lz e - lz a) in
  let '(ux, uy, uz) := (lx p - lx a, ly p - ly a, lz p - lz a) in
  let t := (tol (lx p) + tol (ly p) + tol (lz p)) * 2 * (Qabs dx + Qabs dy + Qabs dz + 1) + (1 # 100000000) in
  Qle_bool (Qabs (uy * dz - uz * dy)) t && Qle_bool (Qabs (uz * dx - ux * dz)) t && Qle_bool (Qabs (ux * dy - uy * dx)) t &&
  Qle_bool (- t) (ux * dx + uy * dy + uz * dz) && Qle_bool (ux * dx + uy * dy + uz * dz) (sq dx + sq dy + sq dz + t).

Definition check (k : case) : N :=
  let b := k_blk k in
  match k_seg k with
  | GLinearW (dx, dy, dz) abs s f =>
      let tx := if abs then match dx with Some v => v | None => lx (k_last k) end else lx (k_last k) + match dx with Some v => v | None => 0 end in
      let ty := if abs then match dy with Some v => v | None => ly (k_last k) end else ly (k_last k) + match dy with Some v => v | None => 0 end in
      let tz := if abs then match dz with Some v => v | None => lz (k_last k) end else lz (k_last k) + match dz with Some v => v | None => 0 end in
      code_of [ Nat.eqb (length b) 1 || starts_here k s f;
                close (lx (lastp k)) tx && close (ly (lastp k)) ty && close (lz (lastp k)) tz;
                forallb (fun q => Bool.eqb (ls q) s && close (lf q) f) b;
                (match dx with None => Qeq_bool (lx (lastp k)) (lx (k_last k)) | _ => true end) &&
                (match dy with None => Qeq_bool (ly (lastp k)) (ly (k_last k)) | _ => true end) &&
                (match dz with None => Qeq_bool (lz (lastp k)) (lz (k_last k)) | _ => true end);
                forallb (on_segment (k_last k) (lastp k)) b ]
  | GLinear (dx, dy, dz) abs s f =>
      let tx := if abs then match dx with Some v => v | None => lx (k_last k) end else lx (k_last k) + match dx with Some v => v | None => 0 end in
      let ty := if abs then match dy with Some v => v | None => ly (k_last k) end else ly (k_last k) + match dy with Some v => v | None => 0 end in
      let tz := if abs then match dz with Some v => v | None => lz (k_last k) end else lz (k_last k) + match dz with Some v => v | None => 0 end in
      code_of [ Nat.eqb (length b) 1;
                close (lx (lastp k)) tx && close (ly (lastp k)) ty && close (lz (lastp k)) tz;
                Bool.eqb (ls (lastp k)) s && close (lf (lastp k)) f;
                (* a coordinate given as None is kept exactly *)
                (match dx with None => Qeq_bool (lx (lastp k)) (lx (k_last k)) | _ => true end) &&
                (match dy with None => Qeq_bool (ly (lastp k)) (ly (k_last k)) | _ => true end) &&
                (match dz with None => Qeq_bool (lz (lastp k)) (lz (k_last k)) | _ => true end) ]
  | GArc dy r s f =>
      code_of [ starts_here k s f; is_sqrt (dxk k) (lsq r dy); close (dyk k) dy; Qeq_bool (dzk k) 0; arcs_ok k dy r ]
  | GArcCoupler dy r il s f =>
      code_of [ starts_here k s f; is_sqrt ((dxk k - Qabs il) / 2) (lsq r dy); close (dyk k + 1) 1; Qeq_bool (dzk k) 0 ]
  | GArcMzi dy r il al s f =>
      code_of [ starts_here k s f; is_sqrt ((dxk k - 2 * Qabs il - Qabs al) / 4) (lsq r dy); close (dyk k + 1) 1; Qeq_bool (dzk k) 0 ]
  | GSin dy dz dxo hasdx r wy wz s f =>
      let ey := if Z.even wy then 0 else dy in          (* dy (1 - cos(wy pi)) / 2 *)
      let ez := if Z.even wz then 0 else dz in
      code_of [ starts_here k s f;
                if hasdx then close (dxk k) dxo else is_sqrt (dxk k) (lsq r dy);
                close (dyk k + 1) (ey + 1); close (dzk k + 1) (ez + 1) ]
  | GSinCoupler dy r il s f =>
      code_of [ starts_here k s f; is_sqrt ((dxk k - Qabs il) / 2) (lsq r dy); close (dyk k + 1) 1; Qeq_bool (dzk k) 0 ]
  | GSinMzi dy r il al s f =>
      code_of [ starts_here k s f; is_sqrt ((dxk k - 2 * Qabs il - Qabs al) / 4) (lsq r dy); close (dyk k + 1) 1; Qeq_bool (dzk k) 0 ]
  | GSpline dy dz dxo hasdx r s f =>
      code_of [ starts_here k s f;
                if hasdx then close (dxk k) dxo else true;
                close (dyk k + 1) (dy + 1); close (dzk k + 1) (dz + 1) ]
  | GSplineBridge dy dz dxo hasdx r s f =>
      code_of [ starts_here k s f;
                if hasdx then close (dxk k) (2 * dxo) else true;
                close (dyk k + 1) (dy + 1); close (dzk k + 1) 1 ]
  | GEnd sc =>
      match b with
      | [p; q] =>
          code_of [ same_pos p (k_last k) && negb (ls p) && Qeq_bool (lf p) (lf (k_last k));
                    same_pos q (k_first k) && negb (ls q) && close (lf q) sc ]
      | _ => 1%N
      end
  end.

Definition failing (cs : list case) : list (N * N) := failing_from check 0 cs.
