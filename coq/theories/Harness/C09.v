(* Executable checker for C09: observations (hashes) of repeated operations are a function of the operation,
   and every argument is bit-identical before and after the call. *)
From Coq Require Import List Bool NArith.
Import ListNotations.
From Femto Require Import Base.Stable Harness.Util.

Record case := {
  k_obs : list (N * N);      (* (operation key, hash of its result / produced files / reported numbers) *)
  k_args : list (N * N)      (* per call: (hash of all arguments before, after) *)
}.

Definition check (k : case) : N :=
  code_of [ consistentb (k_obs k); forallb (fun p => N.eqb (fst p) (snd p)) (k_args k) ].

Definition failing (cs : list case) : list (N * N) := failing_from check 0 cs.
