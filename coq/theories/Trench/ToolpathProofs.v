From Coq Require Import List Bool Arith Lia.
Import ListNotations.
From Femto Require Import Trench.Toolpath.

Section Proofs.
  Context {poly : Type} (is_empty : poly -> bool) (inset : poly -> list poly) (hatch : poly -> nat).

  (* the tool-path generation finishes normally whatever the geometry answers *)
  Lemma insets_done : forall n l, snd (insets is_empty inset n l) = Done.
  Proof.
    induction n as [|k IH]; intros l; cbn [insets]; [reflexivity|].
    destruct l as [|p r]; [reflexivity|]. destruct (is_empty p); [apply IH|].
    specialize (IH (r ++ inset p)). destruct (insets is_empty inset k (r ++ inset p)) as [[ys l'] o]. exact IH.
  Qed.

  Theorem toolpath_total : forall n block, snd (toolpath is_empty inset hatch n block) = Done.
  Proof.
    intros n block. unfold toolpath. pose proof (insets_done n [block]) as H.
    destruct (insets is_empty inset n [block]) as [[ys l] o]. cbn [snd] in H. subst o. reflexivity.
  Qed.

  (* contours first, hatching last; at most n contours *)
  Lemma insets_contours : forall n l,
    forallb (@is_contour poly) (fst (fst (insets is_empty inset n l))) = true /\
    length (fst (fst (insets is_empty inset n l))) <= n.
  Proof.
    induction n as [|k IH]; intros l; cbn [insets]; [split; [reflexivity | cbn; lia]|].
    destruct l as [|p r]; [split; [reflexivity | cbn; lia]|]. destruct (is_empty p).
    - destruct (IH r) as [A B]. split; [exact A | lia].
    - destruct (IH (r ++ inset p)) as [A B]. destruct (insets is_empty inset k (r ++ inset p)) as [[ys l'] o].
      cbn [fst forallb is_contour length] in *. split; [exact A | lia].
  Qed.

  Lemma hatches_not_contours : forall l, forallb (fun y => negb (@is_contour poly y)) (hatches is_empty hatch l) = true.
  Proof.
    induction l as [|p r IH]; [reflexivity|]. unfold hatches in *. cbn [flat_map]. rewrite forallb_app, IH.
    destruct (is_empty p); [reflexivity|]. destruct (hatch p); reflexivity.
  Qed.

  Theorem toolpath_order : forall n block, exists cs hs,
    fst (toolpath is_empty inset hatch n block) = cs ++ hs /\
    forallb (@is_contour poly) cs = true /\ forallb (fun y => negb (@is_contour poly y)) hs = true /\ length cs <= n.
  Proof.
    intros n block. unfold toolpath. pose proof (insets_done n [block]) as D.
    destruct (insets_contours n [block]) as [A B].
    destruct (insets is_empty inset n [block]) as [[ys l] o]. cbn [fst snd] in *. subst o. cbn [fst].
    exists ys, (hatches is_empty hatch l). repeat split; auto. apply hatches_not_contours.
  Qed.

  (* ---- containment, given that an inset lies inside the polygon it was computed from ---- *)
  Context (inside : poly -> poly -> Prop).
  Hypothesis inside_refl : forall p, inside p p.
  Hypothesis inside_trans : forall a b c, inside a b -> inside b c -> inside a c.
  Hypothesis inset_inside : forall p c, In c (inset p) -> inside c p.

  Lemma insets_inside : forall n l block, Forall (fun p => inside p block) l ->
    Forall (fun y => match y with YContour p | YHatch p _ => inside p block end) (fst (fst (insets is_empty inset n l)))
    /\ Forall (fun p => inside p block) (snd (fst (insets is_empty inset n l))).
  Proof.
    induction n as [|k IH]; intros l block Hl; cbn [insets]; [split; [constructor | exact Hl]|].
    destruct l as [|p r]; [split; constructor|]. inversion Hl as [|? ? Hp Hr]; subst.
    destruct (is_empty p); [now apply IH|].
    assert (Hn : Forall (fun q => inside q block) (r ++ inset p)).
    { apply Forall_app. split; [exact Hr|]. apply Forall_forall. intros c Hc.
      eapply inside_trans; [apply inset_inside; exact Hc | exact Hp]. }
    destruct (IH (r ++ inset p) block Hn) as [A B].
    destruct (insets is_empty inset k (r ++ inset p)) as [[ys l'] o]. cbn [fst snd] in *.
    split; [constructor; assumption | exact B].
  Qed.

  (* every contour is the outline of a polygon inside the block, and every hatched polygon lies inside the block *)
  Theorem toolpath_inside : forall n block,
    Forall (fun y => match y with YContour p | YHatch p _ => inside p block end) (fst (toolpath is_empty inset hatch n block)).
  Proof.
    intros n block. unfold toolpath. pose proof (insets_done n [block]) as D.
    destruct (insets_inside n [block] block ltac:(constructor; [apply inside_refl | constructor])) as [A B].
    destruct (insets is_empty inset n [block]) as [[ys l] o]. cbn [fst snd] in *. subst o. cbn [fst].
    apply Forall_app. split; [exact A|]. unfold hatches. apply Forall_forall. intros y Hy.
    apply in_flat_map in Hy as [p [Hp Hy]]. rewrite Forall_forall in B. specialize (B p Hp).
    destruct (is_empty p); [destruct Hy|]. destruct (hatch p); [destruct Hy|]. destruct Hy as [<-|[]]. exact B.
  Qed.
End Proofs.

(* the loop as it was: a block that is used up before the requested number of insets raised IndexError *)
Theorem toolpath_old_refuted : exists (is_empty : nat -> bool) (inset : nat -> list nat) (hatch : nat -> nat) n block,
  snd (toolpath_old is_empty inset hatch n block) = Raised.
Proof.
  exists (fun p => Nat.eqb p 1), (fun _ => [1]), (fun _ => 0), 5, 0. reflexivity.
Qed.
