(* Model of TrenchWriter / UTrenchWriter .pgm(): the exported program tree (writer.py).
     trenchColNNN/trenchNNN_WALL.pgm, _FLOOR.pgm, trench_BED_NNN.pgm : export_array2d  (G1 chains)
     FARCALLNNN.pgm : _farcall_trench_column (a PGMCompiler session)
     MAIN.pgm       : farcall_list of the FARCALL files (a session with both angles disabled)
   File names are produced by python string formatting; the harness supplies them as [fname] records.
   Definitions only. *)
From Coq Require Import List Bool ZArith NArith QArith.
Import ListNotations.
From Femto Require Import Base.Num Ctl.Tok Geo.Rigid Pgm.Ops.
Open Scope Q_scope.

(* export_array2d: transformed points, feed on the first line only, G9 on flagged lines *)
Fixpoint array2d_from (c : cfg) (first : bool) (speed : Q) (pts : list (Q * Q * bool)) : list tok :=
  match pts with
  | [] => []
  | (x, y, g9) :: r =>
      let '(tx, ty, _) := tr32 (tc c) (x, y, 0) in
      TG1 g9 (digits c) (Some (CNum (fm c tx))) (Some (CNum (fm c ty))) None None (if first then Some (fm c speed) else None)
      :: array2d_from c false speed r
  end.
Definition array2d (c : cfg) (speed : Q) (pts : list (Q * Q * bool)) : list tok := array2d_from c true speed pts.

Record blockd := {
  b_first : Q * Q;                 (* first vertex of the outline (xborder[0], yborder[0]) *)
  b_wall_f : fname; b_wall_n : fname;      (* path used by LOAD, name used by FARCALL / REMOVEPROGRAM *)
  b_floor_f : fname; b_floor_n : fname
}.

Record bedd := { d_first : Q * Q; d_f : fname; d_n : fname }.

Record cold := {
  c_blocks : list blockd;
  c_beds : list bedd;              (* empty for plain trench columns *)
  c_nboxz : nat; c_nrepeat : Z;
  c_hbox : Q; c_zoff : Q; c_dz : Q;        (* c_dz = deltaz / neff as femto computes it *)
  c_u : list Q;                    (* [] = no power axis *)
  c_speed_closed : Q;
  c_zcurr : N                      (* interned name of $ZCURR *)
}.

Definition u_first (d : cold) : list op :=
  match c_u d with [] => [] | u0 :: _ => [OInstr (IU u0)] end.
Definition u_last (d : cold) : list op :=
  match c_u d with [] => [] | u0 :: r => [OInstr (IU (last r u0))] end.
Definition u_dwell (c : cfg) (d : cold) : list op :=
  match c_u d with [] => [] | _ => [ODwell (long_p c)] end.

(* transform_points on scalars (0-d inputs) *)
Definition init_point (c : cfg) (p : Q * Q) (z : Q) : Q * Q * Q := tr_scalar (tc c) (fst p, snd p, z).

Definition block_ops (c : cfg) (d : cold) (nbox : nat) (b : blockd) : list op :=
  let '(x0, y0, z0) := init_point c (b_first b) (inject_Z (Z.of_nat nbox) * c_hbox d + c_zoff d) in
  [ OComment; OLoad (b_wall_f b) 2; OInstr IMsg; OShutter false ] ++ u_first d ++ u_dwell c d ++
  [ OMoveTo (Some x0) (Some y0) (Some z0) (Some (c_speed_closed d));
    OInstr (IAssign (c_zcurr d) z0); OShutter true;
    ORepeat (Some (c_nrepeat d)) [ OFarcall (b_wall_n b); OInstr (IAssignPlus (c_zcurr d) (c_dz d)); OInstr (IZvar (c_zcurr d)) ];
    ORemove (b_wall_n b) 2;
    OShutter false; OLoad (b_floor_f b) 2; OInstr IMsg ] ++ u_last d ++ u_dwell c d ++
  [ OShutter true; OFarcall (b_floor_n b); OShutter false ] ++ u_first d ++ [ ORemove (b_floor_n b) 2 ].

Definition bed_ops (c : cfg) (d : cold) (b : bedd) : list op :=
  let lastbox := (c_nboxz d - 1)%nat in
  let '(x0, y0, _) := init_point c (d_first b) (inject_Z (Z.of_nat lastbox) * c_hbox d + c_zoff d) in
  [ OComment; OShutter false; OLoad (d_f b) 2; OInstr IMsg ] ++ u_last d ++ u_dwell c d ++
  [ OMoveTo (Some x0) (Some y0) None (Some (c_speed_closed d)); OShutter true; OFarcall (d_n b); OShutter false ] ++
  u_first d ++ [ ORemove (d_n b) 2 ].

Definition farcall_ops (c : cfg) (d : cold) : list op :=
  [ODvar [c_zcurr d]] ++
  flat_map (fun nbox => flat_map (block_ops c d nbox) (c_blocks d)) (List.seq 0 (c_nboxz d)) ++
  flat_map (bed_ops c d) (c_beds d) ++
  [OInstr IMsg].

(* MAIN.pgm: farcall_list *)
Definition main_ops (c : cfg) (cols : list (fname * fname)) : list op :=
  flat_map (fun fn => [ OLoad (fst fn) 2; OFarcall (snd fn); ODwell (short_p c); ORemove (snd fn) 2; ODwell (short_p c) ]) cols.

(* the depths (in glass) at which the wall of a block is traced *)
Definition wall_depths (d : cold) (deltaz : Q) : list Q :=
  flat_map (fun b => map (fun k => inject_Z (Z.of_nat b) * c_hbox d + c_zoff d + inject_Z (Z.of_nat k) * deltaz)
                         (List.seq 0 (Z.to_nat (c_nrepeat d)))) (List.seq 0 (c_nboxz d)).
