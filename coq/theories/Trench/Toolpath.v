(* Model of Trench.toolpath (trench.py), with the geometry (shapely / GEOS) as an oracle:
     [inset p]   = buffer_polygon(p, -delta)  (a list of polygons, possibly one empty polygon)
     [hatch p]   = number of line pieces of zigzag(p.buffer(1.05 delta))
   Definitions only.

     polygon_list = [block]
     for _ in range(num_insets):
         if not polygon_list: break                       (added by the fix commit; before: pop raised IndexError)
         p = polygon_list.pop(0)
         if not p.is_empty: polygon_list.extend(inset p); yield exterior(p)
     for p in polygon_list: h = zigzag(p...); if h.size: yield h
*)
From Coq Require Import List Bool Arith.
Import ListNotations.

Section Toolpath.
  Context {poly : Type} (is_empty : poly -> bool) (inset : poly -> list poly) (hatch : poly -> nat).

  Inductive yld := YContour (p : poly) | YHatch (p : poly) (pieces : nat).
  Inductive outcome := Done | Raised.

  (* the inset loop: yields, remaining polygon list, outcome *)
  Fixpoint insets (n : nat) (l : list poly) : list yld * list poly * outcome :=
    match n with
    | O => ([], l, Done)
    | S k =>
        match l with
        | [] => ([], [], Done)                                   (* break *)
        | p :: r =>
            if is_empty p then insets k r
            else let '(ys, l', o) := insets k (r ++ inset p) in (YContour p :: ys, l', o)
        end
    end.

  (* the loop as it was before the fix: pop(0) on an empty list raises *)
  Fixpoint insets_old (n : nat) (l : list poly) : list yld * list poly * outcome :=
    match n with
    | O => ([], l, Done)
    | S k =>
        match l with
        | [] => ([], [], Raised)
        | p :: r =>
            if is_empty p then insets_old k r
            else let '(ys, l', o) := insets_old k (r ++ inset p) in (YContour p :: ys, l', o)
        end
    end.

  Definition hatches (l : list poly) : list yld :=
    flat_map (fun p => if is_empty p then [] else match hatch p with O => [] | S k => [YHatch p (S k)] end) l.

  Definition toolpath (n : nat) (block : poly) : list yld * outcome :=
    let '(ys, l, o) := insets n [block] in
    match o with Done => (ys ++ hatches l, Done) | Raised => (ys, Raised) end.

  Definition toolpath_old (n : nat) (block : poly) : list yld * outcome :=
    let '(ys, l, o) := insets_old n [block] in
    match o with Done => (ys ++ hatches l, Done) | Raised => (ys, Raised) end.

  Definition is_contour (y : yld) : bool := match y with YContour _ => true | _ => false end.
End Toolpath.
