(* C06: the wall depths form a deltaz-net of the whole trench height. *)
From Coq Require Import ZArith QArith Qround Lia Lqa List Bool.
Import ListNotations.
From Femto Require Import Base.Num Ctl.Tok Geo.Rigid Pgm.Ops Trench.TreeProg.
Open Scope Q_scope.

Section Depth.
  Variables (h zoff dz : Q).
  Hypothesis Hdz : 0 < dz.
  Hypothesis Hz : zoff <= 0.
  Hypothesis Hh : 0 < h.

  Definition nrep : Z := Qceiling ((h - zoff) / dz).      (* TrenchColumn.n_repeat *)
  Definition pass (b k : Z) : Q := inject_Z b * h + zoff + inject_Z k * dz.

  Lemma nrep_covers : h - zoff <= inject_Z nrep * dz.
  Proof.
    unfold nrep. pose proof (Qle_ceiling ((h - zoff) / dz)) as H.
    apply (Qmult_le_compat_r _ _ dz) in H; [|now apply Qlt_le_weak].
    assert (E : (h - zoff) / dz * dz == h - zoff) by (field; intro E; rewrite E in Hdz; apply (Qlt_irrefl 0 Hdz)).
    rewrite E in H. exact H.
  Qed.

  Lemma nrep_pos : (1 <= nrep)%Z.
  Proof.
    pose proof nrep_covers as H.
    destruct (Z_le_gt_dec 1 nrep) as [L|L]; [exact L|exfalso].
    assert (Hi : inject_Z nrep <= 0) by (unfold Qle, inject_Z; cbn; lia).
    nra.
  Qed.

  (* consecutive passes of a level are exactly one step apart *)
  Theorem pass_step : forall b k, pass b (k + 1) - pass b k == dz.
  Proof. intros. unfold pass. rewrite inject_Z_plus. ring. Qed.

  (* the first pass of the first level is at the starting offset *)
  Theorem pass_first : pass 0 0 == zoff.
  Proof. unfold pass. ring. Qed.

  (* the last pass of a level is within one step of the top of its box ... *)
  Theorem pass_last_reaches_top : forall b, inject_Z (b + 1) * h - dz <= pass b (nrep - 1).
  Proof.
    intros b. unfold pass. pose proof nrep_covers as H.
    replace (nrep - 1)%Z with (nrep + -1)%Z by lia. rewrite !inject_Z_plus.
    change (inject_Z (-1)) with (-1 # 1). change (inject_Z 1) with 1. nra.
  Qed.

  (* ... and the next level starts no more than one step above it *)
  Theorem next_level_within_step : forall b, pass (b + 1) 0 - pass b (nrep - 1) <= dz.
  Proof.
    intros b. pose proof (pass_last_reaches_top b) as H. unfold pass in *.
    rewrite !inject_Z_plus in *. change (inject_Z 1) with 1 in *. change (inject_Z 0) with 0. nra.
  Qed.

  (* levels never leave a gap below: the first pass of a level is not above the top of the previous box *)
  Theorem level_starts_in_previous_box : forall b, pass (b + 1) 0 <= inject_Z (b + 1) * h.
  Proof. intros b. unfold pass. change (inject_Z 0) with 0. nra. Qed.
End Depth.

(* sub-program files hold nothing but moves *)
Definition is_g1 (t : tok) : bool := match t with TG1 _ _ _ _ _ _ _ => true | _ => false end.

Lemma array2d_from_moves : forall c speed pts first, forallb is_g1 (array2d_from c first speed pts) = true.
Proof.
  intros c speed pts. induction pts as [|[[x y] g] r IH]; intros first; [reflexivity|].
  cbn [array2d_from]. destruct (tr32 (tc c) (x, y, 0)) as [[tx ty] tz]. cbn [forallb is_g1]. apply IH.
Qed.

Lemma array2d_moves : forall c speed pts, forallb is_g1 (array2d c speed pts) = true.
Proof. intros. apply array2d_from_moves. Qed.
