From Coq Require Import List Bool ZArith QArith Lia Permutation Reals Lra.
Import ListNotations.
From Femto Require Import Trench.Dig.

(* ---- numbering: non-decreasing key, same blocks ---- *)
Section Sort.
  Context {A : Type} (key : A -> Q).
  Open Scope Q_scope.

  Fixpoint sorted_from (k : Q) (l : list A) : Prop :=
    match l with [] => True | s :: r => k <= key s /\ sorted_from (key s) r end.
  Definition sorted (l : list A) : Prop := match l with [] => True | s :: r => sorted_from (key s) r end.

  Lemma Qle_bool_false_lt : forall a b, Qle_bool a b = false -> b < a.
  Proof. intros a b H. destruct (Qlt_le_dec b a) as [L|L]; [exact L|]. apply Qle_bool_iff in L. congruence. Qed.

  Lemma insert_sorted_from : forall s l k, k <= key s -> sorted_from k l -> sorted_from k (insert_k key s l).
  Proof.
    induction l as [|t r IH]; intros k Hk Hl; cbn [insert_k]; [cbn; auto|].
    destruct Hl as [Hkt Hr]. destruct (Qle_bool (key t) (key s)) eqn:E.
    - apply Qle_bool_iff in E. cbn [sorted_from]. split; [exact Hkt | now apply IH].
    - apply Qle_bool_false_lt in E. cbn [sorted_from]. repeat split; auto. now apply Qlt_le_weak.
  Qed.

  Lemma insert_sorted : forall s l, sorted l -> sorted (insert_k key s l).
  Proof.
    intros s [|t r] H; cbn [insert_k]; [exact I|]. destruct (Qle_bool (key t) (key s)) eqn:E.
    - apply Qle_bool_iff in E. cbn [sorted]. now apply insert_sorted_from.
    - apply Qle_bool_false_lt in E. cbn [sorted sorted_from]. split; [now apply Qlt_le_weak | exact H].
  Qed.

  Lemma insert_perm : forall s l, Permutation (s :: l) (insert_k key s l).
  Proof.
    induction l as [|t r IH]; cbn [insert_k]; [apply Permutation_refl|].
    destruct (Qle_bool (key t) (key s)); [|apply Permutation_refl].
    eapply Permutation_trans; [apply perm_swap | now apply perm_skip].
  Qed.

  Theorem sort_k_sorted : forall l, sorted (sort_k key l) /\ Permutation l (sort_k key l).
  Proof.
    intros l. unfold sort_k.
    assert (G : forall (ll : list A) acc, sorted acc ->
      sorted (fold_left (fun a s => insert_k key s a) ll acc) /\ Permutation (acc ++ ll) (fold_left (fun a s => insert_k key s a) ll acc)).
    { intros ll. induction ll as [|s r IH]; intros acc H; cbn [fold_left]; [split; [exact H | now rewrite app_nil_r]|].
      destruct (IH (insert_k key s acc) (insert_sorted s acc H)) as [S P]. split; [exact S|].
      eapply Permutation_trans; [|exact P]. change (acc ++ s :: r) with (acc ++ [s] ++ r). rewrite app_assoc.
      apply Permutation_app_tail. eapply Permutation_trans; [apply Permutation_app_comm|]. cbn. apply insert_perm. }
    destruct (G l [] I) as [S P]. split; [exact S | exact P].
  Qed.
End Sort.

(* ---- removal by number ---- *)

Fixpoint strictly_desc (l : list Z) : Prop :=
  match l with [] => True | x :: r => (match r with [] => True | y :: _ => (y < x)%Z end) /\ strictly_desc r end.

Lemma keep_from_del : forall {A : Type} (l : list A) (i : Z) (n : nat) rest,
  (forall j, In j rest -> (j < i + Z.of_nat n)%Z) -> (n < length l)%nat ->
  keep_from i (i + Z.of_nat n :: rest)%Z l = keep_from i rest (del_nth n l).
Proof.
  induction l as [|x r IH]; intros i n rest Hlt Hn; cbn [length] in Hn; [lia|].
  destruct n as [|k].
  - cbn [del_nth keep_from existsb]. replace (i + Z.of_nat 0)%Z with i in * by lia. rewrite Z.eqb_refl. cbn [orb].
    assert (G : forall (ll : list A) m, (i < m)%Z -> keep_from m (i :: rest) ll = keep_from m rest ll).
    { intros ll. induction ll as [|y s IHs]; intros m Hm; [reflexivity|]. cbn [keep_from existsb].
      replace (Z.eqb m i) with false by (symmetry; apply Z.eqb_neq; lia). cbn [orb].
      rewrite !(IHs (m + 1)%Z) by lia. reflexivity. }
    assert (K : forall (ll : list A) m, (i <= m)%Z -> keep_from m rest ll = ll).
    { intros ll. induction ll as [|y s IHs]; intros m Hm; [reflexivity|]. cbn [keep_from].
      replace (existsb (Z.eqb m) rest) with false.
      - now rewrite IHs by lia.
      - symmetry. apply not_true_is_false. intros E. apply existsb_exists in E as [j [Hj Ej]].
        apply Z.eqb_eq in Ej. subst j. specialize (Hlt m Hj). lia. }
    rewrite G by lia. rewrite !K by lia. reflexivity.
  - cbn [del_nth keep_from existsb].
    replace (Z.eqb i (i + Z.of_nat (S k))) with false by (symmetry; apply Z.eqb_neq; lia). cbn [orb].
    assert (Hnot : existsb (Z.eqb i) rest = existsb (Z.eqb i) rest) by reflexivity.
    replace (i + Z.of_nat (S k))%Z with ((i + 1) + Z.of_nat k)%Z by lia.
    rewrite (IH (i + 1)%Z k rest); [reflexivity | intros j Hj; specialize (Hlt j Hj); lia | lia].
Qed.

(* for distinct numbers in range, removal deletes exactly the blocks with those numbers *)
Theorem del_all_spec : forall {A : Type} (idx : list Z) (l : list A),
  strictly_desc idx -> (forall i, In i idx -> (0 <= i < Z.of_nat (length l))%Z) ->
  del_all idx l = Some (keep_from 0 idx l).
Proof.
  intros A idx. induction idx as [|i r IH]; intros l Hd Hr.
  - cbn [del_all]. f_equal. clear. generalize 0%Z as m. induction l as [|x s IHs]; intros m; [reflexivity|]. cbn. now rewrite <- IHs.
  - cbn [del_all]. pose proof (Hr i (or_introl eq_refl)) as Hi.
    unfold py_index. replace ((0 <=? i)%Z && (i <? Z.of_nat (length l))%Z) with true
      by (symmetry; apply andb_true_iff; split; [apply Z.leb_le | apply Z.ltb_lt]; lia).
    destruct Hd as [Hhd Hd].
    assert (Hlt : forall j, In j r -> (j < i)%Z).
    { clear - Hhd Hd. revert i Hhd. induction r as [|y s IHs]; intros i Hhd j Hj; [destruct Hj|].
      destruct Hj as [<-|Hj]; [exact Hhd|]. destruct Hd as [Hy Hd']. specialize (IHs Hd' y Hy j Hj). lia. }
    assert (Hlen : (Z.to_nat i < length l)%nat) by lia.
    rewrite IH.
    + f_equal. pose proof (keep_from_del l 0 (Z.to_nat i) r) as K.
      rewrite Z2Nat.id in K by lia. cbn [Z.add] in K. symmetry. apply K; [|exact Hlen].
      intros j Hj. specialize (Hlt j Hj). lia.
    + exact Hd.
    + intros j Hj. specialize (Hlt j Hj). specialize (Hr j (or_intror Hj)).
      assert (length (del_nth (Z.to_nat i) l) = (length l - 1)%nat).
      { clear - Hlen. remember (Z.to_nat i) as n eqn:En. clear En. revert l Hlen.
        induction n as [|k IHk]; intros [|x s] H; cbn [length del_nth] in *; try lia.
        rewrite IHk by lia. lia. }
      lia.
Qed.

(* sorted(set(remove), reverse=True): strictly decreasing, same members *)
Lemma insert_desc_in : forall x l j, In j (insert_desc x l) <-> j = x \/ In j l.
Proof.
  induction l as [|y r IH]; intros j; cbn [insert_desc In]; [intuition congruence|].
  destruct (x =? y)%Z eqn:E; [apply Z.eqb_eq in E; subst; cbn [In]; intuition congruence|].
  destruct (y <? x)%Z; cbn [In]; [intuition congruence|]. rewrite IH. intuition congruence.
Qed.

Lemma insert_desc_strict : forall x l, strictly_desc l -> strictly_desc (insert_desc x l).
Proof.
  induction l as [|y r IH]; intros H; cbn [insert_desc]; [cbn; auto|].
  destruct (x =? y)%Z eqn:E; [exact H|]. apply Z.eqb_neq in E.
  destruct (y <? x)%Z eqn:L.
  - apply Z.ltb_lt in L. cbn [strictly_desc]. split; [exact L | exact H].
  - apply Z.ltb_ge in L. destruct H as [Hh Hr]. cbn [strictly_desc]. split; [|now apply IH].
    destruct r as [|z s]; cbn [insert_desc]; [lia|].
    destruct (x =? z)%Z; [exact Hh|]. destruct (z <? x)%Z; lia.
Qed.

Theorem desc_set_spec : forall l, strictly_desc (desc_set l) /\ (forall j, In j (desc_set l) <-> In j l).
Proof.
  induction l as [|x r [S M]]; [split; [exact I | tauto]|]. cbn [desc_set fold_right]. split.
  - now apply insert_desc_strict.
  - intros j. rewrite insert_desc_in. fold (desc_set r). rewrite M. cbn [In]. intuition congruence.
Qed.

(* ---- clearance: triangle inequality in any metric space ---- *)
Section Clearance.
  Variable P : Type.
  Variable d : P -> P -> R.
  Hypothesis d_sym : forall a b, d a b = d b a.
  Hypothesis d_triangle : forall a b c, (d a c <= d a b + d b c)%R.

  (* a block B was cut out at distance > a from every waveguide point; growing it by rho (rounded corners) keeps every
     point of the grown block farther than a - rho from the waveguides *)
  Theorem clearance : forall (B W : P -> Prop) (a rho : R),
    (forall b w, B b -> W w -> (a < d b w)%R) ->
    forall p b w, B b -> (d p b <= rho)%R -> W w -> (a - rho < d p w)%R.
  Proof.
    intros B W a rho Hcut p b w Hb Hpb Hw.
    specialize (Hcut b w Hb Hw). pose proof (d_triangle b p w) as T. rewrite (d_sym b p) in T. lra.
  Qed.
End Clearance.
