(* C06: the modelled trench call file (FARCALLnnn.pgm) passes the verified static checker of Ctl/Static.v, for every
   column description: any number of blocks, stacked boxes and bed blocks, with or without a power axis.  By
   Static.chk_sound the file therefore runs on the reference controller without any error - every FARCALL finds its
   program loaded, every REMOVEPROGRAM too, $ZCURR is declared and set before it is used, feeds are positive - with
   the shutter open only during calls of wall / floor / bed programs and pure z steps, and it ends with the shutter
   closed and nothing left loaded. *)
From Coq Require Import List Bool ZArith NArith QArith Qabs Lia.
Import ListNotations.
From Femto Require Import Base.Num Base.NumProofs Ctl.Tok Ctl.Machine Ctl.ParseProofs Ctl.Safety Ctl.Static
  Geo.Rigid Pgm.Ops Pgm.OpsProofs Pgm.SessionProofs Pgm.SafeProofs Pgm.SessionSafe Trench.TreeProg.
Open Scope Z_scope.

Section TS.
  Context (c : cfg).
  Hypothesis Hdig : 0 <= digits c <= 9.

  (* ---- stepping through an op list, compiler state and abstract machine state side by side ---- *)
  Definition OKL (ops : list op) (st : cstate) (a : ast) (Post : cstate -> ast -> Prop) : Prop :=
    exists st' e a', exec_list c ops st = (st', e, Ok) /\ chk false a e = Some a' /\ Post st' a'.

  Lemma OKL_nil : forall st a (Post : cstate -> ast -> Prop), Post st a -> OKL [] st a Post.
  Proof. intros st a Post H. exists st, [], a. repeat split; auto. Qed.

  Lemma OKL_cons : forall o r st a Post st1 e1 a1,
    exec c o st = (st1, e1, Ok) -> chk false a e1 = Some a1 -> OKL r st1 a1 Post -> OKL (o :: r) st a Post.
  Proof.
    intros o r st a Post st1 e1 a1 He Hc [st2 [e2 [a2 [Hr [Hc2 HP]]]]].
    exists st2, (e1 ++ e2), a2. split; [|split; [|exact HP]].
    - cbn [exec_list]. unfold seq. rewrite He, Hr. reflexivity.
    - rewrite chk_app, Hc. exact Hc2.
  Qed.

  Lemma exec_list_app_ok : forall l1 l2 st st1 e1, exec_list c l1 st = (st1, e1, Ok) ->
    exec_list c (l1 ++ l2) st = let '(st2, e2, o2) := exec_list c l2 st1 in (st2, e1 ++ e2, o2).
  Proof.
    induction l1 as [|o r IH]; intros l2 st st1 e1 H.
    - cbn in H. injection H as <- <-. cbn [app]. destruct (exec_list c l2 st) as [[s e] o]. reflexivity.
    - cbn [app exec_list] in *. unfold seq in *. destruct (exec c o st) as [[sa ea] oa]. destruct oa; [|discriminate].
      destruct (exec_list c r sa) as [[sb eb] ob] eqn:Er. injection H as <- <- ->.
      rewrite (IH l2 sa sb eb Er). destruct (exec_list c l2 sb) as [[s2 e2] o2]. now rewrite app_assoc.
  Qed.

  Lemma OKL_app : forall l1 l2 st a Post,
    OKL l1 st a (fun st1 a1 => OKL l2 st1 a1 Post) -> OKL (l1 ++ l2) st a Post.
  Proof.
    intros l1 l2 st a Post [st1 [e1 [a1 [H1 [C1 [st2 [e2 [a2 [H2 [C2 HP]]]]]]]]]].
    exists st2, (e1 ++ e2), a2. split; [|split; [|exact HP]].
    - rewrite (exec_list_app_ok l1 l2 st st1 e1 H1), H2. reflexivity.
    - rewrite chk_app, C1. exact C2.
  Qed.

  Lemma OKL_weaken : forall ops st a (P Q : cstate -> ast -> Prop),
    (forall st' a', P st' a' -> Q st' a') -> OKL ops st a P -> OKL ops st a Q.
  Proof. intros ops st a P Q H [st' [e [a' [A [B C]]]]]. exists st', e, a'. auto. Qed.

  (* ---- small facts ---- *)
  Lemma chk_dwell : forall a p, chk false a (dwell_toks p) = Some a.
  Proof. intros a [q|]; unfold dwell_toks; [destruct (Qeq_bool q 0)|]; reflexivity. Qed.

  Lemma memN_addN_self : forall v l, memN v (addN v l) = true.
  Proof. intros v l. unfold addN. destruct (memN v l) eqn:E; [exact E|]. cbn. now rewrite N.eqb_refl. Qed.

  Lemma w_feed_same : forall a, w_feed a (a_feed a) = a.
  Proof. intros []; reflexivity. Qed.

  Lemma ast_eqb_refl : forall a, ast_eqb a a = true.
  Proof.
    intros [s f l d t]. unfold ast_eqb. cbn. rewrite !eqb_reflx.
    assert (X : forall l : list N, Util.list_eqb N.eqb l l = true).
    { induction l0 as [|x r IH]; [reflexivity|]. cbn. now rewrite N.eqb_refl, IH. }
    now rewrite !X.
  Qed.

  (* ---- one rule per operation the trench writers use: what it emits, what the checker makes of it, and what the
     compiler tracks afterwards ---- *)
  Definition at_ (st : cstate) (sh : bool) (ld dv : list N) (pr : list tok) : Prop :=
    c_sh st = sh /\ c_loaded st = ld /\ c_dvars st = dv /\ c_pre st = pr.

  Definition stepr (o : op) (st : cstate) (a a1 : ast) (sh : bool) (ld dv : list N) (pr : list tok) : Prop :=
    exists st1 e1, exec c o st = (st1, e1, Ok) /\ chk false a e1 = Some a1 /\ at_ st1 sh ld dv pr.

  Lemma OKL_use : forall o r st a a1 sh ld dv pr Post,
    stepr o st a a1 sh ld dv pr ->
    (forall st1, at_ st1 sh ld dv pr -> OKL r st1 a1 Post) -> OKL (o :: r) st a Post.
  Proof.
    intros o r st a a1 sh ld dv pr Post [st1 [e1 [Ex [Ck Ha]]]] H. eapply OKL_cons; [exact Ex | exact Ck | now apply H].
  Qed.

  Lemma rule_comment : forall st a sh ld dv pr, at_ st sh ld dv pr -> stepr OComment st a a sh ld dv pr.
  Proof. intros st a sh ld dv pr H. exists st, []. repeat split; try reflexivity; apply H. Qed.

  Lemma rule_msg : forall st a sh ld dv pr, at_ st sh ld dv pr -> stepr (OInstr IMsg) st a a sh ld dv pr.
  Proof. intros st a sh ld dv pr H. exists st, [SI TMsg]. repeat split; try reflexivity; apply H. Qed.

  Lemma rule_iu : forall u st a sh ld dv pr, at_ st sh ld dv pr -> stepr (OInstr (IU u)) st a a sh ld dv pr.
  Proof.
    intros u st a sh ld dv pr H. exists st, [SI (instr_tok (IU u))]. split; [reflexivity|]. split; [|exact H].
    cbn. now rewrite w_feed_same.
  Qed.

  Lemma rule_dwell : forall p st a sh ld dv pr, at_ st sh ld dv pr -> stepr (ODwell p) st a a sh ld dv pr.
  Proof.
    intros p st a sh ld dv pr H. exists (fst (do_dwell st p)), (dwell_toks p). split; [reflexivity|]. split; [apply chk_dwell | exact H].
  Qed.

  Lemma rule_load : forall f st a sh ld dv pr, f_pgm f = true -> at_ st sh ld dv pr ->
    stepr (OLoad f 2) st a (w_loaded a (f_base f :: a_loaded a)) sh (ld ++ [f_base f]) dv pr.
  Proof.
    intros f st a sh ld dv pr Hf [A [B [C D]]]. unfold stepr. cbn [exec]. unfold do_load. rewrite Hf. cbn [negb].
    eexists _, _. split; [reflexivity|]. split; [reflexivity|]. repeat split; cbn; auto. now rewrite B.
  Qed.

  Lemma rule_remove : forall f st a sh ld dv pr, f_pgm f = true -> at_ st sh ld dv pr ->
    mem (f_base f) ld = true -> memN (f_base f) (a_loaded a) = true ->
    stepr (ORemove f 2) st a (w_loaded a (rem1 (f_base f) (a_loaded a))) sh (remove1 (f_base f) ld) dv pr.
  Proof.
    intros f st a sh ld dv pr Hf [A [B [C D]]] Hm Ha. unfold stepr. cbn [exec]. unfold do_remove. rewrite Hf, B, Hm. cbn [negb].
    eexists _, _. split; [reflexivity|]. split; [cbn; now rewrite Ha|]. repeat split; cbn; auto.
  Qed.

  Lemma rule_farcall : forall f st a sh ld dv pr, f_pgm f = true -> at_ st sh ld dv pr ->
    mem (f_base f) ld = true -> memN (f_base f) (a_loaded a) = true ->
    stepr (OFarcall f) st a a sh ld dv pr.
  Proof.
    intros f st a sh ld dv pr Hf [A [B [C D]]] Hm Ha. unfold stepr. cbn [exec]. unfold do_farcall. rewrite Hf, B, Hm. cbn [negb].
    eexists _, _. split; [reflexivity|]. split; [|repeat split; cbn; auto].
    rewrite chk_app, chk_dwell. cbn. now rewrite Ha.
  Qed.

  Lemma rule_shutter_noop : forall on st a ld dv pr, at_ st on ld dv pr -> stepr (OShutter on) st a a on ld dv pr.
  Proof.
    intros on st a ld dv pr [A [B [C D]]]. unfold stepr. cbn [exec]. unfold do_shutter. rewrite A, eqb_reflx.
    exists st, []. repeat split; auto.
  Qed.

  Lemma rule_shutter : forall on st a ld dv pr, at_ st (negb on) ld dv pr -> stepr (OShutter on) st a (w_sh a on) on ld dv pr.
  Proof.
    intros on st a ld dv pr [A [B [C D]]]. unfold stepr. cbn [exec]. unfold do_shutter. rewrite A.
    replace (Bool.eqb on (negb on)) with false by (destruct on; reflexivity).
    eexists _, _. split; [reflexivity|]. split; [reflexivity|]. repeat split; cbn; auto.
  Qed.

  Lemma rule_moveto : forall x y z sp st a ld dv pr, at_ st false ld dv pr -> a_sh a = false -> feed_bad c sp = false ->
    stepr (OMoveTo (Some x) (Some y) z (Some sp)) st a (w_feed a true) false ld dv pr.
  Proof.
    intros x y z sp st a ld dv pr [A [B [C D]]] Ha Hf. unfold stepr. cbn [exec]. unfold do_move_to. rewrite A, Hf.
    eexists _, _. split; [reflexivity|]. split; [|repeat split; cbn; auto].
    cbn [app]. change (SI ?t :: ?r) with ([SI t] ++ r). rewrite chk_app.
    assert (P : 0 <? fm c sp = true) by (apply Z.ltb_lt; now apply feed_ok).
    cbn [chk chk_s chk_tok optfm cv_ok andb has_coord]. rewrite P, Ha. cbn. destruct z; cbn; apply chk_dwell.
  Qed.

  Lemma rule_assign : forall v q st a sh ld dv pr, at_ st sh ld dv pr -> memN v (a_decl a) = true ->
    stepr (OInstr (IAssign v q)) st a (w_vars a (a_decl a) (addN v (a_set a))) sh ld dv pr.
  Proof.
    intros v q st a sh ld dv pr H Hv. exists st, [SI (instr_tok (IAssign v q))]. split; [reflexivity|]. split; [|exact H].
    cbn. now rewrite Hv.
  Qed.

  (* the wall loop: REPEAT n { FARCALL wall ; $ZCURR = $ZCURR + dz ; G1 Z$ZCURR } - one pass over the body returns to the
     abstract state it started from *)
  Lemma rule_wall_loop : forall n f v q st a sh ld dv pr, 0 < n -> f_pgm f = true -> at_ st sh ld dv pr ->
    mem (f_base f) ld = true -> memN (f_base f) (a_loaded a) = true ->
    memN v (a_decl a) = true -> memN v (a_set a) = true -> a_feed a = true ->
    stepr (ORepeat (Some n) [OFarcall f; OInstr (IAssignPlus v q); OInstr (IZvar v)]) st a a sh ld dv pr.
  Proof.
    intros n f v q st a sh ld dv pr Hn Hf [A [B [C D]]] Hm Ha Hd Hs Hfd. unfold stepr. rewrite exec_repeat.
    replace (n <=? 0) with false by (symmetry; apply Z.leb_gt; lia).
    cbn [exec_list exec]. unfold do_farcall. rewrite Hf, B, Hm. cbn [negb seq do_dwell fst snd instr_tok close_loop app].
    eexists _, _. split; [reflexivity|]. split; [|repeat split; cbn; auto].
    cbn [chk]. rewrite chk_s_rep. replace (0 <? n) with true by (symmetry; now apply Z.ltb_lt).
    assert (Body : chk false a ((dwell_toks (short_p c) ++ [SI (TFarcall (f_arg f) (f_base f))]) ++
                               [SI (TAssign v (EPlus v (fmt 6 q))); SI (TG1 false 0 None None (Some (CVar v)) None None)]) = Some a).
    { rewrite !chk_app, chk_dwell. cbn [chk chk_s chk_tok]. rewrite Ha, Hd, Hs.
      assert (E1 : w_vars a (a_decl a) (addN v (a_set a)) = a).
      { unfold addN. rewrite Hs. destruct a; reflexivity. }
      rewrite E1. cbn [cv_ok andb has_coord is_some orb negb]. rewrite Hs, Hfd. cbn [andb negb orb].
      rewrite andb_false_r. rewrite <- Hfd. now rewrite w_feed_same. }
    rewrite Body, ast_eqb_refl. reflexivity.
  Qed.

  (* ---- the column ---- *)
  Context (d : cold).

  Definition block_wf (b : blockd) : Prop :=
    f_pgm (b_wall_f b) = true /\ f_pgm (b_wall_n b) = true /\ f_pgm (b_floor_f b) = true /\ f_pgm (b_floor_n b) = true /\
    f_base (b_wall_n b) = f_base (b_wall_f b) /\ f_base (b_floor_n b) = f_base (b_floor_f b).
  Definition bed_wf (b : bedd) : Prop :=
    f_pgm (d_f b) = true /\ f_pgm (d_n b) = true /\ f_base (d_n b) = f_base (d_f b).
  Definition col_wf : Prop :=
    1 <= c_nrepeat d /\ feed_bad c (c_speed_closed d) = false /\ Forall block_wf (c_blocks d) /\ Forall bed_wf (c_beds d).

  (* the power-axis lines and their pauses change nothing that is tracked *)
  Lemma neutral_u : forall ops, ops = u_first d \/ ops = u_last d \/ ops = u_dwell c d ->
    forall r st a sh ld dv pr Post, at_ st sh ld dv pr ->
    (forall st1, at_ st1 sh ld dv pr -> OKL r st1 a Post) -> OKL (ops ++ r) st a Post.
  Proof.
    intros ops Hops r st a sh ld dv pr Post Hat H.
    destruct Hops as [E|[E|E]]; subst ops; unfold u_first, u_last, u_dwell; destruct (c_u d) as [|u0 ur]; cbn [app];
      try (now apply H);
      (eapply OKL_use; [first [apply rule_iu | apply rule_dwell]; exact Hat | exact H]).
  Qed.

  (* what must hold of the abstract state between blocks *)
  Definition between (a0 a : ast) : Prop :=
    a_sh a = false /\ a_loaded a = [] /\ a_decl a = a_decl a0.

  Ltac simp_a :=
    cbn [a_sh a_feed a_loaded a_decl a_set w_sh w_feed w_loaded w_vars rem1 memN existsb remove1 mem app];
    rewrite ?N.eqb_refl; cbn [orb].

  Lemma block_ok : forall nbox b st a dv pr, col_wf -> block_wf b ->
    at_ st false [] dv pr -> a_sh a = false -> a_loaded a = [] -> memN (c_zcurr d) (a_decl a) = true ->
    OKL (block_ops c d nbox b) st a (fun st' a' => at_ st' false [] dv pr /\ between a a').
  Proof.
    intros nbox b st a dv pr [Hn [Hfd _]] [Pwf [Pwn [Pff [Pfn [Ewn Efn]]]]] Hat Hsh Hld Hzc.
    unfold block_ops. destruct (init_point c (b_first b) _) as [[x0 y0] z0]. cbn [app].
    eapply OKL_use; [apply rule_comment; exact Hat|]. intros s1 H1.
    eapply OKL_use; [apply rule_load; [exact Pwf | exact H1]|]. intros s2 H2. cbn [app] in H2.
    eapply OKL_use; [apply rule_msg; exact H2|]. intros s3 H3.
    eapply OKL_use; [apply rule_shutter_noop; exact H3|]. intros s4 H4.
    eapply neutral_u; [now left | exact H4|]. intros s5 H5.
    eapply neutral_u; [now right; right | exact H5|]. intros s6 H6. cbn [app].
    eapply OKL_use; [apply rule_moveto; [exact H6 | simp_a; exact Hsh | exact Hfd]|]. intros s7 H7.
    eapply OKL_use; [apply rule_assign; [exact H7 | simp_a; exact Hzc]|]. intros s8 H8.
    eapply OKL_use; [apply (rule_shutter true); exact H8|]. intros s9 H9.
    eapply OKL_use; [apply rule_wall_loop; [lia | exact Pwn | exact H9 | rewrite Ewn; simp_a; reflexivity
                                           | rewrite Ewn; simp_a; reflexivity | simp_a; exact Hzc
                                           | cbn [a_set w_sh w_vars w_feed w_loaded]; apply memN_addN_self | simp_a; reflexivity]|].
    intros s10 H10.
    eapply OKL_use; [apply rule_remove; [exact Pwn | exact H10 | rewrite Ewn; simp_a; reflexivity | rewrite Ewn; simp_a; reflexivity]|].
    intros s11 H11. rewrite Ewn in H11. simp_a. cbn [remove1] in H11. rewrite N.eqb_refl in H11.
    eapply OKL_use; [apply (rule_shutter false); exact H11|]. intros s12 H12.
    eapply OKL_use; [apply rule_load; [exact Pff | exact H12]|]. intros s13 H13. cbn [app] in H13.
    eapply OKL_use; [apply rule_msg; exact H13|]. intros s14 H14.
    eapply neutral_u; [now right; left | exact H14|]. intros s15 H15.
    eapply neutral_u; [now right; right | exact H15|]. intros s16 H16. cbn [app].
    eapply OKL_use; [apply (rule_shutter true); exact H16|]. intros s17 H17.
    eapply OKL_use; [apply rule_farcall; [exact Pfn | exact H17 | rewrite Efn; simp_a; reflexivity | rewrite Efn; simp_a; rewrite ?Ewn; simp_a; reflexivity]|].
    intros s18 H18.
    eapply OKL_use; [apply (rule_shutter false); exact H18|]. intros s19 H19.
    eapply neutral_u; [now left | exact H19|]. intros s20 H20. cbn [app].
    eapply OKL_use; [apply rule_remove; [exact Pfn | exact H20 | rewrite Efn; simp_a; reflexivity | rewrite Efn; simp_a; rewrite ?Ewn; simp_a; reflexivity]|].
    intros s21 H21. rewrite Efn in H21. cbn [remove1] in H21. rewrite N.eqb_refl in H21.
    apply OKL_nil. split; [exact H21|]. unfold between. rewrite Efn, Ewn. simp_a. rewrite Hld. simp_a. repeat split; reflexivity.
  Qed.

  Lemma bed_ok : forall b st a dv pr, col_wf -> bed_wf b ->
    at_ st false [] dv pr -> a_sh a = false -> a_loaded a = [] ->
    OKL (bed_ops c d b) st a (fun st' a' => at_ st' false [] dv pr /\ between a a').
  Proof.
    intros b st a dv pr [Hn [Hfd _]] [Pf [Pn En]] Hat Hsh Hld.
    unfold bed_ops. destruct (init_point c (d_first b) _) as [[x0 y0] z0]. cbn [app].
    eapply OKL_use; [apply rule_comment; exact Hat|]. intros s1 H1.
    eapply OKL_use; [apply rule_shutter_noop; exact H1|]. intros s2 H2.
    eapply OKL_use; [apply rule_load; [exact Pf | exact H2]|]. intros s3 H3. cbn [app] in H3.
    eapply OKL_use; [apply rule_msg; exact H3|]. intros s4 H4.
    eapply neutral_u; [now right; left | exact H4|]. intros s5 H5.
    eapply neutral_u; [now right; right | exact H5|]. intros s6 H6. cbn [app].
    eapply OKL_use; [apply rule_moveto; [exact H6 | simp_a; exact Hsh | exact Hfd]|]. intros s7 H7.
    eapply OKL_use; [apply (rule_shutter true); exact H7|]. intros s8 H8.
    eapply OKL_use; [apply rule_farcall; [exact Pn | exact H8 | rewrite En; simp_a; reflexivity | rewrite En; simp_a; reflexivity]|].
    intros s9 H9.
    eapply OKL_use; [apply (rule_shutter false); exact H9|]. intros s10 H10.
    eapply neutral_u; [now left | exact H10|]. intros s11 H11. cbn [app].
    eapply OKL_use; [apply rule_remove; [exact Pn | exact H11 | rewrite En; simp_a; reflexivity | rewrite En; simp_a; reflexivity]|].
    intros s12 H12. rewrite En in H12. cbn [remove1] in H12. rewrite N.eqb_refl in H12.
    apply OKL_nil. split; [exact H12|]. unfold between. rewrite En. simp_a. rewrite Hld. repeat split; reflexivity.
  Qed.

  Lemma between_trans : forall a b c', between a b -> between b c' -> between a c'.
  Proof. intros a b c' [A1 [A2 A3]] [B1 [B2 B3]]. repeat split; congruence. Qed.

  (* a list of pieces each of which goes from a between-state to a between-state *)
  Lemma pieces_ok : forall {X : Type} (f : X -> list op) (xs : list X) dv pr,
    (forall x st a, In x xs -> at_ st false [] dv pr -> a_sh a = false -> a_loaded a = [] -> memN (c_zcurr d) (a_decl a) = true ->
                    OKL (f x) st a (fun st' a' => at_ st' false [] dv pr /\ between a a')) ->
    forall st a, at_ st false [] dv pr -> a_sh a = false -> a_loaded a = [] -> memN (c_zcurr d) (a_decl a) = true ->
    OKL (flat_map f xs) st a (fun st' a' => at_ st' false [] dv pr /\ between a a').
  Proof.
    intros X f xs dv pr. induction xs as [|x r IH]; intros Hf st a Hat Hsh Hld Hzc.
    - apply OKL_nil. split; [exact Hat|]. repeat split; auto.
    - cbn [flat_map]. apply OKL_app. eapply OKL_weaken; [|apply (Hf x st a (or_introl eq_refl) Hat Hsh Hld Hzc)].
      intros st1 a1 [Hat1 [B1 [B2 B3]]]. eapply OKL_weaken; [|apply IH].
      + intros st2 a2 [Hat2 Bt]. split; [exact Hat2|]. eapply between_trans; [|exact Bt]. repeat split; auto.
      + intros y st' a' Hy. apply Hf. now right.
      + exact Hat1.
      + exact B1.
      + exact B2.
      + now rewrite B3.
  Qed.

  Lemma rule_dvar : forall vs st a sh ld dv pr, at_ st sh ld dv pr ->
    stepr (ODvar vs) st a a sh ld (dv ++ vs) (TDvar vs :: pr).
  Proof.
    intros vs st a sh ld dv pr [A [B [C D]]]. unfold stepr. cbn [exec]. eexists _, _. split; [reflexivity|]. split; [reflexivity|].
    repeat split; cbn; auto; congruence.
  Qed.

  (* the whole call file, as an op list *)
  Lemma farcall_ops_ok : forall st a dv pr, col_wf ->
    at_ st false [] dv pr -> a_sh a = false -> a_loaded a = [] -> memN (c_zcurr d) (a_decl a) = true ->
    OKL (farcall_ops c d) st a
        (fun st' a' => at_ st' false [] (dv ++ [c_zcurr d]) (TDvar [c_zcurr d] :: pr) /\ between a a').
  Proof.
    intros st a dv pr Hwf Hat Hsh Hld Hzc. pose proof Hwf as [_ [_ [Hbl Hbd]]]. unfold farcall_ops. cbn [app].
    eapply OKL_use; [apply rule_dvar; exact Hat|]. intros s1 H1.
    apply OKL_app. eapply OKL_weaken; [|apply (pieces_ok (fun nbox => flat_map (block_ops c d nbox) (c_blocks d)) (List.seq 0 (c_nboxz d))
                                              (dv ++ [c_zcurr d]) (TDvar [c_zcurr d] :: pr)); [|exact H1 | exact Hsh | exact Hld | exact Hzc]].
    - intros s2 a2 [H2 [B1 [B2 B3]]]. apply OKL_app.
      eapply OKL_weaken; [|apply (pieces_ok (bed_ops c d) (c_beds d) (dv ++ [c_zcurr d]) (TDvar [c_zcurr d] :: pr));
                            [|exact H2 | exact B1 | exact B2 | now rewrite B3]].
      + intros s3 a3 [H3 [C1 [C2 C3]]]. eapply OKL_use; [apply rule_msg; exact H3|]. intros s4 H4.
        apply OKL_nil. split; [exact H4|]. repeat split; congruence.
      + intros b st' a' Hb Hat' Hsh' Hld' _. apply bed_ok; auto. rewrite Forall_forall in Hbd. now apply Hbd.
    - intros nbox st' a' _ Hat' Hsh' Hld' Hzc'.
      apply (pieces_ok (block_ops c d nbox) (c_blocks d)); auto.
      intros b st'' a'' Hb Hat'' Hsh'' Hld'' Hzc''. apply block_ok; auto. rewrite Forall_forall in Hbl. now apply Hbl.
  Qed.

  (* ---- the rotation lines around the operations, and the session ---- *)
  Hypothesis Hspeed : 0 < fmt 6 (speed_pos c).

  Lemma chk_rot_g1 : forall a r, a_sh a = false -> chk false a (rot_g1 c :: r) = chk false (w_feed a true) r.
  Proof.
    intros a r Ha. cbn [chk chk_s rot_g1 chk_tok cv_ok andb has_coord is_some orb negb].
    apply Z.ltb_lt in Hspeed. rewrite Hspeed, Ha. reflexivity.
  Qed.

  Lemma enter_rot_chk : forall st e a sh ld dv pr, at_ st sh ld dv pr -> a_sh a = false ->
    at_ (fst (enter_rot c st e)) sh ld dv pr /\ chk false a (snd (enter_rot c st e)) = Some (w_feed a true).
  Proof.
    intros st e a sh ld dv pr Hat Ha. unfold enter_rot. cbn [do_dwell]. destruct (negb e && negb (aero c)); cbn [fst snd app].
    - split; [exact Hat|]. rewrite chk_rot_g1 by exact Ha. cbn [chk chk_s chk_tok]. apply chk_dwell.
    - split; [exact Hat|]. rewrite chk_rot_g1 by exact Ha. cbn [chk chk_s chk_tok]. rewrite chk_app, chk_dwell.
      cbn [chk chk_s chk_tok]. apply chk_dwell.
  Qed.

  Lemma exit_rot_chk : forall st a sh ld dv pr, at_ st sh ld dv pr -> a_sh a = false ->
    at_ (fst (exit_rot c st)) sh ld dv pr /\ chk false a (snd (exit_rot c st)) = Some (w_feed a true).
  Proof.
    intros st a sh ld dv pr Hat Ha. unfold exit_rot. cbn [do_dwell fst snd app]. split; [exact Hat|].
    rewrite chk_rot_g1 by exact Ha. cbn [chk chk_s chk_tok]. apply chk_dwell.
  Qed.

  Definition a0 : ast := {| a_sh := false; a_feed := false; a_loaded := []; a_decl := []; a_set := [] |}.

  Theorem farcall_file_checked : col_wf -> forall file dw o,
    session c (farcall_ops c d) = Written file dw o ->
    o = Ok /\ exists tree a', parse file = Some tree /\ chk false a0 tree = Some a' /\ a_sh a' = false /\ a_loaded a' = [].
  Proof.
    intros Hwf file dw o H. rewrite session_eq in H. destruct (negb (laser_ok c)); [discriminate|]. unfold session_parts in H.
    set (ops := farcall_ops c d) in *.
    destruct (do_dwell c0 (Some 1%Q)) as [st1 e1] eqn:E1.
    assert (F1 : at_ st1 false [] [] [] /\ e1 = dwell_toks (Some 1%Q)) by (unfold do_dwell in E1; injection E1 as <- <-; repeat split).
    destruct F1 as [Hat1 ->].
    (* the abstract state after the preamble, the header and the first pause *)
    set (A1 := w_sh (w_vars a0 ([c_zcurr d] ++ []) []) false).
    assert (Hz1 : memN (c_zcurr d) (a_decl A1) = true) by (cbn; now rewrite N.eqb_refl).
    (* the middle part *)
    assert (Hmid : exists st4 e234 a4,
              (if aero c then exec c (OAxisRot false ops) st1 else exec_list c ops st1) = (st4, e234, Ok) /\
              chk false A1 e234 = Some a4 /\ at_ st4 false [] [c_zcurr d] [TDvar [c_zcurr d]] /\
              a_sh a4 = false /\ a_loaded a4 = [] /\ wf e234 = true).
    { destruct (aero c).
      - rewrite exec_axisrot.
        destruct (enter_rot_chk st1 false A1 false [] [] [] Hat1 eq_refl) as [Hat2 C2].
        pose proof (enter_rot_good c st1 false) as [W2 _].
        destruct (enter_rot c st1 false) as [st2 e2]. cbn [fst snd] in *.
        destruct (farcall_ops_ok st2 (w_feed A1 true) [] [] Hwf Hat2 eq_refl eq_refl Hz1) as [st3 [e3 [a3 [Ex [C3 [Hat3 [B1 [B2 B3]]]]]]]].
        pose proof (exec_list_wf c ops st2) as [W3 _]. fold ops in Ex. rewrite Ex in W3 |- *. unfold emitted in W3. cbn [fst snd] in W3.
        destruct (exit_rot_chk st3 a3 false [] _ _ Hat3 B1) as [Hat4 C4].
        pose proof (exit_rot_good c st3) as [W4 _].
        destruct (exit_rot c st3) as [st4 e4]. cbn [fst snd] in *.
        exists st4, (e2 ++ e3 ++ e4), (w_feed a3 true). split; [reflexivity|]. split; [rewrite chk_app, C2; rewrite chk_app, C3; exact C4|].
        split; [exact Hat4|]. split; [exact B1|]. split; [exact B2|]. now rewrite !wf_app, W2, W3, W4.
      - destruct (farcall_ops_ok st1 A1 [] [] Hwf Hat1 eq_refl eq_refl Hz1) as [st3 [e3 [a3 [Ex [C3 [Hat3 [B1 [B2 B3]]]]]]]].
        pose proof (exec_list_wf c ops st1) as [W3 _]. fold ops in Ex. rewrite Ex in W3 |- *. unfold emitted in W3. cbn [fst snd] in W3.
        exists st3, e3, a3. repeat split; auto; apply Hat3. }
    destruct Hmid as [st4 [e234 [a4 [Emid [C4 [Hat4 [Sh4 [Ld4 W4]]]]]]]]. rewrite Emid in H.
    (* the return to the initial point *)
    assert (Hlast : exists st5 e5 a5,
              (if home c then do_move_to c st4 (Some (-2 # 1)%Q) (Some 0%Q) (Some 0%Q) None else (st4, [], Ok)) = (st5, e5, Ok) /\
              chk false a4 e5 = Some a5 /\ c_pre st5 = [TDvar [c_zcurr d]] /\ a_sh a5 = false /\ a_loaded a5 = [] /\ wf e5 = true).
    { destruct (home c).
      - destruct (feed_bad c (speed_pos c)) eqn:Eb.
        + exfalso. unfold do_move_to in H. destruct Hat4 as [S4 _]. rewrite S4, Eb in H. discriminate.
        + pose proof (do_move_to_good c st4 (Some (-2 # 1)%Q) (Some 0%Q) (Some 0%Q) None) as [W5 _].
          assert (Ro : stepr (OMoveTo (Some (-2 # 1)%Q) (Some 0%Q) (Some 0%Q) (Some (speed_pos c))) st4 a4 (w_feed a4 true) false [] [c_zcurr d] [TDvar [c_zcurr d]]).
          { apply rule_moveto; auto. }
          destruct Ro as [st5 [e5 [Ex [C5 Hat5]]]]. cbn [exec] in Ex.
          assert (Esame : do_move_to c st4 (Some (-2 # 1)%Q) (Some 0%Q) (Some 0%Q) None = do_move_to c st4 (Some (-2 # 1)%Q) (Some 0%Q) (Some 0%Q) (Some (speed_pos c))) by reflexivity.
          rewrite Esame, Ex in W5 |- *. unfold emitted in W5. cbn [fst snd] in W5.
          exists st5, e5, (w_feed a4 true). repeat split; auto; apply Hat5.
      - exists st4, [], a4. repeat split; auto; apply Hat4. }
    destruct Hlast as [st5 [e5 [a5 [Elast [C5 [Pr5 [Sh5 [Ld5 W5]]]]]]]]. rewrite Elast in H.
    injection H as <- _ <-. split; [reflexivity|].
    set (body := header_toks c ++ dwell_toks (Some 1%Q) ++ e234 ++ e5).
    assert (Wb : wf body = true) by (unfold body; rewrite !wf_app, W4, W5; reflexivity).
    exists (tree_of (c_pre st5) body), a5. rewrite Pr5.
    split; [exact (parse_leading [TDvar [c_zcurr d]] body eq_refl Wb)|]. split; [|split; assumption].
    unfold tree_of, body. cbn [map app]. cbn [chk chk_s chk_tok header_toks app].
    change (w_sh (w_vars a0 (c_zcurr d :: a_decl a0) (filter (fun v : N => negb (memN v [c_zcurr d])) (a_set a0))) false) with A1.
    rewrite chk_app, chk_dwell. rewrite chk_app, C4. exact C5.
  Qed.
End TS.

(* The statement for the property: the modelled call file of ANY well-formed column - any number of blocks, stacked
   boxes and beds, with or without a power axis, with or without the rotation lines and the homing move - is written,
   parses, and on the reference controller, from every machine state with the shutter closed and absolute mode (other
   programs may be loaded: [rest]) and for every behaviour of the called wall / floor / bed programs that leaves the
   abstraction untouched and raises nothing:
     - no controller error occurs: every FARCALL and REMOVEPROGRAM finds its program loaded, $ZCURR is declared and set
       before use, every feed is positive;
     - outside the called programs the only motion with the shutter open is the pure z step between wall passes;
     - the file ends with the shutter closed and with exactly the programs loaded that were loaded before. *)
Theorem call_file_safe : forall c d, 0 <= digits c <= 9 -> 0 < fmt 6 (speed_pos c) -> col_wf c d ->
  forall file dw o, session c (farcall_ops c d) = Written file dw o ->
  o = Ok /\ exists tree, parse file = Some tree /\
    forall rest call,
      (forall a m p, R rest a m -> R rest a (fst (call m p)) /\ G false (snd (call m p))) ->
      forall m, R rest a0 m ->
        G false (snd (run_list call m tree)) /\
        msh (fst (run_list call m tree)) = false /\
        map fst (mloaded (fst (run_list call m tree))) = rest.
Proof.
  intros c d Hd Hs Hwf file dw o H.
  destruct (farcall_file_checked c Hd d Hs Hwf file dw o H) as [Ho [tree [a' [Hp [Hc [Sh Ld]]]]]].
  split; [exact Ho|]. exists tree. split; [exact Hp|]. intros rest call Hcall m HR.
  destruct (chk_sound false rest call Hcall tree a0 a' Hc m HR) as [[A [_ [_ [L _]]]] Gv].
  split; [exact Gv|]. split; [congruence|]. rewrite L, Ld. reflexivity.
Qed.
