(* Model of the list logic of TrenchColumn._dig (trench.py): numbering of the blocks and removal by index.
   The geometry (difference, buffer, simplify) is an oracle; a block is (sort key, id).

     for block in sorted(blocks, key=<lowest y>):  ... append Trench ...
     for index in sorted(set(remove), reverse=True): del trench_list[index]            (python del semantics)
*)
From Coq Require Import List Bool ZArith QArith Lia.
Import ListNotations.

(* stable insertion sort by a rational key (sorted() is stable) *)
Fixpoint insert_k {A : Type} (key : A -> Q) (x : A) (l : list A) : list A :=
  match l with
  | [] => [x]
  | y :: r => if Qle_bool (key y) (key x) then y :: insert_k key x r else x :: l
  end.
Definition sort_k {A : Type} (key : A -> Q) (l : list A) : list A := fold_left (fun acc x => insert_k key x acc) l [].

(* del l[i] for a python index (negative counts from the end); None = IndexError *)
Definition py_index (len : Z) (i : Z) : option nat :=
  if (0 <=? i)%Z && (i <? len)%Z then Some (Z.to_nat i)
  else if (i <? 0)%Z && (0 <=? len + i)%Z then Some (Z.to_nat (len + i))
  else None.

Fixpoint del_nth {A : Type} (n : nat) (l : list A) : list A :=
  match n, l with
  | O, _ :: r => r
  | S k, x :: r => x :: del_nth k r
  | _, [] => []
  end.

Fixpoint del_all {A : Type} (idx : list Z) (l : list A) : option (list A) :=
  match idx with
  | [] => Some l
  | i :: r =>
      match py_index (Z.of_nat (length l)) i with
      | Some n => del_all r (del_nth n l)
      | None => None
      end
  end.

(* sorted(set(remove), reverse=True) *)
Fixpoint insert_desc (x : Z) (l : list Z) : list Z :=
  match l with
  | [] => [x]
  | y :: r => if (x =? y)%Z then l else if (y <? x)%Z then x :: l else y :: insert_desc x r
  end.
Definition desc_set (l : list Z) : list Z := fold_right insert_desc [] l.

Definition dig {A : Type} (key : A -> Q) (blocks : list A) (remove : list Z) : option (list A) :=
  del_all (desc_set remove) (sort_k key blocks).

(* specification of the removal: the blocks whose number is not listed, in order *)
Fixpoint keep_from {A : Type} (i : Z) (remove : list Z) (l : list A) : list A :=
  match l with
  | [] => []
  | x :: r => if existsb (Z.eqb i) remove then keep_from (i + 1) remove r else x :: keep_from (i + 1) remove r
  end.
