(* Model of Spreadsheet._get_structure_list / _build_struct_list / _fill_spreadsheet (spreadsheet.py).
   Definitions only.  Attribute values are numbers (exact rationals) or strings. *)
From Coq Require Import List Bool Ascii String ZArith QArith Qround.
Import ListNotations.
Open Scope Q_scope.

Inductive aval := ANum (q : Q) | AText (s : string) | ANone.
Inductive ctype := TText | TFloat | TInt.
Record col := { c_tag : string; c_type : ctype; c_pre : bool }.       (* c_pre: the preamble has this field *)

(* a structure: is it a waveguide, its sort key (first open-shutter y) and its attributes per selected column
   (yin / yout already taken from the open-shutter path by [coords] below) *)
Record strct := { s_wg : bool; s_key : Q; s_attr : list aval }.

(* yin / yout of a waveguide: first and last open-shutter y; of a marker: centre x and centre y (as coded) *)
Fixpoint qmin (a : Q) (l : list Q) : Q := match l with [] => a | x :: r => qmin (if Qle_bool x a then x else a) r end.
Fixpoint qmax (a : Q) (l : list Q) : Q := match l with [] => a | x :: r => qmax (if Qle_bool a x then x else a) r end.
Definition coords (wg : bool) (xs ys : list Q) : Q * Q :=
  match xs, ys with
  | x0 :: xr, y0 :: yr =>
      if wg then (y0, last yr y0)
      else ((qmax x0 xr + qmin x0 xr) / 2, (qmax y0 yr + qmin y0 yr) / 2)
  | _, _ => (0, 0)
  end.

(* stable insertion sort of the waveguides by key (list.sort is stable) *)
Fixpoint insert_s (s : strct) (l : list strct) : list strct :=
  match l with
  | [] => [s]
  | t :: r => if Qle_bool (s_key t) (s_key s) then t :: insert_s s r else s :: l
  end.
Definition sort_s (l : list strct) : list strct := fold_left (fun acc s => insert_s s acc) l [].

Definition structure_list (l : list strct) : list strct :=
  sort_s (filter s_wg l) ++ filter (fun s => negb (s_wg s)) l.

(* table values *)
Inductive tv := VNum (q : Q) | VText (s : string).
Definition sentinel : Q := 110000.
Definition limit : Q := 100000.

Fixpoint take (n : nat) (s : string) : string :=
  match n, s with
  | S k, String c r => String c (take k r)
  | _, _ => EmptyString
  end.

Definition qtrunc (q : Q) : Q := inject_Z (if Qle_bool 0 q then Qfloor q else Qceiling q).

Definition entry (ty : ctype) (a : aval) : tv :=
  match ty, a with
  | TText, AText s => VText s
  | TText, _ => VText ""
  | TFloat, ANum q => VNum q
  | TInt, ANum q => VNum (qtrunc q)
  | _, _ => VNum sentinel
  end.

Definition tv_eqb (a b : tv) : bool :=
  match a, b with
  | VNum x, VNum y => Qeq_bool x y
  | VText s, VText t => String.eqb s t
  | _, _ => false
  end.

Definition column_values (k : nat) (ty : ctype) (rows : list strct) : list tv :=
  map (fun s => entry ty (nth k (s_attr s) ANone)) rows.

Definition all_absent (vals : list tv) : bool :=
  forallb (fun v => match v with VNum q => negb (Qle_bool q limit) | VText _ => false end) vals.
Definition is_numeric (ty : ctype) : bool := match ty with TText => false | _ => true end.
Definition constant (vals : list tv) : bool :=
  match vals with [] => true | v :: r => forallb (tv_eqb v) r && negb (tv_eqb v (VText "")) end.

Inductive decision := Keep | DropAbsent | DropConstant (v : tv).

Definition decide (suppr : bool) (c : col) (vals : list tv) : decision :=
  if String.eqb (c_tag c) "name" then Keep
  else if is_numeric (c_type c) && all_absent vals then DropAbsent
  else if constant vals && suppr then DropConstant (hd (VText "") vals)
  else Keep.

(* what the preamble shows for a field: a value, "variable", or the field is removed *)
Inductive pre := PValue (v : tv) | PVariable | PRemoved | PUntouched.
Definition preamble_of (static : bool) (c : col) (d : decision) : pre :=
  if negb (c_pre c) then PUntouched
  else match d with
       | DropConstant v => PValue v
       | DropAbsent => PUntouched
       | Keep => if String.eqb (c_tag c) "name" then PUntouched else if static then PVariable else PRemoved
       end.

Inductive cell := CNum (q : Q) | CText (s : string) | CBlank.
Definition cell_of (v : tv) : cell :=
  match v with
  | VNum q => if Qle_bool limit q then CBlank else CNum q
  | VText EmptyString => CBlank
  | VText s => CText s
  end.

Record sheet := { sh_cols : list string; sh_rows : list (list cell); sh_pre : list (string * pre) }.

Fixpoint indexed {A : Type} (i : nat) (l : list A) : list (nat * A) :=
  match l with [] => [] | x :: r => (i, x) :: indexed (S i) r end.

Definition build (suppr static : bool) (cols : list col) (structs : list strct) : sheet :=
  let rows := structure_list structs in
  let decs := map (fun ic => (fst ic, snd ic, decide suppr (snd ic) (column_values (fst ic) (c_type (snd ic)) rows)))
                  (indexed 0 cols) in
  let kept := filter (fun x => match snd x with Keep => true | _ => false end) decs in
  {| sh_cols := map (fun x => c_tag (snd (fst x))) kept;
     sh_rows := map (fun s => map (fun x => cell_of (entry (c_type (snd (fst x))) (nth (fst (fst x)) (s_attr s) ANone))) kept) rows;
     sh_pre := map (fun x => (c_tag (snd (fst x)), preamble_of static (snd (fst x)) (snd x))) decs |}.
