From Coq Require Import List Bool Ascii String ZArith QArith Permutation Lia.
Import ListNotations.
From Femto Require Import Sheet.Table.
Open Scope Q_scope.

(* ---- ordering of the rows ---- *)

Fixpoint sorted_from (k : Q) (l : list strct) : Prop :=
  match l with [] => True | s :: r => k <= s_key s /\ sorted_from (s_key s) r end.
Definition sorted (l : list strct) : Prop := match l with [] => True | s :: r => sorted_from (s_key s) r end.

Lemma Qle_bool_false_lt : forall a b, Qle_bool a b = false -> b < a.
Proof.
  intros a b H. destruct (Qlt_le_dec b a) as [L|L]; [exact L|]. apply Qle_bool_iff in L. congruence.
Qed.

Lemma insert_sorted_from : forall s l k, k <= s_key s -> sorted_from k l -> sorted_from k (insert_s s l).
Proof.
  induction l as [|t r IH]; intros k Hk Hl; cbn [insert_s].
  - cbn. split; [exact Hk | exact I].
  - destruct Hl as [Hkt Hr]. destruct (Qle_bool (s_key t) (s_key s)) eqn:E.
    + apply Qle_bool_iff in E. cbn [sorted_from]. split; [exact Hkt|]. now apply IH.
    + apply Qle_bool_false_lt in E. cbn [sorted_from]. repeat split; auto. now apply Qlt_le_weak.
Qed.

Lemma insert_sorted : forall s l, sorted l -> sorted (insert_s s l).
Proof.
  intros s [|t r] H; cbn [insert_s]; [exact I|].
  destruct (Qle_bool (s_key t) (s_key s)) eqn:E.
  - apply Qle_bool_iff in E. cbn [sorted]. now apply insert_sorted_from.
  - apply Qle_bool_false_lt in E. cbn [sorted sorted_from]. split; [now apply Qlt_le_weak | exact H].
Qed.

Lemma insert_perm : forall s l, Permutation (s :: l) (insert_s s l).
Proof.
  induction l as [|t r IH]; cbn [insert_s]; [apply Permutation_refl|].
  destruct (Qle_bool (s_key t) (s_key s)); [|apply Permutation_refl].
  eapply Permutation_trans; [apply perm_swap|]. now apply perm_skip.
Qed.

Lemma sort_fold : forall l acc, sorted acc ->
  sorted (fold_left (fun a s => insert_s s a) l acc) /\ Permutation (acc ++ l) (fold_left (fun a s => insert_s s a) l acc).
Proof.
  induction l as [|s r IH]; intros acc H; cbn [fold_left].
  - split; [exact H | now rewrite app_nil_r].
  - destruct (IH (insert_s s acc) (insert_sorted s acc H)) as [S P]. split; [exact S|].
    eapply Permutation_trans; [|exact P].
    change (acc ++ s :: r) with (acc ++ [s] ++ r). rewrite app_assoc. apply Permutation_app_tail.
    eapply Permutation_trans; [apply Permutation_app_comm|]. cbn. apply insert_perm.
Qed.

(* the waveguides are listed in non-decreasing order of their input y, and they are exactly the given ones *)
Theorem sort_s_sorted : forall l, sorted (sort_s l) /\ Permutation l (sort_s l).
Proof. intros l. unfold sort_s. destruct (sort_fold l [] I) as [S P]. split; [exact S | exact P]. Qed.

(* one row per structure: the waveguides (sorted) first, then the markers in their given order *)
Theorem structure_list_rows : forall l,
  Permutation l (structure_list l) /\ List.length (structure_list l) = List.length l
  /\ exists w m, structure_list l = w ++ m /\ forallb s_wg w = true /\ forallb (fun s => negb (s_wg s)) m = true
                 /\ sorted w /\ m = filter (fun s => negb (s_wg s)) l.
Proof.
  intros l. unfold structure_list.
  destruct (sort_s_sorted (filter s_wg l)) as [S P].
  assert (Pall : Permutation l (sort_s (filter s_wg l) ++ filter (fun s => negb (s_wg s)) l)).
  { eapply Permutation_trans; [|apply Permutation_app_tail; exact P].
    clear. induction l as [|s r IH]; [apply Permutation_refl|]. cbn [filter].
    destruct (s_wg s); cbn [negb app]; [now apply perm_skip|].
    eapply Permutation_trans; [apply perm_skip; exact IH|]. apply Permutation_middle. }
  split; [exact Pall|]. split; [symmetry; now apply Permutation_length|].
  exists (sort_s (filter s_wg l)), (filter (fun s => negb (s_wg s)) l). repeat split; auto.
  - apply forallb_forall. intros x Hx. apply (Permutation_in _ (Permutation_sym P)) in Hx.
    now apply filter_In in Hx.
  - apply forallb_forall. intros x Hx. now apply filter_In in Hx.
Qed.

(* ---- which columns are shown ---- *)

(* a column is omitted exactly when it is not the name column and either undefined for every row, or constant
   over all rows (and not the empty string) with suppression on *)
Theorem decide_omitted : forall suppr c vals,
  (decide suppr c vals <> Keep) <->
  (String.eqb (c_tag c) "name" = false /\
   ((is_numeric (c_type c) && all_absent vals = true) \/ (constant vals && suppr = true))).
Proof.
  intros suppr c vals. unfold decide.
  destruct (String.eqb (c_tag c) "name"); [split; [congruence | intros [H _]; discriminate]|].
  destruct (is_numeric (c_type c) && all_absent vals); [split; [auto | discriminate]|].
  destruct (constant vals && suppr); split; try discriminate; try congruence; auto.
  intros [_ [H|H]]; discriminate.
Qed.

(* an omitted constant is shown in the preamble when the preamble has that field; a kept column that has a
   preamble field is marked "variable" under the static preamble and removed from it otherwise *)
Theorem preamble_rule : forall static c d, c_pre c = true -> String.eqb (c_tag c) "name" = false ->
  preamble_of static c d =
  match d with DropConstant v => PValue v | DropAbsent => PUntouched | Keep => if static then PVariable else PRemoved end.
Proof. intros static c d Hp Hn. unfold preamble_of. rewrite Hp, Hn. destruct d; reflexivity. Qed.

(* ---- the cells ---- *)

Theorem build_rows : forall suppr static cols structs,
  List.length (sh_rows (build suppr static cols structs)) = List.length structs
  /\ Forall (fun r => List.length r = List.length (sh_cols (build suppr static cols structs))) (sh_rows (build suppr static cols structs)).
Proof.
  intros. unfold build. cbn [sh_rows sh_cols]. rewrite map_length. split.
  - apply (proj1 (proj2 (structure_list_rows structs))).
  - apply Forall_forall. intros r Hr. apply in_map_iff in Hr as [s [<- _]]. now rewrite !map_length.
Qed.

(* a cell shows the attribute of its structure: the number, the text, or blank when the structure has no such
   attribute (for numbers below the sentinel limit) *)
Theorem cell_shows_attribute : forall ty a,
  cell_of (entry ty a) =
  match ty, a with
  | TText, AText EmptyString => CBlank
  | TText, AText s => CText s
  | TText, _ => CBlank
  | TFloat, ANum q => if Qle_bool limit q then CBlank else CNum q
  | TInt, ANum q => if Qle_bool limit (qtrunc q) then CBlank else CNum (qtrunc q)
  | _, _ => CBlank
  end.
Proof. intros ty a. destruct ty, a as [q|s|]; try reflexivity; destruct s; reflexivity. Qed.

(* genuine values at or above the limit collide with the sentinel (known finding): refutation of
   "every cell equals the attribute" for such values *)
Theorem sentinel_collision_refuted : exists q, cell_of (entry TFloat (ANum q)) = CBlank.
Proof. exists 120000. reflexivity. Qed.
