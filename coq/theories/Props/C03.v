(* C03 - Every emitted program is well-formed and shutter-safe, even after errors.
   Statements only; proofs in Ctl/ParseProofs.v, Pgm/OpsProofs.v, Pgm/SessionProofs.v. *)
From Coq Require Import List Bool ZArith NArith QArith.
Import ListNotations.
From Femto Require Import Base.Num Ctl.Tok Ctl.Machine Ctl.ParseProofs Ctl.Dwell Ctl.Safety Geo.Rigid Pgm.Ops Pgm.OpsProofs
  Pgm.SessionProofs Pgm.SafeProofs Pgm.CalmProofs Pgm.SessionSafe Pgm.Reuse Pgm.ReuseProofs.

(* the parser inverts the printer for every loop tree *)
Theorem C03_parse_flatten : forall l, wf l = true -> parse (flatten l) = Some l.
Proof. exact parse_flatten. Qed.
Print Assumptions C03_parse_flatten.

(* Every file written by a session - any op tree, any exception position - is the DVAR preamble followed by
   the printed form of a well-formed loop tree: loops are balanced and properly nested and every NEXT
   names the variable of its FOR, also when user code raised inside the context. *)
Theorem C03_balanced : forall c ops file d o,
  session c ops = Written file d o ->
  exists pre body,
    file = pre ++ flatten body /\ forallb is_dvar pre = true /\ wf body = true
    /\ parse file = Some (tree_of pre body)
    /\ (d == dw (tree_of pre body))%Q.
Proof. exact session_tree. Qed.
Print Assumptions C03_balanced.

(* The main statement.  For every configuration with printable digits (and a positioning speed that does not print as
   F0.000000), every tree of public operations of the property's quantifier - writes of closed paths, positioning,
   homing, nested REPEAT / FOR / axis-rotation blocks, dwell, comments, set-home, load / call / buffered call / remove,
   declarations, tic / toc, and user code raising at any position (pub: no direct shutter command, no raw instruction) -
   the file that the session writes parses to a loop tree, and on the reference controller, from any machine state with
   the rotation off and for any well-behaved sub-programs, that tree
     - raises no error other than a call / removal of a program that is not loaded (loop variables are declared, feeds
       are positive, numbers are fixed-point, loop counts positive) - the exception is the recorded finding below;
     - ends with the shutter closed;
     - ends with the axis rotation deactivated.
   This holds for the file written when user code raised inside the context, too. *)
Theorem C03_no_error_shutter_rotation : forall c ops file d o,
  cfg_ok c -> pubs ops = true ->
  session c ops = Written file d o ->
  exists tree, parse file = Some tree /\
    forall call, call_wb call -> forall m, mrot m = false ->
      only_notloaded (snd (run_list call m tree)) /\
      msh (fst (run_list call m tree)) = false /\
      mrot (fst (run_list call m tree)) = false.
Proof. exact session_safe. Qed.
Print Assumptions C03_no_error_shutter_rotation.

(* at every operation boundary inside the session the shutter is tracked closed and the emitted tree, run from a
   machine with the shutter closed, ends with the shutter closed and the rotation off or untouched *)
Theorem C03_operation_boundaries : forall call,
  (forall d m p, minv d m -> minv d (fst (call m p)) /\ only_notloaded (snd (call m p))) ->
  (forall m p, msh (fst (call m p)) = msh m /\ mrot (fst (call m p)) = mrot m) ->
  forall D c, cfg_ok c -> forall o, pub o = true -> forall st,
  c_sh st = false -> sub (c_dvars (final (exec c o st))) D ->
  c_sh (final (exec c o st)) = false /\ calm call D (emitted (exec c o st)).
Proof. intros call H1 H2 D c Hc o Hp st. exact (proj2 (exec_CS call H1 H2 D c Hc o Hp st)). Qed.
Print Assumptions C03_operation_boundaries.

(* positioning closes the shutter first, whatever the tracked state: every move it commands is shutter-closed *)
Theorem C03_positioning_moves_closed : forall call c st x y z sp m, msh m = c_sh st ->
  c_sh (final (do_move_to c st x y z sp)) = false /\
  moves_closed (snd (run_list call m (emitted (do_move_to c st x y z sp)))).
Proof. exact move_to_closes_first. Qed.
Print Assumptions C03_positioning_moves_closed.

(* the opaque sub-program of the harness is well behaved; non-vacuity of the main statement on a session with a
   rotation block, nested loops, a closed path and an exception inside the inner loop *)
Theorem C03_ext_call_well_behaved : call_wb ext_call.
Proof. exact ext_call_wb. Qed.
Print Assumptions C03_ext_call_well_behaved.

Example C03_example :
  let c := {| laser_ok := true; laser_z := false; digits := 6; long_p := Some (1#2); short_p := Some (1#10);
              speed_pos := 5; home := false; aero := true; tc := neutral |} in
  let path := [ {| px := 0; py := 0; pz := 0; pf := 5; ps := 0 |}; {| px := 0; py := 0; pz := 0; pf := 1; ps := 1 |};
                {| px := 1; py := 0; pz := 0; pf := 1; ps := 1 |}; {| px := 1; py := 0; pz := 0; pf := 1; ps := 0 |} ] in
  let ops := [ODvar [7%N]; OAxisRot true [OFor (Some 7%N) (Some 2%Z) [ORepeat (Some 3%Z) [OWrite path; ORaise; OGoOrigin]]]] in
  pubs ops = true /\
  match session c ops with
  | Written file d (Raised 3%N) =>
      match parse file with
      | Some tree => let '(m, ev) := run_ext m0 tree in
                     (match errors ev with [] => true | _ => false end) && negb (msh m) && negb (mrot m)
                     && (6 <=? Z.of_nat (List.length (moves ev)))%Z
      | None => false
      end
  | _ => false
  end = true.
Proof. vm_compute. split; reflexivity. Qed.
Print Assumptions C03_example.

(* calls to (and removals of) programs that are not loaded are refused and emit nothing *)
Theorem C03_refuses_unloaded : forall c st f task, f_pgm f = true -> mem (f_base f) (c_loaded st) = false ->
  do_farcall c st f = (st, [], Raised FNF) /\ do_buffered c st f task = (st, [], Raised FNF)
  /\ do_remove st f task = (st, [], Raised FNF).
Proof. exact refuses_unloaded. Qed.
Print Assumptions C03_refuses_unloaded.

(* The clause "every called sub-program was loaded before and is unloaded after use" does NOT hold of the
   faithful model for loop bodies that change the loaded set: the compiler's bookkeeping is linear while the
   controller executes the body once per iteration.  Witness (known finding, see known_findings.json). *)
Theorem C03_loaded_in_loop_refuted : exists c ops file d,
  session c ops = Written file d Ok /\
  exists tree, parse file = Some tree /\ In E_notloaded (errors (snd (run_ext m0 tree))).
Proof.
  exists {| laser_ok := true; laser_z := false; digits := 6; long_p := None; short_p := None;
            speed_pos := 5; home := false; aero := false; tc := neutral |}.
  exists [OLoad {| f_arg := 1; f_base := 1; f_pgm := true |} 2;
          ORepeat (Some 2%Z) [OFarcall {| f_arg := 1; f_base := 1; f_pgm := true |};
                              ORemove {| f_arg := 1; f_base := 1; f_pgm := true |} 2]].
  eexists. eexists. split; [vm_compute; reflexivity|].
  eexists. split; [vm_compute; reflexivity|]. vm_compute. auto.
Qed.
Print Assumptions C03_loaded_in_loop_refuted.

(* One compiler object, several files (close() and go on, or the context entered again).  The file that follows a written
   one starts with nothing declared, an empty DVAR preamble and a zero dwell total, whatever the earlier session did ... *)
Theorem C03_next_file_starts_clean : forall st,
  c_dvars (st_dwell (after_close st) 0%Q) = [] /\ c_pre (st_dwell (after_close st) 0%Q) = [] /\ c_dwell (st_dwell (after_close st) 0%Q) = 0%Q.
Proof. exact second_session_start. Qed.
Print Assumptions C03_next_file_starts_clean.
(* ... and when that session left the shutter tracked closed and no program loaded, the next file is exactly the file a new
   object would write: C03_balanced, C03_no_error_shutter_rotation (and C12_dwell) hold of it as they do of [session] *)
Theorem C03_reused_compiler : forall st c ops, c_sh st = false -> c_loaded st = [] ->
  fst (session_gen (after_close st) c ops) = session c ops.
Proof. exact reuse_is_fresh. Qed.
Print Assumptions C03_reused_compiler.
