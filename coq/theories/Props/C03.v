(* C03 - Every emitted program is well-formed and shutter-safe, even after errors.
   Statements only; proofs in Ctl/ParseProofs.v, Pgm/OpsProofs.v, Pgm/SessionProofs.v. *)
From Coq Require Import List Bool ZArith NArith QArith.
Import ListNotations.
From Femto Require Import Base.Num Ctl.Tok Ctl.Machine Ctl.ParseProofs Ctl.Dwell Geo.Rigid Pgm.Ops Pgm.OpsProofs
  Pgm.SessionProofs.

(* the parser inverts the printer for every loop tree *)
Theorem C03_parse_flatten : forall l, wf l = true -> parse (flatten l) = Some l.
Proof. exact parse_flatten. Qed.
Print Assumptions C03_parse_flatten.

(* Every file written by a session - any op tree, any exception position - is the DVAR preamble followed by
   the printed form of a well-formed loop tree: loops are balanced and properly nested and every NEXT
   names the variable of its FOR, also when user code raised inside the context. *)
Theorem C03_balanced : forall c ops file d o,
  session c ops = Written file d o ->
  exists pre body,
    file = pre ++ flatten body /\ forallb is_dvar pre = true /\ wf body = true
    /\ parse file = Some (tree_of pre body)
    /\ (d == dw (tree_of pre body))%Q.
Proof. exact session_tree. Qed.
Print Assumptions C03_balanced.

(* calls to (and removals of) programs that are not loaded are refused and emit nothing *)
Theorem C03_refuses_unloaded : forall c st f task, f_pgm f = true -> mem (f_base f) (c_loaded st) = false ->
  do_farcall c st f = (st, [], Raised FNF) /\ do_buffered c st f task = (st, [], Raised FNF)
  /\ do_remove st f task = (st, [], Raised FNF).
Proof. exact refuses_unloaded. Qed.
Print Assumptions C03_refuses_unloaded.

(* The clause "every called sub-program was loaded before and is unloaded after use" does NOT hold of the
   faithful model for loop bodies that change the loaded set: the compiler's bookkeeping is linear while the
   controller executes the body once per iteration.  Witness (known finding, see known_findings.json). *)
Theorem C03_loaded_in_loop_refuted : exists c ops file d,
  session c ops = Written file d Ok /\
  exists tree, parse file = Some tree /\ In E_notloaded (errors (snd (run_ext m0 tree))).
Proof.
  exists {| laser_ok := true; laser_z := false; digits := 6; long_p := None; short_p := None;
            speed_pos := 5; home := false; aero := false; tc := neutral |}.
  exists [OLoad {| f_arg := 1; f_base := 1; f_pgm := true |} 2;
          ORepeat (Some 2%Z) [OFarcall {| f_arg := 1; f_base := 1; f_pgm := true |};
                              ORemove {| f_arg := 1; f_base := 1; f_pgm := true |} 2]].
  eexists. eexists. split; [vm_compute; reflexivity|].
  eexists. split; [vm_compute; reflexivity|]. vm_compute. auto.
Qed.
Print Assumptions C03_loaded_in_loop_refuted.
