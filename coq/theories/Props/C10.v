(* C10 - No NaN or infinity ever reaches a path or a program. Statements only. *)
From Coq Require Import List Bool ZArith QArith.
Import ListNotations.
From Femto Require Import Base.Num Path.Finite.
Open Scope Q_scope.

(* whatever blocks the builders hand to the single store point, in whatever order: the stored trajectory only
   holds finite coordinates and finite positive feeds (a refused block raises and leaves the path as it was) *)
Theorem C10_history_invariant : forall blks, Inv (run_blocks blks).
Proof. exact history_inv. Qed.
Print Assumptions C10_history_invariant.

Theorem C10_step_preserves : forall path blk, Inv path -> Inv (step path blk).
Proof. exact step_inv. Qed.
Print Assumptions C10_step_preserves.

Theorem C10_stored_points_finite : forall path p, Inv path -> In p path ->
  exists x y z f s, ex p = Fin x /\ ey p = Fin y /\ ez p = Fin z /\ ef p = Fin f /\ es p = Fin s /\ 0 < f.
Proof. exact inv_points. Qed.
Print Assumptions C10_stored_points_finite.

Theorem C10_printed_numbers_finite : forall vals out, format_args vals = Some out ->
  forall v, In (Some v) vals -> exists q, v = Fin q.
Proof. exact format_args_finite. Qed.
Print Assumptions C10_printed_numbers_finite.

(* non-vacuity: an overflowing cast and a NaN are refused, a good block is stored *)
Example C10_example :
  let good := {| ex := Fin 1; ey := Fin 2; ez := Fin 0; ef := Fin 5; es := Fin 1 |} in
  let big := {| ex := Fin (inject_Z (10 ^ 39)); ey := Fin 0; ez := Fin 0; ef := Fin 5; es := Fin 1 |} in
  let nan := {| ex := NaN; ey := Fin 0; ez := Fin 0; ef := Fin 5; es := Fin 1 |} in
  let slow := {| ex := Fin 0; ey := Fin 0; ez := Fin 0; ef := Fin 0; es := Fin 1 |} in
  length (run_blocks [[good]; [big]; [nan; good]; [slow]; [good; good]]) = 3%nat.
Proof. vm_compute. reflexivity. Qed.
