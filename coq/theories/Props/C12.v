(* C12 - Reported dwell and fabrication times agree with the program.
   Statements only; proofs in Ctl/Dwell.v, Pgm/OpsProofs.v, Pgm/SessionProofs.v. *)
From Coq Require Import List Bool ZArith NArith QArith.
Import ListNotations.
From Femto Require Import Base.Num Ctl.Tok Ctl.Machine Ctl.Dwell Geo.Rigid Geo.RigidProofs Pgm.Ops Pgm.OpsProofs Pgm.SessionProofs.
Open Scope Q_scope.

(* For every configuration and every tree of public operations - any nesting of REPEAT / FOR / axis-rotation
   blocks, pauses None / 0 / negative / positive, user exceptions at any position - the file that the
   session writes parses to a loop tree, and running that tree on the reference controller from any machine
   state executes exactly the dwell the compiler reports (loop bodies counted once per iteration). *)
Theorem C12_dwell : forall c ops file d o,
  session c ops = Written file d o ->
  exists tree, parse file = Some tree /\
    forall call, (forall m p, dwell_sum (snd (call m p)) == 0) ->
    forall m, dwell_sum (snd (run_list call m tree)) == d.
Proof. exact session_dwell. Qed.
Print Assumptions C12_dwell.

(* the accounting step by step: each operation adds to the reported dwell the static dwell of what it emits *)
Theorem C12_dwell_per_op : forall c o st,
  c_dwell (final (exec c o st)) == c_dwell st + dw (emitted (exec c o st)).
Proof. exact exec_acct. Qed.
Print Assumptions C12_dwell_per_op.

(* the controller executes the static dwell of a tree whatever its state *)
Theorem C12_executed_dwell : forall call, (forall m p, dwell_sum (snd (call m p)) == 0) ->
  forall l m, dwell_sum (snd (run_list call m l)) == dw l.
Proof. exact executed_dwell. Qed.
Print Assumptions C12_executed_dwell.

(* the fabrication-time clause, move by move: the compiled program visits the transformed path points in order (C01_replay),
   and with a genuine rotation and the identity index ratio the transformation preserves the length of every step, so
   distance over programmed feed summed over a pass is the same for the program and for the stored path; the remaining
   difference - printing with d decimals, float32 storage - is bounded by C01_format_error and checked on instances *)
Theorem C12_step_lengths_preserved : forall c p q, t_c c * t_c c + t_s c * t_s c == 1 -> t_k c == 1 ->
  (px3 (tr c p) - px3 (tr c q)) * (px3 (tr c p) - px3 (tr c q)) +
  (py3 (tr c p) - py3 (tr c q)) * (py3 (tr c p) - py3 (tr c q)) +
  (pz3 (tr c p) - pz3 (tr c q)) * (pz3 (tr c p) - pz3 (tr c q)) ==
  (px3 p - px3 q) * (px3 p - px3 q) + (py3 p - py3 q) * (py3 p - py3 q) + (pz3 p - pz3 q) * (pz3 p - pz3 q).
Proof. exact tr_length3. Qed.
Print Assumptions C12_step_lengths_preserved.

(* non-vacuity: a dwell inside REPEAT 3 inside FOR 2, with an exception after the first inner op *)
Example C12_example :
  let c := {| laser_ok := true; laser_z := false; digits := 6; long_p := Some (1#2); short_p := Some (1#10);
              speed_pos := 5; home := false; aero := false; tc := neutral |} in
  match session c [ODvar [7%N]; OFor (Some 7%N) (Some 2%Z) [ORepeat (Some 3%Z) [ODwell (Some (1#4)); ORaise; ODwell (Some 1)]]] with
  | Written file d (Raised 3%N) =>
      match parse file with
      | Some tree => Qeq_bool (dwell_sum (snd (run m0 tree))) d && Qeq_bool d (5 # 2)
      | None => false
      end
  | _ => false
  end = true.
Proof. vm_compute. reflexivity. Qed.
