(* C06 - Trench programs fire only inside trench footprints and cut the full depth. Statements only.
   The exposure and call-discipline clauses are decided by running femto's exported tree on the reference controller
   (Harness/C06.v) together with the token-level tie to the modelled writers; the depth clause is proved here. *)
From Coq Require Import ZArith QArith Qround List.
Import ListNotations.
From Femto Require Import Base.Num Ctl.Tok Ctl.Machine Ctl.Static Geo.Rigid Pgm.Ops Trench.TreeProg Trench.TreeProofs Trench.TreeSafe.
Open Scope Q_scope.

(* wall passes of a level are exactly deltaz apart ... *)
Theorem C06_pass_step : forall h zoff dz b k, pass h zoff dz b (k + 1) - pass h zoff dz b k == dz.
Proof. exact pass_step. Qed.
Print Assumptions C06_pass_step.

(* ... start at the offset ... *)
Theorem C06_first_pass : forall h zoff dz, pass h zoff dz 0 0 == zoff.
Proof. exact pass_first. Qed.
Print Assumptions C06_first_pass.

(* ... the last of the n_repeat = ceil((h_box - z_off)/deltaz) passes of a level is within deltaz of the top of its box ... *)
Theorem C06_level_reaches_top : forall h zoff dz, 0 < dz -> zoff <= 0 -> 0 < h ->
  forall b, inject_Z (b + 1) * h - dz <= pass h zoff dz b (nrep h zoff dz - 1).
Proof. intros h zoff dz H1 H2 H3. exact (pass_last_reaches_top h zoff dz H1). Qed.
Print Assumptions C06_level_reaches_top.

(* ... the next level starts at most deltaz above it and not above the top of the box: no depth of the stack is farther
   than deltaz from a pass *)
Theorem C06_levels_chain : forall h zoff dz, 0 < dz -> zoff <= 0 -> 0 < h ->
  forall b, pass h zoff dz (b + 1) 0 - pass h zoff dz b (nrep h zoff dz - 1) <= dz
            /\ pass h zoff dz (b + 1) 0 <= inject_Z (b + 1) * h.
Proof.
  intros h zoff dz H1 H2 H3 b. split.
  - exact (next_level_within_step h zoff dz H1 H2 b).
  - exact (level_starts_in_previous_box h zoff dz H2 b).
Qed.
Print Assumptions C06_levels_chain.

Theorem C06_at_least_one_pass : forall h zoff dz, 0 < dz -> zoff <= 0 -> 0 < h -> (1 <= nrep h zoff dz)%Z.
Proof. intros h zoff dz H1 H2 H3. exact (nrep_pos h zoff dz H1 H2 H3). Qed.
Print Assumptions C06_at_least_one_pass.

(* sub-program files hold nothing but moves: the shutter can only be switched by the calling file *)
Theorem C06_chain_files_are_moves : forall c speed pts, forallb is_g1 (array2d c speed pts) = true.
Proof. exact array2d_moves. Qed.
Print Assumptions C06_chain_files_are_moves.

(* ---- the call discipline and the exposure structure, for every column ---- *)

(* the static checker is sound for the reference controller: if it accepts a tree from an abstract state, then from every
   machine state that the abstract state describes the tree runs without any controller error, with every open-shutter
   move a pure z move (open_xy = false), and ends in a state described by the abstract result *)
Theorem C06_static_checker_sound : forall (open_xy : bool) (rest : list N) call,
  (forall a m p, R rest a m -> R rest a (fst (call m p)) /\ G open_xy (snd (call m p))) ->
  forall l a a', chk open_xy a l = Some a' -> forall m, R rest a m ->
  R rest a' (fst (run_list call m l)) /\ G open_xy (snd (run_list call m l)).
Proof. exact chk_sound. Qed.
Print Assumptions C06_static_checker_sound.

(* The modelled call file (FARCALLnnn.pgm) of ANY well-formed column - any number of blocks, stacked boxes and bed blocks,
   with or without a power axis, rotation lines, homing move - is written, parses, and on the reference controller, from
   every machine state with the shutter closed (other programs may be loaded: rest) and for every behaviour of the called
   wall / floor / bed programs that raises nothing and leaves the abstraction untouched:
     - no controller error: every FARCALL and REMOVEPROGRAM finds its program loaded, $ZCURR is declared and set before
       it is used, feeds are positive, the repeat count is positive;
     - outside the called programs the only motion with the shutter open is the pure z step between wall passes (never
       a travel between blocks, levels or to the first vertex);
     - it ends with the shutter closed and exactly the programs loaded that were loaded before (everything it loaded was
       removed). *)
Theorem C06_call_file_safe : forall c d, (0 <= digits c <= 9)%Z -> (0 < fmt 6 (speed_pos c))%Z -> col_wf c d ->
  forall file dw o, session c (farcall_ops c d) = Written file dw o ->
  o = Ok /\ exists tree, parse file = Some tree /\
    forall rest call,
      (forall a m p, R rest a m -> R rest a (fst (call m p)) /\ G false (snd (call m p))) ->
      forall m, R rest TreeSafe.a0 m ->
        G false (snd (run_list call m tree)) /\
        msh (fst (run_list call m tree)) = false /\
        map fst (mloaded (fst (run_list call m tree))) = rest.
Proof. exact call_file_safe. Qed.
Print Assumptions C06_call_file_safe.

(* non-vacuity: a column with two blocks, two stacked boxes, one bed block and a power axis is well-formed, its call file
   is written and accepted by the checker *)
Example C06_example :
  let c := {| laser_ok := true; laser_z := false; digits := 6; long_p := Some (1#2); short_p := Some (1#10);
              speed_pos := 5; home := true; aero := true; tc := neutral |} in
  let fn := fun n : N => {| f_arg := n; f_base := n; f_pgm := true |} in
  let blk := fun n : N => {| b_first := (1 # 2, 1 # 4); b_wall_f := fn n; b_wall_n := fn n; b_floor_f := fn (n + 1)%N; b_floor_n := fn (n + 1)%N |} in
  let d := {| c_blocks := [blk 10%N; blk 20%N]; c_beds := [ {| d_first := (0, 0); d_f := fn 30%N; d_n := fn 30%N |} ];
              c_nboxz := 2; c_nrepeat := 3; c_hbox := 3 # 40; c_zoff := - (1 # 50); c_dz := 1 # 100; c_u := [30; 33];
              c_speed_closed := 5; c_zcurr := 7%N |} in
  match session c (farcall_ops c d) with
  | Written file _ Ok =>
      match parse file with
      | Some tree => match chk false TreeSafe.a0 tree with Some a => negb (a_sh a) && (Nat.eqb (List.length (a_loaded a)) 0) | None => false end
      | None => false
      end
  | _ => false
  end = true.
Proof. vm_compute. reflexivity. Qed.
Print Assumptions C06_example.
