(* C06 - Trench programs fire only inside trench footprints and cut the full depth. Statements only.
   The exposure and call-discipline clauses are decided by running femto's exported tree on the reference controller
   (Harness/C06.v) together with the token-level tie to the modelled writers; the depth clause is proved here. *)
From Coq Require Import ZArith QArith Qround List.
Import ListNotations.
From Femto Require Import Base.Num Ctl.Tok Geo.Rigid Pgm.Ops Trench.TreeProg Trench.TreeProofs.
Open Scope Q_scope.

(* wall passes of a level are exactly deltaz apart ... *)
Theorem C06_pass_step : forall h zoff dz b k, pass h zoff dz b (k + 1) - pass h zoff dz b k == dz.
Proof. exact pass_step. Qed.
Print Assumptions C06_pass_step.

(* ... start at the offset ... *)
Theorem C06_first_pass : forall h zoff dz, pass h zoff dz 0 0 == zoff.
Proof. exact pass_first. Qed.
Print Assumptions C06_first_pass.

(* ... the last of the n_repeat = ceil((h_box - z_off)/deltaz) passes of a level is within deltaz of the top of its box ... *)
Theorem C06_level_reaches_top : forall h zoff dz, 0 < dz -> zoff <= 0 -> 0 < h ->
  forall b, inject_Z (b + 1) * h - dz <= pass h zoff dz b (nrep h zoff dz - 1).
Proof. intros h zoff dz H1 H2 H3. exact (pass_last_reaches_top h zoff dz H1). Qed.
Print Assumptions C06_level_reaches_top.

(* ... the next level starts at most deltaz above it and not above the top of the box: no depth of the stack is farther
   than deltaz from a pass *)
Theorem C06_levels_chain : forall h zoff dz, 0 < dz -> zoff <= 0 -> 0 < h ->
  forall b, pass h zoff dz (b + 1) 0 - pass h zoff dz b (nrep h zoff dz - 1) <= dz
            /\ pass h zoff dz (b + 1) 0 <= inject_Z (b + 1) * h.
Proof.
  intros h zoff dz H1 H2 H3 b. split.
  - exact (next_level_within_step h zoff dz H1 H2 b).
  - exact (level_starts_in_previous_box h zoff dz H2 b).
Qed.
Print Assumptions C06_levels_chain.

Theorem C06_at_least_one_pass : forall h zoff dz, 0 < dz -> zoff <= 0 -> 0 < h -> (1 <= nrep h zoff dz)%Z.
Proof. intros h zoff dz H1 H2 H3. exact (nrep_pos h zoff dz H1 H2 H3). Qed.
Print Assumptions C06_at_least_one_pass.

(* sub-program files hold nothing but moves: the shutter can only be switched by the calling file *)
Theorem C06_chain_files_are_moves : forall c speed pts, forallb is_g1 (array2d c speed pts) = true.
Proof. exact array2d_moves. Qed.
Print Assumptions C06_chain_files_are_moves.
