(* C19 - Saved objects and parameter files round-trip to where the caller said. Statements only. *)
From Coq Require Import List Bool Ascii String NArith.
Import ListNotations.
From Femto Require Import Persist.Paths Persist.PathsProofs.
Open Scope string_scope.

(* export: the directory the caller named is kept ... *)
Theorem C19_export_keeps_directory : forall s, dirpart (export_target s) = dirpart s.
Proof. exact export_keeps_dir. Qed.
Print Assumptions C19_export_keeps_directory.

(* ... and '.pkl' is added only when the suffix is missing *)
Theorem C19_export_suffix_rule : forall s,
  (suffix s = "" -> export_target s = dirpart s ++ name s ++ ".pkl") /\ (suffix s <> "" -> export_target s = s).
Proof. exact export_suffix_rule. Qed.
Print Assumptions C19_export_suffix_rule.

(* parameter files are read from the path given *)
Theorem C19_yaml_keeps_directory : forall s, dirpart (yaml_target s) = dirpart s.
Proof. exact yaml_keeps_dir. Qed.
Print Assumptions C19_yaml_keeps_directory.

Theorem C19_yaml_path_given : forall s, suffix s <> "" -> yaml_target s = s.
Proof. exact yaml_path_given. Qed.
Print Assumptions C19_yaml_path_given.

(* every non-default section inherits each DEFAULT key it does not define and overrides those it does *)
Theorem C19_default_merge : forall section default k, NoDup (map fst section) ->
  dlookup k (merge default section) = match dlookup k section with Some v => Some v | None => dlookup k default end.
Proof. exact merge_lookup. Qed.
Print Assumptions C19_default_merge.

Theorem C19_sections : forall doc, NoDup (map fst doc) ->
  List.length (load_doc doc) = List.length (filter (fun sd => negb (String.eqb (fst sd) "DEFAULT")) doc).
Proof. exact load_doc_length. Qed.
Print Assumptions C19_sections.

(* from_dict uses exactly the keys that are constructor parameters *)
Theorem C19_from_dict_keys : forall sig d k v,
  In (k, v) (filter_keys sig d) <-> In (k, v) d /\ existsb (String.eqb k) sig = true.
Proof. exact filter_keys_spec. Qed.
Print Assumptions C19_from_dict_keys.

(* compiled programs go to export_dir/<name>.pgm *)
Theorem C19_close_target : forall e f, e <> "" ->
  close_target e f = e ++ "/" ++ dirpart f ++ stem f ++ ".pgm".
Proof. exact close_in_export_dir. Qed.
Print Assumptions C19_close_target.

Example C19_example :
  export_target "out/deep/x" = "out/deep/x.pkl" /\ export_target "d/x.pkl" = "d/x.pkl"
  /\ yaml_target "cfg/p.yaml" = "cfg/p.yaml" /\ close_target "out" "dev.v2" = "out/dev.pgm"
  /\ load_doc [("wg", [("a", 1%N)]); ("DEFAULT", [("a", 2%N); ("b", 3%N)]); ("mk", [("c", 4%N)])]
     = [[("a", 1%N); ("b", 3%N)]; [("a", 2%N); ("b", 3%N); ("c", 4%N)]].
Proof. repeat split; reflexivity. Qed.
