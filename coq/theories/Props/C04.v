(* C04 - Waveguide segments chain continuously and land on the documented point. Statements only.
   Real-number theorems use the standard-library axioms of Reals (and classic, through acos). *)
From Coq Require Import Reals QArith List.
Import ListNotations.
From Femto Require Import Path.WgReal Path.Laser.

Open Scope R_scope.

Theorem C04_arc_starts_at_path_end : forall r x0 y0 t0, arcx r x0 t0 t0 = x0 /\ arcy r y0 t0 t0 = y0.
Proof. exact arc_starts_at_current. Qed.
Print Assumptions C04_arc_starts_at_path_end.

Theorem C04_arc_points_on_circle : forall r x0 y0 t0 t,
  (arcx r x0 t0 t - (x0 - r * cos t0)) * (arcx r x0 t0 t - (x0 - r * cos t0)) +
  (arcy r y0 t0 t - (y0 - r * sin t0)) * (arcy r y0 t0 t - (y0 - r * sin t0)) = r * r.
Proof. exact arc_on_circle. Qed.
Print Assumptions C04_arc_points_on_circle.

(* a circular S-bend of lateral offset dy and radius r advances x by the S-bend length and y by dy *)
Theorem C04_sbend_up : forall r dy, 0 < r -> Rabs dy <= 4 * r -> forall x0 y0,
  let x1 := arcx r x0 (3 * PI / 2) (3 * PI / 2 + a r dy) in
  let y1 := arcy r y0 (3 * PI / 2) (3 * PI / 2 + a r dy) in
  let x2 := arcx r x1 (PI / 2 + a r dy) (PI / 2) in
  let y2 := arcy r y1 (PI / 2 + a r dy) (PI / 2) in
  x2 = x0 + L r dy /\ y2 = y0 + Rabs dy.
Proof. exact sbend_up_end. Qed.
Print Assumptions C04_sbend_up.

Theorem C04_sbend_down : forall r dy, 0 < r -> Rabs dy <= 4 * r -> forall x0 y0,
  let x1 := arcx r x0 (PI / 2) (PI / 2 - a r dy) in
  let y1 := arcy r y0 (PI / 2) (PI / 2 - a r dy) in
  let x2 := arcx r x1 (3 * PI / 2 - a r dy) (3 * PI / 2) in
  let y2 := arcy r y1 (3 * PI / 2 - a r dy) (3 * PI / 2) in
  x2 = x0 + L r dy /\ y2 = y0 - Rabs dy.
Proof. exact sbend_down_end. Qed.
Print Assumptions C04_sbend_down.

Theorem C04_sbend_length : forall r dy, 0 < r -> Rabs dy <= 4 * r ->
  L r dy * L r dy = 4 * r * Rabs dy - dy * dy /\ 0 <= L r dy.
Proof. exact sbend_len_sq. Qed.
Print Assumptions C04_sbend_length.

(* couplers and interferometers come back to the entry y after two (four) S-bend lengths plus the interaction
   (and arm) lengths *)
Theorem C04_coupler : forall r dy x0 y0 int_len, 0 < r -> Rabs dy <= 4 * r ->
  let Ls := L r dy in
  (x0 + Ls + Rabs int_len + Ls = x0 + (2 * Ls + Rabs int_len)) /\ (y0 + Rabs dy - Rabs dy = y0).
Proof. exact coupler_end. Qed.
Print Assumptions C04_coupler.

Theorem C04_mzi : forall r dy x0 y0 int_len arm, 0 < r -> Rabs dy <= 4 * r ->
  let Ls := L r dy in
  x0 + (2 * Ls + Rabs int_len) + Rabs arm + (2 * Ls + Rabs int_len) = x0 + (4 * Ls + 2 * Rabs int_len + Rabs arm)
  /\ (y0 + Rabs dy - Rabs dy) + Rabs dy - Rabs dy = y0.
Proof. exact mzi_end. Qed.
Print Assumptions C04_mzi.

(* sinusoidal segments start at the current end, reach (dx, dy), bridges return to the original depth and
   peak at z0 + dz in the middle, comp segments return to the entry y *)
Theorem C04_sin_starts : forall dx dy dz x0 y0 z0, dx <> 0 -> forall wy wz,
  ysin dx dy x0 y0 wy x0 = y0 /\ zsin dx dz x0 z0 wz x0 = z0.
Proof. exact sin_starts. Qed.
Print Assumptions C04_sin_starts.

Theorem C04_sin_bridge : forall dx dy dz x0 y0 z0, dx <> 0 ->
  ysin dx dy x0 y0 1 (x0 + dx) = y0 + dy /\ zsin dx dz x0 z0 2 (x0 + dx) = z0 /\ zsin dx dz x0 z0 2 (x0 + dx / 2) = z0 + dz.
Proof. exact sin_bridge_end. Qed.
Print Assumptions C04_sin_bridge.

Theorem C04_sin_comp : forall dx dy dz x0 y0 z0, dx <> 0 ->
  ysin dx dy x0 y0 2 (x0 + dx) = y0 /\ zsin dx dz x0 z0 2 (x0 + dx) = z0.
Proof. exact sin_comp_end. Qed.
Print Assumptions C04_sin_comp.

(* straight moves: in ABS mode a missing coordinate keeps the current one, in INC mode it adds nothing;
   ending a path goes back to its first point with the shutter closed *)
Open Scope Q_scope.
Theorem C04_linear : forall last s f,
  (lin last (None, None, None) true s f = mk (lx last, ly last, lz last) f s) /\
  (lin last (None, None, None) false s f = mk (lx last, ly last, lz last) f s) /\
  (forall x y z, lin last (Some x, Some y, Some z) true s f = mk (x, y, z) f s) /\
  (forall x y z, lin last (Some x, Some y, Some z) false s f = mk (lx last + x, ly last + y, lz last + z) f s).
Proof. intros. repeat split. Qed.
Print Assumptions C04_linear.

Theorem C04_end : forall first last sc,
  end_blk first last sc = [mk (pos_of last) (lf last) false; mk (pos_of first) sc false].
Proof. reflexivity. Qed.
Print Assumptions C04_end.
