(* C02 - Coordinates are mapped by the documented rigid transformation. Statements only. *)
From Coq Require Import QArith Bool Reals.
From Femto Require Import Base.Num Geo.Rigid Geo.RigidProofs Geo.RigidReal.

Theorem C02_order : forall c p, tr c p = rotate c (flip c (translate c p)).
Proof. exact tr_order. Qed.
Print Assumptions C02_order.

Theorem C02_distances : forall c p q,
  ((px3 (tr c p) - px3 (tr c q)) * (px3 (tr c p) - px3 (tr c q)) +
   (py3 (tr c p) - py3 (tr c q)) * (py3 (tr c p) - py3 (tr c q)) ==
   (t_c c * t_c c + t_s c * t_s c) *
   ((px3 p - px3 q) * (px3 p - px3 q) + (py3 p - py3 q) * (py3 p - py3 q)))%Q.
Proof. exact tr_dist. Qed.
Print Assumptions C02_distances.

Theorem C02_isometry : forall c p q, (t_c c * t_c c + t_s c * t_s c == 1)%Q ->
  ((px3 (tr c p) - px3 (tr c q)) * (px3 (tr c p) - px3 (tr c q)) +
   (py3 (tr c p) - py3 (tr c q)) * (py3 (tr c p) - py3 (tr c q)) ==
   (px3 p - px3 q) * (px3 p - px3 q) + (py3 p - py3 q) * (py3 p - py3 q))%Q.
Proof. exact tr_isometry. Qed.
Print Assumptions C02_isometry.

Theorem C02_z_scaling : forall c p q, (pz3 (tr c p) - pz3 (tr c q) == t_k c * (pz3 p - pz3 q))%Q.
Proof. exact tr_z. Qed.
Print Assumptions C02_z_scaling.

Theorem C02_orientation : forall c a b o,
  (cross (tr c a) (tr c b) (tr c o) ==
   sgn (t_fx c) * sgn (t_fy c) * (t_c c * t_c c + t_s c * t_s c) * cross a b o)%Q.
Proof. exact tr_orient. Qed.
Print Assumptions C02_orientation.

Theorem C02_one_flip_reverses : forall a b, (sgn a * sgn b == sgn (xorb a b))%Q.
Proof. exact sgn_xor. Qed.
Print Assumptions C02_one_flip_reverses.

Theorem C02_origin : forall c z,
  (px3 (tr c (t_sx c, t_sy c, z)) == 0 /\ py3 (tr c (t_sx c, t_sy c, z)) == 0 /\ pz3 (tr c (t_sx c, t_sy c, z)) == t_k c * z)%Q.
Proof. exact tr_origin. Qed.
Print Assumptions C02_origin.

Theorem C02_identity : forall p,
  (px3 (tr neutral p) == px3 p /\ py3 (tr neutral p) == py3 p /\ pz3 (tr neutral p) == pz3 p)%Q.
Proof. exact tr_identity. Qed.
Print Assumptions C02_identity.

Theorem C02_float_path : forall c x y z,
  tr32 c (x, y, z) =
  rotate c (flip c (rnd32 (rnd32 x - rnd32 (t_sx c))%Q, rnd32 (rnd32 y - rnd32 (t_sy c))%Q, rnd32 z)).
Proof. exact tr32_is_tr_of_rounded. Qed.
Print Assumptions C02_float_path.

(* degrees, any sign or magnitude (real numbers; standard-library axioms of Reals) *)
Theorem C02_degrees_plus : forall a (n : nat),
  (cos (rad (a + 360 * INR n)) = cos (rad a) /\ sin (rad (a + 360 * INR n)) = sin (rad a))%R.
Proof. exact degrees_period_plus. Qed.
Print Assumptions C02_degrees_plus.

Theorem C02_degrees_minus : forall a (n : nat),
  (cos (rad (a - 360 * INR n)) = cos (rad a) /\ sin (rad (a - 360 * INR n)) = sin (rad a))%R.
Proof. exact degrees_period_minus. Qed.
Print Assumptions C02_degrees_minus.

Theorem C02_rotation_unit : forall a, (cos (rad a) * cos (rad a) + sin (rad a) * sin (rad a) = 1)%R.
Proof. exact rotation_unit. Qed.
Print Assumptions C02_rotation_unit.

Theorem C02_angle_zero : (cos (rad 0) = 1 /\ sin (rad 0) = 0)%R.
Proof. exact degrees_zero. Qed.
Print Assumptions C02_angle_zero.
