(* C01 - Emitted G-code replays the compiled path point for point.
   Statements only; every proof is `exact <lemma>` (proofs: Pgm/WriteProofs.v, Base/NumProofs.v). *)
From Coq Require Import List Bool ZArith NArith QArith Qabs.
Import ListNotations.
From Femto Require Import Base.Num Base.NumProofs Base.RndProofs Ctl.Tok Ctl.Machine Geo.Rigid Geo.RigidProofs Pgm.Ops Pgm.WriteProofs.
Open Scope Z_scope.

(* For every configuration, every tracked compiler state, every machine state that agrees with it on the
   shutter (any position, any modal feed, any call environment) and every point list with 0/1 shutter
   flags: either some feed is below the printable limit and write raises before emitting anything, or the
   emitted statements run without error and the controller's moves - destination, feed, shutter during the
   move - are exactly the formatted transformed points, in order, none skipped and none added (zero-length
   moves are not motion: both sides are compared after `collapse`); the machine ends with the shutter the
   last point asks for, which is also the state the compiler tracks; every G1 carries the configured
   number of decimals. *)
Theorem C01_replay : forall call c st pts m,
  0 <= digits c <= 9 ->
  msh m = c_sh st -> mabs m = true ->
  Forall (fun p => ps p = 0 \/ ps p = 1) pts ->
  forall st' e o, do_write c st pts = (st', e, o) ->
  (existsb (fun p => feed_bad c (pf p)) pts = true /\ o = Raised VE /\ e = [] /\ st' = st)
  \/
  (existsb (fun p => feed_bad c (pf p)) pts = false /\ o = Ok /\
   exists m' ev,
     run_list call m e = (m', ev) /\ errors ev = []
     /\ collapse (mpos m) (dsts ev) = collapse (mpos m) (spec_pts c pts)
     /\ msh m' = c_sh st'
     /\ c_sh st' = last (map (fun p => open_of (ps p)) pts) (c_sh st)
     /\ forallb (nd_ok c) e = true).
Proof. exact write_replays. Qed.
Print Assumptions C01_replay.

(* the first point of a path that starts closed is reached by a plain G1, before any shutter command *)
Theorem C01_first_point_closed : forall c st a,
  c_sh st = false -> write_step c st None a 0 = (st, [g1_of c a]).
Proof. intros c st a H. unfold write_step. rewrite H. reflexivity. Qed.
Print Assumptions C01_first_point_closed.

(* printed numbers: at most half a unit of the last printed decimal away from the exact value *)
Theorem C01_format_error : forall d q, 0 <= d <= 9 ->
  (Qabs (inject_Z (fmt d q) / inject_Z SC - q) <= 1 / (2 * inject_Z (pow10 d)))%Q.
Proof. exact fmt_error. Qed.
Print Assumptions C01_format_error.

(* a feed that passes the guard prints as a positive number *)
Theorem C01_feed_positive : forall d q, 0 <= d <= 9 -> (1 / inject_Z (pow10 d) <= q)%Q -> 0 < fmt d q.
Proof. exact fmt_pos. Qed.
Print Assumptions C01_feed_positive.

(* single-precision accuracy.  The coordinates that are printed are those of the float32 pipeline (tr32); they differ from
   the exact transformation (tr) by the rotated and mirrored rounding errors of the two float32 subtractions, and each
   float32 rounding moves a number by at most half a unit in the last place: 2^-24 relative (2^-150 absolute below the
   normal range) *)
Theorem C01_float32_rounding : forall q, (Qabs (rnd32 q - q) <= Qabs q / inject_Z (2 ^ 24) + pow2 (-150))%Q.
Proof. exact rnd32_error. Qed.
Print Assumptions C01_float32_rounding.

Theorem C01_float32_pipeline_error : forall c x y z,
  let dx := in_err x (t_sx c) in let dy := in_err y (t_sy c) in
  (px3 (tr32 c (x, y, z)) - px3 (tr c (x, y, z)) == t_c c * (sgn (t_fx c) * dx) - t_s c * (sgn (t_fy c) * dy) /\
   py3 (tr32 c (x, y, z)) - py3 (tr c (x, y, z)) == t_s c * (sgn (t_fx c) * dx) + t_c c * (sgn (t_fy c) * dy) /\
   pz3 (tr32 c (x, y, z)) - pz3 (tr c (x, y, z)) == t_k c * (rnd32 z - z))%Q.
Proof. exact tr32_minus_tr. Qed.
Print Assumptions C01_float32_pipeline_error.

(* non-vacuity and the witness that used to fail: a shutter change that coincides with a displacement.
   points (0,0,0,f=1,s=0) ; (1,0,0,f=1,s=1): the move to x=1 is made, with the shutter open *)
Example C01_example :
  let c := {| laser_ok := true; laser_z := false; digits := 3; long_p := Some (1#2); short_p := None;
              speed_pos := 5; home := false; aero := false; tc := neutral |} in
  let pts := [ {| px := 0; py := 0; pz := 0; pf := 1; ps := 0 |};
               {| px := 1; py := 0; pz := 0; pf := 1; ps := 1 |} ] in
  let '(_, e, _) := do_write c c0 pts in
  dsts (snd (run m0 e)) =
    [((Some 0, Some 0, Some 0), 1000000000, false); ((Some 1000000000, Some 0, Some 0), 1000000000, true)].
Proof. vm_compute. reflexivity. Qed.
