(* C13 - Curves are sampled between one and two command-rate steps. Statements only. *)
From Coq Require Import ZArith QArith Qround.
From Femto Require Import Path.Sampling Path.SamplingProofs.
Open Scope Q_scope.

(* for every length and step: with n = ceil(len/dl) >= 2 samples, consecutive samples of a uniform
   subdivision are more than one step and at most two steps apart *)
Theorem C13_spacing : forall len dl : Q, 0 < dl -> 0 < len ->
  let n := Qceiling (len / dl) in (2 <= n)%Z ->
  dl < len / inject_Z (n - 1) /\ len / inject_Z (n - 1) <= 2 * dl.
Proof. exact spacing. Qed.
Print Assumptions C13_spacing.

Theorem C13_fallback_iff : forall len dl : Q, 0 < dl -> 0 < len ->
  ((Qceiling (len / dl) <= 1)%Z <-> len <= dl).
Proof. exact fallback_iff. Qed.
Print Assumptions C13_fallback_iff.

Theorem C13_fallback_spacing : forall len dl : Q, 0 < dl -> 0 < len -> len <= dl -> len / 2 < dl.
Proof. exact fallback_spacing. Qed.
Print Assumptions C13_fallback_spacing.

Theorem C13_rate_bound : forall len f rate : Q, 0 < f -> 0 < rate -> 0 < len ->
  let n := num_raw len f rate in (2 <= n)%Z ->
  1 / rate < (len / inject_Z (n - 1)) / f.
Proof. exact rate_bound. Qed.
Print Assumptions C13_rate_bound.

Theorem C13_linspace_uniform : forall a b n i,
  lin_nth a b n (i + 1) - lin_nth a b n i == (b - a) / inject_Z (n - 1).
Proof. exact lin_step. Qed.
Print Assumptions C13_linspace_uniform.

Theorem C13_linspace_ends : forall a b n, (2 <= n)%Z -> lin_nth a b n 0 == a /\ lin_nth a b n (n - 1) == b.
Proof. exact lin_ends. Qed.
Print Assumptions C13_linspace_ends.

Theorem C13_num_sub : forall len f rate, 1 # 1000000 <= f ->
  num_sub len f rate = Some (if (num_raw len f rate <=? 1)%Z then 3%Z else num_raw len f rate).
Proof. exact num_sub_cases. Qed.
Print Assumptions C13_num_sub.

Theorem C13_num_sub_rejects : forall len f rate, f < 1 # 1000000 -> num_sub len f rate = None.
Proof. exact num_sub_rejects. Qed.
Print Assumptions C13_num_sub_rejects.

Example C13_example : num_sub (3 # 2) 20 1200 = Some 90%Z /\ num_sub (1 # 100) 20 1200 = Some 3%Z.
Proof. split; reflexivity. Qed.
