(* C11 - The reported point matrix is the trajectory minus exact consecutive repeats.
   Statements only; every proof is `exact <lemma>`. *)
From Coq Require Import List Bool Arith NArith.
Import ListNotations.
From Femto Require Import Base.Dedup Base.DedupProofs Base.Runs Base.RunsProofs Harness.Util Harness.C11.

Section C11.
  Context {A : Type} (eqb : A -> A -> bool).
  Hypothesis eqb_spec : forall a b, eqb a b = true <-> a = b.

  (* order is preserved: the reported matrix is a sub-sequence of the trajectory *)
  Theorem C11_order_preserved : forall l, Sub (dedup eqb l) l.
  Proof. exact (dedup_sub eqb). Qed.

  (* exactly the first point and the points that differ from their predecessor are kept *)
  Theorem C11_kept_iff_differs : forall l i d, i < length l ->
    dedup eqb l = select (keep_mask eqb l) l /\
    length (keep_mask eqb l) = length l /\
    nth i (keep_mask eqb l) false =
      match i with 0 => true | S j => negb (eqb (nth i l d) (nth j l d)) end.
  Proof.
    intros l i d Hi. split; [reflexivity|]. split; [apply keep_mask_length|].
    exact (keep_mask_spec eqb l i d Hi).
  Qed.

  (* two equal consecutive points never both appear *)
  Theorem C11_no_adjacent_equal : forall l, no_adj eqb (dedup eqb l) = true.
  Proof. exact (dedup_no_adj eqb eqb_spec). Qed.

  (* nothing but repeats is dropped: same set of points, a trajectory without repeats is untouched *)
  Theorem C11_same_points : forall l x, In x l <-> In x (dedup eqb l).
  Proof. exact (dedup_in eqb eqb_spec). Qed.

  Theorem C11_fixed_point : forall l, no_adj eqb l = true -> dedup eqb l = l.
  Proof. exact (dedup_fixed eqb). Qed.

  Theorem C11_idempotent : forall l, dedup eqb (dedup eqb l) = dedup eqb l.
  Proof. exact (dedup_idem eqb eqb_spec). Qed.

  (* first / last point accessors *)
  Theorem C11_first_last : forall l d,
    hd d (dedup eqb l) = hd d l /\ last (dedup eqb l) d = last l d /\ (dedup eqb l = [] <-> l = []).
  Proof.
    intros l d. split; [apply dedup_hd|]. split; [exact (dedup_last eqb eqb_spec l d)|apply dedup_nil_iff].
  Qed.
End C11.

Print Assumptions C11_order_preserved.
Print Assumptions C11_kept_iff_differs.
Print Assumptions C11_no_adjacent_equal.
Print Assumptions C11_same_points.
Print Assumptions C11_fixed_point.
Print Assumptions C11_idempotent.
Print Assumptions C11_first_last.

(* consistent projections: filtering a projection (open-shutter path drops the feed column, the
   per-axis views keep one column) of the reported matrix equals filtering the projection of the raw
   trajectory *)
Theorem C11_projection : forall {A B : Type} (eqa : A -> A -> bool) (eqb : B -> B -> bool) (f : A -> B),
  (forall a b, eqa a b = true <-> a = b) -> (forall a b, eqb a b = true <-> a = b) ->
  forall l, dedup eqb (map f (dedup eqa l)) = dedup eqb (map f l).
Proof. exact (@dedup_proj). Qed.
Print Assumptions C11_projection.

(* rows are equal exactly when every column is (a change in one column cannot be cancelled by another) *)
Theorem C11_row_equality : forall r1 r2 : list N,
  list_eqb N.eqb r1 r2 = true <-> r1 = r2.
Proof. exact (list_eqb_eq N.eqb N.eqb_eq). Qed.
Print Assumptions C11_row_equality.

(* splitting by a mask *)
Theorem C11_split_mask_runs : forall {A : Type} (l : list A) m,
  length l = length m -> split_mask l m = Some (runs l m).
Proof. exact (@split_mask_eq_runs). Qed.
Print Assumptions C11_split_mask_runs.

Theorem C11_runs_selected_in_order : forall {A : Type} (l : list A) m,
  length l = length m -> concat (runs l m) = select m l.
Proof. exact (@runs_concat). Qed.
Print Assumptions C11_runs_selected_in_order.

Theorem C11_runs_nonempty : forall {A : Type} (l : list A) m, Forall (fun r => r <> []) (runs l m).
Proof. exact (@runs_nonempty). Qed.
Print Assumptions C11_runs_nonempty.

(* the groups underlying the runs are contiguous, carry one mask value each, and alternate
   (hence every run is maximal) *)
Theorem C11_runs_maximal : forall {A : Type} (l : list A) m, length l = length m ->
  expand (groups l m) = combine m l /\ alt (hd false m) (groups l m).
Proof. exact (@groups_partition). Qed.
Print Assumptions C11_runs_maximal.

(* the empty mask selects nothing *)
Theorem C11_split_mask_empty : forall {A : Type} (l : list A), split_mask l [] = Some [].
Proof. exact (@split_mask_empty). Qed.
Print Assumptions C11_split_mask_empty.

(* non-vacuity: a concrete trajectory with a repeat and a cancelling change *)
Example C11_example :
  dedup (list_eqb N.eqb) [[1;1]; [1;1]; [2;0]; [0;2]; [0;2]]%N = [[1;1]; [2;0]; [0;2]]%N
  /\ split_mask [10;11;12;13;14]%N [false;true;true;false;true] = Some [[11;12];[14]]%N.
Proof. split; reflexivity. Qed.
