(* C15 - Raster paths expose exactly the black pixels. Statements only. *)
From Coq Require Import List Bool ZArith QArith.
Import ListNotations.
From Femto Require Import Base.Dedup Base.Runs Base.RunsProofs Path.Stroke Path.Raster Path.RasterProofs Path.ClosedProofs Pgm.Ops Pgm.SafeProofs.

(* for every boolean matrix, size and scale: the open-shutter strokes of the raster trajectory are, row by row
   in image order, one stroke per maximal run of black pixels, from the x of the run's first pixel to the x
   of its last pixel at the row's y; everything else is travelled with the shutter closed *)
Theorem C15_strokes : forall px z speed closed w h img,
  raw_strokes (tagged (raster px z speed closed w h img)) =
  spec_strokes (grid (inject_Z (Z.of_nat w) * px) w) img (grid (inject_Z (Z.of_nat h) * px) h).
Proof. exact raster_strokes. Qed.
Print Assumptions C15_strokes.

(* the runs are the selected (black) pixels only, in order, nothing else: no white pixel is exposed *)
Theorem C15_runs_are_black : forall (xs : list Q) (row : list bool), length xs = length row ->
  concat (runs xs row) = select row xs /\ Forall (fun r => r <> []) (runs xs row).
Proof. intros xs row H. split; [now apply runs_concat | apply runs_nonempty]. Qed.
Print Assumptions C15_runs_are_black.

Theorem C15_group_closed_ends : forall z speed closed y run,
  match run_points z speed closed y run with
  | [] => True
  | p :: r => rs p = false /\ rs (last r p) = false
  end.
Proof. exact run_points_closed_ends. Qed.
Print Assumptions C15_group_closed_ends.

(* the raster trajectory of every image ends with the shutter closed and is a closed path for the compiler *)
Theorem C15_raster_is_closed_path : forall px z speed closed w h img,
  ends_closed rs (raster px z speed closed w h img) /\ closed_path (map rto_pt (raster px z speed closed w h img)) = true.
Proof.
  intros. split; [apply raster_closed|]. destruct builders_closed_paths as [_ [_ [_ [_ [_ F]]]]]. apply F.
Qed.
Print Assumptions C15_raster_is_closed_path.

Example C15_example :
  raw_strokes (tagged (raster (1 # 100) 0 1 5 3 2 [[true; false; true]; [false; true; true]])) =
  [ [(0 # 200, 0 # 100); (0 # 200, 0 # 100); (0 # 200, 0 # 100)];
    [(6 # 200, 0 # 100); (6 # 200, 0 # 100); (6 # 200, 0 # 100)];
    [(3 # 200, 2 # 100); (3 # 200, 2 # 100); (6 # 200, 2 # 100)] ]%Q.
Proof. vm_compute. reflexivity. Qed.
