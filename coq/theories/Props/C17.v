(* C17 - Warp compensation follows the measured surface and only changes z. Statements only.
   The interpolant s is an arbitrary function (scipy's RBF solve is an oracle): the theorems hold for every s. *)
From Coq Require Import QArith Bool.
From Femto Require Import Base.Num Geo.Rigid Geo.Warp.
Open Scope Q_scope.

Theorem C17_xy_unaffected : forall s c p,
  fst (fst (tr_warp s c p)) = fst (fst (tr c p)) /\ snd (fst (tr_warp s c p)) = snd (fst (tr c p)).
Proof. exact tr_warp_xy. Qed.
Print Assumptions C17_xy_unaffected.

Theorem C17_z_formula : forall s c x y z, snd (tr_warp s c (x, y, z)) == t_k c * (z + s x y).
Proof. exact tr_warp_z. Qed.
Print Assumptions C17_z_formula.

Theorem C17_flat_surface_is_plain_transform : forall c x y z,
  fst (fst (tr_warp (fun _ _ => 0) c (x, y, z))) = fst (fst (tr c (x, y, z))) /\
  snd (fst (tr_warp (fun _ _ => 0) c (x, y, z))) = snd (fst (tr c (x, y, z))) /\
  snd (tr_warp (fun _ _ => 0) c (x, y, z)) == snd (tr c (x, y, z)).
Proof. exact tr_warp_flat. Qed.
Print Assumptions C17_flat_surface_is_plain_transform.

Theorem C17_float_path_xy_unaffected : forall s c p,
  fst (fst (tr_warp32 s c p)) = fst (fst (tr32 c p)) /\ snd (fst (tr_warp32 s c p)) = snd (fst (tr32 c p)).
Proof. exact tr_warp32_xy. Qed.
Print Assumptions C17_float_path_xy_unaffected.
