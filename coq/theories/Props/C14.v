(* C14 - Marker primitives draw exactly the documented figure. Statements only (proofs: Path/MarkerProofs.v).
   A stroke is listed with its entry point first (the position where the shutter opens), so the first vertex
   is repeated; `strokes` (Path/Stroke.v) merges such repeats. *)
From Coq Require Import List Bool ZArith QArith Qround Qabs.
Import ListNotations.
From Femto Require Import Base.Dedup Path.Stroke Path.Laser Path.Marker Path.MarkerProofs Path.ClosedProofs Pgm.Ops Pgm.SafeProofs.
Open Scope Q_scope.

(* cross: exactly two strokes *)
Theorem C14_cross : forall c xi yi zi a b,
  raw_strokes (tag3 (cross c (xi, yi, zi) a b)) =
  [ [ (xi - a / 2, yi, zi); (xi - a / 2, yi, zi); (xi - a / 2 + a, yi, zi) ];
    [ (xi - a / 2 + a + - a / 2, yi + - b / 2, zi); (xi - a / 2 + a + - a / 2, yi + - b / 2, zi);
      (xi - a / 2 + a + - a / 2, yi + - b / 2 + b, zi) ] ].
Proof. exact cross_strokes. Qed.
Print Assumptions C14_cross.

(* ... which are the arms centred on the position, parallel to x and y, of the requested lengths *)
Theorem C14_cross_arms : forall xi yi a b : Q,
  xi - a / 2 + a == xi + a / 2 /\ xi - a / 2 + a + - a / 2 == xi /\
  yi + - b / 2 == yi - b / 2 /\ yi + - b / 2 + b == yi + b / 2.
Proof. exact cross_arms. Qed.
Print Assumptions C14_cross_arms.

Theorem C14_cross_ends_closed : forall c ctr a b, ls (last (cross c ctr a b) (mk ctr 0 true)) = false.
Proof. exact cross_ends_closed. Qed.
Print Assumptions C14_cross_ends_closed.

(* ruler: after the zero-length exposure where the path starts, one stroke per distinct tick, in increasing y,
   each from x_init to the absolute x = lx (first tick) or lx2 (the others) *)
Theorem C14_ruler : forall c ticks a b x_init t0 tr,
  sort_uniq ticks = t0 :: tr ->
  raw_strokes (tag3 (ruler c ticks a b x_init)) =
  [ (x_init, t0, m_depth c); (x_init, t0, m_depth c) ] ::
  map (tick_stroke c x_init) ((a, t0) :: map (fun t => (b, t)) tr).
Proof. exact ruler_strokes. Qed.
Print Assumptions C14_ruler.

Theorem C14_ticks_increasing : forall l, incr (sort_uniq l).
Proof. exact sort_uniq_incr. Qed.
Print Assumptions C14_ticks_increasing.

Theorem C14_ticks_complete : forall l x, In x l -> exists y, In y (sort_uniq l) /\ y == x.
Proof. exact sort_uniq_complete. Qed.
Print Assumptions C14_ticks_complete.

Theorem C14_ticks_sound : forall l y, In y (sort_uniq l) -> In y l.
Proof. exact sort_uniq_sound. Qed.
Print Assumptions C14_ticks_sound.

(* meander: one continuous stroke through the vertices of the passes *)
Theorem C14_meander : forall c p0 pf w delta alongx,
  raw_strokes (tag3 (meander c p0 pf w delta alongx)) =
  let '(xi, yi, zi) := p0 in
  let '(xf, yf) := pf in
  let ext := if alongx then yf - yi else xf - xi in
  let n := Z.to_nat (Qfloor (Qabs ext / delta)) in
  [ p0 :: p0 :: map pos_of (passes c n (mk p0 (m_speed_pos c) true) alongx 1 w (qsign ext * delta)) ].
Proof. exact meander_strokes. Qed.
Print Assumptions C14_meander.

(* ... which are floor(extent/spacing)+1 parallel lines of the given width, alternating direction, stepping by
   the signed spacing from the initial towards the final position *)
Theorem C14_meander_vertices : forall c n last alongx sgn w d,
  map pos_of (passes c n last alongx sgn w d) = zig n (pos_of last) alongx sgn w d
  /\ length (zig n (pos_of last) alongx sgn w d) = (2 * n + 1)%nat.
Proof. intros. split; [apply passes_zig | apply zig_length]. Qed.
Print Assumptions C14_meander_vertices.

(* ablation: the vertices in order, then the four displaced copies when a shift is given; all travel between
   strokes is closed (it produces no stroke) *)
Theorem C14_ablation : forall c v0 vr shift,
  raw_strokes (tag3 (ablation c (v0 :: vr) shift)) =
  match shift with
  | None => copy_stroke (v0 :: vr)
  | Some s =>
      flat_map copy_stroke
        [ map (shift3 0 0) (v0 :: vr); map (shift3 s 0) (v0 :: vr); map (shift3 (- s) 0) (v0 :: vr);
          map (shift3 0 s) (v0 :: vr); map (shift3 0 (- s)) (v0 :: vr) ]
  end.
Proof. exact ablation_strokes. Qed.
Print Assumptions C14_ablation.

Theorem C14_box : forall c x y z w h,
  raw_strokes (tag3 (box c (x, y, z) w h)) =
  copy_stroke [ (x, y, z); (x + Qabs w, y, z); (x + Qabs w, y + Qabs h, z); (x, y + Qabs h, z); (x, y, z) ].
Proof. exact box_strokes. Qed.
Print Assumptions C14_box.

(* every figure ends with the shutter closed, and - flags being 0/1 - is a closed path for the compiler: the marker file of
   any list of figures is a session of public operations, to which the C03 theorem applies (C08_writer_sessions_public) *)
Theorem C14_figures_end_closed :
  (forall c ctr a b, ends_closed ls (cross c ctr a b)) /\ (forall c ticks a b x_init, ends_closed ls (ruler c ticks a b x_init)) /\
  (forall c p0 pf w delta alongx, ends_closed ls (meander c p0 pf w delta alongx)) /\
  (forall c vs shift, ends_closed ls (ablation c vs shift)) /\ (forall c corner w h, ends_closed ls (box c corner w h)).
Proof. exact (conj cross_closed (conj ruler_closed (conj meander_closed (conj ablation_closed box_closed)))). Qed.
Print Assumptions C14_figures_end_closed.

Theorem C14_figures_are_closed_paths :
  (forall c ctr a b, closed_path (map to_pt (cross c ctr a b)) = true) /\
  (forall c ticks a b x_init, closed_path (map to_pt (ruler c ticks a b x_init)) = true) /\
  (forall c p0 pf w delta alongx, closed_path (map to_pt (meander c p0 pf w delta alongx)) = true) /\
  (forall c vs shift, closed_path (map to_pt (ablation c vs shift)) = true) /\
  (forall c corner w h, closed_path (map to_pt (box c corner w h)) = true).
Proof. destruct builders_closed_paths as [A [B [C [D [E _]]]]]. exact (conj A (conj B (conj C (conj D E)))). Qed.
Print Assumptions C14_figures_are_closed_paths.

Example C14_example :
  let c := {| m_speed := 1; m_speed_pos := 5; m_speed_closed := 5; m_depth := 0 |} in
  length (raw_strokes (tag3 (ruler c [3#10; 1#10; 3#10; 2#10] 1 (3#4) 0))) = 4%nat
  /\ length (meander c (0, 0, 0) (0, 35 # 1000) 1 (1 # 100) true) = 11%nat.
Proof. split; vm_compute; reflexivity. Qed.
