(* C07 - Trench floor tool-paths terminate, stay inside the block and cover it. Statements only.
   Geometry (GEOS) is an oracle: [is_empty], [inset], [hatch] are arbitrary functions. *)
From Coq Require Import List Bool Arith Reals.
Import ListNotations.
From Femto Require Import Trench.Toolpath Trench.ToolpathProofs Geo.Normed.

(* the generation finishes normally for every polygon and every answer of the geometry library *)
Theorem C07_terminates_normally : forall {poly : Type} (is_empty : poly -> bool) (inset : poly -> list poly) (hatch : poly -> nat)
  n block, snd (toolpath is_empty inset hatch n block) = Done.
Proof. exact @toolpath_total. Qed.
Print Assumptions C07_terminates_normally.

(* inset contours first, hatching last; never more contours than inner turns *)
Theorem C07_order : forall {poly : Type} (is_empty : poly -> bool) (inset : poly -> list poly) (hatch : poly -> nat) n block,
  exists cs hs,
    fst (toolpath is_empty inset hatch n block) = cs ++ hs /\
    forallb (@is_contour poly) cs = true /\ forallb (fun y => negb (@is_contour poly y)) hs = true /\ (length cs <= n)%nat.
Proof. exact @toolpath_order. Qed.
Print Assumptions C07_order.

(* containment, for any containment relation that the inset operation respects *)
Theorem C07_inside : forall {poly : Type} (is_empty : poly -> bool) (inset : poly -> list poly) (hatch : poly -> nat)
  (inside : poly -> poly -> Prop),
  (forall p, inside p p) -> (forall a b c, inside a b -> inside b c -> inside a c) ->
  (forall p c, In c (inset p) -> inside c p) ->
  forall n block,
  Forall (fun y => match y with YContour p | YHatch p _ => inside p block end) (fst (toolpath is_empty inset hatch n block)).
Proof. exact @toolpath_inside. Qed.
Print Assumptions C07_inside.

(* the laws assumed of the inset: the mathematical erosion lies inside the polygon, and a polygon inset twice by
   delta and re-grown by 1.05 delta (as the hatching does) stays inside the polygon it started from *)
Theorem C07_erosion_inside : forall V add zero norm,
  (forall a, add a zero = a) -> norm zero = 0%R ->
  forall A rho, (0 <= rho)%R -> incl V (ero V add norm A rho) A.
Proof. intros V add zero norm H1 H2. exact (ero_incl V add zero norm H1 H2). Qed.
Print Assumptions C07_erosion_inside.

Theorem C07_hatching_inside : forall V add smul norm,
  (forall a b c, add (add a b) c = add a (add b c)) ->
  (forall s t v, smul (s + t)%R v = add (smul s v) (smul t v)) -> (forall v, smul 1%R v = v) ->
  (forall t v, norm (smul t v) = (Rabs t * norm v)%R) ->
  forall G delta eps, (0 < delta)%R -> (0 <= eps <= delta)%R ->
  incl V (dil V add norm (ero V add norm (ero V add norm G delta) delta) (delta + eps)) G.
Proof. intros V add smul norm H1 H2 H3 H4. exact (hatch_inside V add smul norm H1 H2 H3 H4). Qed.
Print Assumptions C07_hatching_inside.

(* before the fix commit the loop raised IndexError on blocks that are used up early *)
Theorem C07_old_loop_refuted : exists (is_empty : nat -> bool) (inset : nat -> list nat) (hatch : nat -> nat) n block,
  snd (toolpath_old is_empty inset hatch n block) = Raised.
Proof. exact toolpath_old_refuted. Qed.
Print Assumptions C07_old_loop_refuted.
