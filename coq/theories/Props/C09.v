(* C09 - Exporting is pure and repeatable. Statements only. *)
From Coq Require Import List Bool ZArith NArith QArith.
Import ListNotations.
From Femto Require Import Base.Num Base.Stable Ctl.Tok Geo.Rigid Pgm.Ops Pgm.OpsProofs Pgm.PureProofs.

(* what write emits depends on the compiler state only through the tracked shutter *)
Theorem C09_write_state_independent : forall c st1 st2 pts, c_sh st1 = c_sh st2 ->
  emitted (do_write c st1 pts) = emitted (do_write c st2 pts)
  /\ c_sh (final (do_write c st1 pts)) = c_sh (final (do_write c st2 pts)).
Proof. exact write_indep. Qed.
Print Assumptions C09_write_state_independent.

(* writing the same point matrix twice emits the same instructions twice *)
Theorem C09_write_twice : forall c st pts,
  c_sh (final (do_write c st pts)) = c_sh st ->
  emitted (exec_list c [OWrite pts; OWrite pts] st) = emitted (do_write c st pts) ++ emitted (do_write c st pts)
  \/ (exists k, snd (do_write c st pts) = Raised k).
Proof. exact write_twice. Qed.
Print Assumptions C09_write_twice.

(* soundness of the history monitor: when it accepts, every observed result is a function of the operation
   alone, i.e. independent of how often and in which order operations were applied before *)
Theorem C09_monitor_sound : forall l, consistentb l = true ->
  forall k v1 v2, In (k, v1) l -> In (k, v2) l -> v1 = v2.
Proof. exact consistent_any_two. Qed.
Print Assumptions C09_monitor_sound.

Example C09_example : consistentb [(1, 7); (2, 9); (1, 7)]%N = true /\ consistentb [(1, 7); (1, 8)]%N = false.
Proof. split; reflexivity. Qed.
