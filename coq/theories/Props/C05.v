(* C05 - Trench blocks keep their clearance from waveguides and are numbered bottom-up. Statements only. *)
From Coq Require Import List Bool ZArith QArith Permutation Reals.
Import ListNotations.
From Femto Require Import Trench.Dig Trench.DigProofs.

(* blocks are numbered by increasing lowest y, and they are exactly the blocks the geometry produced *)
Theorem C05_numbering : forall {A : Type} (key : A -> Q) l, sorted key (sort_k key l) /\ Permutation l (sort_k key l).
Proof. exact @sort_k_sorted. Qed.
Print Assumptions C05_numbering.

(* the removal list is used as a set, largest number first *)
Theorem C05_removal_list : forall l, strictly_desc (desc_set l) /\ (forall j, In j (desc_set l) <-> In j l).
Proof. exact desc_set_spec. Qed.
Print Assumptions C05_removal_list.

(* for numbers in range, removal deletes exactly the blocks with those numbers, the others keep their order *)
Theorem C05_removal : forall {A : Type} (idx : list Z) (l : list A),
  strictly_desc idx -> (forall i, In i idx -> (0 <= i < Z.of_nat (length l))%Z) ->
  del_all idx l = Some (keep_from 0 idx l).
Proof. exact @del_all_spec. Qed.
Print Assumptions C05_removal.

(* clearance, in any metric space: a block cut out farther than a from the waveguides and then grown by rho (rounded
   corners) stays farther than a - rho; with a = bridge/2 + waist + corner and rho = corner this is bridge/2 + waist *)
Theorem C05_clearance : forall (P : Type) (d : P -> P -> R),
  (forall a b, d a b = d b a) -> (forall a b c, (d a c <= d a b + d b c)%R) ->
  forall (B W : P -> Prop) (a rho : R),
  (forall b w, B b -> W w -> (a < d b w)%R) ->
  forall p b w, B b -> (d p b <= rho)%R -> W w -> (a - rho < d p w)%R.
Proof. exact clearance. Qed.
Print Assumptions C05_clearance.

Example C05_example :
  dig fst [(3 # 10, 7%nat); (0 # 1, 4%nat); (6 # 10, 9%nat)]%Q [1; 1]%Z = Some [(0 # 1, 4%nat); (6 # 10, 9%nat)]%Q.
Proof. reflexivity. Qed.
