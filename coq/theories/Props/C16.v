(* C16 - Devices and writers keep exactly what they were given, routed by type. Statements only.
   The general clause (any history, any mixture) is decided by the correspondence on real objects; the
   theorems below cover single objects, foreign values, waveguide groups and the single-column writer. *)
From Coq Require Import List Bool NArith.
Import ListNotations.
From Femto Require Import Writers.Device Writers.DeviceProofs.

Theorem C16_append_single : forall d k id, five k = true ->
  dev_append d (Obj k id) = (add_to k d [Obj k id], None).
Proof. exact append_single. Qed.
Print Assumptions C16_append_single.

Theorem C16_foreign_rejected : forall d k id, five k = false -> dev_append d (Obj k id) = (d, Some TypeErr).
Proof. exact append_foreign. Qed.
Print Assumptions C16_foreign_rejected.

Theorem C16_extend_needs_list : forall d k id, dev_extend d (Obj k id) = (d, Some TypeErr).
Proof. exact extend_not_a_list. Qed.
Print Assumptions C16_extend_needs_list.

Theorem C16_extend_waveguide_groups : forall d l, forallb wg_entry l = true -> l <> [] ->
  dev_extend d (Grp l) = (add_to KWg d l, None).
Proof. exact extend_waveguides. Qed.
Print Assumptions C16_extend_waveguide_groups.

Theorem C16_trench_writer_single_column : forall k id,
  tw_init (Obj k id) = tw_init (Grp [Obj k id]) /\ tw_init (Obj k id) = [Obj k id].
Proof. exact tw_single. Qed.
Print Assumptions C16_trench_writer_single_column.

Example C16_example :
  let h := [ DAppend (Obj KMk 1); DExtend (Grp [Obj KWg 2; Grp [Obj KWg 3; Obj KWg 4]; Obj KNwg 5; Obj KUtc 6]);
             DAppend (Obj (KOther 1) 7) ]%N in
  let '(d, xs) := run_hist dev0 h in
  d_wg d = [Obj KWg 2; Grp [Obj KWg 3; Obj KWg 4]]%N /\ d_mk d = [Obj KMk 1]%N /\ d_nwg d = [Obj KNwg 5]%N
  /\ d_utc d = [Obj KUtc 6]%N /\ d_tc d = [] /\ xs = [None; None; Some TypeErr].
Proof. vm_compute. repeat split. Qed.
