(* C16 - Devices and writers keep exactly what they were given, routed by type. Statements only.
   The general clause is C16_extend_any_mixture / C16_any_sequence_of_extends; that the caller's lists are left as they
   were cannot be expressed in a model with immutable values and is decided by the correspondence on real objects. *)
From Coq Require Import List Bool NArith.
Import ListNotations.
From Femto Require Import Writers.Device Writers.DeviceProofs.

Theorem C16_append_single : forall d k id, five k = true ->
  dev_append d (Obj k id) = (add_to k d [Obj k id], None).
Proof. exact append_single. Qed.
Print Assumptions C16_append_single.

Theorem C16_foreign_rejected : forall d k id, five k = false -> dev_append d (Obj k id) = (d, Some TypeErr).
Proof. exact append_foreign. Qed.
Print Assumptions C16_foreign_rejected.

Theorem C16_extend_needs_list : forall d k id, dev_extend d (Obj k id) = (d, Some TypeErr).
Proof. exact extend_not_a_list. Qed.
Print Assumptions C16_extend_needs_list.

Theorem C16_extend_waveguide_groups : forall d l, forallb wg_entry l = true -> l <> [] ->
  dev_extend d (Grp l) = (add_to KWg d l, None).
Proof. exact extend_waveguides. Qed.
Print Assumptions C16_extend_waveguide_groups.

Theorem C16_trench_writer_single_column : forall k id,
  tw_init (Obj k id) = tw_init (Grp [Obj k id]) /\ tw_init (Obj k id) = [Obj k id].
Proof. exact tw_single. Qed.
Print Assumptions C16_trench_writer_single_column.

(* Device.extend with ANY mixture of supported objects and groups of plain waveguides (ok_entry): no exception, and each of
   the five collections receives exactly the entries of its own type (sel k), in the order given, groups intact; the
   collections are otherwise untouched *)
Theorem C16_extend_any_mixture : forall d l, forallb ok_entry l = true ->
  exists d', dev_extend d (Grp l) = (d', None) /\ forall k, five k = true -> fld k d' = fld k d ++ sel k l.
Proof. exact extend_general. Qed.
Print Assumptions C16_extend_any_mixture.

(* ... and so does any sequence of such calls: after the history every collection is the concatenation, in call order, of
   what it was given *)
Theorem C16_any_sequence_of_extends : forall ls d, Forall (fun l => forallb ok_entry l = true) ls ->
  let r := run_hist d (map (fun l => DExtend (Grp l)) ls) in
  Forall (fun x => x = None) (snd r) /\ forall k, five k = true -> fld k (fst r) = fld k d ++ flat_map (sel k) ls.
Proof. exact extend_history. Qed.
Print Assumptions C16_any_sequence_of_extends.

(* every accepted entry lands in the collection of its own type and in no other *)
Theorem C16_own_collection_only : forall l it, In it l -> ok_entry it = true ->
  In it (sel (ekind it) l) /\ forall k, k <> ekind it -> ~ In it (sel k l).
Proof. exact sel_partition. Qed.
Print Assumptions C16_own_collection_only.

(* an object of any other type (or a nested / empty list) anywhere in the argument makes the call raise *)
Theorem C16_foreign_anywhere_rejected : forall d l it, In it l -> bad_key (key_of it) = true ->
  snd (dev_extend d (Grp l)) <> None.
Proof. exact extend_foreign_anywhere. Qed.
Print Assumptions C16_foreign_anywhere_rejected.

Example C16_example :
  let h := [ DAppend (Obj KMk 1); DExtend (Grp [Obj KWg 2; Grp [Obj KWg 3; Obj KWg 4]; Obj KNwg 5; Obj KUtc 6]);
             DAppend (Obj (KOther 1) 7) ]%N in
  let '(d, xs) := run_hist dev0 h in
  d_wg d = [Obj KWg 2; Grp [Obj KWg 3; Obj KWg 4]]%N /\ d_mk d = [Obj KMk 1]%N /\ d_nwg d = [Obj KNwg 5]%N
  /\ d_utc d = [Obj KUtc 6]%N /\ d_tc d = [] /\ xs = [None; None; Some TypeErr].
Proof. vm_compute. repeat split. Qed.
