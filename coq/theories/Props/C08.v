(* C08 - Writers repeat each structure the configured number of times. Statements only. *)
From Coq Require Import List Bool ZArith QArith.
Import ListNotations.
From Femto Require Import Base.Num Ctl.Tok Ctl.Machine Ctl.Safety Pgm.Ops Pgm.SafeProofs Pgm.SessionSafe Writers.Writers Writers.WritersProofs.
Open Scope Z_scope.

(* the waveguide file: one REPEAT block per group, with the scan count of its first member, holding one
   write per member; then the return to the initial point.  (By definition of the modelled writer.) *)
Theorem C08_wg_program : forall groups,
  wg_ops groups =
  map (fun g => ORepeat (Some (match g with w :: _ => w_scan w | [] => 0 end)) (map (fun w => OWrite (w_pts w)) g)) groups
  ++ [OGoInit].
Proof. reflexivity. Qed.
Print Assumptions C08_wg_program.

Theorem C08_mk_program : forall ms,
  mk_ops ms = map (fun m => ORepeat (Some (w_scan m)) [OComment; OWrite (w_pts m); OComment]) ms ++ [OGoOrigin].
Proof. reflexivity. Qed.
Print Assumptions C08_mk_program.

(* the controller executes the body of REPEAT n exactly n times, in sequence *)
Theorem C08_repeat_runs_n_times : forall call m n b, 0 < n ->
  run_stmt call m (SRep n b) = iter (Z.to_nat n) (fun m => run_list call m b) m.
Proof. exact repeat_runs_n_times. Qed.
Print Assumptions C08_repeat_runs_n_times.

(* Nasu passes: one per adjacent scan ... *)
Theorem C08_nasu_count : forall n, 1 <= n -> Z.of_nat (length (nasu_order n)) = n.
Proof. exact nasu_order_length. Qed.
Print Assumptions C08_nasu_count.

(* ... the offsets (in half shifts) are exactly { k : |k| <= n-1, k = n-1 mod 2 }: symmetric about the nominal
   path, neighbours one full shift apart, centred (0 for odd n, +-1/2 for even n) ... *)
Theorem C08_nasu_offsets : forall n k, 1 <= n ->
  (In k (nasu_order n) <-> (Z.abs k <= n - 1 /\ Z.odd k = Z.odd (n - 1))).
Proof. exact nasu_order_members. Qed.
Print Assumptions C08_nasu_offsets.

(* ... ordered outward from the centre ... *)
Theorem C08_nasu_outward : forall n, 1 <= n -> abs_nondecr 0 (nasu_order n).
Proof. exact nasu_order_outward. Qed.
Print Assumptions C08_nasu_outward.

(* ... feed and shutter untouched *)
Theorem C08_nasu_keeps_feed_shutter : forall k sh p, pf (shift_pt k sh p) = pf p /\ ps (shift_pt k sh p) = ps p.
Proof. exact shift_pt_keeps. Qed.
Print Assumptions C08_nasu_keeps_feed_shutter.

(* the three writer programs are sessions of public operations whenever the structures are closed paths (first and last
   point shutter-closed, flags 0/1 - what the builders produce): C03's theorem applies to every file a writer emits -
   it parses, runs without controller error, and ends with the shutter closed and the rotation off *)
Theorem C08_writer_sessions_public :
  (forall groups, Forall (Forall (fun w => closed_path (w_pts w) = true)) groups -> pubs (wg_ops groups) = true) /\
  (forall ms, Forall (fun w => closed_path (w_pts w) = true) ms -> pubs (mk_ops ms) = true) /\
  (forall ns, Forall (fun n => closed_path (n_pts n) = true) ns -> pubs (nasu_ops ns) = true).
Proof. exact (conj wg_ops_pub (conj mk_ops_pub nasu_ops_pub)). Qed.
Print Assumptions C08_writer_sessions_public.

Theorem C08_wg_file_safe : forall c groups file d o,
  cfg_ok c -> Forall (Forall (fun w => closed_path (w_pts w) = true)) groups ->
  session c (wg_ops groups) = Written file d o ->
  exists tree, parse file = Some tree /\
    forall call, call_wb call -> forall m, mrot m = false ->
      only_notloaded (snd (run_list call m tree)) /\ msh (fst (run_list call m tree)) = false /\ mrot (fst (run_list call m tree)) = false.
Proof. intros c groups file d o Hc Hg H. exact (session_safe c (wg_ops groups) file d o Hc (wg_ops_pub groups Hg) H). Qed.
Print Assumptions C08_wg_file_safe.

Example C08_example : nasu_order 5 = [0; 2; -2; 4; -4] /\ nasu_order 4 = [1; -1; 3; -3].
Proof. split; reflexivity. Qed.
