(* C18 - The fabrication spreadsheet lists every structure once with true values. Statements only. *)
From Coq Require Import List Bool Ascii String ZArith QArith Permutation.
Import ListNotations.
From Femto Require Import Sheet.Table Sheet.TableProofs.
Open Scope Q_scope.

Theorem C18_rows : forall l,
  Permutation l (structure_list l) /\ List.length (structure_list l) = List.length l
  /\ exists w m, structure_list l = w ++ m /\ forallb s_wg w = true /\ forallb (fun s => negb (s_wg s)) m = true
                 /\ sorted w /\ m = filter (fun s => negb (s_wg s)) l.
Proof. exact structure_list_rows. Qed.
Print Assumptions C18_rows.

Theorem C18_table_shape : forall suppr static cols structs,
  List.length (sh_rows (build suppr static cols structs)) = List.length structs
  /\ Forall (fun r => List.length r = List.length (sh_cols (build suppr static cols structs))) (sh_rows (build suppr static cols structs)).
Proof. exact build_rows. Qed.
Print Assumptions C18_table_shape.

Theorem C18_cell_shows_attribute : forall ty a,
  cell_of (entry ty a) =
  match ty, a with
  | TText, AText EmptyString => CBlank
  | TText, AText s => CText s
  | TText, _ => CBlank
  | TFloat, ANum q => if Qle_bool limit q then CBlank else CNum q
  | TInt, ANum q => if Qle_bool limit (qtrunc q) then CBlank else CNum (qtrunc q)
  | _, _ => CBlank
  end.
Proof. exact cell_shows_attribute. Qed.
Print Assumptions C18_cell_shows_attribute.

Theorem C18_column_omitted_iff : forall suppr c vals,
  (decide suppr c vals <> Keep) <->
  (String.eqb (c_tag c) "name" = false /\
   ((is_numeric (c_type c) && all_absent vals = true) \/ (constant vals && suppr = true))).
Proof. exact decide_omitted. Qed.
Print Assumptions C18_column_omitted_iff.

Theorem C18_preamble_rule : forall static c d, c_pre c = true -> String.eqb (c_tag c) "name" = false ->
  preamble_of static c d =
  match d with DropConstant v => PValue v | DropAbsent => PUntouched | Keep => if static then PVariable else PRemoved end.
Proof. exact preamble_rule. Qed.
Print Assumptions C18_preamble_rule.

(* known finding: a genuine value >= 1e5 is shown blank *)
Theorem C18_sentinel_collision_refuted : exists q, cell_of (entry TFloat (ANum q)) = CBlank.
Proof. exact sentinel_collision_refuted. Qed.
Print Assumptions C18_sentinel_collision_refuted.
