From Coq Require Import List Bool Ascii String NArith.
Import ListNotations.
From Femto Require Import Persist.Paths.
Open Scope string_scope.

(* a path is its directory part followed by its name *)
Lemma split_last_app : forall s, dirpart s ++ name s = s.
Proof.
  unfold dirpart, name. induction s as [|c r IH]; [reflexivity|].
  cbn [split_last]. destruct (split_last r) as [d n] eqn:E. cbn [fst snd] in IH.
  destruct (Ascii.eqb c slash); destruct d; cbn [fst snd append] in *; rewrite <- IH; reflexivity.
Qed.

Lemma name_no_slash_dir : forall s, dirpart (dirpart s ++ name s) = dirpart s.
Proof. intros s. now rewrite split_last_app. Qed.

(* appending to a slash-free name keeps the directory part *)
Fixpoint no_slash (s : string) : bool :=
  match s with EmptyString => true | String c r => negb (Ascii.eqb c slash) && no_slash r end.

Lemma split_last_no_slash : forall s, no_slash s = true -> split_last s = ("", s).
Proof.
  induction s as [|c r IH]; intros H; [reflexivity|]. cbn [no_slash] in H. apply andb_true_iff in H as [H1 H2].
  apply negb_true_iff in H1. cbn [split_last]. rewrite (IH H2), H1. reflexivity.
Qed.

Lemma name_no_slash : forall s, no_slash (name s) = true.
Proof.
  unfold name. induction s as [|c r IH]; [reflexivity|]. cbn [split_last]. destruct (split_last r) as [d n]. cbn [snd] in IH.
  destruct (Ascii.eqb c slash) eqn:E; destruct d; cbn [snd]; try exact IH.
  cbn [no_slash]. now rewrite E, IH.
Qed.

(* a directory part is empty or ends with a slash *)
Fixpoint dir_ok (d : string) : bool :=
  match d with
  | EmptyString => true
  | String c EmptyString => Ascii.eqb c slash
  | String _ r => dir_ok r
  end.

Lemma dirpart_ok : forall s, dir_ok (dirpart s) = true.
Proof.
  unfold dirpart. induction s as [|c r IH]; [reflexivity|]. cbn [split_last].
  destruct (split_last r) as [d n]. cbn [fst] in *.
  destruct (Ascii.eqb c slash) eqn:E; destruct d as [|c' d']; cbn [fst]; try reflexivity.
  - cbn [dir_ok]. exact E.
  - cbn [dir_ok] in *. destruct d'; exact IH.
  - cbn [dir_ok] in *. destruct d'; exact IH.
Qed.

Lemma split_last_dir_app : forall d t, no_slash t = true -> dir_ok d = true -> split_last (d ++ t) = (d, t).
Proof.
  induction d as [|c r IH]; intros t Ht Hd.
  - cbn. now apply split_last_no_slash.
  - cbn [append split_last]. destruct r as [|c' r'].
    + cbn [dir_ok] in Hd. cbn [append]. rewrite (split_last_no_slash t Ht), Hd. reflexivity.
    + assert (Hr : dir_ok (String c' r') = true) by exact Hd.
      rewrite (IH t Ht Hr). destruct (Ascii.eqb c slash); reflexivity.
Qed.

Lemma append_no_slash : forall a b, no_slash a = true -> no_slash b = true -> no_slash (a ++ b) = true.
Proof.
  induction a as [|c r IH]; intros b Ha Hb; [exact Hb|]. cbn [no_slash append] in *.
  apply andb_true_iff in Ha as [H1 H2]. now rewrite H1, IH.
Qed.

Lemma split_dot_app : forall n, fst (split_dot n) ++ snd (split_dot n) = n.
Proof.
  induction n as [|c r IH]; [reflexivity|]. cbn [split_dot].
  destruct (Ascii.eqb c dot && negb (has_dot r)); [reflexivity|].
  destruct (split_dot r) as [a b]. cbn [fst snd append] in *. now rewrite IH.
Qed.

Lemma no_slash_app_l : forall a b, no_slash (a ++ b) = true -> no_slash a = true.
Proof.
  induction a as [|c r IH]; intros b H; [reflexivity|]. cbn [append no_slash] in *.
  apply andb_true_iff in H as [H1 H2]. rewrite H1. now apply (IH b).
Qed.

Lemma stem_no_slash : forall s, no_slash (stem s) = true.
Proof.
  intros s. unfold stem. destruct (suffix s); [apply name_no_slash|].
  apply (no_slash_app_l _ (snd (split_dot (name s)))). rewrite split_dot_app. apply name_no_slash.
Qed.

(* the directory of the target is the directory the caller named *)
Theorem with_suffix_dir : forall s suf, no_slash suf = true -> dirpart (with_suffix s suf) = dirpart s.
Proof.
  intros s suf Hs. unfold with_suffix.
  unfold dirpart at 1. rewrite split_last_dir_app; [reflexivity | | apply dirpart_ok].
  apply append_no_slash; [apply stem_no_slash | exact Hs].
Qed.

Theorem export_keeps_dir : forall s, dirpart (export_target s) = dirpart s.
Proof. intros s. unfold export_target. destruct (suffix s); [now apply with_suffix_dir | reflexivity]. Qed.

Theorem export_suffix_rule : forall s,
  (suffix s = "" -> export_target s = dirpart s ++ name s ++ ".pkl") /\ (suffix s <> "" -> export_target s = s).
Proof.
  intros s. unfold export_target, with_suffix, stem. split; intros H.
  - now rewrite H.
  - destruct (suffix s); [congruence | reflexivity].
Qed.

Theorem yaml_keeps_dir : forall s, dirpart (yaml_target s) = dirpart s.
Proof. intros s. unfold yaml_target. destruct (suffix s); [now apply with_suffix_dir | reflexivity]. Qed.

Theorem yaml_path_given : forall s, suffix s <> "" -> yaml_target s = s.
Proof. intros s H. unfold yaml_target. destruct (suffix s); [congruence | reflexivity]. Qed.

Theorem close_in_export_dir : forall e f, e <> "" ->
  close_target e f = e ++ "/" ++ dirpart f ++ stem f ++ ".pgm".
Proof. intros e f H. unfold close_target, with_suffix. destruct e; [congruence | reflexivity]. Qed.

(* ---- DEFAULT merge ---- *)

Lemma dlookup_dupdate : forall d k v k', dlookup k' (dupdate d k v) = if String.eqb k' k then Some v else dlookup k' d.
Proof.
  induction d as [|[k0 v0] r IH]; intros k v k'; cbn [dupdate dlookup].
  - destruct (String.eqb k' k); reflexivity.
  - destruct (String.eqb k k0) eqn:E.
    + apply String.eqb_eq in E. subst k0. cbn [dlookup]. destruct (String.eqb k' k); reflexivity.
    + cbn [dlookup]. destruct (String.eqb k' k0) eqn:E2.
      * apply String.eqb_eq in E2. subst k0. rewrite String.eqb_sym in E. now rewrite E.
      * apply IH.
Qed.

(* every section inherits the DEFAULT keys it does not define and overrides those it does
   (for sections without repeated keys, as YAML mappings are) *)
Theorem merge_lookup : forall section default k, NoDup (map fst section) ->
  dlookup k (merge default section) = match dlookup k section with Some v => Some v | None => dlookup k default end.
Proof.
  unfold merge. induction section as [|[k0 v0] r IH]; intros default k Hnd; cbn [fold_left dlookup fst snd].
  - reflexivity.
  - inversion Hnd as [|? ? Hnotin Hnd']; subst. rewrite (IH _ k Hnd'). rewrite dlookup_dupdate.
    destruct (String.eqb k k0) eqn:E.
    + apply String.eqb_eq in E. subst k0.
      assert (Hn : dlookup k r = None).
      { clear - Hnotin. induction r as [|[k1 v1] r IH]; [reflexivity|]. cbn [dlookup map fst In] in *.
        destruct (String.eqb k k1) eqn:E; [apply String.eqb_eq in E; subst; tauto | apply IH; tauto]. }
      now rewrite Hn.
    + reflexivity.
Qed.

Lemma pop_default_no_default : forall doc df rest, pop_default doc = (df, rest) ->
  (forall s d, In (s, d) rest -> In (s, d) doc).
Proof.
  induction doc as [|[s0 d0] r IH]; intros df rest H s d Hin; cbn [pop_default] in H.
  - injection H as <- <-. destruct Hin.
  - destruct (String.eqb s0 "DEFAULT"); [injection H as <- <-; now right|].
    destruct (pop_default r) as [df' rest'] eqn:E. injection H as <- <-.
    destruct Hin as [Ei|Hin]; [now left | right; eapply IH; eauto].
Qed.

(* one result per non-DEFAULT section, in document order *)
Theorem load_doc_length : forall doc, NoDup (map fst doc) ->
  List.length (load_doc doc) = List.length (filter (fun sd => negb (String.eqb (fst sd) "DEFAULT")) doc).
Proof.
  intros doc Hnd. unfold load_doc. destruct (pop_default doc) as [df secs] eqn:E. rewrite map_length.
  revert df secs E Hnd. induction doc as [|[s0 d0] r IH]; intros df secs E Hnd; cbn [pop_default] in E.
  - injection E as <- <-. reflexivity.
  - cbn [filter fst]. inversion Hnd as [|? ? Hnotin Hnd']; subst. destruct (String.eqb s0 "DEFAULT") eqn:Es.
    + injection E as <- <-. cbn [negb]. apply String.eqb_eq in Es. subst s0.
      assert (F : filter (fun sd : string * dict => negb (String.eqb (fst sd) "DEFAULT")) r = r).
      { clear - Hnotin. induction r as [|[s1 d1] r IH]; [reflexivity|]. cbn [filter fst map In] in *.
        destruct (String.eqb s1 "DEFAULT") eqn:E; [apply String.eqb_eq in E; subst; tauto|]. cbn [negb]. f_equal. apply IH. tauto. }
      now rewrite F.
    + destruct (pop_default r) as [df' rest'] eqn:Er. injection E as <- <-. cbn [negb List.length]. f_equal. eapply IH; eauto.
Qed.

(* ---- from_dict ---- *)

Theorem filter_keys_spec : forall sig d k v,
  In (k, v) (filter_keys sig d) <-> In (k, v) d /\ existsb (String.eqb k) sig = true.
Proof. intros sig d k v. unfold filter_keys. rewrite filter_In. cbn [fst]. tauto. Qed.
