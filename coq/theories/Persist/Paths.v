(* Model of the path handling of LaserPath.export, helpers.load_parameters and PGMCompiler.close, over
   POSIX pure paths as strings (normalised: no empty, '.' or trailing components), and of the parameter
   dictionaries (DEFAULT merge, from_dict key filtering).  Definitions only. *)
From Coq Require Import List Bool Ascii String NArith.
Import ListNotations.
Open Scope string_scope.

Definition slash : ascii := "/"%char.
Definition dot : ascii := "."%char.

(* split at the last '/' : (directory part including the slash, name) *)
Fixpoint split_last (s : string) : string * string :=
  match s with
  | EmptyString => ("", "")
  | String c r =>
      let '(d, n) := split_last r in
      if Ascii.eqb c slash then
        (* a slash: if the rest has no directory part this is the last slash *)
        match d with
        | EmptyString => (String c "", n)
        | _ => (String c d, n)
        end
      else
        match d with
        | EmptyString => ("", String c n)
        | _ => (String c d, n)
        end
  end.

Definition dirpart (s : string) : string := fst (split_last s).
Definition name (s : string) : string := snd (split_last s).

(* position-insensitive helper: index of the last '.' strictly inside the name (pathlib's suffix rule) *)
Fixpoint has_dot (s : string) : bool :=
  match s with EmptyString => false | String c r => Ascii.eqb c dot || has_dot r end.

(* split a name at its last dot: (stem, suffix-with-dot); no suffix when the only dot is leading or trailing *)
Fixpoint split_dot (s : string) : string * string :=
  match s with
  | EmptyString => ("", "")
  | String c r =>
      if Ascii.eqb c dot && negb (has_dot r) then ("", s)       (* this is the last dot *)
      else let '(a, b) := split_dot r in (String c a, b)
  end.

Definition suffix (s : string) : string :=
  let n := name s in
  let '(a, b) := split_dot n in
  match a, b with
  | EmptyString, _ => ""                    (* leading dot (or empty name): no suffix *)
  | _, String _ EmptyString => ""           (* trailing dot: no suffix *)
  | _, _ => b
  end.

Definition stem (s : string) : string :=
  let n := name s in
  match suffix s with
  | EmptyString => n
  | _ => fst (split_dot n)
  end.

(* Path.with_suffix *)
Definition with_suffix (s suf : string) : string := dirpart s ++ stem s ++ suf.

(* LaserPath.export: '.pkl' is added only when the suffix is missing; the directory is kept *)
Definition export_target (s : string) : string :=
  match suffix s with EmptyString => with_suffix s ".pkl" | _ => s end.

(* helpers.load_parameters: the path given ('.yaml' added when there is no suffix) *)
Definition yaml_target (s : string) : string :=
  match suffix s with EmptyString => with_suffix s ".yaml" | _ => s end.

(* PGMCompiler.close: export_dir / filename.with_suffix('.pgm') *)
Definition close_target (export_dir filename : string) : string :=
  let f := with_suffix filename ".pgm" in
  match export_dir with EmptyString => f | _ => export_dir ++ "/" ++ f end.

(* ---- parameter dictionaries: association lists with string keys and opaque values ---- *)

Definition dict := list (string * N).

Fixpoint dlookup (k : string) (d : dict) : option N :=
  match d with [] => None | (k', v) :: r => if String.eqb k k' then Some v else dlookup k r end.

Fixpoint dremove (k : string) (d : dict) : dict :=
  match d with [] => [] | (k', v) :: r => if String.eqb k k' then dremove k r else (k', v) :: dremove k r end.

(* {**default, **section}: keys of default in order (updated), then the new keys of the section *)
Fixpoint dupdate (d : dict) (k : string) (v : N) : dict :=
  match d with
  | [] => [(k, v)]
  | (k', v') :: r => if String.eqb k k' then (k', v) :: r else (k', v') :: dupdate r k v
  end.
Definition merge (default section : dict) : dict := fold_left (fun acc kv => dupdate acc (fst kv) (snd kv)) section default.

(* load_parameters on a parsed document: sections in order, DEFAULT popped and merged into each *)
Fixpoint pop_default (doc : list (string * dict)) : dict * list (string * dict) :=
  match doc with
  | [] => ([], [])
  | (s, d) :: r =>
      if String.eqb s "DEFAULT" then (d, r)
      else let '(df, rest) := pop_default r in (df, (s, d) :: rest)
  end.

Definition load_doc (doc : list (string * dict)) : list dict :=
  let '(df, secs) := pop_default doc in map (fun sd => merge df (snd sd)) secs.

(* from_dict: exactly the keys that are constructor parameters *)
Definition filter_keys (sig : list string) (d : dict) : dict :=
  filter (fun kv => existsb (String.eqb (fst kv)) sig) d.
