(* Open-shutter strokes of a trajectory (destination semantics: the segment into a point is exposed
   when that point is marked open).  A stroke is the polyline  p(i-1), p(i), ..., p(j)  for a maximal
   run i..j of open points, with consecutive equal positions merged. *)
From Coq Require Import List Bool.
Import ListNotations.
From Femto Require Import Base.Dedup.

Section Stroke.
  Context {P : Type} (peqb : P -> P -> bool).

  Fixpoint strokes_from (prev : P) (cur : option (list P)) (l : list (P * bool)) : list (list P) :=
    match l with
    | [] => match cur with Some c => [rev c] | None => [] end
    | (p, true) :: r =>
        match cur with
        | Some c => strokes_from p (Some (p :: c)) r
        | None => strokes_from p (Some [p; prev]) r
        end
    | (p, false) :: r =>
        match cur with
        | Some c => rev c :: strokes_from p None r
        | None => strokes_from p None r
        end
    end.

  Definition raw_strokes (l : list (P * bool)) : list (list P) :=
    match l with
    | [] => []
    | (p, _) :: _ => strokes_from p None l
    end.

  Definition strokes (l : list (P * bool)) : list (list P) := map (dedup peqb) (raw_strokes l).
End Stroke.
