(* Model of the LaserPath builders start / linear / end as block-producing functions: every builder
   call appends points that depend only on its arguments and on the current last point (and, for end,
   the first point).  Exact rational arithmetic; float32 storage is handled by the correspondence
   tolerance.  Definitions only. *)
From Coq Require Import List Bool ZArith QArith.
Import ListNotations.
Open Scope Q_scope.

Record lpt := { lx : Q; ly : Q; lz : Q; lf : Q; ls : bool }.
Definition p3 := (Q * Q * Q)%type.
Definition pos_of (p : lpt) : p3 := (lx p, ly p, lz p).
Definition mk (p : p3) (f : Q) (s : bool) : lpt :=
  let '(x, y, z) := p in {| lx := x; ly := y; lz := z; lf := f; ls := s |}.

(* start(p, speed_pos): closed then open at p *)
Definition start_blk (p : p3) (speed_pos : Q) : list lpt := [mk p speed_pos false; mk p speed_pos true].

Definition oadd (cur : Q) (d : option Q) : Q := match d with Some v => cur + v | None => cur end.
Definition oabs (cur : Q) (d : option Q) : Q := match d with Some v => v | None => cur end.

(* linear(increment, mode, shutter, speed) from the last point: one appended point *)
Definition lin (last : lpt) (inc : option Q * option Q * option Q) (abs : bool) (s : bool) (f : Q) : lpt :=
  let '(dx, dy, dz) := inc in
  if abs then mk (oabs (lx last) dx, oabs (ly last) dy, oabs (lz last) dz) f s
  else mk (oadd (lx last) dx, oadd (ly last) dy, oadd (lz last) dz) f s.

Definition none3 : option Q * option Q * option Q := (None, None, None).
Definition abs3 (p : p3) : option Q * option Q * option Q := let '(x, y, z) := p in (Some x, Some y, Some z).

(* end(): closed at the last point (its feed), then closed at the first point with speed_closed *)
Definition end_blk (first last : lpt) (speed_closed : Q) : list lpt :=
  [mk (pos_of last) (lf last) false; mk (pos_of first) speed_closed false].

Definition tag3 (l : list lpt) : list (p3 * bool) := map (fun p => (pos_of p, ls p)) l.
