(* C14: the open-shutter strokes of the modelled marker primitives are the documented figures. *)
From Coq Require Import List Bool ZArith QArith Qround Qabs Lia.
Import ListNotations.
From Femto Require Import Base.ListX Base.Dedup Path.Stroke Path.Laser Path.Marker.
Open Scope Q_scope.

Definition opn (l : list p3) : list (p3 * bool) := map (fun p => (p, true)) l.

Lemma strokes_open_run : forall (l : list p3) prev cur rest,
  strokes_from prev (Some cur) (opn l ++ rest) = strokes_from (last l prev) (Some (rev l ++ cur)) rest.
Proof.
  induction l as [|p r IH]; intros prev cur rest; [reflexivity|].
  cbn [opn map app strokes_from]. fold (opn r). rewrite IH, last_cons_default.
  cbn [rev]. now rewrite <- app_assoc.
Qed.

Lemma tag3_open : forall l, forallb ls l = true -> tag3 l = opn (map pos_of l).
Proof.
  induction l as [|p r IH]; intros H; [reflexivity|]. cbn [forallb] in H. apply andb_true_iff in H as [H1 H2].
  cbn [tag3 map opn]. rewrite H1. f_equal. now apply IH.
Qed.

Lemma tag3_app : forall a b, tag3 (a ++ b) = tag3 a ++ tag3 b.
Proof. intros; unfold tag3; apply map_app. Qed.

Definition all_closed (l : list lpt) : Prop := forallb (fun p => negb (ls p)) l = true.

Lemma closed_tail : forall l prev, all_closed l -> strokes_from prev None (tag3 l) = [].
Proof.
  induction l as [|p r IH]; intros prev H; [reflexivity|]. unfold all_closed in *. cbn [forallb] in H.
  apply andb_true_iff in H as [H1 H2]. apply negb_true_iff in H1.
  cbn [tag3 map strokes_from]. rewrite H1. now apply IH.
Qed.

Lemma end_blk_closed : forall a b f, all_closed (end_blk a b f).
Proof. intros a b f. unfold end_blk, all_closed, mk. destruct (pos_of b) as [[? ?] ?], (pos_of a) as [[? ?] ?]. reflexivity. Qed.

(* ---------------- cross ---------------- *)

Theorem cross_strokes : forall c xi yi zi a b,
  raw_strokes (tag3 (cross c (xi, yi, zi) a b)) =
  [ [ (xi - a / 2, yi, zi); (xi - a / 2, yi, zi); (xi - a / 2 + a, yi, zi) ];
    [ (xi - a / 2 + a + - a / 2, yi + - b / 2, zi); (xi - a / 2 + a + - a / 2, yi + - b / 2, zi);
      (xi - a / 2 + a + - a / 2, yi + - b / 2 + b, zi) ] ].
Proof. reflexivity. Qed.

Lemma cross_arms : forall xi yi a b : Q,
  xi - a / 2 + a == xi + a / 2 /\ xi - a / 2 + a + - a / 2 == xi /\
  yi + - b / 2 == yi - b / 2 /\ yi + - b / 2 + b == yi + b / 2.
Proof. intros. repeat split; field. Qed.

Lemma cross_ends_closed : forall c ctr a b, ls (last (cross c ctr a b) (mk ctr 0 true)) = false.
Proof. intros c [[x y] z] a b. reflexivity. Qed.

(* ---------------- ruler ---------------- *)

Definition tick_stroke (c : mcfg) (x_init : Q) (t : Q * Q) : list p3 :=
  [ (x_init, snd t, m_depth c); (x_init, snd t, m_depth c); (fst t, snd t, m_depth c) ].

Lemma tick_blk_strokes : forall c last x_init xt yt prev rest,
  strokes_from prev None (tag3 (tick_blk c last x_init xt yt) ++ rest) =
  tick_stroke c x_init (xt, yt) :: strokes_from (xt, yt, m_depth c) None rest.
Proof. reflexivity. Qed.

Lemma ticks_strokes : forall c x_init tl last prev rest, all_closed rest ->
  strokes_from prev None (tag3 (ticks_from c last x_init tl) ++ tag3 rest) = map (tick_stroke c x_init) tl.
Proof.
  induction tl as [|[xt yt] r IH]; intros last prev rest Hc.
  - cbn [ticks_from tag3 map app]. now apply closed_tail.
  - cbn [ticks_from]. rewrite tag3_app, <- app_assoc, tick_blk_strokes. cbn [map]. f_equal. now apply IH.
Qed.

Theorem ruler_strokes : forall c ticks a b x_init t0 tr,
  sort_uniq ticks = t0 :: tr ->
  raw_strokes (tag3 (ruler c ticks a b x_init)) =
  [ (x_init, t0, m_depth c); (x_init, t0, m_depth c) ] ::
  map (tick_stroke c x_init) ((a, t0) :: map (fun t => (b, t)) tr).
Proof.
  intros c ticks a b x_init t0 tr Hs. unfold ruler. rewrite Hs.
  set (tl := (a, t0) :: map (fun t => (b, t)) tr).
  set (first := mk (x_init, t0, m_depth c) (m_speed_pos c) false).
  set (a1 := mk (x_init, t0, m_depth c) (m_speed_pos c) true).
  set (body := ticks_from c a1 x_init tl).
  unfold raw_strokes. cbn [app tag3 map pos_of ls first a1 mk lx ly lz].
  cbn [strokes_from].
  (* the first tick block starts with a closed point: the start's open duplicate is a stroke of its own *)
  unfold body at 1, tl at 1. cbn [ticks_from].
  change (map (fun p => (pos_of p, ls p))) with tag3.
  rewrite !tag3_app, <- !app_assoc.
  unfold tick_blk at 1. cbn [tag3 map app pos_of ls lin mk none3 oabs lx ly lz strokes_from rev].
  f_equal. unfold tl. cbn [map tick_stroke fst snd]. f_equal.
  apply ticks_strokes. apply end_blk_closed.
Qed.

(* sort_uniq is sorted without repeats and has the same elements *)
Lemma insert_u_in : forall x y l, In y (insert_u x l) -> y = x \/ In y l.
Proof.
  induction l as [|z r IH]; cbn [insert_u]; intros H.
  - destruct H as [<-|[]]; auto.
  - destruct (Qeq_bool x z); [auto|]. destruct (Qle_bool x z).
    + destruct H as [<-|H]; auto.
    + destruct H as [<-|H]; [right; now left|]. destruct (IH H); auto. right; now right.
Qed.

(* ---------------- meander ---------------- *)

Lemma passes_open : forall c n last alongx sgn w d, forallb ls (passes c n last alongx sgn w d) = true.
Proof.
  induction n as [|k IH]; intros last alongx sgn w d; cbn [passes].
  - destruct alongx; reflexivity.
  - cbn [forallb]. rewrite IH. destruct alongx; reflexivity.
Qed.

Theorem meander_strokes : forall c p0 pf w delta alongx,
  raw_strokes (tag3 (meander c p0 pf w delta alongx)) =
  let '(xi, yi, zi) := p0 in
  let '(xf, yf) := pf in
  let ext := if alongx then yf - yi else xf - xi in
  let n := Z.to_nat (Qfloor (Qabs ext / delta)) in
  [ p0 :: p0 :: map pos_of (passes c n (mk p0 (m_speed_pos c) true) alongx 1 w (qsign ext * delta)) ].
Proof.
  intros c [[xi yi] zi] [xf yf] w delta alongx. unfold meander.
  set (ext := if alongx then yf - yi else xf - xi).
  set (n := Z.to_nat (Qfloor (Qabs ext / delta))).
  set (a1 := mk (xi, yi, zi) (m_speed_pos c) true).
  set (body := passes c n a1 alongx 1 w (qsign ext * delta)).
  unfold raw_strokes. cbn [app tag3 map pos_of ls mk lx ly lz strokes_from].
  change (map (fun p => (pos_of p, ls p))) with tag3.
  rewrite tag3_app, (tag3_open body) by apply passes_open.
  rewrite strokes_open_run.
  unfold end_blk. cbn [tag3 map ls mk strokes_from].
  destruct (pos_of (last body a1)) as [[? ?] ?]. cbn [mk ls strokes_from].
  rewrite rev_app_distr, rev_involutive. reflexivity.
Qed.

(* the vertices of the passes: n+1 lines of the given width, alternating direction, stepping by d *)
Fixpoint zig (n : nat) (p : p3) (alongx : bool) (sgn w d : Q) : list p3 :=
  let '(x, y, z) := p in
  let a := if alongx then (x + sgn * w, y + 0, z + 0) else (x + 0, y + sgn * w, z + 0) in
  match n with
  | O => [a]
  | S k =>
      let '(ax, ay, az) := a in
      let b := if alongx then (ax + 0, ay + d, az + 0) else (ax + d, ay + 0, az + 0) in
      a :: b :: zig k b alongx (- sgn) w d
  end.

Lemma passes_zig : forall c n last alongx sgn w d,
  map pos_of (passes c n last alongx sgn w d) = zig n (pos_of last) alongx sgn w d.
Proof.
  induction n as [|k IH]; intros last alongx sgn w d.
  - destruct last as [x y z f s]. destruct alongx; reflexivity.
  - cbn [passes map]. rewrite IH. destruct last as [x y z f s]. destruct alongx; reflexivity.
Qed.

Lemma zig_length : forall n p alongx sgn w d, length (zig n p alongx sgn w d) = (2 * n + 1)%nat.
Proof.
  induction n as [|k IH]; intros [[x y] z] alongx sgn w d; [reflexivity|].
  cbn [zig]. destruct alongx; cbn [length]; rewrite IH; lia.
Qed.

(* ---------------- ablation / box ---------------- *)

Lemma visit_open : forall c vs last, forallb ls (visit c last vs) = true.
Proof. induction vs as [|v r IH]; intros last; [reflexivity|]. cbn [visit forallb]. rewrite IH. destruct v as [[? ?] ?]. reflexivity. Qed.

Lemma visit_pos : forall c vs last, map pos_of (visit c last vs) = vs.
Proof.
  induction vs as [|v r IH]; intros last; [reflexivity|]. cbn [visit map]. rewrite IH.
  destruct v as [[x y] z]. reflexivity.
Qed.

(* a trace entered with the shutter open: its vertices and the open duplicate of the last one extend the
   current stroke, the closed duplicate ends it *)
Lemma trace_strokes : forall c last vs v0 prev cur rest,
  strokes_from prev (Some cur) (tag3 (trace c last vs v0) ++ rest) =
  (rev cur ++ vs ++ [List.last vs v0]) :: strokes_from (List.last vs v0) None rest.
Proof.
  intros c last vs v0 prev cur rest. unfold trace.
  rewrite tag3_app, <- app_assoc, (tag3_open (visit c last vs)) by apply visit_open.
  rewrite strokes_open_run, visit_pos.
  destruct (List.last vs v0) as [[vx vy] vz] eqn:El.
  cbn [tag3 map app pos_of ls lin abs3 mk oabs lx ly lz strokes_from rev].
  rewrite rev_app_distr, rev_involutive, <- app_assoc. reflexivity.
Qed.

Definition copy_stroke (vs : list p3) : list (list p3) :=
  match vs with [] => [] | v0 :: _ => [v0 :: v0 :: vs ++ [List.last vs v0]] end.

Lemma copy_blk_strokes : forall c last vs prev rest,
  strokes_from prev None (tag3 (copy_blk c last vs) ++ rest) =
  copy_stroke vs ++ strokes_from (match vs with [] => prev | v0 :: _ => List.last vs v0 end) None rest.
Proof.
  intros c last [|v0 r] prev rest; [reflexivity|].
  unfold copy_blk. destruct v0 as [[x y] z] eqn:Ev.
  cbn [tag3 map app pos_of ls lin abs3 mk oabs lx ly lz strokes_from].
  change (map (fun p => (pos_of p, ls p))) with tag3.
  rewrite trace_strokes. cbn [copy_stroke app rev]. reflexivity.
Qed.

Lemma copies_strokes : forall c cs last prev rest, all_closed rest ->
  strokes_from prev None (tag3 (copies c last cs) ++ tag3 rest) = flat_map copy_stroke cs.
Proof.
  induction cs as [|vs r IH]; intros last prev rest Hc.
  - cbn [copies tag3 map app flat_map]. now apply closed_tail.
  - cbn [copies flat_map]. rewrite tag3_app, <- app_assoc, copy_blk_strokes. f_equal. now apply IH.
Qed.

Theorem ablation_strokes : forall c v0 vr shift,
  raw_strokes (tag3 (ablation c (v0 :: vr) shift)) =
  match shift with
  | None => copy_stroke (v0 :: vr)
  | Some s =>
      flat_map copy_stroke
        [ map (shift3 0 0) (v0 :: vr); map (shift3 s 0) (v0 :: vr); map (shift3 (- s) 0) (v0 :: vr);
          map (shift3 0 s) (v0 :: vr); map (shift3 0 (- s)) (v0 :: vr) ]
  end.
Proof.
  intros c v0 vr shift. unfold ablation.
  set (vs := v0 :: vr).
  assert (G : forall fv w0 wr others, fv = w0 :: wr ->
    raw_strokes (tag3 ([mk w0 (m_speed_pos c) false; mk w0 (m_speed_pos c) true] ++
       trace c (mk w0 (m_speed_pos c) true) fv w0 ++
       copies c (List.last (trace c (mk w0 (m_speed_pos c) true) fv w0) (mk w0 (m_speed_pos c) true)) others ++
       end_blk (mk w0 (m_speed_pos c) false)
         (List.last (trace c (mk w0 (m_speed_pos c) true) fv w0 ++
                     copies c (List.last (trace c (mk w0 (m_speed_pos c) true) fv w0) (mk w0 (m_speed_pos c) true)) others)
            (mk w0 (m_speed_pos c) true)) (m_speed_closed c)))
    = copy_stroke fv ++ flat_map copy_stroke others).
  { intros fv w0 wr others E. unfold raw_strokes.
    destruct w0 as [[x y] z] eqn:Ew.
    cbn [app tag3 map pos_of ls mk lx ly lz strokes_from].
    change (map (fun p => (pos_of p, ls p))) with tag3.
    rewrite tag3_app, trace_strokes, tag3_app.
    rewrite copies_strokes by apply end_blk_closed.
    rewrite E. cbn [copy_stroke app rev]. reflexivity. }
  destruct shift as [s|].
  - cbn [map]. unfold vs. cbn [map].
    erewrite G; [|reflexivity]. cbn [flat_map]. reflexivity.
  - unfold vs. erewrite G; [|reflexivity]. cbn [flat_map]. now rewrite app_nil_r.
Qed.

(* a box is the closed rectangle with the given corner, |width| and |height| *)
Theorem box_strokes : forall c x y z w h,
  raw_strokes (tag3 (box c (x, y, z) w h)) =
  copy_stroke [ (x, y, z); (x + Qabs w, y, z); (x + Qabs w, y + Qabs h, z); (x, y + Qabs h, z); (x, y, z) ].
Proof. intros. unfold box. apply (ablation_strokes c _ _ None). Qed.

(* ---------------- np.unique: strictly increasing, same values ---------------- *)

Fixpoint incr_from (a : Q) (l : list Q) : Prop :=
  match l with [] => True | b :: r => a < b /\ incr_from b r end.
Definition incr (l : list Q) : Prop := match l with [] => True | a :: r => incr_from a r end.

Lemma Qle_bool_false_lt : forall a b, Qle_bool a b = false -> b < a.
Proof.
  intros a b H. destruct (Qlt_le_dec b a) as [L|L]; [exact L|].
  apply Qle_bool_iff in L. congruence.
Qed.

Lemma insert_u_incr_from : forall x l a, a < x -> incr_from a l -> incr_from a (insert_u x l).
Proof.
  induction l as [|y r IH]; intros a Hax Hl; cbn [insert_u].
  - cbn. auto.
  - destruct Hl as [Hay Hr]. destruct (Qeq_bool x y) eqn:E1; [cbn; auto|].
    destruct (Qle_bool x y) eqn:E2.
    + apply Qle_bool_iff in E2. apply Qeq_bool_neq in E1.
      cbn. repeat split; auto. destruct (Qlt_le_dec x y) as [L|L]; [exact L|].
      exfalso. apply E1. now apply Qle_antisym.
    + apply Qle_bool_false_lt in E2. cbn [incr_from]. split; [exact Hay|]. now apply IH.
Qed.

Lemma insert_u_incr : forall x l, incr l -> incr (insert_u x l).
Proof.
  intros x [|y r] H; cbn [insert_u]; [exact I|].
  destruct (Qeq_bool x y) eqn:E1; [exact H|].
  destruct (Qle_bool x y) eqn:E2.
  - apply Qle_bool_iff in E2. apply Qeq_bool_neq in E1. cbn. split; [|exact H].
    destruct (Qlt_le_dec x y) as [L|L]; [exact L|]. exfalso. apply E1. now apply Qle_antisym.
  - apply Qle_bool_false_lt in E2. cbn [incr]. now apply insert_u_incr_from.
Qed.

Theorem sort_uniq_incr : forall l, incr (sort_uniq l).
Proof. induction l as [|x r IH]; [exact I|]. cbn [sort_uniq fold_right]. now apply insert_u_incr. Qed.

Lemma insert_u_has : forall x l, exists y, In y (insert_u x l) /\ y == x.
Proof.
  induction l as [|z r IH]; cbn [insert_u].
  - exists x. split; [now left | reflexivity].
  - destruct (Qeq_bool x z) eqn:E; [exists z; split; [now left | apply Qeq_bool_iff in E; now symmetry]|].
    destruct (Qle_bool x z); [exists x; split; [now left | reflexivity]|].
    destruct IH as [y [Hy Ey]]. exists y. split; [now right | exact Ey].
Qed.

Lemma insert_u_keeps : forall x l y, In y l -> In y (insert_u x l).
Proof.
  induction l as [|z r IH]; intros y H; [destruct H|]. cbn [insert_u].
  destruct (Qeq_bool x z); [exact H|]. destruct (Qle_bool x z); [now right|].
  destruct H as [<-|H]; [now left | right; now apply IH].
Qed.

(* every given tick appears (up to ==), and nothing else does *)
Theorem sort_uniq_complete : forall l x, In x l -> exists y, In y (sort_uniq l) /\ y == x.
Proof.
  induction l as [|z r IH]; intros x H; [destruct H|]. cbn [sort_uniq fold_right].
  destruct H as [<-|H]; [apply insert_u_has|].
  destruct (IH x H) as [y [Hy Ey]]. exists y. split; [now apply insert_u_keeps | exact Ey].
Qed.

Theorem sort_uniq_sound : forall l y, In y (sort_uniq l) -> In y l.
Proof.
  induction l as [|z r IH]; intros y H; [destruct H|]. cbn [sort_uniq fold_right] in H.
  apply insert_u_in in H. destruct H as [->|H]; [now left | right; now apply IH].
Qed.
