(* C04: geometry of the circular S-bend and its compositions over the real numbers.
   arc points (Waveguide.circ):  x = x0 + r (- cos t0 + cos t) ,  y = y0 + r (- sin t0 + sin t)
   get_sbend_parameter:          a = acos (1 - |dy/2| / r) ,  L = 2 r sin a
   arc_bend dy > 0 :  circ(3pi/2, 3pi/2 + a) ; circ(pi/2 + a, pi/2)
   arc_bend dy <= 0:  circ(pi/2, pi/2 - a)   ; circ(3pi/2 - a, 3pi/2)                                   *)
From Coq Require Import Reals Lra.
Open Scope R_scope.

Section Sbend.
  Variables (r dy : R).
  Hypothesis Hr : 0 < r.
  Hypothesis Hdy : Rabs dy <= 4 * r.          (* otherwise arccos is undefined and the call raises *)

  Definition d := (Rabs dy / 2) / r.
  Definition a := acos (1 - d).
  Definition L := 2 * r * sin a.

  Definition arcx (x0 t0 t : R) := x0 + r * (- cos t0 + cos t).
  Definition arcy (y0 t0 t : R) := y0 + r * (- sin t0 + sin t).

  Lemma d_range : 0 <= d <= 2.
  Proof.
    unfold d. pose proof (Rabs_pos dy) as Hp. split.
    - apply Rmult_le_pos; [lra|]. left. now apply Rinv_0_lt_compat.
    - apply (Rmult_le_reg_r r); [assumption|]. unfold Rdiv. rewrite Rmult_assoc, Rinv_l by lra. lra.
  Qed.

  Lemma cos_a : cos a = 1 - d.
  Proof. unfold a. apply cos_acos. pose proof d_range. lra. Qed.

  Lemma sin_a_nonneg : 0 <= sin a.
  Proof.
    unfold a. pose proof d_range as Hd. pose proof (acos_bound (1 - d)) as B.
    apply sin_ge_0; lra.
  Qed.

  (* every point of an arc lies on the circle of radius r around (x0 - r cos t0, y0 - r sin t0) *)
  Theorem arc_on_circle : forall x0 y0 t0 t,
    (arcx x0 t0 t - (x0 - r * cos t0)) * (arcx x0 t0 t - (x0 - r * cos t0)) +
    (arcy y0 t0 t - (y0 - r * sin t0)) * (arcy y0 t0 t - (y0 - r * sin t0)) = r * r.
  Proof.
    intros. unfold arcx, arcy. pose proof (sin2_cos2 t) as H. unfold Rsqr in H.
    replace (x0 + r * (- cos t0 + cos t) - (x0 - r * cos t0)) with (r * cos t) by ring.
    replace (y0 + r * (- sin t0 + sin t) - (y0 - r * sin t0)) with (r * sin t) by ring.
    replace (r * cos t * (r * cos t) + r * sin t * (r * sin t)) with (r * r * (sin t * sin t + cos t * cos t)) by ring.
    rewrite H. ring.
  Qed.

  (* an arc starts at the current end of the path *)
  Theorem arc_starts_at_current : forall x0 y0 t0, arcx x0 t0 t0 = x0 /\ arcy y0 t0 t0 = y0.
  Proof. intros. unfold arcx, arcy. split; ring. Qed.

  (* upward bend *)
  Theorem sbend_up_end : forall x0 y0,
    let x1 := arcx x0 (3 * PI / 2) (3 * PI / 2 + a) in
    let y1 := arcy y0 (3 * PI / 2) (3 * PI / 2 + a) in
    let x2 := arcx x1 (PI / 2 + a) (PI / 2) in
    let y2 := arcy y1 (PI / 2 + a) (PI / 2) in
    x2 = x0 + L /\ y2 = y0 + Rabs dy.
  Proof.
    intros x0 y0. cbv zeta. unfold arcx, arcy, L.
    rewrite !cos_plus, !sin_plus.
    replace (3 * PI / 2) with (3 * (PI / 2)) by field.
    rewrite cos_3PI2, sin_3PI2, cos_PI2, sin_PI2, cos_a.
    split; [ring|]. unfold d. field. lra.
  Qed.

  (* downward bend *)
  Theorem sbend_down_end : forall x0 y0,
    let x1 := arcx x0 (PI / 2) (PI / 2 - a) in
    let y1 := arcy y0 (PI / 2) (PI / 2 - a) in
    let x2 := arcx x1 (3 * PI / 2 - a) (3 * PI / 2) in
    let y2 := arcy y1 (3 * PI / 2 - a) (3 * PI / 2) in
    x2 = x0 + L /\ y2 = y0 - Rabs dy.
  Proof.
    intros x0 y0. cbv zeta. unfold arcx, arcy, L.
    rewrite !cos_minus, !sin_minus.
    replace (3 * PI / 2) with (3 * (PI / 2)) by field.
    rewrite cos_3PI2, sin_3PI2, cos_PI2, sin_PI2, cos_a.
    split; [ring|]. unfold d. field. lra.
  Qed.

  (* the S-bend length *)
  Theorem sbend_len_sq : L * L = 4 * r * Rabs dy - dy * dy /\ 0 <= L.
  Proof.
    split.
    - unfold L. pose proof (sin2_cos2 a) as H. unfold Rsqr in H. rewrite cos_a in H.
      assert (Hs : sin a * sin a = 1 - (1 - d) * (1 - d)) by lra.
      replace (2 * r * sin a * (2 * r * sin a)) with (4 * r * r * (sin a * sin a)) by ring.
      rewrite Hs. unfold d.
      replace (dy * dy) with (Rabs dy * Rabs dy) by (rewrite <- Rabs_mult; apply Rabs_right; nra).
      field. lra.
    - unfold L. pose proof sin_a_nonneg. nra.
  Qed.
End Sbend.

(* compositions: what comes back to the entry y after two (four) S-bend lengths *)
Theorem coupler_end : forall r dy x0 y0 int_len, 0 < r -> Rabs dy <= 4 * r ->
  let Ls := L r dy in
  (* up-bend, straight |int|, down-bend *)
  (x0 + Ls + Rabs int_len + Ls = x0 + (2 * Ls + Rabs int_len)) /\ (y0 + Rabs dy - Rabs dy = y0).
Proof. intros. cbv zeta. split; ring. Qed.

Theorem mzi_end : forall r dy x0 y0 int_len arm, 0 < r -> Rabs dy <= 4 * r ->
  let Ls := L r dy in
  x0 + (2 * Ls + Rabs int_len) + Rabs arm + (2 * Ls + Rabs int_len) = x0 + (4 * Ls + 2 * Rabs int_len + Rabs arm)
  /\ (y0 + Rabs dy - Rabs dy) + Rabs dy - Rabs dy = y0.
Proof. intros. cbv zeta. split; ring. Qed.

(* sinusoidal segments (flat_peaks = 0):
     y(x) = y0 + dy/2 (1 - cos(wy pi (x - x0)/dx)) ,  z(x) = z0 + dz/2 (1 - cos(wz pi (x - x0)/dx)) *)
Section Sin.
  Variables (dx dy dz x0 y0 z0 : R).
  Hypothesis Hdx : dx <> 0.
  Definition ysin (wy x : R) := y0 + dy / 2 * (1 - cos (wy * PI / dx * (x - x0))).
  Definition zsin (wz x : R) := z0 + dz / 2 * (1 - cos (wz * PI / dx * (x - x0))).

  Lemma at_start : forall w, w * PI / dx * (x0 - x0) = 0.
  Proof. intros. field. exact Hdx. Qed.
  Lemma at_end : forall w, w * PI / dx * (x0 + dx - x0) = w * PI.
  Proof. intros. field. exact Hdx. Qed.
  Lemma at_mid : forall w, w * PI / dx * (x0 + dx / 2 - x0) = w * PI / 2.
  Proof. intros. field. exact Hdx. Qed.

  Theorem sin_starts : forall wy wz, ysin wy x0 = y0 /\ zsin wz x0 = z0.
  Proof. intros. unfold ysin, zsin. rewrite !at_start, cos_0. split; field. Qed.

  (* bend / bridge (omega = (1, 2)): reaches dy, returns to the original depth, peaks at z0 + dz in the middle *)
  Theorem sin_bridge_end : ysin 1 (x0 + dx) = y0 + dy /\ zsin 2 (x0 + dx) = z0 /\ zsin 2 (x0 + dx / 2) = z0 + dz.
  Proof.
    unfold ysin, zsin. rewrite !at_end, at_mid.
    replace (1 * PI) with PI by ring. replace (2 * PI / 2) with PI by field.
    rewrite cos_PI, cos_2PI. repeat split; field.
  Qed.

  (* comp (omega = (2, 2)): returns to the entry y and z *)
  Theorem sin_comp_end : ysin 2 (x0 + dx) = y0 /\ zsin 2 (x0 + dx) = z0.
  Proof. unfold ysin, zsin. rewrite !at_end, cos_2PI. split; field. Qed.
End Sin.
