(* C10: no NaN or infinity is ever stored in a path or printed.  Extended numbers model what numpy can hand
   to LaserPath.add_path (the single store point) and to PGMCompiler._format_args (the single print point). *)
From Coq Require Import List Bool ZArith QArith Qabs.
Import ListNotations.
From Femto Require Import Base.Num.
Open Scope Q_scope.

Inductive xnum := Fin (q : Q) | NaN | Inf (neg : bool).
Record xpt := { ex : xnum; ey : xnum; ez : xnum; ef : xnum; es : xnum }.

Definition f32max : Q := inject_Z (2 ^ 128 - 2 ^ 104).           (* largest finite binary32 *)
Definition f32lim : Q := inject_Z (2 ^ 128 - 2 ^ 103).           (* from here on the cast rounds to infinity *)

(* astype(float32) *)
Definition cast32 (v : xnum) : xnum :=
  match v with
  | Fin q => if Qle_bool f32lim (Qabs q) then Inf (negb (Qle_bool 0 q)) else Fin (rnd32 q)
  | _ => v
  end.

Definition finite (v : xnum) : bool := match v with Fin _ => true | _ => false end.
Definition positive (v : xnum) : bool := match v with Fin q => negb (Qle_bool q 0) | _ => false end.

Definition ok_pt (p : xpt) : bool := finite (ex p) && finite (ey p) && finite (ez p) && positive (ef p) && finite (es p).

Definition cast_pt (p : xpt) : xpt :=
  {| ex := cast32 (ex p); ey := cast32 (ey p); ez := cast32 (ez p); ef := cast32 (ef p); es := cast32 (es p) |}.

(* add_path: cast, then refuse the whole block when some value is not finite or some feed not positive *)
Definition add_path (path blk : list xpt) : option (list xpt) :=
  let b := map cast_pt blk in
  if forallb ok_pt b then Some (path ++ b) else None.

Definition Inv (path : list xpt) : Prop := forallb ok_pt path = true.

(* a history of builder calls: each hands some block to add_path; a refused block leaves the path as it was *)
Definition step (path blk : list xpt) : list xpt := match add_path path blk with Some p => p | None => path end.
Definition run_blocks (blks : list (list xpt)) : list xpt := fold_left step blks [].

Theorem add_path_inv : forall path blk path', Inv path -> add_path path blk = Some path' -> Inv path'.
Proof.
  unfold Inv, add_path. intros path blk path' H E.
  destruct (forallb ok_pt (map cast_pt blk)) eqn:B; [|discriminate].
  injection E as <-. now rewrite forallb_app, H, B.
Qed.

Theorem step_inv : forall path blk, Inv path -> Inv (step path blk).
Proof.
  intros path blk H. unfold step. destruct (add_path path blk) eqn:E; [|exact H].
  eapply add_path_inv; eauto.
Qed.

(* every reachable path holds finite coordinates and positive finite feeds *)
Theorem history_inv : forall blks, Inv (run_blocks blks).
Proof.
  intros blks. unfold run_blocks.
  assert (G : forall l p, Inv p -> Inv (fold_left step l p)).
  { induction l as [|b r IH]; intros p Hp; [exact Hp|]. cbn [fold_left]. apply IH. now apply step_inv. }
  apply G. reflexivity.
Qed.

Theorem inv_points : forall path p, Inv path -> In p path ->
  exists x y z f s, ex p = Fin x /\ ey p = Fin y /\ ez p = Fin z /\ ef p = Fin f /\ es p = Fin s /\ 0 < f.
Proof.
  unfold Inv. intros path p H Hin. rewrite forallb_forall in H. specialize (H p Hin).
  unfold ok_pt in H. repeat (apply andb_true_iff in H as [H ?]).
  destruct (ex p) as [x| |]; try discriminate. destruct (ey p) as [y| |]; try discriminate.
  destruct (ez p) as [z| |]; try discriminate. destruct (ef p) as [f| |]; try discriminate.
  destruct (es p) as [s| |]; try discriminate.
  exists x, y, z, f, s. repeat split; auto.
  cbn in *. destruct (Qlt_le_dec 0 f) as [L|L]; [exact L|]. apply Qle_bool_iff in L.
  match goal with H : negb (Qle_bool f 0) = true |- _ => rewrite L in H; discriminate end.
Qed.

(* _format_args: nothing is printed when some value is not finite *)
Definition format_args (vals : list (option xnum)) : option (list Q) :=
  if forallb (fun v => match v with Some x => finite x | None => true end) vals
  then Some (flat_map (fun v => match v with Some (Fin q) => [q] | _ => [] end) vals)
  else None.

Theorem format_args_finite : forall vals out, format_args vals = Some out ->
  forall v, In (Some v) vals -> exists q, v = Fin q.
Proof.
  unfold format_args. intros vals out H v Hin.
  destruct (forallb _ vals) eqn:E; [|discriminate]. rewrite forallb_forall in E. specialize (E _ Hin).
  destruct v as [q| |]; try discriminate. now exists q.
Qed.
