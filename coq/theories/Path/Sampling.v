(* Model of LaserPath.num_subdivisions and of numpy.linspace (definitions only).

     f = self.speed if speed is None else speed
     if f < 1e-6: raise ValueError
     dl = f / self.cmd_rate_max
     num = int(np.ceil(l_curve / dl))
     return 3 if num <= 1 else num
*)
From Coq Require Import ZArith QArith Qround List.
Import ListNotations.
Open Scope Q_scope.

Definition num_raw (len f rate : Q) : Z := Qceiling (len / (f / rate)).

Definition num_sub (len f rate : Q) : option Z :=
  if Qle_bool (1 # 1000000) f
  then Some (let n := num_raw len f rate in if (n <=? 1)%Z then 3%Z else n)
  else None.                                   (* ValueError *)

(* linspace a b n : a + i (b - a)/(n - 1), i = 0 .. n-1  (n >= 2) *)
Definition lin_nth (a b : Q) (n : Z) (i : Z) : Q := a + inject_Z i * ((b - a) / inject_Z (n - 1)).
