From Coq Require Import List Bool ZArith QArith.
Import ListNotations.
From Femto Require Import Base.Dedup Base.Runs Path.Stroke Path.Raster.

(* a 5-point group starts and ends closed: it contributes exactly its stroke, whatever surrounds it *)
Lemma strokes_group : forall z speed closed y run prev rest,
  strokes_from prev None (tagged (run_points z speed closed y run) ++ rest) =
  run_stroke y run ++
  strokes_from (match run with [] => prev | a :: _ => (a, y) end) None rest.
Proof.
  intros z speed closed y [|a r] prev rest; [reflexivity|].
  cbn [run_points tagged map app rx ry rs strokes_from run_stroke rev]. reflexivity.
Qed.

Lemma tagged_app : forall a b, tagged (a ++ b) = tagged a ++ tagged b.
Proof. intros; unfold tagged; apply map_app. Qed.

Lemma strokes_groups : forall z speed closed y (rs : list (list Q)) prev rest,
  exists prev',
  strokes_from prev None (tagged (flat_map (run_points z speed closed y) rs) ++ rest) =
  flat_map (run_stroke y) rs ++ strokes_from prev' None rest.
Proof.
  induction rs as [|run rs IH]; intros prev rest.
  - exists prev. reflexivity.
  - cbn [flat_map]. rewrite tagged_app, <- app_assoc, strokes_group.
    destruct (IH (match run with [] => prev | a :: _ => (a, y) end) rest) as [p' E].
    exists p'. rewrite E. now rewrite app_assoc.
Qed.

Lemma strokes_rows : forall z speed closed xs img ys prev,
  strokes_from prev None (tagged (rows_points z speed closed xs img ys)) = spec_strokes xs img ys.
Proof.
  induction img as [|row img IH]; intros ys prev; [reflexivity|].
  destruct ys as [|y ys]; [reflexivity|].
  cbn [rows_points spec_strokes]. unfold row_points. rewrite tagged_app.
  destruct (strokes_groups z speed closed y (runs xs row) prev
              (tagged (rows_points z speed closed xs img ys))) as [p' E].
  rewrite E, IH. reflexivity.
Qed.

(* the raw strokes of the raster path are exactly the specified ones *)
Theorem raster_strokes : forall px z speed closed w h img,
  raw_strokes (tagged (raster px z speed closed w h img)) =
  spec_strokes (grid (inject_Z (Z.of_nat w) * px) w) img (grid (inject_Z (Z.of_nat h) * px) h).
Proof.
  intros. unfold raw_strokes, raster.
  destruct (tagged (rows_points z speed closed _ img _)) as [|[p b] r] eqn:E.
  - rewrite <- (strokes_rows z speed closed _ img _ (0, 0)%Q), E. reflexivity.
  - rewrite <- E. apply strokes_rows.
Qed.

(* everything that is not on a stroke is closed: the trajectory starts and ends closed, and a group's
   only open points are its second and third *)
Lemma run_points_closed_ends : forall z speed closed y run,
  match run_points z speed closed y run with
  | [] => True
  | p :: r => rs p = false /\ rs (last r p) = false
  end.
Proof. intros z speed closed y [|a r]; cbn; auto. Qed.
