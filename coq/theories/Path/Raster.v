(* Model of RasterImage.image_to_path (definitions only).

     xs = linspace(0, W*px, W) ; ys = linspace(0, H*px, H)
     for row, y in zip(matrix, ys):
        for run in split_mask(xs, ~row):          (maximal runs of black pixels)
            x: [a, a, b, b, a]   f: [closed, speed, speed, closed, closed]   s: [0, 1, 1, 0, 0]
   [black] : true = black pixel. *)
From Coq Require Import List Bool ZArith QArith.
Import ListNotations.
From Femto Require Import Base.Dedup Base.Runs Path.Stroke.
Open Scope Q_scope.

Record rpt := { rx : Q; ry : Q; rz : Q; rf : Q; rs : bool }.

(* numpy.linspace(0, stop, n) *)
Definition grid (stop : Q) (n : nat) : list Q :=
  match n with
  | O => []
  | S O => [0]
  | _ => map (fun i => inject_Z (Z.of_nat i) * (stop / inject_Z (Z.of_nat n - 1))) (seq 0 n)
  end.

Definition run_points (z speed closed y : Q) (run : list Q) : list rpt :=
  match run with
  | [] => []
  | a :: _ =>
      let b := last run a in
      [ {| rx := a; ry := y; rz := z; rf := closed; rs := false |};
        {| rx := a; ry := y; rz := z; rf := speed; rs := true |};
        {| rx := b; ry := y; rz := z; rf := speed; rs := true |};
        {| rx := b; ry := y; rz := z; rf := closed; rs := false |};
        {| rx := a; ry := y; rz := z; rf := closed; rs := false |} ]
  end.

Definition row_points (z speed closed : Q) (xs : list Q) (black : list bool) (y : Q) : list rpt :=
  flat_map (run_points z speed closed y) (runs xs black).

Fixpoint rows_points (z speed closed : Q) (xs : list Q) (img : list (list bool)) (ys : list Q) : list rpt :=
  match img, ys with
  | row :: img', y :: ys' => row_points z speed closed xs row y ++ rows_points z speed closed xs img' ys'
  | _, _ => []
  end.

Definition raster (px z speed closed : Q) (w h : nat) (img : list (list bool)) : list rpt :=
  rows_points z speed closed (grid (inject_Z (Z.of_nat w) * px) w) img (grid (inject_Z (Z.of_nat h) * px) h).

(* specification: one stroke per maximal run of black pixels, rows in image order *)
Definition run_stroke (y : Q) (run : list Q) : list (list (Q * Q)) :=
  match run with [] => [] | a :: _ => [[(a, y); (a, y); (last run a, y)]] end.

Fixpoint spec_strokes (xs : list Q) (img : list (list bool)) (ys : list Q) : list (list (Q * Q)) :=
  match img, ys with
  | row :: img', y :: ys' => flat_map (run_stroke y) (runs xs row) ++ spec_strokes xs img' ys'
  | _, _ => []
  end.

Definition tagged (l : list rpt) : list ((Q * Q) * bool) := map (fun p => ((rx p, ry p), rs p)) l.
