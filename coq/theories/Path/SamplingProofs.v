From Coq Require Import ZArith QArith Qround Lia Lqa.
From Femto Require Import Path.Sampling.
Open Scope Q_scope.

(* more than one step, at most two, between consecutive samples *)
Lemma spacing : forall len dl : Q, 0 < dl -> 0 < len ->
  let n := Qceiling (len / dl) in (2 <= n)%Z ->
  dl < len / inject_Z (n - 1) /\ len / inject_Z (n - 1) <= 2 * dl.
Proof.
  intros len dl Hdl Hlen n Hn.
  set (x := len / dl) in *.
  assert (Ex : len == x * dl) by (unfold x; field; intro E; rewrite E in Hdl; apply (Qlt_irrefl 0 Hdl)).
  pose proof (Qle_ceiling x) as Hc1. pose proof (Qceiling_lt x) as Hc2. fold n in Hc1, Hc2.
  assert (Hn1 : 0 < inject_Z (n - 1)) by (unfold Qlt, inject_Z; cbn; lia).
  assert (En : inject_Z n == inject_Z (n - 1) + 1).
  { replace n with ((n - 1) + 1)%Z at 1 by lia. rewrite inject_Z_plus. reflexivity. }
  assert (H2 : 1 <= inject_Z (n - 1)) by (unfold Qle, inject_Z; cbn; lia).
  set (k := inject_Z (n - 1)) in *.
  split.
  - apply Qlt_shift_div_l; [assumption|]. rewrite Ex. nra.
  - apply Qle_shift_div_r; [assumption|]. rewrite Ex. nra.
Qed.

(* the three-point fallback is used exactly for segments not longer than one step *)
Lemma fallback_iff : forall len dl : Q, 0 < dl -> 0 < len ->
  ((Qceiling (len / dl) <= 1)%Z <-> len <= dl).
Proof.
  intros len dl Hdl Hlen.
  set (x := len / dl).
  assert (Ex : len == x * dl) by (unfold x; field; intro E; rewrite E in Hdl; apply (Qlt_irrefl 0 Hdl)).
  pose proof (Qle_ceiling x) as Hc1. pose proof (Qceiling_lt x) as Hc2.
  split; intros H.
  - assert (Hx : x <= 1).
    { eapply Qle_trans; [exact Hc1|]. unfold Qle, inject_Z; cbn. lia. }
    rewrite Ex. nra.
  - assert (Hx : x <= 1).
    { unfold x. apply Qle_shift_div_r; [assumption|]. nra. }
    assert (Hlt : inject_Z (Qceiling x - 1) < 1) by (eapply Qlt_le_trans; eassumption).
    unfold Qlt, inject_Z in Hlt; cbn in Hlt. lia.
Qed.

(* in the fallback the two half-steps are shorter than one command-rate step *)
Lemma fallback_spacing : forall len dl : Q, 0 < dl -> 0 < len -> len <= dl -> len / 2 < dl.
Proof. intros len dl Hdl Hlen H. apply Qlt_shift_div_r; [reflexivity|]. nra. Qed.

(* never more than cmd_rate_max points per second: the time between two samples exceeds 1/rate *)
Lemma rate_bound : forall len f rate : Q, 0 < f -> 0 < rate -> 0 < len ->
  let n := num_raw len f rate in (2 <= n)%Z ->
  1 / rate < (len / inject_Z (n - 1)) / f.
Proof.
  intros len f rate Hf Hr Hlen n Hn.
  assert (Hdl : 0 < f / rate) by (apply Qlt_shift_div_l; [assumption | nra]).
  destruct (spacing len (f / rate) Hdl Hlen Hn) as [H1 _]. fold (num_raw len f rate) in H1. fold n in H1.
  apply Qlt_shift_div_l; [assumption|].
  assert (E : 1 / rate * f == f / rate) by (field; intro E; rewrite E in Hr; apply (Qlt_irrefl 0 Hr)).
  rewrite E. exact H1.
Qed.

(* linspace has a constant step *)
Lemma lin_step : forall a b n i, lin_nth a b n (i + 1) - lin_nth a b n i == (b - a) / inject_Z (n - 1).
Proof. intros a b n i. unfold lin_nth. rewrite inject_Z_plus. ring. Qed.

Lemma lin_ends : forall a b n, (2 <= n)%Z -> lin_nth a b n 0 == a /\ lin_nth a b n (n - 1) == b.
Proof.
  intros a b n Hn. unfold lin_nth. split; [ring|].
  field. intro E. assert (H : 0 < inject_Z (n - 1)) by (unfold Qlt, inject_Z; cbn; lia).
  rewrite E in H. apply (Qlt_irrefl 0 H).
Qed.

Lemma num_sub_cases : forall len f rate, 1 # 1000000 <= f ->
  num_sub len f rate = Some (if (num_raw len f rate <=? 1)%Z then 3%Z else num_raw len f rate).
Proof. intros len f rate H. unfold num_sub. apply Qle_bool_iff in H. now rewrite H. Qed.

Lemma num_sub_rejects : forall len f rate, f < 1 # 1000000 -> num_sub len f rate = None.
Proof.
  intros len f rate H. unfold num_sub. destruct (Qle_bool (1 # 1000000) f) eqn:E; [|reflexivity].
  apply Qle_bool_iff in E. exfalso. apply (Qlt_irrefl f). eapply Qlt_le_trans; eassumption.
Qed.
