(* Model of femto.marker.Marker primitives (DESIGN.md Appendix A.2), as sequences of start / linear / end.
   Definitions only. *)
From Coq Require Import List Bool ZArith QArith Qround Qabs.
Import ListNotations.
From Femto Require Import Path.Laser.
Open Scope Q_scope.

Record mcfg := { m_speed : Q; m_speed_pos : Q; m_speed_closed : Q; m_depth : Q }.

(* cross(position, lx, ly) *)
Definition cross (c : mcfg) (ctr : p3) (lx_ ly_ : Q) : list lpt :=
  let '(xi, yi, zi) := ctr in
  let f := m_speed c in
  let s0 := start_blk (xi - lx_ / 2, yi, zi) (m_speed_pos c) in
  let a1 := mk (xi - lx_ / 2, yi, zi) (m_speed_pos c) true in
  let b := lin a1 (Some lx_, None, None) false true f in
  let b0 := lin b none3 false false f in
  let c0 := lin b0 (Some (- lx_ / 2), Some (- ly_ / 2), None) false false f in
  let c1 := lin c0 none3 false true f in
  let d := lin c1 (None, Some ly_, None) false true f in
  let d0 := lin d none3 false false f in
  let e := lin d0 (abs3 ctr) true false f in
  s0 ++ [b; b0; c0; c1; d; d0; e].

(* np.unique: sorted, without repeats *)
Fixpoint insert_u (x : Q) (l : list Q) : list Q :=
  match l with
  | [] => [x]
  | y :: r => if Qeq_bool x y then l else if Qle_bool x y then x :: l else y :: insert_u x r
  end.
Definition sort_uniq (l : list Q) : list Q := fold_right insert_u [] l.

(* the per-tick block of ruler, from the last point *)
Definition tick_blk (c : mcfg) (last : lpt) (x_init xt yt : Q) : list lpt :=
  let f := m_speed c in
  let p0 := lin last (Some x_init, Some yt, Some (m_depth c)) true false f in
  let p1 := lin p0 none3 true true f in
  let p2 := lin p1 (Some xt, Some yt, None) true true f in
  let p3_ := lin p2 none3 true false f in
  [p0; p1; p2; p3_].

Fixpoint ticks_from (c : mcfg) (last : lpt) (x_init : Q) (tl : list (Q * Q)) : list lpt :=
  match tl with
  | [] => []
  | (xt, yt) :: r =>
      let blk := tick_blk c last x_init xt yt in
      blk ++ ticks_from c (List.last blk last) x_init r
  end.

Definition ruler (c : mcfg) (ticks : list Q) (lx_ lx2 x_init : Q) : list lpt :=
  match sort_uniq ticks with
  | [] => []
  | t0 :: tr =>
      let first := mk (x_init, t0, m_depth c) (m_speed_pos c) false in
      let a1 := mk (x_init, t0, m_depth c) (m_speed_pos c) true in
      let body := ticks_from c a1 x_init ((lx_, t0) :: map (fun t => (lx2, t)) tr) in
      [first; a1] ++ body ++ end_blk first (List.last body a1) (m_speed_closed c)
  end.

(* meander passes, from the last point; [along] = true: lines parallel to x stepping in y *)
Definition mv (alongx : bool) (a b : Q) : option Q * option Q * option Q :=
  if alongx then (Some a, Some b, Some 0) else (Some b, Some a, Some 0).

Fixpoint passes (c : mcfg) (n : nat) (last : lpt) (alongx : bool) (sgn width d : Q) : list lpt :=
  match n with
  | O => [lin last (mv alongx (sgn * width) 0) false true (m_speed c)]
  | S k =>
      let p := lin last (mv alongx (sgn * width) 0) false true (m_speed c) in
      let q := lin p (mv alongx 0 d) false true (m_speed c) in
      p :: q :: passes c k q alongx (- sgn) width d
  end.

Definition qsign (q : Q) : Q := if Qlt_le_dec 0 q then 1 else if Qlt_le_dec q 0 then -1 else 0.

(* meander(init_pos, final_pos, width, delta, orientation) ; init_pos given with its z *)
Definition meander (c : mcfg) (p0 : p3) (pf : Q * Q) (width delta : Q) (alongx : bool) : list lpt :=
  let '(xi, yi, zi) := p0 in
  let '(xf, yf) := pf in
  let ext := if alongx then yf - yi else xf - xi in
  let n := Z.to_nat (Qfloor (Qabs ext / delta)) in
  let d := qsign ext * delta in
  let first := mk p0 (m_speed_pos c) false in
  let a1 := mk p0 (m_speed_pos c) true in
  let body := passes c n a1 alongx 1 width d in
  [first; a1] ++ body ++ end_blk first (List.last body a1) (m_speed_closed c).

(* ablation(points, shift) *)
Fixpoint visit (c : mcfg) (last : lpt) (vs : list p3) : list lpt :=
  match vs with
  | [] => []
  | v :: r => let p := lin last (abs3 v) true true (m_speed c) in p :: visit c p r
  end.

Definition shift3 (dx dy : Q) (p : p3) : p3 := let '(x, y, z) := p in (x + dx, y + dy, z).

(* the vertices of one copy, then an open and a closed duplicate of the last vertex *)
Definition trace (c : mcfg) (last : lpt) (vs : list p3) (v0 : p3) : list lpt :=
  let f := m_speed c in
  let vl := List.last vs v0 in
  let body := visit c last vs in
  let fin := List.last body last in
  let e1 := lin fin (abs3 vl) true true f in
  let e0 := lin e1 (abs3 vl) true false f in
  body ++ [e1; e0].

(* one displaced copy after the first: closed move to its first vertex, open dup, then its trace *)
Definition copy_blk (c : mcfg) (last : lpt) (vs : list p3) : list lpt :=
  match vs with
  | [] => []
  | v0 :: _ =>
      let f := m_speed c in
      let a := lin last (abs3 v0) true false f in
      let b := lin a (abs3 v0) true true f in
      a :: b :: trace c b vs v0
  end.

Fixpoint copies (c : mcfg) (last : lpt) (cs : list (list p3)) : list lpt :=
  match cs with
  | [] => []
  | vs :: r => let blk := copy_blk c last vs in blk ++ copies c (List.last blk last) r
  end.

Definition ablation (c : mcfg) (vs : list p3) (shift : option Q) : list lpt :=
  match vs with
  | [] => []
  | _ :: _ =>
      let others := match shift with
                    | None => []
                    | Some s => [map (shift3 s 0) vs; map (shift3 (- s) 0) vs; map (shift3 0 s) vs; map (shift3 0 (- s)) vs]
                    end in
      let first_vs := match shift with None => vs | Some _ => map (shift3 0 0) vs end in
      match first_vs with
      | [] => []
      | v0 :: _ =>
          let first := mk v0 (m_speed_pos c) false in
          let a1 := mk v0 (m_speed_pos c) true in
          let t1 := trace c a1 first_vs v0 in
          let rest := copies c (List.last t1 a1) others in
          [first; a1] ++ t1 ++ rest ++ end_blk first (List.last (t1 ++ rest) a1) (m_speed_closed c)
      end
  end.

Definition box (c : mcfg) (corner : p3) (w h : Q) : list lpt :=
  let '(x, y, z) := corner in
  ablation c [ (x, y, z); (x + Qabs w, y, z); (x + Qabs w, y + Qabs h, z); (x, y + Qabs h, z); (x, y, z) ] None.
