(* What the builders hand to the compiler are closed paths: shutter flags 0/1 and a shutter-closed last point.  Hence
   (Pgm/SafeProofs.pub, Writers/WritersProofs) the marker and raster files are sessions of public operations and the C03
   theorem applies to them. *)
From Coq Require Import List Bool ZArith QArith Qround Qabs.
Import ListNotations.
From Femto Require Import Base.Runs Path.Laser Path.Marker Path.Raster Pgm.Ops Pgm.SafeProofs.

Definition flag (b : bool) : Z := if b then 1%Z else 0%Z.
Definition to_pt (p : lpt) : pt := {| px := lx p; py := ly p; pz := lz p; pf := lf p; ps := flag (ls p) |}.
Definition rto_pt (p : rpt) : pt := {| px := rx p; py := ry p; pz := rz p; pf := rf p; ps := flag (rs p) |}.

(* a list that is empty or whose last element has the shutter closed *)
Definition ends_closed {A : Type} (sh : A -> bool) (l : list A) : Prop := forall d, l = [] \/ sh (last l d) = false.

Lemma ends_closed_nil : forall {A : Type} (sh : A -> bool), ends_closed sh [].
Proof. intros A sh d. now left. Qed.

Lemma last_app_ne : forall {A : Type} (a b : list A) d, b <> [] -> last (a ++ b) d = last b d.
Proof.
  induction a as [|x r IH]; intros b d Hb; [reflexivity|]. cbn [app].
  destruct (r ++ b) eqn:E; [destruct r; [cbn in E; congruence | discriminate]|]. rewrite <- E.
  change (last (x :: r ++ b) d) with (match r ++ b with [] => x | _ :: _ => last (r ++ b) d end). rewrite E. rewrite <- E. now apply IH.
Qed.

Lemma ends_closed_app : forall {A : Type} (sh : A -> bool) a b, ends_closed sh a -> ends_closed sh b -> ends_closed sh (a ++ b).
Proof.
  intros A sh a b Ha Hb d. destruct b as [|y r].
  - rewrite app_nil_r. apply Ha.
  - right. rewrite last_app_ne by discriminate. destruct (Hb d) as [E|E]; [discriminate | exact E].
Qed.

Lemma ends_closed_flat_map : forall {A B : Type} (sh : A -> bool) (f : B -> list A) l,
  (forall x, ends_closed sh (f x)) -> ends_closed sh (flat_map f l).
Proof. induction l as [|x r IH]; intros H; [apply ends_closed_nil|]. cbn [flat_map]. apply ends_closed_app; auto. Qed.

Lemma ends_closed_cons_closed : forall {A : Type} (sh : A -> bool) a x, sh x = false -> ends_closed sh (a ++ [x]).
Proof. intros A sh a x H d. right. rewrite last_app_ne by discriminate. exact H. Qed.

(* closed_path of the converted list *)
Lemma last_default : forall {A : Type} (l : list A) d d', l <> [] -> last l d = last l d'.
Proof.
  induction l as [|x r IH]; intros d d' H; [congruence|]. destruct r as [|y r']; [reflexivity|].
  change (last (x :: y :: r') d) with (last (y :: r') d). change (last (x :: y :: r') d') with (last (y :: r') d').
  apply IH. discriminate.
Qed.

Lemma last_map_ne : forall {A B : Type} (f : A -> B) (l : list A) d d', l <> [] -> last (map f l) d' = f (last l d).
Proof.
  induction l as [|x r IH]; intros d d' H; [congruence|]. destruct r as [|y r']; [reflexivity|].
  change (last (map f (x :: y :: r')) d') with (last (map f (y :: r')) d'). change (last (x :: y :: r') d) with (last (y :: r') d).
  apply IH. discriminate.
Qed.

Lemma closed_flags : forall {A : Type} (sh : A -> bool) (cv : A -> pt), (forall p, ps (cv p) = flag (sh p)) ->
  forall l, ends_closed sh l -> closed_path (map cv l) = true.
Proof.
  intros A sh cv Hcv l H. unfold closed_path. apply andb_true_iff. split.
  - apply forallb_forall. intros q Hq. apply in_map_iff in Hq as [p [<- _]]. rewrite Hcv. destruct (sh p); reflexivity.
  - rewrite map_map. destruct l as [|x r]; [reflexivity|]. destruct (H x) as [E|E]; [discriminate|].
    rewrite (last_map_ne (fun p => ps (cv p)) (x :: r) x 0%Z) by discriminate. rewrite Hcv, E. reflexivity.
Qed.

(* ---- the marker primitives ---- *)
Lemma end_blk_closed : forall a first lst sc, ends_closed ls (a ++ end_blk first lst sc).
Proof.
  intros a first lst sc. unfold end_blk.
  change (a ++ [mk (pos_of lst) (lf lst) false; mk (pos_of first) sc false])
    with (a ++ ([mk (pos_of lst) (lf lst) false] ++ [mk (pos_of first) sc false])).
  rewrite app_assoc. apply ends_closed_cons_closed. destruct first as [x y z f s]. reflexivity.
Qed.

Theorem cross_closed : forall c ctr a b, ends_closed ls (cross c ctr a b).
Proof. intros c [[x y] z] a b d. right. reflexivity. Qed.

Theorem ruler_closed : forall c ticks a b x_init, ends_closed ls (ruler c ticks a b x_init).
Proof.
  intros c ticks a b x_init. unfold ruler. destruct (sort_uniq ticks) as [|t0 tr]; [apply ends_closed_nil|].
  rewrite app_assoc. apply end_blk_closed.
Qed.

Theorem meander_closed : forall c p0 pf w delta alongx, ends_closed ls (meander c p0 pf w delta alongx).
Proof.
  intros c [[xi yi] zi] [xf yf] w delta alongx. unfold meander. rewrite app_assoc. apply end_blk_closed.
Qed.

Theorem ablation_closed : forall c vs shift, ends_closed ls (ablation c vs shift).
Proof.
  intros c vs shift. unfold ablation. destruct vs as [|v r]; [apply ends_closed_nil|].
  destruct (match shift with None => v :: r | Some _ => map (shift3 0 0) (v :: r) end) as [|v0 r0]; [apply ends_closed_nil|].
  rewrite !app_assoc. apply end_blk_closed.
Qed.

Theorem box_closed : forall c corner w h, ends_closed ls (box c corner w h).
Proof. intros c [[x y] z] w h. unfold box. apply ablation_closed. Qed.

(* ---- raster images ---- *)
Lemma run_points_closed : forall z speed closed y run, ends_closed rs (run_points z speed closed y run).
Proof. intros z speed closed y [|a r] d; [now left | right; reflexivity]. Qed.

Theorem raster_closed : forall px z speed closed w h img, ends_closed rs (raster px z speed closed w h img).
Proof.
  intros px z speed closed w h img. unfold raster.
  generalize (grid (inject_Z (Z.of_nat w) * px) w) as xs. generalize (grid (inject_Z (Z.of_nat h) * px) h) as ys.
  intros ys xs. revert ys. induction img as [|row img' IH]; intros ys; [apply ends_closed_nil|].
  destruct ys as [|y ys']; [apply ends_closed_nil|]. cbn [rows_points]. apply ends_closed_app; [|apply IH].
  unfold row_points. apply ends_closed_flat_map. intros run. apply run_points_closed.
Qed.

(* every figure and every raster image is a closed path for the compiler *)
Theorem builders_closed_paths :
  (forall c ctr a b, closed_path (map to_pt (cross c ctr a b)) = true) /\
  (forall c ticks a b x_init, closed_path (map to_pt (ruler c ticks a b x_init)) = true) /\
  (forall c p0 pf w delta alongx, closed_path (map to_pt (meander c p0 pf w delta alongx)) = true) /\
  (forall c vs shift, closed_path (map to_pt (ablation c vs shift)) = true) /\
  (forall c corner w h, closed_path (map to_pt (box c corner w h)) = true) /\
  (forall px z speed closed w h img, closed_path (map rto_pt (raster px z speed closed w h img)) = true).
Proof.
  repeat split; intros.
  - apply (closed_flags ls to_pt); [reflexivity | apply cross_closed].
  - apply (closed_flags ls to_pt); [reflexivity | apply ruler_closed].
  - apply (closed_flags ls to_pt); [reflexivity | apply meander_closed].
  - apply (closed_flags ls to_pt); [reflexivity | apply ablation_closed].
  - apply (closed_flags ls to_pt); [reflexivity | apply box_closed].
  - apply (closed_flags rs rto_pt); [reflexivity | apply raster_closed].
Qed.
