(* Model of Device.append / Device.extend / parse_objects and of the five writers' append / extend
   (device.py, writer.py, helpers.flatten / nest_level).  Objects are identified by (exact type, id);
   python lists are [Grp].  Definitions only. *)
From Coq Require Import List Bool NArith.
Import ListNotations.

(* exact python type; KSubWg / KSubTc: user-defined subclasses of Waveguide / TrenchColumn *)
Inductive kind := KWg | KNwg | KTc | KUtc | KMk | KSubWg (n : N) | KSubTc (n : N) | KOther (n : N).

Inductive item := Obj (k : kind) (id : N) | Grp (l : list item).

Definition kind_eqb (a b : kind) : bool :=
  match a, b with
  | KWg, KWg | KNwg, KNwg | KTc, KTc | KUtc, KUtc | KMk, KMk => true
  | KOther n, KOther m | KSubWg n, KSubWg m | KSubTc n, KSubTc m => N.eqb n m
  | _, _ => false
  end.

(* isinstance: NasuWaveguide is a Waveguide, UTrenchColumn is a TrenchColumn *)
Definition isinst (k cls : kind) : bool :=
  kind_eqb k cls || match k, cls with KNwg, KWg | KUtc, KTc | KSubWg _, KWg | KSubTc _, KTc => true | _, _ => false end.

(* helpers.flatten: a new flat list of the leaves *)
Fixpoint flat_i (it : item) : list item :=
  match it with
  | Obj _ _ => [it]
  | Grp l => (fix fl (l : list item) : list item := match l with [] => [] | x :: r => flat_i x ++ fl r end) l
  end.
Fixpoint flat (l : list item) : list item := match l with [] => [] | x :: r => flat_i x ++ flat r end.

(* helpers.nest_level of a python list holding these items *)
Fixpoint nest_i (it : item) : nat :=
  match it with
  | Obj _ _ => 0
  | Grp l => S ((fix mx (l : list item) : nat := match l with [] => 0 | x :: r => Nat.max (nest_i x) (mx r) end) l)
  end.
Definition nest_level (l : list item) : nat := nest_i (Grp l).

Inductive exn := TypeErr | ValueErr | IndexErr.

Record dev := {
  d_wg : list item; d_nwg : list item; d_tc : list item; d_utc : list item; d_mk : list item
}.
Definition dev0 : dev := {| d_wg := []; d_nwg := []; d_tc := []; d_utc := []; d_mk := [] |}.

Definition leaf_kind (it : item) : option kind := match it with Obj k _ => Some k | Grp _ => None end.
Definition all_inst (cls : kind) (l : list item) : bool :=
  forallb (fun it => match leaf_kind it with Some k => isinst k cls | None => false end) l.

(* append one by one; the items before the first rejected one stay (as in the python loops) *)
Fixpoint append_each (cls : kind) (acc : list item) (l : list item) : list item * option exn :=
  match l with
  | [] => (acc, None)
  | it :: r =>
      match leaf_kind it with
      | Some k => if isinst k cls then append_each cls (acc ++ [it]) r else (acc, Some TypeErr)
      | None => (acc, Some TypeErr)
      end
  end.

(* <Writer>.extend(e) for the writer registered under [w] *)
Definition writer_extend (w : kind) (d : dev) (e : list item) : dev * option exn :=
  match w with
  | KWg =>
      if Nat.ltb 2 (nest_level e) then (d, Some ValueErr)
      else if all_inst KWg (flat e)
           then ({| d_wg := d_wg d ++ e; d_nwg := d_nwg d; d_tc := d_tc d; d_utc := d_utc d; d_mk := d_mk d |}, None)
           else (d, Some TypeErr)
  | KNwg =>
      if all_inst KNwg (flat e)
      then ({| d_wg := d_wg d; d_nwg := d_nwg d ++ e; d_tc := d_tc d; d_utc := d_utc d; d_mk := d_mk d |}, None)
      else (d, Some TypeErr)
  | KTc =>
      let '(l, x) := append_each KTc (d_tc d) (flat e) in
      ({| d_wg := d_wg d; d_nwg := d_nwg d; d_tc := l; d_utc := d_utc d; d_mk := d_mk d |}, x)
  | KUtc =>
      let '(l, x) := append_each KUtc (d_utc d) (flat e) in
      ({| d_wg := d_wg d; d_nwg := d_nwg d; d_tc := d_tc d; d_utc := l; d_mk := d_mk d |}, x)
  | KMk =>
      let '(l, x) := append_each KMk (d_mk d) (flat e) in
      ({| d_wg := d_wg d; d_nwg := d_nwg d; d_tc := d_tc d; d_utc := d_utc d; d_mk := l |}, x)
  | _ => (d, Some TypeErr)                  (* KeyError -> TypeError: no writer for this type *)
  end.

(* <Writer>.append(obj) *)
Definition writer_append (w : kind) (d : dev) (it : item) : dev * option exn :=
  match leaf_kind it with
  | Some k =>
      if isinst k w then
        match w with
        | KWg => ({| d_wg := d_wg d ++ [it]; d_nwg := d_nwg d; d_tc := d_tc d; d_utc := d_utc d; d_mk := d_mk d |}, None)
        | KNwg => ({| d_wg := d_wg d; d_nwg := d_nwg d ++ [it]; d_tc := d_tc d; d_utc := d_utc d; d_mk := d_mk d |}, None)
        | KTc => ({| d_wg := d_wg d; d_nwg := d_nwg d; d_tc := d_tc d ++ [it]; d_utc := d_utc d; d_mk := d_mk d |}, None)
        | KUtc => ({| d_wg := d_wg d; d_nwg := d_nwg d; d_tc := d_tc d; d_utc := d_utc d ++ [it]; d_mk := d_mk d |}, None)
        | KMk => ({| d_wg := d_wg d; d_nwg := d_nwg d; d_tc := d_tc d; d_utc := d_utc d; d_mk := d_mk d ++ [it] |}, None)
        | _ => (d, Some TypeErr)
        end
      else (d, Some TypeErr)
  | None => (d, Some TypeErr)
  end.

(* the bucket key of an unparsed object: its type, or the type of the first element of a list *)
Inductive key := KeyOf (k : kind) | KeyList | KeyEmpty.
Definition key_of (it : item) : key :=
  match it with
  | Obj k _ => KeyOf k
  | Grp [] => KeyEmpty                       (* obj[0] on an empty list: IndexError *)
  | Grp (Obj k _ :: _) => KeyOf k
  | Grp (Grp _ :: _) => KeyList              (* type list: no writer *)
  end.

Definition key_eqb (a b : key) : bool :=
  match a, b with
  | KeyOf k, KeyOf j => kind_eqb k j
  | KeyList, KeyList | KeyEmpty, KeyEmpty => true
  | _, _ => false
  end.

(* defaultdict(list) filled in order: buckets in first-occurrence order *)
Fixpoint bucket_add (k : key) (it : item) (bs : list (key * list item)) : list (key * list item) :=
  match bs with
  | [] => [(k, [it])]
  | (k', l) :: r => if key_eqb k k' then (k', l ++ [it]) :: r else (k', l) :: bucket_add k it r
  end.

Fixpoint buckets (l : list item) (bs : list (key * list item)) : option (list (key * list item)) :=
  match l with
  | [] => Some bs
  | it :: r => match key_of it with
               | KeyEmpty => None
               | k => buckets r (bucket_add k it bs)
               end
  end.

Fixpoint route (d : dev) (bs : list (key * list item)) : dev * option exn :=
  match bs with
  | [] => (d, None)
  | (k, e) :: r =>
      match k with
      | KeyOf w =>
          match writer_extend w d e with
          | (d', None) => route d' r
          | (d', Some x) => (d', Some x)
          end
      | _ => (d, Some TypeErr)
      end
  end.

Definition parse_objects (d : dev) (l : list item) : dev * option exn :=
  match buckets l [] with
  | None => (d, Some IndexErr)
  | Some bs => route d bs
  end.

(* Device.append(obj) = parse_objects(flatten([obj])) ; Device.extend(lst) = parse_objects(copy(lst)) *)
Definition dev_append (d : dev) (it : item) : dev * option exn := parse_objects d (flat [it]).
Definition dev_extend (d : dev) (it : item) : dev * option exn :=
  match it with
  | Grp l => parse_objects d l
  | Obj _ _ => (d, Some TypeErr)            (* not a list *)
  end.

Inductive dop :=
| DAppend (it : item) | DExtend (it : item)
| WAppend (w : kind) (it : item) | WExtend (w : kind) (it : item).

Definition step (d : dev) (o : dop) : dev * option exn :=
  match o with
  | DAppend it => dev_append d it
  | DExtend it => dev_extend d it
  | WAppend w it => writer_append w d it
  | WExtend w it => match it with Grp l => writer_extend w d l | Obj _ _ => (d, Some TypeErr) end
  end.

(* a history: exceptions are caught by the caller, the device is used further *)
Fixpoint run_hist (d : dev) (h : list dop) : dev * list (option exn) :=
  match h with
  | [] => (d, [])
  | o :: r => let '(d1, x) := step d o in let '(d2, xs) := run_hist d1 r in (d2, x :: xs)
  end.

(* TrenchWriter(tc_list): a single column is a one-element list *)
Definition tw_init (arg : item) : list item := match arg with Obj _ _ => flat [arg] | Grp l => flat l end.
