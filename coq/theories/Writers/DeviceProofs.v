From Coq Require Import List Bool NArith Arith Lia.
Import ListNotations.
From Femto Require Import Writers.Device.
Set Default Timeout 20.

Definition five (k : kind) : bool :=
  match k with KWg | KNwg | KTc | KUtc | KMk => true | _ => false end.

Definition add_to (k : kind) (d : dev) (l : list item) : dev :=
  match k with
  | KWg => {| d_wg := d_wg d ++ l; d_nwg := d_nwg d; d_tc := d_tc d; d_utc := d_utc d; d_mk := d_mk d |}
  | KNwg => {| d_wg := d_wg d; d_nwg := d_nwg d ++ l; d_tc := d_tc d; d_utc := d_utc d; d_mk := d_mk d |}
  | KTc => {| d_wg := d_wg d; d_nwg := d_nwg d; d_tc := d_tc d ++ l; d_utc := d_utc d; d_mk := d_mk d |}
  | KUtc => {| d_wg := d_wg d; d_nwg := d_nwg d; d_tc := d_tc d; d_utc := d_utc d ++ l; d_mk := d_mk d |}
  | KMk => {| d_wg := d_wg d; d_nwg := d_nwg d; d_tc := d_tc d; d_utc := d_utc d; d_mk := d_mk d ++ l |}
  | _ => d
  end.

(* a single object of a supported type goes to the collection of its own type and nowhere else *)
Theorem append_single : forall d k id, five k = true ->
  dev_append d (Obj k id) = (add_to k d [Obj k id], None).
Proof. intros d k id H. destruct k; try discriminate; reflexivity. Qed.

(* any other type is rejected and nothing is stored *)
Theorem append_foreign : forall d k id, five k = false -> dev_append d (Obj k id) = (d, Some TypeErr).
Proof. intros d k id H. destruct k; try discriminate; reflexivity. Qed.

Theorem extend_not_a_list : forall d k id, dev_extend d (Obj k id) = (d, Some TypeErr).
Proof. reflexivity. Qed.

(* a trench writer constructed from a single column is the one constructed from a one-element list *)
Theorem tw_single : forall k id, tw_init (Obj k id) = tw_init (Grp [Obj k id]) /\ tw_init (Obj k id) = [Obj k id].
Proof. intros; split; reflexivity. Qed.

(* ---- extend with waveguides and groups of waveguides: grouping preserved ---- *)

Definition wg_entry (it : item) : bool :=
  match it with
  | Obj KWg _ => true
  | Grp (Obj KWg i :: r) => forallb (fun x => match x with Obj KWg _ => true | _ => false end) r
  | _ => false
  end.

Lemma wg_entry_key : forall it, wg_entry it = true -> key_of it = KeyOf KWg.
Proof.
  intros [k i|l] H; cbn in *.
  - destruct k; try discriminate; reflexivity.
  - destruct l as [|[k i|l'] r]; try discriminate. destruct k; try discriminate. reflexivity.
Qed.

Lemma buckets_wg_acc : forall l a acc, forallb wg_entry l = true ->
  buckets l [(KeyOf KWg, a :: acc)] = Some [(KeyOf KWg, (a :: acc) ++ l)].
Proof.
  induction l as [|it r IH]; intros a acc H.
  - cbn [buckets]. now rewrite app_nil_r.
  - cbn [forallb] in H. apply andb_true_iff in H as [H1 H2]. cbn [buckets]. rewrite (wg_entry_key it H1).
    cbn [bucket_add key_eqb kind_eqb]. change ((a :: acc) ++ [it]) with (a :: (acc ++ [it])).
    rewrite (IH a (acc ++ [it]) H2). cbn [app]. now rewrite <- app_assoc.
Qed.

Lemma buckets_wg : forall l, forallb wg_entry l = true -> l <> [] -> buckets l [] = Some [(KeyOf KWg, l)].
Proof.
  intros [|it r] H Hne; [congruence|]. cbn [forallb] in H. apply andb_true_iff in H as [H1 H2].
  cbn [buckets]. rewrite (wg_entry_key it H1). cbn [bucket_add]. now rewrite (buckets_wg_acc r it [] H2).
Qed.

Lemma flat_wg_entries : forall l, forallb wg_entry l = true -> all_inst KWg (flat l) = true.
Proof.
  induction l as [|it r IH]; intros H; [reflexivity|]. cbn [forallb] in H. apply andb_true_iff in H as [H1 H2].
  cbn [flat]. unfold all_inst in *. rewrite forallb_app, (IH H2), andb_true_r.
  destruct it as [k i|g]; cbn in H1.
  - destruct k; try discriminate. reflexivity.
  - destruct g as [|[k i|g'] r']; try discriminate. destruct k; try discriminate.
    cbn [flat_i app forallb leaf_kind isinst kind_eqb orb andb].
    induction r' as [|[k' i'|g''] r'' IHr]; [reflexivity| |discriminate].
    cbn [forallb] in H1. destruct k'; try discriminate. cbn. apply IHr. exact H1.
Qed.

Lemma nest_wg_entries : forall l, forallb wg_entry l = true -> (nest_level l <= 2)%nat.
Proof.
  intros l H. unfold nest_level. cbn [nest_i].
  assert (G : ((fix mx (l : list item) : nat := match l with [] => 0 | x :: r => Nat.max (nest_i x) (mx r) end) l <= 1)%nat).
  { induction l as [|it r IH]; [lia|]. cbn [forallb] in H. apply andb_true_iff in H as [H1 H2].
    specialize (IH H2). apply Nat.max_lub; [|exact IH].
    destruct it as [k i|g]; [cbn; lia|]. cbn in H1.
    destruct g as [|[k i|g'] r']; try discriminate. destruct k; try discriminate.
    cbn [nest_i]. apply le_n_S.
    induction r' as [|[k' i'|g''] r'' IHr]; [cbn; lia| |discriminate].
    cbn [forallb] in H1. destruct k'; try discriminate. cbn. apply IHr. exact H1. }
  lia.
Qed.

(* Device.extend with waveguides and groups of waveguides keeps them in order, grouped as given, in the
   waveguide collection; every other collection is untouched *)
Theorem extend_waveguides : forall d l, forallb wg_entry l = true -> l <> [] ->
  dev_extend d (Grp l) = (add_to KWg d l, None).
Proof.
  intros d l H Hne. unfold dev_extend, parse_objects.
  rewrite (buckets_wg l H Hne).
  cbn [route writer_extend].
  pose proof (nest_wg_entries l H) as N. apply Nat.ltb_ge in N. rewrite N.
  rewrite (flat_wg_entries l H). reflexivity.
Qed.

(* ================= the general clause for Device.extend: any mixture of supported objects ================= *)

(* an entry the device accepts: an object of one of the five types, or a group of plain waveguides *)
Definition ok_entry (it : item) : bool :=
  wg_entry it || match it with Obj k _ => five k | Grp _ => false end.

Definition ekind (it : item) : kind :=
  match it with Obj k _ => k | Grp (Obj k _ :: _) => k | Grp _ => KOther 0 end.

Lemma ok_entry_key : forall it, ok_entry it = true -> key_of it = KeyOf (ekind it) /\ five (ekind it) = true.
Proof.
  intros [k i|l] H; unfold ok_entry in H; cbn in *.
  - split; [reflexivity|]. destruct k; cbn in *; try discriminate; reflexivity.
  - rewrite orb_false_r in H. destruct l as [|[k i|l'] r]; try discriminate. destruct k; try discriminate. split; reflexivity.
Qed.

Lemma kind_eqb_eq : forall a b, kind_eqb a b = true <-> a = b.
Proof.
  intros a b; split.
  - destruct a, b; cbn; try discriminate; try reflexivity; intros H; apply N.eqb_eq in H; now subst.
  - intros ->. destruct b; cbn; try reflexivity; apply N.eqb_refl.
Qed.

Lemma kind_eqb_sym : forall a b, kind_eqb a b = kind_eqb b a.
Proof.
  intros a b. destruct (kind_eqb a b) eqn:E.
  - apply kind_eqb_eq in E. subst. symmetry. now apply kind_eqb_eq.
  - destruct (kind_eqb b a) eqn:E2; [|reflexivity]. apply kind_eqb_eq in E2. subst.
    assert (kind_eqb a a = true) by now apply kind_eqb_eq. congruence.
Qed.

(* the entries of type k, in order *)
Definition sel (k : kind) (l : list item) : list item := filter (fun it => kind_eqb (ekind it) k) l.

(* the collection registered for a type *)
Definition fld (k : kind) (d : dev) : list item :=
  match k with KWg => d_wg d | KNwg => d_nwg d | KTc => d_tc d | KUtc => d_utc d | KMk => d_mk d | _ => [] end.

Lemma fld_add_to : forall k w d l, five k = true -> five w = true ->
  fld k (add_to w d l) = fld k d ++ (if kind_eqb w k then l else []).
Proof. intros k w d l Hk Hw. destruct k, w; try discriminate; cbn; rewrite ?app_nil_r; reflexivity. Qed.

(* first bucket with a key *)
Fixpoint lookupb (k : kind) (bs : list (key * list item)) : list item :=
  match bs with
  | [] => []
  | b :: r => if key_eqb (fst b) (KeyOf k) then snd b else lookupb k r
  end.

Lemma key_of_kind : forall k' w, key_eqb (KeyOf w) k' = true -> k' = KeyOf w.
Proof. intros [w'| |] w H; try discriminate. cbn in H. apply kind_eqb_eq in H. now subst. Qed.

Lemma lookupb_add : forall k w it bs,
  lookupb k (bucket_add (KeyOf w) it bs) = lookupb k bs ++ (if kind_eqb w k then [it] else []).
Proof.
  intros k w it. induction bs as [|[k' e] r IH]; cbn [bucket_add lookupb fst snd].
  - change (key_eqb (KeyOf w) (KeyOf k)) with (kind_eqb w k). destruct (kind_eqb w k); reflexivity.
  - destruct (key_eqb (KeyOf w) k') eqn:E; cbn [lookupb fst snd].
    + apply key_of_kind in E. subst k'. change (key_eqb (KeyOf w) (KeyOf k)) with (kind_eqb w k).
      destruct (kind_eqb w k); [reflexivity | now rewrite app_nil_r].
    + destruct (key_eqb k' (KeyOf k)) eqn:E2; [|exact IH].
      destruct k' as [w'| |]; try discriminate. cbn in E, E2. apply kind_eqb_eq in E2. subst w'.
      rewrite E. now rewrite app_nil_r.
Qed.

(* invariants of the bucket list *)
Definition okb1 (b : key * list item) : Prop :=
  exists w, fst b = KeyOf w /\ five w = true /\ forallb (fun it => ok_entry it && kind_eqb (ekind it) w) (snd b) = true.
Fixpoint nodupk (bs : list (key * list item)) : Prop :=
  match bs with
  | [] => True
  | b :: r => (forall b', In b' r -> key_eqb (fst b) (fst b') = false) /\ nodupk r
  end.

Lemma bucket_add_keys : forall w it bs b', In b' (bucket_add (KeyOf w) it bs) ->
  (exists b, In b bs /\ fst b = fst b') \/ fst b' = KeyOf w.
Proof.
  intros w it. induction bs as [|[k' e] r IH]; intros b' H; cbn [bucket_add] in H.
  - destruct H as [<-|[]]. now right.
  - destruct (key_eqb (KeyOf w) k') eqn:E.
    + destruct H as [<-|H]; [left; exists (k', e); split; [now left | reflexivity]|].
      left. exists b'. split; [now right | reflexivity].
    + destruct H as [<-|H]; [left; exists (k', e); split; [now left | reflexivity]|].
      destruct (IH b' H) as [[b [Hb Eb]]|Hw]; [left; exists b; split; [now right | exact Eb] | now right].
Qed.

Lemma bucket_add_inv : forall it bs, five (ekind it) = true -> ok_entry it = true ->
  Forall okb1 bs -> nodupk bs ->
  Forall okb1 (bucket_add (KeyOf (ekind it)) it bs) /\ nodupk (bucket_add (KeyOf (ekind it)) it bs).
Proof.
  intros it bs Hw Hit. set (w := ekind it) in *.
  assert (Hkk : kind_eqb (ekind it) w = true) by now apply kind_eqb_eq.
  induction bs as [|[k' e] r IH]; intros HF HN; cbn [bucket_add].
  - split; [|split; [intros b' []|exact I]]. constructor; [|constructor]. exists w. cbn [fst snd forallb].
    split; [reflexivity|]. split; [exact Hw|]. now rewrite Hit, Hkk.
  - apply Forall_cons_iff in HF as [H1 H2]. destruct HN as [N1 N2]. destruct (key_eqb (KeyOf w) k') eqn:E.
    + apply key_of_kind in E. split.
      * constructor; [|exact H2]. destruct H1 as [w' [E1 [F1 A1]]]. cbn [fst snd] in *. rewrite E in E1. injection E1 as E1.
        exists w. cbn [fst snd]. split; [exact E|]. split; [exact Hw|]. rewrite forallb_app. rewrite <- E1 in A1. rewrite A1. cbn [forallb].
        now rewrite Hit, Hkk.
      * split; [exact N1 | exact N2].
    + destruct (IH H2 N2) as [F' N']. split; [constructor; assumption|]. split; [|exact N'].
      intros b' Hb'. cbn [fst]. destruct (bucket_add_keys w it r b' Hb') as [[b [Hb Eb]]|Eb].
      * rewrite <- Eb. apply (N1 b Hb).
      * rewrite Eb. destruct H1 as [w' [E1 _]]. cbn [fst] in E1. rewrite E1 in *. cbn in *. rewrite kind_eqb_sym. exact E.
Qed.

Definition fold_b (l : list item) (bs : list (key * list item)) : list (key * list item) :=
  fold_left (fun bs it => bucket_add (key_of it) it bs) l bs.

Lemma buckets_fold : forall l bs, forallb ok_entry l = true -> buckets l bs = Some (fold_b l bs).
Proof.
  induction l as [|it r IH]; intros bs H; [reflexivity|]. cbn [forallb] in H. apply andb_true_iff in H as [H1 H2].
  cbn [buckets fold_b fold_left]. destruct (ok_entry_key it H1) as [E _]. rewrite E. now apply IH.
Qed.

Lemma fold_b_inv : forall l bs, forallb ok_entry l = true -> Forall okb1 bs -> nodupk bs ->
  Forall okb1 (fold_b l bs) /\ nodupk (fold_b l bs) /\ forall k, lookupb k (fold_b l bs) = lookupb k bs ++ sel k l.
Proof.
  induction l as [|it r IH]; intros bs H HF HN.
  - cbn. split; [exact HF|]. split; [exact HN|]. intros; now rewrite app_nil_r.
  - cbn [forallb] in H. apply andb_true_iff in H as [H1 H2]. cbn [fold_b fold_left].
    destruct (ok_entry_key it H1) as [E F]. rewrite E.
    destruct (bucket_add_inv it bs F H1 HF HN) as [HF' HN'].
    destruct (IH _ H2 HF' HN') as [A [B C]]. split; [exact A|]. split; [exact B|].
    intros k. unfold fold_b in C. rewrite C, lookupb_add. unfold sel. cbn [filter].
    destruct (kind_eqb (ekind it) k); [now rewrite <- app_assoc | now rewrite app_nil_r].
Qed.

(* ---- each writer accepts its bucket ---- *)
Definition obj_of (w : kind) (it : item) : bool := match it with Obj k _ => kind_eqb k w | Grp _ => false end.

Lemma objs_flat : forall w e, forallb (obj_of w) e = true -> flat e = e.
Proof.
  induction e as [|it r IH]; intros H; [reflexivity|]. cbn [forallb] in H. apply andb_true_iff in H as [H1 H2].
  destruct it as [k i|g]; [|discriminate]. cbn [flat flat_i app]. now rewrite (IH H2).
Qed.

Lemma objs_append_each : forall w e acc, forallb (obj_of w) e = true -> append_each w acc e = (acc ++ e, None).
Proof.
  induction e as [|it r IH]; intros acc H; cbn [append_each]; [now rewrite app_nil_r|].
  cbn [forallb] in H. apply andb_true_iff in H as [H1 H2]. destruct it as [k i|g]; [|discriminate]. cbn [obj_of] in H1.
  cbn [leaf_kind]. unfold isinst. rewrite H1. cbn [orb]. rewrite (IH _ H2). now rewrite <- app_assoc.
Qed.

Lemma objs_all_inst : forall w e, forallb (obj_of w) e = true -> all_inst w e = true.
Proof.
  induction e as [|it r IH]; intros H; [reflexivity|]. cbn [forallb] in H. apply andb_true_iff in H as [H1 H2].
  destruct it as [k i|g]; [|discriminate]. cbn [obj_of] in H1. unfold all_inst in *. cbn [forallb leaf_kind]. unfold isinst.
  rewrite H1. cbn [orb andb]. now apply IH.
Qed.

Lemma bucket_objs : forall w e, w <> KWg ->
  forallb (fun it => ok_entry it && kind_eqb (ekind it) w) e = true -> forallb (obj_of w) e = true.
Proof.
  intros w e Hw. induction e as [|it r IH]; intros H; [reflexivity|]. cbn [forallb] in *.
  apply andb_true_iff in H as [H1 H2]. rewrite (IH H2), andb_true_r. apply andb_true_iff in H1 as [A B].
  destruct it as [k i|g]; cbn [ekind obj_of] in *; [exact B|].
  unfold ok_entry in A. rewrite orb_false_r in A. cbn in A.
  destruct g as [|[k i|g'] r']; try discriminate. destruct k; try discriminate. apply kind_eqb_eq in B. congruence.
Qed.

Lemma bucket_wg : forall e, forallb (fun it => ok_entry it && kind_eqb (ekind it) KWg) e = true -> forallb wg_entry e = true.
Proof.
  induction e as [|it r IH]; intros H; [reflexivity|]. cbn [forallb] in *. apply andb_true_iff in H as [H1 H2].
  rewrite (IH H2), andb_true_r. apply andb_true_iff in H1 as [A B]. unfold ok_entry in A.
  apply orb_true_iff in A as [A|A]; [exact A|]. destruct it as [k i|g]; [|discriminate]. cbn in B. apply kind_eqb_eq in B. now subst k.
Qed.

Lemma writer_extend_ok : forall w d e, five w = true ->
  forallb (fun it => ok_entry it && kind_eqb (ekind it) w) e = true -> writer_extend w d e = (add_to w d e, None).
Proof.
  intros w d e Hw He. destruct w; try discriminate; cbn [writer_extend add_to].
  - pose proof (bucket_wg e He) as G. pose proof (nest_wg_entries e G) as N. apply Nat.ltb_ge in N. rewrite N.
    now rewrite (flat_wg_entries e G).
  - assert (O : forallb (obj_of KNwg) e = true) by (apply bucket_objs; [discriminate | exact He]).
    rewrite (objs_flat _ _ O), (objs_all_inst _ _ O). reflexivity.
  - assert (O : forallb (obj_of KTc) e = true) by (apply bucket_objs; [discriminate | exact He]).
    rewrite (objs_flat _ _ O), (objs_append_each _ _ _ O). reflexivity.
  - assert (O : forallb (obj_of KUtc) e = true) by (apply bucket_objs; [discriminate | exact He]).
    rewrite (objs_flat _ _ O), (objs_append_each _ _ _ O). reflexivity.
  - assert (O : forallb (obj_of KMk) e = true) by (apply bucket_objs; [discriminate | exact He]).
    rewrite (objs_flat _ _ O), (objs_append_each _ _ _ O). reflexivity.
Qed.

Lemma lookupb_absent : forall k (b : key * list item) r, fst b = KeyOf k -> (forall b', In b' r -> key_eqb (fst b) (fst b') = false) -> lookupb k r = [].
Proof.
  intros k b r Hb. induction r as [|b' r' IH]; intros H; [reflexivity|]. cbn [lookupb].
  pose proof (H b' (or_introl eq_refl)) as E. rewrite Hb in E.
  destruct (key_eqb (fst b') (KeyOf k)) eqn:E2.
  - destruct (fst b') as [w'| |]; try discriminate. cbn in E, E2. rewrite kind_eqb_sym in E. congruence.
  - apply IH. intros b'' Hb''. apply H. now right.
Qed.

Lemma route_ok : forall bs d, Forall okb1 bs -> nodupk bs ->
  exists d', route d bs = (d', None) /\ forall k, five k = true -> fld k d' = fld k d ++ lookupb k bs.
Proof.
  induction bs as [|[k' e] r IH]; intros d HF HN.
  - exists d. split; [reflexivity|]. intros; cbn; now rewrite app_nil_r.
  - inversion HF as [|? ? H1 H2]; subst. destruct HN as [N1 N2]. destruct H1 as [w [E1 [F1 A1]]]. cbn [fst snd] in *. subst k'.
    cbn [route]. rewrite (writer_extend_ok w d e F1 A1).
    destruct (IH (add_to w d e) H2 N2) as [d' [R Hd]]. exists d'. split; [exact R|].
    intros k Hk. rewrite (Hd k Hk), (fld_add_to k w d e Hk F1). cbn [lookupb fst snd].
    change (key_eqb (KeyOf w) (KeyOf k)) with (kind_eqb w k). destruct (kind_eqb w k) eqn:E.
    + apply kind_eqb_eq in E. subst k. rewrite (lookupb_absent w (KeyOf w, e) r eq_refl N1). now rewrite app_nil_r.
    + now rewrite app_nil_r.
Qed.

(* Device.extend with any mixture of supported objects and groups of waveguides: no exception, and every collection
   receives exactly the entries of its own type, in the order given, groups intact *)
Theorem extend_general : forall d l, forallb ok_entry l = true ->
  exists d', dev_extend d (Grp l) = (d', None) /\ forall k, five k = true -> fld k d' = fld k d ++ sel k l.
Proof.
  intros d l H. unfold dev_extend, parse_objects. rewrite (buckets_fold l [] H).
  destruct (fold_b_inv l [] H (Forall_nil _) I) as [A [B C]].
  destruct (route_ok (fold_b l []) d A B) as [d' [R Hd]]. exists d'. split; [exact R|].
  intros k Hk. rewrite (Hd k Hk), (C k). reflexivity.
Qed.

(* ... and so does any sequence of such calls *)
Theorem extend_history : forall ls d, Forall (fun l => forallb ok_entry l = true) ls ->
  let r := run_hist d (map (fun l => DExtend (Grp l)) ls) in
  Forall (fun x => x = None) (snd r) /\ forall k, five k = true -> fld k (fst r) = fld k d ++ flat_map (sel k) ls.
Proof.
  induction ls as [|l r IH]; intros d HF; cbv zeta.
  - cbn. split; [constructor|]. intros; now rewrite app_nil_r.
  - inversion HF as [|? ? H1 H2]; subst. cbn [map run_hist step].
    destruct (extend_general d l H1) as [d1 [E Hd]]. rewrite E.
    specialize (IH d1 H2). cbv zeta in IH. destruct (run_hist d1 (map (fun l0 => DExtend (Grp l0)) r)) as [d2 xs].
    cbn [fst snd] in *. destruct IH as [X Y]. split; [constructor; [reflexivity | exact X]|].
    intros k Hk. rewrite (Y k Hk), (Hd k Hk). cbn [flat_map]. now rewrite app_assoc.
Qed.

(* every accepted entry goes to exactly one collection: its own *)
Lemma sel_partition : forall l it, In it l -> ok_entry it = true -> In it (sel (ekind it) l) /\ forall k, k <> ekind it -> ~ In it (sel k l).
Proof.
  intros l it Hin Hok. split.
  - unfold sel. apply filter_In. split; [exact Hin | now apply kind_eqb_eq].
  - intros k Hk Hc. unfold sel in Hc. apply filter_In in Hc as [_ E]. apply kind_eqb_eq in E. congruence.
Qed.

(* ---- an object of any other type anywhere in the list makes the call raise ---- *)
Lemma bucket_add_has_key : forall k it bs, exists b, In b (bucket_add k it bs) /\ fst b = k.
Proof.
  intros k it. induction bs as [|[k' e] r IH]; cbn [bucket_add].
  - eexists. split; [now left | reflexivity].
  - destruct (key_eqb k k') eqn:E.
    + exists (k', e ++ [it]). split; [now left|]. cbn [fst].
      destruct k as [a| |], k' as [b| |]; cbn in E; try discriminate; try reflexivity. apply kind_eqb_eq in E. now subst.
    + destruct IH as [b [Hb Eb]]. exists b. split; [now right | exact Eb].
Qed.

Lemma bucket_add_keeps_key : forall k it bs b, In b bs -> exists b', In b' (bucket_add k it bs) /\ fst b' = fst b.
Proof.
  intros k it. induction bs as [|[k' e] r IH]; intros b Hb; [destruct Hb|]. cbn [bucket_add].
  destruct (key_eqb k k').
  - destruct Hb as [<-|Hb]; [exists (k', e ++ [it]); split; [now left | reflexivity] | exists b; split; [now right | reflexivity]].
  - destruct Hb as [<-|Hb]; [exists (k', e); split; [now left | reflexivity]|].
    destruct (IH b Hb) as [b' [H1 H2]]. exists b'. split; [now right | exact H2].
Qed.

Lemma buckets_keeps_key : forall l bs bs' b, buckets l bs = Some bs' -> In b bs -> exists b', In b' bs' /\ fst b' = fst b.
Proof.
  induction l as [|it r IH]; intros bs bs' b H Hb; cbn [buckets] in H.
  - injection H as <-. exists b. split; [exact Hb | reflexivity].
  - destruct (key_of it) eqn:E; try discriminate;
      (destruct (bucket_add_keeps_key (key_of it) it bs b Hb) as [b1 [H1 E1]]; rewrite E in H1;
       destruct (IH _ _ b1 H H1) as [b2 [H2 E2]]; exists b2; split; [exact H2 | congruence]).
Qed.

Lemma buckets_has_key : forall l bs bs' it, buckets l bs = Some bs' -> In it l -> exists b, In b bs' /\ fst b = key_of it.
Proof.
  induction l as [|x r IH]; intros bs bs' it H Hin; [destruct Hin|]. cbn [buckets] in H.
  destruct Hin as [->|Hin].
  - destruct (key_of it) eqn:E; try discriminate;
      (destruct (bucket_add_has_key (key_of it) it bs) as [b1 [H1 E1]]; rewrite E in H1;
       destruct (buckets_keeps_key r _ bs' b1 H H1) as [b2 [H2 E2]]; exists b2; split; [exact H2 | congruence]).
  - destruct (key_of x); try discriminate; now apply (IH _ _ it H Hin).
Qed.

Definition bad_key (k : key) : bool := match k with KeyOf w => negb (five w) | _ => true end.

Lemma route_bad : forall bs d b, In b bs -> bad_key (fst b) = true -> snd (route d bs) <> None.
Proof.
  induction bs as [|[k e] r IH]; intros d b Hb Hk; [destruct Hb|]. cbn [route].
  destruct k as [w| |]; try (cbn; discriminate).
  destruct (writer_extend w d e) as [d' [x|]] eqn:E; [cbn; discriminate|].
  destruct Hb as [<-|Hb]; [|now apply (IH d' b)].
  cbn [fst bad_key] in Hk. apply negb_true_iff in Hk. destruct w; try discriminate; cbn in E; discriminate.
Qed.

(* an entry whose type (or the type of whose first element) is none of the five - or a nested / empty list - makes
   Device.extend raise, wherever it stands in the list *)
Theorem extend_foreign_anywhere : forall d l it, In it l -> bad_key (key_of it) = true -> snd (dev_extend d (Grp l)) <> None.
Proof.
  intros d l it Hin Hk. unfold dev_extend, parse_objects. destruct (buckets l []) as [bs|] eqn:E; [|cbn; discriminate].
  destruct (buckets_has_key l [] bs it E Hin) as [b [Hb Eb]]. apply (route_bad bs d b Hb). now rewrite Eb.
Qed.
