From Coq Require Import List Bool NArith Arith Lia.
Import ListNotations.
From Femto Require Import Writers.Device.
Set Default Timeout 20.

Definition five (k : kind) : bool :=
  match k with KWg | KNwg | KTc | KUtc | KMk => true | _ => false end.

Definition add_to (k : kind) (d : dev) (l : list item) : dev :=
  match k with
  | KWg => {| d_wg := d_wg d ++ l; d_nwg := d_nwg d; d_tc := d_tc d; d_utc := d_utc d; d_mk := d_mk d |}
  | KNwg => {| d_wg := d_wg d; d_nwg := d_nwg d ++ l; d_tc := d_tc d; d_utc := d_utc d; d_mk := d_mk d |}
  | KTc => {| d_wg := d_wg d; d_nwg := d_nwg d; d_tc := d_tc d ++ l; d_utc := d_utc d; d_mk := d_mk d |}
  | KUtc => {| d_wg := d_wg d; d_nwg := d_nwg d; d_tc := d_tc d; d_utc := d_utc d ++ l; d_mk := d_mk d |}
  | KMk => {| d_wg := d_wg d; d_nwg := d_nwg d; d_tc := d_tc d; d_utc := d_utc d; d_mk := d_mk d ++ l |}
  | _ => d
  end.

(* a single object of a supported type goes to the collection of its own type and nowhere else *)
Theorem append_single : forall d k id, five k = true ->
  dev_append d (Obj k id) = (add_to k d [Obj k id], None).
Proof. intros d k id H. destruct k; try discriminate; reflexivity. Qed.

(* any other type is rejected and nothing is stored *)
Theorem append_foreign : forall d k id, five k = false -> dev_append d (Obj k id) = (d, Some TypeErr).
Proof. intros d k id H. destruct k; try discriminate; reflexivity. Qed.

Theorem extend_not_a_list : forall d k id, dev_extend d (Obj k id) = (d, Some TypeErr).
Proof. reflexivity. Qed.

(* a trench writer constructed from a single column is the one constructed from a one-element list *)
Theorem tw_single : forall k id, tw_init (Obj k id) = tw_init (Grp [Obj k id]) /\ tw_init (Obj k id) = [Obj k id].
Proof. intros; split; reflexivity. Qed.

(* ---- extend with waveguides and groups of waveguides: grouping preserved ---- *)

Definition wg_entry (it : item) : bool :=
  match it with
  | Obj KWg _ => true
  | Grp (Obj KWg i :: r) => forallb (fun x => match x with Obj KWg _ => true | _ => false end) r
  | _ => false
  end.

Lemma wg_entry_key : forall it, wg_entry it = true -> key_of it = KeyOf KWg.
Proof.
  intros [k i|l] H; cbn in *.
  - destruct k; try discriminate; reflexivity.
  - destruct l as [|[k i|l'] r]; try discriminate. destruct k; try discriminate. reflexivity.
Qed.

Lemma buckets_wg_acc : forall l a acc, forallb wg_entry l = true ->
  buckets l [(KeyOf KWg, a :: acc)] = Some [(KeyOf KWg, (a :: acc) ++ l)].
Proof.
  induction l as [|it r IH]; intros a acc H.
  - cbn [buckets]. now rewrite app_nil_r.
  - cbn [forallb] in H. apply andb_true_iff in H as [H1 H2]. cbn [buckets]. rewrite (wg_entry_key it H1).
    cbn [bucket_add key_eqb kind_eqb]. change ((a :: acc) ++ [it]) with (a :: (acc ++ [it])).
    rewrite (IH a (acc ++ [it]) H2). cbn [app]. now rewrite <- app_assoc.
Qed.

Lemma buckets_wg : forall l, forallb wg_entry l = true -> l <> [] -> buckets l [] = Some [(KeyOf KWg, l)].
Proof.
  intros [|it r] H Hne; [congruence|]. cbn [forallb] in H. apply andb_true_iff in H as [H1 H2].
  cbn [buckets]. rewrite (wg_entry_key it H1). cbn [bucket_add]. now rewrite (buckets_wg_acc r it [] H2).
Qed.

Lemma flat_wg_entries : forall l, forallb wg_entry l = true -> all_inst KWg (flat l) = true.
Proof.
  induction l as [|it r IH]; intros H; [reflexivity|]. cbn [forallb] in H. apply andb_true_iff in H as [H1 H2].
  cbn [flat]. unfold all_inst in *. rewrite forallb_app, (IH H2), andb_true_r.
  destruct it as [k i|g]; cbn in H1.
  - destruct k; try discriminate. reflexivity.
  - destruct g as [|[k i|g'] r']; try discriminate. destruct k; try discriminate.
    cbn [flat_i app forallb leaf_kind isinst kind_eqb orb andb].
    induction r' as [|[k' i'|g''] r'' IHr]; [reflexivity| |discriminate].
    cbn [forallb] in H1. destruct k'; try discriminate. cbn. apply IHr. exact H1.
Qed.

Lemma nest_wg_entries : forall l, forallb wg_entry l = true -> (nest_level l <= 2)%nat.
Proof.
  intros l H. unfold nest_level. cbn [nest_i].
  assert (G : ((fix mx (l : list item) : nat := match l with [] => 0 | x :: r => Nat.max (nest_i x) (mx r) end) l <= 1)%nat).
  { induction l as [|it r IH]; [lia|]. cbn [forallb] in H. apply andb_true_iff in H as [H1 H2].
    specialize (IH H2). apply Nat.max_lub; [|exact IH].
    destruct it as [k i|g]; [cbn; lia|]. cbn in H1.
    destruct g as [|[k i|g'] r']; try discriminate. destruct k; try discriminate.
    cbn [nest_i]. apply le_n_S.
    induction r' as [|[k' i'|g''] r'' IHr]; [cbn; lia| |discriminate].
    cbn [forallb] in H1. destruct k'; try discriminate. cbn. apply IHr. exact H1. }
  lia.
Qed.

(* Device.extend with waveguides and groups of waveguides keeps them in order, grouped as given, in the
   waveguide collection; every other collection is untouched *)
Theorem extend_waveguides : forall d l, forallb wg_entry l = true -> l <> [] ->
  dev_extend d (Grp l) = (add_to KWg d l, None).
Proof.
  intros d l H Hne. unfold dev_extend, parse_objects.
  rewrite (buckets_wg l H Hne).
  cbn [route writer_extend].
  pose proof (nest_wg_entries l H) as N. apply Nat.ltb_ge in N. rewrite N.
  rewrite (flat_wg_entries l H). reflexivity.
Qed.
