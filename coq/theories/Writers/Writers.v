(* Model of WaveguideWriter.pgm / NasuWriter.pgm / MarkerWriter.pgm as op lists for the session model.
   Definitions only.

     WG:    for bunch in obj_list: with G.repeat(bunch[0].scan): for wg in bunch: G.write(wg.points)
            G.go_init()
     NASU:  for nwg in obj_list: for shift in nwg.adj_scan_order: G.write(nwg.points + shift * [dx,dy,dz,0,0])
            G.go_init()
     MK:    for mk in flatten(obj_list): with G.repeat(mk.scan): comment; G.write(mk.points); comment
            G.go_origin()
*)
From Coq Require Import List Bool ZArith QArith.
Import ListNotations.
From Femto Require Import Base.Num Pgm.Ops.
Open Scope Q_scope.

Record wobj := { w_scan : Z; w_pts : list pt }.

Definition group_op (g : list wobj) : op :=
  ORepeat (Some (match g with w :: _ => w_scan w | [] => 0%Z end)) (map (fun w => OWrite (w_pts w)) g).

Definition wg_ops (groups : list (list wobj)) : list op := map group_op groups ++ [OGoInit].

Definition mk_ops (ms : list wobj) : list op :=
  map (fun m => ORepeat (Some (w_scan m)) [OComment; OWrite (w_pts m); OComment]) ms ++ [OGoOrigin].

(* adj_scan_order, in halves: entry k stands for the pass offset k/2 *)
Definition nasu_order (n : Z) : list Z :=
  if Z.odd n
  then 0%Z :: flat_map (fun i => [2 * Z.of_nat i; - (2 * Z.of_nat i)]%Z) (List.seq 1 (Z.to_nat (n / 2)))
  else flat_map (fun i => [2 * Z.of_nat i + 1; - (2 * Z.of_nat i + 1)]%Z) (List.seq 0 (Z.to_nat (n / 2))).

Record nobj := { n_adj : Z; n_shift : Q * Q * Q; n_pts : list pt }.

(* points + k/2 * shift, computed in float64 as numpy does (the float32 matrix is promoted) *)
Definition shift_pt (k : Z) (sh : Q * Q * Q) (p : pt) : pt :=
  let '(dx, dy, dz) := sh in
  let h := inject_Z k / 2 in
  {| px := rnd64 (px p + rnd64 (h * dx)); py := rnd64 (py p + rnd64 (h * dy)); pz := rnd64 (pz p + rnd64 (h * dz));
     pf := pf p; ps := ps p |}.

Definition nasu_ops (ns : list nobj) : list op :=
  flat_map (fun n => map (fun k => OWrite (map (shift_pt k (n_shift n)) (n_pts n))) (nasu_order (n_adj n))) ns
  ++ [OGoInit].
