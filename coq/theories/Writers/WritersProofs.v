From Coq Require Import List Bool ZArith QArith Lia.
Import ListNotations.
From Femto Require Import Base.Num Ctl.Tok Ctl.Machine Ctl.MachineProofs Pgm.Ops Writers.Writers.
Open Scope Z_scope.

(* ---- the Nasu pass order ---- *)

Lemma odd_abs : forall k, Z.odd (Z.abs k) = Z.odd k.
Proof. intros [|p|p]; reflexivity. Qed.


Lemma flat_pairs_length : forall (f : nat -> list Z) l, (forall i, length (f i) = 2%nat) ->
  length (flat_map f l) = (2 * length l)%nat.
Proof. intros f l H. induction l as [|x r IH]; cbn [flat_map length]; [reflexivity|]. rewrite app_length, H, IH. lia. Qed.

Theorem nasu_order_length : forall n, 1 <= n -> Z.of_nat (length (nasu_order n)) = n.
Proof.
  intros n Hn. unfold nasu_order. destruct (Z.odd n) eqn:E.
  - cbn [length]. rewrite flat_pairs_length by reflexivity. rewrite seq_length.
    rewrite Nat2Z.inj_succ, Nat2Z.inj_mul, Z2Nat.id by (apply Z.div_pos; lia).
    rewrite (Zodd_div2 n) at 2 by (now apply Zodd_bool_iff). rewrite Z.div2_div. cbn. lia.
  - rewrite flat_pairs_length by reflexivity. rewrite seq_length.
    rewrite Nat2Z.inj_mul, Z2Nat.id by (apply Z.div_pos; lia).
    assert (Hev : Z.even n = true) by (rewrite <- Z.negb_odd, E; reflexivity).
    rewrite (Zeven_div2 n) at 2 by (now apply Zeven_bool_iff). rewrite Z.div2_div. cbn. lia.
Qed.

(* membership: exactly the offsets k (in halves) with |k| <= n-1 and the parity of n-1:
   symmetric about 0, consecutive offsets one full shift (2 halves) apart *)
Theorem nasu_order_members : forall n k, 1 <= n ->
  (In k (nasu_order n) <-> (Z.abs k <= n - 1 /\ Z.odd k = Z.odd (n - 1))).
Proof.
  intros n k Hn. unfold nasu_order.
  assert (Hq : 0 <= n / 2) by (apply Z.div_pos; lia).
  pose proof (Z.div_mod n 2 ltac:(lia)) as Hdm. pose proof (Z.mod_pos_bound n 2 ltac:(lia)) as Hmb.
  destruct (Z.odd n) eqn:E.
  - assert (Hm : n mod 2 = 1) by (rewrite Zmod_odd, E; reflexivity).
    assert (Eo : Z.odd (n - 1) = false) by (rewrite Z.odd_sub, E; reflexivity).
    rewrite Eo. split.
    + intros [<-|H]; [split; [lia | reflexivity]|].
      apply in_flat_map in H as [i [Hi Hk]]. apply in_seq in Hi.
      assert (Hi' : Z.of_nat i <= n / 2) by lia.
      destruct Hk as [<-|[<-|[]]]; split; try lia;
        rewrite ?Z.odd_opp, Z.odd_mul; reflexivity.
    + intros [Ha Ho]. destruct (Z.eq_dec k 0) as [->|Hk0]; [now left|]. right.
      apply in_flat_map. exists (Z.to_nat (Z.abs k / 2)).
      assert (Hke : Z.abs k mod 2 = 0).
      { rewrite Zmod_odd, odd_abs, Ho. reflexivity. }
      pose proof (Z.div_mod (Z.abs k) 2 ltac:(lia)) as Hk2.
      split.
      * apply in_seq.
        assert (H1 : 1 <= Z.abs k / 2) by lia.
        assert (H2 : Z.abs k / 2 <= n / 2) by (apply Z.div_le_mono; lia).
        lia.
      * rewrite Z2Nat.id by (apply Z.div_pos; lia). destruct (Z_le_gt_dec 0 k); [left | right; left]; lia.
  - assert (Hm : n mod 2 = 0) by (rewrite Zmod_odd, E; reflexivity).
    assert (Eo : Z.odd (n - 1) = true) by (rewrite Z.odd_sub, E; reflexivity).
    rewrite Eo. split.
    + intros H. apply in_flat_map in H as [i [Hi Hk]]. apply in_seq in Hi.
      assert (Hi' : Z.of_nat i < n / 2) by lia.
      destruct Hk as [<-|[<-|[]]]; split; try lia;
        rewrite ?Z.odd_opp, Z.odd_add, Z.odd_mul; reflexivity.
    + intros [Ha Ho]. apply in_flat_map. exists (Z.to_nat ((Z.abs k - 1) / 2)).
      assert (Hko : Z.abs k mod 2 = 1).
      { rewrite Zmod_odd, odd_abs, Ho. reflexivity. }
      pose proof (Z.div_mod (Z.abs k) 2 ltac:(lia)) as Hk2.
      assert (Hh : (Z.abs k - 1) / 2 = Z.abs k / 2).
      { symmetry. apply Z.div_unique with (r := 0); lia. }
      split.
      * apply in_seq. rewrite Hh.
        assert (H1 : 0 <= Z.abs k / 2) by (apply Z.div_pos; lia).
        assert (H2 : Z.abs k / 2 < n / 2) by (apply Z.div_lt_upper_bound; lia).
        lia.
      * rewrite Hh, Z2Nat.id by (apply Z.div_pos; lia). destruct (Z_le_gt_dec 0 k); [left | right; left]; lia.
Qed.

(* ordered outward from the centre: absolute offsets never decrease *)
Fixpoint abs_nondecr (prev : Z) (l : list Z) : Prop :=
  match l with [] => True | k :: r => prev <= Z.abs k /\ abs_nondecr (Z.abs k) r end.

Lemma pairs_nondecr : forall (g : nat -> Z) l prev,
  (forall i j, (i <= j)%nat -> 0 <= g i <= g j) ->
  (forall i, In i l -> prev <= g i) ->
  (forall a b r0 r1, l = r0 ++ a :: b :: r1 -> (a <= b)%nat) ->
  abs_nondecr prev (flat_map (fun i => [g i; - g i]) l).
Proof.
  intros g l. induction l as [|i r IH]; intros prev Hg Hp Hs; [exact I|].
  cbn [flat_map app abs_nondecr].
  assert (H0 : 0 <= g i) by (apply (Hg i i); lia).
  rewrite Z.abs_opp, Z.abs_eq by lia. split; [apply Hp; now left|]. split; [lia|].
  apply IH; [exact Hg| |].
  - intros j Hj. destruct r as [|j0 r']; [destruct Hj|].
    assert (i <= j0)%nat by (apply (Hs i j0 [] r'); reflexivity).
    destruct Hj as [<-|Hj]; [apply Hg; assumption|].
    (* j further down: chain through j0 *)
    clear IH Hp. revert j0 H Hs Hj. induction r' as [|j1 r'' IHr]; intros j0 H Hs Hj; [destruct Hj|].
    assert (j0 <= j1)%nat by (apply (Hs j0 j1 [i] r''); reflexivity).
    destruct Hj as [<-|Hj]; [apply Hg; lia|].
    apply (IHr j1); [lia| |exact Hj].
    intros a b r0 r1 E. destruct r0 as [|x r0].
    + injection E as <- <- <-. lia.
    + injection E as <- E. apply (Hs a b (i :: j0 :: r0) r1). cbn. now rewrite E.
  - intros a b r0 r1 E. apply (Hs a b (i :: r0) r1). cbn. now rewrite E.
Qed.

Lemma seq_sorted : forall len start a b r0 r1, List.seq start len = r0 ++ a :: b :: r1 -> (a <= b)%nat.
Proof.
  induction len as [|len IH]; intros start a b r0 r1 E; [destruct r0; discriminate|].
  cbn [List.seq] in E. destruct r0 as [|x r0].
  - injection E as <- E. destruct len; [discriminate|]. cbn [List.seq] in E. injection E as <- _. lia.
  - injection E as _ E. now apply (IH (S start) a b r0 r1).
Qed.

Theorem nasu_order_outward : forall n, 1 <= n -> abs_nondecr 0 (nasu_order n).
Proof.
  intros n Hn. unfold nasu_order. destruct (Z.odd n).
  - cbn [abs_nondecr Z.abs]. split; [lia|].
    apply (pairs_nondecr (fun i => 2 * Z.of_nat i)); [intros; lia | intros; lia | apply seq_sorted].
  - apply (pairs_nondecr (fun i => 2 * Z.of_nat i + 1)); [intros; lia | intros; lia | apply seq_sorted].
Qed.

(* ---- REPEAT n executes its body n times in sequence ---- *)

Lemma iter_S : forall (f : mstate -> mstate * list event) k m,
  iter (S k) f m = let '(m1, e1) := f m in let '(m2, e2) := iter k f m1 in (m2, e1 ++ e2).
Proof. reflexivity. Qed.

Theorem repeat_runs_n_times : forall call m n b, 0 < n ->
  run_stmt call m (SRep n b) = iter (Z.to_nat n) (fun m => run_list call m b) m.
Proof. intros call m n b Hn. rewrite run_stmt_rep. apply Z.ltb_lt in Hn. now rewrite Hn. Qed.

(* a Nasu pass keeps feed and shutter, and with a zero shift it is the nominal path *)
Lemma shift_pt_keeps : forall k sh p, pf (shift_pt k sh p) = pf p /\ ps (shift_pt k sh p) = ps p.
Proof. intros k [[dx dy] dz] p. split; reflexivity. Qed.

(* ---- the writers' sessions are sessions of public operations (Pgm/SafeProofs.pub): C03's theorem applies ---- *)
From Femto Require Import Pgm.SafeProofs.

Lemma pubs_app : forall a b, pubs (a ++ b) = pubs a && pubs b.
Proof. induction a as [|x r IH]; intros b; cbn [app pubs]; [reflexivity|]. now rewrite IH, andb_assoc. Qed.

Lemma pubs_writes : forall g, Forall (fun w => closed_path (w_pts w) = true) g -> pubs (map (fun w => OWrite (w_pts w)) g) = true.
Proof. induction 1 as [|w r Hw _ IH]; [reflexivity|]. cbn [map pubs pub]. now rewrite Hw, IH. Qed.

Lemma wg_ops_pub : forall groups, Forall (Forall (fun w => closed_path (w_pts w) = true)) groups -> pubs (wg_ops groups) = true.
Proof.
  intros groups H. unfold wg_ops. rewrite pubs_app. cbn [pubs pub]. rewrite andb_true_r.
  induction H as [|g r Hg _ IH]; [reflexivity|]. cbn [map pubs]. rewrite IH, andb_true_r. unfold group_op.
  rewrite pub_repeat. now apply pubs_writes.
Qed.

Lemma mk_ops_pub : forall ms, Forall (fun w => closed_path (w_pts w) = true) ms -> pubs (mk_ops ms) = true.
Proof.
  intros ms H. unfold mk_ops. rewrite pubs_app. cbn [pubs pub]. rewrite andb_true_r.
  induction H as [|m r Hm _ IH]; [reflexivity|]. cbn [map pubs]. rewrite IH, andb_true_r.
  rewrite pub_repeat. cbn [pubs pub]. now rewrite Hm.
Qed.

Lemma closed_path_shift : forall k sh pts, closed_path (map (shift_pt k sh) pts) = closed_path pts.
Proof.
  intros k sh pts. unfold closed_path. rewrite map_map.
  assert (E : forall p, ps (shift_pt k sh p) = ps p) by (intros p; unfold shift_pt; destruct sh as [[dx dy] dz]; reflexivity).
  f_equal.
  - induction pts as [|p r IH]; [reflexivity|]. cbn [map forallb]. now rewrite E, IH.
  - f_equal. f_equal. apply map_ext. exact E.
Qed.

Lemma nasu_ops_pub : forall ns, Forall (fun n => closed_path (n_pts n) = true) ns -> pubs (nasu_ops ns) = true.
Proof.
  intros ns H. unfold nasu_ops. rewrite pubs_app. cbn [pubs pub]. rewrite andb_true_r.
  induction H as [|n r Hn _ IH]; [reflexivity|]. cbn [flat_map]. rewrite pubs_app, IH, andb_true_r.
  induction (nasu_order (n_adj n)) as [|k ks IHk]; [reflexivity|]. cbn [map pubs pub]. now rewrite closed_path_shift, Hn, IHk.
Qed.
