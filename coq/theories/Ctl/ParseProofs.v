(* The parser inverts the printer: parse (flatten tree) = Some tree, for every loop tree. *)
From Coq Require Import List Bool ZArith NArith QArith.
Import ListNotations.
From Femto Require Import Ctl.Tok.

Section StmtInd.
  Variable P : stmt -> Prop.
  Hypothesis HI : forall t, P (SI t).
  Hypothesis HR : forall n b, Forall P b -> P (SRep n b).
  Hypothesis HF : forall v lo hi b, Forall P b -> P (SFor v lo hi b).

  Fixpoint stmt_ind2 (s : stmt) : P s :=
    match s with
    | SI t => HI t
    | SRep n b =>
        HR n b ((fix go (l : list stmt) : Forall P l :=
                   match l with
                   | [] => Forall_nil P
                   | x :: r => Forall_cons x (stmt_ind2 x) (go r)
                   end) b)
    | SFor v lo hi b =>
        HF v lo hi b ((fix go (l : list stmt) : Forall P l :=
                         match l with
                         | [] => Forall_nil P
                         | x :: r => Forall_cons x (stmt_ind2 x) (go r)
                         end) b)
    end.
End StmtInd.

Lemma stmt_list_ind : forall P : stmt -> Prop,
  (forall t, P (SI t)) ->
  (forall n b, Forall P b -> P (SRep n b)) ->
  (forall v lo hi b, Forall P b -> P (SFor v lo hi b)) ->
  forall l, Forall P l.
Proof.
  intros P HI HR HF l. induction l as [|s r IH]; constructor; [|assumption].
  apply stmt_ind2; assumption.
Qed.

Lemma flat_s_rep : forall n b, flat_s (SRep n b) = TRepeat n :: flatten b ++ [TEndRepeat].
Proof. reflexivity. Qed.

Lemma flat_s_for : forall v lo hi b, flat_s (SFor v lo hi b) = TFor v lo hi :: flatten b ++ [TNext v].
Proof. reflexivity. Qed.

Lemma wf_s_rep : forall n b, wf_s (SRep n b) = wf b.
Proof. reflexivity. Qed.

Lemma wf_s_for : forall v lo hi b, wf_s (SFor v lo hi b) = wf b.
Proof. reflexivity. Qed.

Lemma rev'_rev : forall {A : Type} (l : list A), rev' (rev l) = l.
Proof. intros A l. unfold rev'. rewrite <- rev_alt. apply rev_involutive. Qed.

Definition parses (s : stmt) : Prop :=
  wf_s s = true -> forall rest cur stk, parse_aux (flat_s s ++ rest) cur stk = parse_aux rest (s :: cur) stk.

Lemma parse_list : forall l, Forall parses l -> wf l = true ->
  forall rest cur stk, parse_aux (flatten l ++ rest) cur stk = parse_aux rest (rev l ++ cur) stk.
Proof.
  induction l as [|s r IH]; intros HF Hwf rest cur stk.
  - reflexivity.
  - inversion HF as [|? ? Hs Hr]; subst. cbn [wf] in Hwf. apply andb_true_iff in Hwf as [W1 W2].
    cbn [flatten]. rewrite <- app_assoc. rewrite (Hs W1). rewrite (IH Hr W2).
    cbn [rev]. rewrite <- app_assoc. reflexivity.
Qed.

Lemma parses_all : forall s, parses s.
Proof.
  apply stmt_ind2.
  - intros t Hwf rest cur stk. cbn [wf_s] in Hwf. apply negb_true_iff in Hwf.
    destruct t; cbn in Hwf; try discriminate; reflexivity.
  - intros n b HF Hwf rest cur stk. rewrite wf_s_rep in Hwf. rewrite flat_s_rep.
    cbn [app parse_aux]. rewrite <- app_assoc. rewrite (parse_list b HF Hwf).
    cbn [app parse_aux]. rewrite app_nil_r, rev'_rev. reflexivity.
  - intros v lo hi b HF Hwf rest cur stk. rewrite wf_s_for in Hwf. rewrite flat_s_for.
    cbn [app parse_aux]. rewrite <- app_assoc. rewrite (parse_list b HF Hwf).
    cbn [app parse_aux]. rewrite N.eqb_refl, app_nil_r, rev'_rev. reflexivity.
Qed.

Theorem parse_flatten : forall l, wf l = true -> parse (flatten l) = Some l.
Proof.
  intros l Hwf. unfold parse. rewrite <- (app_nil_r (flatten l)).
  rewrite (parse_list l); [| apply Forall_forall; intros; apply parses_all | assumption].
  cbn [parse_aux]. rewrite app_nil_r, rev'_rev. reflexivity.
Qed.

(* leading non-control tokens (the DVAR lines) parse as leaves *)
Lemma parse_leading : forall pre l, forallb (fun t => negb (is_ctl t)) pre = true -> wf l = true ->
  parse (pre ++ flatten l) = Some (map SI pre ++ l).
Proof.
  intros pre l Hpre Hwf.
  assert (E : pre = flatten (map SI pre)).
  { clear Hpre. induction pre as [|t r IH]; [reflexivity|]. cbn [map flatten flat_s app]. now rewrite <- IH. }
  assert (W : wf (map SI pre) = true).
  { induction pre as [|t r IH]; [reflexivity|]. cbn [forallb] in Hpre. apply andb_true_iff in Hpre as [H1 H2].
    cbn [map wf wf_s]. rewrite H1. cbn. apply IH; [assumption|].
    clear - r. induction r as [|t r IH]; [reflexivity|]. cbn [map flatten flat_s app]. now rewrite <- IH. }
  rewrite E at 1.
  assert (F : forall a b, flatten (a ++ b) = flatten a ++ flatten b).
  { induction a as [|s r IH]; intros b; [reflexivity|]. cbn [app flatten]. now rewrite IH, app_assoc. }
  rewrite <- F. apply parse_flatten.
  clear - W Hwf. induction (map SI pre) as [|s r IH]; [assumption|].
  cbn [app wf] in *. apply andb_true_iff in W as [W1 W2]. rewrite W1. cbn. now apply IH.
Qed.
