(* A static checker for loop trees, proved sound for the reference controller.

   chk a l = Some a' : starting from any machine state that the abstract state [a] describes (shutter, absolute mode,
   usable modal feed, loaded programs, declared / assigned variables), the tree [l] runs
     - without any controller error (every call and removal finds its program loaded, every variable is declared and
       has a value when it is used, feeds are positive, loop counts positive, no unknown instruction),
     - with every move that is made while the shutter is open being a pure z move (unless [open_xy] allows exposure,
       as in files that write paths),
   and ends in a machine state described by [a'].  Loop bodies must return to the abstract state they started from, so
   one pass over the body speaks for every iteration.  The checker is run on femto's own files (Harness/C06.v) and
   proved to accept the modelled trench call files for every column (Trench/TreeSafe.v). *)
From Coq Require Import List Bool ZArith NArith QArith Lia.
Import ListNotations.
From Femto Require Import Harness.Util Ctl.Tok Ctl.Machine Ctl.MachineProofs Ctl.ParseProofs Ctl.Safety.
Open Scope Z_scope.

Record ast := {
  a_sh : bool;            (* shutter *)
  a_feed : bool;          (* a positive modal feed is set *)
  a_loaded : list N;      (* file names of the loaded programs, most recent first *)
  a_decl : list N;        (* declared variables *)
  a_set : list N          (* variables holding a value *)
}.

Definition memN (x : N) (l : list N) : bool := existsb (N.eqb x) l.
Definition addN (x : N) (l : list N) : list N := if memN x l then l else x :: l.
Fixpoint rem1 (x : N) (l : list N) : list N :=
  match l with [] => [] | y :: r => if N.eqb x y then r else y :: rem1 x r end.

Definition w_sh (a : ast) (b : bool) : ast :=
  {| a_sh := b; a_feed := a_feed a; a_loaded := a_loaded a; a_decl := a_decl a; a_set := a_set a |}.
Definition w_feed (a : ast) (b : bool) : ast :=
  {| a_sh := a_sh a; a_feed := b; a_loaded := a_loaded a; a_decl := a_decl a; a_set := a_set a |}.
Definition w_loaded (a : ast) (l : list N) : ast :=
  {| a_sh := a_sh a; a_feed := a_feed a; a_loaded := l; a_decl := a_decl a; a_set := a_set a |}.
Definition w_vars (a : ast) (d s : list N) : ast :=
  {| a_sh := a_sh a; a_feed := a_feed a; a_loaded := a_loaded a; a_decl := d; a_set := s |}.

Definition ast_eqb (a b : ast) : bool :=
  Bool.eqb (a_sh a) (a_sh b) && Bool.eqb (a_feed a) (a_feed b) && list_eqb N.eqb (a_loaded a) (a_loaded b)
  && list_eqb N.eqb (a_decl a) (a_decl b) && list_eqb N.eqb (a_set a) (a_set b).

Lemma ast_eqb_eq : forall a b, ast_eqb a b = true -> a = b.
Proof.
  intros [s1 f1 l1 d1 t1] [s2 f2 l2 d2 t2] H. unfold ast_eqb in H. cbn in H.
  repeat (apply andb_true_iff in H as [H ?]).
  apply eqb_prop in H. apply eqb_prop in H3.
  apply (list_eqb_eq N.eqb N.eqb_eq) in H2. apply (list_eqb_eq N.eqb N.eqb_eq) in H1. apply (list_eqb_eq N.eqb N.eqb_eq) in H0.
  now subst.
Qed.

Definition cv_ok (a : ast) (c : option coord) : bool :=
  match c with Some (CVar v) => memN v (a_set a) | _ => true end.
Definition is_some {A : Type} (o : option A) : bool := match o with Some _ => true | None => false end.

Section Chk.
  Context (open_xy : bool).

  Definition chk_tok (a : ast) (t : tok) : option ast :=
    match t with
    | TSetup | TMsg | TStop _ | TWait _ | TDwell _ | TG92 _ _ _ _ | TG84 _ => Some a
    | TMode abs => if abs then Some a else None
    | TPso _ on => Some (w_sh a on)
    | TG1 _ _ x y z _ f =>
        if cv_ok a x && cv_ok a y && cv_ok a z then
          let fd := match f with Some v => 0 <? v | None => a_feed a end in
          if has_coord x y z && negb fd then None
          else if has_coord x y z && negb open_xy && a_sh a && (is_some x || is_some y) then None
          else Some (w_feed a fd)
        else None
    | TDvar vs => Some (w_vars a (vs ++ a_decl a) (filter (fun v => negb (memN v vs)) (a_set a)))
    | TAssign v e =>
        if memN v (a_decl a) then
          match e with
          | ELit _ => Some (w_vars a (a_decl a) (addN v (a_set a)))
          | EPlus w _ => if memN w (a_set a) then Some (w_vars a (a_decl a) (addN v (a_set a))) else None
          end
        else None
    | TLoad _ _ base => Some (w_loaded a (base :: a_loaded a))
    | TRemove base => if memN base (a_loaded a) then Some (w_loaded a (rem1 base (a_loaded a))) else None
    | TFarcall _ base => if memN base (a_loaded a) then Some a else None
    | TBuffered _ _ base => if memN base (a_loaded a) then Some a else None
    | TRepeat _ | TEndRepeat | TFor _ _ _ | TNext _ | TUnknown => None
    end.

  Fixpoint chk_s (a : ast) (s : stmt) : option ast :=
    match s with
    | SI t => chk_tok a t
    | SRep n b =>
        if 0 <? n then
          match (fix cl (a : ast) (l : list stmt) : option ast :=
                   match l with [] => Some a | x :: r => match chk_s a x with Some a1 => cl a1 r | None => None end end) a b with
          | Some a' => if ast_eqb a a' then Some a else None
          | None => None
          end
        else None
    | SFor v lo hi b =>
        if memN v (a_decl a) && (lo <=? hi) then
          let a1 := w_vars a (a_decl a) (addN v (a_set a)) in
          match (fix cl (a : ast) (l : list stmt) : option ast :=
                   match l with [] => Some a | x :: r => match chk_s a x with Some a1 => cl a1 r | None => None end end) a1 b with
          | Some a' => if ast_eqb a1 a' then Some a1 else None
          | None => None
          end
        else None
    end.

  Fixpoint chk (a : ast) (l : list stmt) : option ast :=
    match l with [] => Some a | x :: r => match chk_s a x with Some a1 => chk a1 r | None => None end end.

  Lemma chk_s_rep : forall a n b,
    chk_s a (SRep n b) = if 0 <? n then match chk a b with Some a' => if ast_eqb a a' then Some a else None | None => None end else None.
  Proof. reflexivity. Qed.
  Lemma chk_s_for : forall a v lo hi b,
    chk_s a (SFor v lo hi b) =
    if memN v (a_decl a) && (lo <=? hi) then
      let a1 := w_vars a (a_decl a) (addN v (a_set a)) in
      match chk a1 b with Some a' => if ast_eqb a1 a' then Some a1 else None | None => None end
    else None.
  Proof. reflexivity. Qed.

  Lemma chk_app : forall l1 l2 a, chk a (l1 ++ l2) = match chk a l1 with Some a1 => chk a1 l2 | None => None end.
  Proof. induction l1 as [|x r IH]; intros l2 a; cbn [app chk]; [reflexivity|]. destruct (chk_s a x); [apply IH | reflexivity]. Qed.

  (* ---------------- soundness ---------------- *)

  Definition feed_pos (m : mstate) : Prop := exists v, mfeed m = Some v /\ 0 < v.

  (* programs that were loaded before the tree starts (by a calling file) and that the tree does not touch *)
  Context (rest : list N).

  Definition R (a : ast) (m : mstate) : Prop :=
    msh m = a_sh a /\ mabs m = true /\ (a_feed a = true -> feed_pos m) /\
    map fst (mloaded m) = a_loaded a ++ rest /\
    (forall v, memN v (a_decl a) = true -> lookup v (mvars m) <> None) /\
    (forall v, memN v (a_set a) = true -> exists z, lookup v (mvars m) = Some (Some z)).

  Definition ev_ok (e : event) : Prop :=
    match e with
    | EMove src dst _ s _ => open_xy = true \/ s = false \/ (fst (fst src) = fst (fst dst) /\ snd (fst src) = snd (fst dst))
    | EErr _ => False
    | _ => True
    end.
  Definition G (ev : list event) : Prop := Forall ev_ok ev.

  Lemma G_nil : G [].  Proof. constructor. Qed.
  Lemma G_app : forall a b, G a -> G b -> G (a ++ b).  Proof. intros; now apply Forall_app. Qed.
  Lemma G_errors : forall ev, G ev -> errors ev = [].
  Proof.
    induction 1 as [|e r He _ IH]; [reflexivity|]. unfold errors in *. cbn [flat_map]. rewrite IH.
    destruct e; cbn in *; try reflexivity. contradiction.
  Qed.

  Context (call : mstate -> N -> mstate * list event).
  (* sub-programs keep everything the abstraction sees and raise nothing *)
  Hypothesis call_ok : forall a m p, R a m -> R a (fst (call m p)) /\ G (snd (call m p)).

  (* facts about association lists *)
  Lemma lookup_map_fst : forall (l : list (N * N)) k, lookup k l <> None <-> memN k (map fst l) = true.
  Proof.
    induction l as [|[k' v] r IH]; intros k; cbn [lookup map memN existsb fst]; [split; [congruence | discriminate]|].
    destruct (N.eqb k k'); cbn [orb]; [split; [reflexivity | discriminate] | apply IH].
  Qed.
  Lemma remove_first_map : forall (l : list (N * N)) k, map fst (remove_first k l) = rem1 k (map fst l).
  Proof.
    induction l as [|[k' v] r IH]; intros k; cbn [remove_first map rem1 fst]; [reflexivity|].
    destruct (N.eqb k k'); cbn [map fst]; [reflexivity | now rewrite IH].
  Qed.
  Lemma rem1_app_mem : forall k l r, memN k l = true -> rem1 k (l ++ r) = rem1 k l ++ r.
  Proof.
    induction l as [|x l' IH]; intros r H; [discriminate|]. cbn [memN existsb] in H. cbn [app rem1].
    destruct (N.eqb k x); [reflexivity|]. cbn [orb] in H. cbn [app]. now rewrite IH.
  Qed.
  Lemma lookup_update_same : forall {V : Type} k (x : V) l, lookup k l <> None -> lookup k (update k x l) = Some x.
  Proof.
    induction l as [|[k' v] r IH]; intros H; cbn [lookup update] in *; [congruence|].
    destruct (N.eqb k k') eqn:E; cbn [lookup]; rewrite E; [reflexivity | now apply IH].
  Qed.
  Lemma lookup_update_other : forall {V : Type} k w (x : V) l, N.eqb w k = false -> lookup w (update k x l) = lookup w l.
  Proof.
    induction l as [|[k' v] r IH]; intros H; cbn [lookup update]; [reflexivity|].
    destruct (N.eqb k k') eqn:E; cbn [lookup].
    - apply N.eqb_eq in E. subst k'. now rewrite H.
    - destruct (N.eqb w k'); [reflexivity | now apply IH].
  Qed.
  Lemma lookup_skip_decl : forall v (vs : list N) (l : list (N * option Z)),
    memN v vs = false -> lookup v (map (fun w => (w, @None Z)) vs ++ l) = lookup v l.
  Proof.
    induction vs as [|w r IH]; intros l H; [reflexivity|]. cbn [memN existsb] in H. apply orb_false_iff in H as [H1 H2].
    cbn [map app lookup]. rewrite H1. now apply IH.
  Qed.
  Lemma lookup_in_decl : forall v (vs : list N) (l : list (N * option Z)),
    memN v vs = true -> lookup v (map (fun w => (w, @None Z)) vs ++ l) <> None.
  Proof.
    induction vs as [|w r IH]; intros l H; [discriminate|]. cbn [memN existsb] in H. cbn [map app lookup].
    destruct (N.eqb v w); [discriminate|]. now apply IH.
  Qed.
  Lemma memN_addN : forall v x l, memN v (addN x l) = N.eqb v x || memN v l.
  Proof.
    intros v x l. unfold addN. destruct (memN x l) eqn:E; [|reflexivity].
    destruct (N.eqb v x) eqn:E2; [|reflexivity]. apply N.eqb_eq in E2. subst. now rewrite E.
  Qed.
  Lemma memN_app : forall v a b, memN v (a ++ b) = memN v a || memN v b.
  Proof. intros; apply existsb_app. Qed.
  Lemma memN_filter : forall v (f : N -> bool) l, memN v (filter f l) = true -> memN v l = true /\ f v = true.
  Proof.
    intros v f. induction l as [|x r IH]; intros H; [discriminate|]. cbn [filter] in H.
    destruct (f x) eqn:E.
    - cbn [memN existsb] in *. destruct (N.eqb v x) eqn:E2.
      + apply N.eqb_eq in E2. subst. auto.
      + cbn [orb] in *. now apply IH.
    - destruct (IH H) as [A B]. split; [|exact B]. cbn [memN existsb]. unfold memN in A. now rewrite A, orb_true_r.
  Qed.

  Lemma R_vars : forall a m d s vars,
    R a m ->
    (forall v, memN v d = true -> lookup v vars <> None) ->
    (forall v, memN v s = true -> exists z, lookup v vars = Some (Some z)) ->
    R (w_vars a d s) (set_vars m vars).
  Proof. intros a m d s vars [A [B [C [L _]]]] Hd Hs. repeat split; cbn; auto. Qed.

  (* coordinates *)
  Lemma cv_axis : forall a m c, R a m -> cv_ok a c = true -> exists v, axis_val m c = Some v /\ (c = None -> v = None).
  Proof.
    intros a m c [_ [_ [_ [_ [_ Hs]]]]] H. destruct c as [[z|v]|]; cbn [axis_val coord_val cv_ok] in *.
    - eexists; split; [reflexivity | discriminate].
    - destruct (Hs v H) as [z ->]. eexists; split; [reflexivity | discriminate].
    - eexists; split; [reflexivity | reflexivity].
  Qed.

  Lemma tok_sound : forall a t a', chk_tok a t = Some a' -> forall m, R a m ->
    R a' (fst (run_tok call m t)) /\ G (snd (run_tok call m t)).
  Proof.
    intros a t a' H m HR. pose proof HR as [Hsh [Hab [Hfd [Hld [Hdc Hst]]]]].
    destruct t as [ | ab | za on | tq | g9 nd x y z u f | nd gx gy gz | on | n | | v lo hi | v | vs | v e
                  | task path base | task | task | base | arg base | task arg base | | ];
      cbn [chk_tok] in H; try discriminate; cbn [run_tok].
    - injection H as <-. split; [exact HR | apply G_nil].
    - destruct ab; [|discriminate]. injection H as <-. split; [|apply G_nil]. repeat split; auto.
    - injection H as <-. split; [|apply G_nil]. repeat split; cbn; auto.
    - injection H as <-. split; [exact HR|]. constructor; [exact I | constructor].
    - (* G1 *)
      destruct (cv_ok a x && cv_ok a y && cv_ok a z) eqn:Ecv; [|discriminate].
      apply andb_true_iff in Ecv as [Ecv Ez]. apply andb_true_iff in Ecv as [Ex Ey].
      set (fd := match f with Some v => 0 <? v | None => a_feed a end) in *.
      destruct (has_coord x y z && negb fd) eqn:E1; [discriminate|].
      destruct (has_coord x y z && negb open_xy && a_sh a && (is_some x || is_some y)) eqn:E2; [discriminate|].
      injection H as <-.
      destruct (cv_axis a m x HR Ex) as [vx [Ax Nx]]. destruct (cv_axis a m y HR Ey) as [vy [Ay Ny]].
      destruct (cv_axis a m z HR Ez) as [vz [Az Nz]].
      unfold run_g1. rewrite Ax, Ay, Az.
      set (feed := match f with Some v => Some v | None => mfeed m end).
      assert (Hfeed : fd = true -> exists v, feed = Some v /\ 0 < v).
      { unfold fd, feed. destruct f as [v|]; intros Hf; [exists v; split; [reflexivity | now apply Z.ltb_lt] | now apply Hfd]. }
      assert (RF : R (w_feed a fd) (set_feed m feed)).
      { repeat split; cbn; auto. }
      destruct (has_coord x y z) eqn:Ehc.
      + (* a move *)
        cbn [andb] in E1. apply negb_false_iff in E1. destruct (Hfeed E1) as [fv [Ef Pf]].
        assert (Hsome : forall c v, axis_val m (Some c) = Some v -> v <> None).
        { intros c v Hc. cbn [axis_val] in Hc. destruct (coord_val m c); [injection Hc as <-; discriminate | discriminate]. }
        assert (Hmov : ~ (vx = None /\ vy = None /\ vz = None)).
        { intros [Vx [Vy Vz]]. destruct x as [cx'|]; [now apply (Hsome _ _ Ax)|]. destruct y as [cy'|]; [now apply (Hsome _ _ Ay)|].
          destruct z as [cz'|]; [now apply (Hsome _ _ Az)|]. discriminate. }
        destruct (mpos m) as [[cx cy] cz] eqn:Ep. rewrite Hab.
        assert (Hdst : forall cur cmd, exists dd, axis_dst true cur cmd = Some dd /\ (cmd = None -> dd = cur)).
        { intros cur [q|]; cbn; eexists; split; try reflexivity; discriminate. }
        destruct (Hdst cx vx) as [dx [Dx Kx]]. destruct (Hdst cy vy) as [dy [Dy Ky]]. destruct (Hdst cz vz) as [dz [Dz _]].
        assert (Res : (match vx, vy, vz with
                       | None, None, None => (set_feed m feed, [])
                       | _, _, _ =>
                           match axis_dst true cx vx, axis_dst true cy vy, axis_dst true cz vz with
                           | Some dx, Some dy, Some dz =>
                               match feed with
                               | Some fv => if 0 <? fv then (set_pos (set_feed m feed) (dx, dy, dz), [EMove (cx, cy, cz) (dx, dy, dz) fv (msh m) g9])
                                            else err (set_feed m feed) E_feed
                               | None => err (set_feed m feed) E_feed
                               end
                           | _, _, _ => err (set_feed m feed) E_incpos
                           end
                       end) = (set_pos (set_feed m feed) (dx, dy, dz), [EMove (cx, cy, cz) (dx, dy, dz) fv (msh m) g9])).
        { rewrite Dx, Dy, Dz, Ef. apply Z.ltb_lt in Pf. rewrite Pf. destruct vx, vy, vz; try reflexivity. exfalso. apply Hmov. auto. }
        rewrite Res. cbn [fst snd]. split; [destruct RF as [A [B [C [L [Dc St]]]]]; repeat split; cbn; auto|].
        constructor; [|constructor]. cbn [ev_ok fst snd].
        destruct open_xy eqn:Eo; [now left|]. right. rewrite Hsh. destruct (a_sh a) eqn:Es; [|now left]. right.
        cbn [andb negb] in E2. apply orb_false_iff in E2 as [E2x E2y].
        destruct x; [discriminate|]. destruct y; [discriminate|]. rewrite (Kx (Nx eq_refl)), (Ky (Ny eq_refl)). split; reflexivity.
      + (* no axis word: only the modal feed changes *)
        destruct x, y, z; cbn in Ehc; try discriminate. rewrite (Nx eq_refl), (Ny eq_refl), (Nz eq_refl).
        cbn [fst snd]. split; [exact RF | apply G_nil].
    - (* G92 *) injection H as <-. destruct (mpos m) as [[cx cy] cz]. split; [|apply G_nil]. repeat split; cbn; auto.
    - (* G84 *) injection H as <-. split; [|apply G_nil]. repeat split; cbn; auto.
    - (* DVAR *) injection H as <-. split; [|apply G_nil]. apply R_vars; [exact HR| |].
      + intros w Hw. rewrite memN_app in Hw. destruct (memN w vs) eqn:E; [now apply lookup_in_decl|].
        rewrite lookup_skip_decl by exact E. apply Hdc. exact Hw.
      + intros w Hw. apply memN_filter in Hw as [Hw1 Hw2]. apply negb_true_iff in Hw2.
        rewrite lookup_skip_decl by exact Hw2. now apply Hst.
    - (* assignment *)
      destruct (memN v (a_decl a)) eqn:Ed; [|discriminate]. pose proof (Hdc v Ed) as Hv.
      destruct (lookup v (mvars m)) as [ov|] eqn:El; [|congruence].
      assert (Upd : forall zz, R (w_vars a (a_decl a) (addN v (a_set a))) (set_vars m (update v (Some zz) (mvars m)))).
      { intros zz. apply R_vars; [exact HR| |].
        - intros w Hw. apply lookup_update_some. now apply Hdc.
        - intros w Hw. rewrite memN_addN in Hw. destruct (N.eqb w v) eqn:E.
          + apply N.eqb_eq in E. subst w. exists zz. apply lookup_update_same. congruence.
          + rewrite lookup_update_other by exact E. now apply Hst. }
      destruct e as [lz|w pz].
      + injection H as <-. split; [apply Upd | apply G_nil].
      + destruct (memN w (a_set a)) eqn:Ew; [|discriminate]. injection H as <-.
        destruct (Hst w Ew) as [cw ->]. split; [apply Upd | apply G_nil].
    - (* LOAD *) injection H as <-. split; [|apply G_nil]. repeat split; cbn; auto. now rewrite Hld.
    - (* STOP *) injection H as <-. split; [exact HR | apply G_nil].
    - (* WAIT *) injection H as <-. split; [exact HR | apply G_nil].
    - (* REMOVE *)
      destruct (memN base (a_loaded a)) eqn:Em; [|discriminate]. injection H as <-.
      assert (Em' : memN base (map fst (mloaded m)) = true) by (rewrite Hld, memN_app, Em; reflexivity).
      apply lookup_map_fst in Em'. destruct (lookup base (mloaded m)); [|congruence].
      split; [|apply G_nil]. repeat split; cbn; auto. now rewrite remove_first_map, Hld, rem1_app_mem.
    - (* FARCALL *)
      destruct (memN base (a_loaded a)) eqn:Em; [|discriminate]. injection H as <-.
      assert (Em' : memN base (map fst (mloaded m)) = true) by (rewrite Hld, memN_app, Em; reflexivity).
      apply lookup_map_fst in Em'. destruct (lookup base (mloaded m)) as [pth|]; [|congruence].
      destruct (call_ok a m pth HR) as [RC GC]. destruct (call m pth) as [m1 ev]. cbn [fst snd] in *.
      split; [exact RC|]. constructor; [exact I|]. apply G_app; [exact GC | constructor; [exact I | constructor]].
    - (* BUFFEREDRUN *)
      destruct (memN base (a_loaded a)) eqn:Em; [|discriminate]. injection H as <-.
      assert (Em' : memN base (map fst (mloaded m)) = true) by (rewrite Hld, memN_app, Em; reflexivity).
      apply lookup_map_fst in Em'. destruct (lookup base (mloaded m)); [|congruence].
      split; [exact HR|]. constructor; [exact I | constructor].
    - (* MSG *) injection H as <-. split; [exact HR | apply G_nil].
  Qed.

  Definition s_sound (s : stmt) : Prop :=
    forall a a', chk_s a s = Some a' -> forall m, R a m -> R a' (fst (run_stmt call m s)) /\ G (snd (run_stmt call m s)).

  Lemma list_sound : forall l, Forall s_sound l ->
    forall a a', chk a l = Some a' -> forall m, R a m -> R a' (fst (run_list call m l)) /\ G (snd (run_list call m l)).
  Proof.
    induction l as [|s r IH]; intros HF a a' H m HR.
    - injection H as <-. split; [exact HR | apply G_nil].
    - inversion HF as [|? ? Hs Hr]; subst. cbn [chk] in H. destruct (chk_s a s) as [a1|] eqn:E; [|discriminate].
      rewrite run_list_cons. destruct (Hs a a1 E m HR) as [R1 G1]. destruct (run_stmt call m s) as [m1 e1]. cbn [fst snd] in *.
      destruct (IH Hr a1 a' H m1 R1) as [R2 G2]. destruct (run_list call m1 r) as [m2 e2]. cbn [fst snd] in *.
      split; [exact R2 | now apply G_app].
  Qed.

  Lemma iter_sound : forall a (f : mstate -> mstate * list event),
    (forall m, R a m -> R a (fst (f m)) /\ G (snd (f m))) ->
    forall k m, R a m -> R a (fst (iter k f m)) /\ G (snd (iter k f m)).
  Proof.
    intros a f Hf. induction k as [|k IH]; intros m HR; cbn [iter]; [split; [exact HR | apply G_nil]|].
    destruct (Hf m HR) as [R1 G1]. destruct (f m) as [m1 e1]. cbn [fst snd] in *.
    destruct (IH m1 R1) as [R2 G2]. destruct (iter k f m1) as [m2 e2]. cbn [fst snd] in *. split; [exact R2 | now apply G_app].
  Qed.

  Lemma R_set_loopvar : forall a m v i, memN v (a_decl a) = true -> R a m ->
    R (w_vars a (a_decl a) (addN v (a_set a))) (set_vars m (update v (Some i) (mvars m))).
  Proof.
    intros a m v i Hv HR. pose proof HR as [_ [_ [_ [_ [Hdc Hst]]]]]. apply R_vars; [exact HR| |].
    - intros w Hw. apply lookup_update_some. now apply Hdc.
    - intros w Hw. rewrite memN_addN in Hw. destruct (N.eqb w v) eqn:E.
      + apply N.eqb_eq in E. subst w. exists i. apply lookup_update_same. now apply Hdc.
      + rewrite lookup_update_other by exact E. now apply Hst.
  Qed.

  Lemma R_loopvar_again : forall a v m i, memN v (a_decl a) = true ->
    R (w_vars a (a_decl a) (addN v (a_set a))) m ->
    R (w_vars a (a_decl a) (addN v (a_set a))) (set_vars m (update v (Some i) (mvars m))).
  Proof.
    intros a v m i Hv HR. pose proof HR as [A [B [C [L [Hdc Hst]]]]]. cbn in *. repeat split; cbn; auto.
    - intros w Hw. apply lookup_update_some. now apply Hdc.
    - intros w Hw. destruct (N.eqb w v) eqn:E.
      + apply N.eqb_eq in E. subst w. exists i. apply lookup_update_same. now apply Hdc.
      + rewrite lookup_update_other by exact E. now apply Hst.
  Qed.

  Lemma iter_for_sound : forall a v (f : mstate -> mstate * list event),
    memN v (a_decl a) = true ->
    (forall m, R (w_vars a (a_decl a) (addN v (a_set a))) m ->
               R (w_vars a (a_decl a) (addN v (a_set a))) (fst (f m)) /\ G (snd (f m))) ->
    forall k i m, R (w_vars a (a_decl a) (addN v (a_set a))) m ->
      R (w_vars a (a_decl a) (addN v (a_set a))) (fst (iter_for k v i f m)) /\ G (snd (iter_for k v i f m)).
  Proof.
    intros a v f Hv Hf. induction k as [|k IH]; intros i m HR; cbn [iter_for]; [split; [exact HR | apply G_nil]|].
    pose proof (R_loopvar_again a v m i Hv HR) as HR'.
    destruct (Hf _ HR') as [R1 G1]. destruct (f (set_vars m (update v (Some i) (mvars m)))) as [m1 e1]. cbn [fst snd] in *.
    destruct (IH (i + 1) m1 R1) as [R2 G2]. destruct (iter_for k v (i + 1) f m1) as [m2 e2]. cbn [fst snd] in *.
    split; [exact R2 | now apply G_app].
  Qed.

  Lemma s_sound_all : forall s, s_sound s.
  Proof.
    apply stmt_ind2.
    - intros t a a' H m HR. exact (tok_sound a t a' H m HR).
    - intros n b HF a a' H m HR. rewrite chk_s_rep in H. destruct (0 <? n) eqn:En; [|discriminate].
      destruct (chk a b) as [a1|] eqn:Eb; [|discriminate]. destruct (ast_eqb a a1) eqn:Ea; [|discriminate].
      injection H as <-. apply ast_eqb_eq in Ea. subst a1.
      rewrite run_stmt_rep, En. apply iter_sound; [|exact HR]. intros m' HR'. now apply (list_sound b HF a a Eb).
    - intros v lo hi b HF a a' H m HR. rewrite chk_s_for in H.
      destruct (memN v (a_decl a) && (lo <=? hi)) eqn:Ev; [|discriminate]. apply andb_true_iff in Ev as [Ev Elh].
      cbv zeta in H. set (a1 := w_vars a (a_decl a) (addN v (a_set a))) in *.
      destruct (chk a1 b) as [a2|] eqn:Eb; [|discriminate]. destruct (ast_eqb a1 a2) eqn:Ea; [|discriminate].
      injection H as <-. apply ast_eqb_eq in Ea. subst a2.
      rewrite run_stmt_for. cbv zeta. pose proof HR as [_ [_ [_ [_ [Hdc _]]]]].
      destruct (lookup v (mvars m)) eqn:El; [|exfalso; now apply (Hdc v Ev)].
      (* at least one iteration: peel it to enter the loop-variable state *)
      apply Z.leb_le in Elh. destruct (Z.to_nat (hi - lo + 1)) as [|k] eqn:Ek; [lia|]. cbn [iter_for].
      pose proof (R_set_loopvar a m v lo Ev HR) as HR1. fold a1 in HR1.
      destruct (list_sound b HF a1 a1 Eb _ HR1) as [R1 G1].
      destruct (run_list call (set_vars m (update v (Some lo) (mvars m))) b) as [m1 e1]. cbn [fst snd] in *.
      destruct (iter_for_sound a v (fun m => run_list call m b) Ev (fun m' HR' => list_sound b HF a1 a1 Eb m' HR') k (lo + 1) m1 R1) as [R2 G2].
      destruct (iter_for k v (lo + 1) (fun m0 => run_list call m0 b) m1) as [m2 e2]. cbn [fst snd] in *.
      split; [exact R2 | now apply G_app].
  Qed.

  Theorem chk_sound : forall l a a', chk a l = Some a' -> forall m, R a m ->
    R a' (fst (run_list call m l)) /\ G (snd (run_list call m l)).
  Proof. intros l. apply list_sound. apply Forall_forall. intros; apply s_sound_all. Qed.
End Chk.
