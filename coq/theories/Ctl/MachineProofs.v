From Coq Require Import List Bool ZArith NArith QArith Lia.
Import ListNotations.
From Femto Require Import Ctl.Tok Ctl.Machine Harness.Util.
Open Scope Z_scope.

Section RunProofs.
  Context (call : mstate -> N -> mstate * list event).

  Lemma run_list_cons : forall m s r,
    run_list call m (s :: r) =
    let '(m1, e1) := run_stmt call m s in
    let '(m2, e2) := run_list call m1 r in (m2, e1 ++ e2).
  Proof. reflexivity. Qed.

  Lemma run_list_app : forall l1 l2 m,
    run_list call m (l1 ++ l2) =
    let '(m1, e1) := run_list call m l1 in
    let '(m2, e2) := run_list call m1 l2 in (m2, e1 ++ e2).
  Proof.
    induction l1 as [|s r IH]; intros l2 m.
    - cbn [app run_list]. destruct (run_list call m l2); reflexivity.
    - cbn [app]. rewrite !run_list_cons. destruct (run_stmt call m s) as [m1 e1].
      rewrite IH. destruct (run_list call m1 r) as [m2 e2].
      destruct (run_list call m2 l2) as [m3 e3]. now rewrite app_assoc.
  Qed.

  (* the inner fixes of run_stmt are run_list *)
  Lemma run_stmt_rep : forall m n b,
    run_stmt call m (SRep n b) =
    if 0 <? n then iter (Z.to_nat n) (fun m => run_list call m b) m else err m E_count.
  Proof. reflexivity. Qed.

  Lemma run_stmt_for : forall m v lo hi b,
    run_stmt call m (SFor v lo hi b) =
    let r := iter_for (Z.to_nat (hi - lo + 1)) v lo (fun m => run_list call m b) m in
    match lookup v (mvars m) with
    | None => (fst r, EErr E_undeclared :: snd r)
    | Some _ => r
    end.
  Proof. reflexivity. Qed.
End RunProofs.

Lemma dsts_app : forall a b, dsts (a ++ b) = dsts a ++ dsts b.
Proof. intros; unfold dsts; now rewrite flat_map_app. Qed.

Lemma errors_app : forall a b, errors (a ++ b) = errors a ++ errors b.
Proof. intros; unfold errors; now rewrite flat_map_app. Qed.

Lemma opt_z_eqb_eq : forall a b : option Z, option_eqb Z.eqb a b = true -> a = b.
Proof.
  intros [a|] [b|]; cbn; intros H; try congruence. apply Z.eqb_eq in H. now subst.
Qed.

Lemma pos_eqb_eq : forall a b, pos_eqb a b = true -> a = b.
Proof.
  intros [[ax ay] az] [[bx by_] bz]; cbn. intros H.
  apply andb_true_iff in H as [H Hz]. apply andb_true_iff in H as [Hx Hy].
  apply opt_z_eqb_eq in Hx, Hy, Hz. now subst.
Qed.

Lemma pos_eqb_refl : forall a, pos_eqb a a = true.
Proof.
  intros [[ax ay] az]; cbn.
  assert (H : forall o : option Z, option_eqb Z.eqb o o = true) by (intros [z|]; cbn; auto using Z.eqb_refl).
  now rewrite !H.
Qed.
