(* Reference controller: a small operational semantics of the token language of Ctl/Tok.v.
   It is a specification written for this verification task (not Aerotech firmware): it says what
   "interpreting an emitted PGM file" means for properties C01, C03, C06, C08, C12, C14. *)
From Coq Require Import List Bool ZArith NArith QArith.
Import ListNotations.
From Femto Require Import Ctl.Tok.
Open Scope Z_scope.

Definition pos := (option Z * option Z * option Z)%type.

Record mstate := {
  mpos : pos;                       (* unknown (None) until first commanded *)
  mfeed : option Z;                 (* modal feed *)
  msh : bool;                       (* shutter (PSO) state *)
  mabs : bool;                      (* absolute / incremental *)
  mrot : bool;                      (* G84 rotation active *)
  mvars : list (N * option Z);      (* declared variables and their values *)
  mloaded : list (N * N)            (* loaded programs: (file name, path) *)
}.

Definition m0 : mstate :=
  {| mpos := (None, None, None); mfeed := None; msh := false; mabs := true; mrot := false;
     mvars := []; mloaded := [] |}.

Inductive event :=
| EMove (src dst : pos) (f : Z) (s g9 : bool)
| EDwell (t : Q) (s : bool)
| ECall (base : N)
| ERet                                   (* return from an inlined FARCALL *)
| EErr (code : N).

(* error codes *)
Definition E_unknown : N := 1.     (* unknown / unparsed control token *)
Definition E_undeclared : N := 2.  (* variable not declared or without value *)
Definition E_notloaded : N := 3.   (* call / remove of a program that is not loaded *)
Definition E_nofile : N := 4.      (* called file absent from the exported tree *)
Definition E_depth : N := 5.       (* call depth exhausted *)
Definition E_feed : N := 6.        (* move with no or non-positive feed *)
Definition E_count : N := 7.       (* loop count <= 0 *)
Definition E_incpos : N := 8.      (* incremental move from an unknown position *)

Fixpoint lookup {V : Type} (k : N) (l : list (N * V)) : option V :=
  match l with
  | [] => None
  | (k', v) :: r => if N.eqb k k' then Some v else lookup k r
  end.

Fixpoint update {V : Type} (k : N) (v : V) (l : list (N * V)) : list (N * V) :=
  match l with
  | [] => []
  | (k', v') :: r => if N.eqb k k' then (k', v) :: r else (k', v') :: update k v r
  end.

Fixpoint remove_first {V : Type} (k : N) (l : list (N * V)) : list (N * V) :=
  match l with
  | [] => []
  | (k', v') :: r => if N.eqb k k' then r else (k', v') :: remove_first k r
  end.

Definition set_pos (m : mstate) (p : pos) : mstate :=
  {| mpos := p; mfeed := mfeed m; msh := msh m; mabs := mabs m; mrot := mrot m;
     mvars := mvars m; mloaded := mloaded m |}.
Definition set_feed (m : mstate) (f : option Z) : mstate :=
  {| mpos := mpos m; mfeed := f; msh := msh m; mabs := mabs m; mrot := mrot m;
     mvars := mvars m; mloaded := mloaded m |}.
Definition set_sh (m : mstate) (b : bool) : mstate :=
  {| mpos := mpos m; mfeed := mfeed m; msh := b; mabs := mabs m; mrot := mrot m;
     mvars := mvars m; mloaded := mloaded m |}.
Definition set_abs (m : mstate) (b : bool) : mstate :=
  {| mpos := mpos m; mfeed := mfeed m; msh := msh m; mabs := b; mrot := mrot m;
     mvars := mvars m; mloaded := mloaded m |}.
Definition set_rot (m : mstate) (b : bool) : mstate :=
  {| mpos := mpos m; mfeed := mfeed m; msh := msh m; mabs := mabs m; mrot := b;
     mvars := mvars m; mloaded := mloaded m |}.
Definition set_vars (m : mstate) (v : list (N * option Z)) : mstate :=
  {| mpos := mpos m; mfeed := mfeed m; msh := msh m; mabs := mabs m; mrot := mrot m;
     mvars := v; mloaded := mloaded m |}.
Definition set_loaded (m : mstate) (l : list (N * N)) : mstate :=
  {| mpos := mpos m; mfeed := mfeed m; msh := msh m; mabs := mabs m; mrot := mrot m;
     mvars := mvars m; mloaded := l |}.

(* value of a coordinate word; None = use of an undeclared / unset variable *)
Definition coord_val (m : mstate) (c : coord) : option Z :=
  match c with
  | CNum z => Some z
  | CVar v => match lookup v (mvars m) with Some (Some z) => Some z | _ => None end
  end.

(* resolve an optional axis word: outer None = error, inner None = axis not commanded *)
Definition axis_val (m : mstate) (c : option coord) : option (option Z) :=
  match c with
  | None => Some None
  | Some c => match coord_val m c with Some z => Some (Some z) | None => None end
  end.

(* destination of one axis; None = error (incremental move from unknown position) *)
Definition axis_dst (abs : bool) (cur : option Z) (cmd : option Z) : option (option Z) :=
  match cmd with
  | None => Some cur
  | Some z => if abs then Some (Some z)
              else match cur with Some c => Some (Some (c + z)) | None => None end
  end.

Definition err (m : mstate) (c : N) : mstate * list event := (m, [EErr c]).

Definition run_g1 (m : mstate) (g9 : bool) (x y z : option coord) (f : option Z) : mstate * list event :=
  match axis_val m x, axis_val m y, axis_val m z with
  | Some vx, Some vy, Some vz =>
      let feed := match f with Some v => Some v | None => mfeed m end in
      let m1 := set_feed m feed in
      match vx, vy, vz with
      | None, None, None => (m1, [])              (* feed-only or U-only line: no motion *)
      | _, _, _ =>
          let '(cx, cy, cz) := mpos m in
          match axis_dst (mabs m) cx vx, axis_dst (mabs m) cy vy, axis_dst (mabs m) cz vz with
          | Some dx, Some dy, Some dz =>
              match feed with
              | Some fv => if 0 <? fv
                           then (set_pos m1 (dx, dy, dz), [EMove (mpos m) (dx, dy, dz) fv (msh m) g9])
                           else err m1 E_feed
              | None => err m1 E_feed
              end
          | _, _, _ => err m1 E_incpos
          end
      end
  | _, _, _ => err m E_undeclared
  end.

Definition relabel (cur : option Z) (v : option Z) : option Z :=
  match v with Some z => Some z | None => cur end.

Section Run.
  (* what FARCALL of a path does (tied to a call-depth budget below) *)
  Context (call : mstate -> N -> mstate * list event).

  Definition run_tok (m : mstate) (t : tok) : mstate * list event :=
    match t with
    | TSetup | TMsg | TStop _ | TWait _ => (m, [])
    | TMode b => (set_abs m b, [])
    | TPso _ on => (set_sh m on, [])
    | TDwell t => (m, [EDwell t (msh m)])
    | TG1 g9 _ x y z _ f => run_g1 m g9 x y z f
    | TG92 _ x y z =>
        let '(cx, cy, cz) := mpos m in
        (set_pos m (relabel cx x, relabel cy y, relabel cz z), [])
    | TG84 on => (set_rot m on, [])
    | TDvar vs => (set_vars m (map (fun v => (v, None)) vs ++ mvars m), [])
    | TAssign v e =>
        match lookup v (mvars m) with
        | None => err m E_undeclared
        | Some _ =>
            match e with
            | ELit z => (set_vars m (update v (Some z) (mvars m)), [])
            | EPlus w z =>
                match lookup w (mvars m) with
                | Some (Some c) => (set_vars m (update v (Some (c + z)) (mvars m)), [])
                | _ => err m E_undeclared
                end
            end
        end
    | TLoad _ path base => (set_loaded m ((base, path) :: mloaded m), [])
    | TRemove base =>
        match lookup base (mloaded m) with
        | Some _ => (set_loaded m (remove_first base (mloaded m)), [])
        | None => err m E_notloaded
        end
    | TFarcall _ base =>
        match lookup base (mloaded m) with
        | Some path => let '(m1, ev) := call m path in (m1, ECall base :: ev ++ [ERet])
        | None => err m E_notloaded
        end
    | TBuffered _ _ base =>
        match lookup base (mloaded m) with
        | Some _ => (m, [ECall base])
        | None => err m E_notloaded
        end
    | TRepeat _ | TEndRepeat | TFor _ _ _ | TNext _ | TUnknown => err m E_unknown
    end.

  (* run [f] k times, threading the state and concatenating the events *)
  Fixpoint iter (k : nat) (f : mstate -> mstate * list event) (m : mstate) : mstate * list event :=
    match k with
    | O => (m, [])
    | S k' => let '(m1, e1) := f m in let '(m2, e2) := iter k' f m1 in (m2, e1 ++ e2)
    end.

  (* FOR v = lo TO hi : k iterations, v = lo, lo+1, ... *)
  Fixpoint iter_for (k : nat) (v : N) (i : Z) (f : mstate -> mstate * list event) (m : mstate)
    : mstate * list event :=
    match k with
    | O => (m, [])
    | S k' =>
        let '(m1, e1) := f (set_vars m (update v (Some i) (mvars m))) in
        let '(m2, e2) := iter_for k' v (i + 1) f m1 in (m2, e1 ++ e2)
    end.

  Fixpoint run_stmt (m : mstate) (s : stmt) : mstate * list event :=
    match s with
    | SI t => run_tok m t
    | SRep n b =>
        let body := (fix rl (m : mstate) (l : list stmt) : mstate * list event :=
                       match l with
                       | [] => (m, [])
                       | s :: r => let '(m1, e1) := run_stmt m s in
                                   let '(m2, e2) := rl m1 r in (m2, e1 ++ e2)
                       end) in
        if 0 <? n then iter (Z.to_nat n) (fun m => body m b) m else err m E_count
    | SFor v lo hi b =>
        let body := (fix rl (m : mstate) (l : list stmt) : mstate * list event :=
                       match l with
                       | [] => (m, [])
                       | s :: r => let '(m1, e1) := run_stmt m s in
                                   let '(m2, e2) := rl m1 r in (m2, e1 ++ e2)
                       end) in
        (* an undeclared loop variable is an error; the body is still traced *)
        let r := iter_for (Z.to_nat (hi - lo + 1)) v lo (fun m => body m b) m in
        match lookup v (mvars m) with
        | None => (fst r, EErr E_undeclared :: snd r)
        | Some _ => r
        end
    end.

  Fixpoint run_list (m : mstate) (l : list stmt) : mstate * list event :=
    match l with
    | [] => (m, [])
    | s :: r => let '(m1, e1) := run_stmt m s in
                let '(m2, e2) := run_list m1 r in (m2, e1 ++ e2)
    end.
End Run.

(* the exported tree: path -> program *)
Definition files := list (N * list stmt).

Fixpoint run_fuel (fuel : nat) (fs : files) (m : mstate) (l : list stmt) : mstate * list event :=
  match fuel with
  | O => err m E_depth
  | S k =>
      run_list (fun m path =>
                  match lookup path fs with
                  | Some prog => run_fuel k fs m prog
                  | None => err m E_nofile
                  end) m l
  end.

(* a single file without sub-programs *)
Definition no_call (m : mstate) (_ : N) : mstate * list event := err m E_nofile.
Definition run (m : mstate) (l : list stmt) : mstate * list event := run_list no_call m l.

(* sub-programs that are not part of the file under test are opaque: the call succeeds and is
   recorded (ECall) but contributes no events of its own *)
Definition ext_call (m : mstate) (_ : N) : mstate * list event := (m, []).
Definition run_ext (m : mstate) (l : list stmt) : mstate * list event := run_list ext_call m l.

(* ---------------- observations on traces ---------------- *)

Definition is_err (e : event) : bool := match e with EErr _ => true | _ => false end.
Definition errors (ev : list event) : list N :=
  flat_map (fun e => match e with EErr c => [c] | _ => [] end) ev.

(* (destination, feed, shutter during the move) of every move, in order *)
Definition dsts (ev : list event) : list (pos * Z * bool) :=
  flat_map (fun e => match e with EMove _ d f s _ => [(d, f, s)] | _ => [] end) ev.

Definition moves (ev : list event) : list (pos * pos * Z * bool) :=
  flat_map (fun e => match e with EMove a d f s _ => [(a, d, f, s)] | _ => [] end) ev.

Definition dwell_sum (ev : list event) : Q :=
  fold_right (fun e acc => match e with EDwell t _ => (t + acc)%Q | _ => acc end) 0%Q ev.

Definition pos_eqb (a b : pos) : bool :=
  let '(ax, ay, az) := a in let '(bx, by_, bz) := b in
  Util.option_eqb Z.eqb ax bx && Util.option_eqb Z.eqb ay by_ && Util.option_eqb Z.eqb az bz.

(* drop zero-length moves: an entry whose destination equals the current position *)
Fixpoint collapse (cur : pos) (l : list (pos * Z * bool)) : list (pos * Z * bool) :=
  match l with
  | [] => []
  | (d, f, s) :: r => if pos_eqb d cur then collapse cur r else (d, f, s) :: collapse d r
  end.
