(* Static well-formedness of a loop tree and its consequence on the reference controller:
   a safe tree run from a machine in absolute mode with the needed variables declared produces no error
   except (possibly) calls / removals of programs that are not loaded. *)
From Coq Require Import List Bool ZArith NArith QArith Lia.
Import ListNotations.
From Femto Require Import Ctl.Tok Ctl.Machine Ctl.MachineProofs Ctl.ParseProofs.
Open Scope Z_scope.

Definition num_coord (c : option coord) : bool := match c with Some (CVar _) => false | _ => true end.
Definition has_coord (x y z : option coord) : bool :=
  match x, y, z with None, None, None => false | _, _, _ => true end.

Definition safe_tok (t : tok) : bool :=
  match t with
  | TSetup | TPso _ _ | TDwell _ | TG92 _ _ _ _ | TG84 _ | TDvar _ | TStop _ | TWait _ | TMsg
  | TLoad _ _ _ | TRemove _ | TFarcall _ _ | TBuffered _ _ _ => true
  | TMode abs => abs
  | TG1 _ _ x y z _ f =>
      num_coord x && num_coord y && num_coord z &&
      (if has_coord x y z then match f with Some v => 0 <? v | None => false end else true)
  | _ => false
  end.

Section SafeDef.
  Context (d : list N).
  Fixpoint safe_s (s : stmt) : bool :=
    match s with
    | SI t => safe_tok t
    | SRep n b => (0 <? n) && (fix sl (l : list stmt) : bool := match l with [] => true | x :: r => safe_s x && sl r end) b
    | SFor v _ _ b =>
        existsb (N.eqb v) d && (fix sl (l : list stmt) : bool := match l with [] => true | x :: r => safe_s x && sl r end) b
    end.
  Fixpoint safe (l : list stmt) : bool := match l with [] => true | x :: r => safe_s x && safe r end.
End SafeDef.

Lemma safe_s_rep : forall d n b, safe_s d (SRep n b) = (0 <? n) && safe d b.
Proof. reflexivity. Qed.
Lemma safe_s_for : forall d v lo hi b, safe_s d (SFor v lo hi b) = existsb (N.eqb v) d && safe d b.
Proof. reflexivity. Qed.

Lemma safe_app : forall d a b, safe d (a ++ b) = safe d a && safe d b.
Proof. induction a as [|x r IH]; intros b; cbn [app safe]; [reflexivity|]. now rewrite IH, andb_assoc. Qed.

(* more declared variables never hurt *)
Lemma safe_mono : forall d d', (forall v, existsb (N.eqb v) d = true -> existsb (N.eqb v) d' = true) ->
  forall l, safe d l = true -> safe d' l = true.
Proof.
  intros d d' Hsub.
  assert (G : forall s, safe_s d s = true -> safe_s d' s = true).
  { apply (stmt_ind2 (fun s => safe_s d s = true -> safe_s d' s = true)).
    - intros t H. exact H.
    - intros n b HF H. rewrite safe_s_rep in *. apply andb_true_iff in H as [H1 H2]. rewrite H1. cbn [andb].
      induction HF as [|x r Hx _ IH]; [reflexivity|]. cbn [safe] in *. apply andb_true_iff in H2 as [A B].
      rewrite (Hx A). now apply IH.
    - intros v lo hi b HF H. rewrite safe_s_for in *. apply andb_true_iff in H as [H1 H2]. rewrite (Hsub v H1). cbn [andb].
      induction HF as [|x r Hx _ IH]; [reflexivity|]. cbn [safe] in *. apply andb_true_iff in H2 as [A B].
      rewrite (Hx A). now apply IH. }
  induction l as [|x r IH]; intros H; [reflexivity|]. cbn [safe] in *. apply andb_true_iff in H as [A B].
  rewrite (G x A). now apply IH.
Qed.

(* ---- the machine-side invariant ---- *)

Definition declared (m : mstate) (v : N) : Prop := lookup v (mvars m) <> None.
Definition minv (d : list N) (m : mstate) : Prop :=
  mabs m = true /\ forall v, existsb (N.eqb v) d = true -> declared m v.

Definition only_notloaded (ev : list event) : Prop := forall c, In c (errors ev) -> c = E_notloaded.

Lemma only_nil : only_notloaded [].
Proof. intros c H. destruct H. Qed.
Lemma only_app : forall a b, only_notloaded a -> only_notloaded b -> only_notloaded (a ++ b).
Proof. intros a b Ha Hb c H. rewrite errors_app in H. apply in_app_or in H as [H|H]; auto. Qed.

Lemma lookup_update_some : forall {V : Type} k k' (v : V) l, lookup k l <> None -> lookup k (update k' v l) <> None.
Proof.
  induction l as [|[k0 v0] r IH]; intros H; cbn [lookup update] in *; [exact H|].
  destruct (N.eqb k' k0) eqn:E; cbn [lookup]; destruct (N.eqb k k0); auto; discriminate.
Qed.

Lemma lookup_app_some : forall {V : Type} k (a b : list (N * V)), lookup k b <> None -> lookup k (a ++ b) <> None.
Proof.
  induction a as [|[k0 v0] r IH]; intros b H; cbn [app lookup]; [exact H|]. destruct (N.eqb k k0); [discriminate | now apply IH].
Qed.

Section Safe.
  Context (call : mstate -> N -> mstate * list event).
  (* sub-programs that are not part of the file are opaque and well behaved *)
  Hypothesis call_ok : forall d m p, minv d m -> minv d (fst (call m p)) /\ only_notloaded (snd (call m p)).

  Lemma run_tok_safe : forall d m t, safe_tok t = true -> minv d m ->
    minv d (fst (run_tok call m t)) /\ only_notloaded (snd (run_tok call m t)).
  Proof.
    intros d m t Hs [Hab Hd].
    destruct t as [ | ab | za on | tq | g9 nd x y z u f | nd gx gy gz | on | n | | v lo hi | v | vs | v e
                  | task path base | task | task | base | arg base | task arg base | | ];
      cbn [safe_tok] in Hs; try discriminate; cbn [run_tok].
    - split; [split; assumption | apply only_nil].
    - subst ab. split; [split; [reflexivity | exact Hd] | apply only_nil].
    - split; [split; assumption | apply only_nil].
    - split; [split; assumption | intros c H; destruct H].
    - (* G1 *)
      apply andb_true_iff in Hs as [Hs Hf]. apply andb_true_iff in Hs as [Hs Hz]. apply andb_true_iff in Hs as [Hx Hy].
      unfold run_g1.
      destruct x as [[qx|wx]|]; cbn [num_coord] in Hx; try discriminate;
      destruct y as [[qy|wy]|]; cbn [num_coord] in Hy; try discriminate;
      destruct z as [[qz|wz]|]; cbn [num_coord] in Hz; try discriminate;
      cbn [axis_val coord_val has_coord] in *;
      try (split; [split; assumption | apply only_nil]);
      destruct (mpos m) as [[cx cy] cz]; rewrite Hab; cbn [axis_dst];
      destruct f as [fv|]; try discriminate; rewrite Hf;
      (split; [split; assumption | intros c H; destruct H]).
    - (* G92 *) destruct (mpos m) as [[cx cy] cz]. split; [split; assumption | apply only_nil].
    - (* G84 *) split; [split; assumption | apply only_nil].
    - (* DVAR *) split; [|apply only_nil]. split; [exact Hab|]. intros w Hw. unfold declared. cbn [mvars set_vars fst].
      apply lookup_app_some. now apply Hd.
    - (* LOAD *) split; [split; assumption | apply only_nil].
    - (* STOP *) split; [split; assumption | apply only_nil].
    - (* WAIT *) split; [split; assumption | apply only_nil].
    - (* REMOVE *) destruct (lookup base (mloaded m)); [split; [split; assumption | apply only_nil]|].
      split; [split; assumption|]. intros c [<-|[]]. reflexivity.
    - (* FARCALL *) destruct (lookup base (mloaded m)) as [pth|].
      + destruct (call_ok d m pth (conj Hab Hd)) as [I O]. destruct (call m pth) as [m1 ev]. cbn [fst snd] in *.
        split; [exact I|]. intros c H.
        change (errors (ECall base :: ev ++ [ERet])) with (errors (ev ++ [ERet])) in H.
        rewrite errors_app in H. apply in_app_or in H as [H|H]; [now apply O | destruct H].
      + split; [split; assumption|]. intros c [<-|[]]. reflexivity.
    - (* BUFFEREDRUN *) destruct (lookup base (mloaded m)); [split; [split; assumption | intros c H; destruct H]|].
      split; [split; assumption|]. intros c [<-|[]]. reflexivity.
    - (* MSG *) split; [split; assumption | apply only_nil].
  Qed.

  Lemma iter_safe : forall d (f : mstate -> mstate * list event),
    (forall m, minv d m -> minv d (fst (f m)) /\ only_notloaded (snd (f m))) ->
    forall k m, minv d m -> minv d (fst (iter k f m)) /\ only_notloaded (snd (iter k f m)).
  Proof.
    intros d f Hf. induction k as [|k IH]; intros m Hm; cbn [iter]; [split; [exact Hm | apply only_nil]|].
    destruct (Hf m Hm) as [I1 O1]. destruct (f m) as [m1 e1]. cbn [fst snd] in *.
    destruct (IH m1 I1) as [I2 O2]. destruct (iter k f m1) as [m2 e2]. cbn [fst snd] in *.
    split; [exact I2 | now apply only_app].
  Qed.

  Lemma iter_for_safe : forall d (f : mstate -> mstate * list event),
    (forall m, minv d m -> minv d (fst (f m)) /\ only_notloaded (snd (f m))) ->
    forall k v i m, minv d m -> minv d (fst (iter_for k v i f m)) /\ only_notloaded (snd (iter_for k v i f m)).
  Proof.
    intros d f Hf. induction k as [|k IH]; intros v i m Hm; cbn [iter_for]; [split; [exact Hm | apply only_nil]|].
    assert (Hm' : minv d (set_vars m (update v (Some i) (mvars m)))).
    { destruct Hm as [A B]. split; [exact A|]. intros w Hw. unfold declared. cbn [mvars set_vars].
      apply lookup_update_some. now apply B. }
    destruct (Hf _ Hm') as [I1 O1]. destruct (f (set_vars m (update v (Some i) (mvars m)))) as [m1 e1]. cbn [fst snd] in *.
    destruct (IH v (i + 1) m1 I1) as [I2 O2]. destruct (iter_for k v (i + 1) f m1) as [m2 e2]. cbn [fst snd] in *.
    split; [exact I2 | now apply only_app].
  Qed.

  Definition stmt_safe (d : list N) (s : stmt) : Prop :=
    safe_s d s = true -> forall m, minv d m -> minv d (fst (run_stmt call m s)) /\ only_notloaded (snd (run_stmt call m s)).

  Lemma run_list_safe : forall d l, Forall (stmt_safe d) l -> safe d l = true ->
    forall m, minv d m -> minv d (fst (run_list call m l)) /\ only_notloaded (snd (run_list call m l)).
  Proof.
    induction l as [|s r IH]; intros HF Hs m Hm; [split; [exact Hm | apply only_nil]|].
    inversion HF as [|? ? H1 H2]; subst. cbn [safe] in Hs. apply andb_true_iff in Hs as [A B].
    rewrite run_list_cons. destruct (H1 A m Hm) as [I1 O1]. destruct (run_stmt call m s) as [m1 e1]. cbn [fst snd] in *.
    destruct (IH H2 B m1 I1) as [I2 O2]. destruct (run_list call m1 r) as [m2 e2]. cbn [fst snd] in *.
    split; [exact I2 | now apply only_app].
  Qed.

  Lemma stmt_safe_all : forall d s, stmt_safe d s.
  Proof.
    intros d. apply stmt_ind2.
    - intros t Hs m Hm. now apply run_tok_safe.
    - intros n b HF Hs m Hm. rewrite safe_s_rep in Hs. apply andb_true_iff in Hs as [Hn Hb].
      rewrite run_stmt_rep, Hn. apply iter_safe; [|exact Hm]. intros m' Hm'. now apply run_list_safe.
    - intros v lo hi b HF Hs m Hm. rewrite safe_s_for in Hs. apply andb_true_iff in Hs as [Hv Hb].
      rewrite run_stmt_for. cbv zeta.
      pose proof (iter_for_safe d (fun m => run_list call m b) (fun m' Hm' => run_list_safe d b HF Hb m' Hm')
                    (Z.to_nat (hi - lo + 1)) v lo m Hm) as [I O].
      destruct Hm as [Hab Hd]. specialize (Hd v Hv). unfold declared in Hd.
      destruct (lookup v (mvars m)); [split; assumption | congruence].
  Qed.

  Theorem safe_run : forall d l, safe d l = true -> forall m, minv d m ->
    minv d (fst (run_list call m l)) /\ only_notloaded (snd (run_list call m l)).
  Proof. intros d l Hs m Hm. apply run_list_safe; auto. apply Forall_forall. intros; apply stmt_safe_all. Qed.
End Safe.
