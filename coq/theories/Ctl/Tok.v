(* Tokens of the Aerotech dialect femto emits, the loop tree, its printer (flatten) and parser.
   One token per non-blank, non-comment line (the lexer is harness/lexer.py).
   Numbers are in nano units (Base/Num.v); strings are interned to N by the lexer. *)
From Coq Require Import List Bool ZArith NArith QArith.
Import ListNotations.
From Femto Require Import Harness.Util.

Inductive coord := CNum (z : Z) | CVar (v : N).
Inductive expr := ELit (z : Z) | EPlus (v : N) (z : Z).

Inductive tok :=
| TSetup                                   (* ENABLE / METRIC / SECONDS / G359 / G17 / VELOCITY / WAIT MODE / PSO setup *)
| TMode (abs : bool)                       (* ABSOLUTE / INCREMENTAL *)
| TPso (zaxis : bool) (on : bool)          (* PSOCONTROL X|Z ON|OFF *)
| TDwell (t : Q)
| TG1 (g9 : bool) (nd : Z) (x y z : option coord) (u : option Z) (f : option Z)
                                           (* nd = number of decimals of the numeric fields (-1: mixed) *)
| TG92 (nd : Z) (x y z : option Z)
| TG84 (on : bool)                         (* G84 X Y  /  G84 X Y F<angle> *)
| TRepeat (n : Z) | TEndRepeat
| TFor (v : N) (lo hi : Z) | TNext (v : N)
| TDvar (vs : list N)
| TAssign (v : N) (e : expr)
| TLoad (task : Z) (path base : N)         (* PROGRAM t LOAD "path" ; base = its file name *)
| TStop (task : Z) | TWait (task : Z)
| TRemove (base : N)
| TFarcall (arg base : N)
| TBuffered (task : Z) (arg base : N)
| TMsg
| TUnknown.

(* nested inductive: loop bodies are lists of statements *)
Inductive stmt :=
| SI (t : tok)
| SRep (n : Z) (b : list stmt)
| SFor (v : N) (lo hi : Z) (b : list stmt).

Definition is_ctl (t : tok) : bool :=
  match t with TRepeat _ | TEndRepeat | TFor _ _ _ | TNext _ => true | _ => false end.

(* printer: the token stream of a tree *)
Fixpoint flat_s (s : stmt) : list tok :=
  match s with
  | SI t => [t]
  | SRep n b =>
      TRepeat n :: (fix fl (l : list stmt) : list tok :=
                      match l with [] => [] | s :: r => flat_s s ++ fl r end) b ++ [TEndRepeat]
  | SFor v lo hi b =>
      TFor v lo hi :: (fix fl (l : list stmt) : list tok :=
                         match l with [] => [] | s :: r => flat_s s ++ fl r end) b ++ [TNext v]
  end.

Fixpoint flatten (l : list stmt) : list tok :=
  match l with [] => [] | s :: r => flat_s s ++ flatten r end.

(* no control token hides in a leaf *)
Fixpoint wf_s (s : stmt) : bool :=
  match s with
  | SI t => negb (is_ctl t)
  | SRep _ b | SFor _ _ _ b =>
      (fix wl (l : list stmt) : bool := match l with [] => true | s :: r => wf_s s && wl r end) b
  end.

Fixpoint wf (l : list stmt) : bool :=
  match l with [] => true | s :: r => wf_s s && wf r end.

(* stack parser, structural on the token list; [cur] is the current block, reversed *)
Inductive frame := FRep (n : Z) | FFor (v : N) (lo hi : Z).

Fixpoint parse_aux (ts : list tok) (cur : list stmt) (stk : list (frame * list stmt)) : option (list stmt) :=
  match ts with
  | [] => match stk with [] => Some (rev' cur) | _ => None end
  | TRepeat n :: r => parse_aux r [] ((FRep n, cur) :: stk)
  | TEndRepeat :: r =>
      match stk with
      | (FRep n, outer) :: stk' => parse_aux r (SRep n (rev' cur) :: outer) stk'
      | _ => None
      end
  | TFor v lo hi :: r => parse_aux r [] ((FFor v lo hi, cur) :: stk)
  | TNext v :: r =>
      match stk with
      | (FFor w lo hi, outer) :: stk' =>
          if N.eqb v w then parse_aux r (SFor w lo hi (rev' cur) :: outer) stk' else None
      | _ => None
      end
  | t :: r => parse_aux r (SI t :: cur) stk
  end.

Definition parse (ts : list tok) : option (list stmt) := parse_aux ts [] [].

(* ---------------- decidable comparisons used by the executable checkers ---------------- *)

Definition coord_eqb (a b : coord) : bool :=
  match a, b with
  | CNum x, CNum y => Z.eqb x y
  | CVar v, CVar w => N.eqb v w
  | _, _ => false
  end.

(* numeric fields may differ by at most [tol] nano units *)
Definition z_close (tol : Z) (a b : Z) : bool := Z.leb (Z.abs (a - b)) tol.
Definition coord_close (tol : Z) (a b : coord) : bool :=
  match a, b with
  | CNum x, CNum y => z_close tol x y
  | CVar v, CVar w => N.eqb v w
  | _, _ => false
  end.

Definition expr_eqb (a b : expr) : bool :=
  match a, b with
  | ELit x, ELit y => Z.eqb x y
  | EPlus v x, EPlus w y => N.eqb v w && Z.eqb x y
  | _, _ => false
  end.
Definition expr_close (tol : Z) (a b : expr) : bool :=
  match a, b with
  | ELit x, ELit y => z_close tol x y
  | EPlus v x, EPlus w y => N.eqb v w && z_close tol x y
  | _, _ => false
  end.

(* token comparison with tolerance [tol] on coordinates (feeds, dwell, counts, names exact) *)
Definition tok_close (tol : Z) (a b : tok) : bool :=
  match a, b with
  | TSetup, TSetup => true
  | TMode x, TMode y => Bool.eqb x y
  | TPso z1 o1, TPso z2 o2 => Bool.eqb z1 z2 && Bool.eqb o1 o2
  | TDwell t1, TDwell t2 => Qeq_bool t1 t2
  | TG1 g1 n1 x1 y1 z1 u1 f1, TG1 g2 n2 x2 y2 z2 u2 f2 =>
      Bool.eqb g1 g2 && Z.eqb n1 n2 &&
      option_eqb (coord_close tol) x1 x2 && option_eqb (coord_close tol) y1 y2 &&
      option_eqb (coord_close tol) z1 z2 && option_eqb Z.eqb u1 u2 && option_eqb Z.eqb f1 f2
  | TG92 n1 x1 y1 z1, TG92 n2 x2 y2 z2 =>
      Z.eqb n1 n2 && option_eqb (z_close tol) x1 x2 && option_eqb (z_close tol) y1 y2 &&
      option_eqb (z_close tol) z1 z2
  | TG84 a, TG84 b => Bool.eqb a b
  | TRepeat n, TRepeat m => Z.eqb n m
  | TEndRepeat, TEndRepeat => true
  | TFor v l h, TFor w l2 h2 => N.eqb v w && Z.eqb l l2 && Z.eqb h h2
  | TNext v, TNext w => N.eqb v w
  | TDvar vs, TDvar ws => list_eqb N.eqb vs ws
  | TAssign v e, TAssign w e2 => N.eqb v w && expr_close tol e e2
  | TLoad t p b, TLoad t2 p2 b2 => Z.eqb t t2 && N.eqb p p2 && N.eqb b b2
  | TStop t, TStop t2 => Z.eqb t t2
  | TWait t, TWait t2 => Z.eqb t t2
  | TRemove b, TRemove b2 => N.eqb b b2
  | TFarcall a b, TFarcall a2 b2 => N.eqb a a2 && N.eqb b b2
  | TBuffered t a b, TBuffered t2 a2 b2 => Z.eqb t t2 && N.eqb a a2 && N.eqb b b2
  | TMsg, TMsg => true
  | TUnknown, TUnknown => true
  | _, _ => false
  end.

(* index of the first position where two token streams differ (None = they agree) *)
Fixpoint first_diff (tol : Z) (i : N) (a b : list tok) : option N :=
  match a, b with
  | [], [] => None
  | x :: r, y :: s => if tok_close tol x y then first_diff tol (N.succ i) r s else Some i
  | _, _ => Some i
  end.
