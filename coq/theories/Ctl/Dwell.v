(* Static dwell of a loop tree and its agreement with the dwell the controller executes. *)
From Coq Require Import List Bool ZArith NArith QArith Lia.
Import ListNotations.
From Femto Require Import Ctl.Tok Ctl.Machine Ctl.MachineProofs Ctl.ParseProofs.
Open Scope Q_scope.

Definition count (n : Z) : Q := inject_Z (Z.of_nat (Z.to_nat n)).

Fixpoint dw_s (s : stmt) : Q :=
  match s with
  | SI (TDwell t) => t
  | SI _ => 0
  | SRep n b =>
      (if (0 <? n)%Z then count n else 0) *
      (fix dl (l : list stmt) : Q := match l with [] => 0 | s :: r => dw_s s + dl r end) b
  | SFor v lo hi b =>
      count (hi - lo + 1) *
      (fix dl (l : list stmt) : Q := match l with [] => 0 | s :: r => dw_s s + dl r end) b
  end.

Fixpoint dw (l : list stmt) : Q :=
  match l with [] => 0 | s :: r => dw_s s + dw r end.

Lemma dw_s_rep : forall n b, dw_s (SRep n b) = (if (0 <? n)%Z then count n else 0) * dw b.
Proof. reflexivity. Qed.
Lemma dw_s_for : forall v lo hi b, dw_s (SFor v lo hi b) = count (hi - lo + 1) * dw b.
Proof. reflexivity. Qed.

Lemma dw_app : forall a b, dw (a ++ b) == dw a + dw b.
Proof.
  induction a as [|s r IH]; intros b; cbn [app dw]; [ring|]. rewrite IH. ring.
Qed.

Lemma dwell_sum_app : forall a b, dwell_sum (a ++ b) == dwell_sum a + dwell_sum b.
Proof.
  induction a as [|e r IH]; intros b; cbn [app]; unfold dwell_sum in *; cbn [fold_right]; [ring|].
  destruct e; rewrite ?IH; ring.
Qed.

Section DwellRun.
  Context (call : mstate -> N -> mstate * list event).
  Hypothesis call_quiet : forall m p, dwell_sum (snd (call m p)) == 0.

  Lemma run_tok_dwell : forall m t, dwell_sum (snd (run_tok call m t)) == dw_s (SI t).
  Proof.
    intros m t. destruct t; cbn [run_tok dw_s snd]; try (cbn; ring).
    - (* G1 *) unfold run_g1.
      destruct (axis_val m x) as [vx|]; [|cbn; ring].
      destruct (axis_val m y) as [vy|]; [|cbn; ring].
      destruct (axis_val m z) as [vz|]; [|cbn; ring].
      destruct vx, vy, vz; cbn; try ring;
      destruct (mpos m) as [[cx cy] cz];
      repeat match goal with
             | |- context [match ?x with _ => _ end] => destruct x; cbn; try ring
             end.
    - (* G92 *) destruct (mpos m) as [[cx cy] cz]. cbn. ring.
    - (* assign *) destruct (lookup v (mvars m)); [|cbn; ring].
      destruct e; [cbn; ring|]. destruct (lookup v0 (mvars m)) as [[c|]|]; cbn; ring.
    - (* remove *) destruct (lookup base (mloaded m)); cbn; ring.
    - (* farcall *) destruct (lookup base (mloaded m)) as [path|]; [|cbn; ring].
      pose proof (call_quiet m path) as H. destruct (call m path) as [m1 ev]. cbn [snd] in *.
      change (dwell_sum (ECall base :: ev ++ [ERet])) with (dwell_sum (ev ++ [ERet])).
      rewrite dwell_sum_app, H. cbn. ring.
    - (* buffered *) destruct (lookup base (mloaded m)); cbn; ring.
  Qed.

  Lemma iter_dwell : forall (f : mstate -> mstate * list event) d,
    (forall m, dwell_sum (snd (f m)) == d) ->
    forall k m, dwell_sum (snd (iter k f m)) == inject_Z (Z.of_nat k) * d.
  Proof.
    intros f d Hf. induction k as [|k IH]; intros m.
    - cbn. ring.
    - cbn [iter]. pose proof (Hf m) as H1. destruct (f m) as [m1 e1]. specialize (IH m1).
      destruct (iter k f m1) as [m2 e2]. cbn [snd] in *.
      rewrite dwell_sum_app, H1, IH. rewrite Nat2Z.inj_succ. unfold Z.succ. rewrite inject_Z_plus. ring.
  Qed.

  Lemma iter_for_dwell : forall (f : mstate -> mstate * list event) d,
    (forall m, dwell_sum (snd (f m)) == d) ->
    forall k v i m, dwell_sum (snd (iter_for k v i f m)) == inject_Z (Z.of_nat k) * d.
  Proof.
    intros f d Hf. induction k as [|k IH]; intros v i m.
    - cbn. ring.
    - cbn [iter_for]. pose proof (Hf (set_vars m (update v (Some i) (mvars m)))) as H1.
      destruct (f (set_vars m (update v (Some i) (mvars m)))) as [m1 e1]. specialize (IH v (i + 1)%Z m1).
      destruct (iter_for k v (i + 1) f m1) as [m2 e2]. cbn [snd] in *.
      rewrite dwell_sum_app, H1, IH. rewrite Nat2Z.inj_succ. unfold Z.succ. rewrite inject_Z_plus. ring.
  Qed.

  Definition dwell_ok (s : stmt) : Prop := forall m, dwell_sum (snd (run_stmt call m s)) == dw_s s.

  Lemma run_list_dwell : forall l, Forall dwell_ok l -> forall m, dwell_sum (snd (run_list call m l)) == dw l.
  Proof.
    induction l as [|s r IH]; intros HF m.
    - cbn. ring.
    - inversion HF as [|? ? Hs Hr]; subst. rewrite run_list_cons.
      pose proof (Hs m) as H1. destruct (run_stmt call m s) as [m1 e1].
      specialize (IH Hr m1). destruct (run_list call m1 r) as [m2 e2]. cbn [snd] in *.
      rewrite dwell_sum_app, H1, IH. cbn [dw]. ring.
  Qed.

  Lemma dwell_ok_all : forall s, dwell_ok s.
  Proof.
    apply stmt_ind2.
    - intros t m. apply run_tok_dwell.
    - intros n b HF m. rewrite run_stmt_rep, dw_s_rep.
      destruct (0 <? n)%Z.
      + rewrite (iter_dwell (fun m => run_list call m b) (dw b)); [reflexivity|].
        intros m'. now apply run_list_dwell.
      + cbn. ring.
    - intros v lo hi b HF m. rewrite run_stmt_for, dw_s_for. cbv zeta.
      pose proof (iter_for_dwell (fun m => run_list call m b) (dw b)
                    (fun m' => run_list_dwell b HF m') (Z.to_nat (hi - lo + 1)) v lo m) as H.
      destruct (lookup v (mvars m)); cbn [snd]; [exact H|].
      unfold dwell_sum in *. cbn [fold_right]. exact H.
  Qed.

  (* the dwell the controller executes is the static dwell of the tree, whatever the machine state *)
  Theorem executed_dwell : forall l m, dwell_sum (snd (run_list call m l)) == dw l.
  Proof.
    intros l m. apply run_list_dwell. apply Forall_forall. intros; apply dwell_ok_all.
  Qed.
End DwellRun.
