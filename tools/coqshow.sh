#!/bin/sh
# tools/coqshow.sh <file.v> <line> : compile a copy with `Show.` inserted after <line>; prints goals and first error
f=$1; n=$2
cd /verif/coq
tmp=theories/Gen/Tmp_show.v
awk -v n=$n '{print} NR==n{print "Show."}' "$f" > $tmp
timeout ${T:-600} coqc -Q theories Femto -w -deprecated-hint-without-locality,-deprecated-instance-without-locality,-notation-overridden $tmp 2>&1 | head -${N:-70}
rm -f $tmp theories/Gen/Tmp_show.vo theories/Gen/Tmp_show.glob theories/Gen/.Tmp_show.aux theories/Gen/Tmp_show.vok theories/Gen/Tmp_show.vos
