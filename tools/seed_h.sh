#!/bin/sh
# tools/seed_h.sh <tag> <Cxx> <suffix> : confirm the seeded change a sub-agent left in /tmp/mut/out_<tag> (fresh worktree: the suite passes with it,
# demo.py fails with it and passes without), file it under seeded/<Cxx>-<suffix>, drop the agent's worktree, run the quick check against it
TAG=$1; P=$2; SUF=$3
cd /verif
tools/confirm_seed.sh $TAG tmp > /tmp/seedrun/confirm_$TAG.log 2>&1
git -C /repo worktree remove --force /tmp/mut/$TAG 2>/dev/null
grep -A2 "^==" /tmp/seedrun/confirm_$TAG.log | grep -v "^--"
rm -rf seeded/$P-$SUF; mv seeded/$TAG-tmp seeded/$P-$SUF
tools/seed_check.sh seeded/$P-$SUF $P
