import sys, json, os, subprocess
sys.path.insert(0,'/verif/harness')
import numpy as np, common, c03, lexer, pgm
d=json.load(open(sys.argv[1])); c=d['input']
common.fresh_cwd('DBG')
text,raised,dwell=c03.run_impl(c['cfg'],c['ops'])
lit=c03.case_literal(c['cfg'],c['ops'],text,raised,dwell)
open('dbg.v','w').write('From Coq Require Import ZArith NArith QArith List Bool.\nImport ListNotations.\nFrom Femto Require Import Harness.C03 Base.Num Ctl.Tok Ctl.Machine Geo.Rigid Pgm.Ops.\nDefinition k : C03.case := %s.\nEval vm_compute in (C03.check k, C03.diff_at k).\nEval vm_compute in (match session (k_cfg k) (k_ops k) with Written f _ _ => f | _ => [] end).\nEval vm_compute in (k_toks k).\n' % lit)
print(c['cfg'], 'failed', d.get('failed'), 'raised', raised)
print(json.dumps(c['ops'])[:1500])
print(text)
print(subprocess.run(['coqc','-Q','/verif/coq/theories','Femto','dbg.v'],capture_output=True,text=True).stdout[:5000])
