#!/bin/sh
# tools/append_equiv.sh [file] : append stdin to a .v file, inside its final `End <Section>.` line
f=${1:-/verif/coq/theories/Gen/PgmEquiv.v}
last=$(tail -1 "$f")
sed -i '$ d' "$f"
cat >> "$f"
echo "$last" >> "$f"
