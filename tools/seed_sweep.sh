#!/bin/sh
# tools/seed_sweep.sh <seed>... : quick checks of all properties on the unchanged tree for several seeds; alarms are listed
cd "$(dirname "$0")/.." || exit 2
for s in "$@"; do
  for i in 01 02 03 04 05 06 07 08 09 10 11 12 13 14 15 16 17 18 19; do
    out=$(VERIF_SEED=$s bin/check C$i quick 2>&1)
    rc=$?
    echo "seed=$s C$i rc=$rc $(echo "$out" | grep -c '^VIOLATION') violations; $(echo "$out" | tail -1)"
    echo "$out" | grep '^VIOLATION' | head -3
    if [ $rc -ne 0 ]; then mkdir -p .sweep_alarms; cp replays/C$i-quick-$s-*.json .sweep_alarms/ 2>/dev/null; fi
  done
done
