#!/bin/sh
# tools/thorough_all.sh : run the thorough tier of every property on the unchanged tree, with timings
cd "$(dirname "$0")/.." || exit 2
for i in 19 11 15 16 02 17 18 14 08 04 12 03 01 05 07 09 13 10 06; do
  t0=$(date +%s)
  out=$(timeout 7200 bin/check C$i thorough 2>&1); rc=$?
  t1=$(date +%s)
  echo "C$i rc=$rc $((t1-t0))s $(echo "$out" | grep -c '^VIOLATION') violations; $(echo "$out" | tail -1)"
  echo "$out" | grep '^VIOLATION' | head -3
done
