#!/bin/sh
# tools/seed_one.sh <verif checkout> <seed dir (relative to it)> : one seeded change against the quick check of its property, in a
# scratch worktree of /repo with scratch output; appends one line to /tmp/seedmx/results.txt
ROOT=$1; d=$2; id=$(basename $d)
cd "$ROOT" || exit 2
p=$(python3 -c "import json;print(json.load(open('$d/meta.json'))['property'])")
wt=/tmp/seedmx/wt_$id; out=/tmp/seedmx/out_$id
rm -rf $out; mkdir -p $out
k=0; until git -C /repo worktree add -q --detach $wt HEAD 2>/dev/null; do k=$((k+1)); [ $k -gt 30 ] && { echo "$id WORKTREE-FAILED" >> /tmp/seedmx/results.txt; exit 0; }; sleep 1; done
if ! ( cd $wt && git apply "$ROOT/$d/patch.diff" ) 2>/dev/null; then echo "$id PATCH-DOES-NOT-APPLY" >> /tmp/seedmx/results.txt
else
  o=$(FEMTO_REPO=$wt VERIF_OUT=$out timeout 3000 bin/check $p quick 2>&1); rc=$?
  nv=$(echo "$o" | grep -c '^VIOLATION'); nn=$(echo "$o" | grep '^VIOLATION' | grep -c 'no-failing-input-found')
  sig=$(python3 -c "import json;print(json.load(open('$out/evidence/$p.json'))['coverage'].get('violations_by_signature'))" 2>/dev/null | cut -c1-300)
  echo "$id $p rc=$rc violations=$nv no_input=$nn sig=$sig" >> /tmp/seedmx/results.txt
fi
k=0; until git -C /repo worktree remove --force $wt 2>/dev/null; do k=$((k+1)); [ $k -gt 30 ] && break; sleep 1; done
rm -rf $out
