#!/bin/sh
# tools/confirm_c09.sh <tag> : a sub-agent's delivery in /tmp/seed<tag>/ (patch.diff, demo.py) confirmed in a fresh worktree of /repo HEAD
# (suite, demo with / without the change), then bin/check C09 quick against that worktree with scratch output
t=$1; W=/tmp/cf_$t; O=/tmp/cfout_$t
git -C /repo worktree add -q --detach $W HEAD || exit 2
(cd $W && git apply /tmp/seed$t/patch.diff) || { echo "$t PATCH DOES NOT APPLY"; exit 2; }
echo "$t suite: $(cd $W && PYTHONPATH=$W/src timeout 1500 /venv/bin/python -m pytest -q -p no:cacheprovider --timeout=900 tests 2>&1 | grep -E 'passed|failed' | tail -1)"
D=$(mktemp -d); (cd $D && PYTHONPATH=$W/src MPLBACKEND=Agg timeout 600 /venv/bin/python /tmp/seed$t/demo.py >/dev/null 2>&1; echo "$t demo with change exit=$?"); rm -rf $D
D=$(mktemp -d); (cd $D && PYTHONPATH=/repo/src MPLBACKEND=Agg timeout 600 /venv/bin/python /tmp/seed$t/demo.py >/dev/null 2>&1; echo "$t demo unchanged exit=$?"); rm -rf $D
mkdir -p $O; cd /verif; o=$(FEMTO_REPO=$W VERIF_OUT=$O timeout 3000 bin/check C09 quick 2>&1); echo "$t check rc=$?"; echo "$o" | grep '^VIOLATION' | sed "s/^/$t /" | cut -c1-260 | head -8
python3 -c "import json;print('$t', json.load(open('$O/evidence/C09.json'))['coverage'].get('violations_by_signature'))"
git -C /repo worktree remove --force $W; rm -rf $O
