#!/usr/bin/env python3
"""Apply a seeded change to /repo, run the checks, undo it.   tools/run_seeded.py <dir-with-patch.diff> [Cxx ...]

Prints, per check, whether it raised a VIOLATION (and of which kind).  /repo must be clean before and is clean after.
"""
import json
import pathlib
import subprocess
import sys

REPO = '/repo'


def sh(cmd, **kw):
    return subprocess.run(cmd, shell=True, capture_output=True, text=True, **kw)


def main():
    d = pathlib.Path(sys.argv[1]).resolve()
    patch = d / 'patch.diff'
    props = sys.argv[2:]
    meta = d / 'meta.json'
    if not props and meta.exists():
        props = [json.loads(meta.read_text())['property']]
    assert sh(f'git -C {REPO} status --porcelain').stdout.strip() == '', '/repo is not clean'
    r = sh(f'git -C {REPO} apply {patch}')
    if r.returncode != 0:
        print('patch does not apply:', r.stderr)
        return 2
    out = {}
    try:
        for p in props:
            r = sh(f'/verif/bin/check {p} quick', timeout=3000)
            lines = [ln for ln in r.stdout.splitlines() if ln.startswith('VIOLATION') or ln.startswith('KNOWN-FINDING')]
            viol = [ln for ln in lines if ln.startswith('VIOLATION')]
            out[p] = {'exit': r.returncode, 'violations': len(viol),
                      'no_failing_input': sum('no-failing-input-found' in ln for ln in viol),
                      'first': viol[0][:300] if viol else None}
            ev = pathlib.Path(f'/verif/evidence/{p}.json')
            if ev.exists():
                out[p]['signatures'] = json.loads(ev.read_text())['coverage'].get('violations_by_signature')
            print(p, json.dumps(out[p])[:600], flush=True)
    finally:
        sh(f'git -C {REPO} checkout -- .')
        # evidence files must describe the unchanged tree: re-run is left to the caller
    return 0


if __name__ == '__main__':
    sys.exit(main())
