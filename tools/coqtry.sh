#!/bin/sh
# tools/coqtry.sh <file.v> : compile one file of the development, show the first error
cd /verif/coq && timeout ${T:-600} coqc -Q theories Femto -w -deprecated-hint-without-locality,-deprecated-instance-without-locality,-notation-overridden "$1" 2>&1 | head -${N:-40}
