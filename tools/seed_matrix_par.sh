#!/bin/sh
# tools/seed_matrix_par.sh [P] : quick check of every seeded change (scratch worktrees), P at a time; writes seeded/RESULTS.jsonl
P=${1:-5}
cd /verif
ls -d seeded/C??-? | xargs -P $P -I{} sh -c 'tools/seed_check.sh {} 2>&1 | grep "^SEED"' > /tmp/seed_matrix.out
python3 - <<'PY'
import re, json
rows = []
for ln in open('/tmp/seed_matrix.out'):
    m = re.match(r'SEED (\S+) (\S+) rc=(\d+) violations=(\d+) no_input=(\d+) sig=(.*)', ln.strip())
    if m:
        rows.append({'seed': m.group(1), 'property': m.group(2), 'exit': int(m.group(3)), 'violations': int(m.group(4)),
                     'no_failing_input': int(m.group(5)), 'signatures': m.group(6)})
rows.sort(key=lambda r: r['seed'])
open('/verif/seeded/RESULTS.jsonl', 'w').write(''.join(json.dumps(r) + '\n' for r in rows))
print(len(rows), 'seeds;', sum(r['exit'] == 1 for r in rows), 'caught;', [r['seed'] for r in rows if r['exit'] != 1])
PY
