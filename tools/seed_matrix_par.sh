#!/bin/sh
# tools/seed_matrix_par.sh [jobs] : every seeded change against the quick check of its property, in scratch worktrees of /repo
# (FEMTO_REPO) with scratch output (VERIF_OUT), several at a time; run from a checkout of /verif (e.g. a `vp run` snapshot: the
# Coq development is built first).  One line per seed in /tmp/seedmx/results.txt.
J=${1:-5}
ROOT=$(cd "$(dirname "$0")/.." && pwd)
cd "$ROOT/coq" && coq_makefile -f _CoqProject -o Makefile >/dev/null && timeout 3000 make -j16 >/dev/null 2>&1
cd "$ROOT"
mkdir -p /tmp/seedmx; : > /tmp/seedmx/results.txt
for d in seeded/C*-*; do echo $d; done | xargs -P $J -I{} sh tools/seed_one.sh "$ROOT" {}
sort /tmp/seedmx/results.txt > /tmp/seedmx/results_sorted.txt
echo "done: $(wc -l < /tmp/seedmx/results.txt) seeds; not caught: $(grep -c 'rc=0' /tmp/seedmx/results.txt); patch failures: $(grep -c 'PATCH' /tmp/seedmx/results.txt)"
