#!/bin/sh
# tools/seed_c.sh Cxx : confirm the round-c seeded change of a sub-agent (tests pass, demo fails / passes), file it under
# seeded/Cxx-c, drop the agent's worktree, then run the quick check against it in a scratch worktree
ID=$1; SUF=${2:-c}
cd /verif
tools/confirm_seed.sh $ID $SUF > /tmp/seedrun/confirm_$ID.log 2>&1
git -C /repo worktree remove --force /tmp/mut/$ID 2>/dev/null
cat /tmp/seedrun/confirm_$ID.log | grep -A2 "^==" | grep -v "^--"
tools/seed_check.sh seeded/$ID-$SUF $ID
