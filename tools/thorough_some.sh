#!/bin/sh
# tools/thorough_some.sh Cxx... : build, then the thorough tier of the given properties, three at a time, with scratch output
ROOT=$(cd "$(dirname "$0")/.." && pwd)
cd "$ROOT/coq" && coq_makefile -f _CoqProject -o Makefile >/dev/null && timeout 3000 make -j16 >/dev/null 2>&1
cd "$ROOT"; mkdir -p /tmp/thor
for p in "$@"; do echo $p; done | xargs -P 3 -I{} sh -c "VERIF_OUT=/tmp/thor/out_{} timeout 7000 bin/check {} thorough > /tmp/thor/{}.log 2>&1; echo \"{} rc=\$? \$(grep -c '^VIOLATION' /tmp/thor/{}.log) violations; \$(tail -1 /tmp/thor/{}.log)\" >> /tmp/thor/summary.txt"
cat /tmp/thor/summary.txt
