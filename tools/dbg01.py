import sys, json, os, subprocess
sys.path.insert(0,'/verif/harness')
import numpy as np, common, c01, lexer, pgm
d=json.load(open(sys.argv[1])); c=d['input']
mat=np.array(c['matrix'],dtype=np.dtype(c['dtype']))
common.fresh_cwd('DBG')
text,raised,dwell=c01.run_impl(c['cfg'],mat,c['bare'])
lit=c01.case_literal(c['cfg'],mat,c['bare'],text,raised,dwell)
open('dbg.v','w').write('From Coq Require Import ZArith NArith QArith List Bool.\nImport ListNotations.\nFrom Femto Require Import Harness.C01 Base.Num Ctl.Tok Ctl.Machine Geo.Rigid Pgm.Ops.\nDefinition k : C01.case := %s.\nEval vm_compute in (C01.check k, C01.diff_at k).\nEval vm_compute in (match C01.model k with Written f _ _ => f | _ => [] end).\nEval vm_compute in (k_toks k).\n' % lit)
print(c['cfg'], 'bare', c['bare'], 'failed', d.get('failed'))
print(mat.T)
print(text)
print(subprocess.run(['coqc','-Q','/verif/coq/theories','Femto','dbg.v'],capture_output=True,text=True).stdout[:6000])
