#!/bin/sh
# tools/seed_check.sh <seed-dir> [Cxx ...] : run the quick check(s) against a seeded change WITHOUT touching /repo:
# the patch is applied in a scratch worktree (FEMTO_REPO) and the output goes to a scratch VERIF_OUT, so the registered
# evidence is not overwritten and several seeds can be evaluated at once.  (tools/run_seeded.py is the in-place variant.)
D=$(cd "$1" && pwd); shift
ID=$(basename "$D")
PROPS=${*:-$(python3 -c "import json;print(json.load(open('$D/meta.json'))['property'])" 2>/dev/null || echo "${ID%%-*}")}
WT=/tmp/seedrun/$ID; OUT=/tmp/seedrun/out_$ID
rm -rf "$OUT"; mkdir -p /tmp/seedrun "$OUT"
git -C /repo worktree remove --force "$WT" 2>/dev/null
git -C /repo worktree add -q --detach "$WT" HEAD || exit 2
( cd "$WT" && git apply "$D/patch.diff" ) || { echo "$ID PATCH DOES NOT APPLY"; git -C /repo worktree remove --force "$WT"; exit 2; }
for P in $PROPS; do
  out=$(FEMTO_REPO=$WT VERIF_OUT=$OUT timeout 3000 /verif/bin/check "$P" quick 2>&1); rc=$?
  nv=$(echo "$out" | grep -c '^VIOLATION'); nn=$(echo "$out" | grep '^VIOLATION' | grep -c 'no-failing-input-found')
  sig=$(python3 -c "import json;print(json.load(open('$OUT/evidence/$P.json'))['coverage'].get('violations_by_signature'))" 2>/dev/null)
  echo "SEED $ID $P rc=$rc violations=$nv no_input=$nn sig=$sig"
  echo "$out" | grep '^VIOLATION' | head -2
done
git -C /repo worktree remove --force "$WT"
rm -rf "$OUT"
