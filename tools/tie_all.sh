#!/bin/sh
# tools/tie_all.sh [femto src dir] : translate every group and compile every file of coq/tie in a scratch directory (all ties at once)
SRC=${1:-/repo/src/femto}
D=$(mktemp -d /tmp/tieall_XXXX)
cp /verif/coq/tie/*.v $D/
/venv/bin/python /verif/harness/py2coq.py $SRC $D pgm SrcLp.v SrcNw.v SrcTc.v SrcTr.v SrcWr.v SrcFc.v SrcAe.v SrcDev.v SrcHl.v SrcPa.v SrcTn.v SrcSs.v SrcUf.v SrcMk.v SrcAp.v SrcRi.v SrcLb.v SrcTp.v SrcWn.v SrcRp.v SrcRt.v || { echo "TRANSLATOR FAILED"; rm -rf $D; exit 1; }
cd $D
rc=0
for f in PyPrelude PgmState PureState TrState FcState AeState LineTok PgmSrc PgmEquiv SrcProps SrcLp EquivLp SrcNw EquivNw SrcTc EquivTc SrcTr EquivTr SrcWr EquivWr SrcFc EquivFc SrcAe EquivAe DevState SrcDev EquivDev SrcHl EquivHl PaState SrcPa EquivPa TnState SrcTn EquivTn SsState SrcSs EquivSs NpState SrcUf EquivUf MkState SrcMk EquivMk SrcAp EquivAp RiState SrcRi EquivRi LbState SrcLb EquivLb TpState SrcTp EquivTp WnState SrcWn EquivWn RpState SrcRp EquivRp RtState SrcRt EquivRt; do
  out=$(timeout 900 coqc -Q /verif/coq/theories Femto -Q $D FemtoTie -w -deprecated-hint-without-locality,-deprecated-instance-without-locality,-notation-overridden $f.v 2>&1)
  if [ $? -ne 0 ]; then echo "FAIL $f"; echo "$out" | head -15; rc=1; break; fi
  echo "$f ok: $(echo "$out" | grep -c 'Closed under') closed, $(echo "$out" | grep -c '^Axioms')  with axioms"
done
cd /; rm -rf $D
exit $rc
