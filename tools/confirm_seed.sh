#!/bin/sh
# tools/confirm_seed.sh Cxx [suffix]  - confirm a sub-agent's seeded change independently, then file it under /verif/seeded/
ID=$1; SUF=${2:-a}
WT=/tmp/mut/$ID; OUT=/tmp/mut/out_$ID
[ -f $OUT/patch.diff ] || { echo "no patch"; exit 2; }
# the patch must apply to a clean checkout of /repo HEAD
TMPW=/tmp/mut/confirm_$ID
rm -rf $TMPW; git -C /repo worktree add -q --detach $TMPW HEAD || exit 2
( cd $TMPW && git apply $OUT/patch.diff ) || { echo "PATCH DOES NOT APPLY"; git -C /repo worktree remove --force $TMPW; exit 2; }
echo "== test-suite with the change"
( cd $TMPW && PYTHONPATH=$TMPW/src timeout 1500 /venv/bin/python -m pytest -q -p no:cacheprovider --timeout=900 tests 2>&1 | grep -E "passed|failed|error" | tail -2 )
D=$(mktemp -d /tmp/mut/demo_XXXX)
echo "== demo with the change (must fail)"
( cd $D && PYTHONPATH=$TMPW/src MPLBACKEND=Agg timeout 600 /venv/bin/python $OUT/demo.py >/dev/null 2>$D/err.txt; echo "exit=$?"; tail -2 $D/err.txt )
rm -rf $D; D=$(mktemp -d /tmp/mut/demo_XXXX)
echo "== demo on the unchanged code (must pass)"
( cd $D && PYTHONPATH=/repo/src MPLBACKEND=Agg timeout 600 /venv/bin/python $OUT/demo.py >/dev/null 2>$D/err.txt; echo "exit=$?"; tail -2 $D/err.txt )
rm -rf $D
git -C /repo worktree remove --force $TMPW
case $ID in *B) DEST=/verif/seeded/${ID%B}-b;; *) DEST=/verif/seeded/$ID-$SUF;; esac
mkdir -p $DEST
cp $OUT/patch.diff $OUT/demo.py $OUT/notes.md $DEST/ 2>/dev/null
echo "filed under $DEST"
