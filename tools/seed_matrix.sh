#!/bin/sh
# tools/seed_matrix.sh - run every seeded change against the quick check of its property; one JSON line per seed in seeded/RESULTS.jsonl
cd /verif
: > seeded/RESULTS.jsonl
for d in seeded/C*-*; do
  p=$(python3 -c "import json,sys;print(json.load(open('$d/meta.json'))['property'])")
  out=$(python3 tools/run_seeded.py $d $p 2>&1 | tail -1)
  echo "{\"seed\": \"$(basename $d)\", \"run\": \"$(echo "$out" | cut -c1-700 | sed 's/\\/\\\\/g; s/"/\\"/g')\"}" >> seeded/RESULTS.jsonl
done
# restore the evidence files of the unchanged tree
for i in 01 02 03 04 05 06 07 08 09 10 11 12 13 14 15 16 17 18 19; do bin/check C$i quick 2>&1 | grep -E "VIOLATION|quick:"; done > .last_quick_pass.log 2>&1
