"""C13 - curves are sampled between one and two command-rate steps."""
from __future__ import annotations

import math

import numpy as np

import common
import pgm
from common import cq, cz, clist, copt, frac

ASSUMPTIONS = [
    'float division l_curve/dl may land on either side of an integer when the exact quotient is within 2^-40 of it; '
    'such cases are accepted with either neighbour and counted (near_int)',
    'stored coordinates are float32: spacing relations are checked within ~1e-6 relative to the coordinate magnitude',
    'S-bend length (get_sbend_parameter) and |delta_angle*r| are taken from femto/numpy as the segment length',
]


def num_case(rng):
    k = rng.random()
    if k < 0.45:      # exact multiples of a dyadic step: boundaries hit exactly
        rate = rng.choice([64, 256, 1024, 128])
        f = rng.choice([0.5, 1.0, 2.0, 4.0, 16.0])
        dl = f / rate
        mult = rng.choice([0, 0.5, 1, 1, 2, 2, 3, 7, 64, 1000]) + rng.choice([0, 0, 0, 2 ** -10, -2 ** -10, 0.25])
        ln = max(0.0, mult * dl)
    elif k < 0.9:
        rate = rng.choice([100, 1200, 1200, 5000, 37.5])
        f = rng.choice([0.1, 1.0, 5.0, 20.0, 33.3, 1e-6 * 1.5])
        ln = 10 ** rng.uniform(-5, 1.7)
    else:             # rejected speeds
        rate = 1200
        f = rng.choice([0.0, 1e-7, -1.0, 9.9e-7])
        ln = rng.choice([0.0, 1.0])
    return float(ln), float(f), float(rate)


def run(rep: common.Report, tier: str, seed: int):
    from femto.laserpath import LaserPath
    from femto.waveguide import Waveguide
    rng = common.rng_for(seed, 'C13', 'main')
    quick = tier == 'quick'
    cases, lits = [], []
    hist = {'kinds': {}, 'fallback': 0, 'rejected': 0, 'points': {}}

    def bump(k):
        hist['kinds'][k] = hist['kinds'].get(k, 0) + 1

    for _ in range(700 if quick else 8000):
        ln, f, rate = num_case(rng)
        per_call = rng.random() < 0.5
        fcall = f
        if per_call and rng.random() < 0.3:
            fcall = rng.choice([np.float32, np.float64])(f)       # a numpy scalar; the value that counts is the one passed
            f = float(fcall)
        lp = LaserPath(speed=(1.0 if per_call else f), cmd_rate_max=rate)
        if rng.random() < 0.3:
            # speed and cmd_rate_max are public attributes: set after a first count with other values
            lp = LaserPath(speed=rng.choice([2.0, 50.0]), cmd_rate_max=rng.choice([77, 2400]))
            with pgm.quiet():
                _ = (lp.num_subdivisions(1.0), lp.dl)
            lp.speed, lp.cmd_rate_max = (1.0 if per_call else f), rate
        with pgm.quiet():
            try:
                n = lp.num_subdivisions(ln, fcall if per_call else None)
            except ValueError:
                n = None
        cases.append({'kind': 'num', 'len': ln, 'f': f, 'rate': rate, 'per_call': per_call})
        lits.append('(CNum %s %s %s %s)' % (cq(frac(ln)), cq(frac(f)), cq(frac(rate)), copt(None if n is None else cz(n))))
        bump('num')
        hist['fallback'] += n == 3
        hist['rejected'] += n is None

    for _ in range(300 if quick else 4000):
        rate = rng.choice([40, 100, 250, 1200])
        speed = rng.choice([1.0, 5.0, 20.0])
        per_call = rng.choice([None, None, 10.0, 33.0])
        if per_call is not None and rng.random() < 0.4:
            # a numpy scalar (a speed read from an array): np.float32 / np.int64 are not python floats or ints
            per_call = rng.choice([np.float32, np.int64, np.float64])(per_call)
        f = float(per_call) if per_call is not None else speed
        radius = rng.choice([5.0, 15.0, 25.0, 40.0])
        wg = Waveguide(speed=speed, cmd_rate_max=rate, radius=radius)
        reset = rng.random() < 0.3
        if reset:
            wg = Waveguide(speed=rng.choice([2.0, 50.0]), cmd_rate_max=rng.choice([77, 2400]), radius=rng.choice([10.0, 60.0]))
        with pgm.quiet():
            wg.start([rng.choice([-2.0, 0.0, 1.5]), rng.choice([0.0, 0.25]), 0.035])
            if reset:
                # a first curved segment with other defaults, then the (public) defaults are re-assigned
                wg.arc_bend(0.03)
                _ = wg.dl
                wg.speed, wg.cmd_rate_max, wg.radius = speed, rate, radius
            n0 = wg._x.size
            k = rng.random()
            dy = rng.choice([0.03, -0.03, 0.0365, 0.2, -0.5, 1e-5])
            if k < 0.35:
                a0 = rng.uniform(0, 2 * math.pi)
                a1 = a0 + rng.choice([1, -1]) * 10 ** rng.uniform(-4, 0.3)
                r = rng.choice([None, 7.5])
                wg.circ(a0, a1, radius=r, speed=per_call)
                rr = r if r is not None else radius
                ln = float(np.fabs((a1 - a0) * rr))
                blocks = [('arc', ln, rr, n0, wg._x.size)]
            elif k < 0.5:
                r = rng.choice([None, 20.0])
                rr = r if r is not None else radius
                a, _dx = wg.get_sbend_parameter(dy, rr)
                wg.arc_bend(dy, radius=r, speed=per_call)
                # two arcs of angle a each; recompute the lengths as circ does
                if dy > 0:
                    l1 = float(np.fabs(((np.pi * 1.5 + a) - np.pi * 1.5) * rr))
                    l2 = float(np.fabs((np.pi * 0.5 - (np.pi * 0.5 + a)) * rr))
                else:
                    l1 = float(np.fabs(((np.pi * 0.5 - a) - np.pi * 0.5) * rr))
                    l2 = float(np.fabs((np.pi * 1.5 - (np.pi * 1.5 - a)) * rr))
                mid = None
                blocks = [('arc2', (l1, l2), rr, n0, wg._x.size)]
            elif k < 0.8:
                r = rng.choice([None, 20.0])
                rr = r if r is not None else radius
                disp = rng.choice([None, None, 1.5, 0.01])
                which = rng.choice(['sin_bridge', 'sin_bend', 'sin_comp'])
                if which == 'sin_bridge':
                    wg.sin_bridge(dy, dz=rng.choice([None, 0.01]), disp_x=disp, radius=r, speed=per_call)
                else:
                    getattr(wg, which)(dy, disp_x=disp, radius=r, speed=per_call)
                ln = float(disp if disp is not None else wg.get_sbend_parameter(dy, rr)[-1])
                blocks = [('x', ln, rr, n0, wg._x.size)]
            else:
                r = rng.choice([None, 20.0])
                rr = r if r is not None else radius
                disp = rng.choice([None, 1.5])
                dz = rng.choice([0.0, 0.02])
                wg.spline(dy, dz=dz, disp_x=disp, radius=r, speed=per_call)
                ln = float(disp if disp is not None else wg.get_sbend_parameter(np.sqrt(dy ** 2 + dz ** 2), rr)[-1])
                blocks = [('x', ln, rr, n0, wg._x.size)]
        for kind, ln, rr, i0, i1 in blocks:
            if kind == 'arc2':
                # split the two-arc block with the model-independent rule: first arc has num_subdivisions(l1) points
                with pgm.quiet():
                    n1 = wg.num_subdivisions(ln[0], f)
                parts = [('arc', ln[0], i0, i0 + n1), ('arc', ln[1], i0 + n1, i1)]
            else:
                parts = [(kind, ln, i0, i1)]
            for kd, l, a, b in parts:
                if b - a > 1500:           # very long blocks are counted, not shipped to the model
                    hist['skipped_long'] = hist.get('skipped_long', 0) + 1
                    continue
                xs = [float(v) for v in wg._x[a:b]]
                ys = [float(v) for v in wg._y[a:b]]
                cases.append({'kind': kd, 'len': l, 'f': f, 'rate': rate, 'r': rr, 'n': b - a})
                hist['points'][min(b - a, 256)] = hist['points'].get(min(b - a, 256), 0) + 1
                if kd == 'arc':
                    lits.append('(CArc %s %s %s %s %s)' % (cq(frac(l)), cq(frac(f)), cq(frac(rate)), cq(frac(rr)),
                                                         clist('(%s, %s)' % (cq(frac(x)), cq(frac(y))) for x, y in zip(xs, ys))))
                else:
                    lits.append('(CX %s %s %s %s)' % (cq(frac(l)), cq(frac(f)), cq(frac(rate)), clist(cq(frac(x)) for x in xs)))
                bump(kd)
                hist['fallback'] += (b - a) == 3

    fails = common.run_model('C13', 'Harness.C13', 'C13.case', 'C13.failing', lits, shard=120)
    for idx, code in fails:
        c = cases[idx]
        what = []
        if code & 1:
            what.append('count')
        if code & 2:
            what.append('spacing')
        rep.violation(f'C13/{c["kind"]}/' + '+'.join(what),
                      'number of samples / spacing differs from ceil(len/dl) sampling: ' + '+'.join(what), {'input': c})
    seen = set()
    nt = 0
    for c in cases:
        h = common.digest(c)
        if h in seen:
            continue
        seen.add(h)
        if c['kind'] != 'num' and c['n'] >= 4:
            nt += 1
        if c['kind'] == 'num' and c['f'] >= 1e-6 and c['len'] > 4 * c['f'] / c['rate']:
            nt += 1
    rep.coverage.update({
        'evaluations': len(cases), 'distinct_nontrivial': nt,
        'rule': 'case = num_subdivisions(len, f, rate) or a curved primitive block; non-trivial when >= 4 samples',
        'samples': [cases[0], cases[len(cases) // 2], cases[-1]],
        'traces_validated_against_impl': len(cases), 'disagreements_checked': len(fails), 'distribution': hist,
    })


def replay(data):
    return common.replay_by_rerun('C13', data, run)
