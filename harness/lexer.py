"""Fail-closed lexer for the Aerotech dialect femto emits: one token per non-blank, non-comment line.

Tokens are rendered as Gallina terms of Femto.Ctl.Tok.tok.  Numbers become integers in nano units
(10^-9); anything that is not a plain fixed-point number with <= 9 decimals (nan, inf, exponents, too
many digits) makes the line TUnknown, hence a well-formedness error in the controller, never a
silent pass.  Strings are interned (case-sensitively) to N; variable names case-insensitively.
"""
from __future__ import annotations

import pathlib
import re
from fractions import Fraction

from common import cz, cn, cb, clist, copt, cq

NUM = r'[-+]?\d+(?:\.\d*)?'
_num_re = re.compile(r'^' + NUM + r'$')
SETUP_WORDS = ('ENABLE', 'METRIC', 'SECONDS', 'G359', 'G17', 'VELOCITY', 'WAIT MODE', 'PSOOUTPUT')


class Interner:
    def __init__(self):
        self.tab: dict[str, int] = {}

    def __call__(self, s: str) -> int:
        if s not in self.tab:
            self.tab[s] = len(self.tab) + 1
        return self.tab[s]

    def var(self, s: str) -> int:
        return self('$' + s.lower())


def nano(s: str):
    """'12.345' -> (12345000000, 3) ; None if not a fixed-point literal with <= 9 decimals."""
    if not _num_re.match(s):
        return None
    nd = len(s.split('.')[1]) if '.' in s else 0
    if nd > 9:
        return None
    return int(Fraction(s) * 10 ** 9), nd


def dec_fraction(s: str):
    """value of a decimal/float literal as printed by repr (may have an exponent); None if not finite"""
    try:
        f = Fraction(s)
    except (ValueError, ZeroDivisionError):
        return None
    return f


class Tok:
    """a token as (gallina text, kind) with a few parsed fields for the Python-side bookkeeping"""
    def __init__(self, text: str, kind: str, **kw):
        self.text, self.kind = text, kind
        self.__dict__.update(kw)

    def __repr__(self):
        return self.text


def _coord(word: str, intern: Interner):
    """X-word payload: number or $VAR. Returns (gallina, nd) or None."""
    if word.startswith('$'):
        return f'(CVar {cn(intern.var(word[1:]))})', None
    r = nano(word)
    if r is None:
        return None
    return f'(CNum {cz(r[0])})', r[1]


def lex_line(line: str, intern: Interner) -> Tok | None:
    s = line.strip()
    if ';' in s:
        s = s.split(';', 1)[0].strip()
    if not s:
        return None
    up = s.upper()
    unknown = Tok('TUnknown', 'unknown', src=s)

    for w in SETUP_WORDS:
        if up == w or up.startswith(w + ' '):
            return Tok('TSetup', 'setup')
    m = re.match(r'^PSOCONTROL\s+([XZ])\s+(RESET|ON|OFF)$', up)
    if m:
        if m.group(2) == 'RESET':
            return Tok('TSetup', 'setup')
        return Tok(f'(TPso {cb(m.group(1) == "Z")} {cb(m.group(2) == "ON")})', 'pso', on=m.group(2) == 'ON')
    if up == 'ABSOLUTE':
        return Tok('(TMode true)', 'mode')
    if up == 'INCREMENTAL':
        return Tok('(TMode false)', 'mode')
    m = re.match(r'^DWELL\s+(\S+)$', up)
    if m:
        f = dec_fraction(m.group(1))
        if f is None or f < 0:
            return unknown
        return Tok(f'(TDwell {cq(f)})', 'dwell', value=f)
    m = re.match(r'^REPEAT\s+(-?\d+)$', up)
    if m:
        return Tok(f'(TRepeat {cz(int(m.group(1)))})', 'repeat')
    if up == 'ENDREPEAT':
        return Tok('TEndRepeat', 'endrepeat')
    m = re.match(r'^FOR\s+\$(\w+)\s*=\s*(-?\d+)\s+TO\s+(-?\d+)$', up)
    if m:
        return Tok(f'(TFor {cn(intern.var(m.group(1)))} {cz(int(m.group(2)))} {cz(int(m.group(3)))})', 'for')
    m = re.match(r'^NEXT\s+\$(\w+)$', up)
    if m:
        return Tok(f'(TNext {cn(intern.var(m.group(1)))})', 'next')
    m = re.match(r'^DVAR((?:\s+\$\w+)*)$', up)
    if m:
        vs = re.findall(r'\$(\w+)', m.group(1))
        return Tok(f'(TDvar {clist(cn(intern.var(v)) for v in vs)})', 'dvar')
    m = re.match(r'^\$(\w+)\s*=\s*(' + NUM + r')$', s)
    if m:
        r = nano(m.group(2))
        if r is None:
            return unknown
        return Tok(f'(TAssign {cn(intern.var(m.group(1)))} (ELit {cz(r[0])}))', 'assign')
    m = re.match(r'^\$(\w+)\s*=\s*\$(\w+)\s*\+\s*(' + NUM + r')$', s)
    if m:
        r = nano(m.group(3))
        if r is None:
            return unknown
        return Tok(f'(TAssign {cn(intern.var(m.group(1)))} (EPlus {cn(intern.var(m.group(2)))} {cz(r[0])}))', 'assign')
    m = re.match(r'^G92((?:\s+[XYZ]\S+)+)$', s)
    if m:
        vals, nds = {}, set()
        for w in m.group(1).split():
            r = nano(w[1:])
            if r is None or w[0] in vals:
                return unknown
            vals[w[0]] = r[0]
            nds.add(r[1])
        nd = nds.pop() if len(nds) == 1 else -1
        return Tok('(TG92 %s %s %s %s)' % (cz(nd), *(copt(None if a not in vals else cz(vals[a])) for a in 'XYZ')), 'g92')
    m = re.match(r'^G84\s+X\s+Y(?:\s+F(\S+))?$', s)
    if m:
        if m.group(1) is not None and dec_fraction(m.group(1)) is None:
            return unknown
        return Tok(f'(TG84 {cb(m.group(1) is not None)})', 'g84')
    m = re.match(r'^PROGRAM\s+(-?\d+)\s+LOAD\s+"([^"]*)"$', s)
    if m:
        p = m.group(2)
        return Tok(f'(TLoad {cz(int(m.group(1)))} {cn(intern(p))} {cn(intern(pathlib.PurePosixPath(p).name))})', 'load',
                   path=p)
    m = re.match(r'^PROGRAM\s+(-?\d+)\s+STOP$', s)
    if m:
        return Tok(f'(TStop {cz(int(m.group(1)))})', 'stop')
    m = re.match(r'^WAIT\s+\(TASKSTATUS\((-?\d+),\s*DATAITEM_TaskState\)\s*==\s*TASKSTATE_Idle\)\s*-1$', s)
    if m:
        return Tok(f'(TWait {cz(int(m.group(1)))})', 'wait')
    m = re.match(r'^REMOVEPROGRAM\s+"([^"]*)"$', s)
    if m:
        return Tok(f'(TRemove {cn(intern(pathlib.PurePosixPath(m.group(1)).name))})', 'remove')
    m = re.match(r'^FARCALL\s+"([^"]*)"$', s)
    if m:
        p = m.group(1)
        return Tok(f'(TFarcall {cn(intern(p))} {cn(intern(pathlib.PurePosixPath(p).name))})', 'farcall', path=p)
    m = re.match(r'^PROGRAM\s+(-?\d+)\s+BUFFEREDRUN\s+"([^"]*)"$', s)
    if m:
        p = m.group(2)
        return Tok(f'(TBuffered {cz(int(m.group(1)))} {cn(intern(p))} {cn(intern(pathlib.PurePosixPath(p).name))})',
                   'buffered')
    if up.startswith('MSGDISPLAY') or up.startswith('MSGCLEAR'):
        return Tok('TMsg', 'msg')

    # motion words:  [G9] (G1|LINEAR) X.. Y.. Z.. U.. F..   or a bare F-word
    words = s.split()
    g9 = False
    if words and words[0].upper() == 'G9':
        g9 = True
        words = words[1:]
    if words and words[0].upper() in ('G1', 'LINEAR'):
        words = words[1:]
        if not words:
            return unknown
    elif not (words and not g9 and len(words) == 1 and words[0][0] == 'F'):
        return unknown
    vals, nds = {}, set()
    for w in words:
        a = w[0].upper()
        if a not in 'XYZUF' or a in vals or len(w) < 2:
            return unknown
        if a in 'XYZ':
            r = _coord(w[1:], intern)
            if r is None:
                return unknown
            vals[a] = r[0]
            if r[1] is not None:
                nds.add(r[1])
        else:
            r = nano(w[1:])
            if r is None:
                return unknown
            vals[a] = cz(r[0])
            nds.add(r[1])
    nd = nds.pop() if len(nds) == 1 else (-1 if nds else 0)
    return Tok('(TG1 %s %s %s %s %s %s %s)' % (cb(g9), cz(nd), *(copt(vals.get(a)) for a in 'XYZUF')), 'g1')


def lex(text: str, intern: Interner) -> list[Tok]:
    out: list[Tok] = []
    for line in text.splitlines():
        t = lex_line(line, intern)
        if t is None:
            continue
        if t.kind == 'setup' and out and out[-1].kind == 'setup':
            continue   # a block of set-up lines is one token
        out.append(t)
    return out


def toks_literal(toks) -> str:
    return clist(t.text for t in toks)
