"""Shared machinery of the femto verification harness.

Runs under /venv/bin/python with PYTHONPATH=/repo/src (see bin/check), so `import femto` is the
current working tree of /repo.  The Coq side is /verif/coq (built by `make`); cases are shipped to the
model as generated `cases_*.v` files that are evaluated with `vm_compute` inside coqc.
"""
from __future__ import annotations

import concurrent.futures
import hashlib
import json
import os
import pathlib
import random
import re
import shutil
import subprocess
import sys
import time
from fractions import Fraction

VERIF = pathlib.Path(__file__).resolve().parents[1]
# FEMTO_REPO / VERIF_OUT are used only by tools/run_seeded.py (a seeded change applied in a scratch worktree, output kept
# apart from the registered evidence); the registered checks run with the defaults: /repo and /verif
REPO = pathlib.Path(os.environ.get('FEMTO_REPO') or '/repo')
COQ = VERIF / 'coq'
OUT = pathlib.Path(os.environ.get('VERIF_OUT') or VERIF)
WORK = OUT / '.work'
REPLAYS = OUT / 'replays'
EVIDENCE = OUT / 'evidence'
KNOWN = VERIF / 'known_findings.json'

AXIOM_WHITELIST = {
    'ClassicalDedekindReals.sig_forall_dec',
    'ClassicalDedekindReals.sig_not_dec',
    'FunctionalExtensionality.functional_extensionality_dep',
    'Classical_Prop.classic',
}
FORBIDDEN = re.compile(
    r'\b(Admitted|admit|Axiom|Axioms|Parameter|Parameters|Conjecture|Hypothesis|Variable|Variables|Hypotheses)\b'
    r'|Unset\s+Guard|bypass_check|type-in-type|impredicative-set|Admit\s+Obligations'
)


class Broken(Exception):
    """An obligation of the machinery itself failed (build, proof, correspondence plumbing)."""


# ----------------------------------------------------------------------------------------------
# Gallina literal rendering

def cz(n: int) -> str:
    n = int(n)
    return f'({n})%Z' if n < 0 else f'{n}%Z'


def cn(n: int) -> str:
    n = int(n)
    assert n >= 0
    return f'{n}%N'


def cnat(n: int) -> str:
    n = int(n)
    assert 0 <= n < 5000, n
    return f'{n}%nat'


def cb(b) -> str:
    return 'true' if b else 'false'


def clist(items) -> str:
    items = list(items)
    return '[' + '; '.join(items) + ']'


def cpair(*xs) -> str:
    return '(' + ', '.join(xs) + ')'


def copt(x) -> str:
    return 'None' if x is None else f'(Some {x})'


def cq(fr) -> str:
    """Exact rational literal  (n # d)  in Q_scope."""
    fr = Fraction(fr)
    n, d = fr.numerator, fr.denominator
    return f'(({n})%Z # {d}%positive)' if n < 0 else f'({n}%Z # {d}%positive)'


def frac(x) -> Fraction:
    """Exact value of a Python/numpy float."""
    return Fraction(float(x))


# ----------------------------------------------------------------------------------------------
# Building and proof obligations

def sh(cmd, timeout, cwd=None, env=None):
    p = subprocess.run(cmd, cwd=cwd, env=env, stdout=subprocess.PIPE, stderr=subprocess.STDOUT,
                       timeout=timeout, text=True)
    return p.returncode, p.stdout


def build_coq():
    """Full .vo build of the development (no-op when up to date). Returns (ok, log)."""
    if not (COQ / 'Makefile').exists():
        rc, out = sh(['coq_makefile', '-f', '_CoqProject', '-o', 'Makefile'], 120, cwd=COQ)
        if rc != 0:
            return False, out
    rc, out = sh(['timeout', '3000', 'make', '-j16'], 3100, cwd=COQ)
    return rc == 0, out


def scan_forbidden():
    hits = []
    for p in sorted(list((COQ / 'theories').rglob('*.v')) + list((COQ / 'tie').glob('*.v'))):
        txt = p.read_text()
        # strip comments (non-nested is enough: we do not nest)
        txt_nc = re.sub(r'\(\*.*?\*\)', lambda m: '\n' * m.group(0).count('\n'), txt, flags=re.S)
        in_section = 0
        for ln, line in enumerate(txt_nc.splitlines(), 1):
            if re.match(r'\s*Section\b', line):
                in_section += 1
            if re.match(r'\s*End\b', line) and in_section:
                in_section -= 1
            for m in FORBIDDEN.finditer(line):
                w = m.group(0)
                # Section-local Context/Variable/Hypothesis are not declarations of axioms
                if w in ('Hypothesis', 'Variable', 'Variables', 'Hypotheses') and in_section:
                    continue
                hits.append(f'{p.relative_to(COQ)}:{ln}: {w}')
    return hits


def check_props(prop: str):
    """Recompile Props/<prop>.v, capture Print Assumptions. Returns dict."""
    src = COQ / 'theories' / 'Props' / f'{prop}.v'
    if not src.exists():
        raise Broken(f'missing {src}')
    text = src.read_text()
    theorems = re.findall(r'^\s*(?:Theorem|Corollary|Lemma)\s+([A-Za-z_][\w\']*)', text, flags=re.M)
    printed = re.findall(r'^\s*Print Assumptions\s+([A-Za-z_][\w\']*)\s*\.', text, flags=re.M)
    rc, out = sh(['timeout', '600', 'coqc', '-Q', 'theories', 'Femto',
                  '-w', '-deprecated-hint-without-locality,-deprecated-instance-without-locality,-notation-overridden',
                  str(src.relative_to(COQ))], 650, cwd=COQ)
    res = {'theorems': theorems, 'printed': printed, 'ok': rc == 0, 'log': out[-4000:], 'axioms': {}, 'bad_axioms': []}
    if rc != 0:
        return res
    # split output in blocks, one per Print Assumptions, in order
    blocks = re.split(r'^(?=Closed under the global context|Axioms:)', out, flags=re.M)
    blocks = [b for b in blocks if b.startswith('Closed under') or b.startswith('Axioms:')]
    if len(blocks) != len(printed):
        res['ok'] = False
        res['log'] = f'expected {len(printed)} assumption blocks, got {len(blocks)}\n' + out[-3000:]
        return res
    for name, b in zip(printed, blocks):
        if b.startswith('Closed under'):
            res['axioms'][name] = []
        else:
            ax = re.findall(r'^([A-Za-z_][\w.\']*)\s*(?::|$)', b, flags=re.M)
            ax = [a for a in ax if a != 'Axioms']
            res['axioms'][name] = ax
            for a in ax:
                if a not in AXIOM_WHITELIST:
                    res['bad_axioms'].append((name, a))
    missing = [t for t in theorems if t not in printed]
    if missing:
        res['ok'] = False
        res['log'] = f'theorems without Print Assumptions: {missing}'
    if res['bad_axioms']:
        res['ok'] = False
        res['log'] = f'axioms outside the whitelist: {res["bad_axioms"]}'
    return res


# ----------------------------------------------------------------------------------------------
# Running the model on cases

_FAIL_RE = re.compile(r'\((\d+)%N,\s*(\d+)%N\)')


def _run_shard(args):
    path, timeout = args
    t0 = time.time()
    try:
        rc, out = sh(['sh', '-c', 'ulimit -s unlimited 2>/dev/null; exec coqc -Q "$0" Femto -w -all "$1"',
                      str(COQ / 'theories'), path.name], timeout, cwd=path.parent)
    except subprocess.TimeoutExpired:
        return path, None, f'timeout after {timeout}s', time.time() - t0
    if rc != 0:
        return path, None, f'coqc exit code {rc}: ' + out[-3000:], time.time() - t0
    return path, out, None, time.time() - t0


def run_model(prop: str, module: str, case_type: str, fn: str, literals: list[str], shard: int = 300,
              timeout: int = 900, tag: str = 'cases', extra_imports: str = '') -> list[tuple[int, int]]:
    """Evaluate `fn : list case_type -> list (N*N)` (index, code) over the literals.

    `fn` must be `failing`-style: it numbers cases from 0 within the list it is given and returns only the
    failing ones with a non-zero code.  Returns global (index, code) pairs.
    """
    d = WORK / prop / tag
    if d.exists():
        shutil.rmtree(d)
    d.mkdir(parents=True)
    # shards are cut by number of cases and by size of their literals, so that one coqc process stays small
    jobs, starts = [], []
    max_bytes = 400_000
    k = 0
    while k < len(literals):
        n, size = 0, 0
        while k + n < len(literals) and n < shard and (n == 0 or size + len(literals[k + n]) <= max_bytes):
            size += len(literals[k + n])
            n += 1
        chunk = literals[k:k + n]
        name = f'{tag}_{len(jobs):04d}'
        p = d / f'{name}.v'
        body = ';\n  '.join(chunk)
        p.write_text(
            'From Coq Require Import ZArith NArith QArith List Bool String.\nImport ListNotations.\n'
            f'From Femto Require Import {module}.\n{extra_imports}\n'
            f'Definition cases : list ({case_type}) := [\n  {body}\n].\n'
            f'Eval vm_compute in ({fn} cases).\n')
        jobs.append((p, timeout))
        starts.append(k)
        k += n
    fails: list[tuple[int, int]] = []
    with concurrent.futures.ThreadPoolExecutor(max_workers=14) as ex:
        for path, out, err, dt in ex.map(_run_shard, jobs):
            if err is not None:
                raise Broken(f'model evaluation failed on {path}: {err}')
            j = int(path.stem.split('_')[-1])
            m = re.search(r'=\s*(\[.*?\])\s*:\s*list', out, flags=re.S)
            if not m:
                raise Broken(f'cannot parse model output of {path}: {out[-500:]}')
            for i, c in _FAIL_RE.findall(m.group(1)):
                fails.append((starts[j] + int(i), int(c)))
    shutil.rmtree(d, ignore_errors=True)
    return sorted(fails)


# ----------------------------------------------------------------------------------------------
# Known findings, violations, evidence

def load_known(prop: str):
    if not KNOWN.exists():
        return []
    data = json.loads(KNOWN.read_text())
    return [e for e in data.get('findings', []) if e.get('property') == prop]


class Report:
    def __init__(self, prop: str, tier: str, seed: int):
        self.prop, self.tier, self.seed = prop, tier, seed
        self.t0 = time.time()
        self.violations = 0
        self.known_hits: dict[str, int] = {}
        self.per_key: dict[str, int] = {}
        self.coverage: dict = {}
        self.assumptions: list[str] = []
        self.known = load_known(prop)
        self._nrep = 0
        REPLAYS.mkdir(parents=True, exist_ok=True)

    def violation(self, key: str, what: str, replay: dict, no_input: bool = False):
        """Report a failing case. `key` is the failure signature matched against known findings."""
        for e in self.known:
            if e.get('status', 'open') == 'open' and e['key'] == key:
                if key not in self.known_hits:
                    print(f'KNOWN-FINDING: property={self.prop} {e["what"]}', flush=True)
                self.known_hits[key] = self.known_hits.get(key, 0) + 1
                return
        self.violations += 1
        self.per_key[key] = self.per_key.get(key, 0) + 1
        if self.per_key[key] > 3:      # further cases of the same signature are counted, not written out
            return
        self._nrep += 1
        path = REPLAYS / f'{self.prop}-{self.tier}-{self.seed}-{self._nrep}.json'
        replay = dict(replay, property=self.prop, key=key, what=what, seed=self.seed, tier=self.tier,
                      replay_cmd=f'{VERIF}/bin/check {self.prop} --replay {path}')
        path.write_text(json.dumps(replay, indent=1, default=str))
        tail = ' no-failing-input-found' if no_input else ''
        print(f'VIOLATION property={self.prop} replay={path} {what}{tail}', flush=True)

    def finish(self, proof: dict | None, extra_assumptions=()):
        cov = self.coverage
        for k in ('evaluations', 'distinct_nontrivial'):          # counts may have been summed over numpy scalars
            if k in cov and not isinstance(cov[k], int):
                cov[k] = int(cov[k])
        if proof is not None:
            cov['obligations'] = len(proof['theorems'])
            cov['discharged'] = (len(proof['theorems']) - proof.get('undischarged', 0)) if proof['ok'] else 0
            cov['checker_cmd'] = f'make -C {COQ} && coqc -Q theories Femto theories/Props/{self.prop}.v (Print Assumptions per theorem)'
            tb = ['Coq 8.16.1 kernel (coqc; vm_compute used for model evaluation and *_refuted witnesses)',
                  'hand-written Gallina model tied to /repo by the correspondence run of this check',
                  'harness/*.py (generators, canonicalisation, lexer)']
            for t, ax in proof['axioms'].items():
                tb.append(f'{t}: ' + ('closed under the global context' if not ax else 'axioms ' + ', '.join(ax)))
            if proof.get('source_tie'):
                cov['source_tie'] = proof['source_tie']
                tb.append('source tie: harness/py2coq.py translated %s from %s on this run (sha1 of the generated file: %s); the Equiv file of '
                          'coq/tie proves it equivalent to the hand-written model; trusted: the translator, coq/tie/PyPrelude.v + PgmState.v + '
                          'PureState.v (meaning of the Python subset, hand-given callees transform_points / _get_filepath / header file / close), '
                          'coq/tie/LineTok.v (template table)' % (proof['source_tie'].get('generated'), proof['source_tie'].get('source'),
                                                                  proof['source_tie'].get('generated_sha1')))
            if proof.get('coqchk'):
                tb.append('coqchk -o (independent checker) accepted Props/%s.vo; axioms of all loaded libraries: %s' % (
                    self.prop, ', '.join(proof['coqchk']['axioms_of_all_loaded_libraries']) or 'none'))
                cov['coqchk'] = proof['coqchk']
            cov['trusted_base'] = tb
        cov.setdefault('evaluations', 0)
        cov.setdefault('distinct_nontrivial', 0)
        cov['known_findings_hit'] = self.known_hits
        cov['violations_by_signature'] = self.per_key
        ev = {
            'property_id': self.prop, 'tier': self.tier, 'seed': self.seed, 'level': 'proof',
            'coverage': cov, 'assumptions': list(self.assumptions) + list(extra_assumptions),
            'wall_s': round(time.time() - self.t0, 2), 'violations': self.violations,
        }
        EVIDENCE.mkdir(parents=True, exist_ok=True)
        (EVIDENCE / f'{self.prop}.json').write_text(json.dumps(ev, indent=1, default=str))
        return 1 if self.violations else 0


class ScratchReport(Report):
    """a Report that writes nothing: used to replay a stored violation by re-running the deterministic case stream"""

    def __init__(self, prop, tier, seed):
        super().__init__(prop, tier, seed)
        self.seen = []

    def violation(self, key, what, replay, no_input=False):
        for e in self.known:
            if e.get('status', 'open') == 'open' and e['key'] == key:
                return
        self.violations += 1
        self.seen.append((key, digest(replay.get('input', replay))))

    def finish(self, proof, extra_assumptions=()):
        return 1 if self.violations else 0


def replay_by_rerun(prop: str, data: dict, run) -> int:
    """All inputs of a check derive from one PRNG (seed, property, stream): the stored violation is replayed by running the
    same tier with the same seed and looking for the same failure signature on the same input. Exit 1 = it fails again."""
    seed, tier = int(data.get('seed', 0)), data.get('tier', 'quick')
    rep = ScratchReport(prop, tier, seed)
    fresh_cwd(prop)
    run(rep, tier, seed)
    want_key = data.get('key')
    want_in = digest(data['input']) if 'input' in data else None
    same_key = [k for k, _ in rep.seen if k == want_key]
    same_input = [k for k, d in rep.seen if k == want_key and (want_in is None or d == want_in)]
    print(f'replay: seed={seed} tier={tier}: {len(rep.seen)} violation(s); signature {want_key!r} seen {len(same_key)} time(s), '
          f'on the stored input {len(same_input)} time(s)')
    print('replay:', 'FAILS' if same_key else 'passes')
    return 1 if same_key else 0


def digest(obj) -> str:
    return hashlib.sha1(json.dumps(obj, sort_keys=True, default=str).encode()).hexdigest()


def rng_for(seed: int, prop: str, stream: str) -> random.Random:
    h = hashlib.sha256(f'{seed}/{prop}/{stream}'.encode()).digest()
    return random.Random(int.from_bytes(h[:8], 'big'))


def fresh_cwd(prop: str) -> pathlib.Path:
    d = WORK / prop / 'cwd'
    if d.exists():
        shutil.rmtree(d)
    d.mkdir(parents=True)
    os.chdir(d)
    return d


def run_coqchk(prop: str) -> dict:
    """independent re-check of Props/<prop>.vo and everything it depends on; axioms of all loaded libraries (coqchk -o)"""
    r = subprocess.run(['timeout', '2400', 'coqchk', '-silent', '-o', '-Q', 'theories', 'Femto', f'Femto.Props.{prop}'],
                       cwd=str(COQ), capture_output=True, text=True)
    out = r.stdout + r.stderr
    res = {'ok': r.returncode == 0, 'axioms': [], 'unsafe': [], 'log': out[-2500:]}
    section = None
    for ln in out.splitlines():
        t = ln.strip()
        if t.startswith('* '):
            section = t[2:].split(':')[0]
            rest = t.split(':', 1)[1].strip() if ':' in t else ''
            if rest and rest != '<none>' and section != 'Theory':
                (res['axioms'] if section == 'Axioms' else res['unsafe']).append(rest)
        elif t and section in ('Axioms',):
            res['axioms'].append(t)
        elif t and section and section.startswith(('Constants/Inductives', 'Inductives whose')):
            res['unsafe'].append(t)
    res['bad_axioms'] = [a for a in res['axioms'] if not any(a == w or a.endswith('.' + w) for w in AXIOM_WHITELIST)]
    if res['bad_axioms'] or res['unsafe']:
        res['ok'] = False
    return res


# ----------------------------------------------------------------------------------------------
# Source tie: PGMCompiler's methods are translated from /repo's source on every run (harness/py2coq.py) and the equivalence
# with the hand-written model (coq/tie/PgmEquiv.v) and the source-level statements (coq/tie/SrcProps.v) are re-checked.

# property -> (translator group, files to compile in order, file holding the Print Assumptions statements)
_PGM = ('pgm', ['PyPrelude', 'PgmState', 'LineTok', 'PgmSrc', 'PgmEquiv', 'SrcProps'], 'SrcProps')
TIES = {
    'C01': _PGM, 'C03': _PGM, 'C12': _PGM,
    'C13': ('SrcLp.v', ['PyPrelude', 'PgmState', 'PureState', 'SrcLp', 'EquivLp'], 'EquivLp'),
    'C08': [('SrcNw.v', ['PyPrelude', 'PgmState', 'PureState', 'SrcNw', 'EquivNw'], 'EquivNw'),
            ('SrcWr.v', ['PyPrelude', 'PgmState', 'PureState', 'LineTok', 'PgmSrc', 'PgmEquiv', 'SrcWr', 'EquivWr'], 'EquivWr'),
            ('SrcWn.v', ['PyPrelude', 'PgmState', 'WnState', 'SrcWn', 'EquivWn'], 'EquivWn')],
    'C05': ('SrcTc.v', ['PyPrelude', 'PgmState', 'PureState', 'SrcTc', 'EquivTc'], 'EquivTc'),
    'C06': [('SrcTc.v', ['PyPrelude', 'PgmState', 'PureState', 'SrcTc', 'EquivTc'], 'EquivTc'),
            ('SrcFc.v', ['PyPrelude', 'PgmState', 'PureState', 'LineTok', 'PgmSrc', 'PgmEquiv', 'FcState', 'SrcFc', 'EquivFc'], 'EquivFc'),
            ('SrcTn.v', ['PyPrelude', 'PgmState', 'TnState', 'SrcTn', 'EquivTn'], 'EquivTn')],
    'C16': [('SrcDev.v', ['PyPrelude', 'PgmState', 'AeState', 'SrcAe', 'EquivAe', 'DevState', 'SrcDev', 'EquivDev'], ['EquivAe', 'EquivDev']),
            ('SrcHl.v', ['PyPrelude', 'PgmState', 'AeState', 'SrcHl', 'EquivHl'], 'EquivHl')],
    'C10': [('SrcAp.v', ['PyPrelude', 'PgmState', 'NpState', 'SrcAp', 'EquivAp'], 'EquivAp'),
            # the raster builder stores through add_path only (its loop: C15)
            ('SrcRi.v', ['PyPrelude', 'PgmState', 'NpState', 'SrcUf', 'EquivUf', 'RiState', 'SrcRi', 'EquivRi'], 'EquivRi')],
    'C11': ('SrcUf.v', ['PyPrelude', 'PgmState', 'NpState', 'SrcUf', 'EquivUf'], 'EquivUf'),
    'C02': ('SrcTp.v', ['PyPrelude', 'PgmState', 'TpState', 'SrcTp', 'EquivTp'], 'EquivTp'),
    'C17': ('SrcTp.v', ['PyPrelude', 'PgmState', 'TpState', 'SrcTp', 'EquivTp'], 'EquivTp'),
    'C04': ('SrcLb.v', ['PyPrelude', 'PgmState', 'LbState', 'SrcLb', 'EquivLb'], 'EquivLb'),
    'C14': [('SrcMk.v', ['PyPrelude', 'PgmState', 'MkState', 'SrcMk', 'EquivMk'], 'EquivMk'),
            ('SrcLb.v', ['PyPrelude', 'PgmState', 'LbState', 'SrcLb', 'EquivLb'], 'EquivLb')],
    'C15': ('SrcRi.v', ['PyPrelude', 'PgmState', 'NpState', 'SrcUf', 'EquivUf', 'RiState', 'SrcRi', 'EquivRi'], 'EquivRi'),
    'C18': ('SrcSs.v', ['PyPrelude', 'PgmState', 'SsState', 'SrcSs', 'EquivSs'], 'EquivSs'),
    'C19': ('SrcPa.v', ['PyPrelude', 'PgmState', 'PaState', 'SrcPa', 'EquivPa'], 'EquivPa'),
    'C09': [('SrcRp.v', ['PyPrelude', 'PgmState', 'RpState', 'SrcRp', 'EquivRp'], 'EquivRp'),
            # each writer stores the estimate of an export on every export (WFab; nothing stored under `if verbose`)
            ('SrcWn.v', ['PyPrelude', 'PgmState', 'WnState', 'SrcWn', 'EquivWn'], 'EquivWn'),
            ('SrcTn.v', ['PyPrelude', 'PgmState', 'TnState', 'SrcTn', 'EquivTn'], 'EquivTn'),
            # Trench.toolpath restarts both lengths before reading either
            ('SrcRt.v', ['PyPrelude', 'PgmState', 'TrState', 'RtState', 'SrcRt', 'EquivRt'], 'EquivRt')],
    'C07': ('SrcTr.v', ['PyPrelude', 'PgmState', 'TrState', 'SrcTr', 'EquivTr'], 'EquivTr'),
}
TIE_NEEDS = {'SrcWr.v': ['pgm'], 'SrcFc.v': ['pgm'], 'SrcDev.v': ['SrcAe.v'], 'SrcRi.v': ['SrcUf.v']}      # other generated files a group builds on
TIE_PROPS = set(TIES)
COQ_W = '-deprecated-hint-without-locality,-deprecated-instance-without-locality,-notation-overridden'


def source_tie_group(rep: Report, prop: str, group: str, tie_files: list, stmt_file: str) -> dict:
    """Returns {'ok', 'stage', 'log', 'theorems', 'axioms'}; reports a no-failing-input violation when the tie breaks."""
    d = WORK / prop / ('tie_' + group.replace('.v', ''))
    if d.exists():
        shutil.rmtree(d)
    d.mkdir(parents=True)
    for f in (COQ / 'tie').glob('*.v'):
        shutil.copy(f, d / f.name)
    src = REPO / 'src' / 'femto'
    gen_name = 'PgmSrc.v' if group == 'pgm' else group
    res = {'ok': False, 'stage': 'translate', 'log': '', 'theorems': [], 'axioms': {}, 'source': str(src), 'generated': gen_name}
    rc, out = sh([sys.executable, '-B', str(VERIF / 'harness' / 'py2coq.py'), str(src), str(d)] + TIE_NEEDS.get(group, []) + [group], 120)
    if rc != 0:
        res['log'] = out[-1500:]
        rep.violation('proof/source-tie/translator',
                      'the source is no longer inside the subset the source translator reads: ' + out.strip().splitlines()[-1][:300],
                      {'theorem': f'harness/py2coq.py (translation group {group} -> {gen_name})', 'log': out[-1500:]}, no_input=True)
        return res
    gen = (d / gen_name).read_text()
    for m in FORBIDDEN.finditer(re.sub(r'\(\*.*?\*\)', '', gen, flags=re.S)):
        res['log'] = 'forbidden word in the generated file: ' + m.group(0)
        rep.violation('proof/source-tie/forbidden', res['log'], {'theorem': gen_name}, no_input=True)
        return res
    import hashlib as _h
    res['generated_sha1'] = _h.sha1(gen.encode()).hexdigest()
    for name in tie_files:
        res['stage'] = name
        rc, out = sh(['timeout', '900', 'coqc', '-Q', str(COQ / 'theories'), 'Femto', '-Q', str(d), 'FemtoTie', '-w', COQ_W, f'{name}.v'],
                     950, cwd=d)
        if rc != 0:
            res['log'] = out[-2500:]
            lemma = '?'
            m = re.search(r'File "\./(\w+)\.v", line (\d+)', out)
            if m:
                lines = (d / f'{m.group(1)}.v').read_text().splitlines()[:int(m.group(2))]
                for ln in reversed(lines):
                    mm = re.match(r'\s*(?:Lemma|Theorem|Corollary|Example|Definition|Fixpoint)\s+([\w\']+)', ln)
                    if mm:
                        lemma = mm.group(1)
                        break
            rep.violation(f'proof/source-tie/{name}',
                          f'the methods translated from the source no longer satisfy the equivalence with the model: tie/{name}.v fails at {lemma}',
                          {'theorem': f'coq/tie/{name}.v: {lemma}', 'log': out[-2500:]}, no_input=True)
            return res
        if name in (stmt_file if isinstance(stmt_file, list) else [stmt_file]):
            text = (d / f'{name}.v').read_text()
            printed = re.findall(r'^\s*Print Assumptions\s+([A-Za-z_][\w\']*)\s*\.', text, flags=re.M)
            blocks = [b for b in re.split(r'^(?=Closed under the global context|Axioms:)', out, flags=re.M)
                      if b.startswith('Closed under') or b.startswith('Axioms:')]
            if len(blocks) != len(printed):
                res['log'] = f'expected {len(printed)} assumption blocks, got {len(blocks)}'
                rep.violation('proof/source-tie/assumptions', res['log'], {'theorem': f'coq/tie/{name}.v'}, no_input=True)
                return res
            for nm, b in zip(printed, blocks):
                ax = [] if b.startswith('Closed under') else [a for a in re.findall(r'^([A-Za-z_][\w.\']*)\s*(?::|$)', b, flags=re.M) if a != 'Axioms']
                res['axioms'][nm] = ax
                bad = [a for a in ax if a not in AXIOM_WHITELIST]
                if bad:
                    rep.violation('proof/source-tie/assumptions', f'{nm} depends on {bad}', {'theorem': nm}, no_input=True)
                    return res
            res['theorems'] = res['theorems'] + printed
    res['ok'] = True
    res['stage'] = 'done'
    shutil.rmtree(d, ignore_errors=True)
    return res


def source_tie(rep: Report, prop: str) -> dict:
    """all translation groups of a property; merged result"""
    groups = TIES[prop] if isinstance(TIES[prop], list) else [TIES[prop]]
    merged = {'ok': True, 'stage': 'done', 'theorems': [], 'axioms': {}, 'source': None, 'generated': [], 'generated_sha1': []}
    for group, files, stmt in groups:
        r = source_tie_group(rep, prop, group, files, stmt)
        merged['source'] = r.get('source')
        merged['generated'].append(r.get('generated'))
        merged['generated_sha1'].append(r.get('generated_sha1'))
        merged['theorems'] += r['theorems']
        merged['axioms'].update(r['axioms'])
        if not r['ok']:
            merged['ok'] = False
            merged['stage'] = f"{group}:{r['stage']}"
    return merged


def static_obligations(rep: Report, prop: str, tier: str = 'quick'):
    """make + forbidden-word scan + Props/<prop>.v assumptions (+ coqchk -o in the thorough tier). Returns the proof dict."""
    ok, log = build_coq()
    if not ok:
        rep.violation('proof/build', 'the Coq development no longer builds',
                      {'theorem': 'make -C /verif/coq', 'log': log[-3000:]}, no_input=True)
        return {'theorems': ['build'], 'ok': False, 'axioms': {}}
    hits = scan_forbidden()
    if hits:
        rep.violation('proof/forbidden', 'forbidden declaration in the development', {'hits': hits}, no_input=True)
    proof = check_props(prop)
    if not proof['ok']:
        rep.violation('proof/props', f'Props/{prop}.v no longer checks', {'theorem': f'Props/{prop}.v', 'log': proof['log']},
                      no_input=True)
    if prop in TIE_PROPS:
        tie = source_tie(rep, prop)
        proof['source_tie'] = {k: tie[k] for k in ('ok', 'stage', 'theorems', 'axioms', 'source', 'generated') if k in tie}
        proof['source_tie']['generated_sha1'] = tie.get('generated_sha1')
        if tie['ok']:
            proof['theorems'] = proof['theorems'] + ['tie:' + t for t in tie['theorems']]
            proof['axioms'].update({'tie:' + k: v for k, v in tie['axioms'].items()})
        else:
            proof['theorems'] = proof['theorems'] + ['tie:' + tie['stage']]
            proof['undischarged'] = 1
    if tier == 'thorough':
        chk = run_coqchk(prop)
        proof['coqchk'] = {'ok': chk['ok'], 'axioms_of_all_loaded_libraries': chk['axioms'], 'unsafe': chk['unsafe']}
        if not chk['ok']:
            rep.violation('proof/coqchk', f'coqchk rejects Props/{prop}.vo or reports axioms / unchecked definitions outside the whitelist',
                          {'theorem': f'coqchk -o Femto.Props.{prop}', 'bad_axioms': chk['bad_axioms'], 'unsafe': chk['unsafe'],
                           'log': chk['log']}, no_input=True)
    return proof
